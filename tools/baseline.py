#!/usr/bin/env python3
"""Runs the repository's pinned test suite (guard off) and checks that every test in
BASELINE.stable_pass still passes.  Usage: tools/baseline.py [repo_dir]"""
import json, os, subprocess, sys, tempfile, xml.etree.ElementTree as ET
repo = sys.argv[1] if len(sys.argv) > 1 else "/repo"
base = json.load(open("/root/.vp/BASELINE.json"))
out = tempfile.mktemp(suffix=".xml", dir="/var/tmp")
env = dict(os.environ); env.pop("AUDIOLAZY_VERIF", None); env["PYTHONDONTWRITEBYTECODE"] = "1"
subprocess.run(["/venv/bin/python", "-m", "pytest", "-q", "-p", "no:cacheprovider", "--timeout=900",
                "--continue-on-collection-errors", "--junitxml=" + out], cwd=repo, env=env,
               stdout=subprocess.DEVNULL, stderr=subprocess.DEVNULL)
passed = set()
for tc in ET.parse(out).getroot().iter("testcase"):
  if not any(ch.tag in ("failure", "error", "skipped") for ch in tc):
    passed.add("%s::%s" % (tc.get("classname"), tc.get("name")))
os.remove(out)
missing = [t for t in base["stable_pass"] if t not in passed]
print("baseline: %d/%d stable tests pass; %d tests pass in total" % (len(base["stable_pass"]) - len(missing), len(base["stable_pass"]), len(passed)))
for t in missing[:20]:
  print("  NOT PASSING:", t)
sys.exit(1 if missing else 0)
