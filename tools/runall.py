#!/usr/bin/env python3
"""Runs every check registered in MANIFEST.json against /repo (tools/runall.py [--tier quick|thorough] [--jobs N] [--only C01,C02]).
Prints one line per check; exit 1 if any check exits non-zero.  Evidence files are rewritten by the checks themselves."""
import argparse, json, os, subprocess, sys, time
from concurrent.futures import ThreadPoolExecutor
ROOT = os.path.dirname(os.path.dirname(os.path.abspath(__file__)))
ap = argparse.ArgumentParser(); ap.add_argument("--tier", default="quick"); ap.add_argument("--jobs", type=int, default=3)
ap.add_argument("--only", default="")
a = ap.parse_args()
man = json.load(open(os.path.join(ROOT, "MANIFEST.json")))
def one(c):
  t0 = time.time()
  cmd = c["quick_cmd"] if a.tier == "quick" else c.get("thorough_cmd", c["quick_cmd"])
  env = dict(os.environ); env.pop("VERIF_REPO", None)
  p = subprocess.run(cmd, shell=True, cwd=ROOT, env=env, stdout=subprocess.PIPE, stderr=subprocess.STDOUT)
  lines = [l for l in p.stdout.decode("utf-8", "replace").split("\n") if l.startswith(("OK ", "VIOLATION", "KNOWN-FINDING"))]
  return c["property_id"], p.returncode, time.time() - t0, lines
checks = [c for c in man["checks"] if not a.only or c["property_id"] in a.only.split(",")]
bad = 0
with ThreadPoolExecutor(a.jobs) as ex:
  for pid, rc, dt, lines in ex.map(one, checks):
    print("%s rc=%d %.0fs %s" % (pid, rc, dt, " | ".join(l[:110] for l in lines)), flush=True)
    bad += rc != 0
sys.exit(1 if bad else 0)
