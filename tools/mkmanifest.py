#!/usr/bin/env python3
"""Regenerates MANIFEST.json from the table below (kept in one place so it stays valid)."""
import json, os
ROOT = os.path.dirname(os.path.dirname(os.path.abspath(__file__)))
BASE = json.load(open("/root/.vp/BASELINE.json")) if os.path.exists("/root/.vp/BASELINE.json") else {}

# pid -> (technique, level text, level note, design ref)
CLAIMED = {
  "C08": ("Coq proof (induction over the input, generalised loop invariant) that the generator model equals the closed form + exhaustive differential execution of model and code inside Coq",
          "Theorem blocks_model_eq_spec: for every input list, size>=1, hop>=1 and pad value the statement-by-statement model of the blocks generator yields exactly the closed-form blocks (complete hop-spaced windows, then the padded tail iff it holds more than max(size-hop,0) items); zero_pad likewise. The model is tied to /repo by running blocks / Stream.blocks / zero_pad on an exhaustive grid and letting Coq compare observation, model and spec by vm_compute.",
          "Coq kernel + vm_compute; hand-written model (coq/theories/C08/Model.v) tied by correspondence on the enumerated grid only; CPython deque/generator semantics assumed", "5/C08"),
}
CLAIMED["C16"] = (
  "Coq proof by forward simulation (invariant over the mixer state incl. the no-drift counter identity) that the Streamix model refines the closed-form history spec + differential execution of histories in exact arithmetic evaluated inside Coq",
  "Theorem run_eq_spec_run: for every history of add/next operations (any length, any exact rational deltas/data, keep on/off, any zero) the line-by-line model of Streamix produces exactly the outputs of the closed form (event i sounds from S_i = max(ceil(T_i - 1/2), samples already produced when added), output n = zero + items due at n, end when every event has ended); corollaries: negative delta rejected, never early, nearest-sample start, keep never stops, ControlStream yields the last assigned value. Model tied to /repo by exhaustive small + seeded random histories run on the real Streamix/ControlStream with exact rationals and compared in Coq.",
  "Coq kernel + vm_compute; hand-written model (coq/theories/C16/Model.v); exact rationals (ExactQ) stand for floats: float rounding of fractional deltas in the real counter is outside the model", "5/C16")
CLAIMED["C15"] = (
  "Coq proof by forward simulation (coherence invariant between the three dicts and a stamped abstract map) for MultiKeyDict and StrategyDict + differential execution of operation histories evaluated inside Coq",
  "Theorems mkd_refines / sd_refines: for every history of item assignments (key or key tuple), deletions and attribute deletions, the line-by-line model of MultiKeyDict / StrategyDict shows after every step exactly the view of a key -> (value, stamp) map: d[k] is the last value assigned, each value owns one tuple listing its keys by increasing stamp, len/iteration count values, deleting a missing key raises, attributes equal items, the default is the first strategy stored and is re-chosen when it loses its last name. Model tied to /repo by exhaustive short histories + seeded long ones with every observable compared after every step inside Coq.",
  "Coq kernel + vm_compute; hand-written model (coq/theories/C15/Model.v); hypothesis kt <> [] on tuple assignments (d[()] = v is outside the property); keys are attribute-safe names not colliding with class attributes", "5/C15")
NOT_YET = {}

def main():
  props = [json.loads(l) for l in open(os.path.join(ROOT, "properties.jsonl"))]
  checks, na = [], []
  for p in props:
    pid = p["id"]
    if pid in CLAIMED:
      tech, text, note, ref = CLAIMED[pid]
      checks.append({
        "property_id": pid,
        "quick_cmd": "./check %s --tier quick" % pid,
        "thorough_cmd": "./check %s --tier thorough" % pid,
        "evidence_file": "/verif/evidence/%s.json" % pid,
        "replay_cmd_template": "./check %s --replay {path}" % pid,
        "engine": "coq-proof+correspondence",
        "level_claimed": {"category": "proof", "text": text, "design_ref": "DESIGN.md section " + ref},
        "level_note": note,
        "technique": tech,
      })
    else:
      na.append({"property_id": pid, "reason": NOT_YET.get(pid, "not claimed yet: the Coq model, theorems and correspondence harness for this property are still being built (planned in DESIGN.md section 5); no check is registered until it is sound")})
  man = {
    "version": 1,
    "setup_cmd": "./setup.sh",
    "hooks": {"guard": "AUDIOLAZY_VERIF", "enable": "no source hooks: the harness observes /repo by importing it with PYTHONPATH=/repo and patching module attributes in its own process (AUDIOLAZY_VERIF=1 is exported but nothing in /repo reads it)",
              "baseline_off_cmd": BASE.get("cmd", "cd /repo && /venv/bin/python -m pytest -ra -q -p no:cacheprovider --timeout=900 --continue-on-collection-errors --junitxml=<file>"),
              "source_commits": [], "add_only": True},
    "engines": [{"name": "coq-proof+correspondence", "path": "/verif/check",
                 "serves_properties": sorted(CLAIMED), "kind_free_text": "Coq 8.16.1 theorems about hand-written / translated Gallina models; models tied to /repo on every run by differential execution evaluated inside Coq (vm_compute)"}],
    "checks": checks,
    "not_applicable": na,
    "notes": "See DESIGN.md. Known findings are in known_findings.json.",
  }
  json.dump(man, open(os.path.join(ROOT, "MANIFEST.json"), "w"), indent=1)

main()
