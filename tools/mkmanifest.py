#!/usr/bin/env python3
"""Regenerates MANIFEST.json from the table below (kept in one place so it stays valid)."""
import json, os
ROOT = os.path.dirname(os.path.dirname(os.path.abspath(__file__)))
BASE = json.load(open("/root/.vp/BASELINE.json")) if os.path.exists("/root/.vp/BASELINE.json") else {}

CLAIMED = {k: (v["technique"], v["text"], v["note"], v["ref"]) for k, v in json.load(open(os.path.join(ROOT, "tools", "claims.json"))).items()}
NOT_YET = {}

def main():
  props = [json.loads(l) for l in open(os.path.join(ROOT, "properties.jsonl"))]
  checks, na = [], []
  for p in props:
    pid = p["id"]
    if pid in CLAIMED:
      tech, text, note, ref = CLAIMED[pid]
      checks.append({
        "property_id": pid,
        "quick_cmd": "./check %s --tier quick" % pid,
        "thorough_cmd": "./check %s --tier thorough" % pid,
        "evidence_file": "/verif/evidence/%s.json" % pid,
        "replay_cmd_template": "./check %s --replay {path}" % pid,
        "engine": "coq-proof+correspondence",
        "level_claimed": {"category": "proof", "text": text, "design_ref": "DESIGN.md section " + ref},
        "level_note": note,
        "technique": tech,
      })
    else:
      na.append({"property_id": pid, "reason": NOT_YET.get(pid, "not claimed yet: the Coq model, theorems and correspondence harness for this property are still being built (planned in DESIGN.md section 5); no check is registered until it is sound")})
  man = {
    "version": 1,
    "setup_cmd": "./setup.sh",
    "hooks": {"guard": "AUDIOLAZY_VERIF", "enable": "no source hooks: the harness observes /repo by importing it with PYTHONPATH=/repo and patching module attributes in its own process (AUDIOLAZY_VERIF=1 is exported but nothing in /repo reads it)",
              "baseline_off_cmd": BASE.get("cmd", "cd /repo && /venv/bin/python -m pytest -ra -q -p no:cacheprovider --timeout=900 --continue-on-collection-errors --junitxml=<file>"),
              "source_commits": [], "add_only": True},
    "engines": [{"name": "coq-proof+correspondence", "path": "/verif/check",
                 "serves_properties": sorted(CLAIMED), "kind_free_text": "Coq 8.16.1 theorems about hand-written / translated Gallina models; models tied to /repo on every run by differential execution evaluated inside Coq (vm_compute)"}],
    "checks": checks,
    "not_applicable": na,
    "notes": "See DESIGN.md. Known findings are in known_findings.json.",
  }
  json.dump(man, open(os.path.join(ROOT, "MANIFEST.json"), "w"), indent=1)

main()
