#!/usr/bin/env python3
"""Runs the registered checks against the seeded changes kept under /verif/seeded/<id>/.

  tools/selftest.py [--inplace] [--tier quick] [--only ID[,ID...]] [--jobs N]

For each seeded/<id>/ (patch.diff, demo, meta.json with "property"): the patch is applied to a scratch copy of
/repo under /var/tmp (default; the check is pointed at it with VERIF_REPO) or, with --inplace, to /repo itself
(git apply, run, git checkout -- . straight afterwards), and the check of the property it breaks is run.  A seeded
change counts as caught when the check exits 1 and prints a VIOLATION line; "with input" when the line does not end
with no-failing-input-found.  Results are written to seeded/RESULTS.json and printed as a table.
Not a MANIFEST check: this is the self-test of the machinery (DESIGN.md section 9.5)."""
import argparse, json, os, shutil, subprocess, sys, time, glob, re
from concurrent.futures import ThreadPoolExecutor
ROOT = os.path.dirname(os.path.dirname(os.path.abspath(__file__)))


def run(cmd, env=None, cwd=None, timeout=3600):
  p = subprocess.run(cmd, shell=True, cwd=cwd, env=env, stdout=subprocess.PIPE, stderr=subprocess.STDOUT, timeout=timeout)
  return p.returncode, p.stdout.decode("utf-8", "replace")


def one(sid, a):
  d = os.path.join(ROOT, "seeded", sid)
  meta = json.load(open(os.path.join(d, "meta.json")))
  pid = meta["property"]
  patch = os.path.join(d, "patch.diff")
  env = dict(os.environ)
  t0 = time.time()
  scratch = None
  try:
    if a.inplace:
      rc, out = run("git -C /repo apply %s" % patch)
      if rc:
        return {"id": sid, "property": pid, "error": "patch does not apply: " + out[-300:]}
    else:
      scratch = "/var/tmp/selftest_%s_%d" % (sid, os.getpid())
      shutil.rmtree(scratch, ignore_errors=True)
      rc, out = run("rsync -a --exclude .git --exclude __pycache__ --exclude '*.egg-info' /repo/ %s/" % scratch)
      rc, out = run("git apply %s" % patch, cwd=scratch)
      if rc:
        rc, out = run("patch -p1 < %s" % patch, cwd=scratch)
      if rc:
        return {"id": sid, "property": pid, "error": "patch does not apply: " + out[-300:]}
      env["VERIF_REPO"] = scratch
    checks = [pid] + [p for p in meta.get("also_run", [])]
    res = {"id": sid, "property": pid, "checks": {}}
    for c in checks:
      rc, out = run("./check %s --tier %s" % (c, a.tier), env=env, cwd=ROOT)
      lines = [l for l in out.split("\n") if l.startswith(("VIOLATION", "OK ", "KNOWN-FINDING"))]
      viol = [l for l in lines if l.startswith("VIOLATION")]
      res["checks"][c] = {"rc": rc, "lines": lines[:4],
                          "caught": rc == 1 and bool(viol),
                          "with_input": bool(viol) and not viol[0].rstrip().endswith("no-failing-input-found")}
    res["caught"] = res["checks"][pid]["caught"]
    res["with_input"] = res["checks"][pid]["with_input"]
    if meta.get("retired"):  # a change that became harmless (its demo passes on the current tree): the check must stay OK
      res["retired"] = meta["retired"]
      res["harmless_ok"] = res["checks"][pid]["rc"] == 0
    res["wall_s"] = round(time.time() - t0, 1)
    return res
  finally:
    if a.inplace:
      run("git -C /repo checkout -- .")
    elif scratch:
      shutil.rmtree(scratch, ignore_errors=True)


def main():
  ap = argparse.ArgumentParser()
  ap.add_argument("--inplace", action="store_true")
  ap.add_argument("--tier", default="quick")
  ap.add_argument("--only", default="")
  ap.add_argument("--jobs", type=int, default=1)
  a = ap.parse_args()
  ids = sorted(os.path.basename(os.path.dirname(p)) for p in glob.glob(os.path.join(ROOT, "seeded", "*", "meta.json")))
  if a.only:
    ids = [i for i in ids if i in a.only.split(",") or i.split("-")[0] in a.only.split(",")]
  ids.sort(key=lambda i: (i.split('-')[1], i.split('-')[0]))  # runs of one property share a lock: interleave properties
  jobs = 1 if a.inplace else a.jobs
  with ThreadPoolExecutor(jobs) as ex:
    def one_logged(sid):
      r = one(sid, a)
      with open("/var/tmp/selftest_progress.jsonl", "a") as f:   # survives an interrupted run
        f.write(json.dumps(r) + "\n")
      return r
    results = list(ex.map(one_logged, ids))
  path = os.path.join(ROOT, "seeded", "RESULTS.json")
  old = {}
  if os.path.exists(path):
    old = {r["id"]: r for r in json.load(open(path))}
  for r in results:
    old[r["id"]] = r
  json.dump([old[k] for k in sorted(old)], open(path, "w"), indent=1)
  bad = 0
  for r in results:
    if "error" in r:
      print("%-14s %-4s ERROR %s" % (r["id"], r["property"], r["error"])); bad += 1; continue
    if "retired" in r:
      print("%-14s %-4s %s  %ss" % (r["id"], r["property"], "HARMLESS-OK (control: check stays OK)" if r["harmless_ok"]
                                    else "FALSE-ALARM on a harmless change", r["wall_s"]))
      bad += not r["harmless_ok"]; continue
    print("%-14s %-4s %s %s  %ss" % (r["id"], r["property"], "CAUGHT" if r["caught"] else "MISSED",
                                     "(failing input)" if r["with_input"] else "(no-failing-input-found)" if r["caught"] else "", r["wall_s"]))
    bad += not r["caught"]
  return 1 if bad else 0


if __name__ == "__main__":
  sys.exit(main())
