#!/usr/bin/env python3
"""Confirms seeded changes proposed by an independent sub-agent and files the confirmed ones under seeded/.

  tools/seed_intake.py <out_dir> <PID> [--tag x]

<out_dir> holds m<k>.diff, m<k>_demo.py, m<k>.json.  For each k: a scratch copy of /repo (current HEAD working tree)
is made under /var/tmp, the demo is run on it (must exit 0), the patch is applied (must apply), the pinned test
suite is run (every BASELINE stable test must still pass), the demo is run again (must exit non-zero); then the
scratch copy is removed.  Confirmed changes are copied to seeded/<PID>-<tag><k>/ {patch.diff, demo.py, meta.json}."""
import json, os, shutil, subprocess, sys, glob, re
ROOT = os.path.dirname(os.path.dirname(os.path.abspath(__file__)))


def run(cmd, cwd=None, env=None, timeout=1800):
  p = subprocess.run(cmd, shell=True, cwd=cwd, env=env, stdout=subprocess.PIPE, stderr=subprocess.STDOUT, timeout=timeout)
  return p.returncode, p.stdout.decode("utf-8", "replace")


def main():
  out_dir, pid = sys.argv[1], sys.argv[2]
  tag = sys.argv[4] if len(sys.argv) > 4 and sys.argv[3] == "--tag" else "m"
  for diff in sorted(glob.glob(os.path.join(out_dir, "m*.diff"))):
    k = re.match(r"m(\d+)\.diff", os.path.basename(diff)).group(1)
    demo = os.path.join(out_dir, "m%s_demo.py" % k)
    info = {}
    try:
      info = json.load(open(os.path.join(out_dir, "m%s.json" % k)))
    except Exception:
      pass
    scratch = "/var/tmp/intake_%s_%s_%d" % (pid, k, os.getpid())
    shutil.rmtree(scratch, ignore_errors=True)
    run("rsync -a --exclude .git --exclude __pycache__ --exclude '*.egg-info' --exclude .coverage /repo/ %s/" % scratch)
    env = dict(os.environ, PYTHONPATH=scratch, PYTHONDONTWRITEBYTECODE="1", PYTHONHASHSEED="0")
    ran = []
    try:
      rc0, o0 = run("timeout 300 /venv/bin/python -W ignore %s" % demo, cwd="/var/tmp", env=env)
      ran.append("demo on unchanged copy: exit %d" % rc0)
      rca, oa = run("git apply %s" % diff, cwd=scratch)
      if rca:
        rca, oa = run("patch -p1 < %s" % diff, cwd=scratch)
      ran.append("apply: exit %d" % rca)
      rcb, ob = run("python3 %s/tools/baseline.py %s" % (ROOT, scratch))
      ran.append("baseline: " + ob.strip().split("\n")[-1] if rcb == 0 else "baseline FAILED: " + ob[-300:])
      rc1, o1 = run("timeout 300 /venv/bin/python -W ignore %s" % demo, cwd="/var/tmp", env=env)
      ran.append("demo on changed copy: exit %d (%s)" % (rc1, o1.strip().split("\n")[-1][:200]))
    finally:
      shutil.rmtree(scratch, ignore_errors=True)
    ok = rc0 == 0 and rca == 0 and rcb == 0 and rc1 != 0
    print("%s m%s: %s | %s" % (pid, k, "CONFIRMED" if ok else "REJECTED", " ; ".join(ran)))
    if ok:
      d = os.path.join(ROOT, "seeded", "%s-%s%s" % (pid, tag, k))
      os.makedirs(d, exist_ok=True)
      shutil.copy(diff, os.path.join(d, "patch.diff"))
      shutil.copy(demo, os.path.join(d, "demo.py"))
      meta = {"property": pid, "summary": info.get("summary", ""), "needs": info.get("needs", ""),
              "files": info.get("files", []), "source": "independent sub-agent given only the property text and a scratch worktree",
              "confirmed_by": ran}
      json.dump(meta, open(os.path.join(d, "meta.json"), "w"), indent=1)


main()
