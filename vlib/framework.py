# -*- coding: utf-8 -*-
"""
Check driver shared by all properties (see DESIGN.md section 2 and 9).

A property module (harness/Cxx.py) provides:

  PID            "Cxx"
  COQ_DIR        directory name under coq/theories (usually PID)
  PROP_FILES     list of Prop_*.v basenames (without .v) inside COQ_DIR that hold
                 the property theorems (only Theorem / exact / Print Assumptions)
  ALLOWED_AXIOMS list of regexes of axiom names that may appear in Print
                 Assumptions output (standard-library axioms only)
  FAMILIES       dict name -> Family(...)
  pregen(chk)    optional: run translators (returns list of error strings)
  trusted_base   list of strings

A Family describes one kind of case:
  imports   : Coq "From AL Require Import ..." line(s) for the case files
  corr, holds : names of the Coq boolean checkers (case -> bool)
  ctype     : Coq type of one case
  gen(tier, rng) -> iterable of case dicts (must be JSON-able), each with a
                 "tags" list for the distribution histogram
  run(case) -> observation (JSON-able), executes the real implementation
  lit(case, obs) -> Coq literal of type ctype
  nontrivial(case, obs) -> bool
  known(case, obs) -> None or a finding id from known_findings.json
"""
from __future__ import print_function
import os, sys, re, json, time, hashlib, subprocess, random, signal, fcntl, glob
import argparse, importlib, traceback, shutil, collections

ROOT = os.path.dirname(os.path.dirname(os.path.abspath(__file__)))
COQ = os.path.join(ROOT, "coq")
BUILD = os.path.join(ROOT, "build")
REPO = os.environ.get("VERIF_REPO", "/repo")
NPROC = 16
CASES_PER_FILE = 400

HYGIENE_RE = re.compile(
  r"\b(Admitted|admit|Axiom|Axioms|Parameter|Parameters|Conjecture|Conjectures|"
  r"Admit\s+Obligations|bypass_check|type-in-type|impredicative-set)\b"
  r"|Unset\s+Guard|Unset\s+Positivity|Unset\s+Universe\s+Checking|Unset\s+Guard\s+Checking")


class Family(object):
  def __init__(self, name, imports, ctype, corr, holds, gen, run, lit,
               nontrivial=None, known=None, timeout=10, preamble=""):
    self.name, self.imports, self.ctype = name, imports, ctype
    self.corr, self.holds = corr, holds
    self.gen, self.run, self.lit = gen, run, lit
    self.nontrivial = nontrivial or (lambda c, o: True)
    self.known = known or (lambda c, o: None)
    # generous lower bound: a loaded machine (16 checks in parallel) must never turn a slow case into a 'Timeout'
    # observation on code where the property holds; a genuine endless loop costs three such waits, then 1 s per case
    self.timeout = max(timeout, 60)
    self.preamble = preamble


class ImplTimeout(BaseException):
  """Not an Exception subclass: observers that catch Exception (to record the implementation's error type)
  must not swallow the watchdog."""
  pass


def _alarm(signum, frame):
  raise ImplTimeout()


def run_with_timeout(fn, arg, secs):
  """Runs the implementation on one case; an endless loop becomes an observation."""
  old = signal.signal(signal.SIGALRM, _alarm)
  signal.setitimer(signal.ITIMER_REAL, secs, 1.0)   # fires again every second should a bare except swallow it
  try:
    return fn(arg)
  except ImplTimeout:
    return {"raise": "Timeout"}
  finally:
    signal.setitimer(signal.ITIMER_REAL, 0)
    signal.signal(signal.SIGALRM, old)


def strip_comments(text):
  out, depth, i, n = [], 0, 0, len(text)
  while i < n:
    if text.startswith("(*", i):
      depth += 1; i += 2
    elif text.startswith("*)", i) and depth:
      depth -= 1; i += 2
    else:
      if not depth:
        out.append(text[i])
      i += 1
  return "".join(out)


def sh(cmd, timeout, cwd=None, env=None):
  t0 = time.time()
  try:
    p = subprocess.run(cmd, shell=isinstance(cmd, str), cwd=cwd, env=env,
                       stdout=subprocess.PIPE, stderr=subprocess.STDOUT,
                       timeout=timeout)
    return p.returncode, p.stdout.decode("utf-8", "replace"), time.time() - t0
  except subprocess.TimeoutExpired as e:
    out = (e.stdout or b"").decode("utf-8", "replace")
    return 124, out + "\n[timeout after %ss]" % timeout, time.time() - t0


class Checker(object):
  def __init__(self, mod, tier, seed):
    self.mod, self.tier, self.seed = mod, tier, seed
    self.pid = mod.PID
    self.t0 = time.time()
    self.cmds = []
    self.broken = []          # (kind, name, detail) proof / tie obligations that no longer check
    self.violations = []      # dicts with concrete failing inputs
    self.known_hits = collections.OrderedDict()
    self.obligations = 0
    self.discharged = 0
    self.axioms_seen = set()
    self.theorems = []
    self.stats = {"evaluations": 0, "nontrivial_hashes": set(), "tags": collections.Counter(),
                  "samples": [], "corr_bad": 0, "holds_bad": 0, "families": {}}
    self.bdir = os.path.join(BUILD, self.pid)
    self.findings = load_findings()

  # ---------------------------------------------------------------- Coq build
  def coqdir(self):
    return os.path.join(COQ, "theories", getattr(self.mod, "COQ_DIR", self.pid))

  def vfiles(self):
    dirs = [os.path.join(COQ, "theories", "Base"), self.coqdir()]
    for d in getattr(self.mod, "EXTRA_COQ_DIRS", []):
      dirs.append(os.path.join(COQ, "theories", d))
    res = []
    for d in dirs:
      res += sorted(glob.glob(os.path.join(d, "*.v")))
    return res

  def hygiene(self):
    bad = []
    for f in self.vfiles() + [os.path.join(COQ, "_CoqProject")]:
      txt = strip_comments(open(f).read())
      for m in HYGIENE_RE.finditer(txt):
        bad.append("%s: %s" % (os.path.relpath(f, ROOT), m.group(0)))
    if bad:
      self.broken.append(("hygiene", "forbidden vernacular", "; ".join(bad[:10])))
    return not bad

  def make(self):
    """Full .vo build of everything the property's Prop files need (under a lock,
    so that concurrent checks do not race on the shared Base library)."""
    ensure_makefile()
    targets = []
    for f in sorted(glob.glob(os.path.join(self.coqdir(), "*.v"))):
      base = os.path.basename(f)
      if base[:-2] in self.mod.PROP_FILES:
        continue
      targets.append(os.path.relpath(f, COQ) + "o")
    cmd = "make -k -j%d %s" % (NPROC, " ".join(targets))
    self.cmds.append("cd coq && " + cmd)
    with open(os.path.join(COQ, ".build.lock"), "w") as lk:
      fcntl.flock(lk, fcntl.LOCK_EX)
      rc, out, dt = sh("timeout 1500 " + cmd, 1600, cwd=COQ)
    if rc != 0:
      m = re.search(r'File "([^"]+)", line (\d+)', out)
      where = "%s:%s" % (m.group(1), m.group(2)) if m else "?"
      self.broken.append(("proof", "build of %s" % where, out[-1500:]))
    return rc == 0

  def props(self):
    """Compiles each Prop file, counts theorems, parses Print Assumptions."""
    allowed = [re.compile(a) for a in getattr(self.mod, "ALLOWED_AXIOMS", [])]
    for pf in self.mod.PROP_FILES:
      path = os.path.join(self.coqdir(), pf + ".v")
      src = strip_comments(open(path).read())
      names = re.findall(r"\b(?:Theorem|Lemma|Example|Corollary)\s+([A-Za-z0-9_']+)", src)
      printed = re.findall(r"Print\s+Assumptions\s+([A-Za-z0-9_']+)", src)
      self.obligations += len(names)
      self.theorems += names
      for n in names:
        if n not in printed:
          self.broken.append(("proof", n, "no Print Assumptions under theorem %s in %s" % (n, pf)))
      cmd = "coqc -Q theories AL %s" % os.path.relpath(path, COQ)
      self.cmds.append("cd coq && " + cmd)
      with open(os.path.join(COQ, ".build.lock"), "w") as lk:
        fcntl.flock(lk, fcntl.LOCK_EX)
        rc, out, dt = sh("timeout 900 " + cmd, 1000, cwd=COQ)
      if rc != 0:
        m = re.search(r"line (\d+)", out)
        failing = "?"
        if m:
          # name of the last theorem declared before the failing line
          ln = int(m.group(1))
          lines = open(path).read().split("\n")[:ln]
          found = re.findall(r"\b(?:Theorem|Lemma|Example|Corollary)\s+([A-Za-z0-9_']+)", "\n".join(lines))
          failing = found[-1] if found else "?"
        self.broken.append(("proof", failing, "%s does not compile: %s" % (pf, out[-1200:])))
        continue
      # parse the assumption blocks: "Closed under the global context" or "Axioms:\n name : type"
      blocks = re.split(r"(?=Closed under the global context|Axioms:)", out)
      nblocks = 0
      ok_blocks = 0
      for b in blocks:
        if b.startswith("Closed under the global context"):
          nblocks += 1; ok_blocks += 1
        elif b.startswith("Axioms:"):
          nblocks += 1
          axs = [a for a in re.findall(r"^([A-Za-z_][A-Za-z0-9_.']*)\s*:", b, re.M) if a != "Axioms"]
          good = True
          for a in axs:
            self.axioms_seen.add(a)
            if not any(r.match(a) for r in allowed):
              good = False
              self.broken.append(("proof", "assumptions", "axiom %s outside the allow-list (in %s)" % (a, pf)))
          ok_blocks += good
      if nblocks != len(printed):
        self.broken.append(("proof", "assumptions", "%d Print Assumptions answers for %d requests in %s" % (nblocks, len(printed), pf)))
      self.discharged += min(len(names), ok_blocks) if nblocks == len(printed) else 0

  def coqchk(self):
    """Thorough tier: re-check the compiled Prop libraries and everything they depend on with the
    independent checker; record the axioms of the whole loaded context."""
    for pf in self.mod.PROP_FILES:
      lib = "AL.%s.%s" % (getattr(self.mod, "COQ_DIR", self.pid), pf)
      cmd = "coqchk -silent -o -Q theories AL %s" % lib
      self.cmds.append("cd coq && " + cmd)
      rc, out, dt = sh("timeout 3000 " + cmd, 3100, cwd=COQ)
      if rc != 0:
        self.broken.append(("proof", "coqchk " + lib, out[-1200:]))
        continue
      summ = out[out.find("CONTEXT SUMMARY"):]
      self.coqchk_summary = " ".join(summ.split())[:4000]
      for head in ("relying on type-in-type", "relying on unsafe (co)fixpoints", "whose positivity is assumed"):
        m = re.search(re.escape(head) + r":\s*(\S+)", summ)
        if not m or m.group(1) != "<none>":
          self.broken.append(("proof", "coqchk " + lib, "context summary: %s is not <none>" % head))

  # ---------------------------------------------------------------- cases
  def run_family(self, fam, cases):
    """Runs the implementation on every case, lets Coq evaluate corr/holds."""
    os.makedirs(self.bdir, exist_ok=True)
    obs = []
    ntimeouts = 0
    for c in cases:
      try:
        # a hanging implementation must not stall the whole check: after three watchdog hits the
        # remaining cases of the family get one second each
        o = run_with_timeout(fam.run, c, fam.timeout if ntimeouts < 3 else 1)
        if isinstance(o, dict) and o.get("raise") == "Timeout":
          ntimeouts += 1
      except Exception as e:  # harness bug or an exception the observer does not classify
        o = {"raise": type(e).__name__, "harness_msg": str(e)[:200]}
      obs.append(o)
    lits = []
    for c, o in zip(cases, obs):
      lits.append(fam.lit(c, o))
    files = []
    for k in range(0, len(cases), CASES_PER_FILE):
      name = "cases_%s_%d" % (fam.name, k // CASES_PER_FILE)
      path = os.path.join(self.bdir, name + ".v")
      with open(path, "w") as f:
        f.write("From Coq Require Import List ZArith QArith Qcanon String.\nImport ListNotations.\n")
        f.write("From AL Require Import Base.CaseLib.\n%s\n%s\n" % (fam.imports, fam.preamble))
        f.write("Open Scope string_scope.\n")
        f.write("Definition cases : list (%s) := [\n" % fam.ctype)
        f.write(";\n".join(lits[k:k + CASES_PER_FILE]))
        f.write("\n].\n")
        f.write("Eval vm_compute in (bad_idx %s cases, bad_idx %s cases).\n" % (fam.corr, fam.holds))
      files.append((k, path))
    results = self._coqc_many([p for _, p in files])
    corr_bad, holds_bad = [], []
    for (k, path), (rc, out) in zip(files, results):
      flat = " ".join(out.split())
      m = re.search(r"=\s*\((\[[^\]]*\]),\s*(\[[^\]]*\])\)", flat)
      if rc != 0 or not m:
        self.broken.append(("tie", "correspondence %s" % fam.name,
                            "case file %s did not evaluate: %s" % (os.path.basename(path), out[-800:])))
        continue
      for grp, dst in ((m.group(1), corr_bad), (m.group(2), holds_bad)):
        for tok in re.findall(r"\d+", grp):
          dst.append(k + int(tok))
    return obs, corr_bad, holds_bad

  def _coqc_many(self, paths):
    procs, results = [], [None] * len(paths)
    pending = list(enumerate(paths))
    running = []
    while pending or running:
      while pending and len(running) < NPROC:
        i, p = pending.pop(0)
        cmd = ["timeout", "600", "coqc", "-Q", os.path.join(COQ, "theories"), "AL",
               "-Q", self.bdir, "Cases" + self.pid, p]
        pr = subprocess.Popen(cmd, stdout=subprocess.PIPE, stderr=subprocess.STDOUT, cwd=self.bdir)
        running.append((i, pr))
      i, pr = running.pop(0)
      out = pr.communicate()[0].decode("utf-8", "replace")
      results[i] = (pr.returncode, out)
    if paths:
      self.cmds.append("coqc -Q coq/theories AL build/%s/cases_*.v   (%d files, vm_compute)" % (self.pid, len(paths)))
    return results

  def explore(self, tier, rng, only_cases=None):
    for fname, fam in self.mod.FAMILIES.items():
      if only_cases is not None:
        cases = [c for f, c in only_cases if f == fname]
      else:
        cases = corpus_cases(self.pid, fname) + list(fam.gen(tier, rng))
      if not cases:
        continue
      obs, corr_bad, holds_bad = self.run_family(fam, cases)
      fs = self.stats["families"].setdefault(fname, {"cases": 0, "corr_bad": 0, "holds_bad": 0})
      fs["cases"] += len(cases)
      self.stats["evaluations"] += len(cases)
      for c, o in zip(cases, obs):
        for t in c.get("tags", []):
          self.stats["tags"][fname + ":" + str(t)] += 1
        if fam.nontrivial(c, o):
          self.stats["nontrivial_hashes"].add(case_hash(fname, c))
      step = max(1, len(cases) // 3)
      for c, o in list(zip(cases, obs))[::step][:3]:
        self.stats["samples"].append({"family": fname, "case": c, "observed": o})
      cb, hb = set(corr_bad), set(holds_bad)
      # cases on which the property itself fails on the implementation's observation
      for i in sorted(hb):
        kid = fam.known(cases[i], obs[i])
        if kid and kid in self.findings["known"]:
          self.known_hits.setdefault(kid, (fname, cases[i], obs[i]))
          continue
        self.violations.append({"family": fname, "case": cases[i], "observed": obs[i],
                                "model_agrees": i not in cb})
        fs["holds_bad"] += 1
      # correspondence broken without a property failure on that case
      for i in sorted(cb - hb):
        kid = fam.known(cases[i], obs[i])
        if kid and kid in self.findings["known"]:
          self.known_hits.setdefault(kid, (fname, cases[i], obs[i]))
          continue
        fs["corr_bad"] += 1
        if fs["corr_bad"] <= 3:
          self.broken.append(("tie", "correspondence %s" % fname,
                              {"family": fname, "case": cases[i], "observed": obs[i]}))

  # ---------------------------------------------------------------- verdict
  def verdict(self):
    rc = 0
    os.makedirs(os.path.join(ROOT, "replays", self.pid), exist_ok=True)
    for kid, (fname, c, o) in self.known_hits.items():
      print("KNOWN-FINDING: property=%s %s" % (self.pid, self.findings["known"][kid]["what"]))
    if self.violations:
      rc = 1
      # smallest failing input first
      v = min(self.violations, key=lambda v: len(json.dumps(v["case"])))
      path = self._write_replay({"kind": "failing-input", "property": self.pid, "seed": self.seed,
                                 "family": v["family"], "case": v["case"], "observed": v["observed"],
                                 "model_agrees_with_impl": v["model_agrees"],
                                 "broken_obligations": [self._b(b) for b in self.broken][:5],
                                 "other_failing_cases": len(self.violations) - 1})
      print("VIOLATION property=%s replay=%s" % (self.pid, path))
    elif self.broken:
      rc = 1
      path = self._write_replay({"kind": "no-failing-input-found", "property": self.pid, "seed": self.seed,
                                 "no_longer_checks": [self._b(b) for b in self.broken][:10]})
      print("VIOLATION property=%s replay=%s no-failing-input-found" % (self.pid, path))
    return rc

  def _b(self, b):
    return {"kind": b[0], "name": b[1], "detail": b[2]}

  def _write_replay(self, obj):
    s = json.dumps(obj, sort_keys=True, default=str)
    h = hashlib.sha1(s.encode()).hexdigest()[:12]
    path = os.path.join(ROOT, "replays", self.pid, h + ".json")
    with open(path, "w") as f:
      json.dump(obj, f, indent=1, sort_keys=True, default=str)
    return path

  def evidence(self, rc):
    tb = ["Coq 8.16.1 kernel incl. vm_compute (no native_compute)",
          "axioms reported by Print Assumptions in this run: %s" %
          (", ".join(sorted(self.axioms_seen)) or "none (closed under the global context)"),
          "hand-written Gallina model tied to /repo by differential execution (vlib/framework.py, harness/%s.py)" % self.pid]
    tb += list(getattr(self.mod, "trusted_base", []))
    nontriv = len(self.stats["nontrivial_hashes"])
    ev = {
      "property_id": self.pid, "tier": self.tier, "seed": self.seed, "level": "proof",
      "coverage": {
        "obligations": self.obligations, "discharged": self.discharged,
        "theorems": self.theorems,
        "checker_cmd": " ; ".join(self.cmds) or "none",
        "trusted_base": tb,
        "evaluations": self.stats["evaluations"],
        "traces_validated_against_impl": self.stats["evaluations"],
        "distinct_nontrivial": nontriv,
        "rule": getattr(self.mod, "RULE", ""),
        "samples": self.stats["samples"][:8],
        "distribution": dict(self.stats["tags"]),
        "families": self.stats["families"],
        "exhaustive": bool(getattr(self.mod, "EXHAUSTIVE", {}).get(self.tier, False)),
        "broken_obligations": [self._b(b) for b in self.broken][:10],
        "known_findings_hit": list(self.known_hits.keys()),
        "coqchk": getattr(self, "coqchk_summary", "not run (thorough tier only)"),
      },
      "assumptions": list(getattr(self.mod, "ASSUMPTIONS", [])),
      "wall_s": round(time.time() - self.t0, 2),
      "violations": len(self.violations) + (1 if (self.broken and not self.violations) else 0),
    }
    # evidence/ only ever describes runs against /repo itself; runs against a scratch copy (VERIF_REPO, used by the
    # mutation self-test) leave their record under build/
    full_run = REPO == "/repo" and not getattr(self, "partial_run", False)
    evdir = os.path.join(ROOT, "evidence") if full_run else os.path.join(BUILD, "evidence_scratch")
    ev["repo"] = REPO
    os.makedirs(evdir, exist_ok=True)
    with open(os.path.join(evdir, self.pid + ".json"), "w") as f:
      json.dump(ev, f, indent=1, sort_keys=True, default=str)


def case_hash(fname, c):
  d = dict(c); d.pop("tags", None)
  return hashlib.sha1((fname + json.dumps(d, sort_keys=True, default=str)).encode()).hexdigest()


def corpus_cases(pid, fname):
  res = []
  for p in sorted(glob.glob(os.path.join(ROOT, "corpus", pid, "*.json"))):
    try:
      d = json.load(open(p))
    except Exception:
      continue
    if d.get("family") == fname:
      c = d["case"]; c.setdefault("tags", []).append("corpus")
      res.append(c)
  return res


def load_findings():
  path = os.path.join(ROOT, "known_findings.json")
  known = {}
  if os.path.exists(path):
    for e in json.load(open(path)).get("findings", []):
      if e.get("status") == "known":
        known[e["id"]] = e
  return {"known": known}


def ensure_makefile():
  mk = os.path.join(COQ, "Makefile")
  proj = os.path.join(COQ, "_CoqProject")
  with open(os.path.join(COQ, ".build.lock"), "w") as lk:
    fcntl.flock(lk, fcntl.LOCK_EX)
    vs = sorted(os.path.relpath(p, COQ) for p in glob.glob(os.path.join(COQ, "theories", "*", "*.v")))
    want = "-Q theories AL\n" + "\n".join(vs) + "\n"
    if not os.path.exists(proj) or open(proj).read() != want:
      open(proj, "w").write(want)
    if (not os.path.exists(mk)) or os.path.getmtime(mk) < os.path.getmtime(proj):
      sh("coq_makefile -f _CoqProject -o Makefile", 120, cwd=COQ)


def setup_impl_path():
  """The implementation is always imported from /repo's working tree."""
  os.environ["PYTHONHASHSEED"] = os.environ.get("PYTHONHASHSEED", "0")
  os.environ["AUDIOLAZY_VERIF"] = "1"
  sys.dont_write_bytecode = True
  import warnings
  warnings.simplefilter("ignore")
  if REPO not in sys.path:
    sys.path.insert(0, REPO)
  for k in list(sys.modules):
    if k == "audiolazy" or k.startswith("audiolazy."):
      del sys.modules[k]


def main(argv=None):
  ap = argparse.ArgumentParser()
  ap.add_argument("pid")
  ap.add_argument("--tier", default=os.environ.get("VERIF_TIER", "quick"))
  ap.add_argument("--replay", default=None)
  ap.add_argument("--no-proofs", action="store_true", help="development aid: skip the Coq proof build")
  a = ap.parse_args(argv)
  tier = os.environ.get("VERIF_TIER") or a.tier
  if tier not in ("quick", "thorough"):
    tier = "quick"
  seed = int(os.environ.get("VERIF_SEED", "0") or 0)
  setup_impl_path()
  sys.path.insert(0, os.path.join(ROOT, "harness"))
  sys.path.insert(0, ROOT)
  mod = importlib.import_module(a.pid)
  # one run per property at a time (the generated case files under build/<pid>/ are per property)
  os.makedirs(BUILD, exist_ok=True)
  runlock = open(os.path.join(BUILD, a.pid + ".runlock"), "w")
  fcntl.flock(runlock, fcntl.LOCK_EX)
  chk = Checker(mod, tier, seed)
  chk.partial_run = bool(a.no_proofs or a.replay)   # development / replay runs never overwrite evidence/
  rng = random.Random(seed)
  only = None
  if a.replay:
    r = json.load(open(a.replay))
    if "case" in r:
      only = [(r["family"], r["case"])]
  try:
    if hasattr(mod, "pregen"):
      for err in mod.pregen(chk) or []:
        chk.broken.append(("tie", "translator", err))
    ensure_makefile()
    chk.hygiene()
    built = chk.make() if not a.no_proofs else True
    if built and not a.no_proofs:
      chk.props()
      if tier == "thorough" and only is None and not os.environ.get("VERIF_NO_COQCHK"):
        chk.coqchk()
    if True:
      chk.explore(tier, rng, only)
      if chk.broken and not chk.violations and tier == "quick" and only is None:
        # something no longer checks: widen the search for a concrete failing input
        chk.explore("thorough", random.Random(seed + 1))
    else:
      # the model does not build: nothing can be evaluated in Coq
      pass
    if hasattr(mod, "extra"):
      mod.extra(chk, tier, rng)
  except Exception:
    chk.broken.append(("harness", "exception in the check driver", traceback.format_exc()[-1500:]))
  rc = chk.verdict()
  chk.evidence(rc)
  if rc == 0:
    print("OK property=%s tier=%s obligations=%d/%d cases=%d nontrivial=%d wall=%.1fs" % (
      chk.pid, tier, chk.discharged, chk.obligations, chk.stats["evaluations"],
      len(chk.stats["nontrivial_hashes"]), time.time() - chk.t0))
  return rc


def setup_all():
  """MANIFEST.setup_cmd: run the translators, then a full .vo build of Base and of every property
  registered in tools/claims.json (directories still under construction are built by their own check)."""
  setup_impl_path()
  sys.path.insert(0, os.path.join(ROOT, "harness"))
  dirs = ["Base"]
  claimed = sorted(json.load(open(os.path.join(ROOT, "tools", "claims.json"))))
  for pid in claimed:
    try:
      mod = importlib.import_module(pid)
      if hasattr(mod, "pregen"):
        mod.pregen(None)
      dirs.append(getattr(mod, "COQ_DIR", mod.PID))
      dirs += list(getattr(mod, "EXTRA_COQ_DIRS", []))
    except Exception:
      traceback.print_exc()
  ensure_makefile()
  targets = []
  for d in sorted(set(dirs)):
    for f in sorted(glob.glob(os.path.join(COQ, "theories", d, "*.v"))):
      targets.append(os.path.relpath(f, COQ) + "o")
  with open(os.path.join(COQ, ".build.lock"), "w") as lk:
    fcntl.flock(lk, fcntl.LOCK_EX)
    rc, out, dt = sh("timeout 3000 make -k -j%d %s" % (NPROC, " ".join(targets)), 3100, cwd=COQ)
  print(out[-3000:])
  print("setup: make rc=%d in %.0fs (%d files)" % (rc, dt, len(targets)))
  return 0 if rc == 0 else 1
