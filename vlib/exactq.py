# -*- coding: utf-8 -*-
"""
Exact arithmetic for the harness side of the correspondence (DESIGN.md section 3).

ExactQ  - exact rational that *absorbs* int / float / Fraction operands exactly
          (a float is a dyadic rational), so that the duck-typed library code can
          be executed in exact arithmetic with no change to /repo.  Its repr is
          ``_Q(n,d)`` and ``_Q`` is injected into builtins, so the filter code
          generator's ``"{value} * d1".format(...)`` round-trips exactly.
LinForm - linear form over named variables with Fraction coefficients
          (symbolic samples for linear code: one run covers every sample value).
"""
from __future__ import division
import builtins, math, numbers
from fractions import Fraction


def _frac(x):
  if isinstance(x, ExactQ):
    return x.frac
  if isinstance(x, bool):
    return Fraction(int(x))
  if isinstance(x, (int, Fraction)):
    return Fraction(x)
  if isinstance(x, float):
    if x != x or x in (float("inf"), float("-inf")):
      return None
    return Fraction(x)
  return None


class ExactQ(object):
  __slots__ = ("frac",)

  def __init__(self, n=0, d=1):
    if d == 1 and isinstance(n, ExactQ):
      self.frac = n.frac
    else:
      self.frac = Fraction(n) / Fraction(d)

  # ---- representation (round-trips through the filter code generator)
  def __repr__(self):
    return "_Q(%d,%d)" % (self.frac.numerator, self.frac.denominator)
  __str__ = __repr__

  def __format__(self, spec):
    return repr(self)

  def __hash__(self):
    return hash(self.frac)

  def __bool__(self):
    return self.frac != 0

  # ---- arithmetic
  def _bin(self, other, f):
    o = _frac(other)
    if o is None:
      if isinstance(other, float):  # inf / nan: fall back to float arithmetic
        return f(float(self.frac), other)
      return NotImplemented
    return ExactQ(f(self.frac, o))

  def _rbin(self, other, f):
    o = _frac(other)
    if o is None:
      if isinstance(other, float):
        return f(other, float(self.frac))
      return NotImplemented
    return ExactQ(f(o, self.frac))

  def __add__(self, o): return self._bin(o, lambda a, b: a + b)
  def __radd__(self, o): return self._rbin(o, lambda a, b: a + b)
  def __sub__(self, o): return self._bin(o, lambda a, b: a - b)
  def __rsub__(self, o): return self._rbin(o, lambda a, b: a - b)
  def __mul__(self, o): return self._bin(o, lambda a, b: a * b)
  def __rmul__(self, o): return self._rbin(o, lambda a, b: a * b)
  def __truediv__(self, o): return self._bin(o, lambda a, b: a / b)
  def __rtruediv__(self, o): return self._rbin(o, lambda a, b: a / b)
  def __floordiv__(self, o): return self._bin(o, lambda a, b: Fraction(a // b))
  def __rfloordiv__(self, o): return self._rbin(o, lambda a, b: Fraction(a // b))
  def __mod__(self, o): return self._bin(o, lambda a, b: a % b)
  def __rmod__(self, o): return self._rbin(o, lambda a, b: a % b)

  def __pow__(self, o):
    e = _frac(o)
    if e is not None and e.denominator == 1:
      return ExactQ(self.frac ** int(e))
    if e == Fraction(1, 2):
      return SymSqrt(self)
    return NotImplemented

  def __rpow__(self, o):
    b = _frac(o)
    if b is not None and self.frac.denominator == 1:
      return ExactQ(b ** int(self.frac))
    return NotImplemented

  def __neg__(self): return ExactQ(-self.frac)
  def __pos__(self): return self
  def __abs__(self): return ExactQ(abs(self.frac))

  # ---- comparisons
  def _cmp(self, other, f):
    o = _frac(other)
    if o is None:
      if isinstance(other, float):
        return f(float(self.frac), other)
      return NotImplemented
    return f(self.frac, o)

  def __eq__(self, o):
    r = self._cmp(o, lambda a, b: a == b)
    return False if r is NotImplemented else r

  def __ne__(self, o):
    r = self._cmp(o, lambda a, b: a != b)
    return True if r is NotImplemented else r

  def __lt__(self, o): return self._cmp(o, lambda a, b: a < b)
  def __le__(self, o): return self._cmp(o, lambda a, b: a <= b)
  def __gt__(self, o): return self._cmp(o, lambda a, b: a > b)
  def __ge__(self, o): return self._cmp(o, lambda a, b: a >= b)

  # ---- conversions
  def __int__(self): return int(self.frac)           # truncation, as for float
  def __trunc__(self): return math.trunc(self.frac)
  def __floor__(self): return math.floor(self.frac)
  def __ceil__(self): return math.ceil(self.frac)
  def __round__(self, nd=None):
    return round(self.frac) if nd is None else ExactQ(round(self.frac, nd))
  def __float__(self): return float(self.frac)

  def __index__(self):
    if self.frac.denominator != 1:
      raise TypeError("ExactQ is not integral: %r" % self)
    return int(self.frac)

  # duck-typing helpers some library code looks for
  @property
  def real(self): return self
  @property
  def imag(self): return ExactQ(0)
  def conjugate(self): return self


class SymSqrt(object):
  """sqrt of an exact rational, kept symbolic (only used by envelope.rms)."""
  __slots__ = ("arg",)
  def __init__(self, arg): self.arg = arg
  def __repr__(self): return "_Sqrt(%r)" % (self.arg,)
  def __eq__(self, o): return isinstance(o, SymSqrt) and o.arg == self.arg
  def __hash__(self): return hash(("sqrt", self.arg))


def _Q(n, d=1):
  return ExactQ(n, d)


builtins._Q = _Q
Q = ExactQ


def isq(x):
  return isinstance(x, ExactQ)


def to_frac(x):
  """Exact value of an observed number (ExactQ, int, Fraction, finite float)."""
  f = _frac(x)
  if f is None:
    raise ValueError("not an exact finite number: %r" % (x,))
  return f


class LinForm(object):
  """Linear form  c0 + sum c_v * v  with Fraction coefficients.  A product of two
  non-constant forms raises: linearity is checked, never assumed."""
  __slots__ = ("co",)

  def __init__(self, co=None):
    self.co = {k: Fraction(v) for k, v in (co or {}).items() if v != 0}

  @staticmethod
  def var(name):
    return LinForm({name: 1})

  @staticmethod
  def lift(x):
    if isinstance(x, LinForm):
      return x
    f = _frac(x)
    if f is None:
      return None
    return LinForm({"": f})

  def is_const(self):
    return all(k == "" for k in self.co)

  def const(self):
    return self.co.get("", Fraction(0))

  def __repr__(self):
    return "LinForm(%r)" % ({k: str(v) for k, v in sorted(self.co.items())},)

  def __add__(self, o):
    o = LinForm.lift(o)
    if o is None: return NotImplemented
    d = dict(self.co)
    for k, v in o.co.items():
      d[k] = d.get(k, 0) + v
    return LinForm(d)
  __radd__ = __add__

  def __neg__(self):
    return LinForm({k: -v for k, v in self.co.items()})

  def __pos__(self):
    return self

  def __sub__(self, o):
    o = LinForm.lift(o)
    if o is None: return NotImplemented
    return self + (-o)

  def __rsub__(self, o):
    o = LinForm.lift(o)
    if o is None: return NotImplemented
    return o + (-self)

  def __mul__(self, o):
    o = LinForm.lift(o)
    if o is None: return NotImplemented
    if o.is_const():
      c = o.const()
      return LinForm({k: v * c for k, v in self.co.items()})
    if self.is_const():
      c = self.const()
      return LinForm({k: v * c for k, v in o.co.items()})
    raise ArithmeticError("product of two symbolic samples: the code is not linear here")
  __rmul__ = __mul__

  def __truediv__(self, o):
    o = LinForm.lift(o)
    if o is None: return NotImplemented
    if not o.is_const():
      raise ArithmeticError("division by a symbolic sample")
    c = o.const()
    return LinForm({k: v / c for k, v in self.co.items()})

  def __eq__(self, o):
    o = LinForm.lift(o)
    return o is not None and self.co == o.co

  def __ne__(self, o):
    return not self.__eq__(o)

  def __hash__(self):
    return hash(tuple(sorted(self.co.items())))
