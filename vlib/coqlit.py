# -*- coding: utf-8 -*-
"""Printers for Coq literals used in generated case files."""
from fractions import Fraction


def z(n):
  n = int(n)
  return "(%d)%%Z" % n


def nat(n):
  n = int(n)
  assert 0 <= n < 5000, "nat literal too large: %r" % n
  return "%d%%nat" % n


def string(s):
  assert '"' not in s and "\\" not in s and all(32 <= ord(ch) < 127 for ch in s), repr(s)
  return '"%s"%%string' % s


def qc(x):
  """Exact rational literal: floats are dyadic rationals, converted exactly."""
  f = Fraction(x) if not hasattr(x, "frac") else x.frac
  return "(qc (%d) %d)" % (f.numerator, f.denominator)


def lst(items):
  return "[" + "; ".join(items) + "]"


def boolean(b):
  return "true" if b else "false"


def option(x, f):
  return "None" if x is None else "(Some %s)" % f(x)


def item(x):
  """Heterogeneous stream items: IZ / IS / INone / IQ (see Base/CaseLib.v)."""
  if x is None:
    return "INone"
  if isinstance(x, bool):
    return "(IZ %s)" % z(int(x))
  if isinstance(x, int):
    return "(IZ %s)" % z(x)
  if isinstance(x, str):
    return "(IS %s)" % string(x)
  if isinstance(x, (float, Fraction)) or hasattr(x, "frac"):
    return "(IQ %s)" % qc(x)
  raise TypeError("no item literal for %r" % (x,))


def jsonable(x):
  """Observation values as JSON-able data keeping the Python type visible."""
  if x is None or isinstance(x, (bool, int, str)):
    return x
  if isinstance(x, float):
    return {"float": x.hex()}
  if isinstance(x, Fraction):
    return {"frac": [x.numerator, x.denominator]}
  if hasattr(x, "frac"):
    return {"frac": [x.frac.numerator, x.frac.denominator]}
  if isinstance(x, (list, tuple)):
    return [jsonable(y) for y in x]
  return {"repr": repr(x)}


def unjson(x):
  if isinstance(x, dict):
    if "float" in x:
      return float.fromhex(x["float"])
    if "frac" in x:
      return Fraction(x["frac"][0], x["frac"][1])
    raise ValueError(x)
  if isinstance(x, list):
    return [unjson(y) for y in x]
  return x
