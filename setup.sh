#!/bin/sh
# Builds the whole Coq development from files on disk (offline).
cd "$(dirname "$0")" || exit 2
export PYTHONHASHSEED=0 PYTHONDONTWRITEBYTECODE=1 PYTHONWARNINGS=ignore PYTHONPATH=/verif
/venv/bin/python -c 'from vlib.framework import setup_all; import sys; sys.exit(setup_all())'
