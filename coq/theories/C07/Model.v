(* C07 - model of audiolazy.lazy_poly.Poly and lagrange (exact rational coefficients,
   integer powers).  A polynomial is what the OrderedDict `_data` holds: the list of
   (power, coefficient) pairs in insertion order.  Every constructor and operator
   funnels through [compact], exactly as the code funnels through Poly.__init__.
   No proofs in this file. *)
From Coq Require Import List Bool ZArith QArith Qcanon Qpower String.
From AL Require Import Base.CaseLib.
Import ListNotations.
Open Scope Qc_scope.

Definition poly := list (Z * Qc).

(* numbers: an int times a coefficient, and value ** int *)
Definition zq (k : Z) : Qc := Q2Qc (inject_Z k).
Definition qpow (v : Qc) (n : Z) : Qc := Q2Qc (Qpower (this v) n).

(* ------------------------------------------------------------------ OrderedDict *)
Fixpoint get (d : poly) (k : Z) : option Qc :=
  match d with
  | [] => None
  | (m, c) :: r => if (m =? k)%Z then Some c else get r k
  end.
Definition mem (d : poly) (k : Z) : bool := match get d k with Some _ => true | None => false end.
(* d[k] = c : in place when the key exists, appended otherwise *)
Fixpoint od_set (d : poly) (k : Z) (c : Qc) : poly :=
  match d with
  | [] => [(k, c)]
  | (m, x) :: r => if (m =? k)%Z then (m, c) :: r else (m, x) :: od_set r k c
  end.
(* del d[k] *)
Definition od_del (d : poly) (k : Z) : poly := filter (fun e => negb (fst e =? k)%Z) d.
(* "if k in d: d[k] += c  else: d[k] = c" *)
Fixpoint od_add (d : poly) (k : Z) (c : Qc) : poly :=
  match d with
  | [] => [(k, c)]
  | (m, x) :: r => if (m =? k)%Z then (m, x + c) :: r else (m, x) :: od_add r k c
  end.
(* OrderedDict(iterable of pairs) *)
Definition od_of_pairs (l : list (Z * Qc)) : poly :=
  fold_left (fun d e => od_set d (fst e) (snd e)) l [].

(* Poly.__getitem__ : the stored coefficient, else zero.  This is the coefficient function. *)
Definition coefn (p : poly) (k : Z) : Qc := match get p k with Some c => c | None => 0 end.

(* ------------------------------------------------------------------ __init__ *)
(* The compaction loop of Poly.__init__ over the snapshot list(iteritems(_data)).
   An entry of the snapshot is (key, key-is-a-float, value): an integer-valued float
   key is deleted and re-inserted as an int (so it moves to the end), then a value
   equal to zero is deleted. *)
Definition raw := list (Z * bool * Qc).
Fixpoint compact_loop (snap : raw) (d : poly) : poly :=
  match snap with
  | [] => d
  | (k, isf, v) :: r =>
      let d1 := if isf then od_set (od_del d k) k v else d in
      let d2 := if Qc_eqb v 0 then od_del d1 k else d1 in
      compact_loop r d2
  end.
(* all keys are ints *)
Definition compact (d : poly) : poly := compact_loop (map (fun e => (fst e, false, snd e)) d) d.
(* Poly(OrderedDict(pairs)) *)
Definition mk (l : list (Z * Qc)) : poly := compact (od_of_pairs l).

(* OrderedDict(pairs) where a key may be an integer-valued float (1.0 == 1 is the same
   dict key; the key object of the first occurrence stays, the last value wins) *)
Fixpoint raw_set (d : raw) (k : Z) (f : bool) (c : Qc) : raw :=
  match d with
  | [] => [(k, f, c)]
  | (m, g, x) :: r => if (m =? k)%Z then (m, g, c) :: r else (m, g, x) :: raw_set r k f c
  end.
Definition poly_of_raw (l : raw) : poly :=
  let d := fold_left (fun d e => raw_set d (fst (fst e)) (snd (fst e)) (snd e)) l [] in
  compact_loop d (map (fun e => (fst (fst e), snd e)) d).

Definition pconst (c : Qc) : poly := mk [(0%Z, c)].            (* Poly(c) *)
Definition pnone : poly := mk [].                               (* Poly() *)
Definition poly_of_list (l : list Qc) : poly :=                 (* Poly([a0, a1, ...]) *)
  mk (combine (map Z.of_nat (seq 0 (List.length l))) l).
Definition pcopy (p : poly) : poly := mk p.                     (* Poly(p) / p.copy() *)
Definition px : poly := mk [(1%Z, 1)].                          (* x = Poly({1: 1}) *)

(* ------------------------------------------------------------------ operators *)
Definition pneg (p : poly) : poly := mk (map (fun e => (fst e, - snd e)) p).   (* __unary__ *)
Definition ppos (p : poly) : poly := mk p.

(* __add__ : OrderedDict(chain(self, other, intersect)).  The iteration order of the
   key-set intersection does not matter: those keys are distinct and already placed. *)
Definition inter (p q : poly) : list (Z * Qc) :=
  flat_map (fun e => match get q (fst e) with Some w => [(fst e, snd e + w)] | None => [] end) p.
Definition padd (p q : poly) : poly := mk (p ++ q ++ inter p q).
Definition psub (p q : poly) : poly := padd p (pneg q).

(* __mul__ *)
Definition pmul (p q : poly) : poly :=
  compact (fold_left (fun d e1 =>
             fold_left (fun d e2 => od_add d (fst e1 + fst e2)%Z (snd e1 * snd e2)) q d) p []).

(* __pow__ with an int exponent *)
Definition ppow (p : poly) (n : Z) : poly :=
  if (n =? 0)%Z then pconst 1 else
  match p with
  | [] => pnone
  | [(k, v)] => mk [((k * n)%Z, if Qc_eqb v 1 then 1 else qpow v n)]
  | _ => match repeat (pcopy p) (Z.to_nat (n - 1)) ++ [p] with
         | a :: r => fold_left pmul r a            (* reduce(operator.mul, ...) *)
         | [] => p
         end
  end.

Inductive res (A : Type) := Ok (a : A) | Raise (e : string).
Arguments Ok {A} a. Arguments Raise {A} e.

(* __truediv__ *)
Definition pscale_div (p : poly) (c : Qc) : poly := mk (map (fun e => (fst e, snd e / c)) p).
Definition pdiv_scalar (p : poly) (c : Qc) : res poly :=
  match p with
  | [] => Ok pnone
  | _ => if Qc_eqb c 0 then Raise "ZeroDivisionError" else Ok (pscale_div p c)
  end.
Definition pdiv_poly (p q : poly) : res poly :=
  match q with
  | [] => Raise "ZeroDivisionError"
  | [(delta, value)] => Ok (mk (map (fun e => ((fst e - delta)%Z, snd e / value)) p))
  | _ => Raise "NotImplementedError"
  end.

(* __eq__ / __ne__ (dicts_equal) *)
Definition peq (p q : poly) : bool :=
  Nat.eqb (List.length p) (List.length q) &&
  forallb (fun e => match get q (fst e) with Some w => Qc_eqb (snd e) w | None => false end) p.
Definition pne (p q : poly) : bool := negb (peq p q).

(* terms(sort=True) / sorted(..., reverse=True) *)
Fixpoint insert_by (le : Z -> Z -> bool) (e : Z * Qc) (l : poly) : poly :=
  match l with
  | [] => [e]
  | h :: t => if le (fst e) (fst h) then e :: l else h :: insert_by le e t
  end.
Definition sort_by (le : Z -> Z -> bool) (l : poly) : poly := fold_right (insert_by le) [] l.
Definition sort_asc := sort_by Z.leb.
Definition sort_desc := sort_by Z.geb.

(* __hash__ = hash((frozenset(iteritems(_data)), zero)): a function of the SET of stored
   (power, coefficient) items, i.e. any function of the term list that is invariant under
   permutation.  The hash function itself stays abstract (see Spec.perm_invariant); the
   model only says on which data it depends. *)
Definition hash_items (p : poly) : list (Z * Qc) := p.

(* ------------------------------------------------------------------ __call__ *)
Inductive hmode := HTrue | HFalse | HAuto.
Definition is_polynomial (p : poly) : bool := forallb (fun e => (0 <=? fst e)%Z) p.

Definition horner_step (v : Qc) (old new : Z * Qc) : Z * Qc :=
  let '(opower, oresult) := old in
  let '(npower, ncoeff) := new in
  let scale := if (opower =? npower + 1)%Z then v else qpow v (opower - npower) in
  (npower, ncoeff + oresult * scale).
Definition peval_horner (p : poly) (v : Qc) : Qc :=
  match sort_desc p with
  | [] => 0
  | h :: t => let '(last_power, result) := fold_left (horner_step v) t h in
              result * qpow v last_power
  end.
Definition peval_direct (p : poly) (v : Qc) : Qc :=
  fold_left (fun acc e => acc + snd e * qpow v (fst e)) (sort_asc p) 0.
Definition peval (m : hmode) (p : poly) (v : Qc) : Qc :=
  match p with
  | [] => 0                                   (* empty polynomial: zero *)
  | _ => if Qc_eqb v 0 then coefn p 0         (* "Evaluation for x = 0": self[0] *)
         else let h := match m with HAuto => is_polynomial p | HTrue => true | HFalse => false end in
              if h then peval_horner p v else peval_direct p v
  end.

(* p(q) with q a Poly: Poly(sum(coeff * value ** power ...)); sum starts from int 0,
   "0 + t" is Poly(0) + t and "coeff * t" is Poly(coeff) * t *)
Definition pcompose (p q : poly) : poly :=
  pcopy (fold_left (fun acc e => padd acc (pmul (pconst (snd e)) (ppow q (fst e)))) p (pconst 0)).

(* ------------------------------------------------------------------ calculus *)
Definition dstep (d : poly) : poly :=
  od_of_pairs (map (fun e => ((fst e - 1)%Z, zq (fst e) * snd e))
                   (filter (fun e => negb (fst e =? 0)%Z) d)).
Definition pdiff (p : poly) (n : nat) : poly := compact (Nat.iter n dstep p).
Definition pint (p : poly) : res poly :=
  if mem p (-1) then Raise "ValueError"
  else Ok (mk (map (fun e => ((fst e + 1)%Z, snd e / zq (fst e + 1))) p)).

(* ------------------------------------------------------------------ order, values, item set *)
Definition porder (p : poly) : res Z :=
  if is_polynomial p then Ok (fold_left Z.max (map fst p) 0%Z) else Raise "AttributeError".
Definition pvalues (p : poly) : res (list Qc) :=
  match p with
  | [] => Ok []
  | _ => match porder p with
         | Ok o => Ok (map (fun i => coefn p (Z.of_nat i)) (seq 0 (S (Z.to_nat o))))
         | Raise e => Raise e
         end
  end.
Definition psetitem (p : poly) (k : Z) (c : Qc) : poly :=
  if negb (Qc_eqb c 0) then od_set p k c else od_del p k.

(* ------------------------------------------------------------------ lagrange *)
(* The interpolator lambda is duck typed: called with a number it computes with numbers,
   called with x it computes with Poly instances (number op Poly goes through the
   reflected operator, i.e. Poly(number) op poly). *)
Inductive np := Num (c : Qc) | Pol (p : poly).
Definition np_mul (a b : np) : np :=
  match a, b with
  | Num x, Num y => Num (x * y)
  | Num x, Pol q => Pol (pmul (pconst x) q)
  | Pol p, Num y => Pol (pmul p (pconst y))
  | Pol p, Pol q => Pol (pmul p q)
  end.
Definition np_add (a b : np) : np :=
  match a, b with
  | Num x, Num y => Num (x + y)
  | Num x, Pol q => Pol (padd (pconst x) q)
  | Pol p, Num y => Pol (padd p (pconst y))
  | Pol p, Pol q => Pol (padd p q)
  end.
Definition np_sub_num (a : np) (r : Qc) : np :=       (* k - rk *)
  match a with Num x => Num (x - r) | Pol p => Pol (padd p (pconst (- r))) end.
Definition np_div_num (a : np) (r : Qc) : np :=       (* (...) / (rj - rk), rj <> rk *)
  match a with Num x => Num (x / r) | Pol p => Pol (pscale_div p r) end.

Definition lagrange_np (pts : list (Qc * Qc)) (k : np) : np :=
  let xv := map fst pts in
  fold_left (fun acc pt =>
     let rj := fst pt in
     let prod := fold_left (fun a rk => np_mul a (np_div_num (np_sub_num k rk) (rj - rk)))
                           (filter (fun rk => negb (Qc_eqb rj rk)) xv) (Num 1) in
     np_add acc (np_mul (Num (snd pt)) prod)) pts (Num 0).

Definition lagrange_func (pts : list (Qc * Qc)) (v : Qc) : Qc :=
  match lagrange_np pts (Num v) with Num r => r | Pol _ => 0 end.
Definition lagrange_poly (pts : list (Qc * Qc)) : poly :=       (* Poly(lagrange.func(pairs)(x)) *)
  match lagrange_np pts (Pol px) with Num r => pconst r | Pol p => pcopy p end.
(* "xv, yv = xzip(*pairs)" cannot unpack an empty point list: ValueError *)
Definition lagrange_func_r (pts : list (Qc * Qc)) (v : Qc) : res Qc :=
  match pts with [] => Raise "ValueError" | _ => Ok (lagrange_func pts v) end.
Definition lagrange_poly_r (pts : list (Qc * Qc)) : res poly :=
  match pts with [] => Raise "ValueError" | _ => Ok (lagrange_poly pts) end.

(* ------------------------------------------------------------------ operator dispatch *)
(* Expression trees evaluated the way Python dispatches the operators (a number operand
   becomes Poly(number), reflected operators build Poly(number) on the left). *)
Inductive expr :=
| EPairs (l : list (Z * Qc))          (* Poly(OrderedDict(pairs)) *)
| ERaw (l : raw)                      (* same, some keys being integer-valued floats *)
| EList (l : list Qc)                 (* Poly([a0, a1, ...]) *)
| EConst (c : Qc)                     (* Poly(c) *)
| ENone                               (* Poly() *)
| EX                                  (* x *)
| ENeg (a : expr) | EPos (a : expr)
| EAdd (a b : expr) | ESub (a b : expr) | EMul (a b : expr)
| EAddS (a : expr) (c : Qc) | ESAdd (c : Qc) (a : expr)     (* p + c, c + p *)
| ESubS (a : expr) (c : Qc) | ESSub (c : Qc) (a : expr)     (* p - c, c - p *)
| EMulS (a : expr) (c : Qc) | ESMul (c : Qc) (a : expr)     (* p * c, c * p *)
| EPow (a : expr) (n : Z)
| EDivS (a : expr) (c : Qc) | EDivP (a b : expr)
| EDiff (a : expr) (n : nat) | EInt (a : expr)
| ECall (a b : expr)                  (* a(b) *)
| ESet (a : expr) (k : Z) (c : Qc)    (* q = Poly(a); q[k] = c *)
| ECopy (a : expr).

Definition bind {A B} (r : res A) (f : A -> res B) : res B :=
  match r with Ok a => f a | Raise e => Raise e end.
Definition bind2 {A B C} (r : res A) (s : res B) (f : A -> B -> res C) : res C :=
  bind r (fun a => bind s (fun b => f a b)).

Fixpoint run (e : expr) : res poly :=
  match e with
  | EPairs l => Ok (mk l)
  | ERaw l => Ok (poly_of_raw l)
  | EList l => Ok (poly_of_list l)
  | EConst c => Ok (pconst c)
  | ENone => Ok pnone
  | EX => Ok px
  | ENeg a => bind (run a) (fun p => Ok (pneg p))
  | EPos a => bind (run a) (fun p => Ok (ppos p))
  | EAdd a b => bind2 (run a) (run b) (fun p q => Ok (padd p q))
  | ESub a b => bind2 (run a) (run b) (fun p q => Ok (psub p q))
  | EMul a b => bind2 (run a) (run b) (fun p q => Ok (pmul p q))
  | EAddS a c => bind (run a) (fun p => Ok (padd p (pconst c)))
  | ESAdd c a => bind (run a) (fun p => Ok (padd (pconst c) p))
  | ESubS a c => bind (run a) (fun p => Ok (padd p (pconst (- c))))      (* self + (-other) *)
  | ESSub c a => bind (run a) (fun p => Ok (psub (pconst c) p))
  | EMulS a c => bind (run a) (fun p => Ok (pmul p (pconst c)))
  | ESMul c a => bind (run a) (fun p => Ok (pmul (pconst c) p))
  | EPow a n => bind (run a) (fun p => Ok (ppow p n))
  | EDivS a c => bind (run a) (fun p => pdiv_scalar p c)
  | EDivP a b => bind2 (run a) (run b) pdiv_poly
  | EDiff a n => bind (run a) (fun p => Ok (pdiff p n))
  | EInt a => bind (run a) pint
  | ECall a b => bind2 (run a) (run b) (fun p q => Ok (pcompose p q))
  | ESet a k c => bind (run a) (fun p => Ok (psetitem (pcopy p) k c))
  | ECopy a => bind (run a) (fun p => Ok (pcopy p))
  end.

(* ------------------------------------------------------------------ histories on live objects *)
(* Poly instances are mutable objects (item assignment) that become frozen once hashed.
   A state is a heap of objects (terms, already-hashed flag) and the caller's variables
   (slots) pointing into it.  Every operator returns a NEW object that shares nothing with
   its operands, with one exception in the code: p ** n for a several-term p and n <= 1,
   n <> 0 is reduce(mul, [p]) = p ITSELF (the same object).  Constructors copy the caller's
   container.  hash(p), set / dict insertion freeze p: p[k] = c then raises TypeError. *)
Inductive unop := UDiff (n : nat) | UInt | UCopy | UPos | UNeg | UAdd0 | UMul1 | UPow (n : Z) | UPoly.
Inductive binop := BAdd | BSub | BMul | BCall.
Inductive hop :=
| HNew (e : expr)                    (* v_new = <expression over literals> *)
| HUn (u : unop) (i : nat)           (* v_new = op(v_i) *)
| HBin (b : binop) (i j : nat)       (* v_new = v_i op v_j *)
| HSet (i : nat) (k : Z) (c : Qc)    (* v_i[k] = c *)
| HHash (l : list nat)               (* len({v_i for i in l}) : hashes every listed object *)
| HNop                               (* the caller mutates a container it built an object from *)
| HEval (i : nat) (v : Qc)           (* v_i(v), v_i(v, horner=True), v_i(v, horner=False): no effect on any object *)
| HZero (i : nat).                   (* v_i.zero = <the number zero in some numeric kind>: TypeError once hashed *)
Record hstate := HS { objs : list (poly * bool); slots : list nat }.
Definition hinit : hstate := HS [] [].
Definition obj_of (s : hstate) (i : nat) : option (nat * (poly * bool)) :=
  match nth_error (slots s) i with
  | Some o => match nth_error (objs s) o with Some x => Some (o, x) | None => None end
  | None => None
  end.
Definition alloc (s : hstate) (p : poly) : hstate :=
  HS (objs s ++ [(p, false)]) (slots s ++ [List.length (objs s)]).
Definition alias (s : hstate) (o : nat) : hstate := HS (objs s) (slots s ++ [o]).
Fixpoint upd {A} (l : list A) (n : nat) (x : A) : list A :=
  match l, n with
  | [], _ => []
  | _ :: r, O => x :: r
  | h :: r, S n' => h :: upd r n' x
  end.
(* result of a unary operator: a fresh value, or the operand itself *)
Inductive uval := UFresh (p : poly) | USelf.
Definition run_unop (u : unop) (p : poly) : res uval :=
  match u with
  | UDiff n => Ok (UFresh (pdiff p n))
  | UInt => match pint p with Ok r => Ok (UFresh r) | Raise e => Raise e end
  | UCopy => Ok (UFresh (pcopy p))
  | UPos => Ok (UFresh (ppos p))
  | UNeg => Ok (UFresh (pneg p))
  | UAdd0 => Ok (UFresh (padd p (pconst 0)))
  | UMul1 => Ok (UFresh (pmul p (pconst 1)))
  | UPow n => if negb (n =? 0)%Z && (2 <=? List.length p)%nat && (n <=? 1)%Z then Ok USelf
              else Ok (UFresh (ppow p n))
  | UPoly => Ok (UFresh (pcopy p))
  end.
Definition run_binop (b : binop) (p q : poly) : poly :=
  match b with BAdd => padd p q | BSub => psub p q | BMul => pmul p q | BCall => pcompose p q end.
(* number of distinct polynomials (under ==) among a list: the size of the set *)
Fixpoint distinct_count (l : list poly) : nat :=
  match l with
  | [] => O
  | p :: r => if existsb (fun q => peq q p) r then distinct_count r else S (distinct_count r)
  end.
Definition hstep (s : hstate) (op : hop) : hstate * res Z :=
  match op with
  | HNew e => match run e with Ok p => (alloc s p, Ok 0%Z) | Raise x => (s, Raise x) end
  | HUn u i =>
      match obj_of s i with
      | Some (o, (p, _)) =>
          match run_unop u p with
          | Ok (UFresh r) => (alloc s r, Ok 0%Z)
          | Ok USelf => (alias s o, Ok 0%Z)
          | Raise x => (s, Raise x)
          end
      | None => (s, Raise "IndexError")
      end
  | HBin b i j =>
      match obj_of s i, obj_of s j with
      | Some (_, (p, _)), Some (_, (q, _)) => (alloc s (run_binop b p q), Ok 0%Z)
      | _, _ => (s, Raise "IndexError")
      end
  | HSet i k c =>
      match obj_of s i with
      | Some (o, (p, true)) => (s, Raise "TypeError")
      | Some (o, (p, false)) => (HS (upd (objs s) o (psetitem p k c, false)) (slots s), Ok 0%Z)
      | None => (s, Raise "IndexError")
      end
  | HHash l =>
      let os := flat_map (fun i => match obj_of s i with Some (o, _) => [o] | None => [] end) l in
      let ps := flat_map (fun i => match obj_of s i with Some (_, (p, _)) => [p] | None => [] end) l in
      (HS (fold_left (fun ob o => match nth_error ob o with Some (p, _) => upd ob o (p, true) | None => ob end) os (objs s))
          (slots s), Ok (Z.of_nat (distinct_count ps)))
  | HNop => (s, Ok 0%Z)
  | HEval i _ => match obj_of s i with Some _ => (s, Ok 0%Z) | None => (s, Raise "IndexError") end
  | HZero i =>
      match obj_of s i with
      | Some (_, (_, true)) => (s, Raise "TypeError")
      | Some (_, (_, false)) => (s, Ok 0%Z)
      | None => (s, Raise "IndexError")
      end
  end.
(* what the caller sees: the terms behind every variable *)
Definition view (s : hstate) : list poly :=
  flat_map (fun i => match obj_of s i with Some (_, (p, _)) => [p] | None => [] end) (seq 0 (List.length (slots s))).
Definition hashed_view (s : hstate) : list bool :=
  flat_map (fun i => match obj_of s i with Some (_, (_, h)) => [h] | None => [] end) (seq 0 (List.length (slots s))).
Fixpoint hrun (s : hstate) (ops : list hop) : list (hstate * res Z) :=
  match ops with
  | [] => []
  | op :: r => let '(s', f) := hstep s op in (s', f) :: hrun s' r
  end.
