(* C07 - library: integer powers in Qc, the OrderedDict operations, the linear functional
   [dot], coefficient functions, and the bridge between them. *)
From Coq Require Import List Bool ZArith QArith Qcanon Qpower Lia Permutation.
From AL Require Import Base.CaseLib C07.Model C07.Spec.
Import ListNotations.
Open Scope Qc_scope.

(* ------------------------------------------------------------------ Qc helpers *)
Lemma this_nz (v : Qc) : v <> 0 -> ~ (this v == 0)%Q.
Proof. intros H E. apply H. apply Qc_is_canon. exact E. Qed.

Lemma Qc_eqb_false a b : Qc_eqb a b = false <-> a <> b.
Proof.
  split; intro H.
  - intro E. apply Qc_eqb_spec in E. congruence.
  - destruct (Qc_eqb a b) eqn:E; [|reflexivity]. apply Qc_eqb_spec in E. contradiction.
Qed.

Lemma Qc_eq_dec' (a b : Qc) : {a = b} + {a <> b}.
Proof. apply Qc_eq_dec. Qed.

Lemma Qcmult_integral_l (a b : Qc) : a <> 0 -> a * b = 0 -> b = 0.
Proof. intros Ha H. destruct (Qcmult_integral _ _ H) as [E|E]; [contradiction|exact E]. Qed.

Lemma Qcmult_nz (a b : Qc) : a <> 0 -> b <> 0 -> a * b <> 0.
Proof. intros Ha Hb H. apply Hb. exact (Qcmult_integral_l a b Ha H). Qed.

Lemma Qcdiv_nz (a b : Qc) : a <> 0 -> b <> 0 -> a / b <> 0.
Proof.
  intros Ha Hb H. apply Ha. replace a with (a / b * b) by (field; exact Hb). rewrite H. ring.
Qed.

Lemma Qcopp_nz (a : Qc) : a <> 0 -> - a <> 0.
Proof. intros Ha H. apply Ha. replace a with (- - a) by ring. rewrite H. ring. Qed.

(* ------------------------------------------------------------------ zq *)
Lemma zq_add a b : zq (a + b) = zq a + zq b.
Proof. apply Qc_is_canon. unfold zq. cbn [this Q2Qc Qcplus]. rewrite !Qred_correct, inject_Z_plus. reflexivity. Qed.
Lemma zq_0 : zq 0 = 0.
Proof. apply Qc_is_canon. reflexivity. Qed.
Lemma zq_1 : zq 1 = 1.
Proof. apply Qc_is_canon. reflexivity. Qed.
Lemma zq_nz k : k <> 0%Z -> zq k <> 0.
Proof.
  intros Hk H. apply Hk. unfold zq in H. apply Q2Qc_eq_iff in H. unfold Qeq in H. simpl in H. lia.
Qed.
Lemma zq_sub_1 k : zq (k - 1) = zq k - 1.
Proof. replace (k - 1)%Z with (k + -1)%Z by lia. rewrite zq_add. replace (zq (-1)) with (- (1)).
  ring. apply Qc_is_canon. reflexivity. Qed.

(* ------------------------------------------------------------------ qpow *)
Ltac toQ := apply Qc_is_canon; unfold qpow; cbn [this Q2Qc Qcplus Qcmult]; rewrite ?Qred_correct.

Lemma qpow_0_r v : qpow v 0 = 1.
Proof. apply Qc_is_canon. reflexivity. Qed.
Lemma qpow_1_r v : qpow v 1 = v.
Proof. toQ. reflexivity. Qed.
Lemma qpow_add v a b : v <> 0 -> qpow v (a + b) = qpow v a * qpow v b.
Proof. intro H. toQ. apply Qpower_plus. apply this_nz. exact H. Qed.
Lemma qpow_add_nonneg v a b : (0 <= a)%Z -> (0 <= b)%Z -> qpow v (a + b) = qpow v a * qpow v b.
Proof.
  intros Ha Hb. destruct (Z.eq_dec (a + b) 0) as [E|E].
  - assert (a = 0%Z) by lia. assert (b = 0%Z) by lia. subst. simpl. rewrite qpow_0_r. ring.
  - toQ. apply Qpower_plus'. exact E.
Qed.
Lemma qpow_sub v a b : v <> 0 -> qpow v (a - b) * qpow v b = qpow v a.
Proof. intro H. rewrite <- qpow_add by exact H. f_equal. lia. Qed.
Lemma qpow_mul_base x y n : qpow (x * y) n = qpow x n * qpow y n.
Proof. toQ. apply Qmult_power. Qed.
Lemma qpow_pow v a b : qpow (qpow v a) b = qpow v (a * b).
Proof. toQ. symmetry. apply Qpower_mult. Qed.
Lemma qpow_nz v n : v <> 0 -> qpow v n <> 0.
Proof.
  intros H E. apply (Qpower_not_0 (this v) n (this_nz v H)).
  rewrite <- (Qred_correct (this v ^ n)). change (Qred (this v ^ n)) with (this (qpow v n)).
  rewrite E. reflexivity.
Qed.
Lemma qpow_0_l n : n <> 0%Z -> qpow 0 n = 0.
Proof. intro H. toQ. apply Qpower_0. exact H. Qed.
Lemma qpow_1_l n : qpow 1 n = 1.
Proof. toQ. apply Qpower_1. Qed.
Lemma qpow_succ v n : (0 <= n)%Z -> qpow v (n + 1) = qpow v n * v.
Proof. intro H. rewrite qpow_add_nonneg by lia. rewrite qpow_1_r. reflexivity. Qed.

(* ------------------------------------------------------------------ get / coefn and the dict operations *)
Lemma get_in d k c : get d k = Some c -> In (k, c) d.
Proof.
  induction d as [|[m x] r IH]; simpl; [discriminate|].
  destruct (m =? k)%Z eqn:E.
  - intro H. inversion H; subst. apply Z.eqb_eq in E. subst. left. reflexivity.
  - intro H. right. apply IH. exact H.
Qed.
Lemma get_none d k : get d k = None <-> ~ In k (keys d).
Proof.
  induction d as [|[m x] r IH]; simpl; [tauto|].
  destruct (m =? k)%Z eqn:E.
  - apply Z.eqb_eq in E. split; [discriminate|]. intro H. exfalso. apply H. left. exact E.
  - apply Z.eqb_neq in E. rewrite IH. tauto.
Qed.
Lemma in_get d k c : NoDupKeys d -> In (k, c) d -> get d k = Some c.
Proof.
  unfold NoDupKeys, keys. induction d as [|[m x] r IH]; simpl; [tauto|].
  intros ND [H|H].
  - inversion H; subst. rewrite Z.eqb_refl. reflexivity.
  - inversion ND as [|? ? Hn ND']; subst. destruct (m =? k)%Z eqn:E.
    + apply Z.eqb_eq in E. subst. exfalso. apply Hn. change k with (fst (k, c)). apply in_map. exact H.
    + apply IH; assumption.
Qed.
Lemma mem_keys d k : mem d k = true <-> In k (keys d).
Proof.
  unfold mem. destruct (get d k) eqn:E.
  - split; [|reflexivity]. intros _. apply get_in in E. change k with (fst (k, q)). apply in_map. exact E.
  - split; [discriminate|]. intro H. apply get_none in E. contradiction.
Qed.

Lemma coefn_nil k : coefn [] k = 0.
Proof. reflexivity. Qed.
Lemma coefn_cons m c r k : coefn ((m, c) :: r) k = if (m =? k)%Z then c else coefn r k.
Proof. unfold coefn. simpl. destruct (m =? k)%Z; reflexivity. Qed.
Lemma coefn_notin d k : ~ In k (keys d) -> coefn d k = 0.
Proof. intro H. apply get_none in H. unfold coefn. rewrite H. reflexivity. Qed.

(* od_set *)
Lemma get_od_set d k c k' : get (od_set d k c) k' = if (k =? k')%Z then Some c else get d k'.
Proof.
  induction d as [|[m x] r IH]; simpl.
  - destruct (k =? k')%Z; reflexivity.
  - destruct (m =? k)%Z eqn:E; simpl.
    + apply Z.eqb_eq in E. subst. destruct (k =? k')%Z; reflexivity.
    + rewrite IH. destruct (m =? k')%Z eqn:E2; [|reflexivity].
      apply Z.eqb_eq in E2. subst. rewrite Z.eqb_sym, E. reflexivity.
Qed.
Lemma keys_od_set_in d k c : In k (keys d) -> keys (od_set d k c) = keys d.
Proof.
  unfold keys. induction d as [|[m x] r IH]; simpl; [tauto|].
  intros H. destruct (m =? k)%Z eqn:E; simpl; [reflexivity|].
  f_equal. apply IH. destruct H as [H|H]; [|exact H]. apply Z.eqb_neq in E. contradiction.
Qed.
Lemma keys_od_set_notin d k c : ~ In k (keys d) -> keys (od_set d k c) = keys d ++ [k].
Proof.
  unfold keys. induction d as [|[m x] r IH]; simpl; [reflexivity|].
  intros H. destruct (m =? k)%Z eqn:E; simpl.
  - apply Z.eqb_eq in E. tauto.
  - f_equal. apply IH. tauto.
Qed.
Lemma NoDup_snoc (l : list Z) k : NoDup l -> ~ In k l -> NoDup (l ++ [k]).
Proof. intros H I. eapply Permutation_NoDup; [apply Permutation_cons_append|]. constructor; assumption. Qed.
Lemma NoDupKeys_od_set d k c : NoDupKeys d -> NoDupKeys (od_set d k c).
Proof.
  unfold NoDupKeys. intro H. destruct (in_dec Z.eq_dec k (keys d)) as [I|I].
  - rewrite keys_od_set_in by exact I. exact H.
  - rewrite keys_od_set_notin by exact I. apply NoDup_snoc; assumption.
Qed.

(* od_add *)
Lemma keys_od_add d k c : keys (od_add d k c) = keys (od_set d k c).
Proof.
  unfold keys. induction d as [|[m x] r IH]; simpl; [reflexivity|].
  destruct (m =? k)%Z; simpl; [reflexivity|]. f_equal. exact IH.
Qed.
Lemma NoDupKeys_od_add d k c : NoDupKeys d -> NoDupKeys (od_add d k c).
Proof. unfold NoDupKeys. rewrite keys_od_add. apply NoDupKeys_od_set. Qed.
Lemma dot_od_add d k c F : dot (od_add d k c) F = dot d F + c * F k.
Proof.
  induction d as [|[m x] r IH]; simpl; [ring|].
  destruct (m =? k)%Z eqn:E; simpl.
  - apply Z.eqb_eq in E. subst. ring.
  - rewrite IH. ring.
Qed.

(* od_del *)
Lemma get_od_del d k k' : get (od_del d k) k' = if (k =? k')%Z then None else get d k'.
Proof.
  unfold od_del. induction d as [|[m x] r IH]; simpl.
  - destruct (k =? k')%Z; reflexivity.
  - destruct (m =? k)%Z eqn:E; simpl.
    + rewrite IH. apply Z.eqb_eq in E. subst. destruct (k =? k')%Z; reflexivity.
    + rewrite IH. destruct (m =? k')%Z eqn:E2; [|reflexivity].
      apply Z.eqb_eq in E2. subst. rewrite Z.eqb_sym, E. reflexivity.
Qed.
Lemma coefn_od_del d k k' : coefn (od_del d k) k' = if (k =? k')%Z then 0 else coefn d k'.
Proof. unfold coefn. rewrite get_od_del. destruct (k =? k')%Z; reflexivity. Qed.
Lemma keys_filter_in (f : Z * Qc -> bool) d k : In k (keys (filter f d)) -> In k (keys d).
Proof.
  unfold keys. rewrite !in_map_iff. intros [e [H1 H2]]. apply filter_In in H2. exists e. tauto.
Qed.
Lemma NoDupKeys_filter (f : Z * Qc -> bool) d : NoDupKeys d -> NoDupKeys (filter f d).
Proof.
  unfold NoDupKeys. induction d as [|e r IH]; simpl; [trivial|].
  intro H. inversion H as [|? ? Hn H']; subst. destruct (f e); simpl.
  - constructor; [|apply IH; exact H']. intro I. apply Hn. apply (keys_filter_in f). exact I.
  - apply IH. exact H'.
Qed.
Lemma NoDupKeys_od_del d k : NoDupKeys d -> NoDupKeys (od_del d k).
Proof. apply NoDupKeys_filter. Qed.
Lemma nz_filter (f : Z * Qc -> bool) d : nz d -> nz (filter f d).
Proof.
  unfold nz. rewrite !Forall_forall. intros H e I. apply filter_In in I. apply H. tauto.
Qed.

Lemma NoDupKeys_cons m x r : NoDupKeys ((m, x) :: r) <-> ~ In m (keys r) /\ NoDupKeys r.
Proof.
  unfold NoDupKeys. simpl. split.
  - intro H. inversion H; subst. tauto.
  - intros [H1 H2]. constructor; assumption.
Qed.

(* ------------------------------------------------------------------ dot *)
Lemma dot_nil F : dot [] F = 0.
Proof. reflexivity. Qed.
Lemma dot_cons m x r F : dot ((m, x) :: r) F = x * F m + dot r F.
Proof. reflexivity. Qed.
Lemma dot_app a b F : dot (a ++ b) F = dot a F + dot b F.
Proof. induction a as [|[m x] r IH]; simpl; [ring|]. rewrite IH. ring. Qed.
Lemma dot_ext_in p F G : (forall k, In k (keys p) -> F k = G k) -> dot p F = dot p G.
Proof.
  induction p as [|[m x] r IH]; simpl; [reflexivity|].
  intro H. rewrite (H m) by (left; reflexivity). rewrite IH; [reflexivity|].
  intros k I. apply H. right. exact I.
Qed.
Lemma dot_ext p F G : (forall k, F k = G k) -> dot p F = dot p G.
Proof. intro H. apply dot_ext_in. intros k _. apply H. Qed.
Lemma dot_plus p F G : dot p (fun k => F k + G k) = dot p F + dot p G.
Proof. induction p as [|[m x] r IH]; simpl; [ring|]. rewrite IH. ring. Qed.
Lemma dot_scale p c F : dot p (fun k => c * F k) = c * dot p F.
Proof. induction p as [|[m x] r IH]; simpl; [ring|]. rewrite IH. ring. Qed.
Lemma dot_zero p : dot p (fun _ => 0) = 0.
Proof. induction p as [|[m x] r IH]; simpl; [ring|]. rewrite IH. ring. Qed.
Lemma dot_swap p q (G : Z -> Z -> Qc) :
  dot p (fun i => dot q (fun j => G i j)) = dot q (fun j => dot p (fun i => G i j)).
Proof.
  induction p as [|[m x] r IH]; simpl.
  - rewrite dot_zero. reflexivity.
  - rewrite IH. rewrite <- dot_scale. rewrite <- dot_plus. reflexivity.
Qed.
Lemma dot_perm a b F : Permutation a b -> dot a F = dot b F.
Proof.
  induction 1 as [|[m x] a b H IH|[m x] [m' x'] a|a b c H1 IH1 H2 IH2]; simpl.
  - reflexivity.
  - rewrite IH. reflexivity.
  - ring.
  - congruence.
Qed.
Lemma dot_map p (f : Z -> Z) (g : Z -> Qc -> Qc) F :
  dot (map (fun e => (f (fst e), g (fst e) (snd e))) p) F = fold_right (fun e acc => g (fst e) (snd e) * F (f (fst e)) + acc) 0 p.
Proof. induction p as [|[m x] r IH]; simpl; [reflexivity|]. rewrite IH. reflexivity. Qed.

Lemma dot_remove b k F : NoDupKeys b -> dot b F = coefn b k * F k + dot (od_del b k) F.
Proof.
  induction b as [|[m x] r IH]; intro ND.
  - simpl. rewrite coefn_nil. ring.
  - apply NoDupKeys_cons in ND as [Hn ND]. rewrite coefn_cons, dot_cons. unfold od_del. simpl.
    destruct (m =? k)%Z eqn:E; simpl.
    + apply Z.eqb_eq in E. subst. rewrite (IH ND). rewrite (coefn_notin r k Hn). unfold od_del. ring.
    + rewrite (IH ND). unfold od_del. ring.
Qed.

Lemma dot_all_zero b F : NoDupKeys b -> (forall k, coefn b k = 0) -> dot b F = 0.
Proof.
  induction b as [|[m x] r IH]; intros ND H; [reflexivity|].
  apply NoDupKeys_cons in ND as [Hn ND]. rewrite dot_cons.
  assert (x = 0) as ->. { specialize (H m). rewrite coefn_cons, Z.eqb_refl in H. exact H. }
  rewrite IH; [ring|exact ND|].
  intro k. specialize (H k). rewrite coefn_cons in H. destruct (m =? k)%Z eqn:E; [|exact H].
  apply Z.eqb_eq in E. subst. apply coefn_notin. exact Hn.
Qed.

(* equal coefficient functions give equal functionals *)
Lemma dot_same a : forall b F, NoDupKeys a -> NoDupKeys b -> same a b -> dot a F = dot b F.
Proof.
  induction a as [|[m x] r IH]; intros b F NDa NDb S.
  - simpl. symmetry. apply dot_all_zero; [exact NDb|]. intro k. rewrite <- S. reflexivity.
  - apply NoDupKeys_cons in NDa as [Hn NDa]. rewrite dot_cons, (dot_remove b m F NDb).
    rewrite <- (S m), coefn_cons, Z.eqb_refl. f_equal.
    apply IH; [exact NDa|apply NoDupKeys_od_del; exact NDb|].
    intro k. rewrite coefn_od_del. specialize (S k). rewrite coefn_cons in S.
    destruct (m =? k)%Z eqn:E; [|exact S]. apply Z.eqb_eq in E. subst. apply coefn_notin. exact Hn.
Qed.

(* coefficient-wise sums give sums of functionals *)
Lemma dot_add_gen p : forall q s F, NoDupKeys p -> NoDupKeys q -> NoDupKeys s ->
  (forall k, coefn s k = coefn p k + coefn q k) -> dot s F = dot p F + dot q F.
Proof.
  induction p as [|[m x] r IH]; intros q s F NDp NDq NDs H.
  - rewrite dot_nil. rewrite (dot_same s q F NDs NDq); [ring|].
    intro k. rewrite H, coefn_nil. ring.
  - apply NoDupKeys_cons in NDp as [Hn NDp].
    rewrite dot_cons, (dot_remove s m F NDs), (dot_remove q m F NDq).
    rewrite (IH (od_del q m) (od_del s m) F NDp (NoDupKeys_od_del _ _ NDq) (NoDupKeys_od_del _ _ NDs)).
    + rewrite H, coefn_cons, Z.eqb_refl. ring.
    + intro k. rewrite !coefn_od_del. specialize (H k). rewrite coefn_cons in H.
      destruct (m =? k)%Z eqn:E; [|exact H]. apply Z.eqb_eq in E. subst. rewrite (coefn_notin r k Hn). ring.
Qed.

(* the coefficient function is the functional at a delta *)
Definition delta (k : Z) (j : Z) : Qc := if (j =? k)%Z then 1 else 0.
Lemma coefn_dot p k : NoDupKeys p -> coefn p k = dot p (delta k).
Proof.
  induction p as [|[m x] r IH]; intro ND; [reflexivity|].
  apply NoDupKeys_cons in ND as [Hn ND]. rewrite coefn_cons, dot_cons. unfold delta at 1.
  destruct (m =? k)%Z eqn:E.
  - apply Z.eqb_eq in E. subst. rewrite <- IH by exact ND. rewrite (coefn_notin r k Hn). ring.
  - rewrite IH by exact ND. ring.
Qed.
Lemma same_of_dot p q : NoDupKeys p -> NoDupKeys q -> (forall F, dot p F = dot q F) -> same p q.
Proof. intros Hp Hq H k. rewrite !coefn_dot by assumption. apply H. Qed.

(* ------------------------------------------------------------------ __eq__ and the coefficient function *)
Lemma wf_in_coefn p k c : NoDupKeys p -> In (k, c) p -> coefn p k = c.
Proof. intros ND I. unfold coefn. rewrite (in_get p k c ND I). reflexivity. Qed.
Lemma coefn_nz_in p k : coefn p k <> 0 -> In (k, coefn p k) p.
Proof.
  unfold coefn. destruct (get p k) eqn:E; [|intro H; exfalso; apply H; reflexivity].
  intros _. apply get_in. exact E.
Qed.

Lemma same_incl_keys p q : wf p -> same p q -> incl (keys p) (keys q).
Proof.
  intros [ND NZ] S k I. unfold keys in I. apply in_map_iff in I as [[k' c] [E I]]. simpl in E. subst k'.
  assert (C : coefn p k = c) by (apply wf_in_coefn; assumption).
  assert (Hc : c <> 0). { unfold nz in NZ. rewrite Forall_forall in NZ. apply (NZ _ I). }
  rewrite S in C. assert (In (k, coefn q k) q) by (apply coefn_nz_in; congruence).
  change k with (fst (k, coefn q k)). apply in_map. assumption.
Qed.

Lemma peq_of_same p q : wf p -> wf q -> same p q -> peq p q = true.
Proof.
  intros Wp Wq S. unfold peq. apply andb_true_iff. split.
  - apply Nat.eqb_eq. rewrite <- (map_length fst p), <- (map_length fst q). apply Nat.le_antisymm.
    + apply NoDup_incl_length; [apply Wp|]. apply same_incl_keys; assumption.
    + apply NoDup_incl_length; [apply Wq|]. apply same_incl_keys; [assumption|]. intro k. symmetry. apply S.
  - apply forallb_forall. intros [k c] I. simpl.
    assert (C : coefn p k = c) by (apply wf_in_coefn; [apply Wp|assumption]).
    assert (Hc : c <> 0). { destruct Wp as [_ NZ]. unfold nz in NZ. rewrite Forall_forall in NZ. apply (NZ _ I). }
    rewrite S in C. unfold coefn in C. destruct (get q k) eqn:E.
    + apply Qc_eqb_spec. congruence.
    + congruence.
Qed.

Lemma same_of_peq p q : wf p -> wf q -> peq p q = true -> same p q.
Proof.
  intros Wp Wq H. unfold peq in H. apply andb_true_iff in H as [HL HA]. apply Nat.eqb_eq in HL.
  rewrite forallb_forall in HA.
  assert (Ipq : forall k c, In (k, c) p -> get q k = Some c).
  { intros k c I. specialize (HA _ I). simpl in HA. destruct (get q k) eqn:E; [|discriminate].
    apply Qc_eqb_spec in HA. congruence. }
  assert (Kpq : incl (keys p) (keys q)).
  { intros k I. unfold keys in I. apply in_map_iff in I as [[k' c] [E I]]. simpl in E. subst k'.
    apply Ipq in I. apply get_in in I. change k with (fst (k, c)). apply in_map. exact I. }
  assert (Kqp : incl (keys q) (keys p)).
  { apply NoDup_length_incl; [apply Wp| |exact Kpq]. unfold keys. rewrite !map_length. lia. }
  intro k. destruct (in_dec Z.eq_dec k (keys p)) as [I|I].
  - unfold keys in I. apply in_map_iff in I as [[k' c] [E I]]. simpl in E. subst k'.
    rewrite (wf_in_coefn p k c (proj1 Wp) I). unfold coefn. rewrite (Ipq _ _ I). reflexivity.
  - rewrite (coefn_notin p k I). symmetry. apply coefn_notin. intro J. apply I. apply Kqp. exact J.
Qed.

Lemma peq_iff_same p q : wf p -> wf q -> (peq p q = true <-> same p q).
Proof. intros Wp Wq. split; [apply same_of_peq|apply peq_of_same]; assumption. Qed.
