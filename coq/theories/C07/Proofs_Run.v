(* C07 - the representation invariant over every history of operations (no zero coefficient
   is ever stored, powers are distinct), and ==, != and hash. *)
From Coq Require Import List Bool ZArith QArith Qcanon Qpower Lia Permutation String.
From AL Require Import Base.CaseLib C07.Model C07.Spec C07.Lib C07.Proofs_Ring C07.Proofs_Eval C07.Proofs_Calc.
Import ListNotations.
Open Scope Qc_scope.

(* ------------------------------------------------------------------ integer-valued float keys *)
Definition rkeys (s : raw) : list Z := map (fun e => fst (fst e)) s.
Definition strip (s : raw) : poly := map (fun e => (fst (fst e), snd e)) s.

Lemma get_compact_loop_raw s : NoDup (rkeys s) -> forall d k',
  get (compact_loop s d) k' =
  match find (fun e => (fst (fst e) =? k')%Z) s with
  | Some (_, f, v) => if Qc_eqb v 0 then None else if f then Some v else get d k'
  | None => get d k'
  end.
Proof.
  induction s as [|[[k f] v] r IH]; intros ND d k'; [reflexivity|].
  inversion ND as [|? ? Hn ND']; subst. cbn [compact_loop find fst snd].
  rewrite (IH ND').
  destruct (k =? k')%Z eqn:E.
  - apply Z.eqb_eq in E. subst k'.
    assert (Fn : find (fun e => (fst (fst e) =? k)%Z) r = None).
    { destruct (find _ r) as [[[k1 f1] v1]|] eqn:Fd; [|reflexivity]. apply find_some in Fd as [I Ek].
      simpl in Ek. apply Z.eqb_eq in Ek. subst. exfalso. apply Hn. unfold rkeys.
      exact (in_map (fun e : Z * bool * Qc => fst (fst e)) r (k, f1, v1) I). }
    rewrite Fn. destruct (Qc_eqb v 0).
    + rewrite get_od_del, Z.eqb_refl. reflexivity.
    + destruct f; [|reflexivity]. rewrite get_od_set, Z.eqb_refl. reflexivity.
  - assert (G : get (if Qc_eqb v 0 then od_del (if f then od_set (od_del d k) k v else d) k
                     else if f then od_set (od_del d k) k v else d) k' = get d k').
    { destruct (Qc_eqb v 0), f; rewrite ?get_od_del, ?get_od_set, ?get_od_del, ?E; reflexivity. }
    rewrite G. reflexivity.
Qed.
Lemma NoDupKeys_compact_loop_raw s : forall d, NoDupKeys d -> NoDupKeys (compact_loop s d).
Proof.
  induction s as [|[[k f] v] r IH]; intros d H; [exact H|]. cbn [compact_loop]. apply IH.
  assert (H1 : NoDupKeys (if f then od_set (od_del d k) k v else d)).
  { destruct f; [apply NoDupKeys_od_set, NoDupKeys_od_del|]; exact H. }
  destruct (Qc_eqb v 0); [apply NoDupKeys_od_del|]; exact H1.
Qed.
Lemma rkeys_raw_set d k f c : rkeys (raw_set d k f c) = keys (od_set (strip d) k c).
Proof.
  unfold rkeys, keys, strip. induction d as [|[[m g] x] r IH]; simpl; [reflexivity|].
  destruct (m =? k)%Z; simpl; [rewrite map_map; reflexivity|]. f_equal. exact IH.
Qed.
Lemma strip_raw_set d k f c : strip (raw_set d k f c) = od_set (strip d) k c.
Proof.
  unfold strip. induction d as [|[[m g] x] r IH]; simpl; [reflexivity|].
  destruct (m =? k)%Z; simpl; [reflexivity|]. f_equal. exact IH.
Qed.
Lemma rkeys_strip d : rkeys d = keys (strip d).
Proof. unfold rkeys, keys, strip. rewrite map_map. reflexivity. Qed.
Lemma NoDup_rkeys_fold l : forall d, NoDup (rkeys d) ->
  NoDup (rkeys (fold_left (fun d e => raw_set d (fst (fst e)) (snd (fst e)) (snd e)) l d)).
Proof.
  induction l as [|e r IH]; intros d H; simpl; [exact H|]. apply IH.
  rewrite rkeys_strip, strip_raw_set. apply NoDupKeys_od_set. unfold NoDupKeys. rewrite <- rkeys_strip. exact H.
Qed.
Lemma find_strip s k : NoDup (rkeys s) ->
  match find (fun e => (fst (fst e) =? k)%Z) s with
  | Some (_, _, v) => get (strip s) k = Some v
  | None => get (strip s) k = None
  end.
Proof.
  induction s as [|[[m f] v] r IH]; intro ND; [reflexivity|]. inversion ND; subst. simpl.
  destruct (m =? k)%Z; [reflexivity|]. apply IH. assumption.
Qed.
Lemma wf_poly_of_raw l : wf (poly_of_raw l).
Proof.
  unfold poly_of_raw. cbv zeta. match goal with |- wf (compact_loop ?x _) => set (d := x) end.
  assert (ND : NoDup (rkeys d)) by (apply NoDup_rkeys_fold; constructor).
  change (map (fun e : Z * bool * Qc => (fst (fst e), snd e)) d) with (strip d).
  assert (NK : NoDupKeys (compact_loop d (strip d))).
  { apply NoDupKeys_compact_loop_raw. unfold NoDupKeys. rewrite <- rkeys_strip. exact ND. }
  split; [exact NK|]. unfold nz. apply Forall_forall. intros [k c] I. simpl. intro Hc. subst c.
  apply (in_get _ _ _ NK) in I. rewrite (get_compact_loop_raw d ND) in I.
  pose proof (find_strip d k ND) as Fs.
  destruct (find (fun e => (fst (fst e) =? k)%Z) d) as [[[k1 f1] v1]|].
  - destruct (Qc_eqb v1 0) eqn:E; [discriminate|]. apply Qc_eqb_false in E.
    destruct f1; [inversion I; congruence|]. rewrite Fs in I. inversion I. congruence.
  - congruence.
Qed.

(* ------------------------------------------------------------------ item assignment *)
Lemma in_od_set d k c e : In e (od_set d k c) -> In e d \/ e = (k, c).
Proof.
  induction d as [|[m x] r IH]; simpl.
  - intros [H|[]]. right. symmetry. exact H.
  - destruct (m =? k)%Z eqn:E; simpl.
    + apply Z.eqb_eq in E. subst. intros [H|H]; [right; symmetry; exact H|left; right; exact H].
    + intros [H|H]; [left; left; exact H|]. destruct (IH H) as [H'|H']; [left; right; exact H'|right; exact H'].
Qed.
Lemma wf_psetitem p k c : wf p -> wf (psetitem p k c).
Proof.
  intros [ND NZ]. unfold psetitem. destruct (Qc_eqb c 0) eqn:E; simpl.
  - split; [apply NoDupKeys_od_del; exact ND|apply nz_filter; exact NZ].
  - apply Qc_eqb_false in E. split; [apply NoDupKeys_od_set; exact ND|].
    unfold nz in *. rewrite Forall_forall in *. intros e I. apply in_od_set in I as [I| ->]; [apply NZ; exact I|exact E].
Qed.

(* ------------------------------------------------------------------ the invariant of every operation *)
Lemma wf_pdiv_scalar p c r : pdiv_scalar p c = Ok r -> wf r.
Proof.
  unfold pdiv_scalar. destruct p; [intro H; inversion H; apply wf_nil|].
  destruct (Qc_eqb c 0); [discriminate|]. intro H. inversion H. apply wf_mk.
Qed.
Lemma wf_pdiv_poly p q r : pdiv_poly p q = Ok r -> wf r.
Proof.
  unfold pdiv_poly. destruct q as [|[d v] [|e q']]; try discriminate. intro H. inversion H. apply wf_mk.
Qed.
Lemma wf_pint p r : pint p = Ok r -> wf r.
Proof. intro H. apply pint_inv in H as [_ ->]. apply wf_mk. Qed.

Theorem run_wf : forall e p, run e = Ok p -> wf p.
Proof.
  induction e; intros p0 H; cbn [run] in H;
    repeat match goal with
    | H : bind2 (run ?a) (run ?b) _ = Ok _ |- _ =>
        let pa := fresh "pa" in let pb := fresh "pb" in
        destruct (run a) as [pa|] eqn:?; [|discriminate]; destruct (run b) as [pb|] eqn:?; [|discriminate]; cbn [bind2 bind] in H
    | H : bind (run ?a) _ = Ok _ |- _ =>
        let pa := fresh "pa" in destruct (run a) as [pa|] eqn:?; [|discriminate]; cbn [bind] in H
    end;
    try (inversion H; subst; clear H).
  - apply wf_mk.
  - apply wf_poly_of_raw.
  - apply wf_mk.
  - apply wf_mk.
  - apply wf_mk.
  - apply wf_mk.
  - apply wf_mk.
  - apply wf_mk.
  - apply wf_padd.
  - apply wf_psub.
  - apply wf_pmul.
  - apply wf_padd.
  - apply wf_padd.
  - apply wf_padd.
  - apply wf_psub.
  - apply wf_pmul.
  - apply wf_pmul.
  - apply wf_ppow. apply IHe. reflexivity.
  - eapply wf_pdiv_scalar. eassumption.
  - eapply wf_pdiv_poly. eassumption.
  - apply wf_pdiff. apply (IHe pa). reflexivity.
  - eapply wf_pint. eassumption.
  - apply wf_pcompose.
  - apply wf_psetitem. apply wf_mk.
  - apply wf_mk.
Qed.

(* ------------------------------------------------------------------ == , != and hash *)
Lemma peq_refl p : wf p -> peq p p = true.
Proof. intro W. apply peq_of_same; try assumption. intro k. reflexivity. Qed.
Lemma peq_sym p q : wf p -> wf q -> peq p q = peq q p.
Proof.
  intros Wp Wq. destruct (peq p q) eqn:E1, (peq q p) eqn:E2; try reflexivity.
  - apply same_of_peq in E1; try assumption. assert (peq q p = true); [|congruence].
    apply peq_of_same; try assumption. intro k. symmetry. apply E1.
  - apply same_of_peq in E2; try assumption. assert (peq p q = true); [|congruence].
    apply peq_of_same; try assumption. intro k. symmetry. apply E2.
Qed.
Lemma peq_trans p q r : wf p -> wf q -> wf r -> peq p q = true -> peq q r = true -> peq p r = true.
Proof.
  intros Wp Wq Wr H1 H2. apply same_of_peq in H1; try assumption. apply same_of_peq in H2; try assumption.
  apply peq_of_same; try assumption. intro k. rewrite H1. apply H2.
Qed.
Lemma eq_not_ne p q : pne p q = negb (peq p q).
Proof. reflexivity. Qed.
Lemma eq_ne_exclusive p q : xorb (peq p q) (pne p q) = true.
Proof. unfold pne. destruct (peq p q); reflexivity. Qed.

Lemma NoDup_of_keys (p : poly) : NoDupKeys p -> NoDup p.
Proof. unfold NoDupKeys, keys. apply NoDup_map_inv. Qed.
Lemma peq_perm p q : wf p -> wf q -> peq p q = true -> Permutation p q.
Proof.
  intros Wp Wq H. unfold peq in H. apply andb_true_iff in H as [HL HA]. apply Nat.eqb_eq in HL.
  rewrite forallb_forall in HA.
  apply NoDup_Permutation_bis; [apply NoDup_of_keys; apply Wp|lia|].
  intros [k c] I. specialize (HA _ I). simpl in HA. destruct (get q k) eqn:E; [|discriminate].
  apply Qc_eqb_spec in HA. subst. apply get_in. exact E.
Qed.
(* hash(p) = hash((frozenset(items), zero)) depends only on the set of items *)
Lemma eq_hash (H : list (Z * Qc) -> Z) p q : perm_invariant H -> wf p -> wf q ->
  peq p q = true -> H (hash_items p) = H (hash_items q).
Proof. intros PI Wp Wq E. apply PI. apply peq_perm; assumption. Qed.
