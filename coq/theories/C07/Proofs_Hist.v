(* C07 - histories on live objects: the representation invariant holds in every object after any
   history of constructions, operators, item assignments and hashing; operations are independent. *)
From Coq Require Import List Bool ZArith QArith Qcanon Qpower Lia Permutation String.
From AL Require Import Base.CaseLib C07.Model C07.Spec C07.Lib C07.Proofs_Ring C07.Proofs_Eval C07.Proofs_Calc C07.Proofs_Run.
Import ListNotations.
Open Scope Qc_scope.

(* ------------------------------------------------------------------ histories on live objects *)
Definition heap_wf (s : hstate) : Prop := Forall (fun x : poly * bool => wf (fst x)) (objs s).

Lemma upd_Forall {A} (P : A -> Prop) l : forall n x, Forall P l -> P x -> Forall P (upd l n x).
Proof.
  induction l as [|h r IH]; intros n x H Hx; simpl; [constructor|].
  inversion H; subst. destruct n; constructor; auto.
Qed.
Lemma obj_of_wf s i o p h : heap_wf s -> obj_of s i = Some (o, (p, h)) -> wf p.
Proof.
  unfold obj_of, heap_wf. intros H E. destruct (nth_error (slots s) i); [|discriminate].
  destruct (nth_error (objs s) n) eqn:En; [|discriminate]. inversion E; subst.
  apply nth_error_In in En. rewrite Forall_forall in H. apply (H _ En).
Qed.
Lemma alloc_wf s p : heap_wf s -> wf p -> heap_wf (alloc s p).
Proof. unfold heap_wf, alloc. simpl. intros H W. apply Forall_app. split; [exact H|]. constructor; [exact W|constructor]. Qed.
Lemma run_unop_wf u p r : wf p -> run_unop u p = Ok (UFresh r) -> wf r.
Proof.
  intros W. destruct u; unfold run_unop; intro H.
  - inversion H; subst. apply wf_pdiff. apply W.
  - destruct (pint p) eqn:E; [|discriminate]. inversion H; subst. eapply wf_pint. exact E.
  - inversion H; subst. apply wf_mk.
  - inversion H; subst. apply wf_mk.
  - inversion H; subst. apply wf_mk.
  - inversion H; subst. apply wf_padd.
  - inversion H; subst. apply wf_pmul.
  - match type of H with (if ?c then _ else _) = _ => destruct c end; [discriminate|].
    inversion H; subst. apply wf_ppow. exact W.
  - inversion H; subst. apply wf_mk.
Qed.
Lemma run_binop_wf b p q : wf (run_binop b p q).
Proof. destruct b; simpl; [apply wf_padd|apply wf_psub|apply wf_pmul|apply wf_pcompose]. Qed.
Lemma hash_fold_wf os : forall ob, Forall (fun x : poly * bool => wf (fst x)) ob ->
  Forall (fun x : poly * bool => wf (fst x))
    (fold_left (fun ob o => match nth_error ob o with Some (p, _) => upd ob o (p, true) | None => ob end) os ob).
Proof.
  induction os as [|o os IH]; intros ob H; simpl; [exact H|]. apply IH.
  destruct (nth_error ob o) as [[p h]|] eqn:E; [|exact H]. apply upd_Forall; [exact H|].
  apply nth_error_In in E. rewrite Forall_forall in H. apply (H _ E).
Qed.

(* no zero coefficient is ever stored in ANY object, after any history of constructions, operators,
   item assignments, hashing and set / dict insertions *)
Lemma hstep_wf s op : heap_wf s -> heap_wf (fst (hstep s op)).
Proof.
  intro H. destruct op; simpl.
  - destruct (run e) eqn:E; simpl; [|exact H]. apply alloc_wf; [exact H|]. eapply run_wf. exact E.
  - destruct (obj_of s i) as [[o [p h]]|] eqn:E; simpl; [|exact H].
    destruct (run_unop u p) as [[r|]|] eqn:Eu; simpl; try exact H.
    apply alloc_wf; [exact H|]. eapply run_unop_wf; [|exact Eu]. eapply obj_of_wf; eassumption.
  - destruct (obj_of s i) as [[o [p h]]|] eqn:E; simpl; [|exact H].
    destruct (obj_of s j) as [[o' [q h']]|] eqn:E'; simpl; [|exact H].
    apply alloc_wf; [exact H|apply run_binop_wf].
  - destruct (obj_of s i) as [[o [p [|]]]|] eqn:E; simpl; try exact H.
    unfold heap_wf. simpl. apply upd_Forall; [exact H|]. simpl. apply wf_psetitem. eapply obj_of_wf; eassumption.
  - unfold heap_wf. simpl. apply hash_fold_wf. exact H.
  - exact H.
  - destruct (obj_of s i); exact H.
  - destruct (obj_of s i) as [[o [p [|]]]|]; exact H.
Qed.
Lemma hrun_wf ops : forall s, heap_wf s -> Forall (fun x => heap_wf (fst x)) (hrun s ops).
Proof.
  induction ops as [|op r IH]; intros s H; simpl; [constructor|].
  pose proof (hstep_wf s op H) as H'. destruct (hstep s op) as [s' f]. simpl in H'.
  constructor; [exact H'|apply IH; exact H'].
Qed.
Lemma hinit_wf : heap_wf hinit.
Proof. constructor. Qed.
Theorem history_no_zero_stored ops : Forall (fun x => heap_wf (fst x)) (hrun hinit ops).
Proof. apply hrun_wf. apply hinit_wf. Qed.

(* operations never touch the objects they do not name: constructors and operators only allocate,
   item assignment changes exactly the assigned object *)
Lemma upd_other {A} (l : list A) n x m : m <> n -> nth_error (upd l n x) m = nth_error l m.
Proof.
  revert n m. induction l as [|h r IH]; intros n m Hm; simpl; [reflexivity|].
  destruct n, m; simpl; try reflexivity; [congruence|apply IH; congruence].
Qed.
Theorem calls_independent s op o : (o < List.length (objs s))%nat ->
  (forall i k c, op = HSet i k c -> forall x, obj_of s i = Some x -> fst x <> o) ->
  (forall l, op <> HHash l) ->
  nth_error (objs (fst (hstep s op))) o = nth_error (objs s) o.
Proof.
  intros Ho Hs Hh. destruct op; simpl.
  - destruct (run e); simpl; [apply nth_error_app1; exact Ho|reflexivity].
  - destruct (obj_of s i) as [[o' [p h]]|]; simpl; [|reflexivity].
    destruct (run_unop u p) as [[r|]|]; simpl; [apply nth_error_app1; exact Ho|reflexivity|reflexivity].
  - destruct (obj_of s i) as [[o1 [p h]]|]; simpl; [|reflexivity].
    destruct (obj_of s j) as [[o2 [q h']]|]; simpl; [apply nth_error_app1; exact Ho|reflexivity].
  - destruct (obj_of s i) as [[o' [p [|]]]|] eqn:E; simpl; try reflexivity.
    apply upd_other. intro X. apply (Hs i k c eq_refl _ E). simpl. congruence.
  - exfalso. apply (Hh l). reflexivity.
  - reflexivity.
  - destruct (obj_of s i); reflexivity.
  - destruct (obj_of s i) as [[o' [p [|]]]|]; reflexivity.
Qed.
