(* C07 - the Waring-Lagrange interpolator: lagrange.func computes the interpolation formula,
   lagrange.poly is the polynomial with those values, and both pass through the points. *)
From Coq Require Import List Bool ZArith QArith Qcanon Qpower Lia Permutation String.
From AL Require Import Base.CaseLib C07.Model C07.Spec C07.Lib C07.Proofs_Ring C07.Proofs_Eval.
Import ListNotations.
Open Scope Qc_scope.

(* the duck-typed values of the interpolator lambda: numbers, or polynomials proper *)
Definition np_ok (a : np) : Prop := match a with Num _ => True | Pol p => wf p /\ nonneg p end.
Definition npval (a : np) (v : Qc) : Qc := match a with Num c => c | Pol p => ev p v end.
Definition is_num (a : np) : Prop := match a with Num _ => True | Pol _ => False end.

Lemma ev_pmul_nn p q v : nonneg p -> nonneg q -> ev (pmul p q) v = ev p v * ev q v.
Proof. intros Np Nq. apply ev_pmul. right. split; assumption. Qed.

Lemma np_mul_ok a b : np_ok a -> np_ok b ->
  np_ok (np_mul a b) /\ forall v, npval (np_mul a b) v = npval a v * npval b v.
Proof.
  destruct a as [x|p], b as [y|q]; simpl; intros Ha Hb.
  - split; [exact I|reflexivity].
  - destruct Hb as [Wq Nq]. split; [split; [apply wf_pmul|apply nonneg_pmul; [apply nonneg_pconst|exact Nq]]|].
    intro v. rewrite ev_pmul_nn; [rewrite ev_pconst; reflexivity|apply nonneg_pconst|exact Nq].
  - destruct Ha as [Wp Np]. split; [split; [apply wf_pmul|apply nonneg_pmul; [exact Np|apply nonneg_pconst]]|].
    intro v. rewrite ev_pmul_nn; [rewrite ev_pconst; reflexivity|exact Np|apply nonneg_pconst].
  - destruct Ha as [Wp Np], Hb as [Wq Nq]. split; [split; [apply wf_pmul|apply nonneg_pmul; assumption]|].
    intro v. apply ev_pmul_nn; assumption.
Qed.
Lemma np_add_ok a b : np_ok a -> np_ok b ->
  np_ok (np_add a b) /\ forall v, npval (np_add a b) v = npval a v + npval b v.
Proof.
  destruct a as [x|p], b as [y|q]; simpl; intros Ha Hb.
  - split; [exact I|reflexivity].
  - destruct Hb as [Wq Nq]. split; [split; [apply wf_padd|apply nonneg_padd; [apply wf_pconst|exact Wq|apply nonneg_pconst|exact Nq]]|].
    intro v. rewrite ev_padd; [rewrite ev_pconst; reflexivity|apply wf_pconst|apply Wq].
  - destruct Ha as [Wp Np]. split; [split; [apply wf_padd|apply nonneg_padd; [exact Wp|apply wf_pconst|exact Np|apply nonneg_pconst]]|].
    intro v. rewrite ev_padd; [rewrite ev_pconst; reflexivity|apply Wp|apply wf_pconst].
  - destruct Ha as [Wp Np], Hb as [Wq Nq]. split; [split; [apply wf_padd|apply nonneg_padd; assumption]|].
    intro v. apply ev_padd; [apply Wp|apply Wq].
Qed.
Lemma np_sub_num_ok a r : np_ok a ->
  np_ok (np_sub_num a r) /\ forall v, npval (np_sub_num a r) v = npval a v - r.
Proof.
  destruct a as [x|p]; simpl; intros Ha.
  - split; [exact I|reflexivity].
  - destruct Ha as [Wp Np]. split; [split; [apply wf_padd|apply nonneg_padd; [exact Wp|apply wf_pconst|exact Np|apply nonneg_pconst]]|].
    intro v. rewrite ev_padd; [rewrite ev_pconst; ring|apply Wp|apply wf_pconst].
Qed.
Lemma dot_map_div p r F : dot (map (fun e => (fst e, snd e / r)) p) F = dot p F / r.
Proof. induction p as [|[m x] t IH]; simpl; [unfold Qcdiv; ring|]. rewrite IH. unfold Qcdiv. ring. Qed.
Lemma dot_pscale_div p r F : NoDupKeys p -> dot (pscale_div p r) F = dot p F / r.
Proof.
  intro H. unfold pscale_div. rewrite dot_mk by (apply (NoDupKeys_map_val p (fun e => snd e / r)); exact H).
  apply dot_map_div.
Qed.
Lemma np_div_num_ok a r : np_ok a ->
  np_ok (np_div_num a r) /\ forall v, npval (np_div_num a r) v = npval a v / r.
Proof.
  destruct a as [x|p]; simpl; intros Ha.
  - split; [exact I|reflexivity].
  - destruct Ha as [Wp Np]. split.
    + split; [apply wf_mk|]. apply nonneg_of_coefn; [apply wf_mk|]. intros k Hk.
      rewrite coefn_dot by apply wf_mk. rewrite dot_pscale_div by apply Wp. rewrite <- coefn_dot by apply Wp.
      rewrite coefn_notin; [unfold Qcdiv; ring|]. intro I. pose proof (nonneg_keys p k Np I). lia.
    + intro v. unfold ev. apply dot_pscale_div. apply Wp.
Qed.

(* the inner product over the other abscissae *)
Definition inner (k : np) (rj : Qc) (l : list Qc) (a : np) : np :=
  fold_left (fun a rk => np_mul a (np_div_num (np_sub_num k rk) (rj - rk))) l a.
Lemma inner_ok k rj l : np_ok k -> forall a, np_ok a ->
  np_ok (inner k rj l a) /\
  forall v, npval (inner k rj l a) v
            = npval a v * fold_right (fun rk acc => ((npval k v - rk) / (rj - rk)) * acc) 1 l.
Proof.
  intro Hk. unfold inner. induction l as [|rk l IH]; intros a Ha; simpl.
  - split; [exact Ha|]. intro v. ring.
  - destruct (np_sub_num_ok k rk Hk) as [O1 V1]. destruct (np_div_num_ok _ (rj - rk) O1) as [O2 V2].
    destruct (np_mul_ok a _ Ha O2) as [O3 V3]. destruct (IH _ O3) as [O4 V4].
    split; [exact O4|]. intro v. rewrite V4, V3, V2, V1. ring.
Qed.
Lemma inner_num k rj l : is_num k -> forall a, is_num a -> is_num (inner k rj l a).
Proof.
  intro Hk. unfold inner. induction l as [|rk l IH]; intros a Ha; simpl; [exact Ha|].
  apply IH. destruct k, a; simpl in *; tauto.
Qed.
Lemma basis_filter xs rj t :
  fold_right (fun rk acc => ((t - rk) / (rj - rk)) * acc) 1 (filter (fun rk => negb (Qc_eqb rj rk)) xs)
  = lag_basis xs rj t.
Proof.
  unfold lag_basis. induction xs as [|xk xs IH]; simpl; [reflexivity|].
  destruct (Qc_eqb rj xk); simpl; rewrite IH; ring.
Qed.

Definition outer (k : np) (xv : list Qc) (pts : list (Qc * Qc)) (acc : np) : np :=
  fold_left (fun acc pt =>
     let rj := fst pt in
     let prod := fold_left (fun a rk => np_mul a (np_div_num (np_sub_num k rk) (rj - rk)))
                           (filter (fun rk => negb (Qc_eqb rj rk)) xv) (Num 1) in
     np_add acc (np_mul (Num (snd pt)) prod)) pts acc.
Lemma outer_ok k xv pts : np_ok k -> forall acc, np_ok acc ->
  np_ok (outer k xv pts acc) /\
  forall v, npval (outer k xv pts acc) v
            = npval acc v + fold_right (fun pt s => snd pt * lag_basis xv (fst pt) (npval k v) + s) 0 pts.
Proof.
  intro Hk. unfold outer. induction pts as [|[rj y] pts IH]; intros acc Ha; cbn [fold_left fold_right fst snd].
  - split; [exact Ha|]. intro v. ring.
  - destruct (inner_ok k rj (filter (fun rk => negb (Qc_eqb rj rk)) xv) Hk (Num 1) I) as [O1 V1].
    destruct (np_mul_ok (Num y) _ I O1) as [O2 V2]. destruct (np_add_ok acc _ Ha O2) as [O3 V3].
    destruct (IH _ O3) as [O4 V4]. split; [exact O4|]. intro v.
    unfold inner in *. rewrite V4, V3, V2, V1. rewrite basis_filter. simpl. ring.
Qed.
Lemma outer_num k xv pts : is_num k -> forall acc, is_num acc -> is_num (outer k xv pts acc).
Proof.
  intro Hk. unfold outer. induction pts as [|[rj y] pts IH]; intros acc Ha; cbn [fold_left fst snd]; [exact Ha|].
  apply IH. pose proof (inner_num k rj (filter (fun rk => negb (Qc_eqb rj rk)) xv) Hk (Num 1) I) as H.
  unfold inner in H. destruct (fold_left _ _ (Num 1)); [|contradiction]. destruct acc; simpl in *; tauto.
Qed.
Lemma lagrange_np_outer pts k : lagrange_np pts k = outer k (map fst pts) pts (Num 0).
Proof. reflexivity. Qed.

Lemma lagrange_np_ok pts k : np_ok k ->
  np_ok (lagrange_np pts k) /\ forall v, npval (lagrange_np pts k) v = lag_spec pts (npval k v).
Proof.
  intro Hk. rewrite lagrange_np_outer. destruct (outer_ok k (map fst pts) pts Hk (Num 0) I) as [O V].
  split; [exact O|]. intro v. rewrite V. simpl. unfold lag_spec. ring.
Qed.

Lemma lagrange_func_spec pts v : lagrange_func pts v = lag_spec pts v.
Proof.
  unfold lagrange_func. destruct (lagrange_np_ok pts (Num v) I) as [_ V].
  pose proof (outer_num (Num v) (map fst pts) pts I (Num 0) I) as N. rewrite <- lagrange_np_outer in N.
  specialize (V 0). destruct (lagrange_np pts (Num v)); [exact V|contradiction].
Qed.

(* ------------------------------------------------------------------ the formula interpolates *)
Lemma lag_basis_other xs xj t : In t xs -> xj <> t -> lag_basis xs xj t = 0.
Proof.
  intros I Hn. unfold lag_basis. induction xs as [|xk xs IH]; [destruct I|]. simpl. destruct I as [E|I].
  - subst xk. apply Qc_eqb_false in Hn. rewrite Hn. unfold Qcdiv. ring.
  - rewrite IH by exact I. ring.
Qed.
Lemma lag_basis_self xs t : lag_basis xs t t = 1.
Proof.
  unfold lag_basis. induction xs as [|xk xs IH]; [reflexivity|]. simpl. rewrite IH.
  destruct (Qc_eqb t xk) eqn:E; [ring|]. apply Qc_eqb_false in E. field. intro H. apply E.
  replace t with (t - xk + xk) by ring. rewrite H. ring.
Qed.
Lemma lag_sum_zero xs xj l : In xj xs -> (forall pt, In pt l -> fst pt <> xj) ->
  fold_right (fun pt acc => snd pt * lag_basis xs (fst pt) xj + acc) 0 l = 0.
Proof.
  intros Ix H. induction l as [|pt l IH]; [reflexivity|]. simpl.
  rewrite (lag_basis_other xs (fst pt) xj Ix) by (apply H; left; reflexivity).
  rewrite IH by (intros pt' I'; apply H; right; exact I'). ring.
Qed.
Lemma lag_sum_hit xs xj yj l : In xj xs -> NoDup (map fst l) -> In (xj, yj) l ->
  fold_right (fun pt acc => snd pt * lag_basis xs (fst pt) xj + acc) 0 l = yj.
Proof.
  intros Ix. induction l as [|[x y] l IH]; intros ND I; [destruct I|]. simpl in ND. inversion ND as [|? ? Hn ND']; subst.
  cbn [fold_right fst snd]. destruct I as [E|I].
  - inversion E; subst. rewrite lag_basis_self. rewrite lag_sum_zero; [ring|exact Ix|].
    intros pt Ip E'. apply Hn. rewrite <- E'. apply in_map. exact Ip.
  - assert (x <> xj). { intro E. subst. apply Hn. change xj with (fst (xj, yj)). apply in_map. exact I. }
    rewrite (lag_basis_other xs x xj Ix) by assumption. rewrite IH by assumption. ring.
Qed.
Lemma lag_spec_interpolates pts xj yj : distinct_x pts -> In (xj, yj) pts -> lag_spec pts xj = yj.
Proof.
  intros D I. unfold lag_spec. apply lag_sum_hit; [|exact D|exact I].
  change xj with (fst (xj, yj)). apply in_map. exact I.
Qed.
Lemma lagrange_interpolates pts xj yj : distinct_x pts -> In (xj, yj) pts -> lagrange_func pts xj = yj.
Proof. intros D I. rewrite lagrange_func_spec. apply lag_spec_interpolates; assumption. Qed.

(* ------------------------------------------------------------------ lagrange.poly *)
Lemma np_ok_px : np_ok (Pol px).
Proof.
  split; [apply wf_px|]. apply nonneg_of_coefn; [apply wf_px|]. intros k Hk. rewrite coefn_dot by apply wf_px.
  rewrite dot_px. unfold delta. replace (1 =? k)%Z with false; [reflexivity|]. symmetry. apply Z.eqb_neq. lia.
Qed.
Lemma lagrange_poly_eval m pts v :
  wf (lagrange_poly pts) /\ nonneg (lagrange_poly pts) /\ peval m (lagrange_poly pts) v = lagrange_func pts v.
Proof.
  unfold lagrange_poly. destruct (lagrange_np_ok pts (Pol px) np_ok_px) as [O V]. specialize (V v).
  cbn [npval] in V. rewrite ev_px in V. rewrite lagrange_func_spec, <- V.
  destruct (lagrange_np pts (Pol px)) as [r|p]; cbn [npval np_ok] in *.
  - split; [apply wf_pconst|]. split; [apply nonneg_pconst|].
    rewrite peval_ev; [apply ev_pconst|apply wf_pconst|right; apply nonneg_pconst].
  - destruct O as [Wp Np]. rewrite pcopy_id by exact Wp. split; [exact Wp|]. split; [exact Np|].
    apply peval_ev; [apply Wp|right; exact Np].
Qed.
Lemma lagrange_poly_interpolates m pts xj yj : distinct_x pts -> In (xj, yj) pts ->
  peval m (lagrange_poly pts) xj = yj.
Proof.
  intros D I. destruct (lagrange_poly_eval m pts xj) as [_ [_ E]]. rewrite E. apply lagrange_interpolates; assumption.
Qed.
