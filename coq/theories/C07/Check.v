(* C07 - case record types and boolean checkers for the generated case files.
   corr_* : the implementation's observation equals the model's output.
   holds_*: the implementation's observation satisfies what the property text states
            (computed from the OBSERVED term lists with the Spec definitions only). *)
From Coq Require Import List Bool ZArith QArith Qcanon String.
From AL Require Import Base.CaseLib C07.Model C07.Spec.
Import ListNotations.
Open Scope Qc_scope.

Definition term_eqb (a b : Z * Qc) : bool := Z.eqb (fst a) (fst b) && Qc_eqb (snd a) (snd b).
Definition poly_eqb : poly -> poly -> bool := list_eqb term_eqb.
Definition res_eqb {A} (e : A -> A -> bool) (o m : res A) : bool :=
  match o, m with
  | Ok a, Ok b => e a b
  | Raise x, Raise y => String.eqb x y
  | _, _ => false
  end.
Definition is_ok {A} (r : res A) : bool := match r with Ok _ => true | Raise _ => false end.

(* ---------------------------------------------------------------- expr: one expression *)
(* e_terms = list(p.terms(sort=False)) in creation order (or the exception name),
   e_order = p.order, e_values = list(p.values()) *)
Record ecase := EC { e_expr : expr; e_terms : res poly; e_order : res Z; e_values : res (list Qc) }.
Definition corr_expr (c : ecase) : bool :=
  res_eqb poly_eqb (e_terms c) (run (e_expr c)) &&
  match run (e_expr c) with
  | Ok p => res_eqb Z.eqb (e_order c) (porder p) && res_eqb (list_eqb Qc_eqb) (e_values c) (pvalues p)
  | Raise _ => true
  end.
(* no zero coefficient is ever stored (and the stored powers are distinct); values() lists
   the coefficient function on 0..order *)
Definition holds_expr (c : ecase) : bool :=
  match e_terms c with
  | Ok l => wfb l &&
            match e_order c, e_values c with
            | Ok o, Ok vs => nonnegb l &&
                             match l with
                             | [] => list_eqb Qc_eqb vs []
                             | _ => list_eqb Qc_eqb vs (map (fun i => coefn l (Z.of_nat i)) (seq 0 (S (Z.to_nat o))))
                             end
            | Raise _, _ => negb (nonnegb l)
            | Ok _, Raise _ => false
            end
  | Raise _ => true
  end.

(* ---------------------------------------------------------------- pair: two expressions *)
(* p_must: the two sides are the two sides of a ring / calculus law, the text demands lhs == rhs.
   p_eq = (lhs == rhs), p_ne = (lhs != rhs), p_heq = (hash(lhs) == hash(rhs)) *)
Record pcase := PC { p_lhs : expr; p_rhs : expr; p_must : bool;
                     p_l : res poly; p_r : res poly; p_eq : bool; p_ne : bool; p_heq : bool }.
Definition corr_pair (c : pcase) : bool :=
  res_eqb poly_eqb (p_l c) (run (p_lhs c)) && res_eqb poly_eqb (p_r c) (run (p_rhs c)) &&
  match run (p_lhs c), run (p_rhs c) with
  | Ok p, Ok q => Bool.eqb (p_eq c) (peq p q) && Bool.eqb (p_ne c) (pne p q)
  | _, _ => true
  end.
Definition holds_pair (c : pcase) : bool :=
  match p_l c, p_r c with
  | Ok l, Ok r =>
      wfb l && wfb r &&
      Bool.eqb (p_eq c) (sameb l r) &&          (* == is equality of the coefficient functions *)
      Bool.eqb (p_ne c) (negb (p_eq c)) &&      (* != is its negation *)
      implb (p_eq c) (p_heq c) &&               (* equal polynomials hash alike *)
      implb (p_must c) (p_eq c)                 (* the law *)
  | _, _ => negb (p_must c)
  end.

(* ---------------------------------------------------------------- eval: evaluation, homomorphism, composition *)
Record vcase := VC {
  v_p : expr; v_q : expr; v_v : Qc;
  v_pt : res poly; v_qt : res poly;            (* terms of p, q *)
  v_pa : Qc; v_ph : Qc; v_pd : Qc;             (* p(v) with horner = "auto", True, False *)
  v_qa : Qc;                                   (* q(v) *)
  v_sa : Qc;                                   (* (p + q)(v) *)
  v_ma : Qc; v_mh : Qc; v_md : Qc;             (* (p * q)(v) auto, True, False *)
  v_ct : res poly;                             (* terms of p(q) *)
  v_ca : Qc;                                   (* p(q)(v) *)
  v_pqa : Qc                                   (* p(q(v)) *)
}.
Definition corr_eval (c : vcase) : bool :=
  res_eqb poly_eqb (v_pt c) (run (v_p c)) && res_eqb poly_eqb (v_qt c) (run (v_q c)) &&
  match run (v_p c), run (v_q c) with
  | Ok p, Ok q =>
      let v := v_v c in
      Qc_eqb (v_pa c) (peval HAuto p v) && Qc_eqb (v_ph c) (peval HTrue p v) && Qc_eqb (v_pd c) (peval HFalse p v) &&
      Qc_eqb (v_qa c) (peval HAuto q v) &&
      Qc_eqb (v_sa c) (peval HAuto (padd p q) v) &&
      Qc_eqb (v_ma c) (peval HAuto (pmul p q) v) && Qc_eqb (v_mh c) (peval HTrue (pmul p q) v) &&
      Qc_eqb (v_md c) (peval HFalse (pmul p q) v) &&
      res_eqb poly_eqb (v_ct c) (Ok (pcompose p q)) &&
      Qc_eqb (v_ca c) (peval HAuto (pcompose p q) v) &&
      Qc_eqb (v_pqa c) (peval HAuto p (peval HAuto q v))
  | _, _ => true
  end.
Definition single (p : poly) : bool := match p with [_] => true | _ => false end.
Definition holds_eval (c : vcase) : bool :=
  match v_pt c, v_qt c with
  | Ok p, Ok q =>
      let v := v_v c in
      let nz := negb (Qc_eqb v 0) in
      (* the three schemes agree, always *)
      Qc_eqb (v_pa c) (v_ph c) && Qc_eqb (v_pa c) (v_pd c) &&
      Qc_eqb (v_ma c) (v_mh c) && Qc_eqb (v_ma c) (v_md c) &&
      (* and are the sum of c * v^k where that is defined *)
      implb (nz || nonnegb p) (Qc_eqb (v_pa c) (ev p v)) &&
      implb (nz || nonnegb q) (Qc_eqb (v_qa c) (ev q v)) &&
      (* ring homomorphism *)
      implb (nz || (nonnegb p && nonnegb q))
            (Qc_eqb (v_sa c) (v_pa c + v_qa c) && Qc_eqb (v_ma c) (v_pa c * v_qa c)) &&
      (* composition *)
      implb ((nonnegb p && (nz || nonnegb q)) || (single q && nz))
            (Qc_eqb (v_ca c) (v_pqa c) && Qc_eqb (v_pqa c) (ev p (v_qa c)))
  | _, _ => true
  end.

(* ---------------------------------------------------------------- lagr: Lagrange interpolation *)
Record lcase := LC {
  l_pts : list (Qc * Qc); l_v : Qc;
  l_fv : res Qc;             (* lagrange.func(pts)(v) *)
  l_poly : res poly;         (* terms of lagrange.poly(pts) *)
  l_pv : res Qc;             (* lagrange.poly(pts)(v) *)
  l_fx : list Qc;            (* lagrange.func(pts)(x_j) for every j *)
  l_px : list Qc             (* lagrange.poly(pts)(x_j) for every j *)
}.
Definition corr_lagr (c : lcase) : bool :=
  let pts := l_pts c in
  res_eqb Qc_eqb (l_fv c) (lagrange_func_r pts (l_v c)) &&
  res_eqb poly_eqb (l_poly c) (lagrange_poly_r pts) &&
  match pts with
  | [] => true
  | _ => res_eqb Qc_eqb (l_pv c) (Ok (peval HAuto (lagrange_poly pts) (l_v c))) &&
         list_eqb Qc_eqb (l_fx c) (map (fun pt => lagrange_func pts (fst pt)) pts) &&
         list_eqb Qc_eqb (l_px c) (map (fun pt => peval HAuto (lagrange_poly pts) (fst pt)) pts)
  end.
Definition holds_lagr (c : lcase) : bool :=
  match l_pts c with
  | [] => true
  | pts =>
      implb (nodupq (map fst pts))
            (list_eqb Qc_eqb (l_fx c) (map snd pts) && list_eqb Qc_eqb (l_px c) (map snd pts) &&
             match l_poly c with Ok l => wfb l && nonnegb l | Raise _ => false end &&
             match l_fv c, l_pv c with Ok a, Ok b => Qc_eqb a b | _, _ => false end)
  end.

(* ---------------------------------------------------------------- lagh: histories of lagrange calls *)
(* 2-4 calls in one process sharing the abscissa VALUES (in different numeric types, orders,
   with different ordinates): every call must equal the per-call model / satisfy the text *)
Record lhcase := LH { lh_calls : list lcase }.
Definition corr_lagh (c : lhcase) : bool := forallb corr_lagr (lh_calls c).
Definition holds_lagh (c : lhcase) : bool := forallb holds_lagr (lh_calls c).

(* ---------------------------------------------------------------- hist: histories on live Poly objects *)
(* after every step: the exception flag / set size, the terms behind every variable, the full
   == and != matrices, and for every pair of already-hashed objects whether the hashes agree
   (o_heq is reported true for a pair that is not hashed on both sides) *)
Record hobs := HO { o_flag : res Z; o_terms : list poly;
                    o_eq : list (list bool); o_ne : list (list bool); o_heq : list (list bool);
                    o_vals : list Qc   (* HEval: the values under "auto", True, False; [] otherwise *) }.
Record hcase := HC { hc_ops : list hop; hc_obs : list hobs }.
Definition matrix (f : poly -> poly -> bool) (l : list poly) : list (list bool) :=
  map (fun p => map (fun q => f p q) l) l.
Definition bmat_eqb : list (list bool) -> list (list bool) -> bool := list_eqb (list_eqb Bool.eqb).
Fixpoint corr_steps (s : hstate) (ops : list hop) (obs : list hobs) : bool :=
  match ops, obs with
  | [], [] => true
  | op :: r, o :: ro =>
      let '(s', f) := hstep s op in
      res_eqb Z.eqb (o_flag o) f && list_eqb poly_eqb (o_terms o) (view s') &&
      bmat_eqb (o_eq o) (matrix peq (view s')) && bmat_eqb (o_ne o) (matrix pne (view s')) &&
      match op, f with
      | HEval i v, Ok _ =>
          match nth_error (view s') i with
          | Some p => list_eqb Qc_eqb (o_vals o) [peval HAuto p v; peval HTrue p v; peval HFalse p v]
          | None => false
          end
      | _, _ => true
      end &&
      corr_steps s' r ro
  | _, _ => false
  end.
Definition corr_hist (c : hcase) : bool := corr_steps hinit (hc_ops c) (hc_obs c).

Fixpoint distinct_count_s (l : list poly) : nat :=
  match l with
  | [] => O
  | p :: r => if existsb (fun q => sameb q p) r then distinct_count_s r else S (distinct_count_s r)
  end.
Fixpoint bmat_impl (a b : list (list bool)) : bool :=
  match a, b with
  | [], [] => true
  | ra :: a', rb :: b' =>
      (fix row (x y : list bool) : bool :=
         match x, y with
         | [], [] => true
         | u :: x', v :: y' => implb u v && row x' y'
         | _, _ => false
         end) ra rb && bmat_impl a' b'
  | _, _ => false
  end.
(* what the text demands of every observation: no zero stored behind any variable, == is equality
   of coefficient functions, != its negation, equal and hashed implies equal hashes, and a set
   holds one member per ring element *)
Definition holds_step (op : hop) (o : hobs) : bool :=
  let ts := o_terms o in
  forallb wfb ts &&
  bmat_eqb (o_eq o) (matrix sameb ts) &&
  bmat_eqb (o_ne o) (map (map negb) (o_eq o)) &&
  bmat_impl (o_eq o) (o_heq o) &&
  match op, o_flag o with
  | HHash l, Ok n =>
      Z.eqb n (Z.of_nat (distinct_count_s (flat_map (fun i => match nth_error ts i with Some p => [p] | None => [] end) l)))
  | HHash _, Raise _ => false
  | HEval i v, Ok _ =>
      (* the schemes agree, and give sum c * v^k of the terms the object holds NOW, where defined *)
      match nth_error ts i, o_vals o with
      | Some p, [a; h; d] =>
          Qc_eqb a h && Qc_eqb a d && implb (negb (Qc_eqb v 0) || nonnegb p) (Qc_eqb a (ev p v))
      | _, _ => false
      end
  | _, _ => true
  end.
Fixpoint holds_steps (ops : list hop) (obs : list hobs) : bool :=
  match ops, obs with
  | [], [] => true
  | op :: r, o :: ro => holds_step op o && holds_steps r ro
  | _, _ => false
  end.
Definition holds_hist (c : hcase) : bool := holds_steps (hc_ops c) (hc_obs c).
