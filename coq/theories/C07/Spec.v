(* C07 - what the property promises, stated on the mathematical object: a polynomial
   is its coefficient function k |-> coefn p k (= p[k]); a well-formed stored
   polynomial has distinct powers and no zero coefficient; evaluation is the sum
   of c * v^k.  Definitions only. *)
From Coq Require Import List Bool ZArith QArith Qcanon Qpower Permutation.
From AL Require Import Base.CaseLib C07.Model.
Import ListNotations.
Open Scope Qc_scope.

Definition keys (p : poly) : list Z := map fst p.
Definition NoDupKeys (p : poly) : Prop := NoDup (keys p).
Definition nz (p : poly) : Prop := Forall (fun e => snd e <> 0) p.
(* the representation invariant: what a Poly instance stores *)
Definition wf (p : poly) : Prop := NoDupKeys p /\ nz p.

(* the linear functional <p, F> = sum of c * F k over the stored terms *)
Definition dot (p : poly) (F : Z -> Qc) : Qc :=
  fold_right (fun e acc => snd e * F (fst e) + acc) 0 p.
(* two polynomials are the same ring element when they have the same coefficient function *)
Definition same (p q : poly) : Prop := forall k, coefn p k = coefn q k.

(* mathematical evaluation: sum of c * v^k (integer powers) *)
Definition ev (p : poly) (v : Qc) : Qc := dot p (qpow v).
(* all powers non-negative: a polynomial proper *)
Definition nonneg (p : poly) : Prop := Forall (fun e => (0 <= fst e)%Z) p.
(* where the value of a Laurent polynomial is defined *)
Definition defined_at (p : poly) (v : Qc) : Prop := v <> 0 \/ nonneg p.

(* n-fold product *)
Fixpoint pow_spec (p : poly) (n : nat) : poly :=
  match n with O => pconst 1 | S n' => pmul (pow_spec p n') p end.

(* derivative and antiderivative as coefficient functions *)
Definition dcoef (p : poly) (k : Z) : Qc := zq (k + 1) * coefn p (k + 1).

(* interpolation data with distinct abscissae *)
Definition distinct_x (pts : list (Qc * Qc)) : Prop := NoDup (map fst pts).

(* a hash of the polynomial is any function of the SET of its (power, coefficient) items *)
Definition perm_invariant (H : list (Z * Qc) -> Z) : Prop := forall l l', Permutation l l' -> H l = H l'.

(* the Lagrange interpolation formula: sum_j y_j prod_{x_k <> x_j} (t - x_k) / (x_j - x_k) *)
Definition lag_basis (xs : list Qc) (xj t : Qc) : Qc :=
  fold_right (fun xk acc => (if Qc_eqb xj xk then 1 else (t - xk) / (xj - xk)) * acc) 1 xs.
Definition lag_spec (pts : list (Qc * Qc)) (t : Qc) : Qc :=
  fold_right (fun pt acc => snd pt * lag_basis (map fst pts) (fst pt) t + acc) 0 pts.

(* ---- boolean versions used by the case checkers *)
Fixpoint nodupb (l : list Z) : bool :=
  match l with [] => true | x :: r => negb (existsb (Z.eqb x) r) && nodupb r end.
Definition wfb (p : poly) : bool :=
  nodupb (map fst p) && forallb (fun e => negb (Qc_eqb (snd e) 0)) p.
Definition sameb (a b : poly) : bool :=
  forallb (fun e => Qc_eqb (coefn a (fst e)) (coefn b (fst e))) (a ++ b).
Definition nonnegb (p : poly) : bool := forallb (fun e => (0 <=? fst e)%Z) p.
Fixpoint nodupq (l : list Qc) : bool :=
  match l with [] => true | x :: r => negb (existsb (Qc_eqb x) r) && nodupq r end.
