(* C07 - constructors and ring operators: representation invariant, coefficient functions,
   linear functionals, commutative ring laws, powers. *)
From Coq Require Import List Bool ZArith QArith Qcanon Qpower Lia Permutation.
From AL Require Import Base.CaseLib C07.Model C07.Spec C07.Lib.
Import ListNotations.
Open Scope Qc_scope.

Definition deq (p q : poly) : Prop := forall F, dot p F = dot q F.

Lemma deq_refl p : deq p p. Proof. intro F. reflexivity. Qed.
Lemma deq_sym p q : deq p q -> deq q p. Proof. intros H F. symmetry. apply H. Qed.
Lemma deq_trans p q r : deq p q -> deq q r -> deq p r.
Proof. intros H1 H2 F. rewrite H1. apply H2. Qed.
Lemma peq_of_deq p q : wf p -> wf q -> deq p q -> peq p q = true.
Proof. intros Wp Wq H. apply peq_of_same; try assumption. apply same_of_dot; [apply Wp|apply Wq|exact H]. Qed.
Lemma deq_of_peq p q : wf p -> wf q -> peq p q = true -> deq p q.
Proof. intros Wp Wq H F. apply dot_same; [apply Wp|apply Wq|]. apply same_of_peq; assumption. Qed.
Lemma deq_of_same p q : NoDupKeys p -> NoDupKeys q -> same p q -> deq p q.
Proof. intros Hp Hq S F. apply dot_same; assumption. Qed.
Lemma peq_nil_eq p : peq p [] = true -> p = [].
Proof. unfold peq. destruct p; [reflexivity|simpl; discriminate]. Qed.

(* ------------------------------------------------------------------ OrderedDict(pairs) *)
Lemma get_app a b k : get (a ++ b) k = match get a k with Some c => Some c | None => get b k end.
Proof. induction a as [|[m x] r IH]; simpl; [reflexivity|]. destruct (m =? k)%Z; [reflexivity|exact IH]. Qed.

Definition setf (d : poly) (e : Z * Qc) : poly := od_set d (fst e) (snd e).
Lemma get_fold_set l : forall d k,
  get (fold_left setf l d) k = match get (rev l) k with Some c => Some c | None => get d k end.
Proof.
  induction l as [|[m x] r IH]; intros d k; simpl; [reflexivity|].
  rewrite IH, get_app. destruct (get (rev r) k); [reflexivity|].
  unfold setf; simpl. rewrite get_od_set. destruct (m =? k)%Z; reflexivity.
Qed.
Lemma NoDupKeys_fold_set l : forall d, NoDupKeys d -> NoDupKeys (fold_left setf l d).
Proof. induction l as [|e r IH]; intros d H; simpl; [exact H|]. apply IH. apply NoDupKeys_od_set. exact H. Qed.
Lemma NoDupKeys_nil : NoDupKeys []. Proof. constructor. Qed.
Lemma NoDupKeys_od_of_pairs l : NoDupKeys (od_of_pairs l).
Proof. apply (NoDupKeys_fold_set l []). apply NoDupKeys_nil. Qed.
Lemma get_od_of_pairs l k : get (od_of_pairs l) k = get (rev l) k.
Proof. unfold od_of_pairs. change (fun d e => od_set d (fst e) (snd e)) with setf. rewrite get_fold_set.
  destruct (get (rev l) k); reflexivity. Qed.

Lemma keys_rev x : keys (rev x) = rev (keys x).
Proof. unfold keys. apply map_rev. Qed.
Lemma NoDupKeys_rev x : NoDupKeys x -> NoDupKeys (rev x).
Proof. unfold NoDupKeys. rewrite keys_rev. apply NoDup_rev. Qed.
Lemma get_rev x k : NoDupKeys x -> get (rev x) k = get x k.
Proof.
  intro ND. destruct (get x k) eqn:E.
  - apply get_in in E. apply in_get; [apply NoDupKeys_rev; exact ND|]. apply -> in_rev. exact E.
  - apply get_none in E. apply get_none. rewrite keys_rev. intro I. apply E. apply in_rev. exact I.
Qed.

(* ------------------------------------------------------------------ __init__ (compaction) *)
Definition zero_at (s : poly) (k : Z) : bool := existsb (fun e' => (fst e' =? k)%Z && Qc_eqb (snd e') 0) s.
Definition snapshot (s : poly) : raw := map (fun e => (fst e, false, snd e)) s.

Lemma get_compact_loop s : forall d k,
  get (compact_loop (snapshot s) d) k = if zero_at s k then None else get d k.
Proof.
  induction s as [|[m x] r IH]; intros d k; simpl; [reflexivity|].
  rewrite IH. destruct (zero_at r k) eqn:Z1; [rewrite orb_true_r; reflexivity|]. rewrite orb_false_r.
  destruct (Qc_eqb x 0); [|rewrite andb_false_r; reflexivity].
  rewrite andb_true_r, get_od_del. reflexivity.
Qed.
Lemma NoDupKeys_compact_loop s : forall d, NoDupKeys d -> NoDupKeys (compact_loop (snapshot s) d).
Proof.
  induction s as [|[m x] r IH]; intros d H; simpl; [exact H|].
  apply IH. destruct (Qc_eqb x 0); [apply NoDupKeys_od_del|]; exact H.
Qed.
Lemma zero_at_true d k : NoDupKeys d -> zero_at d k = true -> get d k = Some 0.
Proof.
  intros ND H. unfold zero_at in H. apply existsb_exists in H as [[m x] [I H]]. simpl in H.
  apply andb_true_iff in H as [H1 H2]. apply Z.eqb_eq in H1. apply Qc_eqb_spec in H2. subst.
  apply in_get; assumption.
Qed.
Lemma zero_at_false d k : zero_at d k = false -> get d k <> Some 0.
Proof.
  intros H E. apply get_in in E. assert (zero_at d k = true); [|congruence].
  apply existsb_exists. exists (k, 0). split; [exact E|]. simpl. rewrite Z.eqb_refl. reflexivity.
Qed.

Lemma NoDupKeys_compact d : NoDupKeys d -> NoDupKeys (compact d).
Proof. apply NoDupKeys_compact_loop. Qed.
Lemma get_compact d k : get (compact d) k = if zero_at d k then None else get d k.
Proof. apply get_compact_loop. Qed.
Lemma coefn_compact d k : NoDupKeys d -> coefn (compact d) k = coefn d k.
Proof.
  intro ND. unfold coefn. rewrite get_compact. destruct (zero_at d k) eqn:E; [|reflexivity].
  rewrite (zero_at_true d k ND E). reflexivity.
Qed.
Lemma nz_compact d : NoDupKeys d -> nz (compact d).
Proof.
  intro ND. unfold nz. apply Forall_forall. intros [k c] I. simpl. intro Hc. subst c.
  apply (in_get _ _ _ (NoDupKeys_compact d ND)) in I. rewrite get_compact in I.
  destruct (zero_at d k) eqn:E; [discriminate|]. apply (zero_at_false d k E). exact I.
Qed.
Lemma wf_compact d : NoDupKeys d -> wf (compact d).
Proof. intro ND. split; [apply NoDupKeys_compact|apply nz_compact]; exact ND. Qed.
Lemma dot_compact d F : NoDupKeys d -> dot (compact d) F = dot d F.
Proof.
  intro ND. apply dot_same; [apply NoDupKeys_compact; exact ND|exact ND|].
  intro k. apply coefn_compact. exact ND.
Qed.
(* a well-formed dict is a fixed point of the compaction *)
Lemma compact_loop_id s : forall d, nz s -> compact_loop (snapshot s) d = d.
Proof.
  induction s as [|[m x] r IH]; intros d H; simpl; [reflexivity|].
  inversion H as [|? ? Hx Hr]; subst. simpl in Hx. apply Qc_eqb_false in Hx. rewrite Hx. apply IH. exact Hr.
Qed.
Lemma compact_id d : nz d -> compact d = d.
Proof. apply compact_loop_id. Qed.

(* Poly(OrderedDict(pairs)) *)
Lemma wf_mk l : wf (mk l).
Proof. apply wf_compact. apply NoDupKeys_od_of_pairs. Qed.
Lemma coefn_mk l k : coefn (mk l) k = coefn (rev l) k.
Proof. unfold mk. rewrite coefn_compact by apply NoDupKeys_od_of_pairs. unfold coefn. rewrite get_od_of_pairs. reflexivity. Qed.
Lemma coefn_mk_nd l k : NoDupKeys l -> coefn (mk l) k = coefn l k.
Proof. intro ND. rewrite coefn_mk. unfold coefn. rewrite get_rev by exact ND. reflexivity. Qed.
Lemma dot_mk l F : NoDupKeys l -> dot (mk l) F = dot l F.
Proof.
  intro ND. apply dot_same; [apply wf_mk|exact ND|]. intro k. apply coefn_mk_nd. exact ND.
Qed.
Lemma od_of_pairs_app_id l : forall d, NoDupKeys (d ++ l) -> fold_left setf l d = d ++ l.
Proof.
  induction l as [|[m x] r IH]; intros d ND; simpl; [rewrite app_nil_r; reflexivity|].
  assert (E : setf d (m, x) = d ++ [(m, x)]).
  { unfold setf; simpl. assert (Hn : ~ In m (keys d)).
    { unfold NoDupKeys, keys in ND. rewrite map_app in ND. simpl in ND. apply NoDup_remove_2 in ND.
      intro I. apply ND. apply in_or_app. left. exact I. }
    clear -Hn. induction d as [|[m' x'] d IH]; simpl; [reflexivity|].
    destruct (m' =? m)%Z eqn:E.
    - apply Z.eqb_eq in E. subst. exfalso. apply Hn. left. reflexivity.
    - f_equal. apply IH. intro I. apply Hn. right. exact I. }
  rewrite E. rewrite IH; rewrite <- app_assoc; [reflexivity|exact ND].
Qed.
Lemma od_of_pairs_id l : NoDupKeys l -> od_of_pairs l = l.
Proof. intro ND. apply (od_of_pairs_app_id l []). exact ND. Qed.
Lemma mk_id p : wf p -> mk p = p.
Proof. intros [ND NZ]. unfold mk. rewrite od_of_pairs_id by exact ND. apply compact_id. exact NZ. Qed.
Lemma pcopy_id p : wf p -> pcopy p = p.
Proof. apply mk_id. Qed.

Lemma wf_nil : wf []. Proof. split; constructor. Qed.
Lemma pnone_nil : pnone = []. Proof. reflexivity. Qed.
Lemma wf_pconst c : wf (pconst c). Proof. apply wf_mk. Qed.
Lemma dot_pconst c F : dot (pconst c) F = c * F 0%Z.
Proof. unfold pconst. rewrite dot_mk; [simpl; ring|]. repeat constructor. intros []. Qed.
Lemma wf_px : wf px. Proof. apply wf_mk. Qed.
Lemma dot_px F : dot px F = F 1%Z.
Proof. unfold px. rewrite dot_mk; [simpl; ring|]. repeat constructor. intros []. Qed.

(* linear maps on the terms: (k, c) |-> (f k, h k * c) with f injective on the keys *)
Lemma dot_map_lin p (f : Z -> Z) (h : Z -> Qc) F :
  dot (map (fun e => (f (fst e), h (fst e) * snd e)) p) F = dot p (fun k => h k * F (f k)).
Proof. induction p as [|[m x] r IH]; simpl; [reflexivity|]. rewrite IH. ring. Qed.
Lemma NoDupKeys_map_shift p (s : Z) (g : Z * Qc -> Qc) :
  NoDupKeys p -> NoDupKeys (map (fun e => ((fst e + s)%Z, g e)) p).
Proof.
  unfold NoDupKeys, keys. rewrite map_map. simpl. induction p as [|[m x] r IH]; simpl; intro H; [constructor|].
  inversion H as [|? ? Hn H']; subst. constructor; [|apply IH; exact H'].
  intro I. apply in_map_iff in I as [[m' x'] [E I]]. simpl in E. apply Hn.
  assert (m' = m) by lia. subst. change m with (fst (m, x')). apply in_map. exact I.
Qed.
Lemma NoDupKeys_map_val p (g : Z * Qc -> Qc) :
  NoDupKeys p -> NoDupKeys (map (fun e => (fst e, g e)) p).
Proof.
  unfold NoDupKeys, keys. rewrite map_map. simpl. intro H. exact H.
Qed.

(* ------------------------------------------------------------------ unary minus *)
Lemma wf_pneg p : wf (pneg p). Proof. apply wf_mk. Qed.
Lemma dot_map_neg p F : dot (map (fun e => (fst e, - snd e)) p) F = - dot p F.
Proof. induction p as [|[m x] r IH]; simpl; [ring|]. rewrite IH. ring. Qed.
Lemma dot_pneg p F : NoDupKeys p -> dot (pneg p) F = - dot p F.
Proof.
  intro ND. unfold pneg. rewrite dot_mk by (apply (NoDupKeys_map_val p (fun e => - snd e)); exact ND).
  apply dot_map_neg.
Qed.
Lemma coefn_pneg p k : NoDupKeys p -> coefn (pneg p) k = - coefn p k.
Proof. intro ND. rewrite !coefn_dot; [apply dot_pneg; exact ND|exact ND|apply wf_pneg]. Qed.

(* ------------------------------------------------------------------ addition *)
Lemma get_inter p q k :
  get (inter p q) k = match get p k, get q k with Some a, Some b => Some (a + b) | _, _ => None end.
Proof.
  unfold inter. induction p as [|[m x] r IH]; simpl; [reflexivity|].
  rewrite get_app. destruct (m =? k)%Z eqn:E.
  - apply Z.eqb_eq in E; subst. destruct (get q k) eqn:Eq; simpl.
    + rewrite Z.eqb_refl. reflexivity.
    + rewrite IH. destruct (get r k); reflexivity.
  - destruct (get q m) eqn:Eq; simpl; rewrite ?E; exact IH.
Qed.
Lemma keys_inter_in p q k : In k (keys (inter p q)) -> In k (keys p).
Proof.
  unfold inter, keys. induction p as [|[m x] r IH]; simpl; [tauto|].
  rewrite map_app, in_app_iff. intros [H|H].
  - destruct (get q m); simpl in H; [|tauto]. destruct H as [H|[]]. left. exact H.
  - right. apply IH. exact H.
Qed.
Lemma NoDupKeys_inter p q : NoDupKeys p -> NoDupKeys (inter p q).
Proof.
  induction p as [|[m x] r IH]; intro H; [constructor|].
  apply NoDupKeys_cons in H as [Hn H]. unfold inter. simpl. fold (inter r q).
  destruct (get q m); simpl; [|apply IH; exact H].
  apply NoDupKeys_cons. split; [|apply IH; exact H]. intro I. apply Hn. apply (keys_inter_in r q). exact I.
Qed.
Lemma wf_padd p q : wf (padd p q). Proof. apply wf_mk. Qed.
Lemma coefn_padd p q k : NoDupKeys p -> NoDupKeys q -> coefn (padd p q) k = coefn p k + coefn q k.
Proof.
  intros Hp Hq. unfold padd. rewrite coefn_mk. rewrite !rev_app_distr. unfold coefn.
  rewrite !get_app. rewrite !get_rev by (try apply NoDupKeys_inter; assumption).
  rewrite get_inter. destruct (get p k), (get q k); ring.
Qed.
Lemma dot_padd p q F : NoDupKeys p -> NoDupKeys q -> dot (padd p q) F = dot p F + dot q F.
Proof.
  intros Hp Hq. apply dot_add_gen; [exact Hp|exact Hq|apply wf_padd|].
  intro k. apply coefn_padd; assumption.
Qed.
Lemma wf_psub p q : wf (psub p q). Proof. apply wf_padd. Qed.
Lemma dot_psub p q F : NoDupKeys p -> NoDupKeys q -> dot (psub p q) F = dot p F - dot q F.
Proof.
  intros Hp Hq. unfold psub. rewrite dot_padd; [|exact Hp|apply wf_pneg]. rewrite dot_pneg by exact Hq. ring.
Qed.
Lemma coefn_psub p q k : NoDupKeys p -> NoDupKeys q -> coefn (psub p q) k = coefn p k - coefn q k.
Proof.
  intros Hp Hq. unfold psub. rewrite coefn_padd; [|exact Hp|apply wf_pneg]. rewrite coefn_pneg by exact Hq. ring.
Qed.

(* ------------------------------------------------------------------ multiplication *)
Definition mul_inner (e1 : Z * Qc) (q d : poly) : poly :=
  fold_left (fun d e2 => od_add d (fst e1 + fst e2)%Z (snd e1 * snd e2)) q d.
Definition mul_outer (p q d : poly) : poly := fold_left (fun d e1 => mul_inner e1 q d) p d.
Lemma pmul_unfold p q : pmul p q = compact (mul_outer p q []).
Proof. reflexivity. Qed.

Lemma dot_mul_inner e1 q : forall d F,
  dot (mul_inner e1 q d) F = dot d F + snd e1 * dot q (fun j => F (fst e1 + j)%Z).
Proof.
  unfold mul_inner. induction q as [|[j b] r IH]; intros d F; simpl; [ring|].
  rewrite IH, dot_od_add. ring.
Qed.
Lemma NoDupKeys_mul_inner e1 q : forall d, NoDupKeys d -> NoDupKeys (mul_inner e1 q d).
Proof.
  unfold mul_inner. induction q as [|e2 r IH]; intros d H; simpl; [exact H|].
  apply IH. apply NoDupKeys_od_add. exact H.
Qed.
Lemma dot_mul_outer p q : forall d F,
  dot (mul_outer p q d) F = dot d F + dot p (fun i => dot q (fun j => F (i + j)%Z)).
Proof.
  unfold mul_outer. induction p as [|[i a] r IH]; intros d F; simpl; [ring|].
  rewrite IH, dot_mul_inner. simpl. ring.
Qed.
Lemma NoDupKeys_mul_outer p q : forall d, NoDupKeys d -> NoDupKeys (mul_outer p q d).
Proof.
  unfold mul_outer. induction p as [|e1 r IH]; intros d H; simpl; [exact H|].
  apply IH. apply NoDupKeys_mul_inner. exact H.
Qed.
Lemma wf_pmul p q : wf (pmul p q).
Proof. rewrite pmul_unfold. apply wf_compact. apply NoDupKeys_mul_outer. apply NoDupKeys_nil. Qed.
Lemma dot_pmul p q F : dot (pmul p q) F = dot p (fun i => dot q (fun j => F (i + j)%Z)).
Proof.
  rewrite pmul_unfold, dot_compact by (apply NoDupKeys_mul_outer; apply NoDupKeys_nil).
  rewrite dot_mul_outer. simpl. ring.
Qed.
(* coefficient function of a product: c_k = sum_i sum_j a_i b_j [i + j = k] *)
Lemma coefn_pmul p q k :
  coefn (pmul p q) k = dot p (fun i => dot q (fun j => delta k (i + j)%Z)).
Proof. rewrite coefn_dot by apply wf_pmul. apply dot_pmul. Qed.

(* ------------------------------------------------------------------ the commutative ring *)
Lemma padd_comm_deq p q : NoDupKeys p -> NoDupKeys q -> deq (padd p q) (padd q p).
Proof. intros Hp Hq F. rewrite !dot_padd by assumption. ring. Qed.
Lemma padd_assoc_deq p q r : NoDupKeys p -> NoDupKeys q -> NoDupKeys r ->
  deq (padd (padd p q) r) (padd p (padd q r)).
Proof. intros Hp Hq Hr F. rewrite !dot_padd; try assumption; try apply wf_padd. ring. Qed.
Lemma pmul_comm_deq p q : deq (pmul p q) (pmul q p).
Proof.
  intro F. rewrite !dot_pmul. rewrite dot_swap. apply dot_ext. intro j. apply dot_ext. intro i.
  f_equal. lia.
Qed.
Lemma pmul_assoc_deq p q r : deq (pmul (pmul p q) r) (pmul p (pmul q r)).
Proof.
  intro F. rewrite !dot_pmul. apply dot_ext. intro i. rewrite dot_pmul. apply dot_ext. intro j.
  apply dot_ext. intro l. f_equal. lia.
Qed.
Lemma pmul_padd_distr_l_deq p q r : NoDupKeys q -> NoDupKeys r ->
  deq (pmul p (padd q r)) (padd (pmul p q) (pmul p r)).
Proof.
  intros Hq Hr F. rewrite dot_padd by apply wf_pmul. rewrite !dot_pmul. rewrite <- dot_plus.
  apply dot_ext. intro i. apply dot_padd; assumption.
Qed.
Lemma pmul_padd_distr_r_deq p q r : NoDupKeys p -> NoDupKeys q ->
  deq (pmul (padd p q) r) (padd (pmul p r) (pmul q r)).
Proof.
  intros Hp Hq F. rewrite dot_padd by apply wf_pmul. rewrite !dot_pmul. apply dot_padd; assumption.
Qed.
Lemma psub_self_deq p : NoDupKeys p -> deq (psub p p) [].
Proof. intros Hp F. rewrite dot_psub by assumption. simpl. ring. Qed.
Lemma pmul_one_deq p : deq (pmul (pconst 1) p) p.
Proof.
  intro F. rewrite dot_pmul, dot_pconst. rewrite Qcmult_1_l. apply dot_ext. intro j. f_equal.
Qed.
Lemma padd_zero_deq p : NoDupKeys p -> deq (padd (pconst 0) p) p.
Proof. intros Hp F. rewrite dot_padd; [|apply wf_pconst|exact Hp]. rewrite dot_pconst. ring. Qed.
Lemma pmul_deq_compat p p' q q' : deq p p' -> deq q q' -> deq (pmul p q) (pmul p' q').
Proof.
  intros H1 H2 F. rewrite !dot_pmul. rewrite H1. apply dot_ext. intro i. apply H2.
Qed.
Lemma padd_deq_compat p p' q q' : NoDupKeys p -> NoDupKeys p' -> NoDupKeys q -> NoDupKeys q' ->
  deq p p' -> deq q q' -> deq (padd p q) (padd p' q').
Proof. intros A B C D H1 H2 F. rewrite !dot_padd by assumption. rewrite H1, H2. reflexivity. Qed.

(* stated with the model of Poly.__eq__ *)
Lemma padd_comm p q : wf p -> wf q -> peq (padd p q) (padd q p) = true.
Proof. intros Hp Hq. apply peq_of_deq; try apply wf_padd. apply padd_comm_deq; [apply Hp|apply Hq]. Qed.
Lemma padd_assoc p q r : wf p -> wf q -> wf r -> peq (padd (padd p q) r) (padd p (padd q r)) = true.
Proof. intros Hp Hq Hr. apply peq_of_deq; try apply wf_padd. apply padd_assoc_deq; [apply Hp|apply Hq|apply Hr]. Qed.
Lemma pmul_comm p q : peq (pmul p q) (pmul q p) = true.
Proof. apply peq_of_deq; try apply wf_pmul. apply pmul_comm_deq. Qed.
Lemma pmul_assoc p q r : peq (pmul (pmul p q) r) (pmul p (pmul q r)) = true.
Proof. apply peq_of_deq; try apply wf_pmul. apply pmul_assoc_deq. Qed.
Lemma pmul_padd_distr_l p q r : wf q -> wf r -> peq (pmul p (padd q r)) (padd (pmul p q) (pmul p r)) = true.
Proof. intros Hq Hr. apply peq_of_deq; [apply wf_pmul|apply wf_padd|]. apply pmul_padd_distr_l_deq; [apply Hq|apply Hr]. Qed.
Lemma pmul_padd_distr_r p q r : wf p -> wf q -> peq (pmul (padd p q) r) (padd (pmul p r) (pmul q r)) = true.
Proof. intros Hp Hq. apply peq_of_deq; [apply wf_pmul|apply wf_padd|]. apply pmul_padd_distr_r_deq; [apply Hp|apply Hq]. Qed.
Lemma padd_zero p : wf p -> peq (padd (pconst 0) p) p = true.
Proof. intro Wp. apply peq_of_deq; [apply wf_padd|exact Wp|apply padd_zero_deq; apply Wp]. Qed.
Lemma pmul_one p : wf p -> peq (pmul (pconst 1) p) p = true.
Proof. intro Wp. apply peq_of_deq; [apply wf_pmul|exact Wp|apply pmul_one_deq]. Qed.
Lemma psub_padd_pneg p q : psub p q = padd p (pneg q).
Proof. reflexivity. Qed.
Lemma psub_self p : wf p -> psub p p = [].
Proof.
  intro Hp. apply peq_nil_eq. apply peq_of_deq; [apply wf_psub|apply wf_nil|]. apply psub_self_deq. apply Hp.
Qed.

(* ------------------------------------------------------------------ powers *)
Lemma repeat_snoc {A} (a : A) n : repeat a n ++ [a] = a :: repeat a n.
Proof. induction n as [|n IH]; simpl; [reflexivity|]. rewrite IH. reflexivity. Qed.

Lemma fold_pmul_repeat p m : forall a j, deq a (pow_spec p j) ->
  deq (fold_left pmul (repeat p m) a) (pow_spec p (j + m)).
Proof.
  induction m as [|m IH]; intros a j H; simpl.
  - rewrite Nat.add_0_r. exact H.
  - replace (j + S m)%nat with (S j + m)%nat by lia. apply IH. simpl.
    apply pmul_deq_compat; [exact H|apply deq_refl].
Qed.

Lemma wf_pow_spec p n : wf (pow_spec p n).
Proof. destruct n; simpl; [apply wf_pconst|apply wf_pmul]. Qed.

Lemma dot_pow_spec_mono k v n F : v <> 0 ->
  dot (pow_spec [(k, v)] n) F = qpow v (Z.of_nat n) * F (k * Z.of_nat n)%Z.
Proof.
  intro Hv. revert F. induction n as [|n IH]; intro F.
  - simpl pow_spec. rewrite dot_pconst. simpl. rewrite qpow_0_r. f_equal. f_equal. lia.
  - simpl pow_spec. rewrite dot_pmul, IH. simpl dot.
    replace (Z.of_nat (S n)) with (Z.of_nat n + 1)%Z by lia.
    rewrite qpow_succ by lia. replace (k * Z.of_nat n + k)%Z with (k * (Z.of_nat n + 1))%Z by lia. ring.
Qed.

Lemma wf_single k v : v <> 0 -> wf [(k, v)].
Proof. intro H. split; [repeat constructor; intros []|repeat constructor; exact H]. Qed.

Lemma wf_ppow p n : wf p -> wf (ppow p n).
Proof.
  intro Wp. unfold ppow. destruct (n =? 0)%Z; [apply wf_pconst|].
  destruct p as [|[k v] [|e r]]; [apply wf_nil|apply wf_mk|].
  rewrite pcopy_id by exact Wp. rewrite repeat_snoc.
  destruct (Z.to_nat (n - 1)) as [|m]; simpl; [exact Wp|].
  set (l := repeat _ m). clearbody l. set (a := pmul _ _). assert (Wa : wf a) by apply wf_pmul. clearbody a.
  revert a Wa. induction l as [|x l IH]; intros a Wa; simpl; [exact Wa|]. apply IH. apply wf_pmul.
Qed.

(* p ** n is the n-fold product, n >= 0 *)
Lemma ppow_nfold_deq p n : wf p -> deq (ppow p (Z.of_nat n)) (pow_spec p n).
Proof.
  intro Wp. unfold ppow. destruct n as [|n].
  - simpl. apply deq_refl.
  - replace (Z.of_nat (S n) =? 0)%Z with false by (symmetry; apply Z.eqb_neq; lia).
    destruct p as [|[k v] [|e r]].
    + (* the empty polynomial *) intro F. simpl pow_spec. rewrite dot_pmul. simpl.
      rewrite dot_zero. reflexivity.
    + (* one term *)
      assert (Hv : v <> 0). { destruct Wp as [_ NZ]. inversion NZ; subst. assumption. }
      intro F. rewrite dot_pow_spec_mono by exact Hv.
      rewrite dot_mk by (repeat constructor; intros []). rewrite dot_cons, dot_nil.
      destruct (Qc_eqb v 1) eqn:E.
      * apply Qc_eqb_spec in E. subst v. rewrite qpow_1_l. ring.
      * ring.
    + (* several terms: reduce(operator.mul, [copy]*(n-1) + [self]) *)
      rewrite pcopy_id by exact Wp. rewrite repeat_snoc.
      replace (Z.to_nat (Z.of_nat (S n) - 1)) with n by lia.
      set (P := (k, v) :: e :: r) in *.
      replace (S n) with (1 + n)%nat by lia. apply fold_pmul_repeat.
      simpl. apply deq_sym. apply pmul_one_deq.
Qed.
Lemma ppow_nfold p n : wf p -> peq (ppow p (Z.of_nat n)) (pow_spec p n) = true.
Proof.
  intro Wp. apply peq_of_deq; [apply wf_ppow; exact Wp|apply wf_pow_spec|]. apply ppow_nfold_deq. exact Wp.
Qed.
