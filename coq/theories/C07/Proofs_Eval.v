(* C07 - evaluation: the three schemes of Poly.__call__ compute sum c * v^k; evaluation is a
   ring homomorphism; p(q) is composition. *)
From Coq Require Import List Bool ZArith QArith Qcanon Qpower Lia Permutation.
From AL Require Import Base.CaseLib C07.Model C07.Spec C07.Lib C07.Proofs_Ring.
Import ListNotations.
Open Scope Qc_scope.

(* ------------------------------------------------------------------ sorting *)
Lemma insert_by_perm le e l : Permutation (insert_by le e l) (e :: l).
Proof.
  induction l as [|h t IH]; simpl; [apply Permutation_refl|].
  destruct (le (fst e) (fst h)); [apply Permutation_refl|].
  eapply Permutation_trans; [apply perm_skip; exact IH|apply perm_swap].
Qed.
Lemma sort_by_perm le l : Permutation (sort_by le l) l.
Proof.
  unfold sort_by. induction l as [|h t IH]; simpl; [constructor|].
  eapply Permutation_trans; [apply insert_by_perm|apply perm_skip; exact IH].
Qed.

(* ------------------------------------------------------------------ direct sum *)
Lemma fold_left_dot (F : Z -> Qc) l : forall a,
  fold_left (fun acc e => acc + snd e * F (fst e)) l a = a + dot l F.
Proof. induction l as [|[m x] r IH]; intro a; simpl; [ring|]. rewrite IH. simpl. ring. Qed.
Lemma peval_direct_ev p v : peval_direct p v = ev p v.
Proof.
  unfold peval_direct, ev. rewrite (fold_left_dot (qpow v)). rewrite Qcplus_0_l.
  apply dot_perm. apply sort_by_perm.
Qed.

(* ------------------------------------------------------------------ Horner-like scheme with merged steps *)
Lemma horner_scale v a b : (if (a =? b + 1)%Z then v else qpow v (a - b)) = qpow v (a - b).
Proof.
  destruct (a =? b + 1)%Z eqn:E; [|reflexivity]. apply Z.eqb_eq in E.
  replace (a - b)%Z with 1%Z by lia. symmetry. apply qpow_1_r.
Qed.
Lemma horner_fold v t : v <> 0 -> forall st,
  snd (fold_left (horner_step v) t st) * qpow v (fst (fold_left (horner_step v) t st))
  = snd st * qpow v (fst st) + dot t (qpow v).
Proof.
  intro Hv. induction t as [|[np nc] r IH]; intros [op ores]; simpl; [ring|].
  rewrite IH. simpl. rewrite horner_scale.
  rewrite <- (qpow_sub v op np Hv). ring.
Qed.
Lemma peval_horner_ev p v : v <> 0 -> peval_horner p v = ev p v.
Proof.
  intro Hv. unfold peval_horner, ev. rewrite <- (dot_perm _ _ (qpow v) (sort_by_perm Z.geb p)).
  fold sort_desc. destruct (sort_desc p) as [|[hp hc] t]; [reflexivity|].
  pose proof (horner_fold v t Hv (hp, hc)) as H.
  destruct (fold_left (horner_step v) t (hp, hc)) as [lp res]. simpl in H. rewrite H. simpl. ring.
Qed.
Lemma horner_eq_direct p v : v <> 0 -> peval_horner p v = peval_direct p v.
Proof. intro Hv. rewrite peval_horner_ev by exact Hv. symmetry. apply peval_direct_ev. Qed.

(* ------------------------------------------------------------------ __call__ on a number *)
Lemma nonneg_keys p k : nonneg p -> In k (keys p) -> (0 <= k)%Z.
Proof.
  unfold nonneg, keys. rewrite Forall_forall. intros H I. apply in_map_iff in I as [e [E I]].
  subst. apply H. exact I.
Qed.
Lemma ev_zero p : NoDupKeys p -> nonneg p -> ev p 0 = coefn p 0.
Proof.
  intros ND NN. rewrite coefn_dot by exact ND. unfold ev. apply dot_ext_in. intros k I.
  unfold delta. destruct (k =? 0)%Z eqn:E.
  - apply Z.eqb_eq in E. subst. apply qpow_0_r.
  - apply Z.eqb_neq in E. apply qpow_0_l. exact E.
Qed.
Lemma peval_zero m p : peval m p 0 = coefn p 0.
Proof. unfold peval. destruct p; [reflexivity|]. reflexivity. Qed.
Lemma peval_nz m p v : v <> 0 -> peval m p v = ev p v.
Proof.
  intro Hv. unfold peval. destruct p as [|e r]; [reflexivity|].
  apply Qc_eqb_false in Hv. rewrite Hv.
  destruct (match m with HTrue => true | HFalse => false | HAuto => is_polynomial (e :: r) end).
  - apply peval_horner_ev. apply Qc_eqb_false. exact Hv.
  - apply peval_direct_ev.
Qed.
(* the value computed is sum c * v^k wherever that is defined *)
Lemma peval_ev m p v : NoDupKeys p -> defined_at p v -> peval m p v = ev p v.
Proof.
  intros ND D. destruct (Qc_eq_dec v 0) as [E|E].
  - subst. rewrite peval_zero. destruct D as [D|D]; [contradiction D; reflexivity|].
    symmetry. apply ev_zero; assumption.
  - apply peval_nz. exact E.
Qed.
(* ... and never depends on the evaluation scheme *)
Lemma peval_scheme_indep m m' p v : peval m p v = peval m' p v.
Proof.
  destruct (Qc_eq_dec v 0) as [E|E].
  - subst. rewrite !peval_zero. reflexivity.
  - rewrite !peval_nz by exact E. reflexivity.
Qed.

(* ------------------------------------------------------------------ ring homomorphism *)
Lemma ev_padd p q v : NoDupKeys p -> NoDupKeys q -> ev (padd p q) v = ev p v + ev q v.
Proof. intros Hp Hq. unfold ev. apply dot_padd; assumption. Qed.
Lemma ev_pneg p v : NoDupKeys p -> ev (pneg p) v = - ev p v.
Proof. intros Hp. unfold ev. apply dot_pneg; assumption. Qed.
Lemma ev_psub p q v : NoDupKeys p -> NoDupKeys q -> ev (psub p q) v = ev p v - ev q v.
Proof. intros Hp Hq. unfold ev. apply dot_psub; assumption. Qed.
Lemma ev_pconst c v : ev (pconst c) v = c.
Proof. unfold ev. rewrite dot_pconst, qpow_0_r. ring. Qed.
Lemma ev_px v : ev px v = v.
Proof. unfold ev. rewrite dot_px. apply qpow_1_r. Qed.
Lemma ev_pmul p q v : v <> 0 \/ (nonneg p /\ nonneg q) -> ev (pmul p q) v = ev p v * ev q v.
Proof.
  intro D. unfold ev. rewrite dot_pmul.
  rewrite (dot_ext_in p _ (fun i => dot q (qpow v) * qpow v i)).
  - rewrite dot_scale. ring.
  - intros i Ii. rewrite (dot_ext_in q _ (fun j => qpow v i * qpow v j)).
    + rewrite dot_scale. ring.
    + intros j Ij. destruct D as [D|[Np Nq]].
      * apply qpow_add. exact D.
      * apply qpow_add_nonneg; [apply (nonneg_keys p)|apply (nonneg_keys q)]; assumption.
Qed.

Lemma nonneg_of_coefn r : wf r -> (forall k, (k < 0)%Z -> coefn r k = 0) -> nonneg r.
Proof.
  intros [ND NZ] H. unfold nonneg. apply Forall_forall. intros [k c] I. simpl.
  destruct (Z_lt_le_dec k 0) as [L|L]; [|exact L]. exfalso.
  unfold nz in NZ. rewrite Forall_forall in NZ. apply (NZ _ I). simpl.
  rewrite <- (wf_in_coefn r k c ND I). apply H. exact L.
Qed.
Lemma nonneg_pmul p q : nonneg p -> nonneg q -> nonneg (pmul p q).
Proof.
  intros Np Nq. apply nonneg_of_coefn; [apply wf_pmul|]. intros k Hk. rewrite coefn_pmul.
  rewrite (dot_ext_in p _ (fun _ => 0)); [apply dot_zero|]. intros i Ii.
  rewrite (dot_ext_in q _ (fun _ => 0)); [apply dot_zero|]. intros j Ij.
  unfold delta. pose proof (nonneg_keys p i Np Ii). pose proof (nonneg_keys q j Nq Ij).
  replace (i + j =? k)%Z with false; [reflexivity|]. symmetry. apply Z.eqb_neq. lia.
Qed.
Lemma nonneg_padd p q : wf p -> wf q -> nonneg p -> nonneg q -> nonneg (padd p q).
Proof.
  intros Wp Wq Np Nq. apply nonneg_of_coefn; [apply wf_padd|]. intros k Hk.
  rewrite coefn_padd; [|apply Wp|apply Wq].
  rewrite !coefn_notin; [ring| |]; intro I; [pose proof (nonneg_keys q k Nq I)|pose proof (nonneg_keys p k Np I)]; lia.
Qed.
Lemma nonneg_pconst c : nonneg (pconst c).
Proof.
  apply nonneg_of_coefn; [apply wf_pconst|]. intros k Hk. rewrite coefn_dot by apply wf_pconst.
  rewrite dot_pconst. unfold delta. replace (0 =? k)%Z with false; [ring|]. symmetry. apply Z.eqb_neq. lia.
Qed.

Lemma peval_hom_add m p q v : wf p -> wf q -> peval m (padd p q) v = peval m p v + peval m q v.
Proof.
  intros Wp Wq. destruct (Qc_eq_dec v 0) as [E|E].
  - subst. rewrite !peval_zero. apply coefn_padd; [apply Wp|apply Wq].
  - rewrite !peval_nz by exact E. apply ev_padd; [apply Wp|apply Wq].
Qed.
Lemma peval_hom_mul m p q v : wf p -> wf q -> v <> 0 \/ (nonneg p /\ nonneg q) ->
  peval m (pmul p q) v = peval m p v * peval m q v.
Proof.
  intros Wp Wq D. rewrite !peval_ev.
  - apply ev_pmul. exact D.
  - apply Wq.
  - destruct D as [D|[_ D]]; [left|right]; exact D.
  - apply Wp.
  - destruct D as [D|[D _]]; [left|right]; exact D.
  - apply wf_pmul.
  - destruct D as [D|[Np Nq]]; [left; exact D|right; apply nonneg_pmul; assumption].
Qed.

(* ------------------------------------------------------------------ powers and composition *)
Lemma nonneg_pow_spec q n : nonneg q -> nonneg (pow_spec q n).
Proof. intro Nq. induction n as [|n IH]; simpl; [apply nonneg_pconst|apply nonneg_pmul; assumption]. Qed.
Lemma ev_pow_spec q v n : v <> 0 \/ nonneg q -> ev (pow_spec q n) v = qpow (ev q v) (Z.of_nat n).
Proof.
  intro D. induction n as [|n IH].
  - cbn [pow_spec]. change (Z.of_nat 0) with 0%Z. rewrite ev_pconst, qpow_0_r. reflexivity.
  - cbn [pow_spec]. rewrite ev_pmul.
    + rewrite IH. replace (Z.of_nat (S n)) with (Z.of_nat n + 1)%Z by lia. rewrite qpow_succ by lia. reflexivity.
    + destruct D as [D|D]; [left; exact D|right; split; [apply nonneg_pow_spec|]; exact D].
Qed.
Lemma ev_ppow_nonneg q v k : wf q -> (0 <= k)%Z -> v <> 0 \/ nonneg q -> ev (ppow q k) v = qpow (ev q v) k.
Proof.
  intros Wq Hk D. rewrite <- (Z2Nat.id k Hk). unfold ev at 1. rewrite (ppow_nfold_deq q (Z.to_nat k) Wq).
  apply ev_pow_spec. exact D.
Qed.
Lemma ev_ppow_mono j b v k : b <> 0 -> v <> 0 -> ev (ppow [(j, b)] k) v = qpow (ev [(j, b)] v) k.
Proof.
  intros Hb Hv. unfold ppow. destruct (k =? 0)%Z eqn:E.
  - apply Z.eqb_eq in E. subst. rewrite ev_pconst, qpow_0_r. reflexivity.
  - unfold ev. rewrite dot_mk by (repeat constructor; intros []). rewrite !dot_cons, !dot_nil.
    rewrite !Qcplus_0_r. rewrite qpow_mul_base, qpow_pow.
    destruct (Qc_eqb b 1) eqn:E1; [|reflexivity].
    apply Qc_eqb_spec in E1. subst. rewrite qpow_1_l. reflexivity.
Qed.

Definition comp_step (q : poly) (acc : poly) (e : Z * Qc) : poly :=
  padd acc (pmul (pconst (snd e)) (ppow q (fst e))).
Lemma comp_fold q p : forall acc F, NoDupKeys acc ->
  NoDupKeys (fold_left (comp_step q) p acc) /\
  dot (fold_left (comp_step q) p acc) F
  = dot acc F + fold_right (fun e s => snd e * dot (ppow q (fst e)) F + s) 0 p.
Proof.
  induction p as [|[k c] r IH]; intros acc F Ha; simpl; [split; [exact Ha|ring]|].
  destruct (IH (comp_step q acc (k, c)) F) as [H1 H2]; [apply wf_padd|].
  split; [exact H1|]. rewrite H2. unfold comp_step at 1. cbn [fst snd].
  rewrite dot_padd; [|exact Ha|apply wf_pmul]. rewrite dot_pmul, dot_pconst.
  replace (dot (ppow q k) (fun j => F (0 + j)%Z)) with (dot (ppow q k) F) by (apply dot_ext; intro; reflexivity). ring.
Qed.
Lemma dot_pcompose p q F :
  dot (pcompose p q) F = fold_right (fun e s => snd e * dot (ppow q (fst e)) F + s) 0 p.
Proof.
  unfold pcompose. change (fun acc e => padd acc (pmul (pconst (snd e)) (ppow q (fst e)))) with (comp_step q).
  destruct (comp_fold q p (pconst 0) F) as [H1 H2]; [apply wf_pconst|].
  unfold pcopy. rewrite dot_mk by exact H1. rewrite H2, dot_pconst. ring.
Qed.
Lemma wf_pcompose p q : wf (pcompose p q).
Proof. apply wf_mk. Qed.

Lemma ev_pcompose_gen p q v :
  (forall k, In k (keys p) -> ev (ppow q k) v = qpow (ev q v) k) ->
  ev (pcompose p q) v = ev p (ev q v).
Proof.
  intro H. unfold ev at 1. rewrite dot_pcompose. unfold ev at 2.
  induction p as [|[k c] r IH]; simpl; [reflexivity|].
  rewrite IH by (intros k' I; apply H; right; exact I).
  change (dot (ppow q k) (qpow v)) with (ev (ppow q k) v). rewrite H by (left; reflexivity). reflexivity.
Qed.
(* p(q)(v) = p(q(v)): p a polynomial proper, or q a monomial *)
Lemma compose_eval p q v : wf q ->
  (nonneg p /\ (v <> 0 \/ nonneg q)) \/ ((exists j b, q = [(j, b)]) /\ v <> 0) ->
  ev (pcompose p q) v = ev p (ev q v).
Proof.
  intros Wq [[Np D]|[[j [b E]] Hv]]; apply ev_pcompose_gen; intros k I.
  - apply ev_ppow_nonneg; [exact Wq|apply (nonneg_keys p); assumption|exact D].
  - subst q. apply ev_ppow_mono; [|exact Hv]. destruct Wq as [_ NZ]. inversion NZ; subst. assumption.
Qed.
Lemma ev_mono_nz j b v : b <> 0 -> v <> 0 -> ev [(j, b)] v <> 0.
Proof.
  intros Hb Hv. unfold ev. rewrite dot_cons, dot_nil, Qcplus_0_r. apply Qcmult_nz; [exact Hb|apply qpow_nz; exact Hv].
Qed.
(* the same on what Poly.__call__ returns, any scheme at each of the three calls *)
Lemma compose_peval m1 m2 m3 p q v : wf p -> wf q -> v <> 0 ->
  nonneg p \/ (exists j b, q = [(j, b)]) ->
  peval m1 (pcompose p q) v = peval m2 p (peval m3 q v).
Proof.
  intros Wp Wq Hv C. rewrite (peval_nz m1) by exact Hv. rewrite (peval_nz m3) by exact Hv.
  destruct C as [Np|[j [b E]]].
  - rewrite (peval_ev m2); [|apply Wp|right; exact Np]. apply compose_eval; [exact Wq|]. left. split; [exact Np|left; exact Hv].
  - rewrite (peval_nz m2).
    + apply compose_eval; [exact Wq|]. right. split; [exists j, b; exact E|exact Hv].
    + subst q. apply ev_mono_nz; [|exact Hv]. destruct Wq as [_ NZ]. inversion NZ; subst. assumption.
Qed.

(* p(q) of polynomials proper is a polynomial proper; hence the v = 0 case as well *)
Lemma nonneg_coefn_neg r k : nonneg r -> (k < 0)%Z -> coefn r k = 0.
Proof. intros N Hk. apply coefn_notin. intro I. pose proof (nonneg_keys r k N I). lia. Qed.
Lemma nonneg_pcompose p q : wf q -> nonneg p -> nonneg q -> nonneg (pcompose p q).
Proof.
  intros Wq Np Nq. apply nonneg_of_coefn; [apply wf_pcompose|]. intros k Hk.
  rewrite coefn_dot by apply wf_pcompose. rewrite dot_pcompose.
  induction p as [|[k' c] r IH]; [reflexivity|]. cbn [fold_right fst snd].
  inversion Np as [|? ? Hk' Nr]; subst. simpl in Hk'. rewrite (IH Nr).
  rewrite <- (Z2Nat.id k' Hk'). rewrite (ppow_nfold_deq q (Z.to_nat k') Wq).
  rewrite <- coefn_dot by apply wf_pow_spec.
  rewrite (nonneg_coefn_neg _ k (nonneg_pow_spec q _ Nq) Hk). ring.
Qed.
Lemma compose_peval_full m1 m2 m3 p q v : wf p -> wf q ->
  (nonneg p /\ (v <> 0 \/ nonneg q)) \/ ((exists j b, q = [(j, b)]) /\ v <> 0) ->
  peval m1 (pcompose p q) v = peval m2 p (peval m3 q v).
Proof.
  intros Wp Wq C. destruct (Qc_eq_dec v 0) as [E|E].
  - subst v. destruct C as [[Np [D|Nq]]|[_ D]]; try (contradiction D; reflexivity).
    rewrite (peval_ev m1); [|apply wf_pcompose|right; apply nonneg_pcompose; assumption].
    rewrite (peval_ev m3); [|apply Wq|right; exact Nq].
    rewrite (peval_ev m2); [|apply Wp|right; exact Np].
    apply compose_eval; [exact Wq|]. left. split; [exact Np|right; exact Nq].
  - apply compose_peval; try assumption. destruct C as [[Np _]|[M _]]; [left; exact Np|right; exact M].
Qed.
