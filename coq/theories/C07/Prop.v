(* C07 - Poly is an exact commutative ring with evaluation, composition and calculus.
   Every statement is over Model.v / Spec.v only and is closed by [exact] on a lemma of the
   Proofs_*.v files.  Coefficients are exact rationals (Qc), powers are integers (Z): Laurent
   polynomials throughout.  [wf p] is the representation invariant (distinct powers, no zero
   coefficient); by C07_no_zero_stored every value any history of operations can produce is wf,
   so the hypotheses [wf p] below are met by every Poly instance. *)
From Coq Require Import List Bool ZArith QArith Qcanon Qpower Permutation String.
From AL Require Import Base.CaseLib C07.Model C07.Spec C07.Lib C07.Proofs_Ring C07.Proofs_Eval
  C07.Proofs_Calc C07.Proofs_Run C07.Proofs_Lagr C07.Proofs_Hist C07.Check.
Import ListNotations.
Open Scope Qc_scope.

(* ---------------------------------------------------------------- representation invariant *)
(* No zero coefficient is ever stored, and the stored powers are distinct: invariant of every
   expression built from the constructors (dict, pair list with repeated keys, integer-valued
   float keys, list, number, None, x) and every operator (+ - * ** / unary, scalar and reflected
   forms, diff, integrate, p(q), item assignment, copy), for any nesting depth. *)
Theorem C07_no_zero_stored : forall e p, run e = Ok p -> wf p.
Proof. exact run_wf. Qed.
Print Assumptions C07_no_zero_stored.

(* Poly.__eq__ (dict comparison) is equality of the coefficient functions *)
Theorem C07_peq_iff_coef : forall p q, wf p -> wf q -> (peq p q = true <-> forall k, coefn p k = coefn q k).
Proof. exact peq_iff_same. Qed.
Print Assumptions C07_peq_iff_coef.

(* ---------------------------------------------------------------- coefficient functions of + - * *)
Theorem C07_coef_add : forall p q k, NoDupKeys p -> NoDupKeys q -> coefn (padd p q) k = coefn p k + coefn q k.
Proof. exact coefn_padd. Qed.
Print Assumptions C07_coef_add.
Theorem C07_coef_neg : forall p k, NoDupKeys p -> coefn (pneg p) k = - coefn p k.
Proof. exact coefn_pneg. Qed.
Print Assumptions C07_coef_neg.
Theorem C07_coef_sub : forall p q k, NoDupKeys p -> NoDupKeys q -> coefn (psub p q) k = coefn p k - coefn q k.
Proof. exact coefn_psub. Qed.
Print Assumptions C07_coef_sub.
(* c_k = sum_i sum_j a_i b_j [i + j = k] (Cauchy product over Z) *)
Theorem C07_coef_mul : forall p q k,
  coefn (pmul p q) k = dot p (fun i => dot q (fun j => if (i + j =? k)%Z then 1 else 0)).
Proof. exact coefn_pmul. Qed.
Print Assumptions C07_coef_mul.

(* ---------------------------------------------------------------- commutative ring, through the model of == *)
Theorem C07_add_comm : forall p q, wf p -> wf q -> peq (padd p q) (padd q p) = true.
Proof. exact padd_comm. Qed.
Print Assumptions C07_add_comm.
Theorem C07_add_assoc : forall p q r, wf p -> wf q -> wf r -> peq (padd (padd p q) r) (padd p (padd q r)) = true.
Proof. exact padd_assoc. Qed.
Print Assumptions C07_add_assoc.
Theorem C07_mul_comm : forall p q, peq (pmul p q) (pmul q p) = true.
Proof. exact pmul_comm. Qed.
Print Assumptions C07_mul_comm.
Theorem C07_mul_assoc : forall p q r, peq (pmul (pmul p q) r) (pmul p (pmul q r)) = true.
Proof. exact pmul_assoc. Qed.
Print Assumptions C07_mul_assoc.
Theorem C07_distrib_l : forall p q r, wf q -> wf r -> peq (pmul p (padd q r)) (padd (pmul p q) (pmul p r)) = true.
Proof. exact pmul_padd_distr_l. Qed.
Print Assumptions C07_distrib_l.
Theorem C07_distrib_r : forall p q r, wf p -> wf q -> peq (pmul (padd p q) r) (padd (pmul p r) (pmul q r)) = true.
Proof. exact pmul_padd_distr_r. Qed.
Print Assumptions C07_distrib_r.
(* identities: 0 + p == p, 1 * p == p; p - q is p + (-q) *)
Theorem C07_add_zero : forall p, wf p -> peq (padd (pconst 0) p) p = true.
Proof. exact padd_zero. Qed.
Print Assumptions C07_add_zero.
Theorem C07_mul_one : forall p, wf p -> peq (pmul (pconst 1) p) p = true.
Proof. exact pmul_one. Qed.
Print Assumptions C07_mul_one.
(* p - p is the empty polynomial (literally: nothing stored) *)
Theorem C07_sub_self : forall p, wf p -> psub p p = [].
Proof. exact psub_self. Qed.
Print Assumptions C07_sub_self.
(* == is an equivalence on Poly instances *)
Theorem C07_eq_refl : forall p, wf p -> peq p p = true.
Proof. exact peq_refl. Qed.
Print Assumptions C07_eq_refl.
Theorem C07_eq_sym : forall p q, wf p -> wf q -> peq p q = peq q p.
Proof. exact peq_sym. Qed.
Print Assumptions C07_eq_sym.
Theorem C07_eq_trans : forall p q r, wf p -> wf q -> wf r -> peq p q = true -> peq q r = true -> peq p r = true.
Proof. exact peq_trans. Qed.
Print Assumptions C07_eq_trans.

(* p ** n is the n-fold product (pow_spec p n = ((1 * p) * p) ... * p), every n >= 0 *)
Theorem C07_pow_nfold : forall p n, wf p -> peq (ppow p (Z.of_nat n)) (pow_spec p n) = true.
Proof. exact ppow_nfold. Qed.
Print Assumptions C07_pow_nfold.

(* ---------------------------------------------------------------- evaluation *)
(* what Poly.__call__ returns is sum c * v^k wherever that is defined (v <> 0, or no negative power) *)
Theorem C07_eval_is_sum : forall m p v, NoDupKeys p -> defined_at p v -> peval m p v = ev p v.
Proof. exact peval_ev. Qed.
Print Assumptions C07_eval_is_sum.
(* independent of the evaluation scheme (horner = True / False / "auto"), everywhere *)
Theorem C07_eval_scheme_independent : forall m m' p v, peval m p v = peval m' p v.
Proof. exact peval_scheme_indep. Qed.
Print Assumptions C07_eval_scheme_independent.
(* the merged-step Horner scheme equals the direct sum, Laurent polynomials included *)
Theorem C07_horner_eq_direct : forall p v, v <> 0 -> peval_horner p v = peval_direct p v.
Proof. exact horner_eq_direct. Qed.
Print Assumptions C07_horner_eq_direct.
Theorem C07_eval_hom_add : forall m p q v, wf p -> wf q -> peval m (padd p q) v = peval m p v + peval m q v.
Proof. exact peval_hom_add. Qed.
Print Assumptions C07_eval_hom_add.
Theorem C07_eval_hom_mul : forall m p q v, wf p -> wf q -> v <> 0 \/ (nonneg p /\ nonneg q) ->
  peval m (pmul p q) v = peval m p v * peval m q v.
Proof. exact peval_hom_mul. Qed.
Print Assumptions C07_eval_hom_mul.

(* ---------------------------------------------------------------- composition *)
(* p(q)(v) = p(q(v)) for p without negative powers (any Laurent q at v <> 0, polynomial q
   anywhere), and for any Laurent p when q is a monomial *)
Theorem C07_compose_eval : forall p q v, wf q ->
  (nonneg p /\ (v <> 0 \/ nonneg q)) \/ ((exists j b, q = [(j, b)]) /\ v <> 0) ->
  ev (pcompose p q) v = ev p (ev q v).
Proof. exact compose_eval. Qed.
Print Assumptions C07_compose_eval.
(* the same on the values returned by __call__, whatever scheme each of the three calls uses *)
Theorem C07_compose_call : forall m1 m2 m3 p q v, wf p -> wf q ->
  (nonneg p /\ (v <> 0 \/ nonneg q)) \/ ((exists j b, q = [(j, b)]) /\ v <> 0) ->
  peval m1 (pcompose p q) v = peval m2 p (peval m3 q v).
Proof. exact compose_peval_full. Qed.
Print Assumptions C07_compose_call.

(* ---------------------------------------------------------------- calculus *)
Theorem C07_diff_coef : forall p k, NoDupKeys p -> coefn (pdiff p 1) k = zq (k + 1) * coefn p (k + 1).
Proof. exact coefn_pdiff1. Qed.
Print Assumptions C07_diff_coef.
Theorem C07_diff_linear_add : forall n p q, wf p -> wf q ->
  peq (pdiff (padd p q) n) (padd (pdiff p n) (pdiff q n)) = true.
Proof. exact pdiff_padd. Qed.
Print Assumptions C07_diff_linear_add.
Theorem C07_diff_linear_scale : forall c p, wf p -> peq (pdiff (pmul (pconst c) p) 1) (pmul (pconst c) (pdiff p 1)) = true.
Proof. exact pdiff1_scale. Qed.
Print Assumptions C07_diff_linear_scale.
Theorem C07_diff_product : forall p q, wf p -> wf q ->
  peq (pdiff (pmul p q) 1) (padd (pmul (pdiff p 1) q) (pmul p (pdiff q 1))) = true.
Proof. exact pdiff1_pmul. Qed.
Print Assumptions C07_diff_product.
Theorem C07_diff_nth : forall p n, wf p -> peq (pdiff p (S n)) (pdiff (pdiff p n) 1) = true.
Proof. exact pdiff_succ. Qed.
Print Assumptions C07_diff_nth.
(* integrate raises exactly when an x^-1 term is stored; otherwise diff undoes it *)
Theorem C07_integrate_raises_iff : forall p, pint p = Raise "ValueError"%string <-> In (-1)%Z (keys p).
Proof. exact pint_raise_iff. Qed.
Print Assumptions C07_integrate_raises_iff.
Theorem C07_diff_integrate : forall p P, wf p -> pint p = Ok P -> peq (pdiff P 1) p = true.
Proof. exact diff_integrate. Qed.
Print Assumptions C07_diff_integrate.

(* ---------------------------------------------------------------- Lagrange interpolation *)
(* lagrange.func computes the interpolation formula, and passes through its points when the
   abscissae are distinct *)
Theorem C07_lagrange_func_formula : forall pts v, lagrange_func pts v = lag_spec pts v.
Proof. exact lagrange_func_spec. Qed.
Print Assumptions C07_lagrange_func_formula.
Theorem C07_lagrange_interpolates : forall pts xj yj, distinct_x pts -> In (xj, yj) pts -> lagrange_func pts xj = yj.
Proof. exact lagrange_interpolates. Qed.
Print Assumptions C07_lagrange_interpolates.
(* lagrange.poly is a polynomial proper whose value (any scheme) is lagrange.func's *)
Theorem C07_lagrange_poly_eval : forall m pts v,
  wf (lagrange_poly pts) /\ nonneg (lagrange_poly pts) /\ peval m (lagrange_poly pts) v = lagrange_func pts v.
Proof. exact lagrange_poly_eval. Qed.
Print Assumptions C07_lagrange_poly_eval.
Theorem C07_lagrange_poly_interpolates : forall m pts xj yj, distinct_x pts -> In (xj, yj) pts ->
  peval m (lagrange_poly pts) xj = yj.
Proof. exact lagrange_poly_interpolates. Qed.
Print Assumptions C07_lagrange_poly_interpolates.

(* ---------------------------------------------------------------- ==, != and hash *)
Theorem C07_eq_not_ne : forall p q, pne p q = negb (peq p q).
Proof. exact eq_not_ne. Qed.
Print Assumptions C07_eq_not_ne.
(* hash(p) = hash((frozenset(items), zero)): any function of the set of items agrees on equal polynomials *)
Theorem C07_eq_hash : forall (H : list (Z * Qc) -> Z) p q, perm_invariant H -> wf p -> wf q ->
  peq p q = true -> H (hash_items p) = H (hash_items q).
Proof. exact eq_hash. Qed.
Print Assumptions C07_eq_hash.

(* ---------------------------------------------------------------- non-vacuity *)
Definition ex_p : poly := [(2%Z, qc 1 2); ((-1)%Z, qc 3 1)].          (* x^2/2 + 3/x *)
Definition ex_q : poly := [(1%Z, qc 2 1); (0%Z, qc (-1) 1)].          (* 2x - 1 *)
Example C07_ex_wf : wfb ex_p && wfb ex_q = true.
Proof. vm_compute. reflexivity. Qed.
Print Assumptions C07_ex_wf.
Example C07_ex_run :
  res_eqb poly_eqb (run (ESub (EMul (EPairs ex_p) (EPairs ex_q)) (EPow (EPairs ex_q) 2)))
          (Ok [(3%Z, qc 1 1); (2%Z, qc (-9) 2); (0%Z, qc 5 1); ((-1)%Z, qc (-3) 1); (1%Z, qc 4 1)]) = true.
Proof. vm_compute. reflexivity. Qed.
Print Assumptions C07_ex_run.
Example C07_ex_eval :
  Qc_eqb (peval HTrue (pmul ex_p ex_q) (qc 2 1)) (qc 21 2) &&
  Qc_eqb (peval HFalse ex_p (qc 2 1) * peval HAuto ex_q (qc 2 1)) (qc 21 2) &&
  negb (Qc_eqb (qc 2 1) 0) = true.
Proof. vm_compute. reflexivity. Qed.
Print Assumptions C07_ex_eval.
(* composition with a Laurent inner polynomial at v <> 0, p without negative powers *)
Example C07_ex_compose :
  Qc_eqb (ev (pcompose ex_q ex_p) (qc 2 1)) (qc 6 1) && Qc_eqb (ev ex_q (ev ex_p (qc 2 1))) (qc 6 1) && nonnegb ex_q = true.
Proof. vm_compute. reflexivity. Qed.
Print Assumptions C07_ex_compose.
Example C07_ex_integrate :
  res_eqb poly_eqb (pint ex_q) (Ok [(2%Z, qc 1 1); (1%Z, qc (-1) 1)]) &&
  res_eqb poly_eqb (pint ex_p) (Raise "ValueError"%string) = true.
Proof. vm_compute. reflexivity. Qed.
Print Assumptions C07_ex_integrate.
(* three points with distinct abscissae: the interpolating parabola *)
Example C07_ex_lagrange :
  nodupq (map fst [(qc 0 1, qc 1 1); (qc 1 1, qc 3 1); (qc 3 1, qc (-2) 1)]) &&
  poly_eqb (lagrange_poly [(qc 0 1, qc 1 1); (qc 1 1, qc 3 1); (qc 3 1, qc (-2) 1)])
           [(2%Z, qc (-3) 2); (1%Z, qc 7 2); (0%Z, qc 1 1)] = true.
Proof. vm_compute. reflexivity. Qed.
Print Assumptions C07_ex_lagrange.
(* equal polynomials stored in different orders: == holds, the item sets are permutations *)
Example C07_ex_eq : peq ex_p (rev ex_p) && negb (pne ex_p (rev ex_p)) && negb (peq ex_p ex_q) = true.
Proof. vm_compute. reflexivity. Qed.
Print Assumptions C07_ex_eq.

(* ---------------------------------------------------------------- histories on live objects *)
(* Poly instances are mutable until hashed.  In every state reachable by any history of constructions,
   operators (each allocating a fresh object; p ** 1 of a several-term p is p itself), item assignments
   (TypeError once hashed), hash() and set / dict insertions, every object on the heap satisfies the
   representation invariant: no zero coefficient is ever stored. *)
Theorem C07_history_no_zero_stored : forall ops,
  Forall (fun x => Forall (fun o : poly * bool => wf (fst o)) (objs (fst x))) (hrun hinit ops).
Proof. exact history_no_zero_stored. Qed.
Print Assumptions C07_history_no_zero_stored.
(* calls are independent: an operation leaves every object it does not assign to exactly as it was
   (constructors and operators only allocate; v_i[k] = c changes the object behind v_i only) *)
Theorem C07_calls_independent : forall s op o, (o < List.length (objs s))%nat ->
  (forall i k c, op = HSet i k c -> forall x, obj_of s i = Some x -> fst x <> o) ->
  (forall l, op <> HHash l) ->
  nth_error (objs (fst (hstep s op))) o = nth_error (objs s) o.
Proof. exact calls_independent. Qed.
Print Assumptions C07_calls_independent.
(* hashing changes no terms either: only the frozen flag *)
Example C07_ex_history :
  let ops := [HNew (EPairs ex_q); HUn (UDiff 0) 0; HHash [1%nat]; HSet 0 1%Z (qc 5 1); HSet 1 0%Z (qc 1 1); HUn (UPow 1) 0; HHash [0%nat; 1%nat; 2%nat]] in
  list_eqb (res_eqb Z.eqb) (map snd (hrun hinit ops))
           [Ok 0%Z; Ok 0%Z; Ok 1%Z; Ok 0%Z; Raise "TypeError"%string; Ok 0%Z; Ok 2%Z] = true.
Proof. vm_compute. reflexivity. Qed.
Print Assumptions C07_ex_history.
