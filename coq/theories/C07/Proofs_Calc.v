(* C07 - calculus: diff is linear, satisfies the product rule, undoes integrate. *)
From Coq Require Import List Bool ZArith QArith Qcanon Qpower Lia Permutation String.
From AL Require Import Base.CaseLib C07.Model C07.Spec C07.Lib C07.Proofs_Ring.
Import ListNotations.
Open Scope Qc_scope.

Lemma NoDupKeys_map_inj p (f : Z -> Z) (g : Z * Qc -> Qc) :
  (forall a b, f a = f b -> a = b) -> NoDupKeys p -> NoDupKeys (map (fun e => (f (fst e), g e)) p).
Proof.
  intro Hf. unfold NoDupKeys, keys. rewrite map_map. simpl.
  induction p as [|[m x] r IH]; simpl; intro H; [constructor|].
  inversion H as [|? ? Hn H']; subst. constructor; [|apply IH; exact H'].
  intro I. apply in_map_iff in I as [[m' x'] [E I]]. simpl in E. apply Hf in E. subst. apply Hn.
  change m with (fst (m, x')). apply in_map. exact I.
Qed.

(* ------------------------------------------------------------------ one differentiation step *)
Definition dmap (d : poly) : poly :=
  map (fun e => ((fst e - 1)%Z, zq (fst e) * snd e)) (filter (fun e => negb (fst e =? 0)%Z) d).
Lemma dstep_unfold d : dstep d = od_of_pairs (dmap d).
Proof. reflexivity. Qed.
Lemma NoDupKeys_dmap d : NoDupKeys d -> NoDupKeys (dmap d).
Proof.
  intro H. unfold dmap. apply (NoDupKeys_map_inj _ (fun k => (k - 1)%Z) (fun e => zq (fst e) * snd e)).
  - intros a b E. lia.
  - apply NoDupKeys_filter. exact H.
Qed.
Lemma dot_dmap d F : dot (dmap d) F = dot d (fun k => zq k * F (k - 1)%Z).
Proof.
  unfold dmap. induction d as [|[m x] r IH]; simpl; [reflexivity|].
  destruct (m =? 0)%Z eqn:E; simpl.
  - apply Z.eqb_eq in E. subst. rewrite IH, zq_0. ring.
  - rewrite IH. ring.
Qed.
Lemma NoDupKeys_dstep d : NoDupKeys (dstep d).
Proof. rewrite dstep_unfold. apply NoDupKeys_od_of_pairs. Qed.
Lemma dot_dstep d F : NoDupKeys d -> dot (dstep d) F = dot d (fun k => zq k * F (k - 1)%Z).
Proof.
  intro H. rewrite dstep_unfold, od_of_pairs_id by (apply NoDupKeys_dmap; exact H). apply dot_dmap.
Qed.
Lemma NoDupKeys_iter_dstep n p : NoDupKeys p -> NoDupKeys (Nat.iter n dstep p).
Proof. intro H. destruct n; simpl; [exact H|apply NoDupKeys_dstep]. Qed.

Lemma wf_pdiff p n : NoDupKeys p -> wf (pdiff p n).
Proof. intro H. apply wf_compact. apply NoDupKeys_iter_dstep. exact H. Qed.
Lemma dot_pdiff1 p F : NoDupKeys p -> dot (pdiff p 1) F = dot p (fun k => zq k * F (k - 1)%Z).
Proof.
  intro H. unfold pdiff. simpl. rewrite dot_compact by apply NoDupKeys_dstep. apply dot_dstep. exact H.
Qed.
Lemma dot_pdiff0 p F : NoDupKeys p -> dot (pdiff p 0) F = dot p F.
Proof. intro H. unfold pdiff. simpl. apply dot_compact. exact H. Qed.
(* the (n+1)-th derivative is the derivative of the n-th *)
Lemma pdiff_succ_deq p n : NoDupKeys p -> deq (pdiff p (S n)) (pdiff (pdiff p n) 1).
Proof.
  intros H F. rewrite dot_pdiff1 by (apply wf_pdiff; exact H).
  unfold pdiff. simpl. rewrite dot_compact by apply NoDupKeys_dstep.
  rewrite dot_dstep by (apply NoDupKeys_iter_dstep; exact H).
  rewrite dot_compact by (apply NoDupKeys_iter_dstep; exact H). reflexivity.
Qed.
Lemma pdiff1_deq_compat p q : NoDupKeys p -> NoDupKeys q -> deq p q -> deq (pdiff p 1) (pdiff q 1).
Proof. intros Hp Hq H F. rewrite !dot_pdiff1 by assumption. apply H. Qed.

(* coefficient function of the derivative: d_k = (k+1) c_{k+1} *)
Lemma coefn_pdiff1 p k : NoDupKeys p -> coefn (pdiff p 1) k = dcoef p k.
Proof.
  intro H. unfold dcoef. rewrite coefn_dot by (apply wf_pdiff; exact H). rewrite dot_pdiff1 by exact H.
  rewrite (coefn_dot p) by exact H. rewrite <- dot_scale. apply dot_ext. intro j. unfold delta.
  destruct (j =? k + 1)%Z eqn:E.
  - apply Z.eqb_eq in E. subst. replace (k + 1 - 1 =? k)%Z with true by (symmetry; apply Z.eqb_eq; lia). reflexivity.
  - apply Z.eqb_neq in E. replace (j - 1 =? k)%Z with false by (symmetry; apply Z.eqb_neq; lia). ring.
Qed.

(* ------------------------------------------------------------------ linearity *)
Lemma pdiff1_padd_deq p q : NoDupKeys p -> NoDupKeys q ->
  deq (pdiff (padd p q) 1) (padd (pdiff p 1) (pdiff q 1)).
Proof.
  intros Hp Hq F. rewrite dot_pdiff1 by apply wf_padd.
  rewrite !dot_padd; try assumption; try (apply wf_pdiff; assumption).
  rewrite !dot_pdiff1 by assumption. reflexivity.
Qed.
Lemma pdiff1_scale_deq c p : NoDupKeys p -> deq (pdiff (pmul (pconst c) p) 1) (pmul (pconst c) (pdiff p 1)).
Proof.
  intros Hp F. rewrite dot_pdiff1 by apply wf_pmul. rewrite !dot_pmul, !dot_pconst. f_equal.
  rewrite dot_pdiff1 by exact Hp. apply dot_ext. intro j. reflexivity.
Qed.
Lemma pdiff_padd_deq n : forall p q, NoDupKeys p -> NoDupKeys q ->
  deq (pdiff (padd p q) n) (padd (pdiff p n) (pdiff q n)).
Proof.
  induction n as [|n IH]; intros p q Hp Hq.
  - intro F. rewrite dot_pdiff0 by apply wf_padd.
    rewrite !dot_padd; try assumption; try (apply wf_pdiff; assumption). rewrite !dot_pdiff0 by assumption. reflexivity.
  - eapply deq_trans; [apply pdiff_succ_deq; apply wf_padd|].
    eapply deq_trans; [apply pdiff1_deq_compat; [apply wf_pdiff; apply wf_padd| |apply IH; assumption]|].
    { apply wf_padd. }
    eapply deq_trans; [apply pdiff1_padd_deq; apply wf_pdiff; assumption|].
    apply padd_deq_compat; try (apply wf_pdiff; try apply wf_pdiff; assumption);
      apply deq_sym; apply pdiff_succ_deq; assumption.
Qed.

(* ------------------------------------------------------------------ product rule *)
Lemma pdiff1_pmul_deq p q : NoDupKeys p -> NoDupKeys q ->
  deq (pdiff (pmul p q) 1) (padd (pmul (pdiff p 1) q) (pmul p (pdiff q 1))).
Proof.
  intros Hp Hq F. rewrite dot_pdiff1 by apply wf_pmul. rewrite dot_padd by apply wf_pmul.
  rewrite !dot_pmul. rewrite dot_pdiff1 by exact Hp.
  rewrite <- dot_plus. apply dot_ext. intro i.
  rewrite dot_pdiff1 by exact Hq. rewrite <- dot_scale, <- dot_plus. apply dot_ext. intro j.
  rewrite zq_add. replace (i - 1 + j)%Z with (i + j - 1)%Z by lia. replace (i + (j - 1))%Z with (i + j - 1)%Z by lia.
  ring.
Qed.

(* ------------------------------------------------------------------ integrate *)
Definition imap (p : poly) : poly := map (fun e => ((fst e + 1)%Z, snd e / zq (fst e + 1))) p.
Lemma pint_ok p : ~ In (-1)%Z (keys p) -> pint p = Ok (mk (imap p)).
Proof.
  intro H. unfold pint. destruct (mem p (-1)) eqn:E; [|reflexivity]. apply mem_keys in E. contradiction.
Qed.
Lemma pint_raise p : In (-1)%Z (keys p) -> pint p = Raise "ValueError"%string.
Proof. intro H. unfold pint. apply mem_keys in H. rewrite H. reflexivity. Qed.
Lemma pint_inv p P : pint p = Ok P -> ~ In (-1)%Z (keys p) /\ P = mk (imap p).
Proof.
  unfold pint. destruct (mem p (-1)) eqn:E; [discriminate|]. intro H. inversion H. split; [|reflexivity].
  intro I. apply mem_keys in I. congruence.
Qed.
Lemma NoDupKeys_imap p : NoDupKeys p -> NoDupKeys (imap p).
Proof.
  intro H. unfold imap. apply (NoDupKeys_map_inj p (fun k => (k + 1)%Z) (fun e => snd e / zq (fst e + 1))); [|exact H].
  intros a b E. lia.
Qed.
Lemma dot_imap p F : dot (imap p) F = dot p (fun k => F (k + 1)%Z / zq (k + 1)).
Proof.
  unfold imap. induction p as [|[m x] r IH]; simpl; [reflexivity|]. rewrite IH. unfold Qcdiv. ring.
Qed.
Lemma diff_integrate_deq p P : NoDupKeys p -> pint p = Ok P -> deq (pdiff P 1) p.
Proof.
  intros Hp HP. apply pint_inv in HP as [Hn ->]. intro F.
  rewrite dot_pdiff1 by apply wf_mk. rewrite dot_mk by (apply NoDupKeys_imap; exact Hp).
  rewrite dot_imap. apply dot_ext_in. intros k I.
  replace (k + 1 - 1)%Z with k by lia. field. apply zq_nz. intro E. apply Hn.
  replace (-1)%Z with k by lia. exact I.
Qed.
Lemma diff_integrate p P : wf p -> pint p = Ok P -> peq (pdiff P 1) p = true.
Proof.
  intros Wp HP. apply peq_of_deq; [|exact Wp|apply diff_integrate_deq; [apply Wp|exact HP]].
  apply wf_pdiff. apply pint_inv in HP as [_ ->]. apply wf_mk.
Qed.

(* ------------------------------------------------------------------ stated with the model of == *)
Lemma pdiff_padd n p q : wf p -> wf q -> peq (pdiff (padd p q) n) (padd (pdiff p n) (pdiff q n)) = true.
Proof.
  intros Wp Wq. apply peq_of_deq; [apply wf_pdiff; apply wf_padd|apply wf_padd|].
  apply pdiff_padd_deq; [apply Wp|apply Wq].
Qed.
Lemma pdiff1_scale c p : wf p -> peq (pdiff (pmul (pconst c) p) 1) (pmul (pconst c) (pdiff p 1)) = true.
Proof.
  intros Wp. apply peq_of_deq; [apply wf_pdiff; apply wf_pmul|apply wf_pmul|]. apply pdiff1_scale_deq. apply Wp.
Qed.
Lemma pdiff1_pmul p q : wf p -> wf q ->
  peq (pdiff (pmul p q) 1) (padd (pmul (pdiff p 1) q) (pmul p (pdiff q 1))) = true.
Proof.
  intros Wp Wq. apply peq_of_deq; [apply wf_pdiff; apply wf_pmul|apply wf_padd|].
  apply pdiff1_pmul_deq; [apply Wp|apply Wq].
Qed.
Lemma pdiff_succ p n : wf p -> peq (pdiff p (S n)) (pdiff (pdiff p n) 1) = true.
Proof.
  intros Wp. apply peq_of_deq; [apply wf_pdiff; apply Wp|apply wf_pdiff; apply wf_pdiff; apply Wp|].
  apply pdiff_succ_deq. apply Wp.
Qed.
Lemma pint_raise_iff p : pint p = Raise "ValueError"%string <-> In (-1)%Z (keys p).
Proof.
  split; [|apply pint_raise]. intro H. destruct (in_dec Z.eq_dec (-1)%Z (keys p)) as [I|I]; [exact I|].
  rewrite (pint_ok p I) in H. discriminate.
Qed.
