(* C20 - maverage and accumulate are linear in (zero, samples): this is what lets one
   run on symbolic samples (LinForm) stand for every sample value of that shape. *)
From Coq Require Import String List Bool Arith ZArith QArith Qcanon Lia.
From AL Require Import Base.CaseLib C20.Model C20.Spec C20.Lib C20.ProofsMav.
Import ListNotations.
Open Scope Qc_scope.

Lemma lcomb_length a b : forall xs ys, length xs = length ys -> length (lcomb a b xs ys) = length xs.
Proof.
  induction xs as [|x xs IH]; intros [|y ys] H; simpl in *; try reflexivity; try discriminate.
  rewrite IH by lia. reflexivity.
Qed.

Lemma nth_lcomb a b d1 d2 : forall xs ys i, length xs = length ys ->
  nth i (lcomb a b xs ys) (a * d1 + b * d2) = a * nth i xs d1 + b * nth i ys d2.
Proof.
  induction xs as [|x xs IH]; intros [|y ys] i H; simpl in H; try discriminate.
  - destruct i; reflexivity.
  - destruct i as [|i]; [reflexivity|]. cbn [lcomb nth]. apply IH. lia.
Qed.

Lemma lcomb_map {A} a b (f g : A -> Qc) : forall l,
  lcomb a b (map f l) (map g l) = map (fun n => a * f n + b * g n) l.
Proof. induction l as [|n l IH]; [reflexivity|]. cbn [map lcomb]. rewrite IH. reflexivity. Qed.

Lemma sum_upto_lin a b f g k :
  sum_upto (fun j => a * f j + b * g j) k = a * sum_upto f k + b * sum_upto g k.
Proof. induction k as [|k IH]; cbn [sum_upto]; [ring|rewrite IH; ring]. Qed.

Lemma xat_lcomb a b z1 z2 xs ys n j : length xs = length ys ->
  xat (a * z1 + b * z2) (lcomb a b xs ys) n j = a * xat z1 xs n j + b * xat z2 ys n j.
Proof.
  intro H. unfold xat. destruct (j <=? n)%nat; [apply nth_lcomb; exact H|reflexivity].
Qed.

Lemma mav_offset_lin s c size a b z1 z2 :
  mav_offset s c size (a * z1 + b * z2) = a * mav_offset s c size z1 + b * mav_offset s c size z2.
Proof. destruct s; cbn [mav_offset]; unfold mav_resid; ring. Qed.

Lemma mav_spec_off_linear s c size a b z1 z2 xs ys : length xs = length ys ->
  mav_spec_off s c size (a * z1 + b * z2) (lcomb a b xs ys)
  = lcomb a b (mav_spec_off s c size z1 xs) (mav_spec_off s c size z2 ys).
Proof.
  intro H. unfold mav_spec_off, mav_spec, tabulate. rewrite !map_map.
  rewrite lcomb_length by exact H. rewrite <- H. rewrite lcomb_map.
  apply map_ext. intro n. rewrite mav_offset_lin. unfold mav_formula.
  rewrite (sum_upto_ext _ (fun j => a * xat z1 xs n j + b * xat z2 ys n j))
    by (intro j; apply xat_lcomb; exact H).
  rewrite sum_upto_lin. ring.
Qed.

(* hence the code (every strategy, every c) is linear in (zero, samples) *)
Lemma maverage_linear s c size a b z1 z2 xs ys : (1 <= size)%nat -> length xs = length ys ->
  maverage s c size (a * z1 + b * z2) (lcomb a b xs ys)
  = Ok (lcomb a b (mav_spec_off s c size z1 xs) (mav_spec_off s c size z2 ys)).
Proof.
  intros Hs H. rewrite maverage_general by exact Hs. rewrite mav_spec_off_linear by exact H. reflexivity.
Qed.

Lemma accumulate_linear s a b xs ys : length xs = length ys ->
  accumulate s (lcomb a b xs ys) = lcomb a b (accumulate s xs) (accumulate s ys).
Proof.
  intro H. rewrite !accumulate_running_sum. unfold acc_spec, tabulate.
  rewrite lcomb_length by exact H. rewrite <- H. rewrite lcomb_map.
  apply map_ext. intro n.
  rewrite (sum_upto_ext _ (fun k => a * nth k xs 0 + b * nth k ys 0)).
  - apply sum_upto_lin.
  - intro k. replace (0 : Qc) with (a * 0 + b * 0) at 1 by ring. apply nth_lcomb. exact H.
Qed.
