(* C20 - maverage.deque / recursive / fir equal c * (sum of the last size samples)
   (+ the rounding residual of c for deque / recursive); accumulate.* are running sums. *)
From Coq Require Import String List Bool Arith ZArith QArith Qcanon Lia.
From AL Require Import Base.CaseLib C20.Model C20.Spec C20.Lib.
Import ListNotations.
Open Scope Qc_scope.

(* the formula on a history (most recent sample first) *)
Definition mavG (c : Qc) (size : nat) (zero off : Qc) (h : list Qc) : Qc :=
  c * sum_upto (fun j => nth j h zero) size + off.

Lemma mavG_tab c size zero off xs :
  hmap (mavG c size zero off) [] xs = map (fun v => v + off) (mav_spec c size zero xs).
Proof.
  rewrite hmap_tabulate. unfold mav_spec, tabulate. rewrite map_map. apply map_ext_in.
  intros n Hn. apply in_seq in Hn. unfold mavG, mav_formula. f_equal. f_equal.
  apply sum_upto_ext. intro j. apply nth_hist. lia.
Qed.

Lemma mavG_cons c k zero off el h :
  mavG c (S k) zero off (el :: h)
  = c * el - c * nth k h zero + mavG c (S k) zero off h.
Proof.
  unfold mavG. rewrite sum_upto_shift. cbn [nth sum_upto]. ring.
Qed.

Lemma mavG_nil c size zero : mavG c size zero (mav_resid c size zero) [] = zero.
Proof.
  unfold mavG, mav_resid. rewrite <- qsum_win, win_nil, qsum_repeat. ring.
Qed.

Lemma mav_fir_hist c size zero xs : (1 <= size)%nat ->
  mav_fir c size zero xs = hmap (mavG c size zero 0) [] xs.
Proof.
  intro Hs. unfold mav_fir.
  apply (mealy_hist (fir_step c size) (fun h d => d = win zero (size - 1) h)).
  - intros h s el ->. unfold fir_step. cbn [fst snd]. split.
    + apply win_shift.
    + rewrite qsum_scale. unfold mavG. destruct size as [|k]; [lia|].
      replace (S k - 1)%nat with k by lia.
      change (el :: win zero k h) with (win zero (S k) (el :: h)). rewrite qsum_win. ring.
  - rewrite win_nil. reflexivity.
Qed.

Lemma mav_rec_hist c size zero xs : (1 <= size)%nat ->
  mav_recursive c size zero xs = hmap (mavG c size zero (mav_resid c size zero)) [] xs.
Proof.
  intro Hs. unfold mav_recursive.
  apply (mealy_hist (rec_step c size)
           (fun h st => fst st = win zero size h /\ snd st = mavG c size zero (mav_resid c size zero) h)).
  - intros h [d m1] el [Hd Hm]. cbn [fst snd] in Hd, Hm. subst d m1.
    unfold rec_step. cbn [fst snd].
    assert (HG : c * el + - c * nth (size - 1) (win zero size h) 0
                 + mavG c size zero (mav_resid c size zero) h
                 = mavG c size zero (mav_resid c size zero) (el :: h)).
    { destruct size as [|k]; [lia|]. replace (S k - 1)%nat with k by lia.
      rewrite nth_win by lia. rewrite mavG_cons. ring. }
    split; [split|]; [apply win_shift|exact HG|exact HG].
  - cbn [fst snd]. split; [rewrite win_nil; reflexivity|]. symmetry. apply mavG_nil.
Qed.

Lemma map_repeat' {A B} (f : A -> B) x n : map f (repeat x n) = repeat (f x) n.
Proof. induction n as [|n IH]; simpl; [reflexivity|rewrite IH; reflexivity]. Qed.

Lemma mav_deque_hist c size zero xs : (1 <= size)%nat ->
  mav_deque c size zero xs = hmap (mavG c size zero (mav_resid c size zero)) [] xs.
Proof.
  intro Hs. unfold mav_deque.
  apply (mealy_hist (deque_step c)
           (fun h st => fst st = rev (map (fun v => v * c) (win zero size h))
                        /\ snd st = mavG c size zero (mav_resid c size zero) h)).
  - intros h [data mean] el [Hd Hm]. cbn [fst snd] in Hd, Hm. subst data mean.
    unfold deque_step. cbn [fst snd].
    destruct size as [|k]; [lia|].
    rewrite (win_snoc zero k h), map_app, rev_app_distr. cbn [map rev app hd tl].
    assert (HG : mavG c (S k) zero (mav_resid c (S k) zero) h - nth k h zero * c + el * c
                 = mavG c (S k) zero (mav_resid c (S k) zero) (el :: h)).
    { rewrite mavG_cons. ring. }
    split; [split|]; [cbn [win map rev]; reflexivity|exact HG|exact HG].
  - cbn [fst snd]. split; [|symmetry; apply mavG_nil].
    rewrite win_nil, map_repeat', rev_repeat. reflexivity.
Qed.

(* ---------------------------------------------------------------- statements *)
Lemma mav_run_spec s c size zero xs : (1 <= size)%nat ->
  mav_run s c size zero xs = mav_spec_off s c size zero xs.
Proof.
  intro Hs. unfold mav_spec_off. rewrite <- mavG_tab. destruct s; cbn [mav_run mav_offset].
  - apply mav_deque_hist; exact Hs.
  - apply mav_rec_hist; exact Hs.
  - apply mav_fir_hist; exact Hs.
Qed.

(* every c: the three strategies equal c * sum of the last size samples, plus
   the residual zero * (1 - size * c) for deque and recursive *)
Lemma maverage_general s c size zero xs : (1 <= size)%nat ->
  maverage s c size zero xs = Ok (mav_spec_off s c size zero xs).
Proof.
  intro Hs. unfold maverage. destruct size as [|k]; [lia|]. f_equal. apply mav_run_spec. lia.
Qed.

Lemma map_add0 l : map (fun v : Qc => v + 0) l = l.
Proof. rewrite <- (map_id l) at 2. apply map_ext. intro v. ring. Qed.

Lemma mav_offset_zero s c size zero : nq size * c = 1 \/ zero = 0 -> mav_offset s c size zero = 0.
Proof.
  intros H. destruct s; cbn [mav_offset]; try reflexivity; unfold mav_resid;
    (destruct H as [H | H]; [rewrite H|subst zero]; ring).
Qed.

(* c = 1/size (or zero = 0): the three strategies agree with each other and with the formula *)
Lemma maverage_agree c size zero xs : (1 <= size)%nat -> nq size * c = 1 \/ zero = 0 ->
  forall s, maverage s c size zero xs = Ok (mav_spec c size zero xs).
Proof.
  intros Hs Hc s. rewrite maverage_general by exact Hs. unfold mav_spec_off.
  rewrite mav_offset_zero by exact Hc. rewrite map_add0. reflexivity.
Qed.

(* with c = 1/size the formula is the mean of the last size samples *)
Lemma mav_formula_mean c size zero xs n : nq size * c = 1 ->
  mav_formula c size zero xs n = sum_upto (xat zero xs n) size / nq size.
Proof.
  intro Hc. unfold mav_formula.
  assert (Hn : nq size <> 0).
  { intro E. rewrite E in Hc. assert (H01 : (0 : Qc) = 1) by (rewrite <- Hc; ring).
    apply Qc_eq_iff in H01. vm_compute in H01. discriminate. }
  assert (Ec : c = / nq size) by (field_simplify_eq; [rewrite Qcmult_comm; exact Hc|exact Hn]).
  rewrite Ec. field. exact Hn.
Qed.

Lemma mav_spec_length c size zero xs : length (mav_spec c size zero xs) = length xs.
Proof. apply tabulate_length. Qed.

Lemma maverage_size0 s c zero xs :
  maverage s c 0 zero xs = Err (match s with MFir => "TypeError" | _ => "ZeroDivisionError" end).
Proof. destruct s; reflexivity. Qed.

(* ---------------------------------------------------------------- accumulate *)
Lemma acc_go_index : forall xs pre,
  acc_go (sum_upto (fun k => nth k (pre ++ xs) 0) (length pre)) xs
  = map (fun n => sum_upto (fun k => nth k (pre ++ xs) 0) (S n)) (seq (length pre) (length xs)).
Proof.
  induction xs as [|el r IH]; intro pre; [reflexivity|].
  cbn [acc_go length seq map].
  assert (E : sum_upto (fun k => nth k (pre ++ el :: r) 0) (length pre) + el
              = sum_upto (fun k => nth k (pre ++ el :: r) 0) (S (length pre))).
  { cbn [sum_upto]. rewrite app_nth2 by lia. rewrite Nat.sub_diag. reflexivity. }
  rewrite E. f_equal.
  specialize (IH (pre ++ [el])). rewrite app_length in IH. cbn [length] in IH.
  rewrite <- app_assoc in IH. cbn [app] in IH.
  replace (length pre + 1)%nat with (S (length pre)) in IH by lia. exact IH.
Qed.

Lemma acc_go0_spec xs : acc_go 0 xs = acc_spec xs.
Proof. exact (acc_go_index xs []). Qed.

Lemma acc_func_spec xs : acc_func xs = acc_spec xs.
Proof.
  rewrite <- acc_go0_spec. destruct xs as [|x r]; [reflexivity|].
  cbn [acc_func acc_go]. replace (0 + x) with x by ring. reflexivity.
Qed.

Lemma acc_z_go : forall xs m, mealy (fun m1 el => let m0 := el + m1 in (m0, m0)) m xs = acc_go m xs.
Proof.
  induction xs as [|el r IH]; intro m; [reflexivity|].
  cbn [mealy acc_go]. rewrite (Qcplus_comm el m). f_equal. apply IH.
Qed.

Lemma accumulate_running_sum s xs : accumulate s xs = acc_spec xs.
Proof.
  destruct s; cbn [accumulate].
  - apply acc_func_spec.
  - apply acc_func_spec.
  - unfold acc_z. rewrite acc_z_go. apply acc_go0_spec.
Qed.

Lemma acc_spec_length xs : length (acc_spec xs) = length xs.
Proof. apply tabulate_length. Qed.

Lemma accumulate_empty s : accumulate s [] = [].
Proof. destruct s; reflexivity. Qed.
