(* C20 - several lazy streams made by ONE tool, pulled in any interleaved order: since
   every call owns its state, each stream yields the prefix of its own per-call output. *)
From Coq Require Import String List Bool Arith ZArith QArith Qcanon Lia.
From AL Require Import Base.CaseLib C20.Model.
Import ListNotations.

Section Sched.
Variables (St B : Type) (step : St -> Qc -> St * B).

(* a live stream: the state of its loop and the input it has not read yet *)
Definition strm : Type := (St * list Qc)%type.
Definition pull (st : strm) : option (B * strm) :=
  match snd st with
  | [] => None                                    (* StopIteration *)
  | el :: r => Some (snd (step (fst st) el), (fst (step (fst st) el), r))
  end.
Fixpoint update (sts : list strm) (i : nat) (st : strm) : list strm :=
  match sts, i with
  | [], _ => []
  | _ :: r, O => st :: r
  | x :: r, S j => x :: update r j st
  end.
(* ops: which stream is pulled next; result: the events (stream, value) in time order *)
Fixpoint sched (ops : list nat) (sts : list strm) : list (nat * B) :=
  match ops with
  | [] => []
  | i :: r =>
      match nth_error sts i with
      | Some st => match pull st with
                   | Some (y, st') => (i, y) :: sched r (update sts i st')
                   | None => sched r sts
                   end
      | None => sched r sts
      end
  end.
Definition outputs_of (i : nat) (evs : list (nat * B)) : list B :=
  map snd (filter (fun e => (fst e =? i)%nat) evs).

Lemma nth_update_same : forall sts i st st0, nth_error sts i = Some st0 ->
  nth_error (update sts i st) i = Some st.
Proof.
  induction sts as [|x r IH]; intros [|j] st st0 H; simpl in *; try discriminate; [reflexivity|].
  apply (IH j st st0 H).
Qed.
Lemma nth_update_other : forall sts i j st, i <> j ->
  nth_error (update sts i st) j = nth_error sts j.
Proof.
  induction sts as [|x r IH]; intros [|i] [|j] st H; simpl; try reflexivity; try lia.
  apply IH. lia.
Qed.

Theorem sched_independent : forall ops sts i st, nth_error sts i = Some st ->
  outputs_of i (sched ops sts) = firstn (count_occ Nat.eq_dec ops i) (mealy step (fst st) (snd st)).
Proof.
  induction ops as [|j r IH]; intros sts i st Hi; [reflexivity|].
  cbn [sched count_occ].
  destruct (Nat.eq_dec j i) as [E|E].
  - subst j. rewrite Hi. destruct st as [s xs]. unfold pull. cbn [fst snd].
    destruct xs as [|el xr].
    + rewrite (IH sts i (s, []) Hi). cbn [fst snd mealy]. rewrite !firstn_nil. reflexivity.
    + unfold outputs_of. cbn [filter fst]. rewrite Nat.eqb_refl. cbn [map snd mealy].
      destruct (step s el) as [s' y] eqn:Es. cbn [fst snd firstn]. f_equal.
      apply (IH (update sts i (s', xr)) i (s', xr)).
      apply nth_update_same with (st0 := (s, el :: xr)). exact Hi.
  - destruct (nth_error sts j) as [stj|] eqn:Ej; [|apply IH; exact Hi].
    destruct (pull stj) as [[y stj']|]; [|apply IH; exact Hi].
    unfold outputs_of. cbn [filter fst].
    destruct (j =? i)%nat eqn:Eb; [apply Nat.eqb_eq in Eb; contradiction|].
    apply (IH (update sts j stj') i st). rewrite nth_update_other by exact E. exact Hi.
Qed.
End Sched.

(* instance: the streams that one maverage.deque(size) callable makes from the inputs
   (zero_k, xs_k): whatever the pull order, stream i is the prefix of mav_deque on input i *)
Lemma mav_deque_calls_independent c size ops (ins : list (Qc * list Qc)) i zero xs :
  nth_error ins i = Some (zero, xs) ->
  outputs_of _ i (sched _ _ (deque_step c) ops
                    (map (fun p => ((repeat (fst p * c)%Qc size, fst p), snd p)) ins))
  = firstn (count_occ Nat.eq_dec ops i) (mav_deque c size zero xs).
Proof.
  intro H. unfold mav_deque.
  rewrite (sched_independent _ _ (deque_step c) ops _ i ((repeat (zero * c)%Qc size, zero), xs)).
  - reflexivity.
  - rewrite nth_error_map, H. reflexivity.
Qed.
