(* C20 - zcross: the two loops of the code compute the recursively defined
   current sign and emit 1 exactly where x[n] * sign < -hysteresis. *)
From Coq Require Import String List Bool Arith ZArith QArith Qcanon Lqa Lia.
From AL Require Import Base.CaseLib C20.Model C20.Spec C20.Lib.
Import ListNotations.
Open Scope Qc_scope.

Lemma sgn_cases x : (x < 0 /\ sgn x = - (1)) \/ (0 <= x /\ sgn x = 1).
Proof. unfold sgn. case_ltb x 0; [left|right]; auto. Qed.

Lemma sgn_nonzero x : sgn x <> 0.
Proof.
  destruct (sgn_cases x) as [[_ E]|[_ E]]; rewrite E; intro H;
    apply Qc_eq_iff in H; vm_compute in H; discriminate.
Qed.

Lemma nth_mid (pre : list Qc) el r d : nth (length pre) (pre ++ el :: r) d = el.
Proof. rewrite app_nth2 by lia. rewrite Nat.sub_diag. reflexivity. Qed.

Section Zc.
Variables h fs : Qc.

Lemma zc_run_index : forall xs pre s, s <> 0 ->
  zc_sign h fs (pre ++ xs) (length pre) = s ->
  zc_run h s xs = map (zc_out h fs (pre ++ xs)) (seq (length pre) (length xs)).
Proof.
  induction xs as [|el r IH]; intros pre s Hs Hsig; [reflexivity|].
  cbn [zc_run length seq map].
  assert (Hs' : Qc_eqb s 0 = false) by (apply Qc_eqb_false; exact Hs).
  assert (Hout : zc_out h fs (pre ++ el :: r) (length pre)
                 = if Qc_ltb (el * s) (- h) then 1%Z else 0%Z).
  { unfold zc_out. rewrite Hsig, nth_mid, Hs'. reflexivity. }
  assert (Hnext : zc_sign h fs (pre ++ el :: r) (S (length pre))
                  = if Qc_ltb (el * s) (- h) then sgn el else s).
  { cbn [zc_sign]. rewrite Hsig, nth_mid, Hs'. reflexivity. }
  rewrite Hout.
  assert (HIH : forall s', s' <> 0 -> zc_sign h fs (pre ++ el :: r) (S (length pre)) = s' ->
                zc_run h s' r = map (zc_out h fs (pre ++ el :: r)) (seq (S (length pre)) (length r))).
  { intros s' Hs1 Hs2. specialize (IH (pre ++ [el]) s' Hs1).
    rewrite app_length in IH. cbn [length] in IH. rewrite <- app_assoc in IH. cbn [app] in IH.
    replace (length pre + 1)%nat with (S (length pre)) in IH by lia. apply IH. exact Hs2. }
  destruct (Qc_ltb (el * s) (- h)); f_equal; apply HIH; auto using sgn_nonzero.
Qed.

Lemma zc_find_index : forall xs pre,
  zc_sign h fs (pre ++ xs) (length pre) = 0 ->
  zc_find h xs = map (zc_out h fs (pre ++ xs)) (seq (length pre) (length xs)).
Proof.
  induction xs as [|el r IH]; intros pre Hsig; [reflexivity|].
  cbn [zc_find length seq map].
  assert (Hout : zc_out h fs (pre ++ el :: r) (length pre) = 0%Z).
  { unfold zc_out. rewrite Hsig, Qc_eqb_refl. reflexivity. }
  assert (Hnext : zc_sign h fs (pre ++ el :: r) (S (length pre))
                  = if outside h el then sgn el else 0).
  { cbn [zc_sign]. rewrite Hsig, nth_mid, Qc_eqb_refl. reflexivity. }
  rewrite Hout. f_equal. fold (outside h el). fold (outside h el) in Hnext.
  destruct (outside h el).
  - pose proof (zc_run_index r (pre ++ [el]) (sgn el) (sgn_nonzero el)) as HR.
    rewrite app_length in HR. cbn [length] in HR. rewrite <- app_assoc in HR. cbn [app] in HR.
    replace (length pre + 1)%nat with (S (length pre)) in HR by lia. apply HR. exact Hnext.
  - specialize (IH (pre ++ [el])).
    rewrite app_length in IH. cbn [length] in IH. rewrite <- app_assoc in IH. cbn [app] in IH.
    replace (length pre + 1)%nat with (S (length pre)) in IH by lia. apply IH. exact Hnext.
Qed.

Lemma zcross_eq_spec xs : zcross h fs xs = zcross_spec h fs xs.
Proof.
  unfold zcross, zcross_spec, tabulate.
  destruct (Qc_eqb fs 0) eqn:E.
  - apply (zc_find_index xs []). cbn [length app zc_sign]. rewrite E. reflexivity.
  - apply (zc_run_index xs [] (sgn fs) (sgn_nonzero fs)). cbn [length app zc_sign]. rewrite E. reflexivity.
Qed.

Lemma zcross_length xs : length (zcross h fs xs) = length xs.
Proof. rewrite zcross_eq_spec. apply tabulate_length. Qed.

Lemma zcross_binary xs : Forall (fun y => y = 0%Z \/ y = 1%Z) (zcross h fs xs).
Proof.
  rewrite zcross_eq_spec. apply Forall_forall. intros y Hy. unfold zcross_spec, tabulate in Hy.
  apply in_map_iff in Hy as [n [<- _]]. unfold zc_out.
  destruct (negb _ && _); auto.
Qed.

(* output n is 1 exactly when the current sign is defined and x[n] lies beyond
   the threshold on the opposite side *)
Lemma zc_out_one_iff xs n :
  zc_out h fs xs n = 1%Z <->
  zc_sign h fs xs n <> 0 /\ nth n xs 0 * zc_sign h fs xs n < - h.
Proof.
  unfold zc_out.
  case_eqb (zc_sign h fs xs n) 0; cbn [negb andb].
  - split; [discriminate|]. intros [H _]. contradiction.
  - case_ltb (nth n xs 0 * zc_sign h fs xs n) (- h).
    + split; auto.
    + split; [discriminate|]. intros [_ H]. exfalso. qc_lra.
Qed.

Lemma zc_sign_values xs n :
  zc_sign h fs xs n = 0 \/ zc_sign h fs xs n = 1 \/ zc_sign h fs xs n = - (1).
Proof.
  assert (Hsg : forall x, sgn x = 1 \/ sgn x = - (1))
    by (intro x; destruct (sgn_cases x) as [[_ E]|[_ E]]; auto).
  induction n as [|n IH]; cbn [zc_sign].
  - destruct (Qc_eqb fs 0); [auto|destruct (Hsg fs); auto].
  - destruct (Qc_eqb (zc_sign h fs xs n) 0).
    + destruct (outside h (nth n xs 0)); [destruct (Hsg (nth n xs 0)); auto|auto].
    + destruct (Qc_ltb _ _); [destruct (Hsg (nth n xs 0)); auto|exact IH].
Qed.

(* the sign flips exactly at the samples that output 1 (hysteresis >= 0) ... *)
Lemma zc_sign_flips xs n : 0 <= h -> zc_out h fs xs n = 1%Z ->
  zc_sign h fs xs (S n) = - zc_sign h fs xs n.
Proof.
  intros Hh H1. apply zc_out_one_iff in H1 as [Hs Hlt].
  cbn [zc_sign]. apply Qc_eqb_false in Hs. rewrite Hs. apply Qc_eqb_false in Hs.
  apply Qc_ltb_spec in Hlt. rewrite Hlt. apply Qc_ltb_spec in Hlt.
  destruct (zc_sign_values xs n) as [E|[E|E]]; [contradiction| |]; rewrite E in *.
  - destruct (sgn_cases (nth n xs 0)) as [[_ Es]|[Hx _]]; [exact Es|exfalso; qc_lra].
  - destruct (sgn_cases (nth n xs 0)) as [[Hx _]|[_ Es]]; [exfalso; qc_lra|].
    rewrite Es. ring.
Qed.

(* ... and is kept everywhere else once it is defined *)
Lemma zc_sign_kept xs n : zc_sign h fs xs n <> 0 -> zc_out h fs xs n = 0%Z ->
  zc_sign h fs xs (S n) = zc_sign h fs xs n.
Proof.
  intros Hs H0. cbn [zc_sign]. unfold zc_out in H0.
  apply Qc_eqb_false in Hs. rewrite Hs in *. cbn [negb andb] in H0.
  destruct (Qc_ltb _ _); [discriminate|reflexivity].
Qed.

(* while undefined, it becomes the sign of the first sample outside [-h, h] *)
Lemma zc_sign_start xs n : zc_sign h fs xs n = 0 ->
  zc_sign h fs xs (S n) = if outside h (nth n xs 0) then sgn (nth n xs 0) else 0.
Proof. intro E. cbn [zc_sign]. rewrite E, Qc_eqb_refl. reflexivity. Qed.

Lemma zc_sign_init xs : zc_sign h fs xs 0 = if Qc_eqb fs 0 then 0 else sgn fs.
Proof. reflexivity. Qed.

End Zc.
