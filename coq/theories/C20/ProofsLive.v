(* C20 - every tool is causal: its first k outputs are its outputs on the first k inputs.
   Hence, on a live source consumed incrementally, output n is the tool's formula on the
   items read so far, and the read-one / emit-one model never needs item n+1 for output n. *)
From Coq Require Import String List Bool Arith ZArith QArith Qcanon Lia.
From AL Require Import Base.CaseLib C20.Model C20.Spec C20.Check C20.Lib.
Import ListNotations.
Open Scope Qc_scope.

Lemma mealy_firstn {St B} (step : St -> Qc -> St * B) : forall k xs s,
  firstn k (mealy step s xs) = mealy step s (firstn k xs).
Proof.
  induction k as [|k IH]; intros xs s; [reflexivity|].
  destruct xs as [|el r]; [reflexivity|].
  cbn [mealy firstn]. destruct (step s el) as [s' y]. cbn [firstn]. f_equal. apply IH.
Qed.

Lemma firstn_map' {A B} (f : A -> B) : forall k l, firstn k (map f l) = map f (firstn k l).
Proof. induction k as [|k IH]; intros [|a l]; cbn [firstn map]; try reflexivity. f_equal. apply IH. Qed.

Lemma acc_go_firstn : forall k xs s, firstn k (acc_go s xs) = acc_go s (firstn k xs).
Proof.
  induction k as [|k IH]; intros xs s; [reflexivity|].
  destruct xs as [|el r]; [reflexivity|]. cbn [acc_go firstn]. f_equal. apply IH.
Qed.

Lemma acc_func_firstn k xs : firstn k (acc_func xs) = acc_func (firstn k xs).
Proof.
  destruct k as [|k]; [reflexivity|]. destruct xs as [|x r]; [reflexivity|].
  cbn [acc_func firstn]. f_equal. apply acc_go_firstn.
Qed.

Lemma zc_run_firstn h : forall k xs s, firstn k (zc_run h s xs) = zc_run h s (firstn k xs).
Proof.
  induction k as [|k IH]; intros xs s; [reflexivity|].
  destruct xs as [|el r]; [reflexivity|]. cbn [zc_run firstn].
  destruct (Qc_ltb (el * s) (- h)); cbn [firstn]; f_equal; apply IH.
Qed.

Lemma zc_find_firstn h : forall k xs, firstn k (zc_find h xs) = zc_find h (firstn k xs).
Proof.
  induction k as [|k IH]; intros xs; [reflexivity|].
  destruct xs as [|el r]; [reflexivity|]. cbn [zc_find firstn]. f_equal.
  destruct (Qc_ltb h el || Qc_ltb el (- h)); [apply zc_run_firstn|apply IH].
Qed.

Lemma uw_go_firstn md step : forall k xs d0 delta o,
  uw_go md step d0 delta xs = (o, false) ->
  uw_go md step d0 delta (firstn k xs) = (firstn k o, false).
Proof.
  induction k as [|k IH]; intros xs d0 delta o H; [reflexivity|].
  destruct xs as [|d1 r].
  - cbn [uw_go] in H. inversion H. reflexivity.
  - cbn [uw_go firstn] in *.
    destruct (Qc_ltb md (qabs (d1 - d0))).
    + destruct (Qc_eqb step 0); [discriminate|].
      destruct (uw_go md step d1 (delta + uw_corr step (d1 - d0)) r) as [o' e'] eqn:E.
      inversion H; subst o e'. rewrite (IH r _ _ o' E). reflexivity.
    + destruct (uw_go md step d1 delta r) as [o' e'] eqn:E.
      inversion H; subst o e'. rewrite (IH r _ _ o' E). reflexivity.
Qed.

Lemma unwrap_firstn md step k xs o :
  unwrap md step xs = (o, false) -> unwrap md step (firstn k xs) = (firstn k o, false).
Proof.
  intro H. destruct k as [|k]; [reflexivity|]. destruct xs as [|d0 r].
  - cbn [unwrap] in H. inversion H. reflexivity.
  - cbn [unwrap firstn] in *. destruct (uw_go md step d0 (d0 - d0) r) as [o' e'] eqn:E.
    inversion H; subst o e'. rewrite (uw_go_firstn md step k r _ _ o' E). reflexivity.
Qed.

Lemma mav_run_firstn s c size zero k xs :
  firstn k (mav_run s c size zero xs) = mav_run s c size zero (firstn k xs).
Proof. destruct s; apply mealy_firstn. Qed.

Lemma clip_firstn low high k xs ys : clip low high xs = Ok ys ->
  clip low high (firstn k xs) = Ok (firstn k ys).
Proof.
  unfold clip. destruct low as [l|], high as [h|]; try destruct (Qc_ltb h l);
    intro H; inversion H; try (rewrite firstn_map'); reflexivity.
Qed.

(* one call of any tool, as Check.multi_model runs it *)
Theorem multi_model_causal t zero xs ys k :
  multi_model t zero xs = Ok ys -> multi_model t zero (firstn k xs) = Ok (firstn k ys).
Proof.
  destruct t as [s c size|c size lag|s g a1|lo hi|h fs|md step|s]; cbn [multi_model].
  - unfold maverage. destruct size; [destruct s; discriminate|].
    intro H. inversion H. rewrite mav_run_firstn. reflexivity.
  - unfold amdf. destruct size; [discriminate|]. destruct (lag_causal (lagspec_of lag)); [|discriminate].
    intro H. inversion H. f_equal. unfold mav_deque, lag_filter.
    rewrite mealy_firstn, firstn_map', mealy_firstn. reflexivity.
  - intro H. inversion H. f_equal. unfold env_vals.
    destruct s; cbn [envelope]; unfold lowpass_call;
      rewrite !firstn_map', mealy_firstn, firstn_map'; reflexivity.
  - apply clip_firstn.
  - intro H. inversion H. f_equal. rewrite firstn_map'. f_equal.
    unfold zcross. destruct (Qc_eqb fs 0); symmetry; [apply zc_find_firstn|apply zc_run_firstn].
  - destruct (unwrap md step xs) as [o e] eqn:E. destruct e; [discriminate|].
    intro H. inversion H; subst ys. rewrite (unwrap_firstn md step k xs o E). reflexivity.
  - intro H. inversion H. f_equal. destruct s; cbn [accumulate].
    + symmetry. exact (acc_func_firstn k xs).
    + symmetry. exact (acc_func_firstn k xs).
    + symmetry. unfold acc_z. apply mealy_firstn.
Qed.
