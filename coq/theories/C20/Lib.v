(* C20 - shared lemmas: Qc order through Q + lra, boolean comparisons, sums,
   zero-padded history windows, histories versus sample indices. *)
From Coq Require Import String List Bool Arith ZArith QArith Qcanon Qround Lqa Lia.
From AL Require Import Base.CaseLib C20.Model C20.Spec.
Import ListNotations.
Open Scope Qc_scope.

(* ---------------------------------------------------------------- Qc -> Q *)
Lemma this_add a b : (this (a + b) == this a + this b)%Q.
Proof. unfold Qcplus, Q2Qc. cbn [this]. apply Qred_correct. Qed.
Lemma this_mul a b : (this (a * b) == this a * this b)%Q.
Proof. unfold Qcmult, Q2Qc. cbn [this]. apply Qred_correct. Qed.
Lemma this_opp a : (this (- a) == - this a)%Q.
Proof. unfold Qcopp, Q2Qc. cbn [this]. apply Qred_correct. Qed.
Lemma this_sub a b : (this (a - b) == this a - this b)%Q.
Proof. unfold Qcminus. rewrite this_add, this_opp. reflexivity. Qed.
Lemma Qc_eq_iff a b : a = b <-> (this a == this b)%Q.
Proof. split; [intros ->; reflexivity|apply Qc_is_canon]. Qed.
Lemma Qc_neq_iff a b : a <> b <-> ~ (this a == this b)%Q.
Proof. rewrite Qc_eq_iff. tauto. Qed.

Ltac qc_pre :=
  repeat match goal with
  | H : @eq Qc _ _ |- _ => apply Qc_eq_iff in H
  | H : ~ (@eq Qc _ _) |- _ => apply Qc_neq_iff in H
  end;
  try (apply Qc_eq_iff); try (apply Qc_neq_iff);
  unfold Qcle, Qclt in *;
  repeat (rewrite ?this_add, ?this_mul, ?this_opp, ?this_sub in * );
  change (this 0) with 0%Q in *; change (this 1) with 1%Q in *.
Ltac qc_lra := qc_pre; lra.
Ltac qc_nra := qc_pre; nra.

(* boolean comparisons to propositions *)
Lemma Qc_ltb_false a b : Qc_ltb a b = false <-> b <= a.
Proof.
  unfold Qc_ltb. rewrite negb_false_iff. apply Qc_leb_spec.
Qed.
Lemma Qc_leb_false a b : Qc_leb a b = false <-> b < a.
Proof.
  split; intro H.
  - apply Qcnot_le_lt. intro L. apply Qc_leb_spec in L. congruence.
  - destruct (Qc_leb a b) eqn:E; [|reflexivity]. apply Qc_leb_spec in E.
    exfalso. exact (Qclt_not_le _ _ H E).
Qed.
Lemma Qc_eqb_false a b : Qc_eqb a b = false <-> a <> b.
Proof.
  split; intro H.
  - intro E. apply Qc_eqb_spec in E. congruence.
  - destruct (Qc_eqb a b) eqn:E; [|reflexivity]. apply Qc_eqb_spec in E. contradiction.
Qed.
Lemma Qc_eqb_refl a : Qc_eqb a a = true.
Proof. apply Qc_eqb_spec. reflexivity. Qed.

(* destructs one boolean comparison [Qc_ltb a b] / [Qc_leb a b] / [Qc_eqb a b] occurring in the goal *)
Ltac case_ltb a b :=
  let E := fresh "E" in destruct (Qc_ltb a b) eqn:E;
  [apply Qc_ltb_spec in E | apply Qc_ltb_false in E].
Ltac case_leb a b :=
  let E := fresh "E" in destruct (Qc_leb a b) eqn:E;
  [apply Qc_leb_spec in E | apply Qc_leb_false in E].
Ltac case_eqb a b :=
  let E := fresh "E" in destruct (Qc_eqb a b) eqn:E;
  [apply Qc_eqb_spec in E | apply Qc_eqb_false in E].

(* ---------------------------------------------------------------- qabs *)
Lemma qabs_nonneg x : 0 <= qabs x.
Proof. unfold qabs. case_ltb x 0; qc_lra. Qed.
Lemma qabs_cases x : (x < 0 /\ qabs x = - x) \/ (0 <= x /\ qabs x = x).
Proof. unfold qabs. case_ltb x 0; [left|right]; split; auto. Qed.

(* ---------------------------------------------------------------- zq / nq *)
Lemma this_zq k : (this (zq k) == inject_Z k)%Q.
Proof. unfold zq, Q2Qc. cbn [this]. apply Qred_correct. Qed.
Lemma zq_add a b : zq (a + b) = zq a + zq b.
Proof. apply Qc_eq_iff. rewrite this_add, !this_zq, inject_Z_plus. reflexivity. Qed.
Lemma zq_opp a : zq (- a) = - zq a.
Proof. apply Qc_eq_iff. rewrite this_opp, !this_zq, inject_Z_opp. reflexivity. Qed.
Lemma zq_0 : zq 0 = 0.
Proof. apply Qc_eq_iff. reflexivity. Qed.
Lemma zq_1 : zq 1 = 1.
Proof. apply Qc_eq_iff. reflexivity. Qed.
Lemma zq_le a b : (a <= b)%Z <-> zq a <= zq b.
Proof. unfold Qcle. rewrite !this_zq, <- Zle_Qle. tauto. Qed.
Lemma zq_lt a b : (a < b)%Z <-> zq a < zq b.
Proof. unfold Qclt. rewrite !this_zq, <- Zlt_Qlt. tauto. Qed.
Lemma nq_S n : nq (S n) = nq n + 1.
Proof. unfold nq. rewrite Nat2Z.inj_succ, <- Z.add_1_r, zq_add, zq_1. reflexivity. Qed.
Lemma nq_0 : nq 0 = 0.
Proof. apply zq_0. Qed.

(* floor *)
Lemma qfloor_le x : zq (qfloor x) <= x.
Proof. unfold Qcle, qfloor. rewrite this_zq. apply Qfloor_le. Qed.
Lemma qfloor_lt x : x < zq (qfloor x) + 1.
Proof.
  unfold Qclt, qfloor. rewrite this_add, this_zq. change (this 1) with 1%Q.
  pose proof (Qlt_floor (this x)) as H. rewrite inject_Z_plus in H. exact H.
Qed.
Lemma qfloor_zq k : qfloor (zq k) = k.
Proof.
  unfold qfloor. rewrite (Qfloor_comp _ _ (this_zq k)). apply Qfloor_Z.
Qed.

(* ---------------------------------------------------------------- sums *)
Lemma sum_upto_ext_lt f g k : (forall j, (j < k)%nat -> f j = g j) -> sum_upto f k = sum_upto g k.
Proof.
  induction k as [|k IH]; intro H; simpl; [reflexivity|].
  rewrite IH, (H k); auto.
Qed.
Lemma sum_upto_ext f g k : (forall j, f j = g j) -> sum_upto f k = sum_upto g k.
Proof. intro H. apply sum_upto_ext_lt. auto. Qed.
Lemma sum_upto_shift f k : sum_upto f (S k) = f O + sum_upto (fun j => f (S j)) k.
Proof.
  induction k as [|k IH]; [simpl; ring|].
  change (sum_upto f (S (S k))) with (sum_upto f (S k) + f (S k)).
  rewrite IH. simpl. ring.
Qed.
Lemma sum_upto_scale a f k : sum_upto (fun j => a * f j) k = a * sum_upto f k.
Proof. induction k as [|k IH]; simpl; [ring|rewrite IH; ring]. Qed.
Lemma qsum_scale a l : qsum (map (fun v => a * v) l) = a * qsum l.
Proof. unfold qsum. induction l as [|x l IH]; cbn [map fold_right]; [ring|rewrite IH; ring]. Qed.
Lemma qsum_app l1 l2 : qsum (l1 ++ l2) = qsum l1 + qsum l2.
Proof. unfold qsum. induction l1 as [|x l IH]; cbn [app fold_right]; [ring|rewrite IH; ring]. Qed.
Lemma qsum_repeat x n : qsum (repeat x n) = nq n * x.
Proof.
  unfold qsum. induction n as [|n IH]; [rewrite nq_0; cbn [repeat fold_right]; ring|].
  rewrite nq_S. cbn [repeat fold_right]. rewrite IH. ring.
Qed.

(* ---------------------------------------------------------------- lists *)
Lemma rev_repeat {A} (x : A) n : rev (repeat x n) = repeat x n.
Proof.
  induction n as [|n IH]; [reflexivity|].
  simpl. rewrite IH. symmetry. apply repeat_cons.
Qed.
Lemma tabulate_ext {B} (F G : nat -> B) xs :
  (forall n, (n < length xs)%nat -> F n = G n) -> tabulate F xs = tabulate G xs.
Proof.
  intro H. unfold tabulate. apply map_ext_in. intros n Hn. apply in_seq in Hn. apply H. lia.
Qed.
Lemma tabulate_length {B} (F : nat -> B) xs : length (tabulate F xs) = length xs.
Proof. unfold tabulate. rewrite map_length, seq_length. reflexivity. Qed.
Lemma nth_tabulate (F : nat -> Qc) xs n d : (n < length xs)%nat -> nth n (tabulate F xs) d = F n.
Proof.
  intro H. unfold tabulate.
  rewrite (nth_indep _ d (F O)) by (rewrite map_length, seq_length; exact H).
  rewrite map_nth, seq_nth; auto.
Qed.

(* ---------------------------------------------------------------- windows
   win zero k h: the k most recent samples of the history h (most recent first),
   padded with `zero` *)
Fixpoint win (zero : Qc) (k : nat) (h : list Qc) : list Qc :=
  match k with
  | O => []
  | S k' => match h with [] => zero :: win zero k' [] | a :: t => a :: win zero k' t end
  end.
Lemma win_nil zero k : win zero k [] = repeat zero k.
Proof. induction k as [|k IH]; simpl; [reflexivity|rewrite IH; reflexivity]. Qed.
Lemma win_length zero k h : length (win zero k h) = k.
Proof. revert h. induction k as [|k IH]; intros [|a t]; simpl; auto. Qed.
Lemma win_firstn zero k : forall h, firstn k (win zero (S k) h) = win zero k h.
Proof.
  induction k as [|k IH]; intro h; [destruct h; reflexivity|].
  destruct h as [|a t].
  - change (win zero (S (S k)) []) with (zero :: win zero (S k) []).
    rewrite firstn_cons, IH. reflexivity.
  - change (win zero (S (S k)) (a :: t)) with (a :: win zero (S k) t).
    rewrite firstn_cons, IH. reflexivity.
Qed.
Lemma win_shift zero k el h : shift k el (win zero k h) = win zero k (el :: h).
Proof.
  unfold shift. destruct k as [|k]; [reflexivity|].
  rewrite firstn_cons, win_firstn. reflexivity.
Qed.
Lemma nth_win zero k : forall h j d, (j < k)%nat -> nth j (win zero k h) d = nth j h zero.
Proof.
  induction k as [|k IH]; intros h j d Hj; [lia|].
  destruct h as [|a t]; destruct j as [|j]; simpl; try reflexivity.
  - rewrite IH by lia. destruct j; reflexivity.
  - apply IH. lia.
Qed.
Lemma qsum_win zero k : forall h, qsum (win zero k h) = sum_upto (fun j => nth j h zero) k.
Proof.
  induction k as [|k IH]; intro h; [reflexivity|].
  rewrite sum_upto_shift. destruct h as [|a t]; simpl.
  - fold (qsum (win zero k [])). rewrite IH. f_equal. apply sum_upto_ext. intros [|j]; reflexivity.
  - fold (qsum (win zero k t)). rewrite IH. reflexivity.
Qed.
Lemma win_snoc zero k : forall h, win zero (S k) h = win zero k h ++ [nth k h zero].
Proof.
  induction k as [|k IH]; intro h; [destruct h; reflexivity|].
  destruct h as [|a t].
  - rewrite !win_nil. cbn [nth]. rewrite <- repeat_cons. reflexivity.
  - change (win zero (S (S k)) (a :: t)) with (a :: win zero (S k) t). rewrite IH. reflexivity.
Qed.

(* ---------------------------------------------------------------- histories
   hmap G h xs: output n is G applied to the history (most recent sample first)
   after reading sample n *)
Fixpoint hmap {B : Type} (G : list Qc -> B) (h : list Qc) (xs : list Qc) : list B :=
  match xs with
  | [] => []
  | el :: r => G (el :: h) :: hmap G (el :: h) r
  end.

Lemma mealy_hist {S B : Type} (step : S -> Qc -> S * B) (Inv : list Qc -> S -> Prop) (G : list Qc -> B) :
  (forall h s el, Inv h s -> Inv (el :: h) (fst (step s el)) /\ snd (step s el) = G (el :: h)) ->
  forall xs h s, Inv h s -> mealy step s xs = hmap G h xs.
Proof.
  intros Hstep xs. induction xs as [|el r IH]; intros h s HI; [reflexivity|].
  simpl. destruct (Hstep h s el HI) as [H1 H2].
  destruct (step s el) as [s' y]. simpl in H1, H2. subst y. f_equal. apply IH. exact H1.
Qed.

Lemma hmap_index {B : Type} (G : list Qc -> B) : forall xs pre,
  hmap G (rev pre) xs
  = map (fun n => G (rev (firstn (S n) (pre ++ xs)))) (seq (length pre) (length xs)).
Proof.
  induction xs as [|el r IH]; intro pre; [reflexivity|].
  cbn [hmap length seq map]. f_equal.
  - f_equal. replace (S (length pre)) with (length (pre ++ [el]) + 0)%nat
      by (rewrite app_length; simpl; lia).
    change (pre ++ el :: r) with (pre ++ [el] ++ r). rewrite app_assoc.
    rewrite firstn_app_2. simpl. rewrite app_nil_r, rev_unit. reflexivity.
  - specialize (IH (pre ++ [el])). rewrite rev_unit in IH. rewrite IH.
    rewrite app_length. simpl. rewrite <- app_assoc. simpl.
    replace (length pre + 1)%nat with (S (length pre)) by lia. reflexivity.
Qed.

Lemma hmap_tabulate {B : Type} (G : list Qc -> B) xs :
  hmap G [] xs = tabulate (fun n => G (rev (firstn (S n) xs))) xs.
Proof. exact (hmap_index G xs []). Qed.

(* the j-th most recent sample of the history after sample n is x[n-j] *)
Lemma nth_hist zero xs n j : (n < length xs)%nat ->
  nth j (rev (firstn (S n) xs)) zero = xat zero xs n j.
Proof.
  intro Hn. unfold xat.
  assert (HL : length (firstn (S n) xs) = S n) by (rewrite firstn_length; lia).
  destruct (j <=? n)%nat eqn:E.
  - apply Nat.leb_le in E. rewrite rev_nth by lia. rewrite HL.
    replace (S n - S j)%nat with (n - j)%nat by lia.
    rewrite <- (firstn_skipn (S n) xs) at 2. rewrite app_nth1 by lia. reflexivity.
  - apply Nat.leb_gt in E. apply nth_overflow. rewrite rev_length. lia.
Qed.
Lemma nth_hist0 xs n d : (n < length xs)%nat -> nth 0 (rev (firstn (S n) xs)) d = nth n xs 0.
Proof.
  intro Hn. rewrite (nth_hist d xs n 0 Hn). unfold xat. simpl. rewrite Nat.sub_0_r.
  apply nth_indep. exact Hn.
Qed.
