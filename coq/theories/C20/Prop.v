(* C20 - the proved statements, each closed by [exact] on a lemma of Proofs*.v.
   Statements are spelled out over Model.v / Spec.v only. *)
From Coq Require Import String List Bool Arith ZArith QArith Qcanon.
From AL Require Import Base.CaseLib C20.Model C20.Spec C20.Lib C20.ProofsMav.
Import ListNotations.
Open Scope Qc_scope.

(* ---------------------------------------------------------------- maverage *)
(* For every input list, window size >= 1, zero value and every value c of the
   constant 1./size: each strategy outputs, at every index n,
   c * (x[n] + ... + x[n-size+1]) with samples before 0 taken as `zero`
   (deque and recursive add the constant zero * (1 - size*c), the rounding
   residual of c, which vanishes when c = 1/size exactly or zero = 0). *)
Theorem C20_maverage_general : forall s c size zero xs, (1 <= size)%nat ->
  maverage s c size zero xs = Ok (mav_spec_off s c size zero xs).
Proof. exact maverage_general. Qed.
Print Assumptions C20_maverage_general.

(* With c = 1/size (or zero = 0) all three strategies agree with each other and
   with the formula, which is then the mean of the last size samples. *)
Theorem C20_maverage_agree : forall c size zero xs, (1 <= size)%nat -> nq size * c = 1 \/ zero = 0 ->
  forall s, maverage s c size zero xs = Ok (mav_spec c size zero xs).
Proof. exact maverage_agree. Qed.
Print Assumptions C20_maverage_agree.

Theorem C20_mav_formula_mean : forall c size zero xs n, nq size * c = 1 ->
  mav_formula c size zero xs n = sum_upto (xat zero xs n) size / nq size.
Proof. exact mav_formula_mean. Qed.
Print Assumptions C20_mav_formula_mean.

(* ---------------------------------------------------------------- accumulate *)
(* all three strategies: output n = x[0] + ... + x[n]; the empty input gives the empty output *)
Theorem C20_accumulate_running_sum : forall s xs, accumulate s xs = acc_spec xs.
Proof. exact accumulate_running_sum. Qed.
Print Assumptions C20_accumulate_running_sum.

(* Non-vacuity *)
Example C20_example_maverage :
  maverage MDeque (qc 1 3) 3 (qc 1 1) [qc 3 1; qc 6 1; qc (-3) 1; qc 9 1]
  = Ok [qc 5 3; qc 10 3; qc 2 1; qc 4 1].
Proof. vm_compute. reflexivity. Qed.
Print Assumptions C20_example_maverage.
