(* C20 - the proved statements, each closed by [exact] on a lemma of Proofs*.v.
   Statements are spelled out over Model.v (the code, line by line) and Spec.v
   (the defining formulas over sample indices) only.  All are for every input
   list (any length), every window size / lag / limit / threshold / step. *)
From Coq Require Import String List Bool Arith ZArith QArith Qcanon.
From AL Require Import Base.CaseLib C20.Model C20.Spec C20.Check C20.Lib.
From AL Require Import C20.ProofsMav C20.ProofsAmdf C20.ProofsEnv C20.ProofsClip C20.ProofsZc C20.ProofsUw.
From AL Require Import C20.ProofsLin C20.ProofsCheck C20.ProofsMulti C20.ProofsC04 C20.ProofsLive.
Import ListNotations.
Open Scope Qc_scope.

(* ---------------------------------------------------------------- maverage *)
(* For every input list, window size >= 1, zero value and every value c of the
   constant 1./size: each strategy outputs, at every index n,
   c * (x[n] + ... + x[n-size+1]) with samples before 0 taken as `zero`
   (deque and recursive add the constant zero * (1 - size*c), the rounding
   residual of c, which vanishes when c = 1/size exactly or zero = 0). *)
Theorem C20_maverage_general : forall s c size zero xs, (1 <= size)%nat ->
  maverage s c size zero xs = Ok (mav_spec_off s c size zero xs).
Proof. exact maverage_general. Qed.
Print Assumptions C20_maverage_general.

(* With c = 1/size (or zero = 0) all three strategies agree with each other and
   with the formula ... *)
Theorem C20_maverage_agree : forall c size zero xs, (1 <= size)%nat -> nq size * c = 1 \/ zero = 0 ->
  forall s, maverage s c size zero xs = Ok (mav_spec c size zero xs).
Proof. exact maverage_agree. Qed.
Print Assumptions C20_maverage_agree.

(* ... which for c = 1/size is the mean of the last size samples. *)
Theorem C20_mav_formula_mean : forall c size zero xs n, nq size * c = 1 ->
  mav_formula c size zero xs n = sum_upto (xat zero xs n) size / nq size.
Proof. exact mav_formula_mean. Qed.
Print Assumptions C20_mav_formula_mean.

Theorem C20_maverage_size0 : forall s c zero xs,
  maverage s c 0 zero xs = Err (match s with MFir => "TypeError" | _ => "ZeroDivisionError" end).
Proof. exact maverage_size0. Qed.
Print Assumptions C20_maverage_size0.

(* ---------------------------------------------------------------- accumulate *)
(* all three strategies: output n = x[0] + ... + x[n]; the empty input gives the empty output *)
Theorem C20_accumulate_running_sum : forall s xs, accumulate s xs = acc_spec xs.
Proof. exact accumulate_running_sum. Qed.
Print Assumptions C20_accumulate_running_sum.

(* ---------------------------------------------------------------- amdf *)
(* lag > 0 (integral, or fractional with linear interpolation between the two
   neighbouring lags), size >= 1, every c / zero / input: amdf is the moving
   average (deque strategy, same c and zero) of |x[n] - x[n-lag]|. *)
Theorem C20_amdf_spec : forall c size zero lag xs, (1 <= size)%nat -> 0 < lag ->
  amdf c size zero lag xs = Ok (amdf_spec c size zero lag xs).
Proof. exact amdf_is_spec. Qed.
Print Assumptions C20_amdf_spec.

(* lag = 0: with zero = 0 (the default) the formula still holds ... *)
Theorem C20_amdf_lag0_zero0 : forall c size xs, (1 <= size)%nat ->
  amdf c size 0 0 xs = Ok (amdf_spec c size 0 0 xs).
Proof. exact amdf_lag0_zero0. Qed.
Print Assumptions C20_amdf_lag0_zero0.

(* ... in general the code averages |zero| (all-zero filter convention) ... *)
Theorem C20_amdf_lag0 : forall c size zero xs, (1 <= size)%nat ->
  amdf c size zero 0 xs = Ok (mav_spec_off MDeque c size zero (map (fun _ => qabs zero) xs)).
Proof. exact amdf_lag0. Qed.
Print Assumptions C20_amdf_lag0.

(* ... which is not the formula when zero <> 0 (known finding C20-amdf-lag0-zero). *)
Theorem C20_amdf_lag0_refuted : exists c size zero xs, (1 <= size)%nat /\
  amdf c size zero 0 xs <> Ok (amdf_spec c size zero 0 xs).
Proof. exact amdf_lag0_refuted. Qed.
Print Assumptions C20_amdf_lag0_refuted.

(* ---------------------------------------------------------------- envelope *)
(* the one-pole low-pass recursion g / (1 + a1 z^-1) started at rest is
   y[n] = g * sum_{k<=n} (-a1)^(n-k) u[k] *)
Theorem C20_lowpass_closed_form : forall g a1 u, lowpass_call g a1 u = lowpass_spec g a1 u.
Proof. exact lowpass_call_spec. Qed.
Print Assumptions C20_lowpass_closed_form.

(* envelope.abs = lowpass(|x|), envelope.squared = lowpass(x^2),
   envelope.rms = the (symbolic) square root of lowpass(x^2), sample by sample *)
Theorem C20_envelope_is_lowpass : forall s g a1 xs, envelope s g a1 xs = envelope_spec s g a1 xs.
Proof. exact envelope_is_lowpass. Qed.
Print Assumptions C20_envelope_is_lowpass.

(* ---------------------------------------------------------------- clip *)
Theorem C20_clip_formula : forall low high xs, clip low high xs = clip_spec low high xs.
Proof. exact clip_eq_spec. Qed.
Print Assumptions C20_clip_formula.

Theorem C20_clip_bounds : forall low high xs ys, clip low high xs = Ok ys -> Forall (within low high) ys.
Proof. exact clip_bounds. Qed.
Print Assumptions C20_clip_bounds.

Theorem C20_clip_idempotent : forall low high xs ys, clip low high xs = Ok ys -> clip low high ys = Ok ys.
Proof. exact clip_idempotent. Qed.
Print Assumptions C20_clip_idempotent.

Theorem C20_clip_none_is_identity : forall xs, clip None None xs = Ok xs.
Proof. exact clip_none_is_identity. Qed.
Print Assumptions C20_clip_none_is_identity.

Theorem C20_clip_length : forall low high xs ys, clip low high xs = Ok ys -> length ys = length xs.
Proof. exact clip_length. Qed.
Print Assumptions C20_clip_length.

Theorem C20_clip_bad_limits : forall low high xs,
  clip low high xs = Err "ValueError" <-> exists l h, low = Some l /\ high = Some h /\ h < l.
Proof. exact clip_bad_limits. Qed.
Print Assumptions C20_clip_bad_limits.

Theorem C20_clip_total : forall low high xs,
  (exists ys, clip low high xs = Ok ys) \/ clip low high xs = Err "ValueError".
Proof. exact clip_total. Qed.
Print Assumptions C20_clip_total.

(* ---------------------------------------------------------------- zcross *)
Theorem C20_zcross_length : forall h fs xs, length (zcross h fs xs) = length xs.
Proof. exact zcross_length. Qed.
Print Assumptions C20_zcross_length.

Theorem C20_zcross_binary : forall h fs xs, Forall (fun y => y = 0%Z \/ y = 1%Z) (zcross h fs xs).
Proof. exact zcross_binary. Qed.
Print Assumptions C20_zcross_binary.

(* output n = zc_out n, defined from the recursively defined current sign zc_sign *)
Theorem C20_zcross_spec : forall h fs xs, zcross h fs xs = zcross_spec h fs xs.
Proof. exact zcross_eq_spec. Qed.
Print Assumptions C20_zcross_spec.

(* 1 exactly at samples beyond the threshold on the side opposite to the current sign *)
Theorem C20_zcross_one_iff : forall h fs xs n,
  zc_out h fs xs n = 1%Z <->
  zc_sign h fs xs n <> 0 /\ nth n xs 0 * zc_sign h fs xs n < - h.
Proof. exact zc_out_one_iff. Qed.
Print Assumptions C20_zcross_one_iff.

(* the current sign: starts as first_sign's sign (undefined for 0) ... *)
Theorem C20_zcross_sign_init : forall h fs xs,
  zc_sign h fs xs 0 = if Qc_eqb fs 0 then 0 else sgn fs.
Proof. exact zc_sign_init. Qed.
Print Assumptions C20_zcross_sign_init.

(* ... while undefined becomes the sign of the first sample outside [-h, h] ... *)
Theorem C20_zcross_sign_start : forall h fs xs n, zc_sign h fs xs n = 0 ->
  zc_sign h fs xs (S n) = if outside h (nth n xs 0) then sgn (nth n xs 0) else 0.
Proof. exact zc_sign_start. Qed.
Print Assumptions C20_zcross_sign_start.

(* ... flips exactly at the samples that output 1 (hysteresis >= 0) ... *)
Theorem C20_zcross_sign_flips : forall h fs xs n, 0 <= h -> zc_out h fs xs n = 1%Z ->
  zc_sign h fs xs (S n) = - zc_sign h fs xs n.
Proof. exact zc_sign_flips. Qed.
Print Assumptions C20_zcross_sign_flips.

(* ... and is kept at the samples that output 0. *)
Theorem C20_zcross_sign_kept : forall h fs xs n, zc_sign h fs xs n <> 0 -> zc_out h fs xs n = 0%Z ->
  zc_sign h fs xs (S n) = zc_sign h fs xs n.
Proof. exact zc_sign_kept. Qed.
Print Assumptions C20_zcross_sign_kept.

(* ---------------------------------------------------------------- unwrap *)
(* step <> 0: no exception, one output per input *)
Theorem C20_unwrap_no_error : forall md step xs, step <> 0 -> snd (unwrap md step xs) = false.
Proof. exact unwrap_no_error. Qed.
Print Assumptions C20_unwrap_no_error.

Theorem C20_unwrap_length : forall md step xs, step <> 0 ->
  length (fst (unwrap md step xs)) = length xs.
Proof. exact unwrap_length. Qed.
Print Assumptions C20_unwrap_length.

(* samples change only by integer multiples of step *)
Theorem C20_unwrap_multiple_of_step : forall md step xs, step <> 0 ->
  Forall2 (fun o x => is_multiple step (o - x)) (fst (unwrap md step xs)) xs.
Proof. exact unwrap_multiple_of_step. Qed.
Print Assumptions C20_unwrap_multiple_of_step.

(* a sequence with no adjacent jump above max_delta is left untouched *)
Theorem C20_unwrap_identity_below_max_delta : forall md step xs, step <> 0 -> no_jump md xs ->
  fst (unwrap md step xs) = xs.
Proof. exact unwrap_identity_below_max_delta. Qed.
Print Assumptions C20_unwrap_identity_below_max_delta.

(* step > 0: no adjacent output jump above max(max_delta, step/2) *)
Theorem C20_unwrap_jump_bound : forall md step xs, 0 < step ->
  jumps_le (qmax md (half step)) (fst (unwrap md step xs)).
Proof. exact unwrap_jump_bound. Qed.
Print Assumptions C20_unwrap_jump_bound.

(* ---------------------------------------------------------------- non-vacuity
   (list equalities are stated through the boolean equality of Check.v, which
   compares the rational values; [rqlist_eqb a b = true <-> a = b]) *)
Example C20_example_maverage :
  rqlist_eqb (maverage MDeque (qc 1 3) 3 (qc 1 1) [qc 3 1; qc 6 1; qc (-3) 1; qc 9 1])
             (Ok [qc 5 3; qc 10 3; qc 2 1; qc 4 1]) = true
  /\ Qc_eqb (nq 3 * qc 1 3) 1 = true.
Proof. split; vm_compute; reflexivity. Qed.
Print Assumptions C20_example_maverage.

(* lag 3/2, size 2: |x[n] - (x[n-1] + x[n-2])/2| averaged over two samples, zero = 1 *)
Example C20_example_amdf :
  rqlist_eqb (amdf (qc 1 2) 2 (qc 1 1) (qc 3 2) [qc 4 1; qc 0 1; qc 7 1])
             (Ok [qc 2 1; qc 11 4; qc 15 4]) = true
  /\ Qc_ltb 0 (qc 3 2) = true.
Proof. split; vm_compute; reflexivity. Qed.
Print Assumptions C20_example_amdf.

Example C20_example_clip :
  rqlist_eqb (clip (Some (qc (-1) 1)) None [qc (-3) 1; qc 1 2; qc 5 1])
             (Ok [qc (-1) 1; qc 1 2; qc 5 1]) = true.
Proof. vm_compute. reflexivity. Qed.
Print Assumptions C20_example_clip.

(* hysteresis 1/2, first_sign 0: the sign is found at the sample 1, the crossing
   is reported at -1 (not at -1/4, inside the band) and again at 3 *)
Definition C20_zc_xs : list Qc := [qc 1 4; qc 1 1; qc (-1) 4; qc (-1) 1; qc 0 1; qc 3 1].
Example C20_example_zcross :
  zcross (qc 1 2) 0 C20_zc_xs = [0; 0; 0; 1; 0; 1]%Z
  /\ Qc_leb 0 (qc 1 2) = true
  /\ zc_out (qc 1 2) 0 C20_zc_xs 3 = 1%Z
  /\ Qc_eqb (zc_sign (qc 1 2) 0 C20_zc_xs 3) 0 = false
  /\ Qc_eqb (zc_sign (qc 1 2) 0 C20_zc_xs 0) 0 = true.
Proof. repeat split; vm_compute; reflexivity. Qed.
Print Assumptions C20_example_zcross.

(* max_delta 1, step 2: the jump 0 -> 4 is unwrapped to 0 -> 0, the tie 1/2 -> 3/2 (jump exactly
   1 = step/2) is kept; a jump-free input is returned unchanged *)
Example C20_example_unwrap :
  qlist_eqb (fst (unwrap 1 (qc 2 1) [0; qc 4 1; qc 9 2; qc 11 2; qc 1 1])) [0; 0; qc 1 2; qc 3 2; qc 1 1] = true
  /\ snd (unwrap 1 (qc 2 1) [0; qc 4 1; qc 9 2; qc 11 2; qc 1 1]) = false
  /\ Qc_ltb 0 (qc 2 1) = true
  /\ no_jump_b 1 [0; qc 1 2; qc 3 2; qc 1 1] = true
  /\ no_jump_b 1 [0; qc 4 1; qc 9 2; qc 11 2; qc 1 1] = false.
Proof. repeat split; vm_compute; reflexivity. Qed.
Print Assumptions C20_example_unwrap.

(* ---------------------------------------------------------------- linearity (symbolic samples) *)
(* maverage (every strategy, every c) and accumulate are linear in (zero, samples):
   a run on symbolic samples (LinForm) determines the output for every sample value *)
Theorem C20_maverage_linear : forall s c size a b z1 z2 xs ys, (1 <= size)%nat -> length xs = length ys ->
  maverage s c size (a * z1 + b * z2) (lcomb a b xs ys)
  = Ok (lcomb a b (mav_spec_off s c size z1 xs) (mav_spec_off s c size z2 ys)).
Proof. exact maverage_linear. Qed.
Print Assumptions C20_maverage_linear.

Theorem C20_accumulate_linear : forall s a b xs ys, length xs = length ys ->
  accumulate s (lcomb a b xs ys) = lcomb a b (accumulate s xs) (accumulate s ys).
Proof. exact accumulate_linear. Qed.
Print Assumptions C20_accumulate_linear.

(* ---------------------------------------------------------------- the boolean tests of Check.v *)
Theorem C20_within_b_spec : forall low high y, within_b low high y = true <-> within low high y.
Proof. exact within_b_spec. Qed.
Print Assumptions C20_within_b_spec.

Theorem C20_no_jump_b_spec : forall md xs, no_jump_b md xs = true <-> no_jump md xs.
Proof. exact no_jump_b_spec. Qed.
Print Assumptions C20_no_jump_b_spec.

Theorem C20_is_multiple_b_spec : forall step d, step <> 0 ->
  is_multiple_b step d = true <-> is_multiple step d.
Proof. exact is_multiple_b_spec. Qed.
Print Assumptions C20_is_multiple_b_spec.

Theorem C20_rqlist_eqb_spec : forall a b, rqlist_eqb a b = true <-> a = b.
Proof. exact rqlist_eqb_spec. Qed.
Print Assumptions C20_rqlist_eqb_spec.

Theorem C20_holds_env_sound : forall c, holds_env c = true ->
  ev_obs c = Ok (envelope_spec (ev_s c) (ev_g c) (ev_a1 c) (ev_xs c)).
Proof. exact holds_env_sound. Qed.
Print Assumptions C20_holds_env_sound.

(* empty inputs give empty outputs (accumulate.func / unwrap: since commit afb6835) *)
Theorem C20_accumulate_empty : forall s, accumulate s [] = [].
Proof. exact accumulate_empty. Qed.
Print Assumptions C20_accumulate_empty.

Theorem C20_unwrap_empty : forall md step, unwrap md step [] = ([], false).
Proof. exact unwrap_empty. Qed.
Print Assumptions C20_unwrap_empty.

(* ---------------------------------------------------------------- calls share no state *)
(* any loop "for el in sig: <update own state>; yield" (a Mealy machine): when several
   such streams are alive at once and pulled in ANY interleaved order, the values
   delivered by stream i are the prefix (as long as its number of pulls) of what a
   single uninterrupted run over its own input yields *)
Theorem C20_calls_independent : forall (St B : Type) (step : St -> Qc -> St * B) ops sts i st,
  nth_error sts i = Some st ->
  outputs_of B i (sched St B step ops sts)
  = firstn (count_occ Nat.eq_dec ops i) (mealy step (fst st) (snd st)).
Proof. exact sched_independent. Qed.
Print Assumptions C20_calls_independent.

(* instance: the streams one maverage.deque(size) callable makes from inputs (zero_k, xs_k) *)
Theorem C20_maverage_deque_calls_independent : forall c size ops (ins : list (Qc * list Qc)) i zero xs,
  nth_error ins i = Some (zero, xs) ->
  outputs_of _ i (sched _ _ (deque_step c) ops
                    (map (fun p => ((repeat (fst p * c) size, fst p), snd p)) ins))
  = firstn (count_occ Nat.eq_dec ops i) (mav_deque c size zero xs).
Proof. exact mav_deque_calls_independent. Qed.
Print Assumptions C20_maverage_deque_calls_independent.

(* ---------------------------------------------------------------- tie to C04's model of LinearFilter.__call__
   M4 = AL.C04.Model: [M4.run_filter b a mem zero xs] is list(ZFilter(b, a)(xs, memory=mem, zero=zero)) as C04
   models it (string builder [codegen] + interpreter of the generated loop).  For every filter-based tool the
   C20 model's output IS C04's output on the coefficient lists the tool builds; proved from C04's
   difference-equation theorem (C04.ProofsCtor.lists_diffeq = C04_lists_diffeq) and uniqueness of the solution. *)
Theorem C20_maverage_fir_is_c04_filter : forall c size zero xs, c <> 0 -> (1 <= size)%nat ->
  M4.run_filter (repeat c size) [1] M4.MNone zero xs = M4.Ok (mav_fir c size zero xs).
Proof. exact maverage_fir_is_c04_filter. Qed.
Print Assumptions C20_maverage_fir_is_c04_filter.

(* (1./size) * (1 - z^-size) / (1 - z^-1): b = [c; 0; ...; 0; -c], a = [1; -1], memory None -> [zero] *)
Theorem C20_maverage_recursive_is_c04_filter : forall c size zero xs, (1 <= size)%nat ->
  M4.run_filter ([c] ++ repeat 0 (size - 1) ++ [- c]) [1; - (1)] M4.MNone zero xs
  = M4.Ok (mav_recursive c size zero xs).
Proof. exact maverage_recursive_is_c04_filter. Qed.
Print Assumptions C20_maverage_recursive_is_c04_filter.

Theorem C20_lowpass_is_c04_filter : forall g a1 u, g <> 0 \/ a1 <> 0 ->
  M4.run_filter [g] [1; a1] M4.MNone 0 u = M4.Ok (lowpass_call g a1 u).
Proof. exact lowpass_is_c04_filter. Qed.
Print Assumptions C20_lowpass_is_c04_filter.

Theorem C20_envelope_is_c04_filter : forall s g a1 xs, g <> 0 \/ a1 <> 0 ->
  exists ys,
    M4.run_filter [g] [1; a1] M4.MNone 0
      (match s with EAbs => map qabs xs | _ => map (fun v => v * v) xs end) = M4.Ok ys
    /\ envelope s g a1 xs = match s with ERms => map Sqrt ys | _ => map Plain ys end.
Proof. exact envelope_is_c04_filter. Qed.
Print Assumptions C20_envelope_is_c04_filter.

Theorem C20_accumulate_z_is_c04_filter : forall xs,
  M4.run_filter [1] [1; - (1)] M4.MNone 0 xs = M4.Ok (accumulate AZ xs).
Proof. exact accumulate_z_is_c04_filter. Qed.
Print Assumptions C20_accumulate_z_is_c04_filter.

(* amdf: C04's filter for (1 - z^-lag).linearize() (coefficient list lag_b), abs, deque moving average *)
Theorem C20_amdf_is_c04_filter : forall c size zero lag xs, (1 <= size)%nat -> 0 <= lag ->
  exists ys, M4.run_filter (lag_b (lagspec_of lag)) [1] M4.MNone zero xs = M4.Ok ys
             /\ amdf c size zero lag xs = Ok (mav_deque c size zero (map qabs ys)).
Proof. exact amdf_is_c04_filter. Qed.
Print Assumptions C20_amdf_is_c04_filter.

(* the formula as a COROLLARY of C04's difference-equation theorem (no C20 model involved):
   whatever C04's generated loop outputs for b = [c]*size, a = [1] is c * (sum of the last size samples) *)
Theorem C20_fir_formula_from_c04 : forall c size zero xs ys, c <> 0 -> (1 <= size)%nat ->
  M4.run_filter (repeat c size) [1] M4.MNone zero xs = M4.Ok ys -> ys = mav_spec c size zero xs.
Proof. exact fir_formula_from_c04. Qed.
Print Assumptions C20_fir_formula_from_c04.

(* non-vacuity: C04's interpreter run on the maverage.fir coefficients, size 3, zero 1 *)
Example C20_example_c04_fir :
  match M4.run_filter (repeat (qc 1 3) 3) [1] M4.MNone (qc 1 1) [qc 3 1; qc 6 1; qc (-3) 1; qc 9 1] with
  | M4.Ok ys => qlist_eqb ys [qc 5 3; qc 10 3; qc 2 1; qc 4 1]
  | M4.Err _ => false
  end = true /\ Qc_eqb (qc 1 3) 0 = false.
Proof. split; vm_compute; reflexivity. Qed.
Print Assumptions C20_example_c04_fir.

(* ---------------------------------------------------------------- incremental use on live sources
   Every tool (one call, as Check.multi_model runs it: maverage x3, amdf, envelope x3, clip, zcross,
   unwrap, accumulate x3) is causal: its first k outputs are its outputs on the first k inputs.  So on
   a source whose items are fixed only when read, output n pulled after n+1 reads is the tool's formula
   on the items read so far, and item n+1 is not needed for output n (read one, emit one). *)
Theorem C20_tools_causal : forall t zero xs ys k,
  multi_model t zero xs = Ok ys -> multi_model t zero (firstn k xs) = Ok (firstn k ys).
Proof. exact multi_model_causal. Qed.
Print Assumptions C20_tools_causal.

(* long-run family: its linear-time checker is the multi-use checker *)
Theorem C20_holds_long_eq : forall c, holds_long c = holds_multi c.
Proof. exact holds_long_eq. Qed.
Print Assumptions C20_holds_long_eq.
