(* C20 - the defining formulas, written over sample indices and independent of
   the models' internal state (registers, deques, running sums, flags). *)
From Coq Require Import String List Bool Arith ZArith QArith Qcanon.
From AL Require Import Base.CaseLib C20.Model.
Import ListNotations.
Open Scope Qc_scope.

(* sum_{j < k} f j *)
Fixpoint sum_upto (f : nat -> Qc) (k : nat) : Qc :=
  match k with O => 0 | S k' => sum_upto f k' + f k' end.

(* x[n - j], samples before index 0 taken as `zero` *)
Definition xat (zero : Qc) (xs : list Qc) (n j : nat) : Qc :=
  if (j <=? n)%nat then nth (n - j) xs zero else zero.

(* "output n = F n for every input index n" *)
Definition tabulate {B : Type} (F : nat -> B) (xs : list Qc) : list B := map F (seq 0 (length xs)).

(* ---------------------------------------------------------------- maverage *)
(* c * (sum of the last `size` samples); with c = 1/size: their mean *)
Definition mav_formula (c : Qc) (size : nat) (zero : Qc) (xs : list Qc) (n : nat) : Qc :=
  c * sum_upto (xat zero xs n) size.
Definition mav_spec (c : Qc) (size : nat) (zero : Qc) (xs : list Qc) : list Qc :=
  tabulate (mav_formula c size zero xs) xs.
(* Rounding residual of the library constant c = fl(1/size): the deque and the
   recursive strategies start their running value at `zero` (not at c*size*zero),
   so they carry the constant offset zero * (1 - size*c), which is 0 when
   c*size = 1 (exact 1/size, or size a power of two) or zero = 0. *)
Definition mav_resid (c : Qc) (size : nat) (zero : Qc) : Qc := zero * (1 - nq size * c).
Definition mav_offset (s : mav_strategy) (c : Qc) (size : nat) (zero : Qc) : Qc :=
  match s with MFir => 0 | _ => mav_resid c size zero end.
Definition mav_spec_off (s : mav_strategy) (c : Qc) (size : nat) (zero : Qc) (xs : list Qc) : list Qc :=
  map (fun v => v + mav_offset s c size zero) (mav_spec c size zero xs).
(* c is 1/size up to one float rounding: |1 - size*c| <= 2^-53 *)
Definition rounded_inverse (c : Qc) (size : nat) : bool :=
  Qc_leb (qabs (1 - nq size * c)) (qc 1 9007199254740992).

(* ---------------------------------------------------------------- accumulate *)
Definition acc_spec (xs : list Qc) : list Qc :=
  tabulate (fun n => sum_upto (fun k => nth k xs 0) (S n)) xs.

(* ---------------------------------------------------------------- amdf *)
(* x[n - lag]; for a fractional lag the linear interpolation between the two
   neighbouring integral lags floor(lag) and floor(lag)+1 *)
Definition frac_part (lag : Qc) : Qc := lag - zq (qfloor lag).
Definition xlag (zero : Qc) (xs : list Qc) (n : nat) (lag : Qc) : Qc :=
  let l := Z.to_nat (qfloor lag) in
  (1 - frac_part lag) * xat zero xs n l + frac_part lag * xat zero xs n (S l).
(* |x[n] - x[n-lag]| *)
Definition absdiff (zero : Qc) (lag : Qc) (xs : list Qc) : list Qc :=
  tabulate (fun n => qabs (nth n xs 0 - xlag zero xs n lag)) xs.
(* its moving average (amdf uses the default strategy of maverage) *)
Definition amdf_spec (c : Qc) (size : nat) (zero : Qc) (lag : Qc) (xs : list Qc) : list Qc :=
  mav_spec_off MDeque c size zero (absdiff zero lag xs).

(* ---------------------------------------------------------------- envelope *)
(* one-pole low-pass g / (1 + a1 z^-1) started at rest:
   y[n] = g * sum_{k <= n} (-a1)^(n-k) u[k] *)
Definition lowpass_formula (g a1 : Qc) (u : list Qc) (n : nat) : Qc :=
  g * sum_upto (fun k => (- a1) ^ (n - k) * nth k u 0) (S n).
Definition lowpass_spec (g a1 : Qc) (u : list Qc) : list Qc := tabulate (lowpass_formula g a1 u) u.
Definition envelope_spec (s : env_strategy) (g a1 : Qc) (xs : list Qc) : list eout :=
  match s with
  | EAbs => map Plain (lowpass_spec g a1 (map qabs xs))
  | ESquared => map Plain (lowpass_spec g a1 (map (fun v => v ^ 2) xs))
  | ERms => map Sqrt (lowpass_spec g a1 (map (fun v => v ^ 2) xs))
  end.

(* ---------------------------------------------------------------- clip *)
Definition qmin (a b : Qc) : Qc := if Qc_leb a b then a else b.
Definition qmax (a b : Qc) : Qc := if Qc_leb a b then b else a.
Definition clip_formula (low high : option Qc) (x : Qc) : Qc :=
  let y := match low with Some l => qmax x l | None => x end in
  match high with Some h => qmin y h | None => y end.
Definition limits_ok (low high : option Qc) : bool :=
  match low, high with Some l, Some h => Qc_leb l h | _, _ => true end.
Definition clip_spec (low high : option Qc) (xs : list Qc) : res (list Qc) :=
  if limits_ok low high then Ok (map (clip_formula low high) xs) else Err "ValueError".
Definition within (low high : option Qc) (y : Qc) : Prop :=
  (forall l, low = Some l -> l <= y) /\ (forall h, high = Some h -> y <= h).

(* ---------------------------------------------------------------- zcross *)
Definition outside (h x : Qc) : bool := Qc_ltb h x || Qc_ltb x (- h).
(* the current sign before sample n is read; 0 = not yet defined.
   It starts as the sign of first_sign (0: undefined); while undefined it becomes
   the sign of the first sample outside the band [-h, h]; once defined it flips
   exactly at the samples with x * sign < -h (beyond the threshold on the
   opposite side). *)
Fixpoint zc_sign (h first_sign : Qc) (xs : list Qc) (n : nat) : Qc :=
  match n with
  | O => if Qc_eqb first_sign 0 then 0 else sgn first_sign
  | S m =>
      let s := zc_sign h first_sign xs m in
      let x := nth m xs 0 in
      if Qc_eqb s 0 then (if outside h x then sgn x else 0)
      else if Qc_ltb (x * s) (- h) then sgn x else s
  end.
(* 1 exactly when the sign is defined and x[n] * sign_n < -hysteresis *)
Definition zc_out (h first_sign : Qc) (xs : list Qc) (n : nat) : Z :=
  let s := zc_sign h first_sign xs n in
  if negb (Qc_eqb s 0) && Qc_ltb (nth n xs 0 * s) (- h) then 1%Z else 0%Z.
Definition zcross_spec (h first_sign : Qc) (xs : list Qc) : list Z :=
  tabulate (zc_out h first_sign xs) xs.

(* ---------------------------------------------------------------- unwrap *)
Definition is_multiple (step d : Qc) : Prop := exists k : Z, d = zq k * step.
(* no adjacent input jump above max_delta *)
Fixpoint no_jump (max_delta : Qc) (xs : list Qc) : Prop :=
  match xs with
  | a :: ((b :: _) as r) => qabs (b - a) <= max_delta /\ no_jump max_delta r
  | _ => True
  end.
(* every adjacent difference is at most `bound` in absolute value *)
Definition jumps_le (bound : Qc) (ys : list Qc) : Prop := no_jump bound ys.
Definition half (x : Qc) : Qc := x / (1 + 1).

(* ---------------------------------------------------------------- linearity *)
(* a * xs + b * ys, sample by sample *)
Fixpoint lcomb (a b : Qc) (xs ys : list Qc) : list Qc :=
  match xs, ys with
  | x :: xs', y :: ys' => (a * x + b * y) :: lcomb a b xs' ys'
  | _, _ => []
  end.
