(* C20 - case records and boolean checkers for the generated case files.
   corr_f : implementation's observation = model's output
   holds_f : implementation's observation satisfies the defining formula (Spec.v);
             on inputs the property text says nothing about (size 0, negative
             lag, step <= 0, high < low apart from the error itself) holds_f
             demands nothing: there only corr_f ties model and code. *)
From Coq Require Import String List Bool Arith ZArith QArith Qcanon.
From AL Require Import Base.CaseLib C20.Model C20.Spec.
Import ListNotations.
Open Scope Qc_scope.

Definition qlist_eqb := list_eqb Qc_eqb.
Definition res_eqb {A : Type} (e : A -> A -> bool) (a b : res A) : bool :=
  match a, b with
  | Ok x, Ok y => e x y
  | Err x, Err y => String.eqb x y
  | _, _ => false
  end.
Definition rqlist_eqb := res_eqb qlist_eqb.

(* ---------------------------------------------------------------- maverage *)
Record mvcase := MV { mv_s : mav_strategy; mv_c : Qc; mv_size : nat; mv_zero : Qc;
                      mv_xs : list Qc; mv_obs : res (list Qc) }.
Definition corr_mav (c : mvcase) : bool :=
  rqlist_eqb (mv_obs c) (maverage (mv_s c) (mv_c c) (mv_size c) (mv_zero c) (mv_xs c)).
(* size >= 1: the output is c * (sum of the last size samples) (+ the rounding
   residual of c for deque/recursive), and c is 1/size up to one float rounding *)
Definition holds_mav (c : mvcase) : bool :=
  match mv_size c with
  | O => true
  | _ => rqlist_eqb (mv_obs c) (Ok (mav_spec_off (mv_s c) (mv_c c) (mv_size c) (mv_zero c) (mv_xs c)))
         && rounded_inverse (mv_c c) (mv_size c)
  end.

(* ---------------------------------------------------------------- accumulate *)
Record accase := AC { ac_s : acc_strategy; ac_xs : list Qc; ac_obs : res (list Qc) }.
Definition corr_acc (c : accase) : bool := rqlist_eqb (ac_obs c) (Ok (accumulate (ac_s c) (ac_xs c))).
Definition holds_acc (c : accase) : bool := rqlist_eqb (ac_obs c) (Ok (acc_spec (ac_xs c))).

(* ---------------------------------------------------------------- linear tools on symbolic samples
   The implementation was run on LinForm samples x0..x{L-1} and zero = z; row n
   of the observation holds the coefficients of output n: [constant; z; x0; ...].
   Column v must be the model's (spec's) output on the v-th basis input. *)
Inductive lintool := LMav (s : mav_strategy) (c : Qc) (size : nat) | LAcc (s : acc_strategy).
Record lincase := LC { lc_tool : lintool; lc_len : nat; lc_obs : res (list (list Qc)) }.
Definition unit_at (L j : nat) : list Qc := map (fun i => if (i =? j)%nat then 1 else 0) (seq 0 L).
(* basis input number v: 0 = everything 0 (constant term), 1 = zero, v >= 2 = x{v-2} *)
Definition basis_zero (v : nat) : Qc := if (v =? 1)%nat then 1 else 0.
Definition basis_xs (L v : nat) : list Qc := unit_at L (v - 2 + (if (v <? 2)%nat then L else 0)).
Definition lin_model (t : lintool) (zero : Qc) (xs : list Qc) : res (list Qc) :=
  match t with
  | LMav s c size => maverage s c size zero xs
  | LAcc s => Ok (accumulate s xs)
  end.
Definition lin_spec (t : lintool) (zero : Qc) (xs : list Qc) : res (list Qc) :=
  match t with
  | LMav s c size => Ok (mav_spec_off s c size zero xs)
  | LAcc s => Ok (acc_spec xs)
  end.
Definition lin_check (f : lintool -> Qc -> list Qc -> res (list Qc)) (c : lincase) : bool :=
  match lc_obs c with
  | Err e => res_eqb qlist_eqb (Err e) (f (lc_tool c) 0 (repeat 0 (lc_len c)))
  | Ok rows =>
      forallb (fun row => (length row =? lc_len c + 2)%nat) rows &&
      forallb (fun v => res_eqb qlist_eqb (Ok (map (fun row => nth v row 0) rows))
                                (f (lc_tool c) (basis_zero v) (basis_xs (lc_len c) v)))
              (seq 0 (lc_len c + 2))
  end.
Definition corr_lin (c : lincase) : bool := lin_check lin_model c.
Definition holds_lin (c : lincase) : bool :=
  match lc_tool c with
  | LMav _ _ O => true
  | LMav _ cc size => lin_check lin_spec c && rounded_inverse cc size
  | _ => lin_check lin_spec c
  end.

(* ---------------------------------------------------------------- amdf *)
Record amcase := AM { am_c : Qc; am_size : nat; am_zero : Qc; am_lag : Qc;
                      am_xs : list Qc; am_obs : res (list Qc) }.
Definition corr_amdf (c : amcase) : bool :=
  rqlist_eqb (am_obs c) (amdf (am_c c) (am_size c) (am_zero c) (am_lag c) (am_xs c)).
Definition holds_amdf (c : amcase) : bool :=
  match am_size c with
  | O => true
  | _ => if Qc_ltb (am_lag c) 0 then true
         else rqlist_eqb (am_obs c) (Ok (amdf_spec (am_c c) (am_size c) (am_zero c) (am_lag c) (am_xs c)))
              && rounded_inverse (am_c c) (am_size c)
  end.

(* ---------------------------------------------------------------- envelope *)
Definition eout_eqb (a b : eout) : bool :=
  match a, b with
  | Plain x, Plain y => Qc_eqb x y
  | Sqrt x, Sqrt y => Qc_eqb x y
  | _, _ => false
  end.
(* ev_direct: what lowpass(cutoff) itself returned on the rectified / squared
   samples (computed by the harness with a second, direct filter call) *)
(* ev_cw: cos(cutoff) (the harness's own float, exact value).  The documented contract of
   lowpass(cutoff) = g / (1 + a1 z^-1): unit gain at DC, g = 1 + a1, and half the power at the
   cut-off frequency, 2 g^2 = |1 + a1 e^-jw|^2 = 1 + 2 a1 cos w + a1^2; both within 1e-9 (floats). *)
Definition lp_tol : Qc := qc 1 1000000000.
Definition lp_contract (g a1 cw : Qc) : bool :=
  Qc_leb (qabs (g - (1 + a1))) lp_tol
  && Qc_leb (qabs ((1 + 1) * g * g - (1 + (1 + 1) * a1 * cw + a1 * a1))) lp_tol.
Record evcase := EV { ev_s : env_strategy; ev_g : Qc; ev_a1 : Qc; ev_cw : Qc; ev_xs : list Qc;
                      ev_direct : list Qc; ev_obs : res (list eout) }.
Definition corr_env (c : evcase) : bool :=
  res_eqb (list_eqb eout_eqb) (ev_obs c) (Ok (envelope (ev_s c) (ev_g c) (ev_a1 c) (ev_xs c))).
Definition env_wrap (s : env_strategy) (l : list Qc) : list eout :=
  match s with ERms => map Sqrt l | _ => map Plain l end.
Definition env_input (s : env_strategy) (xs : list Qc) : list Qc :=
  match s with EAbs => map qabs xs | _ => map (fun v => v ^ 2) xs end.
(* the envelope is the library's low-pass applied to |x| / x^2 (then sqrt for rms),
   and that low-pass is the one-pole recursion's closed form *)
Definition holds_env (c : evcase) : bool :=
  res_eqb (list_eqb eout_eqb) (ev_obs c) (Ok (env_wrap (ev_s c) (ev_direct c)))
  && qlist_eqb (ev_direct c) (lowpass_spec (ev_g c) (ev_a1 c) (env_input (ev_s c) (ev_xs c)))
  && lp_contract (ev_g c) (ev_a1 c) (ev_cw c).
(* (the two conjuncts together say  obs = envelope_spec s g a1 xs) *)

(* ---------------------------------------------------------------- clip *)
Record clcase := CL { cl_low : option Qc; cl_high : option Qc; cl_xs : list Qc;
                      cl_obs : res (list Qc) }.
Definition corr_clip (c : clcase) : bool := rqlist_eqb (cl_obs c) (clip (cl_low c) (cl_high c) (cl_xs c)).
Definition within_b (low high : option Qc) (y : Qc) : bool :=
  match low with Some l => Qc_leb l y | None => true end &&
  match high with Some h => Qc_leb y h | None => true end.
(* formula, bounds, idempotence (re-clipping the observed output by the formula
   changes nothing), identity for (None, None), error exactly for high < low *)
Definition holds_clip (c : clcase) : bool :=
  rqlist_eqb (cl_obs c) (clip_spec (cl_low c) (cl_high c) (cl_xs c)) &&
  match cl_obs c with
  | Ok ys => forallb (within_b (cl_low c) (cl_high c)) ys
             && qlist_eqb (map (clip_formula (cl_low c) (cl_high c)) ys) ys
             && (length ys =? length (cl_xs c))%nat
             && match cl_low c, cl_high c with None, None => qlist_eqb ys (cl_xs c) | _, _ => true end
  | Err _ => match cl_low c, cl_high c with Some l, Some h => Qc_ltb h l | _, _ => false end
  end.

(* ---------------------------------------------------------------- zcross *)
Record zccase := ZC { zc_h : Qc; zc_fs : Qc; zc_xs : list Qc; zc_obs : res (list Z) }.
Definition corr_zc (c : zccase) : bool :=
  res_eqb (list_eqb Z.eqb) (zc_obs c) (Ok (zcross (zc_h c) (zc_fs c) (zc_xs c))).
Definition holds_zc (c : zccase) : bool :=
  res_eqb (list_eqb Z.eqb) (zc_obs c) (Ok (zcross_spec (zc_h c) (zc_fs c) (zc_xs c))) &&
  match zc_obs c with
  | Ok ys => forallb (fun y => Z.eqb y 0 || Z.eqb y 1) ys && (length ys =? length (zc_xs c))%nat
  | Err _ => false
  end.

(* ---------------------------------------------------------------- unwrap *)
(* obs: outputs produced, and the exception that then ended the stream (if any) *)
Record uwcase := UW { uw_md : Qc; uw_step : Qc; uw_xs : list Qc; uw_obs : list Qc;
                      uw_err : option string }.
Definition corr_uw (c : uwcase) : bool :=
  let '(o, e) := unwrap (uw_md c) (uw_step c) (uw_xs c) in
  qlist_eqb (uw_obs c) o &&
  option_eqb String.eqb (uw_err c) (if e then Some "ZeroDivisionError"%string else None).
Definition is_multiple_b (step d : Qc) : bool :=
  if Qc_eqb step 0 then Qc_eqb d 0 else Pos.eqb (Qden (this (d / step))) 1.
Fixpoint no_jump_b (md : Qc) (xs : list Qc) : bool :=
  match xs with
  | a :: ((b :: _) as r) => Qc_leb (qabs (b - a)) md && no_jump_b md r
  | _ => true
  end.
Fixpoint all2 (f : Qc -> Qc -> bool) (a b : list Qc) : bool :=
  match a, b with
  | [], [] => true
  | x :: a', y :: b' => f x y && all2 f a' b'
  | _, _ => false
  end.
(* step > 0: no exception, one output per input, each differing from the input by an
   integer multiple of step; untouched when no input jump exceeds max_delta; no
   adjacent output jump above max(max_delta, step/2).  step <= 0: nothing demanded. *)
Definition holds_uw (c : uwcase) : bool :=
  if Qc_ltb 0 (uw_step c) then
    match uw_err c with None => true | Some _ => false end
    && all2 (fun o x => is_multiple_b (uw_step c) (o - x)) (uw_obs c) (uw_xs c)
    && (if no_jump_b (uw_md c) (uw_xs c) then qlist_eqb (uw_obs c) (uw_xs c) else true)
    && no_jump_b (qmax (uw_md c) (half (uw_step c))) (uw_obs c)
  else true.

(* ---------------------------------------------------------------- multi-use histories
   ONE tool object (the callable returned by maverage(size) / amdf(lag, size), a
   filter object, or the function itself) applied to several inputs, the lazy
   output streams pulled in an interleaved order chosen by the harness.
   mu_obs: what each stream produced (envelope.rms through the argument of its
   symbolic root, zcross through the injection of its integers).  Every stream
   must equal the tool's formula on ITS OWN input: calls share no state. *)
Inductive mtool :=
  | TMav (s : mav_strategy) (c : Qc) (size : nat)
  | TAmdf (c : Qc) (size : nat) (lag : Qc)
  | TEnv (s : env_strategy) (g a1 : Qc)
  | TClip (low high : option Qc)
  | TZc (h fs : Qc)
  | TUw (md step : Qc)
  | TAcc (s : acc_strategy).
Definition env_vals (l : list eout) : list Qc :=
  map (fun e => match e with Plain v => v | Sqrt v => v end) l.
(* one call of the tool (per-call state only) *)
Definition multi_model (t : mtool) (zero : Qc) (xs : list Qc) : res (list Qc) :=
  match t with
  | TMav s c size => maverage s c size zero xs
  | TAmdf c size lag => amdf c size zero lag xs
  | TEnv s g a1 => Ok (env_vals (envelope s g a1 xs))
  | TClip lo hi => clip lo hi xs
  | TZc h fs => Ok (map zq (zcross h fs xs))
  | TUw md step => let '(o, e) := unwrap md step xs in if e then Err "ZeroDivisionError" else Ok o
  | TAcc s => Ok (accumulate s xs)
  end.
(* the formula of one call, checked on the observation of that call *)
Definition multi_holds1 (t : mtool) (zero : Qc) (xs : list Qc) (obs : res (list Qc)) : bool :=
  match t with
  | TMav s c size => holds_mav (MV s c size zero xs obs)
  | TAmdf c size lag => holds_amdf (AM c size zero lag xs obs)
  | TEnv s g a1 => rqlist_eqb obs (Ok (env_vals (envelope_spec s g a1 xs)))
  | TClip lo hi => holds_clip (CL lo hi xs obs)
  | TZc h fs => rqlist_eqb obs (Ok (map zq (zcross_spec h fs xs)))
  | TUw md step => match obs with
                   | Ok o => holds_uw (UW md step xs o None)
                   | Err e => holds_uw (UW md step xs [] (Some e))
                   end
  | TAcc s => rqlist_eqb obs (Ok (acc_spec xs))
  end.
Record mucase := MU { mu_tool : mtool; mu_ins : list (Qc * list Qc); mu_obs : list (res (list Qc)) }.
Definition corr_multi (c : mucase) : bool :=
  list_eqb rqlist_eqb (mu_obs c) (map (fun p => multi_model (mu_tool c) (fst p) (snd p)) (mu_ins c)).
Fixpoint all2g {A B : Type} (f : A -> B -> bool) (a : list A) (b : list B) : bool :=
  match a, b with
  | [], [] => true
  | x :: a', y :: b' => f x y && all2g f a' b'
  | _, _ => false
  end.
Definition holds_multi (c : mucase) : bool :=
  all2g (fun p o => multi_holds1 (mu_tool c) (fst p) (snd p) o) (mu_ins c) (mu_obs c).

(* ---------------------------------------------------------------- live sources, incremental consumption
   The tool reads a source whose n-th item is only fixed when it is read (a cell /
   ControlStream assigned before every pull); outputs are pulled one by one.
   lv_xs: the values assigned before pull 0, 1, ...; lv_obs: for every pull the
   number of items the tool had read from the source when the output was delivered,
   and the output; lv_final: reads after one more pull hit the end (finite source).
   Per-call model with read positions: read one item, emit one output. *)
Record lvcase := LV { lv_tool : mtool; lv_zero : Qc; lv_xs : list Qc;
                      lv_obs : res (list (nat * Qc)); lv_final : option nat }.
Definition live_model (t : mtool) (zero : Qc) (xs : list Qc) : res (list (nat * Qc)) :=
  match multi_model t zero xs with
  | Ok ys => Ok (combine (seq 1 (length ys)) ys)
  | Err e => Err e
  end.
Definition nq_eqb (a b : nat * Qc) : bool := (fst a =? fst b)%nat && Qc_eqb (snd a) (snd b).
Definition corr_live (c : lvcase) : bool :=
  res_eqb (list_eqb nq_eqb) (lv_obs c) (live_model (lv_tool c) (lv_zero c) (lv_xs c))
  && match lv_final c with None => true | Some n => (n =? length (lv_xs c))%nat end.
(* every output is the formula on the items as read so far (the assigned values), and
   output k is delivered after at most k+1 reads: nothing is read ahead of the demand *)
Definition holds_live (c : lvcase) : bool :=
  match lv_obs c with
  | Ok l => multi_holds1 (lv_tool c) (lv_zero c) (lv_xs c) (Ok (map snd l))
            && all2g (fun k p => (fst p <=? k + 1)%nat) (seq 0 (length l)) l
            && match lv_final c with None => true | Some n => (n <=? length (lv_xs c))%nat end
  | Err e => multi_holds1 (lv_tool c) (lv_zero c) (lv_xs c) (Err e)
  end.

(* ---------------------------------------------------------------- envelope with a Stream of cut-off values
   tv_coefs: (g, a1, cos cutoff) of lowpass(cutoff_k) for every element of the cutoff stream
   (scalar design calls made by the harness); the envelope must be the time-varying one-pole
   recursion with those coefficients, and every coefficient pair must meet the low-pass contract *)
Record tvcase := TV { tv_s : env_strategy; tv_coefs : list (Qc * Qc * Qc); tv_xs : list Qc;
                      tv_obs : res (list eout) }.
Definition tv_run (c : tvcase) : list eout :=
  env_wrap (tv_s c)
    (lowpass_tv 0 (map fst (tv_coefs c))
       (match tv_s c with EAbs => map qabs (tv_xs c) | _ => map (fun v => v * v) (tv_xs c) end)).
Definition corr_tv (c : tvcase) : bool := res_eqb (list_eqb eout_eqb) (tv_obs c) (Ok (tv_run c)).
Definition holds_tv (c : tvcase) : bool :=
  corr_tv c && forallb (fun p => lp_contract (fst (fst p)) (snd (fst p)) (snd p)) (tv_coefs c).

(* ---------------------------------------------------------------- long runs
   Same demand as holds_multi, evaluated in linear time: the index formulas acc_spec and
   zcross_spec cost O(n^2) under vm_compute, so the running sums are computed by the
   recursion acc_go 0 and the crossings by the two-loop recursion, which ProofsCheck.v
   proves equal to the index formulas for every input (holds_long c = holds_multi c). *)
Definition long_holds1 (t : mtool) (zero : Qc) (xs : list Qc) (obs : res (list Qc)) : bool :=
  match t with
  | TAcc _ => rqlist_eqb obs (Ok (acc_go 0 xs))
  | TZc h fs => rqlist_eqb obs (Ok (map zq (zcross h fs xs)))
  | _ => multi_holds1 t zero xs obs
  end.
Definition holds_long (c : mucase) : bool :=
  all2g (fun p o => long_holds1 (mu_tool c) (fst p) (snd p) o) (mu_ins c) (mu_obs c).

(* compact literal for long lists: numerators over a common denominator *)
Definition dl (d : positive) (l : list Z) : list Qc := map (fun n => qc n d) l.
