(* C20 - case records and boolean checkers for the generated case files.
   corr_f : implementation's observation = model's output
   holds_f : implementation's observation satisfies the defining formula (Spec.v) *)
From Coq Require Import List Bool Arith ZArith QArith Qcanon.
From AL Require Import Base.CaseLib C20.Model C20.Spec.
Import ListNotations.
Open Scope Qc_scope.

Definition qlist_eqb := list_eqb Qc_eqb.
Definition oqlist_eqb := option_eqb qlist_eqb.

(* ---------------------------------------------------------------- maverage *)
(* obs = None: the call raised *)
Record mvcase := MV { mv_s : mav_strategy; mv_c : Qc; mv_size : nat; mv_zero : Qc;
                      mv_xs : list Qc; mv_obs : option (list Qc) }.
Fixpoint is_pow2_fuel (fuel n : nat) : bool :=
  match fuel with
  | O => false
  | S f => (n =? 1)%nat || (Nat.even n && negb (n =? 0)%nat && is_pow2_fuel f (Nat.div2 n))
  end.
Definition is_pow2 (n : nat) : bool := is_pow2_fuel (S n) n.
Definition corr_mav (c : mvcase) : bool :=
  oqlist_eqb (mv_obs c) (maverage (mv_s c) (mv_c c) (mv_size c) (mv_zero c) (mv_xs c)).
(* also: for a power-of-two size the library constant is exactly 1/size *)
Definition holds_mav (c : mvcase) : bool :=
  oqlist_eqb (mv_obs c) (maverage_spec (mv_s c) (mv_c c) (mv_size c) (mv_zero c) (mv_xs c))
  && (if is_pow2 (mv_size c) then Qc_eqb (mv_c c * nq (mv_size c)) 1 else true).

(* ---------------------------------------------------------------- accumulate *)
Record accase := AC { ac_s : acc_strategy; ac_xs : list Qc; ac_obs : option (list Qc) }.
Definition corr_acc (c : accase) : bool := oqlist_eqb (ac_obs c) (Some (accumulate (ac_s c) (ac_xs c))).
Definition holds_acc (c : accase) : bool := oqlist_eqb (ac_obs c) (Some (acc_spec (ac_xs c))).

(* ---------------------------------------------------------------- amdf *)
Record amcase := AM { am_c : Qc; am_size : nat; am_zero : Qc; am_lag : lagspec;
                      am_xs : list Qc; am_obs : option (list Qc) }.
Definition corr_amdf (c : amcase) : bool :=
  oqlist_eqb (am_obs c) (amdf (am_c c) (am_size c) (am_zero c) (am_lag c) (am_xs c)).
Definition holds_amdf (c : amcase) : bool :=
  oqlist_eqb (am_obs c) (amdf_spec (am_c c) (am_size c) (am_zero c) (am_lag c) (am_xs c)).

(* ---------------------------------------------------------------- envelope *)
Definition eout_eqb (a b : eout) : bool :=
  match a, b with
  | Plain x, Plain y => Qc_eqb x y
  | Sqrt x, Sqrt y => Qc_eqb x y
  | _, _ => false
  end.
Record evcase := EV { ev_s : env_strategy; ev_g : Qc; ev_a1 : Qc; ev_xs : list Qc;
                      ev_obs : option (list eout) }.
Definition corr_env (c : evcase) : bool :=
  option_eqb (list_eqb eout_eqb) (ev_obs c) (Some (envelope (ev_s c) (ev_g c) (ev_a1 c) (ev_xs c))).
Definition holds_env (c : evcase) : bool :=
  option_eqb (list_eqb eout_eqb) (ev_obs c) (Some (envelope_spec (ev_s c) (ev_g c) (ev_a1 c) (ev_xs c))).

(* ---------------------------------------------------------------- clip *)
Record clcase := CL { cl_low : option Qc; cl_high : option Qc; cl_xs : list Qc;
                      cl_obs : option (list Qc) }.
Definition corr_clip (c : clcase) : bool := oqlist_eqb (cl_obs c) (clip (cl_low c) (cl_high c) (cl_xs c)).
Definition within_b (low high : option Qc) (y : Qc) : bool :=
  match low with Some l => Qc_leb l y | None => true end &&
  match high with Some h => Qc_leb y h | None => true end.
(* formula, bounds, idempotence (re-clipping the observed output by the formula
   changes nothing), error exactly for high < low *)
Definition holds_clip (c : clcase) : bool :=
  oqlist_eqb (cl_obs c) (clip_spec (cl_low c) (cl_high c) (cl_xs c)) &&
  match cl_obs c with
  | Some ys => forallb (within_b (cl_low c) (cl_high c)) ys
               && qlist_eqb (map (clip_formula (cl_low c) (cl_high c)) ys) ys
               && (length ys =? length (cl_xs c))%nat
  | None => match cl_low c, cl_high c with Some l, Some h => Qc_ltb h l | _, _ => false end
  end.

(* ---------------------------------------------------------------- zcross *)
Record zccase := ZC { zc_h : Qc; zc_fs : Qc; zc_xs : list Qc; zc_obs : option (list Z) }.
Definition corr_zc (c : zccase) : bool :=
  option_eqb (list_eqb Z.eqb) (zc_obs c) (Some (zcross (zc_h c) (zc_fs c) (zc_xs c))).
Definition holds_zc (c : zccase) : bool :=
  option_eqb (list_eqb Z.eqb) (zc_obs c) (Some (zcross_spec (zc_h c) (zc_fs c) (zc_xs c))) &&
  match zc_obs c with
  | Some ys => forallb (fun y => Z.eqb y 0 || Z.eqb y 1) ys && (length ys =? length (zc_xs c))%nat
  | None => false
  end.

(* ---------------------------------------------------------------- unwrap *)
(* obs: outputs produced, and whether the stream then raised ZeroDivisionError *)
Record uwcase := UW { uw_md : Qc; uw_step : Qc; uw_xs : list Qc; uw_obs : list Qc; uw_err : bool }.
Definition corr_uw (c : uwcase) : bool :=
  let '(o, e) := unwrap (uw_md c) (uw_step c) (uw_xs c) in
  qlist_eqb (uw_obs c) o && Bool.eqb (uw_err c) e.
Definition is_multiple_b (step d : Qc) : bool :=
  if Qc_eqb step 0 then Qc_eqb d 0 else Pos.eqb (Qden (this (d / step))) 1.
Fixpoint no_jump_b (md : Qc) (xs : list Qc) : bool :=
  match xs with
  | a :: ((b :: _) as r) => Qc_leb (qabs (b - a)) md && no_jump_b md r
  | _ => true
  end.
Fixpoint until_jump (md : Qc) (xs : list Qc) : list Qc :=
  match xs with
  | a :: ((b :: _) as r) => a :: (if Qc_leb (qabs (b - a)) md then until_jump md r else [])
  | l => l
  end.
Fixpoint all2 (f : Qc -> Qc -> bool) (a b : list Qc) : bool :=
  match a, b with
  | [], [] => true
  | x :: a', y :: b' => f x y && all2 f a' b'
  | _, _ => false
  end.
(* step <> 0: one output per input, each differing from the input by an integer
   multiple of step; untouched when no input jump exceeds max_delta; no adjacent
   output jump above max(max_delta, |step|/2).
   step = 0 (malformed): ZeroDivisionError at the first jump above max_delta,
   the samples before it untouched. *)
Definition holds_uw (c : uwcase) : bool :=
  if Qc_eqb (uw_step c) 0 then
    qlist_eqb (uw_obs c) (until_jump (uw_md c) (uw_xs c))
    && Bool.eqb (uw_err c) (negb (no_jump_b (uw_md c) (uw_xs c)))
  else
    negb (uw_err c)
    && all2 (fun o x => is_multiple_b (uw_step c) (o - x)) (uw_obs c) (uw_xs c)
    && (if no_jump_b (uw_md c) (uw_xs c) then qlist_eqb (uw_obs c) (uw_xs c) else true)
    && no_jump_b (qmax (uw_md c) (qabs (uw_step c) / (1 + 1))) (uw_obs c).
