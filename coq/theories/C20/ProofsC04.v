(* C20 - the filter-based tools against C04's model of LinearFilter.__call__:
   the outputs of C20's models are exactly what C04's [run_filter] (code generator +
   interpreter of the generated loop) returns on the coefficient lists the tools build.
   The link goes through C04's difference-equation theorem [lists_diffeq] and the
   uniqueness of the solution of a difference equation with a0 <> 0. *)
From Coq Require Import String List Bool Arith ZArith QArith Qcanon Lqa Lia.
From AL Require C04.Model C04.Spec C04.ProofsCtor.
From AL Require Import Base.CaseLib C20.Model C20.Spec C20.Lib C20.ProofsMav C20.ProofsEnv C20.ProofsAmdf.
Import ListNotations.
Open Scope Qc_scope.

Module M4 := AL.C04.Model.
Module S4 := AL.C04.Spec.

(* ---------------------------------------------------------------- signals *)
Lemma xsig_nat zero xs n j : (n < length xs)%nat ->
  S4.xsig zero xs (Z.of_nat n - Z.of_nat j) = xat zero xs n j.
Proof.
  intro Hn. unfold S4.xsig, xat.
  destruct (j <=? n)%nat eqn:E.
  - apply Nat.leb_le in E.
    assert (H : (Z.of_nat n - Z.of_nat j <? 0)%Z = false) by (apply Z.ltb_ge; lia).
    rewrite H. replace (Z.to_nat (Z.of_nat n - Z.of_nat j)) with (n - j)%nat by lia.
    apply nth_indep. lia.
  - apply Nat.leb_gt in E.
    assert (H : (Z.of_nat n - Z.of_nat j <? 0)%Z = true) by (apply Z.ltb_lt; lia).
    rewrite H. reflexivity.
Qed.

Lemma ysig_nat pst ys n : S4.ysig pst ys (Z.of_nat n) = nth n ys 0.
Proof.
  unfold S4.ysig. assert (H : (Z.of_nat n <? 0)%Z = false) by (apply Z.ltb_ge; lia).
  rewrite H, Nat2Z.id. reflexivity.
Qed.

Lemma ysig_neg pst ys m : (m < 0)%Z -> S4.ysig pst ys m = pst (Z.to_nat (- m)).
Proof. intro H. unfold S4.ysig. apply Z.ltb_lt in H. rewrite H. reflexivity. Qed.

(* ---------------------------------------------------------------- dot products *)
Lemma dot_ext_ge l : forall s F G, (forall k, (s <= k)%Z -> F k = G k) -> S4.dot l F s = S4.dot l G s.
Proof.
  induction l as [|c r IH]; intros s F G H; [reflexivity|].
  cbn [S4.dot]. rewrite (H s) by lia. f_equal. apply IH. intros k Hk. apply H. lia.
Qed.
Lemma dot_app l1 : forall l2 F s,
  S4.dot (l1 ++ l2) F s = S4.dot l1 F s + S4.dot l2 F (s + Z.of_nat (length l1)).
Proof.
  induction l1 as [|c r IH]; intros l2 F s.
  - cbn [app S4.dot length]. rewrite Z.add_0_r. ring.
  - cbn [app S4.dot length]. rewrite IH.
    replace (s + 1 + Z.of_nat (length r))%Z with (s + Z.of_nat (S (length r)))%Z by lia. ring.
Qed.
Lemma dot_repeat c m : forall F s,
  S4.dot (repeat c m) F s = c * sum_upto (fun j => F (s + Z.of_nat j)%Z) m.
Proof.
  induction m as [|m IH]; intros F s; [cbn; ring|].
  cbn [repeat S4.dot]. rewrite IH, sum_upto_shift.
  replace (s + Z.of_nat 0)%Z with s by lia.
  rewrite (sum_upto_ext (fun j => F (s + 1 + Z.of_nat j)%Z) (fun j => F (s + Z.of_nat (S j))%Z))
    by (intro j; f_equal; lia).
  ring.
Qed.
Lemma dot_repeat0 m F s : S4.dot (repeat 0 m) F s = 0.
Proof. rewrite dot_repeat. ring. Qed.

(* ---------------------------------------------------------------- uniqueness *)
Section Unique.
Variables (b ar : list Qc) (a0 : Qc) (X : Z -> Qc) (pst : nat -> Qc).
Hypothesis Ha0 : a0 <> 0.
Definition solves (ys : list Qc) : Prop :=
  forall n, (n < length ys)%nat ->
    a0 * S4.ysig pst ys (Z.of_nat n)
    = S4.dot b (fun k => X (Z.of_nat n - k)%Z) 0
      - S4.dot ar (fun k => S4.ysig pst ys (Z.of_nat n - k)%Z) 1.

Lemma solves_unique ys ys' : length ys = length ys' -> solves ys -> solves ys' -> ys = ys'.
Proof.
  intros HL H1 H2.
  assert (Hn : forall n, (n < length ys)%nat -> nth n ys 0 = nth n ys' 0).
  { induction n as [n IH] using lt_wf_ind. intro Hlt.
    pose proof (H1 n Hlt) as E1. pose proof (H2 n ltac:(lia)) as E2.
    rewrite !ysig_nat in E1, E2.
    assert (EF : S4.dot ar (fun k => S4.ysig pst ys (Z.of_nat n - k)%Z) 1
                 = S4.dot ar (fun k => S4.ysig pst ys' (Z.of_nat n - k)%Z) 1).
    { apply dot_ext_ge. intros k Hk.
      destruct (Z_lt_dec (Z.of_nat n - k) 0) as [Hneg|Hpos].
      - rewrite !ysig_neg by exact Hneg. reflexivity.
      - replace (Z.of_nat n - k)%Z with (Z.of_nat (Z.to_nat (Z.of_nat n - k))) by lia.
        rewrite !ysig_nat. apply IH; lia. }
    rewrite EF in E1. rewrite <- E2 in E1.
    apply (f_equal (fun v => / a0 * v)) in E1.
    rewrite !Qcmult_assoc, (Qcmult_comm (/ a0)), Qcmult_inv_r in E1 by exact Ha0.
    rewrite !Qcmult_1_l in E1. exact E1. }
  apply (nth_ext ys ys' 0 0 HL). exact Hn.
Qed.
End Unique.

(* ---------------------------------------------------------------- from C04's theorem to run_filter *)
Lemma all_zero_false_num num den k v : In (k, v) num -> v <> 0 -> S4.all_zero num den = false.
Proof.
  intros Hin Hv. unfold S4.all_zero. apply not_true_is_false. intro H.
  rewrite forallb_forall in H. specialize (H (k, v) (in_or_app _ _ _ (or_introl Hin))).
  cbn [snd] in H. apply Qc_eqb_spec in H. contradiction.
Qed.
Lemma all_zero_false_fb num den k v : In (k, v) den -> k <> 0%Z -> v <> 0 -> S4.all_zero num den = false.
Proof.
  intros Hin Hk Hv. unfold S4.all_zero. apply not_true_is_false. intro H.
  rewrite forallb_forall in H.
  assert (Hf : In (k, v) (S4.feedback den)).
  { unfold S4.feedback. apply filter_In. split; [exact Hin|]. cbn [fst].
    apply negb_true_iff. apply Z.eqb_neq. exact Hk. }
  specialize (H (k, v) (in_or_app _ _ _ (or_intror Hf))).
  cbn [snd] in H. apply Qc_eqb_spec in H. contradiction.
Qed.
Lemma enumerate_In : forall b s i, (i < length b)%nat ->
  In ((s + Z.of_nat i)%Z, nth i b 0) (M4.enumerate_from s b).
Proof.
  induction b as [|c r IH]; intros s i Hi; [simpl in Hi; lia|].
  cbn [M4.enumerate_from]. destruct i as [|i].
  - left. cbn [nth]. f_equal. lia.
  - right. cbn [nth]. replace (s + Z.of_nat (S i))%Z with (s + 1 + Z.of_nat i)%Z by lia.
    apply IH. simpl in Hi. lia.
Qed.

(* a list that solves the difference equation IS the output of C04's run_filter *)
Lemma c04_solution b a0 ar zero xs ys' : a0 <> 0 ->
  S4.all_zero (M4.enumerate_from 0 b) (M4.enumerate_from 0 (a0 :: ar)) = false ->
  length ys' = length xs ->
  solves b ar a0 (S4.xsig zero xs) (fun _ => zero) ys' ->
  M4.run_filter b (a0 :: ar) M4.MNone zero xs = M4.Ok ys'.
Proof.
  intros Ha0 Hall HL Hs.
  destruct (C04.ProofsCtor.lists_diffeq b a0 ar M4.MNone zero xs Ha0) as [ys [Hrun [Hlen Hd]]].
  rewrite Hall in Hd. rewrite Hrun. f_equal.
  apply (solves_unique b ar a0 (S4.xsig zero xs) (fun _ => zero) Ha0); [lia| |exact Hs].
  intros n Hn. rewrite Hlen in Hn. exact (Hd n Hn).
Qed.

(* and conversely: whatever run_filter returns solves it (C04's theorem, for memory=None) *)
Lemma c04_output_solves b a0 ar zero xs ys : a0 <> 0 ->
  S4.all_zero (M4.enumerate_from 0 b) (M4.enumerate_from 0 (a0 :: ar)) = false ->
  M4.run_filter b (a0 :: ar) M4.MNone zero xs = M4.Ok ys ->
  length ys = length xs /\ solves b ar a0 (S4.xsig zero xs) (fun _ => zero) ys.
Proof.
  intros Ha0 Hall Hrun.
  destruct (C04.ProofsCtor.lists_diffeq b a0 ar M4.MNone zero xs Ha0) as [ys0 [Hrun0 [Hlen Hd]]].
  rewrite Hall in Hd. rewrite Hrun in Hrun0. inversion Hrun0; subst ys0.
  split; [exact Hlen|]. intros n Hn. rewrite Hlen in Hn. exact (Hd n Hn).
Qed.

Lemma one_neq_0 : (1 : Qc) <> 0.
Proof. intro H. apply Qc_eq_iff in H. vm_compute in H. discriminate. Qed.

(* a filter without feedback: the tabulated dot product solves the equation *)
Lemma fir_solves b zero xs :
  solves b [] 1 (S4.xsig zero xs) (fun _ => zero)
         (tabulate (fun n => S4.dot b (fun k => S4.xsig zero xs (Z.of_nat n - k)%Z) 0) xs).
Proof.
  intros n Hn. rewrite tabulate_length in Hn. rewrite ysig_nat, nth_tabulate by exact Hn.
  cbn [S4.dot]. ring.
Qed.

(* ---------------------------------------------------------------- maverage.fir : b = [c; ...; c] (size times), a = [1] *)
Lemma mav_formula_xsig c size zero xs n : (n < length xs)%nat ->
  mav_formula c size zero xs n
  = c * sum_upto (fun j => S4.xsig zero xs (Z.of_nat n - Z.of_nat j)%Z) size.
Proof.
  intro Hn. unfold mav_formula. f_equal. apply sum_upto_ext. intro j.
  symmetry. apply xsig_nat. exact Hn.
Qed.

Lemma fir_formula_solves c size zero xs :
  solves (repeat c size) [] 1 (S4.xsig zero xs) (fun _ => zero) (mav_spec c size zero xs).
Proof.
  intros n Hn. unfold mav_spec in *. rewrite tabulate_length in Hn.
  rewrite ysig_nat, nth_tabulate by exact Hn.
  rewrite mav_formula_xsig by exact Hn. rewrite dot_repeat. cbn [S4.dot]. cbv beta.
  assert (E : sum_upto (fun j => S4.xsig zero xs (Z.of_nat n - (0 + Z.of_nat j))%Z) size
              = sum_upto (fun j => S4.xsig zero xs (Z.of_nat n - Z.of_nat j)%Z) size)
    by (apply sum_upto_ext; intro j; f_equal; lia).
  rewrite E. ring.
Qed.

Lemma fir_not_all_zero c size ar : c <> 0 -> (1 <= size)%nat ->
  S4.all_zero (M4.enumerate_from 0 (repeat c size)) (M4.enumerate_from 0 (1 :: ar)) = false.
Proof.
  intros Hc Hs. apply (all_zero_false_num _ _ (0 + Z.of_nat 0)%Z (nth 0 (repeat c size) 0)).
  - apply enumerate_In. rewrite repeat_length. lia.
  - destruct size; [lia|]. exact Hc.
Qed.

Lemma maverage_fir_is_c04_filter c size zero xs : c <> 0 -> (1 <= size)%nat ->
  M4.run_filter (repeat c size) [1] M4.MNone zero xs = M4.Ok (mav_fir c size zero xs).
Proof.
  intros Hc Hs.
  assert (E : mav_fir c size zero xs = mav_spec c size zero xs).
  { change (mav_fir c size zero xs) with (mav_run MFir c size zero xs).
    rewrite mav_run_spec by exact Hs. unfold mav_spec_off. cbn [mav_offset]. apply map_add0. }
  rewrite E. apply c04_solution.
  - exact one_neq_0.
  - apply fir_not_all_zero; assumption.
  - apply mav_spec_length.
  - apply fir_formula_solves.
Qed.

(* the formula as a corollary of C04's difference-equation theorem alone: whatever
   C04's generated loop outputs for b = [c]*size, a = [1] is c * (sum of the last size samples) *)
Lemma fir_formula_from_c04 c size zero xs ys : c <> 0 -> (1 <= size)%nat ->
  M4.run_filter (repeat c size) [1] M4.MNone zero xs = M4.Ok ys -> ys = mav_spec c size zero xs.
Proof.
  intros Hc Hs Hrun.
  destruct (c04_output_solves _ 1 [] zero xs ys one_neq_0 (fir_not_all_zero c size [] Hc Hs) Hrun)
    as [HL Hsol].
  apply (solves_unique (repeat c size) [] 1 (S4.xsig zero xs) (fun _ => zero) one_neq_0);
    [rewrite mav_spec_length; exact HL|exact Hsol|apply fir_formula_solves].
Qed.

(* ---------------------------------------------------------------- maverage.recursive :
   b = [c; 0; ...; 0; -c] (the -c at power size), a = [1; -1], memory [zero] *)
Lemma sum_upto_const z k : sum_upto (fun _ => z) k = nq k * z.
Proof. induction k as [|k IH]; [rewrite nq_0; cbn; ring|]. cbn [sum_upto]. rewrite IH, nq_S. ring. Qed.

Lemma telescope (f : Z -> Qc) size : forall m,
  sum_upto (fun j => f (m - Z.of_nat j)%Z) size
  = f m - f (m - Z.of_nat size)%Z + sum_upto (fun j => f (m - 1 - Z.of_nat j)%Z) size.
Proof.
  induction size as [|k IH]; intro m.
  - cbn [sum_upto]. replace (m - Z.of_nat 0)%Z with m by lia. ring.
  - cbn [sum_upto]. rewrite IH.
    replace (m - Z.of_nat (S k))%Z with (m - 1 - Z.of_nat k)%Z by lia. ring.
Qed.

Definition rec_b (c : Qc) (size : nat) : list Qc := [c] ++ repeat 0 (size - 1) ++ [- c].

Lemma dot_rec_b c size F : (1 <= size)%nat ->
  S4.dot (rec_b c size) F 0 = c * F 0%Z - c * F (Z.of_nat size).
Proof.
  intro Hs. unfold rec_b. rewrite !dot_app, dot_repeat0. cbn [S4.dot length].
  rewrite repeat_length. replace (0 + Z.of_nat 1 + Z.of_nat (size - 1))%Z with (Z.of_nat size) by lia.
  ring.
Qed.

(* the value of the formula (+ residual) at any integer time, -1 included *)
Definition recG (c : Qc) (size : nat) (zero : Qc) (xs : list Qc) (m : Z) : Qc :=
  c * sum_upto (fun j => S4.xsig zero xs (m - Z.of_nat j)%Z) size + mav_resid c size zero.

Lemma recG_m1 c size zero xs : recG c size zero xs (-1) = zero.
Proof.
  unfold recG, mav_resid.
  rewrite (sum_upto_ext _ (fun _ => zero)).
  - rewrite sum_upto_const. ring.
  - intro j. unfold S4.xsig. assert (H : (-1 - Z.of_nat j <? 0)%Z = true) by (apply Z.ltb_lt; lia).
    rewrite H. reflexivity.
Qed.

Lemma recG_step c size zero xs m :
  recG c size zero xs m
  = c * S4.xsig zero xs m - c * S4.xsig zero xs (m - Z.of_nat size)%Z + recG c size zero xs (m - 1).
Proof. unfold recG. rewrite (telescope (S4.xsig zero xs) size m). ring. Qed.

Lemma rec_y_nat c size zero xs n : (n < length xs)%nat ->
  nth n (mav_spec_off MRecursive c size zero xs) 0 = recG c size zero xs (Z.of_nat n).
Proof.
  intro Hn. transitivity (mav_formula c size zero xs n + mav_offset MRecursive c size zero).
  - unfold mav_spec_off, mav_spec, tabulate. rewrite map_map.
    exact (nth_tabulate (fun x => mav_formula c size zero xs x + mav_offset MRecursive c size zero)
                        xs n 0 Hn).
  - cbn [mav_offset]. rewrite mav_formula_xsig by exact Hn. reflexivity.
Qed.

Lemma rec_ysig c size zero xs n : (n < length xs)%nat ->
  S4.ysig (fun _ => zero) (mav_spec_off MRecursive c size zero xs) (Z.of_nat n - 1)
  = recG c size zero xs (Z.of_nat n - 1).
Proof.
  intro Hn. destruct n as [|m].
  - change (Z.of_nat 0 - 1)%Z with (-1)%Z. rewrite ysig_neg by lia. symmetry. apply recG_m1.
  - replace (Z.of_nat (S m) - 1)%Z with (Z.of_nat m) by lia. rewrite ysig_nat.
    apply rec_y_nat. lia.
Qed.

Lemma rec_formula_solves c size zero xs : (1 <= size)%nat ->
  solves (rec_b c size) [- (1)] 1 (S4.xsig zero xs) (fun _ => zero)
         (mav_spec_off MRecursive c size zero xs).
Proof.
  intros Hs n Hn.
  assert (Hn' : (n < length xs)%nat)
    by (unfold mav_spec_off in Hn; rewrite map_length, mav_spec_length in Hn; exact Hn).
  rewrite dot_rec_b by exact Hs. cbn [S4.dot].
  rewrite (rec_ysig c size zero xs n Hn'), ysig_nat, (rec_y_nat c size zero xs n Hn').
  rewrite (recG_step c size zero xs (Z.of_nat n)).
  replace (Z.of_nat n - 0)%Z with (Z.of_nat n) by lia. ring.
Qed.

Lemma rec_not_all_zero c size : S4.all_zero (M4.enumerate_from 0 (rec_b c size))
                                            (M4.enumerate_from 0 [1; - (1)]) = false.
Proof.
  apply (all_zero_false_fb _ _ 1%Z (- (1))).
  - cbn. right. left. reflexivity.
  - lia.
  - intro H. apply Qc_eq_iff in H. vm_compute in H. discriminate.
Qed.

Lemma maverage_recursive_is_c04_filter c size zero xs : (1 <= size)%nat ->
  M4.run_filter (rec_b c size) [1; - (1)] M4.MNone zero xs = M4.Ok (mav_recursive c size zero xs).
Proof.
  intro Hs.
  change (mav_recursive c size zero xs) with (mav_run MRecursive c size zero xs).
  rewrite mav_run_spec by exact Hs. apply c04_solution.
  - exact one_neq_0.
  - apply rec_not_all_zero.
  - unfold mav_spec_off. rewrite map_length. apply mav_spec_length.
  - apply rec_formula_solves. exact Hs.
Qed.

(* ---------------------------------------------------------------- one-pole low-pass (the envelope strategies):
   b = [g], a = [1; a1], memory None, zero 0 *)
Lemma xsig0_nat u n : S4.xsig 0 u (Z.of_nat n) = nth n u 0.
Proof.
  unfold S4.xsig. assert (H : (Z.of_nat n <? 0)%Z = false) by (apply Z.ltb_ge; lia).
  rewrite H, Nat2Z.id. reflexivity.
Qed.

Lemma lowpass_prev_ysig g a1 u n : (n < length u)%nat ->
  S4.ysig (fun _ => 0) (lowpass_spec g a1 u) (Z.of_nat n - 1) = lp_prev g a1 u n.
Proof.
  intro Hn. destruct n as [|m]; cbn [lp_prev].
  - change (Z.of_nat 0 - 1)%Z with (-1)%Z. rewrite ysig_neg by lia. reflexivity.
  - replace (Z.of_nat (S m) - 1)%Z with (Z.of_nat m) by lia. rewrite ysig_nat.
    unfold lowpass_spec. apply nth_tabulate. lia.
Qed.

Lemma lowpass_formula_solves g a1 u :
  solves [g] [a1] 1 (S4.xsig 0 u) (fun _ => 0) (lowpass_spec g a1 u).
Proof.
  intros n Hn. unfold lowpass_spec in Hn. rewrite tabulate_length in Hn.
  cbn [S4.dot]. rewrite (lowpass_prev_ysig g a1 u n Hn), ysig_nat.
  unfold lowpass_spec. rewrite nth_tabulate by exact Hn.
  replace (Z.of_nat n - 0)%Z with (Z.of_nat n) by lia.
  rewrite xsig0_nat, lowpass_rec. ring.
Qed.

Lemma onepole_not_all_zero g a1 : g <> 0 \/ a1 <> 0 ->
  S4.all_zero (M4.enumerate_from 0 [g]) (M4.enumerate_from 0 [1; a1]) = false.
Proof.
  intros [Hg|Ha].
  - apply (all_zero_false_num _ _ 0%Z g); [cbn; left; reflexivity|exact Hg].
  - apply (all_zero_false_fb _ _ 1%Z a1); [cbn; right; left; reflexivity|lia|exact Ha].
Qed.

Lemma lowpass_is_c04_filter g a1 u : g <> 0 \/ a1 <> 0 ->
  M4.run_filter [g] [1; a1] M4.MNone 0 u = M4.Ok (lowpass_call g a1 u).
Proof.
  intro H. rewrite lowpass_call_spec. apply c04_solution.
  - exact one_neq_0.
  - apply onepole_not_all_zero. exact H.
  - unfold lowpass_spec. apply tabulate_length.
  - apply lowpass_formula_solves.
Qed.

(* envelope.abs / squared / rms: C04's filter on |x| resp. x*x, rms under the symbolic root *)
Lemma envelope_is_c04_filter s g a1 xs : g <> 0 \/ a1 <> 0 ->
  exists ys,
    M4.run_filter [g] [1; a1] M4.MNone 0
      (match s with EAbs => map qabs xs | _ => map (fun v => v * v) xs end) = M4.Ok ys
    /\ envelope s g a1 xs = match s with ERms => map Sqrt ys | _ => map Plain ys end.
Proof.
  intro H. destruct s; cbn [envelope]; eexists; (split; [apply lowpass_is_c04_filter; exact H|reflexivity]).
Qed.

(* ---------------------------------------------------------------- accumulate.z : b = [1], a = [1; -1], zero 0. *)
Lemma acc_formula_solves xs :
  solves [1] [- (1)] 1 (S4.xsig 0 xs) (fun _ => 0) (acc_spec xs).
Proof.
  intros n Hn. rewrite acc_spec_length in Hn. cbn [S4.dot].
  rewrite ysig_nat. unfold acc_spec at 1. rewrite nth_tabulate by exact Hn.
  replace (Z.of_nat n - 0)%Z with (Z.of_nat n) by lia. rewrite xsig0_nat.
  destruct n as [|m].
  - change (Z.of_nat 0 - 1)%Z with (-1)%Z. rewrite ysig_neg by lia. cbn [sum_upto]. ring.
  - replace (Z.of_nat (S m) - 1)%Z with (Z.of_nat m) by lia. rewrite ysig_nat.
    unfold acc_spec. rewrite nth_tabulate by lia. cbn [sum_upto]. ring.
Qed.

Lemma accumulate_z_is_c04_filter xs :
  M4.run_filter [1] [1; - (1)] M4.MNone 0 xs = M4.Ok (accumulate AZ xs).
Proof.
  rewrite accumulate_running_sum. apply c04_solution.
  - exact one_neq_0.
  - apply (all_zero_false_num _ _ 0%Z 1); [cbn; left; reflexivity|exact one_neq_0].
  - apply acc_spec_length.
  - apply acc_formula_solves.
Qed.

(* ---------------------------------------------------------------- amdf : (1 - z^-lag).linearize(), a = [1]
   integral lag k >= 1: b = [1; 0; ...; 0; -1] (the -1 at power k); k = 0: b = [] (all-zero filter)
   fractional lag     : b = [1; 0; ...; 0; -wl; -wr] (powers left, left+1); left = 0: [1 + -wl; -wr] *)
Definition lag_b (lg : lagspec) : list Qc :=
  match lg with
  | LagInt k => match Z.to_nat k with O => [] | S j => [1] ++ repeat 0 j ++ [- (1)] end
  | LagFrac l wl wr =>
      match Z.to_nat l with O => [1 + - wl; - wr] | S j => [1] ++ repeat 0 j ++ [- wl; - wr] end
  end.

Lemma dot_lead tail j F :
  S4.dot ([1] ++ repeat 0 j ++ tail) F 0 = F 0%Z + S4.dot tail F (Z.of_nat (S j)).
Proof.
  rewrite !dot_app, dot_repeat0. cbn [S4.dot length]. rewrite repeat_length.
  replace (0 + Z.of_nat 1 + Z.of_nat j)%Z with (Z.of_nat (S j)) by lia. ring.
Qed.

Lemma hist_xsig zero xs n i : (n < length xs)%nat ->
  nth i (rev (firstn (S n) xs)) zero = S4.xsig zero xs (Z.of_nat n - Z.of_nat i)%Z.
Proof. intro Hn. rewrite nth_hist by exact Hn. symmetry. apply xsig_nat. exact Hn. Qed.

Lemma lag_filter_dot lg zero xs : lag_b lg <> [] ->
  lag_filter lg zero xs
  = tabulate (fun n => S4.dot (lag_b lg) (fun k => S4.xsig zero xs (Z.of_nat n - k)%Z) 0) xs.
Proof.
  intro Hb. rewrite lag_filter_hist, hmap_tabulate. apply tabulate_ext. intros n Hn.
  unfold lagG, lag_b in *. destruct lg as [k|l wl wr].
  - destruct (Z.to_nat k) as [|j]; [contradiction|].
    rewrite dot_lead. cbn [S4.dot]. rewrite !hist_xsig by exact Hn.
    replace (Z.of_nat n - Z.of_nat 0)%Z with (Z.of_nat n - 0)%Z by lia. ring.
  - destruct (Z.to_nat l) as [|j].
    + cbn [S4.dot]. rewrite !hist_xsig by exact Hn.
      replace (Z.of_nat n - Z.of_nat 0)%Z with (Z.of_nat n - 0)%Z by lia.
      replace (Z.of_nat n - Z.of_nat 1)%Z with (Z.of_nat n - (0 + 1))%Z by lia. ring.
    + rewrite dot_lead. cbn [S4.dot]. rewrite !hist_xsig by exact Hn.
      replace (Z.of_nat n - Z.of_nat 0)%Z with (Z.of_nat n - 0)%Z by lia.
      replace (Z.of_nat n - Z.of_nat (S (S j)))%Z with (Z.of_nat n - (Z.of_nat (S j) + 1))%Z by lia.
      ring.
Qed.

(* the coefficients the model reads are not all zero (true of every decoded lag, see below) *)
Definition lag_ok (lg : lagspec) : Prop :=
  match lg with LagInt _ => True | LagFrac _ _ wr => wr <> 0 end.

Lemma neg_nonzero x : x <> 0 -> - x <> 0.
Proof. intros H E. apply H. qc_lra. Qed.

Lemma lag_not_all_zero lg : lag_b lg <> [] -> lag_ok lg ->
  S4.all_zero (M4.enumerate_from 0 (lag_b lg)) (M4.enumerate_from 0 [1]) = false.
Proof.
  intros Hb Hok. unfold lag_b in *. destruct lg as [k|l wl wr].
  - destruct (Z.to_nat k) as [|j]; [contradiction|].
    apply (all_zero_false_num _ _ 0%Z 1); [cbn; left; reflexivity|exact one_neq_0].
  - destruct (Z.to_nat l) as [|j].
    + apply (all_zero_false_num _ _ 1%Z (- wr)); [cbn; right; left; reflexivity|].
      apply neg_nonzero. exact Hok.
    + apply (all_zero_false_num _ _ 0%Z 1); [cbn; left; reflexivity|exact one_neq_0].
Qed.

Lemma lag_filter_nil_b lg zero : lag_b lg = [] -> forall xs,
  lag_filter lg zero xs = repeat zero (length xs).
Proof.
  intros Hb. unfold lag_b in Hb. destruct lg as [k|l wl wr].
  - destruct (Z.to_nat k) as [|j] eqn:Ek; [|discriminate].
    unfold lag_filter. cbn [lag_regs]. rewrite Ek. cbn [repeat].
    induction xs as [|el r IH]; [reflexivity|].
    cbn [mealy lag_step length repeat]. rewrite Ek. cbn [mealy]. f_equal. exact IH.
  - destruct (Z.to_nat l); discriminate.
Qed.

Lemma lag_filter_is_c04_filter lg zero xs : lag_ok lg ->
  M4.run_filter (lag_b lg) [1] M4.MNone zero xs = M4.Ok (lag_filter lg zero xs).
Proof.
  intro Hok. destruct (lag_b lg) as [|b0 br] eqn:Eb.
  - rewrite (lag_filter_nil_b lg zero Eb).
    destruct (C04.ProofsCtor.lists_diffeq [] 1 [] M4.MNone zero xs one_neq_0) as [ys [Hrun [_ Hd]]].
    rewrite Hrun. f_equal. exact Hd.
  - rewrite <- Eb. assert (Hb : lag_b lg <> []) by (rewrite Eb; discriminate).
    rewrite (lag_filter_dot lg zero xs Hb). apply c04_solution.
    + exact one_neq_0.
    + apply lag_not_all_zero; assumption.
    + apply tabulate_length.
    + apply fir_solves.
Qed.

Lemma Qden_zq' k : Qden (this (zq k)) = 1%positive.
Proof.
  unfold zq, Q2Qc. cbn [this]. rewrite Qred_identity; [reflexivity|].
  cbn [inject_Z Qnum Qden]. apply Z.gcd_1_r.
Qed.

Lemma lagspec_of_ok lag : lag_ok (lagspec_of lag).
Proof.
  unfold lagspec_of. destruct (is_int lag) eqn:E; [exact I|]. cbn [lag_ok]. intro H.
  assert (EL : lag = zq (qtrunc lag)) by qc_lra.
  unfold is_int in E. rewrite EL, Qden_zq' in E. discriminate.
Qed.

(* amdf(lag, size)(sig, zero): C04's filter for (1 - z^-lag).linearize(), then abs,
   then the deque moving average (lag >= 0, lag = 0 included: the all-zero filter) *)
Lemma amdf_is_c04_filter c size zero lag xs : (1 <= size)%nat -> 0 <= lag ->
  exists ys, M4.run_filter (lag_b (lagspec_of lag)) [1] M4.MNone zero xs = M4.Ok ys
             /\ amdf c size zero lag xs = Ok (mav_deque c size zero (map qabs ys)).
Proof.
  intros Hs H0. exists (lag_filter (lagspec_of lag) zero xs). split.
  - apply lag_filter_is_c04_filter. apply lagspec_of_ok.
  - unfold amdf. destruct size as [|k]; [lia|]. rewrite lag_causal_pos by exact H0. reflexivity.
Qed.
