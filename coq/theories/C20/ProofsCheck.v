(* C20 - the boolean tests used by the holds checkers of Check.v decide the propositions of Spec.v. *)
From Coq Require Import String List Bool Arith ZArith QArith Qcanon Lqa Lia.
From AL Require Import Base.CaseLib C20.Model C20.Spec C20.Check C20.Lib C20.ProofsAmdf C20.ProofsMav C20.ProofsZc.
Import ListNotations.
Open Scope Qc_scope.

Lemma within_b_spec low high y : within_b low high y = true <-> within low high y.
Proof.
  unfold within_b, within. rewrite andb_true_iff. destruct low as [l|], high as [h|];
    rewrite ?Qc_leb_spec; split.
  - intros [H1 H2]. split; intros b Hb; inversion Hb; subst; assumption.
  - intros [H1 H2]. split; [apply H1|apply H2]; reflexivity.
  - intros [H1 _]. split; intros b Hb; inversion Hb; subst; assumption.
  - intros [H1 _]. split; [apply H1|]; reflexivity.
  - intros [_ H2]. split; intros b Hb; inversion Hb; subst; assumption.
  - intros [_ H2]. split; [|apply H2]; reflexivity.
  - intros _. split; intros b Hb; inversion Hb.
  - intros _. split; reflexivity.
Qed.

Lemma no_jump_b_spec md : forall xs, no_jump_b md xs = true <-> no_jump md xs.
Proof.
  induction xs as [|a r IH]; [simpl; tauto|].
  destruct r as [|b r']; [simpl; tauto|].
  change (no_jump_b md (a :: b :: r')) with (Qc_leb (qabs (b - a)) md && no_jump_b md (b :: r')).
  change (no_jump md (a :: b :: r')) with (qabs (b - a) <= md /\ no_jump md (b :: r')).
  rewrite andb_true_iff, Qc_leb_spec, IH. tauto.
Qed.

Lemma Qden_zq k : Qden (this (zq k)) = 1%positive.
Proof.
  unfold zq, Q2Qc. cbn [this]. rewrite Qred_identity; [reflexivity|].
  cbn [inject_Z Qnum Qden]. apply Z.gcd_1_r.
Qed.

Lemma is_multiple_b_spec step d : step <> 0 -> is_multiple_b step d = true <-> is_multiple step d.
Proof.
  intro Hs. unfold is_multiple_b, is_multiple.
  apply Qc_eqb_false in Hs. rewrite Hs. apply Qc_eqb_false in Hs. split.
  - intro H. exists (Qnum (this (d / step))).
    rewrite <- (is_int_zq (d / step) H). field. exact Hs.
  - intros [k ->]. replace (zq k * step / step) with (zq k) by (field; exact Hs).
    rewrite Qden_zq. reflexivity.
Qed.

Lemma qlist_eqb_spec a b : qlist_eqb a b = true <-> a = b.
Proof. apply list_eqb_spec. apply Qc_eqb_spec. Qed.

Lemma rqlist_eqb_spec a b : rqlist_eqb a b = true <-> a = b.
Proof.
  unfold rqlist_eqb, res_eqb. destruct a as [x|x], b as [y|y]; split; intro H;
    try discriminate.
  - apply qlist_eqb_spec in H. congruence.
  - inversion H. apply qlist_eqb_spec. reflexivity.
  - apply String.eqb_eq in H. congruence.
  - inversion H. apply String.eqb_refl.
Qed.

Lemma res_eqb_spec {A} (e : A -> A -> bool) : (forall x y, e x y = true <-> x = y) ->
  forall a b, res_eqb e a b = true <-> a = b.
Proof.
  intros He a b. unfold res_eqb. destruct a as [x|x], b as [y|y]; split; intro H; try discriminate.
  - apply He in H. congruence.
  - inversion H. apply He. reflexivity.
  - apply String.eqb_eq in H. congruence.
  - inversion H. apply String.eqb_refl.
Qed.

Lemma eout_eqb_spec a b : eout_eqb a b = true <-> a = b.
Proof.
  destruct a as [x|x], b as [y|y]; cbn [eout_eqb]; split; intro H; try discriminate.
  - apply Qc_eqb_spec in H. congruence.
  - inversion H. apply Qc_eqb_spec. reflexivity.
  - apply Qc_eqb_spec in H. congruence.
  - inversion H. apply Qc_eqb_spec. reflexivity.
Qed.

(* the envelope check: the observed stream is the closed-form low-pass of |x| / x^2 *)
Lemma holds_env_sound c : holds_env c = true ->
  ev_obs c = Ok (envelope_spec (ev_s c) (ev_g c) (ev_a1 c) (ev_xs c)).
Proof.
  unfold holds_env. rewrite !andb_true_iff. intros [[H1 H2] _].
  apply qlist_eqb_spec in H2.
  apply (res_eqb_spec _ (list_eqb_spec _ eout_eqb_spec)) in H1.
  rewrite H1, H2. destruct (ev_s c); reflexivity.
Qed.

(* the linear-time checker of the long-run family demands exactly what holds_multi demands *)
Lemma long_holds1_eq t zero xs obs : long_holds1 t zero xs obs = multi_holds1 t zero xs obs.
Proof.
  destruct t; cbn [long_holds1 multi_holds1]; try reflexivity.
  - rewrite ProofsZc.zcross_eq_spec. reflexivity.
  - rewrite ProofsMav.acc_go0_spec. reflexivity.
Qed.

Lemma all2g_ext {A B} (f g : A -> B -> bool) : (forall a b, f a b = g a b) ->
  forall l1 l2, all2g f l1 l2 = all2g g l1 l2.
Proof.
  intro H. induction l1 as [|a l1 IH]; intros [|b l2]; cbn [all2g]; try reflexivity.
  rewrite H, IH. reflexivity.
Qed.

Lemma holds_long_eq c : holds_long c = holds_multi c.
Proof. unfold holds_long, holds_multi. apply all2g_ext. intros p o. apply long_holds1_eq. Qed.
