(* C20 - models of the sample-wise analysis tools of audiolazy/lazy_analysis.py
   (maverage.deque/recursive/fir, envelope.rms/abs/squared, amdf, clip, zcross,
   unwrap) and of accumulate.* (lazy_itertools.py).  Each definition follows the
   Python code branch by branch.  Tools that delegate to a LinearFilter call are
   modelled by the difference equation the generated code computes, with the
   shift registers d1..dk (past inputs, initialised to `zero`) and m1 (past
   output, initialised to `zero`) kept as in the generated generator
   (ProofsC04.v proves that these recursions return exactly what C04's model of the
   generated code, C04.Model.run_filter, returns on the tools' coefficient lists;
   the correspondence re-checks it against the real code on every run).
   Exceptions are explicit values: [Err "<exception type name>"].
   No proofs in this file. *)
From Coq Require Import String List Bool Arith ZArith QArith Qcanon Qround.
From AL Require Import Base.CaseLib.
Import ListNotations.
Open Scope Qc_scope.

Inductive res (A : Type) := Ok (a : A) | Err (e : string).
Arguments Ok {A} a.
Arguments Err {A} e.

(* ---------------------------------------------------------------- numbers *)
Definition zq (k : Z) : Qc := Q2Qc (inject_Z k).
Definition nq (n : nat) : Qc := zq (Z.of_nat n).
(* Python abs() *)
Definition qabs (x : Qc) : Qc := if Qc_ltb x 0 then - x else x.
(* floor of a rational *)
Definition qfloor (x : Qc) : Z := Qfloor (this x).
(* Python int(): truncation towards zero *)
Definition qtrunc (x : Qc) : Z := Z.quot (Qnum (this x)) (Zpos (Qden (this x))).
Definition is_int (x : Qc) : bool := Pos.eqb (Qden (this x)) 1.
(* Python's  a % b  on rationals: a - b * floor(a / b); the sign follows the divisor.
   (b = 0 raises ZeroDivisionError in Python; callers test for it first.) *)
Definition qmod (a b : Qc) : Qc := a - b * zq (qfloor (a / b)).
Definition qsum (l : list Qc) : Qc := fold_right Qcplus 0 l.

(* "for el in sig: <update state>; yield <value>" *)
Fixpoint mealy {S B : Type} (step : S -> Qc -> S * B) (s : S) (xs : list Qc) : list B :=
  match xs with
  | [] => []
  | el :: r => let '(s', y) := step s el in y :: mealy step s' r
  end.

(* generated filter code: "d{k} = d{k-1}; ...; d1 = d0" on the registers [d1; ...; dk] *)
Definition shift (k : nat) (el : Qc) (regs : list Qc) : list Qc := firstn k (el :: regs).

(* ---------------------------------------------------------------- maverage
   c stands for the library's float constant  size_inv = 1. / size  (exact value
   of that float, supplied by the harness). *)

(* maverage.deque: data = deque(zero * size_inv for _ in range(size)); mean_value = zero *)
Definition deque_step (c : Qc) (st : list Qc * Qc) (el : Qc) : (list Qc * Qc) * Qc :=
  let '(data, mean) := st in
  let mean1 := mean - hd 0 data in          (* mean_value -= data.popleft() *)
  let new_value := el * c in                (* new_value = el * size_inv *)
  let mean2 := mean1 + new_value in         (* data.append(new_value); mean_value += new_value *)
  ((tl data ++ [new_value], mean2), mean2).
Definition mav_deque (c : Qc) (size : nat) (zero : Qc) (xs : list Qc) : list Qc :=
  mealy (deque_step c) (repeat (zero * c) size, zero) xs.

(* maverage.recursive: (1./size) * (1 - z**-size) / (1 - z**-1)
   numerator {0: c, size: -c}, denominator {0: 1, 1: -1}:
   m0 = c*d0 + (-c)*d{size} + m1      (size = 1, c = 1.0: "d0 + -d1 + m1") *)
Definition rec_step (c : Qc) (size : nat) (st : list Qc * Qc) (el : Qc) : (list Qc * Qc) * Qc :=
  let '(d, m1) := st in
  let m0 := c * el + (- c) * nth (size - 1) d 0 + m1 in
  ((shift size el d, m0), m0).
Definition mav_recursive (c : Qc) (size : nat) (zero : Qc) (xs : list Qc) : list Qc :=
  mealy (rec_step c size) (repeat zero size, zero) xs.

(* maverage.fir: sum((1./size) * z**-i for i in range(size))
   numerator {i: c | i < size}: m0 = c*d0 + c*d1 + ... + c*d{size-1} *)
Definition fir_step (c : Qc) (size : nat) (d : list Qc) (el : Qc) : list Qc * Qc :=
  let m0 := qsum (map (fun v => c * v) (el :: d)) in
  (shift (size - 1) el d, m0).
Definition mav_fir (c : Qc) (size : nat) (zero : Qc) (xs : list Qc) : list Qc :=
  mealy (fir_step c size) (repeat zero (size - 1)) xs.

Inductive mav_strategy := MDeque | MRecursive | MFir.
Definition mav_run (s : mav_strategy) (c : Qc) (size : nat) (zero : Qc) (xs : list Qc) : list Qc :=
  match s with
  | MDeque => mav_deque c size zero xs
  | MRecursive => mav_recursive c size zero xs
  | MFir => mav_fir c size zero xs
  end.
(* size = 0: "1. / size" raises ZeroDivisionError in deque and recursive;
   maverage.fir(0) is sum(<empty generator>) = the int 0, calling it raises TypeError *)
Definition maverage (s : mav_strategy) (c : Qc) (size : nat) (zero : Qc) (xs : list Qc)
  : res (list Qc) :=
  match size with
  | O => match s with MFir => Err "TypeError" | _ => Err "ZeroDivisionError" end
  | _ => Ok (mav_run s c size zero xs)
  end.

(* ---------------------------------------------------------------- accumulate *)
Fixpoint acc_go (sum_data : Qc) (xs : list Qc) : list Qc :=
  match xs with
  | [] => []
  | el :: r => let s' := sum_data + el in s' :: acc_go s' r
  end.
(* accumulate.func: first element yielded as is, then "sum_data += el; yield sum_data";
   empty input -> empty output (current code, after commit afb6835) *)
Definition acc_func (xs : list Qc) : list Qc :=
  match xs with [] => [] | x :: r => x :: acc_go x r end.
(* itertools.accumulate: total = first; then total = total + el *)
Definition acc_itertools (xs : list Qc) : list Qc :=
  match xs with [] => [] | x :: r => x :: acc_go x r end.
(* accumulate.z = 1 / (1 - z**-1): m0 = d0 + m1, memory [0.] *)
Definition acc_z (xs : list Qc) : list Qc :=
  mealy (fun m1 el => let m0 := el + m1 in (m0, m0)) 0 xs.

Inductive acc_strategy := AItertools | AFunc | AZ.
Definition accumulate (s : acc_strategy) (xs : list Qc) : list Qc :=
  match s with AItertools => acc_itertools xs | AFunc => acc_func xs | AZ => acc_z xs end.

(* ---------------------------------------------------------------- amdf
   filt = (1 - z ** -lag).linearize()      (lag: int or float, exact value in Qc)
   integral lag k  : numerator {0: 1, k: -1}           (k = 0: the empty polynomial)
   fractional lag  : left = int(lag) (truncation), wr = lag - left, wl = 1. - wr;
                     numerator {0: 1, left: -wl, left+1: -wr}
                     (left = 0: the two coefficients at key 0 are added: 1 + -wl)
   (the float operations "lag - left" and "1. - wr" are exact for the lags the
   harness uses: dyadic rationals with few fractional bits)
   a negative key     : ValueError("Non-causal filter") when the filter is called *)
Inductive lagspec := LagInt (k : Z) | LagFrac (left : Z) (wl wr : Qc).
Definition lagspec_of (lag : Qc) : lagspec :=
  if is_int lag then LagInt (Qnum (this lag))
  else let left := qtrunc lag in
       let wr := lag - zq left in
       LagFrac left (1 - wr) wr.
Definition lag_causal (lg : lagspec) : bool :=
  match lg with LagInt k => (0 <=? k)%Z | LagFrac l _ _ => (0 <=? l)%Z end.
Definition lag_regs (lg : lagspec) : nat :=
  match lg with LagInt k => Z.to_nat k | LagFrac l _ _ => S (Z.to_nat l) end.
Definition lag_step (lg : lagspec) (zero : Qc) (d : list Qc) (el : Qc) : list Qc * Qc :=
  match lg with
  | LagInt k =>
      match Z.to_nat k with
      | O => (d, zero)          (* no term at all: the generated code is "yield zero" *)
      | S k' => (shift (S k') el d, el + - nth k' d 0)                       (* d0 + -dk *)
      end
  | LagFrac l wl wr =>
      match Z.to_nat l with
      | O => (shift 1 el d, (1 + - wl) * el + (- wr) * nth 0 d 0)
      | S l' => (shift (S (S l')) el d, el + (- wl) * nth l' d 0 + (- wr) * nth (S l') d 0)
      end
  end.
Definition lag_filter (lg : lagspec) (zero : Qc) (xs : list Qc) : list Qc :=
  mealy (lag_step lg zero) (repeat zero (lag_regs lg)) xs.
(* amdf_filter(sig, zero) = maverage(size)(abs(filt(sig, zero=zero)), zero=zero);
   maverage's default strategy is "deque"; maverage(size) is evaluated before filt(...) *)
Definition amdf (c : Qc) (size : nat) (zero : Qc) (lag : Qc) (xs : list Qc) : res (list Qc) :=
  let lg := lagspec_of lag in
  match size with
  | O => Err "ZeroDivisionError"
  | _ => if lag_causal lg
         then Ok (mav_deque c size zero (map qabs (lag_filter lg zero xs)))
         else Err "ValueError"
  end.

(* ---------------------------------------------------------------- envelope
   lowpass(cutoff) is a one-pole filter  g / (1 + a1 * z**-1)  (lowpass.pole:
   g = 1 - R, a1 = -R, floats computed by the library from cos/sqrt; their exact
   values are read by the harness from lowpass(cutoff) itself).  Call with
   memory None, zero 0.:   m0 = g*d0 + -(a1)*m1,  m1 = 0 initially. *)
Definition onepole_step (g a1 : Qc) (m1 : Qc) (el : Qc) : Qc * Qc :=
  let m0 := g * el + - a1 * m1 in (m0, m0).
Definition lowpass_call (g a1 : Qc) (xs : list Qc) : list Qc := mealy (onepole_step g a1) 0 xs.

(* lowpass(cutoff) with a Stream of cut-off values: the coefficients are Streams, the generated
   loop is  "for d0 in seq: m0 = next(b0) * d0 + -next(a1) * m1"  and ends when the input or a
   coefficient stream ends; (g, a1) of sample k are the coefficients of lowpass(cutoff_k) *)
Fixpoint lowpass_tv (m1 : Qc) (coefs : list (Qc * Qc)) (xs : list Qc) : list Qc :=
  match coefs, xs with
  | (g, a1) :: cr, el :: r => let m0 := g * el + - a1 * m1 in m0 :: lowpass_tv m0 cr r
  | _, _ => []
  end.

Inductive eout := Plain (q : Qc) | Sqrt (q : Qc).     (* Sqrt q: the symbolic value q ** .5 *)
Inductive env_strategy := ERms | EAbs | ESquared.
Definition envelope (s : env_strategy) (g a1 : Qc) (xs : list Qc) : list eout :=
  match s with
  | EAbs => map Plain (lowpass_call g a1 (map qabs xs))                    (* lowpass(abs(sig)) *)
  | ESquared => map Plain (lowpass_call g a1 (map (fun v => v * v) xs))    (* lowpass(sig ** 2) *)
  | ERms => map Sqrt (lowpass_call g a1 (map (fun v => v * v) xs))         (* lowpass(sig ** 2) ** .5 *)
  end.

(* ---------------------------------------------------------------- clip *)
Definition clip (low high : option Qc) (xs : list Qc) : res (list Qc) :=
  match low, high with
  | None, None => Ok xs
  | None, Some h => Ok (map (fun el => if Qc_ltb el h then el else h) xs)
  | Some l, None => Ok (map (fun el => if Qc_ltb l el then el else l) xs)
  | Some l, Some h =>
      if Qc_ltb h l then Err "ValueError"
      else Ok (map (fun el => if Qc_ltb h el then h else if Qc_ltb el l then l else el) xs)
  end.

(* ---------------------------------------------------------------- zcross *)
(* "-1 if el < 0 else 1" *)
Definition sgn (el : Qc) : Qc := if Qc_ltb el 0 then - (1) else 1.
(* second loop: last_sign is -1 or 1 *)
Fixpoint zc_run (h last_sign : Qc) (xs : list Qc) : list Z :=
  match xs with
  | [] => []
  | el :: r => if Qc_ltb (el * last_sign) (- h)
               then 1%Z :: zc_run h (sgn el) r
               else 0%Z :: zc_run h last_sign r
  end.
(* first loop (first_sign == 0): yields 0 and looks for the first sample outside the band *)
Fixpoint zc_find (h : Qc) (xs : list Qc) : list Z :=
  match xs with
  | [] => []
  | el :: r => 0%Z :: (if Qc_ltb h el || Qc_ltb el (- h) then zc_run h (sgn el) r else zc_find h r)
  end.
Definition zcross (h first_sign : Qc) (xs : list Qc) : list Z :=
  if Qc_eqb first_sign 0 then zc_find h xs else zc_run h (sgn first_sign) xs.

(* ---------------------------------------------------------------- unwrap *)
(* min(a, b, key=abs): the first of the minimal ones *)
Definition minabs (a b : Qc) : Qc := if Qc_ltb (qabs b) (qabs a) then b else a.
(* one loop iteration's update of delta when |d_diff| > max_delta *)
Definition uw_corr (step d_diff : Qc) : Qc :=
  - d_diff + minabs (qmod d_diff step) (qmod d_diff (- step)).
(* result: outputs produced, and whether the generator then died with
   ZeroDivisionError (step = 0 reached in "% step") *)
Fixpoint uw_go (max_delta step d0 delta : Qc) (xs : list Qc) : list Qc * bool :=
  match xs with
  | [] => ([], false)
  | d1 :: r =>
      let d_diff := d1 - d0 in
      if Qc_ltb max_delta (qabs d_diff) then
        if Qc_eqb step 0 then ([], true)
        else
          let delta' := delta + uw_corr step d_diff in
          let '(o, e) := uw_go max_delta step d1 delta' r in ((d1 + delta') :: o, e)
      else
        let '(o, e) := uw_go max_delta step d1 delta r in ((d1 + delta) :: o, e)
  end.
Definition unwrap (max_delta step : Qc) (xs : list Qc) : list Qc * bool :=
  match xs with
  | [] => ([], false)
  | d0 :: r => let '(o, e) := uw_go max_delta step d0 (d0 - d0) r in (d0 :: o, e)
  end.
