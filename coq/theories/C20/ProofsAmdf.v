(* C20 - amdf is the moving average of |x[n] - x[n-lag]| (lag > 0; fractional
   lags interpolate linearly); lag = 0 follows the all-zero-filter convention. *)
From Coq Require Import String List Bool Arith ZArith QArith Qcanon Qround Lqa Lia.
From AL Require Import Base.CaseLib C20.Model C20.Spec C20.Lib C20.ProofsMav.
Import ListNotations.
Open Scope Qc_scope.

(* what the linearized filter 1 - z^-lag outputs, on a history *)
Definition lagG (lg : lagspec) (zero : Qc) (h : list Qc) : Qc :=
  match lg with
  | LagInt k =>
      match Z.to_nat k with
      | O => zero
      | S k' => nth 0 h zero - nth (S k') h zero
      end
  | LagFrac l wl wr =>
      nth 0 h zero - (wl * nth (Z.to_nat l) h zero + wr * nth (S (Z.to_nat l)) h zero)
  end.

Lemma lag_filter_hist lg zero xs : lag_filter lg zero xs = hmap (lagG lg zero) [] xs.
Proof.
  unfold lag_filter.
  apply (mealy_hist (lag_step lg zero) (fun h d => d = win zero (lag_regs lg) h)).
  - intros h s el ->. unfold lag_step, lagG, lag_regs.
    destruct lg as [k|l wl wr].
    + destruct (Z.to_nat k) as [|k']; cbn [fst snd].
      * split; reflexivity.
      * split; [apply win_shift|]. rewrite nth_win by lia. cbn [nth]. ring.
    + destruct (Z.to_nat l) as [|l']; cbn [fst snd].
      * split; [apply win_shift|]. rewrite nth_win by lia. cbn [nth]. ring.
      * split; [apply win_shift|]. rewrite !nth_win by lia. cbn [nth]. ring.
  - rewrite win_nil. reflexivity.
Qed.

(* the defining formula on a history *)
Definition specG (lag zero : Qc) (h : list Qc) : Qc :=
  nth 0 h zero - ((1 - frac_part lag) * nth (Z.to_nat (qfloor lag)) h zero
                  + frac_part lag * nth (S (Z.to_nat (qfloor lag))) h zero).

Lemma absdiff_hist zero lag xs :
  absdiff zero lag xs = map qabs (hmap (specG lag zero) [] xs).
Proof.
  rewrite hmap_tabulate. unfold absdiff, tabulate. rewrite map_map. apply map_ext_in.
  intros n Hn. apply in_seq in Hn. unfold specG, xlag. f_equal.
  rewrite !nth_hist by lia. f_equal. unfold xat. cbn [Nat.leb]. rewrite Nat.sub_0_r.
  apply nth_indep. lia.
Qed.

(* ---------------------------------------------------------------- decoding the lag *)
Lemma is_int_zq q : is_int q = true -> q = zq (Qnum (this q)).
Proof.
  unfold is_int. intro H. apply Pos.eqb_eq in H. apply Qc_eq_iff. rewrite this_zq.
  destruct q as [[n d] Hc]. cbn [this Qden Qnum] in *. subst d. reflexivity.
Qed.

Lemma Qnum_nonneg q : 0 <= q -> (0 <= Qnum (this q))%Z.
Proof.
  unfold Qcle. destruct q as [[n d] Hc]. cbn [this Qnum]. unfold Qle. cbn. lia.
Qed.

Lemma qtrunc_floor q : 0 <= q -> qtrunc q = qfloor q.
Proof.
  intro H. apply Qnum_nonneg in H. unfold qtrunc, qfloor.
  destruct (this q) as [n d]. cbn [Qnum Qden Qfloor] in *.
  apply Z.quot_div_nonneg; lia.
Qed.

Lemma qfloor_nonneg q : 0 <= q -> (0 <= qfloor q)%Z.
Proof.
  intro H. pose proof (qfloor_lt q) as H1.
  assert (H2 : zq (-1) < zq (qfloor q)).
  { replace (zq (-1)) with (- (1)) by (apply Qc_eq_iff; vm_compute; reflexivity). qc_lra. }
  apply zq_lt in H2. lia.
Qed.

Lemma frac_zq k : frac_part (zq k) = 0.
Proof. unfold frac_part. rewrite qfloor_zq. ring. Qed.

Lemma lagG_specG lag zero h : 0 < lag -> lagG (lagspec_of lag) zero h = specG lag zero h.
Proof.
  intro Hpos. unfold lagspec_of, specG.
  destruct (is_int lag) eqn:Ei.
  - apply is_int_zq in Ei. set (k := Qnum (this lag)) in *. clearbody k. subst lag.
    rewrite frac_zq, qfloor_zq. unfold lagG.
    assert (Hk : (0 < k)%Z) by (apply zq_lt; rewrite zq_0; exact Hpos).
    destruct (Z.to_nat k) as [|k'] eqn:Ek; [lia|]. ring.
  - assert (H0 : 0 <= lag) by qc_lra.
    rewrite (qtrunc_floor lag H0). unfold lagG, frac_part. ring.
Qed.

Lemma lag_causal_pos lag : 0 <= lag -> lag_causal (lagspec_of lag) = true.
Proof.
  intro H0. unfold lagspec_of, lag_causal. destruct (is_int lag).
  - apply Z.leb_le. apply Qnum_nonneg. exact H0.
  - rewrite (qtrunc_floor lag H0). apply Z.leb_le. apply qfloor_nonneg. exact H0.
Qed.

Lemma hmap_ext {B} (G G' : list Qc -> B) : (forall h, G h = G' h) ->
  forall xs h, hmap G h xs = hmap G' h xs.
Proof.
  intro H. induction xs as [|el r IH]; intro h; [reflexivity|].
  cbn [hmap]. rewrite H, IH. reflexivity.
Qed.

Lemma lag_filter_absdiff lag zero xs : 0 < lag ->
  map qabs (lag_filter (lagspec_of lag) zero xs) = absdiff zero lag xs.
Proof.
  intro Hpos. rewrite lag_filter_hist, absdiff_hist. f_equal.
  apply hmap_ext. intro h. apply lagG_specG. exact Hpos.
Qed.

(* ---------------------------------------------------------------- statements *)
(* lag > 0, size >= 1, every c, zero and input: amdf = moving average (default
   strategy deque, same c and zero) of |x[n] - x[n-lag]| *)
Lemma amdf_is_spec c size zero lag xs : (1 <= size)%nat -> 0 < lag ->
  amdf c size zero lag xs = Ok (amdf_spec c size zero lag xs).
Proof.
  intros Hs Hpos. unfold amdf, amdf_spec.
  destruct size as [|k]; [lia|].
  rewrite lag_causal_pos by qc_lra. f_equal.
  rewrite lag_filter_absdiff by exact Hpos.
  apply (mav_run_spec MDeque). lia.
Qed.

(* lag = 0: 1 - z^0 is the all-zero filter, whose output is `zero` at every sample *)
Lemma lagspec_of_0 : lagspec_of 0 = LagInt 0.
Proof. reflexivity. Qed.

Lemma lag_filter_0 zero : forall xs, lag_filter (LagInt 0) zero xs = map (fun _ => zero) xs.
Proof.
  unfold lag_filter. cbn [lag_regs Z.to_nat repeat].
  induction xs as [|el r IH]; [reflexivity|]. cbn [mealy lag_step Z.to_nat map]. rewrite IH. reflexivity.
Qed.

Lemma amdf_lag0 c size zero xs : (1 <= size)%nat ->
  amdf c size zero 0 xs = Ok (mav_spec_off MDeque c size zero (map (fun _ => qabs zero) xs)).
Proof.
  intro Hs. unfold amdf. destruct size as [|k]; [lia|].
  rewrite lagspec_of_0. cbn [lag_causal Z.leb Z.compare]. f_equal.
  rewrite lag_filter_0, map_map. apply (mav_run_spec MDeque). lia.
Qed.

Lemma qfloor_0 : qfloor 0 = 0%Z.
Proof. reflexivity. Qed.

Lemma map_const_seq {B} (c : B) : forall (xs : list Qc) a,
  map (fun _ => c) (seq a (length xs)) = map (fun _ => c) xs.
Proof.
  induction xs as [|x r IH]; intro a; [reflexivity|]. cbn [length seq map]. rewrite IH. reflexivity.
Qed.

Lemma absdiff_lag0 zero xs : absdiff zero 0 xs = map (fun _ => 0) xs.
Proof.
  unfold absdiff, tabulate. rewrite <- (map_const_seq 0 xs 0%nat).
  apply map_ext_in. intros n Hn. apply in_seq in Hn.
  unfold xlag, frac_part. rewrite qfloor_0. cbn [Z.to_nat].
  replace (zq 0) with 0 by (symmetry; apply zq_0).
  unfold xat at 1. cbn [Nat.leb]. rewrite Nat.sub_0_r.
  rewrite (nth_indep xs zero 0) by lia.
  replace (nth n xs 0 - ((1 - (0 - 0)) * nth n xs 0 + (0 - 0) * xat zero xs n 1)) with 0 by ring.
  reflexivity.
Qed.

(* with zero = 0 (the default) the formula also holds for lag = 0 *)
Lemma amdf_lag0_zero0 c size xs : (1 <= size)%nat ->
  amdf c size 0 0 xs = Ok (amdf_spec c size 0 0 xs).
Proof.
  intro Hs. rewrite amdf_lag0 by exact Hs. unfold amdf_spec. rewrite absdiff_lag0. reflexivity.
Qed.

(* with zero <> 0 it does not (recorded finding C20-amdf-lag0-zero) *)
Lemma amdf_lag0_refuted : exists c size zero xs, (1 <= size)%nat /\
  amdf c size zero 0 xs <> Ok (amdf_spec c size zero 0 xs).
Proof.
  exists (qc 1 2), 2%nat, (qc 1 3), [qc 1 1; qc 2 3; qc (-5) 2; qc 4 1].
  split; [lia|]. vm_compute. intro H. discriminate H.
Qed.

(* errors: size 0 first (maverage(0)), then a non-causal lag *)
Lemma amdf_size0 c zero lag xs : amdf c 0 zero lag xs = Err "ZeroDivisionError".
Proof. reflexivity. Qed.
