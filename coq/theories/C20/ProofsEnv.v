(* C20 - the one-pole low-pass recursion equals its closed form; the envelope
   strategies are that low-pass applied to |x| / x^2 (and its symbolic root). *)
From Coq Require Import String List Bool Arith ZArith QArith Qcanon Lia.
From AL Require Import Base.CaseLib C20.Model C20.Spec C20.Lib.
Import ListNotations.
Open Scope Qc_scope.

(* the filter memory m1 before sample n is read *)
Definition lp_prev (g a1 : Qc) (u : list Qc) (n : nat) : Qc :=
  match n with O => 0 | S m => lowpass_formula g a1 u m end.

Lemma lowpass_rec g a1 u n :
  lowpass_formula g a1 u n = g * nth n u 0 + - a1 * lp_prev g a1 u n.
Proof.
  destruct n as [|m]; cbn [lp_prev]; unfold lowpass_formula.
  - cbn [sum_upto Nat.sub Qcpower]. ring.
  - change (sum_upto (fun k => (- a1) ^ (S m - k) * nth k u 0) (S (S m)))
      with (sum_upto (fun k => (- a1) ^ (S m - k) * nth k u 0) (S m)
            + (- a1) ^ (S m - S m) * nth (S m) u 0).
    rewrite Nat.sub_diag.
    rewrite (sum_upto_ext_lt (fun k => (- a1) ^ (S m - k) * nth k u 0)
                             (fun k => - a1 * ((- a1) ^ (m - k) * nth k u 0)) (S m)).
    + rewrite sum_upto_scale. cbn [Qcpower]. ring.
    + intros j Hj. replace (S m - j)%nat with (S (m - j)) by lia. cbn [Qcpower]. ring.
Qed.

Lemma lowpass_index g a1 : forall xs pre,
  mealy (onepole_step g a1) (lp_prev g a1 (pre ++ xs) (length pre)) xs
  = map (lowpass_formula g a1 (pre ++ xs)) (seq (length pre) (length xs)).
Proof.
  induction xs as [|el r IH]; intro pre; [reflexivity|].
  cbn [mealy onepole_step length seq map].
  assert (E : g * el + - a1 * lp_prev g a1 (pre ++ el :: r) (length pre)
              = lowpass_formula g a1 (pre ++ el :: r) (length pre)).
  { rewrite lowpass_rec. rewrite app_nth2 by lia. rewrite Nat.sub_diag. reflexivity. }
  rewrite E. f_equal.
  specialize (IH (pre ++ [el])). rewrite app_length in IH. cbn [length] in IH.
  rewrite <- app_assoc in IH. cbn [app] in IH.
  replace (length pre + 1)%nat with (S (length pre)) in IH by lia. exact IH.
Qed.

Lemma lowpass_call_spec g a1 u : lowpass_call g a1 u = lowpass_spec g a1 u.
Proof. exact (lowpass_index g a1 u []). Qed.

Lemma map_square xs : map (fun v : Qc => v * v) xs = map (fun v => v ^ 2) xs.
Proof. apply map_ext. intro v. cbn [Qcpower]. ring. Qed.

(* envelope.abs = lowpass(|x|), envelope.squared = lowpass(x^2), envelope.rms = sqrt of the latter *)
Lemma envelope_is_lowpass s g a1 xs : envelope s g a1 xs = envelope_spec s g a1 xs.
Proof.
  destruct s; cbn [envelope envelope_spec]; rewrite lowpass_call_spec, ?map_square; reflexivity.
Qed.

Lemma envelope_length s g a1 xs : length (envelope s g a1 xs) = length xs.
Proof.
  rewrite envelope_is_lowpass.
  destruct s; cbn [envelope_spec]; rewrite map_length; unfold lowpass_spec;
    rewrite tabulate_length, map_length; reflexivity.
Qed.
