(* C20 - clip: formula, bounds, idempotence, identity without limits, bad limits. *)
From Coq Require Import String List Bool Arith ZArith QArith Qcanon Lqa Lia.
From AL Require Import Base.CaseLib C20.Model C20.Spec C20.Lib.
Import ListNotations.
Open Scope Qc_scope.

Lemma clip_eq_spec low high xs : clip low high xs = clip_spec low high xs.
Proof.
  unfold clip, clip_spec, limits_ok, clip_formula.
  destruct low as [l|], high as [h|].
  - unfold Qc_ltb at 1. destruct (Qc_leb l h) eqn:Elh; cbn [negb]; [|reflexivity].
    apply Qc_leb_spec in Elh. f_equal. apply map_ext. intro el.
    unfold qmin, qmax.
    case_ltb h el.
    + case_leb el l; [case_leb l h|case_leb el h]; qc_lra.
    + case_ltb el l.
      * case_leb el l; [case_leb l h|case_leb el h]; qc_lra.
      * case_leb el l; [case_leb l h|case_leb el h]; qc_lra.
  - f_equal. apply map_ext. intro el. unfold qmax.
    case_ltb l el; case_leb el l; qc_lra.
  - f_equal. apply map_ext. intro el. unfold qmin.
    case_ltb el h; case_leb el h; qc_lra.
  - rewrite map_id. reflexivity.
Qed.

Lemma clip_formula_within low high x : limits_ok low high = true ->
  within low high (clip_formula low high x).
Proof.
  unfold limits_ok, within, clip_formula, qmin, qmax. intro Hok.
  destruct low as [l|], high as [h|]; split; intros b Hb; inversion Hb; subst b; clear Hb.
  - apply Qc_leb_spec in Hok. case_leb x l; [case_leb l h|case_leb x h]; qc_lra.
  - apply Qc_leb_spec in Hok. case_leb x l; [case_leb l h|case_leb x h]; qc_lra.
  - case_leb x l; qc_lra.
  - case_leb x h; qc_lra.
Qed.

(* a sample already within the limits is left alone *)
Lemma clip_formula_fix low high y : within low high y -> clip_formula low high y = y.
Proof.
  unfold within, clip_formula, qmin, qmax. intros [Hl Hh].
  destruct low as [l|], high as [h|].
  - specialize (Hl l eq_refl). specialize (Hh h eq_refl).
    case_leb y l; [case_leb l h|case_leb y h]; qc_lra.
  - specialize (Hl l eq_refl). case_leb y l; qc_lra.
  - specialize (Hh h eq_refl). case_leb y h; qc_lra.
  - reflexivity.
Qed.

Lemma clip_ok_inv low high xs ys : clip low high xs = Ok ys ->
  limits_ok low high = true /\ ys = map (clip_formula low high) xs.
Proof.
  rewrite clip_eq_spec. unfold clip_spec. destruct (limits_ok low high); [|discriminate].
  intro H. inversion H. auto.
Qed.

(* every output sample respects each limit that is not None *)
Lemma clip_bounds low high xs ys : clip low high xs = Ok ys -> Forall (within low high) ys.
Proof.
  intro H. apply clip_ok_inv in H as [Hok ->]. apply Forall_forall. intros y Hy.
  apply in_map_iff in Hy as [x [<- _]]. apply clip_formula_within. exact Hok.
Qed.

Lemma clip_idempotent low high xs ys : clip low high xs = Ok ys -> clip low high ys = Ok ys.
Proof.
  intro H. pose proof (clip_bounds _ _ _ _ H) as HB. apply clip_ok_inv in H as [Hok _].
  rewrite clip_eq_spec. unfold clip_spec. rewrite Hok. f_equal.
  rewrite <- (map_id ys) at 2. apply map_ext_in. intros y Hy.
  apply clip_formula_fix. rewrite Forall_forall in HB. apply HB. exact Hy.
Qed.

Lemma clip_none_is_identity xs : clip None None xs = Ok xs.
Proof. reflexivity. Qed.

Lemma clip_length low high xs ys : clip low high xs = Ok ys -> length ys = length xs.
Proof. intro H. apply clip_ok_inv in H as [_ ->]. apply map_length. Qed.

(* ValueError exactly when both limits are given and high < low *)
Lemma clip_bad_limits low high xs :
  clip low high xs = Err "ValueError" <-> exists l h, low = Some l /\ high = Some h /\ h < l.
Proof.
  unfold clip. destruct low as [l|], high as [h|]; split; intro H;
    try discriminate; try (destruct H as [l' [h' [H1 [H2 _]]]]; discriminate).
  - exists l, h. case_ltb h l; [auto|discriminate].
  - destruct H as [l' [h' [H1 [H2 H3]]]]. inversion H1; inversion H2; subst l' h'.
    apply Qc_ltb_spec in H3. rewrite H3. reflexivity.
Qed.

Lemma clip_total low high xs : (exists ys, clip low high xs = Ok ys) \/ clip low high xs = Err "ValueError".
Proof.
  unfold clip. destruct low as [l|], high as [h|]; try (left; eexists; reflexivity).
  destruct (Qc_ltb h l); [right; reflexivity|left; eexists; reflexivity].
Qed.
