(* C20 - unwrap: outputs differ from inputs by integer multiples of step, inputs
   without a jump above max_delta are untouched, and (step > 0) no adjacent
   output jump exceeds max(max_delta, step/2). *)
From Coq Require Import String List Bool Arith ZArith QArith Qcanon Lqa Lia.
From AL Require Import Base.CaseLib C20.Model C20.Spec C20.Lib.
Import ListNotations.
Open Scope Qc_scope.

(* the loop without the ZeroDivisionError exit (step <> 0) *)
Fixpoint uw_pure (md step d0 delta : Qc) (xs : list Qc) : list Qc :=
  match xs with
  | [] => []
  | d1 :: r =>
      let delta' := if Qc_ltb md (qabs (d1 - d0)) then delta + uw_corr step (d1 - d0) else delta in
      (d1 + delta') :: uw_pure md step d1 delta' r
  end.

Lemma uw_go_pure md step : step <> 0 -> forall xs d0 delta,
  uw_go md step d0 delta xs = (uw_pure md step d0 delta xs, false).
Proof.
  intro Hs. apply Qc_eqb_false in Hs.
  induction xs as [|d1 r IH]; intros d0 delta; [reflexivity|].
  cbn [uw_go uw_pure]. destruct (Qc_ltb md (qabs (d1 - d0))).
  - rewrite Hs, IH. reflexivity.
  - rewrite IH. reflexivity.
Qed.

Lemma unwrap_pure md step xs : step <> 0 ->
  unwrap md step xs
  = (match xs with [] => [] | d0 :: r => d0 :: uw_pure md step d0 (d0 - d0) r end, false).
Proof.
  intro Hs. destruct xs as [|d0 r]; [reflexivity|].
  cbn [unwrap]. rewrite uw_go_pure by exact Hs. reflexivity.
Qed.

(* ---------------------------------------------------------------- the two remainders *)
Lemma zq_m2 : zq (-2) = - (1 + 1).
Proof. apply Qc_eq_iff. vm_compute. reflexivity. Qed.
Lemma zq_m1 : zq (-1) = - (1).
Proof. apply Qc_eq_iff. vm_compute. reflexivity. Qed.

Lemma floor_pair t : - (1) <= zq (qfloor t) + zq (qfloor (- t)) /\ zq (qfloor t) + zq (qfloor (- t)) <= 0.
Proof.
  pose proof (qfloor_le t) as A1. pose proof (qfloor_lt t) as A2.
  pose proof (qfloor_le (- t)) as B1. pose proof (qfloor_lt (- t)) as B2.
  split; [|qc_lra].
  assert (H : zq (-2) < zq (qfloor t + qfloor (- t))).
  { rewrite zq_add, zq_m2. qc_lra. }
  apply zq_lt in H.
  assert (H' : (-1 <= qfloor t + qfloor (- t))%Z) by lia.
  apply zq_le in H'. rewrite zq_add, zq_m1 in H'. exact H'.
Qed.

Lemma qmod_pair d step : 0 < step ->
  0 <= qmod d step /\ qmod d (- step) <= 0 /\ qmod d step - qmod d (- step) <= step.
Proof.
  intro Hs. unfold qmod.
  assert (Hs0 : step <> 0) by (intro E; rewrite E in Hs; qc_lra).
  assert (Hs1 : - step <> 0) by (intro E; apply Hs0; qc_lra).
  assert (E2 : d / - step = - (d / step)) by (field; split; assumption).
  rewrite E2.
  assert (Ed : d = d / step * step) by (field; exact Hs0).
  set (t := d / step) in *.
  pose proof (qfloor_le t) as A1.
  pose proof (qfloor_le (- t)) as B1.
  destruct (floor_pair t) as [F1 F2].
  set (M := zq (qfloor t)) in *. set (M' := zq (qfloor (- t))) in *.
  rewrite Ed. clearbody M M' t. clear Ed E2.
  repeat split; qc_nra.
Qed.

Lemma half_double x : half x + half x = x.
Proof.
  unfold half. field. intro H. apply Qc_eq_iff in H. vm_compute in H. discriminate.
Qed.

Lemma minabs_bound a b step : 0 <= a -> b <= 0 -> a - b <= step -> qabs (minabs a b) <= half step.
Proof.
  intros Ha Hb Hab. pose proof (half_double step) as HH. set (H2 := half step) in *. clearbody H2.
  unfold minabs.
  destruct (qabs_cases a) as [[Ha1 Ea]|[Ha1 Ea]]; destruct (qabs_cases b) as [[Hb1 Eb]|[Hb1 Eb]];
    rewrite Ea, Eb; match goal with |- context [Qc_ltb ?u ?v] => case_ltb u v end;
    rewrite ?Ea, ?Eb; qc_lra.
Qed.

Lemma uw_corr_bound step d : 0 < step -> qabs (d + uw_corr step d) <= half step.
Proof.
  intro Hs. unfold uw_corr.
  replace (d + (- d + minabs (qmod d step) (qmod d (- step))))
    with (minabs (qmod d step) (qmod d (- step))) by ring.
  destruct (qmod_pair d step Hs) as [H1 [H2 H3]]. apply minabs_bound; assumption.
Qed.

(* ---------------------------------------------------------------- multiples of step *)
Lemma is_multiple_0 step : is_multiple step 0.
Proof. exists 0%Z. rewrite zq_0. ring. Qed.
Lemma is_multiple_add step a b : is_multiple step a -> is_multiple step b -> is_multiple step (a + b).
Proof. intros [k ->] [k' ->]. exists (k + k')%Z. rewrite zq_add. ring. Qed.
Lemma uw_corr_multiple step d : is_multiple step (uw_corr step d).
Proof.
  unfold uw_corr, minabs, qmod. destruct (Qc_ltb _ _).
  - exists (qfloor (d / - step)). ring.
  - exists (- qfloor (d / step))%Z. rewrite zq_opp. ring.
Qed.

Lemma uw_pure_multiple md step : forall xs d0 delta, is_multiple step delta ->
  Forall2 (fun o x => is_multiple step (o - x)) (uw_pure md step d0 delta xs) xs.
Proof.
  induction xs as [|d1 r IH]; intros d0 delta Hd; [constructor|].
  cbn [uw_pure].
  assert (Hd' : is_multiple step (if Qc_ltb md (qabs (d1 - d0))
                                  then delta + uw_corr step (d1 - d0) else delta)).
  { destruct (Qc_ltb _ _); [apply is_multiple_add; [exact Hd|apply uw_corr_multiple]|exact Hd]. }
  constructor; [|apply IH; exact Hd'].
  match goal with |- is_multiple _ (d1 + ?x - d1) => replace (d1 + x - d1) with x by ring end.
  exact Hd'.
Qed.

Lemma uw_pure_length md step : forall xs d0 delta, length (uw_pure md step d0 delta xs) = length xs.
Proof. induction xs as [|d1 r IH]; intros; cbn [uw_pure length]; [reflexivity|rewrite IH; reflexivity]. Qed.

(* ---------------------------------------------------------------- no jump: identity *)
Lemma uw_pure_identity md step : forall xs d0 delta, no_jump md (d0 :: xs) ->
  uw_pure md step d0 delta xs = map (fun x => x + delta) xs.
Proof.
  induction xs as [|d1 r IH]; intros d0 delta Hn; [reflexivity|].
  cbn [no_jump] in Hn. destruct Hn as [H1 H2].
  cbn [uw_pure map]. apply Qc_ltb_false in H1. rewrite H1. f_equal. apply IH. exact H2.
Qed.

(* ---------------------------------------------------------------- output jumps *)
Lemma qmax_l a b : a <= qmax a b.
Proof. unfold qmax. case_leb a b; qc_lra. Qed.
Lemma qmax_r a b : b <= qmax a b.
Proof. unfold qmax. case_leb a b; qc_lra. Qed.

Lemma uw_pure_jumps md step : 0 < step -> forall xs d0 delta,
  no_jump (qmax md (half step)) ((d0 + delta) :: uw_pure md step d0 delta xs).
Proof.
  intros Hs. induction xs as [|d1 r IH]; intros d0 delta; [exact I|].
  cbn [uw_pure]. cbn [no_jump]. split; [|apply IH].
  case_ltb md (qabs (d1 - d0)).
  - replace (d1 + (delta + uw_corr step (d1 - d0)) - (d0 + delta))
      with ((d1 - d0) + uw_corr step (d1 - d0)) by ring.
    apply Qcle_trans with (half step); [apply uw_corr_bound; exact Hs|apply qmax_r].
  - replace (d1 + delta - (d0 + delta)) with (d1 - d0) by ring.
    apply Qcle_trans with md; [exact E|apply qmax_l].
Qed.

(* ---------------------------------------------------------------- statements about unwrap *)
Lemma unwrap_no_error md step xs : step <> 0 -> snd (unwrap md step xs) = false.
Proof. intro Hs. rewrite unwrap_pure by exact Hs. reflexivity. Qed.

Lemma unwrap_length md step xs : step <> 0 -> length (fst (unwrap md step xs)) = length xs.
Proof.
  intro Hs. rewrite unwrap_pure by exact Hs. destruct xs as [|d0 r]; [reflexivity|].
  cbn [fst length]. rewrite uw_pure_length. reflexivity.
Qed.

Lemma unwrap_multiple_of_step md step xs : step <> 0 ->
  Forall2 (fun o x => is_multiple step (o - x)) (fst (unwrap md step xs)) xs.
Proof.
  intro Hs. rewrite unwrap_pure by exact Hs. destruct xs as [|d0 r]; [constructor|].
  cbn [fst]. constructor.
  - replace (d0 - d0) with 0 by ring. apply is_multiple_0.
  - apply uw_pure_multiple. replace (d0 - d0) with 0 by ring. apply is_multiple_0.
Qed.

Lemma map_add0' l : map (fun x : Qc => x + 0) l = l.
Proof. rewrite <- (map_id l) at 2. apply map_ext. intro v. ring. Qed.

Lemma unwrap_identity_below_max_delta md step xs : step <> 0 -> no_jump md xs ->
  fst (unwrap md step xs) = xs.
Proof.
  intros Hs Hn. rewrite unwrap_pure by exact Hs. destruct xs as [|d0 r]; [reflexivity|].
  cbn [fst]. f_equal. rewrite uw_pure_identity by exact Hn.
  replace (d0 - d0) with 0 by ring. apply map_add0'.
Qed.

Lemma unwrap_jump_bound md step xs : 0 < step ->
  jumps_le (qmax md (half step)) (fst (unwrap md step xs)).
Proof.
  intro Hs. assert (Hs0 : step <> 0) by (intro E; rewrite E in Hs; qc_lra).
  rewrite unwrap_pure by exact Hs0. destruct xs as [|d0 r]; [exact I|].
  cbn [fst]. unfold jumps_le.
  pose proof (uw_pure_jumps md step Hs r d0 (d0 - d0)) as H.
  replace (d0 + (d0 - d0)) with d0 in H by ring. exact H.
Qed.

(* step = 0 (malformed): a sequence without a jump is still returned unchanged,
   the first jump above max_delta raises ZeroDivisionError *)
Lemma uw_go_step0_no_jump md : forall xs d0 delta, no_jump md (d0 :: xs) ->
  uw_go md 0 d0 delta xs = (map (fun x => x + delta) xs, false).
Proof.
  induction xs as [|d1 r IH]; intros d0 delta Hn; [reflexivity|].
  cbn [no_jump] in Hn. destruct Hn as [H1 H2].
  cbn [uw_go map]. apply Qc_ltb_false in H1. rewrite H1. rewrite IH by exact H2. reflexivity.
Qed.

Lemma unwrap_empty md step : unwrap md step [] = ([], false).
Proof. reflexivity. Qed.
