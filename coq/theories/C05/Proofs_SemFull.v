(* C05 - rational-function layer, part 8: every operator tree, substitution included, evaluates to a
   filter object denoting the tree's textbook value. *)
From Coq Require Import List Bool ZArith QArith Qcanon Lia String.
From AL Require Import Base.CaseLib C07.Model C07.Spec C07.Lib C07.Proofs_Ring C07.Proofs_Eval
  C05.Model C05.Spec C05.Lib_Ring C05.Proofs_Domain C05.Proofs_Frac C05.Proofs_Field C05.Proofs_Pow
  C05.Proofs_Subst C05.Proofs_Sem C05.Proofs_Laws C05.Proofs_Hom.
Import ListNotations.
Open Scope Qc_scope.

Theorem sem_sound e : forall f s, feval e = Ok f -> sem e = Some s -> R f s.
Proof.
  induction e; intros f s Ef Es;
    try (match type of Ef with feval ?e0 = _ => apply (sem_sound_nocall e0 eq_refl f s Ef Es) end).
  all: cbn [feval sem] in Ef, Es.
  - bind_inv Ef fa Ea. obind_inv Es sa Sa. injection Es as <-.
    apply (R_fneg fa f sa (IHe _ _ eq_refl eq_refl) Ef).
  - bind_inv Ef fa Ea. apply (R_fpos fa f s (IHe _ _ eq_refl Es) Ef).
  - bind_inv Ef fa Ea. bind_inv Ef fb Eb. obind_inv Es sa Sa. obind_inv Es sb Sb. injection Es as <-.
    apply (R_fadd fa fb f sa sb (IHe1 _ _ eq_refl eq_refl) (IHe2 _ _ eq_refl eq_refl) Ef).
  - bind_inv Ef fa Ea. bind_inv Ef fb Eb. obind_inv Es sa Sa. obind_inv Es sb Sb. injection Es as <-.
    apply (R_fsub fa fb f sa sb (IHe1 _ _ eq_refl eq_refl) (IHe2 _ _ eq_refl eq_refl) Ef).
  - bind_inv Ef fa Ea. bind_inv Ef fb Eb. obind_inv Es sa Sa. obind_inv Es sb Sb. injection Es as <-.
    apply (R_fmul fa fb f sa sb (IHe1 _ _ eq_refl eq_refl) (IHe2 _ _ eq_refl eq_refl) Ef).
  - bind_inv Ef fa Ea. bind_inv Ef fb Eb. obind_inv Es sa Sa. obind_inv Es sb Sb.
    apply defined_some in Es as [Es Hs]. injection Es as <-.
    apply (R_fdiv fa fb f sa sb (IHe1 _ _ eq_refl eq_refl) (IHe2 _ _ eq_refl eq_refl)); [|exact Ef].
    intro E0. apply Hs. unfold q_div, q_mul, q_inv. cbn [fst snd]. rewrite E0.
    clear. induction (snd sa) as [|x l IHl]; [reflexivity|]. unfold pmul in *. simpl. exact IHl.
  - bind_inv Ef fa Ea. obind_inv Es sa Sa. injection Es as <-.
    apply (R_fadds fa c f sa (IHe _ _ eq_refl eq_refl) Ef).
  - bind_inv Ef fa Ea. obind_inv Es sa Sa. injection Es as <-.
    apply (R_sfadd c fa f sa (IHe _ _ eq_refl eq_refl) Ef).
  - bind_inv Ef fa Ea. obind_inv Es sa Sa. injection Es as <-.
    apply (R_fsubs fa c f sa (IHe _ _ eq_refl eq_refl) Ef).
  - bind_inv Ef fa Ea. obind_inv Es sa Sa. injection Es as <-.
    apply (R_sfsub c fa f sa (IHe _ _ eq_refl eq_refl) Ef).
  - bind_inv Ef fa Ea. obind_inv Es sa Sa. injection Es as <-.
    apply (R_fmuls fa c f sa (IHe _ _ eq_refl eq_refl) Ef).
  - bind_inv Ef fa Ea. obind_inv Es sa Sa. injection Es as <-.
    apply (R_sfmul c fa f sa (IHe _ _ eq_refl eq_refl) Ef).
  - bind_inv Ef fa Ea. obind_inv Es sa Sa. destruct (Qc_eqb c 0) eqn:Ec; [discriminate|]. injection Es as <-.
    apply (R_fdivs fa c f sa (IHe _ _ eq_refl eq_refl)); [apply Qc_eqb_false; exact Ec|exact Ef].
  - bind_inv Ef fa Ea. obind_inv Es sa Sa. apply defined_some in Es as [Es Hs]. injection Es as <-.
    apply (R_sfdiv c fa f sa (IHe _ _ eq_refl eq_refl)); [|exact Ef].
    intro E0. apply Hs. unfold q_div, q_mul, q_inv, q_const. cbn [fst snd]. rewrite E0. vm_compute. reflexivity.
  - bind_inv Ef fa Ea. obind_inv Es sa Sa.
    apply (R_fpow_z fa sa n f s (IHe _ _ eq_refl eq_refl) Ef Es).
  - (* FCall *)
    bind_inv Ef fa Ea. bind_inv Ef fb Eb. obind_inv Es sa Sa. obind_inv Es sb Sb.
    destruct (is_zero (fst sb)) eqn:Ez; [discriminate|]. apply is_zero_false in Ez.
    obind_inv Es u Eu. obind_inv Es v Ev. apply defined_some in Es as [Es Hs]. injection Es as <-.
    apply (R_fsubst_full fa fb sa sb f u v (IHe1 _ _ eq_refl eq_refl) (IHe2 _ _ eq_refl eq_refl) Ez Ef Eu Ev).
    intro E0. apply Hs. unfold q_div, q_mul, q_inv. cbn [fst snd]. rewrite E0.
    clear. induction (snd u) as [|x l IHl]; [reflexivity|]. unfold pmul in *. simpl. exact IHl.
Qed.

Corollary sem_sound_equiv_full e f s : feval e = Ok f -> sem e = Some s ->
  frac_equiv (fr_of f) s /\ fden f <> [] /\ snd s <> [].
Proof.
  intros Ef Es. destruct (sem_sound e f s Ef Es) as ((_ & _ & Hd) & _ & Hs & E).
  split; [apply frac_equiv_deq; exact E|split; assumption].
Qed.

(* two trees with the same textbook value evaluate to equivalent filter objects *)
Corollary sem_equal_values e e' f f' s s' : feval e = Ok f -> feval e' = Ok f' ->
  sem e = Some s -> sem e' = Some s' -> frac_equiv s s' -> fequiv f f'.
Proof.
  intros Ef Ef' Es Es' H. apply (R_same f f' s s' (sem_sound e f s Ef Es) (sem_sound e' f' s' Ef' Es')).
  apply frac_equiv_deq. exact H.
Qed.

(* substitution, stated on the filter objects *)
Theorem fsubst_evaluates_full f g h u v : fok f -> fok g -> fnum g <> [] -> fsubst f g = Ok h ->
  q_at (fnum f) (fr_of g) = Some u -> q_at (fden f) (fr_of g) = Some v -> fst v <> [] ->
  frac_equiv (fr_of h) (q_div u v).
Proof. intros Ff Fg Hg E Eu Ev Hv. apply R_frac. apply (R_fsubst f g _ h u v (fok_self g Fg) E Eu Ev Hv). Qed.
Theorem fsubst_respects_outer f f' g h h' : fok f -> fok f' -> fok g -> fnum g <> [] -> fequiv f f' ->
  fsubst f g = Ok h -> fsubst f' g = Ok h' -> fequiv h h'.
Proof.
  intros Ff Ff' Fg Hg He E E'.
  pose proof (fok_self g Fg) as Rg. pose proof Fg as (Wn & Wd & Hd).
  destruct (q_at_some (fnum g) (fden g) Wn Hg (fnum f')) as (u & Eu).
  destruct (q_at_some (fnum g) (fden g) Wn Hg (fden f')) as (v & Ev).
  pose proof (fsubst_den_nz f' g (fr_of g) h' v Rg E' Ev) as Hv.
  assert (R f (fr_of f')) as Rf.
  { split; [exact Ff|split; [apply fok_wf; exact Ff'|split; [apply Ff'|apply frac_equiv_deq; exact He]]]. }
  pose proof (R_fsubst_full f g (fr_of f') (fr_of g) h u v Rf Rg Hg E Eu Ev Hv) as R1.
  pose proof (R_fsubst_full f' g (fr_of f') (fr_of g) h' u v (fok_self f' Ff') Rg Hg E' Eu Ev Hv) as R2.
  apply (R_same _ _ _ _ R1 R2). unfold fr_deq. apply deq_refl.
Qed.
