(* C05 - the signal layer: algebra on filter objects commutes with applying them to signals.
   Every proof: show that the claimed output solves the difference equation of the composite
   filter (module laws of polynomials acting on signals), conclude by run_characterised. *)
From Coq Require Import List Bool ZArith QArith Qcanon Lia String.
From AL Require Import Base.CaseLib C07.Model C07.Spec C07.Lib C07.Proofs_Ring C07.Proofs_Eval
  C05.Model C05.Spec C05.Lib C05.Proofs_Run C05.Proofs_Ops.
Import ListNotations.
Open Scope Qc_scope.

(* ------------------------------------------------------------------ lists as signals *)
Lemma zip_add_length a : forall b, List.length a = List.length b -> List.length (zip_add a b) = List.length a.
Proof. induction a as [|x r IH]; intros [|y s] H; simpl in *; try congruence. f_equal. apply IH. congruence. Qed.
Lemma nth_zip_add a : forall b i, List.length a = List.length b ->
  nth i (zip_add a b) 0 = nth i a 0 + nth i b 0.
Proof.
  induction a as [|x r IH]; intros [|y s] i H; simpl in *; try congruence.
  - destruct i; ring.
  - destruct i; [reflexivity|]. apply IH. congruence.
Qed.
Lemma sig_zip_add a b m : List.length a = List.length b -> sig (zip_add a b) m = sig a m + sig b m.
Proof. intro H. unfold sig. destruct (m <? 0)%Z; [ring|]. apply nth_zip_add. exact H. Qed.
Lemma nth_map_scale c l : forall i, nth i (map (Qcmult c) l) 0 = c * nth i l 0.
Proof. induction l as [|x r IH]; intros [|i]; simpl; try ring. apply IH. Qed.
Lemma sig_map_scale c l m : sig (map (Qcmult c) l) m = c * sig l m.
Proof. unfold sig. destruct (m <? 0)%Z; [ring|]. apply nth_map_scale. Qed.
Lemma nth_map_opp l : forall i, nth i (map Qcopp l) 0 = - nth i l 0.
Proof. induction l as [|x r IH]; intros [|i]; simpl; try ring. apply IH. Qed.
Lemma sig_map_opp l m : sig (map Qcopp l) m = - sig l m.
Proof. unfold sig. destruct (m <? 0)%Z; [ring|]. apply nth_map_opp. Qed.

Lemma frun_ok f x y : causal_ok f -> frun f x = Ok y -> resp_lists f x y.
Proof. intros Hf H. apply (run_characterised f x y Hf). exact H. Qed.
Lemma frun_of_resp f x y : causal_ok f -> resp_lists f x y -> frun f x = Ok y.
Proof. intros Hf H. apply (run_characterised f x y Hf). exact H. Qed.
Lemma frun_length f x y : causal_ok f -> frun f x = Ok y -> List.length y = List.length x.
Proof. intros Hf H. apply (frun_ok f x y Hf H). Qed.

(* multiply a difference equation through by a causal polynomial *)
Lemma resp_through p n d X Y N : nonneg p -> eq_upto N (act d Y) (act n X) ->
  eq_upto N (act (pmul p d) Y) (act (pmul p n) X).
Proof. intros Hp H t Ht. rewrite !act_pmul. apply (act_eq_upto p _ _ N Hp H t Ht). Qed.
Lemma resp_through_r p n d X Y N : nonneg p -> eq_upto N (act d Y) (act n X) ->
  eq_upto N (act (pmul d p) Y) (act (pmul n p) X).
Proof.
  intros Hp H t Ht. rewrite (act_deq _ _ _ _ (pmul_comm_deq d p)), (act_deq _ _ _ _ (pmul_comm_deq n p)).
  apply (resp_through p n d X Y N Hp H t Ht).
Qed.

(* ------------------------------------------------------------------ run_add *)
Theorem run_add f g h x yf yg : causal_ok f -> causal_ok g -> fadd f g = Ok h ->
  frun f x = Ok yf -> frun g x = Ok yg -> frun h x = Ok (zip_add yf yg).
Proof.
  intros Hf Hg Hh Rf Rg.
  destruct (frun_ok f x yf Hf Rf) as [Lf Ef]. destruct (frun_ok g x yg Hg Rg) as [Lg Eg].
  assert (List.length yf = List.length yg) as HL by congruence.
  unfold resp in Ef, Eg.
  pose proof Hf as (Wnf & Wdf & Nnf & Ndf & Haf). pose proof Hg as (Wng & Wdg & Nng & Ndg & Hag).
  destruct (peq (fden f) (fden g)) eqn:E.
  - destruct (fadd_causal_eq f g Hf Hg E) as [E1 C1]. rewrite E1 in Hh. injection Hh as <-.
    apply frun_of_resp; [exact C1|]. split; [rewrite zip_add_length by exact HL; exact Lf|].
    intros t Ht. simpl. rewrite (act_ext _ _ (fun m => sig yf m + sig yg m)) by (intro; apply sig_zip_add; exact HL).
    rewrite act_plus, act_padd by (apply Wnf || apply Wng).
    rewrite (Ef t Ht). f_equal.
    rewrite (act_deq _ _ _ _ (deq_of_peq _ _ Wdf Wdg E)). apply (Eg t Ht).
  - destruct (fadd_causal_ne f g Hf Hg E) as [E1 C1]. rewrite E1 in Hh. injection Hh as <-.
    apply frun_of_resp; [exact C1|]. split; [rewrite zip_add_length by exact HL; exact Lf|].
    intros t Ht. simpl. rewrite (act_ext _ _ (fun m => sig yf m + sig yg m)) by (intro; apply sig_zip_add; exact HL).
    rewrite act_plus, act_padd by apply wf_pmul. f_equal.
    + apply (resp_through_r (fden g) _ _ _ _ _ Ndg Ef t Ht).
    + rewrite (act_deq _ _ _ _ (pmul_comm_deq (fnum g) (fden f))).
      apply (resp_through (fden f) _ _ _ _ _ Ndf Eg t Ht).
Qed.

(* ------------------------------------------------------------------ unary minus, run_sub *)
Lemma run_neg f h x y : causal_ok f -> fneg f = Ok h -> frun f x = Ok y -> frun h x = Ok (map Qcopp y).
Proof.
  intros Hf Hh Rf. destruct (frun_ok f x y Hf Rf) as [Lf Ef].
  destruct (fneg_causal f Hf) as [E1 C1]. rewrite E1 in Hh. injection Hh as <-.
  apply frun_of_resp; [exact C1|]. split; [rewrite map_length; exact Lf|].
  intros t Ht. simpl. rewrite (act_ext _ _ (fun m => (- (1)) * sig y m)) by (intro; rewrite sig_map_opp; ring).
  rewrite act_scale, act_pneg by apply Hf. rewrite (Ef t Ht). ring.
Qed.

Theorem run_sub f g h x yf yg : causal_ok f -> causal_ok g -> fsub f g = Ok h ->
  frun f x = Ok yf -> frun g x = Ok yg -> frun h x = Ok (zip_add yf (map Qcopp yg)).
Proof.
  intros Hf Hg Hh Rf Rg. unfold fsub in Hh.
  destruct (fneg_causal g Hg) as [E1 C1]. rewrite E1 in Hh. simpl in Hh.
  apply (run_add f _ h x yf (map Qcopp yg) Hf C1 Hh Rf).
  apply (run_neg g _ x yg Hg E1 Rg).
Qed.

(* ------------------------------------------------------------------ run_scale *)
Theorem run_scale_r f c h x y : causal_ok f -> fmuls f c = Ok h -> frun f x = Ok y ->
  frun h x = Ok (map (Qcmult c) y).
Proof.
  intros Hf Hh Rf. destruct (frun_ok f x y Hf Rf) as [Lf Ef].
  destruct (fmuls_causal f c Hf) as [E1 C1]. rewrite E1 in Hh. injection Hh as <-.
  apply frun_of_resp; [exact C1|]. split; [rewrite map_length; exact Lf|].
  intros t Ht. simpl. rewrite (act_ext _ _ (fun m => c * sig y m)) by (intro; apply sig_map_scale).
  rewrite act_scale. rewrite (act_deq _ _ _ _ (pmul_comm_deq (fnum f) (pconst c))).
  rewrite act_pmul, act_pconst. rewrite (Ef t Ht). reflexivity.
Qed.

(* ------------------------------------------------------------------ run_mul *)
Theorem run_mul f g h x yg y : causal_ok f -> causal_ok g -> fmul f g = Ok h ->
  frun g x = Ok yg -> frun f yg = Ok y -> frun h x = Ok y.
Proof.
  intros Hf Hg Hh Rg Rf.
  destruct (frun_ok g x yg Hg Rg) as [Lg Eg]. destruct (frun_ok f yg y Hf Rf) as [Lf Ef].
  rewrite Lg in Ef. unfold resp in Ef, Eg.
  pose proof Hf as (Wnf & Wdf & Nnf & Ndf & Haf). pose proof Hg as (Wng & Wdg & Nng & Ndg & Hag).
  destruct (fmul_causal f g Hf Hg) as [E1 C1]. rewrite E1 in Hh. injection Hh as <-.
  apply frun_of_resp; [exact C1|]. split; [congruence|].
  intros t Ht. simpl.
  (* df dg . Y = dg . (df . Y) = dg . (nf . W) = nf . (dg . W) = nf . (ng . X) *)
  rewrite (resp_through_r (fden g) _ _ _ _ _ Ndg Ef t Ht).
  rewrite !act_pmul. apply (act_eq_upto (fnum f) _ _ _ Nnf Eg t Ht).
Qed.

(* a product of causal filters can be formed in either order: same filter up to == *)
Lemma fmul_comm_run f g h h' x : causal_ok f -> causal_ok g -> fmul f g = Ok h -> fmul g f = Ok h' ->
  frun h x = frun h' x.
Proof.
  intros Hf Hg E1 E2.
  destruct (fmul_causal f g Hf Hg) as [E1' C1]. destruct (fmul_causal g f Hg Hf) as [E2' C2].
  rewrite E1' in E1. injection E1 as <-. rewrite E2' in E2. injection E2 as <-.
  destruct (frun_resp _ x C1) as (y & Ey & [Ly Ry]). rewrite Ey. symmetry.
  apply frun_of_resp; [exact C2|]. split; [exact Ly|].
  intros t Ht. simpl in *. unfold resp in Ry. simpl in Ry.
  rewrite (act_deq _ _ _ _ (pmul_comm_deq (fden g) (fden f))), (act_deq _ _ _ _ (pmul_comm_deq (fnum g) (fnum f))).
  apply (Ry t Ht).
Qed.
