(* C05 - model of the ZFilter algebra of audiolazy.lazy_filters (exact rational
   coefficients, integer powers of z^-1).  A filter is what a LinearFilter instance
   stores: numpoly and denpoly, two Poly instances (C07.Model.poly: the OrderedDict
   items in insertion order).  Every operator funnels through the LinearFilter
   constructor [ctor] (the denominator shift), exactly as the code builds a new
   ZFilter(...) in every dunder.  Applying a filter to a signal is C04's model of
   LinearFilter.__call__ (code generator + interpreter) with memory=None, zero=0.
   No proofs in this file. *)
From Coq Require Import List Bool ZArith QArith Qcanon String.
From AL Require Import Base.CaseLib C07.Model.
From AL Require C04.Model.
Import ListNotations.
Open Scope Qc_scope.

Record filt := Filt { fnum : poly; fden : poly }.

(* ------------------------------------------------------------------ LinearFilter.__init__ *)
(* min(key for key, value in self.denpoly.terms()) ; None = ValueError (empty sequence) *)
Definition min_key (p : poly) : option Z :=
  match p with
  | [] => None
  | e :: r => Some (fold_left Z.min (map fst r) (fst e))
  end.

(* the part after "self.numpoly = Poly(..); self.denpoly = Poly(..)":
   power = min(...); if power != 0: delta = Poly([0, 1]) ** -power; numpoly *= delta; denpoly *= delta *)
Definition ctor (n d : poly) : res filt :=
  match min_key d with
  | None => Raise "ValueError"
  | Some p => if (p =? 0)%Z then Ok (Filt n d)
              else let delta := ppow (poly_of_list [0; 1]) (- p) in
                   Ok (Filt (pmul n delta) (pmul d delta))
  end.

(* ZFilter(P, Q) with two Poly instances: Poly(P), Poly(Q) copy the items and compact again *)
Definition zf (n d : poly) : res filt := ctor (pcopy n) (pcopy d).
(* ZFilter([c]) : numerator list, denominator None = Poly({0: 1}) *)
Definition one_den : poly := mk [(0%Z, 1)].
Definition fconst (c : Qc) : res filt := ctor (poly_of_list [c]) one_den.
(* z = ZFilter({-1: 1}) *)
Definition fz : res filt := ctor (mk [((-1)%Z, 1)]) one_den.

(* ------------------------------------------------------------------ ZFilter operators *)
Definition fadd (f g : filt) : res filt :=
  if peq (fden f) (fden g) then zf (padd (fnum f) (fnum g)) (fden f)
  else zf (padd (pmul (fnum f) (pcopy (fden g))) (pmul (fnum g) (pcopy (fden f))))
          (pmul (fden f) (fden g)).
(* ZFilterMeta.__unary__ : cls(op(self.numpoly), self.denpoly) *)
Definition fneg (f : filt) : res filt := zf (pneg (fnum f)) (fden f).
Definition fpos (f : filt) : res filt := zf (ppos (fnum f)) (fden f).
(* __sub__ : self + (-other) *)
Definition fsub (f g : filt) : res filt := bind (fneg g) (fadd f).
Definition fmul (f g : filt) : res filt :=
  zf (pmul (fnum f) (fnum g)) (pmul (fden f) (fden g)).
Definition fdiv (f g : filt) : res filt :=
  zf (pmul (fnum f) (fden g)) (pmul (fden f) (fnum g)).
(* a number on the right *)
Definition fadds (f : filt) (c : Qc) : res filt := bind (fconst c) (fadd f).       (* self + ZFilter([c]) *)
Definition fsubs (f : filt) (c : Qc) : res filt := fadds f (- c).                   (* self + (-c) *)
Definition fmuls (f : filt) (c : Qc) : res filt := zf (pmul (fnum f) (pconst c)) (fden f).
Definition fdivs (f : filt) (c : Qc) : res filt :=                                  (* self * truediv(1, c) *)
  if Qc_eqb c 0 then Raise "ZeroDivisionError" else fmuls f (1 / c).
(* ZFilterMeta.__rbinary__ : op(cls([other]), self) *)
Definition sfadd (c : Qc) (f : filt) : res filt := bind (fconst c) (fun k => fadd k f).
Definition sfsub (c : Qc) (f : filt) : res filt := bind (fconst c) (fun k => fsub k f).
Definition sfmul (c : Qc) (f : filt) : res filt := bind (fconst c) (fun k => fmul k f).
Definition sfdiv (c : Qc) (f : filt) : res filt := bind (fconst c) (fun k => fdiv k f).

(* __pow__ with an int exponent *)
Definition plen (p : poly) : Z := Z.of_nat (List.length p).
Definition fpow_direct (f : filt) (n : Z) : res filt := zf (ppow (fnum f) n) (ppow (fden f) n).
Definition fpow (f : filt) (n : Z) : res filt :=
  if (n <? 0)%Z && ((2 <=? plen (fnum f))%Z || (2 <=? plen (fden f))%Z)
  then bind (zf (fden f) (fnum f)) (fun r => fpow_direct r (- n))     (* ZFilter(den, num) ** -other *)
  else fpow_direct f n.

(* __call__ with a ZFilter argument:
   sum(v * seq ** -k for k, v in numpoly.terms()) / sum(v * seq ** -k for k, v in denpoly.terms())
   sum starts from the int 0: "0 + t" is ZFilter([0]) + t; an empty sum stays the int 0 *)
Definition subst_term (g : filt) (e : Z * Qc) : res filt :=
  bind (fpow g (- fst e)) (fun t => sfmul (snd e) t).
Definition fsum (g : filt) (p : poly) : res (option filt) :=
  fold_left (fun acc e => bind acc (fun a => bind (subst_term g e) (fun t =>
               match a with
               | None => bind (sfadd 0 t) (fun s => Ok (Some s))
               | Some s => bind (fadd s t) (fun s' => Ok (Some s'))
               end)))
            (sort_asc p) (Ok None).
Definition fsubst (f g : filt) : res filt :=
  bind (fsum g (fnum f)) (fun a => bind (fsum g (fden f)) (fun b =>
    match a, b with
    | Some s, Some t => fdiv s t
    | None, Some t => sfdiv 0 t                   (* 0 / filter *)
    | _, None => Raise "ZeroDivisionError"        (* filter / 0 or 0 / 0 with the int 0 *)
    end)).

(* ------------------------------------------------------------------ == != hash *)
Definition feq (f g : filt) : bool := peq (fnum f) (fnum g) && peq (fden f) (fden g).
Definition fne (f g : filt) : bool := pne (fnum f) (fnum g) || pne (fden f) (fden g).
(* hash(tuple(self.numdict) + tuple(self.dendict)) : the tuple of a dict is the tuple of its
   keys; numdict = OrderedDict(numpoly.terms()) is sorted by power.  The hash is a function
   of this list of powers; the function itself stays abstract. *)
Definition fhash_items (f : filt) : list Z := map fst (sort_asc (fnum f)) ++ map fst (sort_asc (fden f)).
Definition fhash (H : list Z -> Z) (f : filt) : Z := H (fhash_items f).

(* ------------------------------------------------------------------ applying a filter *)
(* list(f(x)) / list(f(x, zero=0)) : C04's generated-code semantics, zero state *)
Definition frun (f : filt) (x : list Qc) : res (list Qc) :=
  match C04.Model.call (C04.Model.Filt (fnum f) (fden f)) C04.Model.MNone 0 x with
  | C04.Model.Ok y => Ok y
  | C04.Model.Err C04.Model.ZeroGain => Raise "ZeroDivisionError"
  | C04.Model.Err _ => Raise "ValueError"
  end.

(* ------------------------------------------------------------------ CascadeFilter / ParallelFilter *)
(* reduce(lambda data, filt: filt(data), self.callables, x) *)
Definition cascade_run (fs : list filt) (x : list Qc) : res (list Qc) :=
  fold_left (fun acc f => bind acc (frun f)) fs (Ok x).
(* reduce(operator.mul, (filt.numpoly for filt in self.callables)) ; reduce of nothing: TypeError *)
Definition reduce_pmul (ps : list poly) : res poly :=
  match ps with [] => Raise "TypeError" | p :: r => Ok (fold_left pmul r p) end.
Definition cascade_numpoly (fs : list filt) : res poly := reduce_pmul (map fnum fs).
Definition cascade_denpoly (fs : list filt) : res poly := reduce_pmul (map fden fs).

(* Stream + Stream : elementwise over zip *)
Fixpoint zip_add (a b : list Qc) : list Qc :=
  match a, b with
  | x :: r, y :: s => (x + y) :: zip_add r s
  | _, _ => []
  end.
(* empty list: a zero per input; else reduce(operator.add, (filt(x) for filt in self.callables)) *)
Definition parallel_run (fs : list filt) (x : list Qc) : res (list Qc) :=
  match fs with
  | [] => Ok (map (fun _ => 0) x)
  | f :: r => fold_left (fun acc g => bind acc (fun a => bind (frun g x) (fun b => Ok (zip_add a b))))
                        r (frun f x)
  end.
(* reduce(operator.add, self) : the filters themselves are summed *)
Definition parallel_sum (fs : list filt) : res filt :=
  match fs with
  | [] => Raise "TypeError"
  | f :: r => fold_left (fun acc g => bind acc (fun a => fadd a g)) r (Ok f)
  end.
Definition parallel_numpoly (fs : list filt) : res poly := bind (parallel_sum fs) (fun s => Ok (fnum s)).
Definition parallel_denpoly (fs : list filt) : res poly := bind (parallel_sum fs) (fun s => Ok (fden s)).

(* ------------------------------------------------------------------ expression trees *)
Inductive fexpr :=
| FDict (n d : list (Z * Qc))            (* ZFilter(OrderedDict(n), OrderedDict(d)) *)
| FLists (b a : list Qc)                 (* ZFilter([b0, b1, ...], [a0, a1, ...]) *)
| FNum (b : list Qc)                     (* ZFilter([b0, b1, ...]) : denominator None *)
| FZ                                     (* z *)
| FNeg (a : fexpr) | FPos (a : fexpr)
| FAdd (a b : fexpr) | FSub (a b : fexpr) | FMul (a b : fexpr) | FDiv (a b : fexpr)
| FAddS (a : fexpr) (c : Qc) | FSAdd (c : Qc) (a : fexpr)
| FSubS (a : fexpr) (c : Qc) | FSSub (c : Qc) (a : fexpr)
| FMulS (a : fexpr) (c : Qc) | FSMul (c : Qc) (a : fexpr)
| FDivS (a : fexpr) (c : Qc) | FSDiv (c : Qc) (a : fexpr)
| FPow (a : fexpr) (n : Z)
| FCall (a b : fexpr).                   (* a(b) : substitution *)

Fixpoint feval (e : fexpr) : res filt :=
  match e with
  | FDict n d => ctor (mk n) (mk d)
  | FLists b a => ctor (poly_of_list b) (poly_of_list a)
  | FNum b => ctor (poly_of_list b) one_den
  | FZ => fz
  | FNeg a => bind (feval a) fneg
  | FPos a => bind (feval a) fpos
  | FAdd a b => bind2 (feval a) (feval b) fadd
  | FSub a b => bind2 (feval a) (feval b) fsub
  | FMul a b => bind2 (feval a) (feval b) fmul
  | FDiv a b => bind2 (feval a) (feval b) fdiv
  | FAddS a c => bind (feval a) (fun f => fadds f c)
  | FSAdd c a => bind (feval a) (sfadd c)
  | FSubS a c => bind (feval a) (fun f => fsubs f c)
  | FSSub c a => bind (feval a) (sfsub c)
  | FMulS a c => bind (feval a) (fun f => fmuls f c)
  | FSMul c a => bind (feval a) (sfmul c)
  | FDivS a c => bind (feval a) (fun f => fdivs f c)
  | FSDiv c a => bind (feval a) (sfdiv c)
  | FPow a n => bind (feval a) (fun f => fpow f n)
  | FCall a b => bind2 (feval a) (feval b) fsubst
  end.

(* ------------------------------------------------------------------ linearize *)
(* LinearFilter.linearize : the terms (power, coefficient) as numpoly.terms() / denpoly.terms() yield
   them, powers possibly fractional.  A fractional power k is split between int(k) (truncation
   towards zero) and int(k) + 1 with weights 1 - (k - int(k)) and k - int(k); the pairs are
   accumulated in a dict ("if key in new_poly: += else: =") and the class is called on the two dicts. *)
Definition fterms := list (Qc * Qc).
Definition q_is_int (k : Qc) : bool := (Zpos (Qden (this k)) =? 1)%Z.
Definition q_trunc (k : Qc) : Z := Z.quot (Qnum (this k)) (Zpos (Qden (this k))).
Definition lin_pairs (k v : Qc) : list (Z * Qc) :=
  if q_is_int k then [(q_trunc k, v)]
  else let left := q_trunc k in
       let weight_right := k - zq left in
       let weight_left := 1 - weight_right in
       [(left, v * weight_left); ((left + 1)%Z, v * weight_right)].
Definition lin_poly (t : fterms) : poly :=
  fold_left (fun d e => fold_left (fun d kv => od_add d (fst kv) (snd kv)) (lin_pairs (fst e) (snd e)) d) t [].
Definition flinearize (tn td : fterms) : res filt := ctor (mk (lin_poly tn)) (mk (lin_poly td)).

(* ------------------------------------------------------------------ nested filter lists *)
(* A CascadeFilter / ParallelFilter is a Python list whose members are filters or filter lists again.
   What a call does depends only on the members the list holds at the moment of the call. *)
Inductive fstruct := SF (f : filt) | SCasc (l : list fstruct) | SPar (l : list fstruct).

Fixpoint srun (s : fstruct) (x : list Qc) : res (list Qc) :=
  match s with
  | SF f => frun f x
  | SCasc l =>                       (* reduce(lambda data, filt: filt(data), self.callables, x) *)
      (fix go (l : list fstruct) (acc : res (list Qc)) : res (list Qc) :=
         match l with [] => acc | m :: r => go r (bind acc (srun m)) end) l (Ok x)
  | SPar l =>                        (* every member reads its own tee copy of x; the outputs are added *)
      match l with
      | [] => Ok (map (fun _ => 0) x)
      | m :: r =>
          (fix go (l : list fstruct) (acc : res (list Qc)) : res (list Qc) :=
             match l with
             | [] => acc
             | m' :: r' => go r' (bind acc (fun a => bind (srun m' x) (fun b => Ok (zip_add a b))))
             end) r (srun m x)
      end
  end.

Definition is_sf (s : fstruct) : option filt := match s with SF f => Some f | _ => None end.
Fixpoint all_sf (l : list fstruct) : option (list filt) :=
  match l with
  | [] => Some []
  | m :: r => match is_sf m, all_sf r with Some f, Some fs => Some (f :: fs) | _, _ => None end
  end.

(* numpoly / denpoly of a member: a filter's own polynomial, a cascade's product over its members
   (recursively), a parallel bank's summed filter (modelled for plain filter members only) *)
Fixpoint spoly (num : bool) (s : fstruct) : res poly :=
  match s with
  | SF f => Ok (if num then fnum f else fden f)
  | SCasc l =>
      match l with
      | [] => Raise "TypeError"
      | m :: r =>
          (fix go (l : list fstruct) (acc : res poly) : res poly :=
             match l with
             | [] => acc
             | m' :: r' => go r' (bind acc (fun a => bind (spoly num m') (fun b => Ok (pmul a b))))
             end) r (spoly num m)
      end
  | SPar l =>
      match all_sf l with
      | Some fs => if num then parallel_numpoly fs else parallel_denpoly fs
      | None => Raise "unmodelled"
      end
  end.

(* the syntax of such a list: operator trees at the leaves *)
Inductive sexpr := XF (e : fexpr) | XCasc (l : list sexpr) | XPar (l : list sexpr).
Fixpoint seval (s : sexpr) : res fstruct :=
  match s with
  | XF e => bind (feval e) (fun f => Ok (SF f))
  | XCasc l =>
      bind ((fix go (l : list sexpr) : res (list fstruct) :=
               match l with
               | [] => Ok []
               | m :: r => bind (seval m) (fun a => bind (go r) (fun b => Ok (a :: b)))
               end) l) (fun ms => Ok (SCasc ms))
  | XPar l =>
      bind ((fix go (l : list sexpr) : res (list fstruct) :=
               match l with
               | [] => Ok []
               | m :: r => bind (seval m) (fun a => bind (go r) (fun b => Ok (a :: b)))
               end) l) (fun ms => Ok (SPar ms))
  end.
