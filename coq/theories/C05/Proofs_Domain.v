(* C05 - Laurent polynomials over Qc have no zero divisors (lowest terms multiply to a
   non-zero lowest term); hence cancellation, and "same rational function" is an
   equivalence on fractions with a non-zero denominator. *)
From Coq Require Import List Bool ZArith QArith Qcanon Lia Ring Setoid Morphisms.
From AL Require Import Base.CaseLib C07.Model C07.Spec C07.Lib C07.Proofs_Ring C07.Proofs_Eval
  C05.Model C05.Spec C05.Lib_Ring.
Import ListNotations.
Open Scope Qc_scope.

Lemma list_min_exists (l : list Z) : l <> [] -> exists a, In a l /\ forall i, In i l -> (a <= i)%Z.
Proof.
  induction l as [|x r IH]; intro H; [congruence|].
  destruct r as [|y r'].
  - exists x. split; [left; reflexivity|]. intros i [E|[]]. lia.
  - destruct (IH ltac:(discriminate)) as (a & Ia & Ha).
    destruct (Z_le_gt_dec x a) as [L|G].
    + exists x. split; [left; reflexivity|]. intros i [E|Hi]; [lia|]. specialize (Ha i Hi). lia.
    + exists a. split; [right; exact Ia|]. intros i [E|Hi]; [lia|]. apply Ha. exact Hi.
Qed.

(* the coefficient of the product at the sum of two lower bounds *)
Lemma coefn_low_pmul p q a b : NoDupKeys p -> NoDupKeys q ->
  (forall i, In i (keys p) -> (a <= i)%Z) -> (forall j, In j (keys q) -> (b <= j)%Z) ->
  coefn (pmul p q) (a + b) = coefn p a * coefn q b.
Proof.
  intros NDp NDq Lp Lq. rewrite coefn_pmul.
  transitivity (dot p (fun i => coefn q b * delta a i)).
  - apply dot_ext_in. intros i Hi. pose proof (Lp i Hi) as Hi0.
    transitivity (coefn q (a + b - i)).
    + rewrite (coefn_dot q _ NDq). apply dot_ext. intro j. unfold delta.
      destruct (i + j =? a + b)%Z eqn:E1; destruct (j =? a + b - i)%Z eqn:E2; try reflexivity;
        [apply Z.eqb_eq in E1; apply Z.eqb_neq in E2; lia|apply Z.eqb_neq in E1; apply Z.eqb_eq in E2; lia].
    + unfold delta. destruct (i =? a)%Z eqn:E.
      * apply Z.eqb_eq in E. subst. replace (a + b - a)%Z with b by lia. ring.
      * apply Z.eqb_neq in E. rewrite coefn_notin; [ring|]. intro Hin. specialize (Lq _ Hin). lia.
  - rewrite dot_scale, <- (coefn_dot p a NDp). ring.
Qed.

Lemma lowest_term p : wf p -> p <> [] ->
  exists a, (forall i, In i (keys p) -> (a <= i)%Z) /\ coefn p a <> 0.
Proof.
  intros [ND NZ] Hne. destruct (list_min_exists (keys p)) as (a & Ia & La).
  { destruct p; [congruence|discriminate]. }
  exists a. split; [exact La|].
  unfold keys in Ia. apply in_map_iff in Ia as ([k c] & E & Hin). simpl in E. subst k.
  rewrite (wf_in_coefn p a c ND Hin). unfold nz in NZ. rewrite Forall_forall in NZ. apply (NZ _ Hin).
Qed.

Theorem no_zero_divisors p q : wf p -> wf q -> same (pmul p q) [] -> p = [] \/ q = [].
Proof.
  intros Wp Wq H. destruct p as [|e p']; [left; reflexivity|]. destruct q as [|e' q']; [right; reflexivity|].
  exfalso.
  destruct (lowest_term _ Wp ltac:(discriminate)) as (a & La & Ca).
  destruct (lowest_term _ Wq ltac:(discriminate)) as (b & Lb & Cb).
  specialize (H (a + b)%Z). rewrite (coefn_low_pmul _ _ a b (proj1 Wp) (proj1 Wq) La Lb) in H.
  rewrite coefn_nil in H. apply (Qcmult_nz _ _ Ca Cb). exact H.
Qed.

Lemma deq_nil_eq r : wf r -> deq r [] -> r = [].
Proof. intros Wr H. apply peq_nil_eq. apply peq_of_deq; [exact Wr|apply wf_nil|exact H]. Qed.
Lemma pmul_nonzero p q : wf p -> wf q -> p <> [] -> q <> [] -> pmul p q <> [].
Proof.
  intros Wp Wq Hp Hq E. destruct (no_zero_divisors p q Wp Wq) as [H|H]; [|tauto|tauto].
  rewrite E. intro k. reflexivity.
Qed.

(* cancellation of a non-zero factor *)
Lemma pmul_cancel_l d a b : wf d -> d <> [] -> NoDupKeys a -> NoDupKeys b ->
  deq (pmul d a) (pmul d b) -> deq a b.
Proof.
  intros Wd Hd Ha Hb H.
  assert (deq (pmul d (psub a b)) []) as H0.
  { pose proof (proj1 Wd) as NDd. lift_hyp H. lift_goal.
    transitivity (wsub (wmul (WP d NDd) (WP a Ha)) (wmul (WP d NDd) (WP b Hb))); [ring|]. rewrite H. ring. }
  assert (psub a b = []) as E.
  { destruct (no_zero_divisors d (psub a b) Wd (wf_psub a b)) as [E|E]; [|tauto|exact E].
    apply same_of_dot; [apply wf_pmul|apply NoDupKeys_nil|exact H0]. }
  assert (deq (psub a b) []) as E' by (rewrite E; apply deq_refl).
  lift_hyp E'. lift_goal.
  transitivity (wadd (wsub (WP a Ha) (WP b Hb)) (WP b Hb)); [ring|]. rewrite E'. ring.
Qed.

(* ------------------------------------------------------------------ the equivalence *)
Definition fr_wf (a : frac) : Prop := wf (fst a) /\ wf (snd a).
Definition fr_deq (a b : frac) : Prop := deq (pmul (fst a) (snd b)) (pmul (fst b) (snd a)).
Lemma frac_equiv_deq a b : frac_equiv a b <-> fr_deq a b.
Proof.
  unfold frac_equiv, fr_deq. split.
  - apply deq_of_same; apply wf_pmul.
  - apply same_of_dot; apply wf_pmul.
Qed.

Lemma frac_equiv_refl a : frac_equiv a a.
Proof. intro k. reflexivity. Qed.
Lemma frac_equiv_sym a b : frac_equiv a b -> frac_equiv b a.
Proof. intros H k. symmetry. apply H. Qed.
Theorem frac_equiv_trans a b c : fr_wf a -> fr_wf b -> fr_wf c -> snd b <> [] ->
  frac_equiv a b -> frac_equiv b c -> frac_equiv a c.
Proof.
  intros [Wa1 Wa2] [Wb1 Wb2] [Wc1 Wc2] Hb H1 H2.
  apply frac_equiv_deq in H1, H2. apply frac_equiv_deq. unfold fr_deq in *.
  destruct a as [n1 d1], b as [n2 d2], c as [n3 d3]. simpl in *.
  apply (pmul_cancel_l d2); [exact Wb2|exact Hb|apply wf_pmul|apply wf_pmul|].
  lift_hyp H1. lift_hyp H2. lift_goal.
  match goal with |- weq (wmul ?D2 (wmul ?N1 ?D3)) (wmul _ (wmul ?N3 ?D1)) =>
    transitivity (wmul (wmul N1 D2) D3); [ring|]; rewrite H1;
    match type of H2 with weq (wmul ?N2 _) _ =>
      transitivity (wmul (wmul N2 D3) D1); [ring|]; rewrite H2; ring end end.
Qed.
