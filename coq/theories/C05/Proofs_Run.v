(* C05 - run_characterised: for a causal filter with a0 <> 0 the output of the generated code
   (C04) is THE solution of  den . Y = num . X  on the input's time range. *)
From Coq Require Import List Bool ZArith QArith Qcanon Lia String.
From AL Require Import Base.CaseLib C07.Model C07.Spec C07.Lib C07.Proofs_Ring C07.Proofs_Eval
  C05.Model C05.Spec C05.Lib.
From AL Require C04.Model C04.Spec C04.Lib C04.ProofsCall.
Import ListNotations.
Open Scope Qc_scope.

Definition c04 (f : filt) : C04.Model.filt := C04.Model.Filt (fnum f) (fden f).

Lemma wf_pdata_of_wf p : wf p -> C04.Lib.wf_pdata p.
Proof.
  intros [ND NZ]. split; [exact ND|]. intros kv Hin. unfold nz in NZ. rewrite Forall_forall in NZ.
  apply NZ. exact Hin.
Qed.
Lemma c04_wf f : wf (fnum f) -> wf (fden f) -> C04.Lib.wf (c04 f).
Proof. intros Hn Hd. split; apply wf_pdata_of_wf; assumption. Qed.
Lemma c04_coef p k : NoDupKeys p -> C04.Spec.coef p k = coefn p k.
Proof. intro ND. rewrite (coefn_dot p k ND). reflexivity. Qed.
Lemma c04_causal n d : nonneg n -> nonneg d -> C04.Spec.causal n d = true.
Proof.
  intros Hn Hd. unfold C04.Spec.causal. apply forallb_forall. intros kv Hin.
  apply orb_true_iff. right. apply Z.leb_le. unfold nonneg in *. rewrite Forall_forall in Hn, Hd.
  apply in_app_or in Hin as [H|H]; [apply Hn|apply Hd]; exact H.
Qed.

(* psum = dot, xsig 0 = ysig (zero memory) = sig *)
Lemma c04_diffeq n d x y t : NoDupKeys d ->
  C04.Spec.diffeq_at n d (C04.Spec.xsig 0 x)
    (C04.Spec.ysig (C04.Spec.past (C04.Spec.order d) 0 C04.Model.MNone) y) t ->
  act d (sig y) t = act n (sig x) t.
Proof.
  intros ND H. unfold C04.Spec.diffeq_at in H. rewrite C04.Lib.psum_feedback in H.
  change (C04.Spec.xsig 0 x) with (sig x) in H.
  assert (forall m, C04.Spec.ysig (C04.Spec.past (C04.Spec.order d) 0 C04.Model.MNone) y m = sig y m) as Ey.
  { intro m. unfold C04.Spec.ysig, sig. destruct (m <? 0)%Z; reflexivity. }
  rewrite Ey in H. rewrite (c04_coef d 0 ND) in H.
  unfold act. rewrite (dot_remove d 0 _ ND). replace (t - 0)%Z with t by lia.
  change (C04.Spec.psum n (fun k => sig x (t - k)%Z)) with (dot n (fun k => sig x (t - k)%Z)) in H.
  rewrite H.
  assert (dot (od_del d 0) (fun k => sig y (t - k)%Z)
          = dot d (fun k => if (k =? 0)%Z then 0 else sig y (t - k)%Z)) as E.
  { clear H Ey. induction d as [|[m c] r IH]; [reflexivity|].
    apply NoDupKeys_cons in ND as [_ ND]. unfold od_del. simpl. destruct (m =? 0)%Z eqn:E0; simpl.
    - unfold od_del in IH. rewrite (IH ND). ring.
    - unfold od_del in IH. rewrite (IH ND). reflexivity. }
  assert (C04.Spec.psum d (fun k => if (k =? 0)%Z then 0
               else C04.Spec.ysig (C04.Spec.past (C04.Spec.order d) 0 C04.Model.MNone) y (t - k)%Z)
          = dot d (fun k => if (k =? 0)%Z then 0 else sig y (t - k)%Z)) as E2.
  { change (C04.Spec.psum d) with (dot d). apply dot_ext. intro k. rewrite Ey. reflexivity. }
  rewrite E2.
  rewrite E. ring.
Qed.

Lemma all_zero_resp f x : wf (fnum f) -> wf (fden f) ->
  C04.Spec.all_zero (fnum f) (fden f) = true ->
  forall t, act (fden f) (sig (repeat 0 (List.length x))) t = act (fnum f) (sig x) t.
Proof.
  intros [_ NZn] Wd Hz t.
  assert (fnum f = []) as En.
  { unfold C04.Spec.all_zero in Hz. rewrite forallb_app in Hz. apply andb_true_iff in Hz as [Hz _].
    destruct (fnum f) as [|[k c] r]; [reflexivity|]. simpl in Hz. apply andb_true_iff in Hz as [Hz _].
    apply Qc_eqb_spec in Hz. inversion NZn as [|? ? Hc _]; subst. simpl in Hc. congruence. }
  rewrite En, act_nil. unfold act. transitivity (dot (fden f) (fun _ => 0)); [|apply dot_zero].
  apply dot_ext. intro k.
  unfold sig. destruct (t - k <? 0)%Z; [reflexivity|].
  destruct (nth_in_or_default (Z.to_nat (t - k)) (repeat 0 (List.length x)) 0) as [Hin|E]; [|exact E].
  apply repeat_spec in Hin. exact Hin.
Qed.

(* run_characterised, existence: the generated code outputs a solution *)
Lemma frun_resp f x : causal_ok f -> exists y, frun f x = Ok y /\ resp_lists f x y.
Proof.
  intros (Wn & Wd & Nn & Nd & Ha). unfold frun. fold (c04 f).
  pose proof (c04_wf f Wn Wd) as W4.
  pose proof (c04_causal _ _ Nn Nd) as Hc.
  assert (C04.Spec.coef (C04.Model.f_den (c04 f)) 0 <> 0) as Hg.
  { simpl. rewrite c04_coef by apply Wd. exact Ha. }
  destruct (C04.Spec.all_zero (fnum f) (fden f)) eqn:Ez.
  - rewrite (C04.ProofsCall.allzero_outputs_zero (c04 f) C04.Model.MNone 0 x W4 Hc Hg Ez).
    eexists. split; [reflexivity|]. split; [apply repeat_length|].
    intros t _. apply all_zero_resp; assumption.
  - destruct (C04.ProofsCall.gen_satisfies_diffeq (c04 f) C04.Model.MNone 0 x W4 Hc Hg Ez)
      as (y & Ey & Hl & Hd).
    rewrite Ey. exists y. split; [reflexivity|]. split; [exact Hl|].
    intros t Ht. destruct (Z_lt_le_dec t 0) as [Hneg|Hpos].
    + rewrite act_silent; [|exact Nd|apply sig_silent|exact Hneg].
      rewrite act_silent; [reflexivity|exact Nn|apply sig_silent|exact Hneg].
    + specialize (Hd (Z.to_nat t) ltac:(lia)). rewrite Z2Nat.id in Hd by exact Hpos.
      simpl in Hd. apply (c04_diffeq _ _ _ _ _ (proj1 Wd) Hd).
Qed.

(* uniqueness: two solutions of the difference equation are the same list *)
Lemma resp_unique f x y y' : causal_ok f -> resp_lists f x y -> resp_lists f x y' -> y = y'.
Proof.
  intros (Wn & Wd & Nn & Nd & Ha) [L1 R1] [L2 R2].
  assert (List.length y = List.length y') as HL by congruence.
  apply sig_eq_lists; [exact HL|]. rewrite L1.
  apply (act_cancel (fden f)); [apply Wd|exact Nd|exact Ha| |].
  - intros n Hn. rewrite !sig_silent by exact Hn. reflexivity.
  - eapply eq_upto_trans; [exact R1|apply eq_upto_sym; exact R2].
Qed.

(* run_characterised *)
Theorem run_characterised f x y : causal_ok f -> (frun f x = Ok y <-> resp_lists f x y).
Proof.
  intro Hf. destruct (frun_resp f x Hf) as (y0 & E & R). split.
  - intro H. rewrite E in H. injection H as <-. exact R.
  - intro H. rewrite E. f_equal. apply (resp_unique f x); assumption.
Qed.
