(* C05 - Filter algebra is system algebra.  The proved statements, each closed by [exact].

   Vocabulary (Model.v / Spec.v):
     filt              numpoly / denpoly of a ZFilter (C07 polynomials in z^-1, dict order)
     fadd fsub fmul fdiv fmuls fpow fsubst ...   the dunders of ZFilter, each ending in the LinearFilter
                       constructor (denominator shift); Raise e = the Python exception e
     frun f x          list(f(x)) : C04's model of the generated filter code, zero state
     causal_ok f       stored polynomials well formed, no negative power of z^-1, a0 <> 0
     act p X n         sum_k p_k X(n-k);  resp_lists f x y : |y| = |x| and den . y = num . x on the input's range
     fequiv f g        num f * den g = num g * den f  (same rational function)  *)
From Coq Require Import String List Bool ZArith QArith Qcanon.
From AL Require C07.Check.
From AL Require Import Base.CaseLib C07.Model C07.Spec C07.Proofs_Ring C05.Model C05.Spec C05.Lib C05.Proofs_Run C05.Proofs_Ops
  C05.Proofs_Signal C05.Proofs_Signal2 C05.Proofs_List C05.Proofs_Eq C05.Proofs_Domain C05.Proofs_Frac
  C05.Proofs_Field C05.Proofs_Pow C05.Proofs_Subst C05.Proofs_Sem C05.Proofs_Laws C05.Proofs_Norm
  C05.Proofs_Lin C05.Proofs_Check C05.Proofs_Hom C05.Proofs_SemFull C05.Proofs_Signal3 C05.Proofs_Struct.
Import ListNotations.
Open Scope Qc_scope.

(* ------------------------------------------------------------------ signal layer *)
(* Key fact: for a causal filter with a0 <> 0, what the generated code outputs is THE solution of the
   difference equation den . y = num . x (truncated convolutions) with one output per input. *)
Theorem C05_run_characterised : forall f x y, causal_ok f -> (frun f x = Ok y <-> resp_lists f x y).
Proof. exact run_characterised. Qed.
Print Assumptions C05_run_characterised.

Theorem C05_run_total : forall f x, causal_ok f -> exists y, frun f x = Ok y /\ resp_lists f x y.
Proof. exact frun_resp. Qed.
Print Assumptions C05_run_total.

(* (f + g)(x) = f(x) + g(x), with or without the equal-denominator shortcut of __add__ *)
Theorem C05_run_add : forall f g h x yf yg, causal_ok f -> causal_ok g -> fadd f g = Ok h ->
  frun f x = Ok yf -> frun g x = Ok yg -> frun h x = Ok (zip_add yf yg).
Proof. exact run_add. Qed.
Print Assumptions C05_run_add.

(* (f - g)(x) = f(x) - g(x) *)
Theorem C05_run_sub : forall f g h x yf yg, causal_ok f -> causal_ok g -> fsub f g = Ok h ->
  frun f x = Ok yf -> frun g x = Ok yg -> frun h x = Ok (zip_add yf (map Qcopp yg)).
Proof. exact run_sub. Qed.
Print Assumptions C05_run_sub.

(* (f * c)(x) = c * f(x) *)
Theorem C05_run_scale : forall f c h x y, causal_ok f -> fmuls f c = Ok h -> frun f x = Ok y ->
  frun h x = Ok (map (Qcmult c) y).
Proof. exact run_scale_r. Qed.
Print Assumptions C05_run_scale.

(* (f * g)(x) = f(g(x)) ... *)
Theorem C05_run_mul : forall f g h x yg y, causal_ok f -> causal_ok g -> fmul f g = Ok h ->
  frun g x = Ok yg -> frun f yg = Ok y -> frun h x = Ok y.
Proof. exact run_mul. Qed.
Print Assumptions C05_run_mul.
(* ... = g(f(x)) *)
Theorem C05_run_mul_swap : forall f g h x yf y, causal_ok f -> causal_ok g -> fmul f g = Ok h ->
  frun f x = Ok yf -> frun g yf = Ok y -> frun h x = Ok y.
Proof. exact run_mul_swap. Qed.
Print Assumptions C05_run_mul_swap.

(* equivalent causal filters (same rational function) give the same output *)
Theorem C05_run_respects_equiv : forall f g x, causal_ok f -> causal_ok g -> fequiv f g -> frun f x = frun g x.
Proof. exact run_respects_equiv. Qed.
Print Assumptions C05_run_respects_equiv.

(* ((f / g) * g)(x) = f(x) for every causal g <> 0 (also when g starts with a delay: f / g is then an advance
   and cannot run, but the product is causal again) *)
Theorem C05_run_div_cancel : forall f g q h x, causal_ok f -> causal_ok g -> fnum g <> [] ->
  fdiv f g = Ok q -> fmul q g = Ok h -> frun h x = frun f x.
Proof. exact run_div_cancel_gen. Qed.
Print Assumptions C05_run_div_cancel.

(* (f ** n)(x) is f applied n times *)
Theorem C05_run_pow : forall f n h x, causal_ok f -> fpow f (Z.of_nat n) = Ok h -> frun h x = iter_run f n x.
Proof. exact run_pow. Qed.
Print Assumptions C05_run_pow.

(* z ** -k delays by k *)
Theorem C05_run_delay : forall k z0 h x, fz = Ok z0 -> fpow z0 (- Z.of_nat k) = Ok h -> frun h x = Ok (delayed k x).
Proof. exact run_delay. Qed.
Print Assumptions C05_run_delay.

(* CascadeFilter of causal parts = the product filter: same output, and numpoly / denpoly ARE the
   product filter's polynomials *)
Theorem C05_cascade_is_product : forall f r x, causal_ok f -> Forall causal_ok r ->
  exists h, cascade_product (f :: r) = Ok h /\ causal_ok h /\
    cascade_run (f :: r) x = frun h x /\
    cascade_numpoly (f :: r) = Ok (fnum h) /\ cascade_denpoly (f :: r) = Ok (fden h).
Proof. exact cascade_is_product. Qed.
Print Assumptions C05_cascade_is_product.

(* ParallelFilter of causal parts = the sum filter: the sum of the members' outputs is the sum filter's
   output, and numpoly / denpoly are both taken from that same sum filter *)
Theorem C05_parallel_is_sum : forall f r x, causal_ok f -> Forall causal_ok r ->
  exists h, parallel_sum (f :: r) = Ok h /\ causal_ok h /\
    parallel_run (f :: r) x = frun h x /\
    parallel_numpoly (f :: r) = Ok (fnum h) /\ parallel_denpoly (f :: r) = Ok (fden h).
Proof. exact parallel_is_sum. Qed.
Print Assumptions C05_parallel_is_sum.

(* Histories: the model of a (nested) filter list is a pure function of the members it holds at the moment of
   the call / of the read of numpoly, denpoly; on a flat list it IS the model of the two theorems above, so they
   hold of every state an edited CascadeFilter / ParallelFilter object goes through, whatever was read before. *)
Theorem C05_calls_independent : forall fs x,
  srun (SCasc (map SF fs)) x = cascade_run fs x /\ srun (SPar (map SF fs)) x = parallel_run fs x /\
  spoly true (SCasc (map SF fs)) = cascade_numpoly fs /\ spoly false (SCasc (map SF fs)) = cascade_denpoly fs /\
  spoly true (SPar (map SF fs)) = parallel_numpoly fs /\ spoly false (SPar (map SF fs)) = parallel_denpoly fs.
Proof. exact struct_calls_flat. Qed.
Print Assumptions C05_calls_independent.

(* ------------------------------------------------------------------ == != hash *)
Theorem C05_eq_ne_exclusive : forall f g, fne f g = negb (feq f g).
Proof. exact eq_ne_exclusive. Qed.
Print Assumptions C05_eq_ne_exclusive.

Theorem C05_eq_xor_ne : forall f g, xorb (feq f g) (fne f g) = true.
Proof. exact eq_xor_ne. Qed.
Print Assumptions C05_eq_xor_ne.

(* equal filters hash equally, for every hash function H of the tuple of powers *)
Theorem C05_eq_hash : forall (H : list Z -> Z) f g,
  wf (fnum f) -> wf (fden f) -> wf (fnum g) -> wf (fden g) -> feq f g = true -> fhash H f = fhash H g.
Proof. exact eq_hash. Qed.
Print Assumptions C05_eq_hash.

(* ------------------------------------------------------------------ rational-function layer *)
(* Laurent polynomials over Qc have no zero divisors *)
Theorem C05_no_zero_divisors : forall p q, wf p -> wf q -> same (pmul p q) [] -> p = [] \/ q = [].
Proof. exact no_zero_divisors. Qed.
Print Assumptions C05_no_zero_divisors.

(* "same rational function" is an equivalence on fractions with a non-zero denominator *)
Theorem C05_equiv_refl : forall a, frac_equiv a a.
Proof. exact frac_equiv_refl. Qed.
Print Assumptions C05_equiv_refl.
Theorem C05_equiv_sym : forall a b, frac_equiv a b -> frac_equiv b a.
Proof. exact frac_equiv_sym. Qed.
Print Assumptions C05_equiv_sym.
Theorem C05_equiv_trans : forall a b c, fr_wf a -> fr_wf b -> fr_wf c -> snd b <> [] ->
  frac_equiv a b -> frac_equiv b c -> frac_equiv a c.
Proof. exact frac_equiv_trans. Qed.
Print Assumptions C05_equiv_trans.

(* c * f *)
Theorem C05_run_scale_l : forall c f h x y, causal_ok f -> sfmul c f = Ok h -> frun f x = Ok y ->
  frun h x = Ok (map (Qcmult c) y).
Proof. exact run_scale_l. Qed.
Print Assumptions C05_run_scale_l.

(* fok f : a filter object as every constructor / operator returns it (well-formed polynomials, non-zero
   denominator).  Every operator tree that evaluates gives such an object. *)
Theorem C05_feval_fok : forall e f, feval e = Ok f -> fok f.
Proof. exact feval_fok. Qed.
Print Assumptions C05_feval_fok.

(* ... with the lowest denominator power 0 (the constructor multiplies numerator and denominator by the same
   power of z: C05_ctor_textbook says the rational function is kept) *)
Theorem C05_den_normalised : forall e f, feval e = Ok f -> filt_ok f.
Proof. exact feval_filt_ok. Qed.
Print Assumptions C05_den_normalised.
Theorem C05_ctor_textbook : forall n d h, wf n -> wf d -> ctor n d = Ok h ->
  fok h /\ d <> [] /\ frac_equiv (fr_of h) (n, d) /\ min_key (fden h) = Some 0%Z.
Proof. exact ctor_textbook. Qed.
Print Assumptions C05_ctor_textbook.

(* ~ on filter objects is transitive (reflexive and symmetric by C05_equiv_refl / _sym) *)
Theorem C05_fequiv_trans : forall f g k, fok f -> fok g -> fok k -> fequiv f g -> fequiv g k -> fequiv f k.
Proof. exact fequiv_trans. Qed.
Print Assumptions C05_fequiv_trans.

(* each operator is the textbook fraction operation up to ~ : this covers the equal-denominator shortcut
   of __add__ and the constructor's shift *)
Theorem C05_fadd_textbook : forall f g h, fok f -> fok g -> fadd f g = Ok h ->
  frac_equiv (fr_of h) (q_add (fr_of f) (fr_of g)).
Proof. exact fadd_textbook. Qed.
Print Assumptions C05_fadd_textbook.
Theorem C05_fsub_textbook : forall f g h, fok f -> fok g -> fsub f g = Ok h ->
  frac_equiv (fr_of h) (q_sub (fr_of f) (fr_of g)).
Proof. exact fsub_textbook. Qed.
Print Assumptions C05_fsub_textbook.
Theorem C05_fmul_textbook : forall f g h, fok f -> fok g -> fmul f g = Ok h ->
  frac_equiv (fr_of h) (q_mul (fr_of f) (fr_of g)).
Proof. exact fmul_textbook. Qed.
Print Assumptions C05_fmul_textbook.
Theorem C05_fdiv_textbook : forall f g h, fok f -> fok g -> fnum g <> [] -> fdiv f g = Ok h ->
  frac_equiv (fr_of h) (q_div (fr_of f) (fr_of g)).
Proof. exact fdiv_textbook. Qed.
Print Assumptions C05_fdiv_textbook.
Theorem C05_fdiv_zero : forall f g, fnum g = [] -> fdiv f g = Raise "ValueError"%string.
Proof. exact fdiv_zero. Qed.
Print Assumptions C05_fdiv_zero.
Theorem C05_fneg_textbook : forall f h, fok f -> fneg f = Ok h -> frac_equiv (fr_of h) (q_neg (fr_of f)).
Proof. exact fneg_textbook. Qed.
Print Assumptions C05_fneg_textbook.
Theorem C05_fmuls_textbook : forall f c h, fok f -> fmuls f c = Ok h -> frac_equiv (fr_of h) (q_mul (fr_of f) (q_const c)).
Proof. exact fmuls_textbook. Qed.
Print Assumptions C05_fmuls_textbook.

(* the operators never fail on filter objects (division: by a non-zero filter) *)
Theorem C05_fadd_total : forall f g, fok f -> fok g -> exists h, fadd f g = Ok h.
Proof. exact fadd_total. Qed.
Print Assumptions C05_fadd_total.
Theorem C05_fmul_total : forall f g, fok f -> fok g -> exists h, fmul f g = Ok h.
Proof. exact fmul_total. Qed.
Print Assumptions C05_fmul_total.
Theorem C05_fdiv_total : forall f g, fok f -> fok g -> fnum g <> [] -> exists h, fdiv f g = Ok h.
Proof. exact fdiv_total. Qed.
Print Assumptions C05_fdiv_total.

(* they respect ~ *)
Theorem C05_fadd_respects : forall f f' g g', fok f -> fok f' -> fok g -> fok g' -> fequiv f f' -> fequiv g g' ->
  forall h h', fadd f g = Ok h -> fadd f' g' = Ok h' -> fequiv h h'.
Proof. exact fadd_respects. Qed.
Print Assumptions C05_fadd_respects.
Theorem C05_fsub_respects : forall f f' g g', fok f -> fok f' -> fok g -> fok g' -> fequiv f f' -> fequiv g g' ->
  forall h h', fsub f g = Ok h -> fsub f' g' = Ok h' -> fequiv h h'.
Proof. exact fsub_respects. Qed.
Print Assumptions C05_fsub_respects.
Theorem C05_fmul_respects : forall f f' g g', fok f -> fok f' -> fok g -> fok g' -> fequiv f f' -> fequiv g g' ->
  forall h h', fmul f g = Ok h -> fmul f' g' = Ok h' -> fequiv h h'.
Proof. exact fmul_respects. Qed.
Print Assumptions C05_fmul_respects.
Theorem C05_fdiv_respects : forall f f' g g', fok f -> fok f' -> fok g -> fok g' -> fequiv f f' -> fequiv g g' ->
  forall h h', fnum g <> [] -> fnum g' <> [] -> fdiv f g = Ok h -> fdiv f' g' = Ok h' -> fequiv h h'.
Proof. exact fdiv_respects. Qed.
Print Assumptions C05_fdiv_respects.

(* and satisfy the field laws *)
Theorem C05_fadd_comm : forall f g, fok f -> fok g -> forall h h', fadd f g = Ok h -> fadd g f = Ok h' -> fequiv h h'.
Proof. exact fadd_comm. Qed.
Print Assumptions C05_fadd_comm.
Theorem C05_fmul_comm : forall f g, fok f -> fok g -> forall h h', fmul f g = Ok h -> fmul g f = Ok h' -> fequiv h h'.
Proof. exact fmul_comm. Qed.
Print Assumptions C05_fmul_comm.
Theorem C05_fadd_assoc : forall f g k, fok f -> fok g -> fok k -> forall a b h h',
  fadd f g = Ok a -> fadd a k = Ok h -> fadd g k = Ok b -> fadd f b = Ok h' -> fequiv h h'.
Proof. exact fadd_assoc. Qed.
Print Assumptions C05_fadd_assoc.
Theorem C05_fmul_assoc : forall f g k, fok f -> fok g -> fok k -> forall a b h h',
  fmul f g = Ok a -> fmul a k = Ok h -> fmul g k = Ok b -> fmul f b = Ok h' -> fequiv h h'.
Proof. exact fmul_assoc. Qed.
Print Assumptions C05_fmul_assoc.
Theorem C05_distributive : forall f g k, fok f -> fok g -> fok k -> forall a h b c h',
  fadd g k = Ok a -> fmul f a = Ok h -> fmul f g = Ok b -> fmul f k = Ok c -> fadd b c = Ok h' -> fequiv h h'.
Proof. exact fmul_fadd_distr. Qed.
Print Assumptions C05_distributive.
Theorem C05_fsub_self : forall f, fok f -> forall h, fsub f f = Ok h -> frac_equiv (fr_of h) (pconst 0, pconst 1).
Proof. exact fsub_self. Qed.
Print Assumptions C05_fsub_self.
(* f / f = 1 *)
Theorem C05_fdiv_self : forall f, fok f -> forall h, fnum f <> [] -> fdiv f f = Ok h -> frac_equiv (fr_of h) (q_const 1).
Proof. exact fdiv_self. Qed.
Print Assumptions C05_fdiv_self.
Theorem C05_fdiv_fmul_cancel : forall f g, fok f -> fok g -> forall q h, fnum g <> [] ->
  fdiv f g = Ok q -> fmul q g = Ok h -> fequiv h f.
Proof. exact fdiv_fmul_cancel. Qed.
Print Assumptions C05_fdiv_fmul_cancel.

(* f ** n is the n-fold product (both the one-term shortcut of Poly.__pow__ and the general branch) *)
Theorem C05_fpow_nfold : forall f n h, fok f -> fpow f (Z.of_nat n) = Ok h -> frac_equiv (fr_of h) (q_pow (fr_of f) n).
Proof. exact fpow_nfold. Qed.
Print Assumptions C05_fpow_nfold.
(* f ** (-n) = 1 / f ** n (the reciprocal rule and the one-term branch) *)
Theorem C05_fpow_neg : forall f m h, fok f -> fnum f <> [] -> fpow f (- Z.of_nat (S m)) = Ok h ->
  frac_equiv (fr_of h) (q_inv (q_pow (fr_of f) (S m))).
Proof. exact fpow_neg. Qed.
Print Assumptions C05_fpow_neg.

(* f(g) substitutes g for z: (sum_k n_k g^-k) / (sum_k d_k g^-k), n_k d_k the stored coefficients of f, the sums
   and powers in textbook fraction arithmetic ... *)
Theorem C05_subst_is_evaluation : forall f g h u v, fok g -> fsubst f g = Ok h ->
  q_at (fnum f) (fr_of g) = Some u -> q_at (fden f) (fr_of g) = Some v -> fst v <> [] ->
  frac_equiv (fr_of h) (q_div u v).
Proof. exact fsubst_evaluates. Qed.
Print Assumptions C05_subst_is_evaluation.
(* ... only the rational function of g matters ... *)
Theorem C05_subst_respects_inner : forall f g g' h h' u v, fok g -> fok g' -> fequiv g' g ->
  fsubst f g = Ok h -> fsubst f g' = Ok h' ->
  q_at (fnum f) (fr_of g) = Some u -> q_at (fden f) (fr_of g) = Some v -> fst v <> [] -> fequiv h h'.
Proof. exact fsubst_respects. Qed.
Print Assumptions C05_subst_respects_inner.
(* ... and only the rational function of f (g <> 0): evaluation at z := g is a ring homomorphism from Laurent
   polynomials to fractions (proved by clearing denominators), so equivalent f give equivalent f(g) *)
Theorem C05_evaluation_respects : forall t nf df ns ds u' v' u v,
  fr_wf t -> fst t <> [] -> snd t <> [] -> wf nf -> wf df -> wf ns -> wf ds ->
  deq (pmul nf ds) (pmul ns df) ->
  q_at nf t = Some u' -> q_at df t = Some v' -> q_at ns t = Some u -> q_at ds t = Some v ->
  fst v' <> [] -> fst v <> [] -> fr_deq (q_div u' v') (q_div u v).
Proof. exact q_at_respects. Qed.
Print Assumptions C05_evaluation_respects.
Theorem C05_subst_respects_outer : forall f f' g h h', fok f -> fok f' -> fok g -> fnum g <> [] -> fequiv f f' ->
  fsubst f g = Ok h -> fsubst f' g = Ok h' -> fequiv h h'.
Proof. exact fsubst_respects_outer. Qed.
Print Assumptions C05_subst_respects_outer.

(* whole operator trees over + - * / ** (any integer exponent), scalar and reflected forms and substitution:
   whenever the tree has a textbook value (no division by the zero function, no z := 0), the filter object it
   evaluates to denotes that value *)
Theorem C05_sem_sound : forall e f s, feval e = Ok f -> sem e = Some s ->
  frac_equiv (fr_of f) s /\ fden f <> [] /\ snd s <> [].
Proof. exact sem_sound_equiv_full. Qed.
Print Assumptions C05_sem_sound.
(* hence two trees with the same textbook value (e.g. the two sides of any field law) give equivalent filters *)
Theorem C05_equal_values_equivalent : forall e e' f f' s s', feval e = Ok f -> feval e' = Ok f' ->
  sem e = Some s -> sem e' = Some s' -> frac_equiv s s' -> fequiv f f'.
Proof. exact sem_equal_values. Qed.
Print Assumptions C05_equal_values_equivalent.

(* ------------------------------------------------------------------ linearize *)
(* a fractional power k is replaced by int(k) and int(k) + 1 with weights that sum to 1 and reproduce k ... *)
Theorem C05_linearize_weights : forall k, let wr := k - zq (q_trunc k) in let wl := 1 - wr in
  wl + wr = 1 /\ wl * zq (q_trunc k) + wr * zq (q_trunc k + 1) = k.
Proof. exact lin_weights. Qed.
Print Assumptions C05_linearize_weights.
(* ... so every affine functional of the powers (gain at z = 1, first moment) is kept; integer powers stay *)
Theorem C05_linearize_affine : forall t a b, dot (lin_poly t) (fun j => a + b * zq j) = fdot t (fun k => a + b * k).
Proof. exact lin_affine. Qed.
Print Assumptions C05_linearize_affine.
Theorem C05_linearize_int : forall k v, q_is_int k = true -> lin_pairs k v = [(q_trunc k, v)].
Proof. exact lin_pairs_int. Qed.
Print Assumptions C05_linearize_int.

(* ------------------------------------------------------------------ the checkers decide the Spec notions *)
Theorem C05_frac_eqb_spec : forall a b, frac_eqb a b = true <-> frac_equiv a b.
Proof. exact frac_eqb_spec. Qed.
Print Assumptions C05_frac_eqb_spec.
Theorem C05_resp_b_spec : forall n d x y, nonneg n -> nonneg d ->
  (resp_b n d x y = true <-> resp_lists (Filt n d) x y).
Proof. exact resp_b_spec. Qed.
Print Assumptions C05_resp_b_spec.

(* ------------------------------------------------------------------ non-vacuity *)
Definition C05_f1 : filt := Filt [(0%Z, qc 1 1); (1%Z, qc 1 2)] [(0%Z, qc 1 1); (1%Z, qc (-1) 3)].
Definition C05_f2 : filt := Filt [(0%Z, qc 2 1); (2%Z, qc 1 1)] [(0%Z, qc 1 1); (1%Z, qc 1 2)].
Definition C05_x : list Qc := [qc 1 1; qc 2 1; qc (-1) 1; qc 3 1].
Example C05_example_causal : causal_okb C05_f1 = true /\ causal_okb C05_f2 = true.
Proof. split; vm_compute; reflexivity. Qed.
Print Assumptions C05_example_causal.
(* compared with the decidable equality of Qc lists (canonicity proofs are not syntactically unique) *)
Definition C05_is (r : res (list Qc)) (y : list Qc) : bool := C07.Check.res_eqb (list_eqb Qc_eqb) r (Ok y).
Example C05_example_runs :
  C05_is (frun C05_f1 C05_x) [qc 1 1; qc 17 6; qc 17 18; qc 76 27] = true /\
  C05_is (bind (fmul C05_f1 C05_f2) (fun h => frun h C05_x)) [qc 2 1; qc 14 3; qc 5 9; qc 221 27] = true /\
  C05_is (bind (frun C05_f2 C05_x) (frun C05_f1)) [qc 2 1; qc 14 3; qc 5 9; qc 221 27] = true /\
  C05_is (bind (fadd C05_f1 C05_f2) (fun h => frun h C05_x)) [qc 3 1; qc 35 6; qc (-14) 9; qc 1303 108] = true.
Proof. repeat split; vm_compute; reflexivity. Qed.
Print Assumptions C05_example_runs.

(* the rational-function theorems are not vacuous: a tree with /, ** -2 and scalars evaluates, has a meaning,
   and the two agree; a substitution evaluates and the sums exist; both branches of a negative power *)
Definition C05_e1 : fexpr := FLists [qc 1 1; qc 1 2] [qc 1 1; qc (-1) 3].
Definition C05_e2 : fexpr := FLists [qc 2 1; 0; qc 1 1] [qc 1 1; qc 1 2].
Definition C05_tree : fexpr := FSSub (qc 3 1) (FAdd (FDiv C05_e1 C05_e2) (FPow (FMulS C05_e2 (qc 1 2)) (-2))).
Example C05_example_tree :
  no_call C05_tree = true /\
  match feval C05_tree, sem C05_tree with
  | Ok f, Some s => frac_eqb (fr_of f) s && negb (is_zero (fden f)) && (5 <=? Z.of_nat (List.length (fnum f)))%Z
  | _, _ => false
  end = true.
Proof. split; vm_compute; reflexivity. Qed.
Print Assumptions C05_example_tree.
Example C05_example_subst :
  match fsubst C05_f1 C05_f2, q_at (fnum C05_f1) (fr_of C05_f2), q_at (fden C05_f1) (fr_of C05_f2) with
  | Ok h, Some u, Some v => negb (is_zero (fst v)) && frac_eqb (fr_of h) (q_div u v) && wfb (fnum C05_f2) && wfb (fden C05_f2)
  | _, _, _ => false
  end = true.
Proof. vm_compute. reflexivity. Qed.
Print Assumptions C05_example_subst.
Example C05_example_negpow :
  match fpow C05_f1 (-2), bind fz (fun z0 => fpow z0 (-3)) with
  | Ok h, Ok d => frac_eqb (fr_of h) (q_inv (q_pow (fr_of C05_f1) 2)) &&
                  C07.Check.poly_eqb (fnum d) [(3%Z, 1)] && C07.Check.poly_eqb (fden d) [(0%Z, 1)]
  | _, _ => false
  end = true.
Proof. vm_compute. reflexivity. Qed.
Print Assumptions C05_example_negpow.

(* z ** -4.25 linearized: 3/4 z^-4 + 1/4 z^-5 *)
Example C05_example_linearize :
  match flinearize [(qc 17 4, 1)] [(0, 1)] with
  | Ok f => C07.Check.poly_eqb (fnum f) [(4%Z, qc 3 4); (5%Z, qc 1 4)] && C07.Check.poly_eqb (fden f) [(0%Z, 1)]
  | _ => false
  end = true /\ q_is_int (qc 17 4) = false /\ q_is_int (qc 3 1) = true.
Proof. repeat split; vm_compute; reflexivity. Qed.
Print Assumptions C05_example_linearize.
