(* C05 - the commutative ring of Laurent polynomials as a setoid ring, so that [ring] decides
   polynomial identities.  Carrier: stored polynomials with distinct powers; equality: the same
   linear functional (deq), i.e. the same coefficient function.  The ring laws are C07's. *)
From Coq Require Import List Bool ZArith QArith Qcanon Lia Ring Setoid Morphisms.
From AL Require Import Base.CaseLib C07.Model C07.Spec C07.Lib C07.Proofs_Ring.
Import ListNotations.
Open Scope Qc_scope.

Record wp := WP { wp_p :> poly; wp_nd : NoDupKeys wp_p }.
(* wrapped, so that rewriting with a hypothesis is always setoid rewriting *)
Inductive weq (a b : wp) : Prop := weq_intro : deq a b -> weq a b.
Lemma weq_elim a b : weq a b -> deq a b. Proof. intros [H]. exact H. Qed.
Definition w0 : wp := WP [] NoDupKeys_nil.
Definition w1 : wp := WP (pconst 1) (proj1 (wf_pconst 1)).
Definition wadd (a b : wp) : wp := WP (padd a b) (proj1 (wf_padd a b)).
Definition wmul (a b : wp) : wp := WP (pmul a b) (proj1 (wf_pmul a b)).
Definition wopp (a : wp) : wp := WP (pneg a) (proj1 (wf_pneg a)).
Definition wsub (a b : wp) : wp := wadd a (wopp b).

Lemma weq_equiv : Equivalence weq.
Proof.
  split.
  - intro a. constructor. apply deq_refl.
  - intros a b [H]. constructor. apply deq_sym. exact H.
  - intros a b c [H1] [H2]. constructor. exact (deq_trans _ _ _ H1 H2).
Qed.
#[export] Instance weq_Equivalence : Equivalence weq := weq_equiv.
#[export] Instance wadd_Proper : Proper (weq ==> weq ==> weq) wadd.
Proof. intros a a' [Ha] b b' [Hb]. constructor. apply padd_deq_compat; try apply wp_nd; assumption. Qed.
#[export] Instance wmul_Proper : Proper (weq ==> weq ==> weq) wmul.
Proof. intros a a' [Ha] b b' [Hb]. constructor. apply pmul_deq_compat; assumption. Qed.
#[export] Instance wopp_Proper : Proper (weq ==> weq) wopp.
Proof. intros a a' [Ha]. constructor. intro F. simpl. rewrite !dot_pneg by apply wp_nd. rewrite (Ha F). reflexivity. Qed.

#[export] Instance wsub_Proper : Proper (weq ==> weq ==> weq) wsub.
Proof. intros a a' Ha b b' Hb. unfold wsub. rewrite Ha, Hb. reflexivity. Qed.

Lemma wp_ring_theory : ring_theory w0 w1 wadd wmul wsub wopp weq.
Proof.
  constructor.
  - intros x. constructor. intro F. simpl. rewrite dot_padd by (apply NoDupKeys_nil || apply wp_nd). simpl. ring.
  - intros x y. constructor. apply padd_comm_deq; apply wp_nd.
  - intros x y z. constructor. apply deq_sym. apply padd_assoc_deq; apply wp_nd.
  - intros x. constructor. apply pmul_one_deq.
  - intros x y. constructor. apply pmul_comm_deq.
  - intros x y z. constructor. apply deq_sym. apply pmul_assoc_deq.
  - intros x y z. constructor. apply pmul_padd_distr_r_deq; apply wp_nd.
  - intros x y. constructor. apply deq_refl.
  - intros x. constructor. intro F. simpl. rewrite dot_padd by (apply wp_nd || apply wf_pneg).
    rewrite dot_pneg by apply wp_nd. simpl. ring.
Qed.
Lemma wp_ring_ext : ring_eq_ext wadd wmul wopp weq.
Proof. constructor; [apply wadd_Proper|apply wmul_Proper|apply wopp_Proper]. Qed.

Add Ring wp_ring : wp_ring_theory (setoid weq_equiv wp_ring_ext).

(* how it is used: lift stored polynomials with distinct powers into the carrier *)
Lemma pmul_4_swap a b c d : NoDupKeys a -> NoDupKeys b -> NoDupKeys c -> NoDupKeys d ->
  deq (pmul (pmul a b) (pmul c d)) (pmul (pmul a c) (pmul b d)).
Proof.
  intros Ha Hb Hc Hd.
  apply (weq_elim (wmul (wmul (WP a Ha) (WP b Hb)) (wmul (WP c Hc) (WP d Hd)))
                  (wmul (wmul (WP a Ha) (WP c Hc)) (wmul (WP b Hb) (WP d Hd)))).
  ring.
Qed.

(* ------------------------------------------------------------------ reification *)
Ltac solve_nd :=
  first [ assumption
        | apply wp_nd
        | match goal with W : wf ?p |- NoDupKeys ?p => exact (proj1 W) end
        | apply (proj1 (wf_pconst _))
        | apply (proj1 (wf_mk _))
        | apply NoDupKeys_nil ].
Ltac lift p :=
  lazymatch p with
  | pmul ?a ?b => let a' := lift a in let b' := lift b in constr:(wmul a' b')
  | padd ?a ?b => let a' := lift a in let b' := lift b in constr:(wadd a' b')
  | psub ?a ?b => let a' := lift a in let b' := lift b in constr:(wsub a' b')
  | pneg ?a => let a' := lift a in constr:(wopp a')
  | pconst 1 => constr:(w1)
  | @nil _ => constr:(w0)
  | wp_p ?w => constr:(w)
  | _ => let nd := constr:(ltac:(solve_nd) : NoDupKeys p) in constr:(WP p nd)
  end.
(* goal  deq L R  ->  weq (lift L) (lift R) *)
Ltac lift_goal :=
  lazymatch goal with
  | |- deq ?L ?R => let l := lift L in let r := lift R in apply (weq_elim l r)
  end.
Ltac lift_hyp H :=
  lazymatch type of H with
  | deq ?L ?R => let l := lift L in let r := lift R in apply (weq_intro l r) in H
  end.
Ltac poly_ring := lift_goal; ring.

Lemma lift_test a b c : NoDupKeys a -> wf b -> deq (pmul a (padd b (pconst c))) (padd (pmul (pconst c) a) (pmul b a)).
Proof. intros Ha Wb. poly_ring. Qed.
Lemma lift_test2 a b c : NoDupKeys a -> NoDupKeys b -> NoDupKeys c -> deq a b -> deq (pmul a c) (pmul c b).
Proof. intros Ha Hb Hc H. lift_hyp H. lift_goal. rewrite H. ring. Qed.
