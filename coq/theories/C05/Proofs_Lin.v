(* C05 - linearize: a fractional delay is split between the two neighbouring integer delays with
   weights that sum to 1 and reproduce the delay, so every affine functional of the powers (gain at
   z = 1, first moment) is kept. *)
From Coq Require Import List Bool ZArith QArith Qcanon Lia String.
From AL Require Import Base.CaseLib C07.Model C07.Spec C07.Lib C07.Proofs_Ring C05.Model C05.Spec.
Import ListNotations.
Open Scope Qc_scope.

Lemma zq_trunc_int k : q_is_int k = true -> zq (q_trunc k) = k.
Proof.
  unfold q_is_int, q_trunc, zq. intro H. apply Z.eqb_eq in H. apply Qc_is_canon.
  rewrite H, Z.quot_1_r. unfold Q2Qc. cbn [this]. rewrite Qred_correct.
  unfold Qeq, inject_Z. cbn [Qnum Qden]. rewrite H. reflexivity.
Qed.

Lemma lin_pairs_affine k v a b :
  dot (lin_pairs k v) (fun j => a + b * zq j) = v * (a + b * k).
Proof.
  unfold lin_pairs. destruct (q_is_int k) eqn:E.
  - rewrite dot_cons, dot_nil. rewrite (zq_trunc_int k E). ring.
  - rewrite !dot_cons, dot_nil. rewrite zq_add, zq_1. ring.
Qed.

Lemma dot_fold_od_add l : forall d F,
  dot (fold_left (fun d kv => od_add d (fst kv) (snd kv)) l d) F = dot d F + dot l F.
Proof.
  induction l as [|[k c] l IH]; intros d F; simpl.
  - ring.
  - rewrite IH, dot_od_add. simpl. ring.
Qed.

Lemma lin_poly_fold t : forall d a b,
  dot (fold_left (fun d e => fold_left (fun d kv => od_add d (fst kv) (snd kv)) (lin_pairs (fst e) (snd e)) d) t d)
      (fun j => a + b * zq j)
  = dot d (fun j => a + b * zq j) + fdot t (fun k => a + b * k).
Proof.
  induction t as [|[k v] t IH]; intros d a b; simpl.
  - ring.
  - rewrite IH, dot_fold_od_add, lin_pairs_affine. simpl. ring.
Qed.

(* every affine functional of the powers is kept: a = 1, b = 0 is the gain at z = 1;
   a = 0, b = 1 the first moment (the delay at low frequency) *)
Theorem lin_affine t a b : dot (lin_poly t) (fun j => a + b * zq j) = fdot t (fun k => a + b * k).
Proof. unfold lin_poly. rewrite lin_poly_fold. simpl. ring. Qed.

Corollary lin_dc t : dc (lin_poly t) = fdot t (fun _ => 1).
Proof.
  unfold dc. transitivity (dot (lin_poly t) (fun j => 1 + 0 * zq j)).
  - apply dot_ext. intro k. ring.
  - rewrite lin_affine. unfold fdot. induction t as [|e t IH]; simpl; [reflexivity|]. rewrite IH. ring.
Qed.

(* integer powers are left alone *)
Theorem lin_pairs_int k v : q_is_int k = true -> lin_pairs k v = [(q_trunc k, v)].
Proof. intro H. unfold lin_pairs. rewrite H. reflexivity. Qed.

(* the two weights always sum to 1 and reproduce the fractional power *)
Theorem lin_weights k : let wr := k - zq (q_trunc k) in let wl := 1 - wr in
  wl + wr = 1 /\ wl * zq (q_trunc k) + wr * zq (q_trunc k + 1) = k.
Proof. cbv zeta. split; [ring|]. rewrite zq_add, zq_1. ring. Qed.
