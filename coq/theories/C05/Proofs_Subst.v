(* C05 - rational-function layer, part 4: f(g) is the evaluation of f at z := g, i.e.
   (sum_k n_k g^-k) / (sum_k d_k g^-k) in textbook fraction arithmetic, n_k / d_k being the
   stored coefficients of f. *)
From Coq Require Import List Bool ZArith QArith Qcanon Lia String.
From AL Require Import Base.CaseLib C07.Model C07.Spec C07.Lib C07.Proofs_Ring C07.Proofs_Eval
  C05.Model C05.Spec C05.Lib_Ring C05.Proofs_Domain C05.Proofs_Frac C05.Proofs_Field C05.Proofs_Pow.
Import ListNotations.
Open Scope Qc_scope.

Lemma is_zero_false p : is_zero p = false -> p <> [].
Proof. destruct p; [discriminate|]. intros _. discriminate. Qed.
Lemma is_zero_true p : is_zero p = true -> p = [].
Proof. destruct p; [reflexivity|discriminate]. Qed.

(* g ** k for any integer k *)
Lemma R_fpow_z g t k h u : R g t -> fpow g k = Ok h -> q_zpow t k = Some u -> R h u.
Proof.
  intros Rg Eh Eu. unfold q_zpow in Eu. destruct (0 <=? k)%Z eqn:Ek.
  - apply Z.leb_le in Ek. injection Eu as <-. rewrite <- (Z2Nat.id k Ek) in Eh.
    apply (R_fpow_nonneg g t _ h Rg Eh).
  - apply Z.leb_gt in Ek. destruct (is_zero (fst t)) eqn:Ez; [discriminate|]. injection Eu as <-.
    apply is_zero_false in Ez.
    destruct (Z.to_nat (- k)) as [|m] eqn:Em; [lia|].
    replace k with (- Z.of_nat (S m))%Z in Eh by lia.
    apply (R_fpow_neg g t m h Rg Ez Eh).
Qed.

Lemma R_sfmul c f h s : R f s -> sfmul c f = Ok h -> R h (q_mul (q_const c) s).
Proof.
  intros Rf Eh. unfold sfmul in Eh. destruct (fconst c) as [k|] eqn:Ek; [|discriminate]. simpl in Eh.
  apply (R_fmul k f h _ _ (R_fconst c k Ek) Rf Eh).
Qed.
Lemma R_sfadd c f h s : R f s -> sfadd c f = Ok h -> R h (q_add (q_const c) s).
Proof.
  intros Rf Eh. unfold sfadd in Eh. destruct (fconst c) as [k|] eqn:Ek; [|discriminate]. simpl in Eh.
  apply (R_fadd k f h _ _ (R_fconst c k Ek) Rf Eh).
Qed.
Lemma R_sfsub c f h s : R f s -> sfsub c f = Ok h -> R h (q_sub (q_const c) s).
Proof.
  intros Rf Eh. unfold sfsub in Eh. destruct (fconst c) as [k|] eqn:Ek; [|discriminate]. simpl in Eh.
  apply (R_fsub k f h _ _ (R_fconst c k Ek) Rf Eh).
Qed.
Lemma R_sfdiv c f h s : R f s -> fst s <> [] -> sfdiv c f = Ok h -> R h (q_div (q_const c) s).
Proof.
  intros Rf Hs Eh. unfold sfdiv in Eh. destruct (fconst c) as [k|] eqn:Ek; [|discriminate]. simpl in Eh.
  apply (R_fdiv k f h _ _ (R_fconst c k Ek) Rf Hs Eh).
Qed.
Lemma R_fadds f c h s : R f s -> fadds f c = Ok h -> R h (q_add s (q_const c)).
Proof.
  intros Rf Eh. unfold fadds in Eh. destruct (fconst c) as [k|] eqn:Ek; [|discriminate]. simpl in Eh.
  apply (R_fadd f k h _ _ Rf (R_fconst c k Ek) Eh).
Qed.

(* one term of the sum: v * g ** -k *)
Lemma R_subst_term g t e h u : R g t -> subst_term g e = Ok h -> q_zpow t (- fst e) = Some u ->
  R h (q_mul (q_const (snd e)) u).
Proof.
  intros Rg Eh Eu. unfold subst_term in Eh. destruct (fpow g (- fst e)) as [p|] eqn:Ep; [|discriminate].
  simpl in Eh. apply (R_sfmul _ p h u (R_fpow_z g t _ p u Rg Ep Eu) Eh).
Qed.

Definition acc_rel (a : option filt) (s : frac) : Prop :=
  match a with None => s = q_const 0 | Some f => R f s end.

Definition fsum_step (g : filt) (acc : res (option filt)) (e : Z * Qc) : res (option filt) :=
  bind acc (fun a => bind (subst_term g e) (fun t =>
    match a with
    | None => bind (sfadd 0 t) (fun s => Ok (Some s))
    | Some s => bind (fadd s t) (fun s' => Ok (Some s'))
    end)).

Lemma fold_raise {A B} (stepf : res A -> B -> res A) l e :
  (forall b, stepf (Raise e) b = Raise e) -> fold_left stepf l (Raise e) = Raise e.
Proof. intro H. induction l as [|b l IH]; simpl; [reflexivity|]. rewrite H. exact IH. Qed.

Lemma fsum_fold g t : R g t -> forall l a r s sfin,
  fold_left (fsum_step g) l (Ok a) = Ok r -> fold_left (q_at_step t) l (Some s) = Some sfin ->
  acc_rel a s -> acc_rel r sfin.
Proof.
  intros Rg. induction l as [|e l IH]; intros a r s sfin Er Es Ha; cbn [fold_left] in Er, Es.
  - injection Er as <-. injection Es as <-. exact Ha.
  - remember (q_at_step t (Some s) e) as s1 eqn:Es1. unfold q_at_step in Es1.
    remember (fsum_step g (Ok a) e) as a1 eqn:Ea1. unfold fsum_step in Ea1. cbn [bind] in Ea1.
    destruct (q_zpow t (- fst e)) as [u|] eqn:Eu.
    2:{ exfalso. subst s1. clear -Es. induction l as [|x l IHl]; cbn [fold_left] in Es; [discriminate|].
        apply IHl. exact Es. }
    destruct (subst_term g e) as [tm|ex] eqn:Et.
    2:{ subst a1. cbn [bind] in Er. rewrite fold_raise in Er by reflexivity. discriminate. }
    pose proof (R_subst_term g t e tm u Rg Et Eu) as Rt. cbn [bind] in Ea1.
    destruct a as [f0|].
    + destruct (fadd f0 tm) as [s'|ex] eqn:Ea.
      2:{ subst a1. cbn [bind] in Er. rewrite fold_raise in Er by reflexivity. discriminate. }
      subst a1 s1. cbn [bind] in Er. apply (IH _ _ _ _ Er Es). simpl. apply (R_fadd f0 tm s' _ _ Ha Rt Ea).
    + destruct (sfadd 0 tm) as [s'|ex] eqn:Ea.
      2:{ subst a1. cbn [bind] in Er. rewrite fold_raise in Er by reflexivity. discriminate. }
      subst a1 s1. cbn [bind] in Er. apply (IH _ _ _ _ Er Es). simpl. simpl in Ha. subst s.
      apply (R_sfadd 0 tm s' _ Rt Ea).
Qed.

Lemma fsum_R g t p r u : R g t -> fsum g p = Ok r -> q_at p t = Some u -> acc_rel r u.
Proof.
  intros Rg Er Eu. unfold fsum in Er. unfold q_at in Eu.
  apply (fsum_fold g t Rg (sort_asc p) None r (q_const 0) u Er Eu). reflexivity.
Qed.

(* substitution = evaluation at z := g *)
Theorem R_fsubst f g t h u v : R g t -> fsubst f g = Ok h ->
  q_at (fnum f) t = Some u -> q_at (fden f) t = Some v -> fst v <> [] -> R h (q_div u v).
Proof.
  intros Rg Eh Eu Ev Hv. unfold fsubst in Eh.
  destruct (fsum g (fnum f)) as [a|] eqn:Ea; [|discriminate]. simpl in Eh.
  destruct (fsum g (fden f)) as [b|] eqn:Eb; [|discriminate]. simpl in Eh.
  pose proof (fsum_R g t _ a u Rg Ea Eu) as Ra. pose proof (fsum_R g t _ b v Rg Eb Ev) as Rb.
  destruct b as [fb|]; [|destruct a; discriminate].
  destruct a as [fa|]; simpl in Ra, Rb.
  - apply (R_fdiv fa fb h u v Ra Rb Hv Eh).
  - subst u. apply (R_sfdiv 0 fb h v Rb Hv Eh).
Qed.
