(* C05 - the nested-list model used for histories is, on a flat list of filters, the CascadeFilter /
   ParallelFilter model of the theorems (so cascade_is_product / parallel_is_sum speak about every state a
   filter list is observed in: a call depends only on the members held at that moment). *)
From Coq Require Import List Bool ZArith QArith Qcanon String.
From AL Require Import Base.CaseLib C07.Model C05.Model C05.Spec.
Import ListNotations.
Open Scope Qc_scope.

Lemma srun_casc_flat fs x : srun (SCasc (map SF fs)) x = cascade_run fs x.
Proof.
  unfold cascade_run. cbn [srun]. generalize (Ok x : res (list Qc)).
  induction fs as [|f r IH]; intro acc; cbn [map fold_left]; [reflexivity|]. apply IH.
Qed.

Lemma srun_par_flat fs x : srun (SPar (map SF fs)) x = parallel_run fs x.
Proof.
  destruct fs as [|f r]; [reflexivity|]. unfold parallel_run. cbn [srun map].
  generalize (frun f x). induction r as [|g r IH]; intro acc; cbn [map fold_left]; [reflexivity|]. apply IH.
Qed.

Lemma all_sf_map fs : all_sf (map SF fs) = Some fs.
Proof. induction fs as [|f r IH]; simpl; [reflexivity|]. rewrite IH. reflexivity. Qed.

Lemma spoly_par_flat b fs : spoly b (SPar (map SF fs)) = if b then parallel_numpoly fs else parallel_denpoly fs.
Proof. cbn [spoly]. rewrite all_sf_map. reflexivity. Qed.

Lemma spoly_casc_flat fs : spoly true (SCasc (map SF fs)) = cascade_numpoly fs /\
                           spoly false (SCasc (map SF fs)) = cascade_denpoly fs.
Proof.
  unfold cascade_numpoly, cascade_denpoly, reduce_pmul. destruct fs as [|f r]; [split; reflexivity|].
  cbn [spoly map]. split.
  - generalize (fnum f). induction r as [|g r IH]; intro a; cbn [map fold_left]; [reflexivity|]. apply IH.
  - generalize (fden f). induction r as [|g r IH]; intro a; cbn [map fold_left]; [reflexivity|]. apply IH.
Qed.

(* calls are independent: what a filter list does is a function of its current members only *)
Theorem struct_calls_flat fs x :
  srun (SCasc (map SF fs)) x = cascade_run fs x /\ srun (SPar (map SF fs)) x = parallel_run fs x /\
  spoly true (SCasc (map SF fs)) = cascade_numpoly fs /\ spoly false (SCasc (map SF fs)) = cascade_denpoly fs /\
  spoly true (SPar (map SF fs)) = parallel_numpoly fs /\ spoly false (SPar (map SF fs)) = parallel_denpoly fs.
Proof.
  split; [apply srun_casc_flat|]. split; [apply srun_par_flat|].
  split; [apply spoly_casc_flat|]. split; [apply spoly_casc_flat|].
  split; [apply (spoly_par_flat true)|apply (spoly_par_flat false)].
Qed.
