(* C05 - rational-function layer, part 2: the textbook fraction operations satisfy the field
   laws and respect "same rational function". *)
From Coq Require Import List Bool ZArith QArith Qcanon Lia Ring Setoid Morphisms String.
From AL Require Import Base.CaseLib C07.Model C07.Spec C07.Lib C07.Proofs_Ring C07.Proofs_Eval
  C05.Model C05.Spec C05.Lib_Ring C05.Proofs_Domain.
Import ListNotations.
Open Scope Qc_scope.

Ltac unW H :=
  let A := fresh "Wn" in let B := fresh "Wd" in
  destruct H as [A B]; cbn [fst snd] in A, B; pose proof (proj1 A); pose proof (proj1 B).
Ltac fr_start := unfold fr_deq, q_div, q_sub; unfold q_add, q_mul, q_inv, q_neg, q_const; cbn [fst snd].

Section Laws.
Variables a b c : frac.
Hypothesis Wa : fr_wf a.
Hypothesis Wb : fr_wf b.
Hypothesis Wc : fr_wf c.

Lemma q_add_comm : fr_deq (q_add a b) (q_add b a).
Proof. destruct a, b. unW Wa. unW Wb. fr_start. poly_ring. Qed.
Lemma q_mul_comm : fr_deq (q_mul a b) (q_mul b a).
Proof. destruct a, b. unW Wa. unW Wb. fr_start. poly_ring. Qed.
Lemma q_add_assoc : fr_deq (q_add (q_add a b) c) (q_add a (q_add b c)).
Proof. destruct a, b, c. unW Wa. unW Wb. unW Wc. fr_start. poly_ring. Qed.
Lemma q_mul_assoc : fr_deq (q_mul (q_mul a b) c) (q_mul a (q_mul b c)).
Proof. destruct a, b, c. unW Wa. unW Wb. unW Wc. fr_start. poly_ring. Qed.
Lemma q_distr_l : fr_deq (q_mul a (q_add b c)) (q_add (q_mul a b) (q_mul a c)).
Proof. destruct a, b, c. unW Wa. unW Wb. unW Wc. fr_start. poly_ring. Qed.
Lemma q_distr_r : fr_deq (q_mul (q_add a b) c) (q_add (q_mul a c) (q_mul b c)).
Proof. destruct a, b, c. unW Wa. unW Wb. unW Wc. fr_start. poly_ring. Qed.
Lemma q_add_0_l : fr_deq (q_add (pconst 0, pconst 1) a) a.
Proof.
  destruct a. unW Wa. fr_start. replace (pconst 0) with (@nil (Z * Qc)) by (vm_compute; reflexivity). poly_ring.
Qed.
Lemma q_mul_1_l : fr_deq (q_mul (q_const 1) a) a.
Proof. destruct a. unW Wa. fr_start. poly_ring. Qed.
Lemma q_add_neg : fr_deq (q_add a (q_neg a)) (pconst 0, pconst 1).
Proof.
  destruct a. unW Wa. fr_start. replace (pconst 0) with (@nil (Z * Qc)) by (vm_compute; reflexivity). poly_ring.
Qed.
Lemma q_sub_def : q_sub a b = q_add a (q_neg b).
Proof. reflexivity. Qed.
(* a / a = 1 (for a <> 0, so that the quotient exists; the cross-multiplication itself is an identity) *)
Lemma q_div_self : fr_deq (q_div a a) (q_const 1).
Proof. destruct a. unW Wa. fr_start. poly_ring. Qed.
Lemma q_div_def : q_div a b = q_mul a (q_inv b).
Proof. reflexivity. Qed.
Lemma q_mul_div_cancel : fr_deq (q_mul (q_div a b) b) a.
Proof. destruct a, b. unW Wa. unW Wb. fr_start. poly_ring. Qed.
Lemma q_neg_mul : fr_deq (q_neg a) (q_mul (q_const (- (1))) a).
Proof.
  destruct a. unW Wa. fr_start.
  assert (deq (pconst (- (1))) (pneg (pconst 1))) as Hc.
  { intro F. rewrite dot_pneg by apply wf_pconst. rewrite !dot_pconst. ring. }
  pose proof (proj1 (wf_pconst (- (1)))). lift_hyp Hc. lift_goal. rewrite Hc. ring.
Qed.
End Laws.

(* the operations respect the equivalence *)
Section Compat.
Variables a a' b b' : frac.
Hypothesis Wa : fr_wf a.
Hypothesis Wa' : fr_wf a'.
Hypothesis Wb : fr_wf b.
Hypothesis Wb' : fr_wf b'.
Hypothesis Ha : fr_deq a a'.
Hypothesis Hb : fr_deq b b'.

Lemma q_add_compat : fr_deq (q_add a b) (q_add a' b').
Proof.
  destruct a as [n1 d1], a' as [n1' d1'], b as [n2 d2], b' as [n2' d2'].
  unW Wa. unW Wa'. unW Wb. unW Wb'. unfold fr_deq in Ha, Hb. cbn [fst snd] in Ha, Hb. fr_start.
  lift_hyp Ha. lift_hyp Hb. lift_goal.
  match goal with |- weq (wmul (wadd (wmul ?N1 ?D2) (wmul ?N2 ?D1)) (wmul ?D1' ?D2')) _ =>
    transitivity (wadd (wmul (wmul (wmul N1 D1') D2) D2') (wmul (wmul (wmul N2 D2') D1) D1')); [ring|];
    rewrite Ha, Hb; ring end.
Qed.
Lemma q_mul_compat : fr_deq (q_mul a b) (q_mul a' b').
Proof.
  destruct a as [n1 d1], a' as [n1' d1'], b as [n2 d2], b' as [n2' d2'].
  unW Wa. unW Wa'. unW Wb. unW Wb'. unfold fr_deq in Ha, Hb. cbn [fst snd] in Ha, Hb. fr_start.
  lift_hyp Ha. lift_hyp Hb. lift_goal.
  match goal with |- weq (wmul (wmul ?N1 ?N2) (wmul ?D1' ?D2')) _ =>
    transitivity (wmul (wmul N1 D1') (wmul N2 D2')); [ring|]; rewrite Ha, Hb; ring end.
Qed.
Lemma q_neg_compat : fr_deq (q_neg a) (q_neg a').
Proof.
  destruct a as [n1 d1], a' as [n1' d1']. unW Wa. unW Wa'. unfold fr_deq in Ha. cbn [fst snd] in Ha. fr_start.
  lift_hyp Ha. lift_goal.
  match goal with |- weq (wmul (wopp ?N1) ?D1') _ => transitivity (wopp (wmul N1 D1')); [ring|]; rewrite Ha; ring end.
Qed.
Lemma q_inv_compat : fr_deq (q_inv a) (q_inv a').
Proof.
  destruct a as [n1 d1], a' as [n1' d1']. unW Wa. unW Wa'. unfold fr_deq in Ha. cbn [fst snd] in Ha. fr_start.
  lift_hyp Ha. lift_goal.
  match goal with |- weq (wmul ?D1 ?N1') (wmul ?D1' ?N1) => transitivity (wmul N1' D1); [ring|]; rewrite <- Ha; ring end.
Qed.
End Compat.

Lemma q_sub_compat a a' b b' : fr_wf a -> fr_wf a' -> fr_wf b -> fr_wf b' ->
  fr_deq a a' -> fr_deq b b' -> fr_deq (q_sub a b) (q_sub a' b').
Proof.
  intros Wa Wa' Wb Wb' Ha Hb. unfold q_sub. apply q_add_compat; try assumption.
  - destruct Wb. split; [apply wf_pneg|assumption].
  - destruct Wb'. split; [apply wf_pneg|assumption].
  - apply q_neg_compat; assumption.
Qed.
Lemma q_div_compat a a' b b' : fr_wf a -> fr_wf a' -> fr_wf b -> fr_wf b' ->
  fr_deq a a' -> fr_deq b b' -> fr_deq (q_div a b) (q_div a' b').
Proof.
  intros Wa Wa' Wb Wb' Ha Hb. unfold q_div. apply q_mul_compat; try assumption.
  - destruct Wb. split; assumption.
  - destruct Wb'. split; assumption.
  - apply q_inv_compat; assumption.
Qed.

(* well-formedness is preserved *)
Lemma fr_wf_add a b : fr_wf (q_add a b). Proof. split; [apply wf_padd|apply wf_pmul]. Qed.
Lemma fr_wf_mul a b : fr_wf (q_mul a b). Proof. split; apply wf_pmul. Qed.
Lemma fr_wf_neg a : fr_wf a -> fr_wf (q_neg a). Proof. intros [A B]. split; [apply wf_pneg|exact B]. Qed.
Lemma fr_wf_inv a : fr_wf a -> fr_wf (q_inv a). Proof. intros [A B]. split; assumption. Qed.
Lemma fr_wf_const c : fr_wf (q_const c). Proof. split; apply wf_pconst. Qed.
Lemma fr_wf_div a b : fr_wf b -> fr_wf (q_div a b). Proof. intros. apply fr_wf_mul. Qed.
Lemma fr_wf_pow a n : fr_wf (q_pow a n). Proof. destruct n; simpl; [apply fr_wf_const|apply fr_wf_mul]. Qed.
