(* C05 - case record types and boolean checkers for the generated case files.
   corr_* : the implementation's observation equals the model's output.
   holds_*: the implementation's observation satisfies what the property text states,
            computed from the OBSERVED polynomials / outputs with the Spec definitions. *)
From Coq Require Import List Bool ZArith QArith Qcanon String.
From AL Require Import Base.CaseLib C07.Model C07.Spec C07.Check C05.Model C05.Spec.
Import ListNotations.
Open Scope Qc_scope.

Definition qlist_eqb : list Qc -> list Qc -> bool := list_eqb Qc_eqb.
Definition frac_lit_eqb (a b : poly * poly) : bool := poly_eqb (fst a) (fst b) && poly_eqb (snd a) (snd b).
Definition pair_of (f : filt) : poly * poly := (fnum f, fden f).
Definition rmap {A B} (g : A -> B) (r : res A) : res B := match r with Ok a => Ok (g a) | Raise e => Raise e end.
Definition min_key0 (d : poly) : bool := match min_key d with Some k => (k =? 0)%Z | None => false end.
(* what every observed filter object must look like *)
Definition obs_okb (nd : poly * poly) : bool := wfb (fst nd) && wfb (snd nd) && min_key0 (snd nd).
Definition causalb (nd : poly * poly) : bool := nonnegb (fst nd).
Definition all_ok {A} (l : list (res A)) : bool := forallb is_ok l.

(* ---------------------------------------------------------------- tree: one expression, one input *)
(* t_filt = (list(numpoly.terms(sort=False)), list(denpoly.terms(sort=False))) or the exception,
   t_out = list(tree(x)) *)
Record tcase := TC { t_expr : fexpr; t_x : list Qc; t_filt : res (poly * poly); t_out : res (list Qc) }.
Definition corr_tree (c : tcase) : bool :=
  res_eqb frac_lit_eqb (t_filt c) (rmap pair_of (feval (t_expr c))) &&
  res_eqb qlist_eqb (t_out c) (bind (feval (t_expr c)) (fun f => frun f (t_x c))).
Definition holds_tree (c : tcase) : bool :=
  match t_filt c, sem (t_expr c) with
  | Ok nd, s =>
      obs_okb nd &&
      match s with Some q => frac_eqb nd q | None => true end &&      (* the right rational function *)
      (if causalb nd then match t_out c with
                          | Ok y => resp_b (fst nd) (snd nd) (t_x c) y   (* its difference equation *)
                          | Raise _ => false
                          end
       else negb (is_ok (t_out c)))                                   (* an advance cannot run *)
  | Raise _, Some _ => false                  (* the tree has a value: an exception is a violation *)
  | Raise _, None => true
  end.

(* ---------------------------------------------------------------- sys: system algebra on signals *)
Inductive skind := KAdd | KSub | KMul | KDivMul | KScaleL | KScaleR | KDivS | KPow | KDelay.
(* the composite filter of each kind, as the harness builds it *)
Definition comp_expr (k : skind) (a b : fexpr) (c : Qc) (n : Z) : fexpr :=
  match k with
  | KAdd => FAdd a b | KSub => FSub a b | KMul => FMul a b
  | KDivMul => FMul (FDiv a b) b
  | KScaleL => FSMul c a | KScaleR => FMulS a c | KDivS => FDivS a c
  | KPow => FPow a n
  | KDelay => FPow FZ (- n)
  end.
(* s_comp = composite(x); s_ya = a(x); s_yb = b(x); s_yab = a(b(x)); s_yba = b(a(x));
   s_yit = a applied n times to x *)
Record scase := SC { s_kind : skind; s_a : fexpr; s_b : fexpr; s_c : Qc; s_n : Z; s_x : list Qc;
                     s_comp : res (list Qc); s_ya : res (list Qc); s_yb : res (list Qc);
                     s_yab : res (list Qc); s_yba : res (list Qc); s_yit : res (list Qc) }.
Definition run_expr (e : fexpr) (x : list Qc) : res (list Qc) := bind (feval e) (fun f => frun f x).
Definition corr_sys (c : scase) : bool :=
  let a := s_a c in let b := s_b c in let x := s_x c in
  res_eqb qlist_eqb (s_comp c) (run_expr (comp_expr (s_kind c) a b (s_c c) (s_n c)) x) &&
  res_eqb qlist_eqb (s_ya c) (run_expr a x) &&
  res_eqb qlist_eqb (s_yb c) (run_expr b x) &&
  res_eqb qlist_eqb (s_yab c) (bind (run_expr b x) (run_expr a)) &&
  res_eqb qlist_eqb (s_yba c) (bind (run_expr a x) (run_expr b)) &&
  res_eqb qlist_eqb (s_yit c) (bind (feval a) (fun f => iter_run f (Z.to_nat (s_n c)) x)).
Definition zip_sub (a b : list Qc) : list Qc := zip_add a (map Qcopp b).
Definition req (o : res (list Qc)) (y : list Qc) : bool := res_eqb qlist_eqb o (Ok y).
(* is the rational function of b zero? (then f/b does not exist) *)
Definition sem_zero (e : fexpr) : bool := match sem e with Some s => is_zero (fst s) | None => true end.
Definition holds_sys (c : scase) : bool :=
  match s_kind c with
  | KAdd => match s_ya c, s_yb c with Ok ya, Ok yb => req (s_comp c) (zip_add ya yb) | _, _ => true end
  | KSub => match s_ya c, s_yb c with Ok ya, Ok yb => req (s_comp c) (zip_sub ya yb) | _, _ => true end
  | KMul => match s_yab c, s_yba c with
            | Ok yab, Ok yba => req (s_comp c) yab && req (s_comp c) yba
            | _, _ => true end
  | KDivMul => match s_ya c, s_yb c with
               | Ok ya, Ok yb => if sem_zero (s_b c) then true else req (s_comp c) ya
               | _, _ => true end
  | KScaleL | KScaleR => match s_ya c with Ok ya => req (s_comp c) (map (Qcmult (s_c c)) ya) | _ => true end
  | KDivS => match s_ya c with
             | Ok ya => if Qc_eqb (s_c c) 0 then true else req (s_comp c) (map (fun v => v / s_c c) ya)
             | _ => true end
  | KPow => match s_ya c with
            | Ok _ => if (0 <=? s_n c)%Z then res_eqb qlist_eqb (s_comp c) (s_yit c) && is_ok (s_yit c) else true
            | _ => true end
  | KDelay => if (0 <=? s_n c)%Z then req (s_comp c) (delayed (Z.to_nat (s_n c)) (s_x c)) else true
  end.

(* ---------------------------------------------------------------- eq: == != hash on a pair *)
(* q_must: the generator built the same filter twice (other order / other path): == demanded *)
Record qcase := QC { q_a : fexpr; q_b : fexpr; q_must : bool;
                     q_fa : res (poly * poly); q_fb : res (poly * poly);
                     q_eq : bool; q_ne : bool; q_heq : bool; q_ha : list Z; q_hb : list Z }.
Definition zlist_eqb : list Z -> list Z -> bool := list_eqb Z.eqb.
Definition corr_eq (c : qcase) : bool :=
  res_eqb frac_lit_eqb (q_fa c) (rmap pair_of (feval (q_a c))) &&
  res_eqb frac_lit_eqb (q_fb c) (rmap pair_of (feval (q_b c))) &&
  match feval (q_a c), feval (q_b c) with
  | Ok f, Ok g => Bool.eqb (q_eq c) (feq f g) && Bool.eqb (q_ne c) (fne f g) &&
                  zlist_eqb (q_ha c) (fhash_items f) && zlist_eqb (q_hb c) (fhash_items g) &&
                  implb (zlist_eqb (fhash_items f) (fhash_items g)) (q_heq c)   (* equal tuples hash equally;
                     different tuples may collide: hash(-1) = hash(-2) in CPython *)
  | _, _ => true
  end.
Definition holds_eq (c : qcase) : bool :=
  match q_fa c, q_fb c with
  | Ok a, Ok b =>
      obs_okb a && obs_okb b &&
      Bool.eqb (q_eq c) (sameb (fst a) (fst b) && sameb (snd a) (snd b)) &&   (* == : same num and same den *)
      Bool.eqb (q_ne c) (negb (q_eq c)) &&                                    (* exactly one of ==, != *)
      implb (q_eq c) (q_heq c) &&                                             (* equal filters hash equally *)
      implb (q_must c) (q_eq c)
  | _, _ => negb (q_must c)
  end.

(* ---------------------------------------------------------------- flist: CascadeFilter / ParallelFilter *)
(* l_out = list(L(x)); l_num / l_den = L.numpoly / L.denpoly; l_parts: cascade: the outputs of the
   successive stages applied one after the other by hand (last = whole chain); parallel: each f_i(x);
   l_fold = list(reduce(mul / add, filters)(x)) *)
Record lcase := LC { l_par : bool; l_es : list fexpr; l_x : list Qc;
                     l_out : res (list Qc); l_num : res poly; l_den : res poly;
                     l_parts : list (res (list Qc)); l_fold : res (list Qc) }.
Fixpoint evals (es : list fexpr) : res (list filt) :=
  match es with
  | [] => Ok []
  | e :: r => bind (feval e) (fun f => bind (evals r) (fun fs => Ok (f :: fs)))
  end.
Fixpoint chain_parts (fs : list filt) (x : res (list Qc)) : list (res (list Qc)) :=
  match fs with [] => [] | f :: r => let y := bind x (frun f) in y :: chain_parts r y end.
Definition fold_filters (par : bool) (fs : list filt) : res filt :=
  match fs with
  | [] => Raise "TypeError"
  | f :: r => fold_left (fun acc g => bind acc (fun a => if par then fadd a g else fmul a g)) r (Ok f)
  end.
Definition corr_flist (c : lcase) : bool :=
  match evals (l_es c) with
  | Raise _ => true
  | Ok fs =>
      let x := l_x c in
      if l_par c then
        res_eqb qlist_eqb (l_out c) (parallel_run fs x) &&
        res_eqb poly_eqb (l_num c) (parallel_numpoly fs) && res_eqb poly_eqb (l_den c) (parallel_denpoly fs) &&
        list_eqb (res_eqb qlist_eqb) (l_parts c) (map (fun f => frun f x) fs) &&
        res_eqb qlist_eqb (l_fold c) (bind (fold_filters true fs) (fun f => frun f x))
      else
        res_eqb qlist_eqb (l_out c) (cascade_run fs x) &&
        res_eqb poly_eqb (l_num c) (cascade_numpoly fs) && res_eqb poly_eqb (l_den c) (cascade_denpoly fs) &&
        list_eqb (res_eqb qlist_eqb) (l_parts c) (chain_parts fs (Ok x)) &&
        res_eqb qlist_eqb (l_fold c) (bind (fold_filters false fs) (fun f => frun f x))
  end.
(* the meaning of the list: product / sum of the meanings of its members *)
Definition sem_list (par : bool) (es : list fexpr) : option frac :=
  match es with
  | [] => None
  | e :: r => fold_left (fun acc e' => obind acc (fun s => obind (sem e') (fun t =>
                           Some (if par then q_add s t else q_mul s t)))) r (sem e)
  end.
Definition sum_parts (n : nat) (ps : list (list Qc)) : list Qc :=
  match ps with [] => repeat 0 n | p :: r => fold_left zip_add r p end.
Fixpoint oks {A} (l : list (res A)) : option (list A) :=
  match l with
  | [] => Some []
  | Ok a :: r => match oks r with Some s => Some (a :: s) | None => None end
  | Raise _ :: _ => None
  end.
Definition holds_flist (c : lcase) : bool :=
  match oks (l_parts c) with
  | None => true                                  (* some member is not a causal filter *)
  | Some ps =>
      (if l_par c then req (l_out c) (sum_parts (List.length (l_x c)) ps)
       else req (l_out c) (last ps (l_x c))) &&
      match l_es c with
      | [] => true
      | _ => res_eqb qlist_eqb (l_out c) (l_fold c) &&
             match l_num c, l_den c, sem_list (l_par c) (l_es c) with
             | Ok n, Ok d, Some s => wfb n && wfb d && frac_eqb (n, d) s
             | _, _, None => true
             | _, _, Some _ => false
             end
      end
  end.

(* ---------------------------------------------------------------- lin: linearize *)
(* n_tn / n_td = list(f.numpoly.terms()) / list(f.denpoly.terms()) of the filter f (fractional powers),
   n_filt = the (numerator, denominator) items of f.linearize() *)
Record ncase := NC { n_tn : fterms; n_td : fterms; n_filt : res (poly * poly) }.
Definition corr_lin (c : ncase) : bool :=
  res_eqb frac_lit_eqb (n_filt c) (rmap pair_of (flinearize (n_tn c) (n_td c))).
(* the text only says that a filter object results; what "linear interpolation" certainly means is
   checked as well: gain at z = 1 is kept (cross-multiplied, so that the constructor's shift does not matter) *)
Definition mom (p : poly) : Qc := dot p zq.                    (* first moment: sum_k k p_k *)
Definition holds_lin (c : ncase) : bool :=
  match n_filt c with
  | Ok nd =>
      let n1 := dc (fst nd) in let d1 := dc (snd nd) in
      let n0 := fdot (n_tn c) (fun _ => 1) in let d0 := fdot (n_td c) (fun _ => 1) in
      (* the delay at z = 1 relative to the gain, M n / n(1) - M d / d(1), cross-multiplied; it does not
         change when numerator and denominator are shifted together *)
      let a1 := mom (fst nd) * d1 - mom (snd nd) * n1 in
      let a0 := fdot (n_tn c) (fun k => k) * d0 - fdot (n_td c) (fun k => k) * n0 in
      obs_okb nd && Qc_eqb (n1 * d0) (n0 * d1) && Qc_eqb (a1 * (n0 * d0)) (a0 * (n1 * d1))
  | Raise _ => true
  end.

(* ---------------------------------------------------------------- hist: histories on live objects *)
(* One observation of a (nested) filter list in its CURRENT state: o_s = the members it holds now,
   o_out = list(L(x)) with x given as some kind of iterable, o_num / o_den = L.numpoly / L.denpoly when read *)
Record ocase := OC { o_s : sexpr; o_x : list Qc; o_out : res (list Qc);
                     o_num : option (res poly); o_den : option (res poly) }.
Definition opt_poly_eqb (o : option (res poly)) (m : res poly) : bool :=
  match o with None => true | Some r => res_eqb poly_eqb r m end.
Definition corr_obs (c : ocase) : bool :=
  match seval (o_s c) with
  | Raise _ => true
  | Ok st => res_eqb qlist_eqb (o_out c) (srun st (o_x c)) &&
             opt_poly_eqb (o_num c) (spoly true st) && opt_poly_eqb (o_den c) (spoly false st)
  end.
(* what the text demands: the output is that of the product / sum (the unique solution of its difference
   equation), the polynomials are the product / sum up to ~ *)
Definition holds_obs (c : ocase) : bool :=
  match ssem (o_s c) with
  | None => true
  | Some q =>
      (if runnable q then match o_out c with Ok y => resp_b (fst q) (snd q) (o_x c) y | Raise _ => false end
       else true) &&
      match o_num c, o_den c with
      | Some (Ok n), Some (Ok d) => wfb n && wfb d && frac_eqb (n, d) q
      | _, _ => true
      end
  end.
(* a history: every observation made along it, each against the contents at that moment.
   h_ts: filter objects (operands re-observed after they were used, results), h_qs: == / != / hash of an
   object against the same filter built afresh, h_os: filter lists between in-place edits *)
Record hcase := HC { h_ts : list tcase; h_qs : list qcase; h_os : list ocase }.
Definition corr_hist (c : hcase) : bool :=
  forallb corr_tree (h_ts c) && forallb corr_eq (h_qs c) && forallb corr_obs (h_os c).
Definition holds_hist (c : hcase) : bool :=
  forallb holds_tree (h_ts c) && forallb holds_eq (h_qs c) && forallb holds_obs (h_os c).
