(* C05 - rational-function layer, part 5: every operator tree (without substitution, which is
   R_fsubst) evaluates to a filter object denoting the tree's textbook value. *)
From Coq Require Import List Bool ZArith QArith Qcanon Lia String.
From AL Require Import Base.CaseLib C07.Model C07.Spec C07.Lib C07.Proofs_Ring C07.Proofs_Eval
  C05.Model C05.Spec C05.Lib_Ring C05.Proofs_Domain C05.Proofs_Frac C05.Proofs_Field C05.Proofs_Pow C05.Proofs_Subst.
Import ListNotations.
Open Scope Qc_scope.

Fixpoint no_call (e : fexpr) : bool :=
  match e with
  | FDict _ _ | FLists _ _ | FNum _ | FZ => true
  | FNeg a | FPos a | FAddS a _ | FSAdd _ a | FSubS a _ | FSSub _ a | FMulS a _ | FSMul _ a
  | FDivS a _ | FSDiv _ a | FPow a _ => no_call a
  | FAdd a b | FSub a b | FMul a b | FDiv a b => no_call a && no_call b
  | FCall _ _ => false
  end.

Lemma defined_some a s : defined a = Some s -> a = Some s /\ snd s <> [].
Proof.
  unfold defined. destruct a as [s0|]; [|discriminate]. destruct (is_zero (snd s0)) eqn:E; [discriminate|].
  intro H. injection H as <-. split; [reflexivity|apply is_zero_false; exact E].
Qed.

Lemma R_equiv f s s' : R f s -> fr_wf s' -> snd s' <> [] -> fr_deq s s' -> R f s'.
Proof.
  intros (Fo & Ws & Hs & E) Ws' Hs' H. split; [exact Fo|split; [exact Ws'|split; [exact Hs'|]]].
  apply (fr_deq_trans _ s _); try assumption. destruct Fo as (A & B & _). split; assumption.
Qed.

Lemma q_const_neg c : fr_deq (q_const (- c)) (q_neg (q_const c)).
Proof.
  unfold fr_deq, q_neg, q_const. cbn [fst snd]. apply pmul_deq_compat; [|apply deq_refl].
  intro F. rewrite dot_pneg by apply wf_pconst. rewrite !dot_pconst. ring.
Qed.

Lemma R_fsubs f c h s : R f s -> fsubs f c = Ok h -> R h (q_sub s (q_const c)).
Proof.
  intros Rf Eh. unfold fsubs in Eh. pose proof (R_fadds f (- c) h s Rf Eh) as R1.
  pose proof Rf as (_ & Ws & Hs & _).
  apply (R_equiv _ _ _ R1).
  - apply fr_wf_add.
  - simpl. apply pmul_nonzero; [apply Ws|apply wf_pconst|exact Hs|apply (wf_pconst_nz 0)].
  - unfold q_sub. apply q_add_compat; try assumption; try apply fr_wf_const.
    + apply fr_wf_neg. apply fr_wf_const.
    + unfold fr_deq. apply deq_refl.
    + apply q_const_neg.
Qed.

Lemma R_fdivs f c h s : R f s -> c <> 0 -> fdivs f c = Ok h -> R h (q_mul s (q_const (1 / c))).
Proof.
  intros Rf Hc Eh. unfold fdivs in Eh. apply Qc_eqb_false in Hc. rewrite Hc in Eh.
  apply (R_fmuls f _ h s Rf Eh).
Qed.

Ltac bind_inv H x E :=
  match type of H with
  | bind ?r _ = Ok _ => destruct r as [x|] eqn:E; [cbn [bind] in H|discriminate]
  | bind2 ?r ?s _ = Ok _ => unfold bind2 in H; destruct r as [x|] eqn:E; [cbn [bind] in H|discriminate]
  end.
Ltac obind_inv H x E :=
  match type of H with
  | obind ?r _ = Some _ => destruct r as [x|] eqn:E; [cbn [obind] in H|discriminate]
  end.

Theorem sem_sound_nocall e : no_call e = true -> forall f s, feval e = Ok f -> sem e = Some s -> R f s.
Proof.
  induction e; intros NC f s Ef Es; cbn [no_call] in NC; try apply andb_true_iff in NC as [NC1 NC2];
    cbn [feval sem] in Ef, Es; try discriminate.
  - (* FDict *) apply defined_some in Es as [Es Hs]. injection Es as <-.
    apply (R_ctor _ _ f _ (wf_mk n) (wf_mk d) Ef); [split; apply wf_mk|exact Hs|unfold fr_deq; apply deq_refl].
  - (* FLists *) apply defined_some in Es as [Es Hs]. injection Es as <-.
    apply (R_ctor _ _ f _ (wf_mk _) (wf_mk _) Ef); [split; apply wf_mk|exact Hs|unfold fr_deq; apply deq_refl].
  - (* FNum *) injection Es as <-.
    apply (R_ctor _ _ f _ (wf_mk _) (wf_pconst 1) Ef); [split; [apply wf_mk|apply wf_pconst]|apply (wf_pconst_nz 0)|
      unfold fr_deq; apply deq_refl].
  - (* FZ *) injection Es as <-.
    apply (R_ctor _ _ f _ (wf_mk _) (wf_pconst 1) Ef); [split; [apply wf_mk|apply wf_pconst]|apply (wf_pconst_nz 0)|
      unfold fr_deq; apply deq_refl].
  - (* FNeg *) bind_inv Ef fa Ea. obind_inv Es sa Sa. injection Es as <-.
    apply (R_fneg fa f sa (IHe NC _ _ eq_refl eq_refl) Ef).
  - (* FPos *) bind_inv Ef fa Ea. apply (R_fpos fa f s (IHe NC _ _ eq_refl Es) Ef).
  - (* FAdd *) bind_inv Ef fa Ea. bind_inv Ef fb Eb. obind_inv Es sa Sa. obind_inv Es sb Sb. injection Es as <-.
    apply (R_fadd fa fb f sa sb (IHe1 NC1 _ _ eq_refl eq_refl) (IHe2 NC2 _ _ eq_refl eq_refl) Ef).
  - (* FSub *) bind_inv Ef fa Ea. bind_inv Ef fb Eb. obind_inv Es sa Sa. obind_inv Es sb Sb. injection Es as <-.
    apply (R_fsub fa fb f sa sb (IHe1 NC1 _ _ eq_refl eq_refl) (IHe2 NC2 _ _ eq_refl eq_refl) Ef).
  - (* FMul *) bind_inv Ef fa Ea. bind_inv Ef fb Eb. obind_inv Es sa Sa. obind_inv Es sb Sb. injection Es as <-.
    apply (R_fmul fa fb f sa sb (IHe1 NC1 _ _ eq_refl eq_refl) (IHe2 NC2 _ _ eq_refl eq_refl) Ef).
  - (* FDiv *) bind_inv Ef fa Ea. bind_inv Ef fb Eb. obind_inv Es sa Sa. obind_inv Es sb Sb.
    apply defined_some in Es as [Es Hs]. injection Es as <-.
    apply (R_fdiv fa fb f sa sb (IHe1 NC1 _ _ eq_refl eq_refl) (IHe2 NC2 _ _ eq_refl eq_refl)); [|exact Ef].
    intro E0. apply Hs. unfold q_div, q_mul, q_inv. cbn [fst snd]. rewrite E0.
    clear. induction (snd sa) as [|x l IHl]; [reflexivity|]. unfold pmul in *. simpl. exact IHl.
  - (* FAddS *) bind_inv Ef fa Ea. obind_inv Es sa Sa. injection Es as <-.
    apply (R_fadds fa c f sa (IHe NC _ _ eq_refl eq_refl) Ef).
  - (* FSAdd *) bind_inv Ef fa Ea. obind_inv Es sa Sa. injection Es as <-.
    apply (R_sfadd c fa f sa (IHe NC _ _ eq_refl eq_refl) Ef).
  - (* FSubS *) bind_inv Ef fa Ea. obind_inv Es sa Sa. injection Es as <-.
    apply (R_fsubs fa c f sa (IHe NC _ _ eq_refl eq_refl) Ef).
  - (* FSSub *) bind_inv Ef fa Ea. obind_inv Es sa Sa. injection Es as <-.
    apply (R_sfsub c fa f sa (IHe NC _ _ eq_refl eq_refl) Ef).
  - (* FMulS *) bind_inv Ef fa Ea. obind_inv Es sa Sa. injection Es as <-.
    apply (R_fmuls fa c f sa (IHe NC _ _ eq_refl eq_refl) Ef).
  - (* FSMul *) bind_inv Ef fa Ea. obind_inv Es sa Sa. injection Es as <-.
    apply (R_sfmul c fa f sa (IHe NC _ _ eq_refl eq_refl) Ef).
  - (* FDivS *) bind_inv Ef fa Ea. obind_inv Es sa Sa. destruct (Qc_eqb c 0) eqn:Ec; [discriminate|]. injection Es as <-.
    apply (R_fdivs fa c f sa (IHe NC _ _ eq_refl eq_refl)); [apply Qc_eqb_false; exact Ec|exact Ef].
  - (* FSDiv *) bind_inv Ef fa Ea. obind_inv Es sa Sa. apply defined_some in Es as [Es Hs]. injection Es as <-.
    apply (R_sfdiv c fa f sa (IHe NC _ _ eq_refl eq_refl)); [|exact Ef].
    intro E0. apply Hs. unfold q_div, q_mul, q_inv, q_const. cbn [fst snd]. rewrite E0. vm_compute. reflexivity.
  - (* FPow *) bind_inv Ef fa Ea. obind_inv Es sa Sa.
    apply (R_fpow_z fa sa n f s (IHe NC _ _ eq_refl eq_refl) Ef Es).
Qed.

(* the statement without the bookkeeping: same rational function *)
Corollary sem_sound_equiv e f s : no_call e = true -> feval e = Ok f -> sem e = Some s ->
  frac_equiv (fr_of f) s /\ fden f <> [] /\ snd s <> [].
Proof.
  intros NC Ef Es. destruct (sem_sound_nocall e NC f s Ef Es) as ((_ & _ & Hd) & _ & Hs & E).
  split; [apply frac_equiv_deq; exact E|split; assumption].
Qed.
