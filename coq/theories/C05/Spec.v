(* C05 - what the property promises, stated on the mathematical objects.
   * A filter denotes the rational function num/den in the variable z^-1 (Laurent
     polynomials over Qc).  Two fractions are the same rational function when they
     cross-multiply to the same polynomial.  [sem] gives the meaning of an operator tree
     with the textbook fraction arithmetic (no shortcut, no normalisation).
   * A signal is a function Z -> Qc that is 0 before time 0; a polynomial p in z^-1 acts
     on signals by (p . X) n = sum_k p_k X(n-k).  Y is the response of f to X up to time N
     when  den . Y = num . X  at every time 0 <= n < N  (the difference equation).
   Definitions only. *)
From Coq Require Import List Bool ZArith QArith Qcanon String.
From AL Require Import Base.CaseLib C07.Model C07.Spec C05.Model.
Import ListNotations.
Open Scope Qc_scope.

(* ------------------------------------------------------------------ rational functions *)
Definition frac := (poly * poly)%type.
(* same rational function: n1 * d2 = n2 * d1 as coefficient functions *)
Definition frac_equiv (a b : frac) : Prop := same (pmul (fst a) (snd b)) (pmul (fst b) (snd a)).
Definition frac_eqb (a b : frac) : bool := sameb (pmul (fst a) (snd b)) (pmul (fst b) (snd a)).
Definition fr_of (f : filt) : frac := (fnum f, fden f).
(* f ~ g *)
Definition fequiv (f g : filt) : Prop := frac_equiv (fr_of f) (fr_of g).

(* textbook arithmetic of fractions *)
Definition q_const (c : Qc) : frac := (pconst c, pconst 1).
Definition q_add (a b : frac) : frac := (padd (pmul (fst a) (snd b)) (pmul (fst b) (snd a)), pmul (snd a) (snd b)).
Definition q_neg (a : frac) : frac := (pneg (fst a), snd a).
Definition q_sub (a b : frac) : frac := q_add a (q_neg b).
Definition q_mul (a b : frac) : frac := (pmul (fst a) (fst b), pmul (snd a) (snd b)).
Definition q_inv (a : frac) : frac := (snd a, fst a).
Definition q_div (a b : frac) : frac := q_mul a (q_inv b).
Fixpoint q_pow (a : frac) (n : nat) : frac :=
  match n with O => q_const 1 | S m => q_mul (q_pow a m) a end.
(* the value of p (a polynomial in z^-1) at z := g : sum_k p_k g^(-k), through 1/g *)
Definition is_zero (p : poly) : bool := match p with [] => true | _ => false end.
Definition q_zpow (a : frac) (k : Z) : option frac :=
  if (0 <=? k)%Z then Some (q_pow a (Z.to_nat k))
  else if is_zero (fst a) then None else Some (q_pow (q_inv a) (Z.to_nat (- k))).
Definition q_at_step (g : frac) (acc : option frac) (e : Z * Qc) : option frac :=
  match acc, q_zpow g (- fst e) with
  | Some s, Some t => Some (q_add s (q_mul (q_const (snd e)) t))
  | _, _ => None
  end.
(* the terms taken in ascending order of the power *)
Definition q_at (p : poly) (g : frac) : option frac :=
  fold_left (q_at_step g) (sort_asc p) (Some (q_const 0)).

(* a fraction exists when its denominator is not the zero polynomial *)
Definition defined (a : option frac) : option frac :=
  match a with Some s => if is_zero (snd s) then None else Some s | None => None end.
Definition obind (a : option frac) (f : frac -> option frac) : option frac :=
  match a with Some s => f s | None => None end.

(* meaning of an operator tree; None: undefined (a zero denominator somewhere) *)
Fixpoint sem (e : fexpr) : option frac :=
  match e with
  | FDict n d => defined (Some (mk n, mk d))
  | FLists b a => defined (Some (poly_of_list b, poly_of_list a))
  | FNum b => Some (poly_of_list b, pconst 1)
  | FZ => Some (mk [((-1)%Z, 1)], pconst 1)
  | FNeg a => obind (sem a) (fun s => Some (q_neg s))
  | FPos a => sem a
  | FAdd a b => obind (sem a) (fun s => obind (sem b) (fun t => Some (q_add s t)))
  | FSub a b => obind (sem a) (fun s => obind (sem b) (fun t => Some (q_sub s t)))
  | FMul a b => obind (sem a) (fun s => obind (sem b) (fun t => Some (q_mul s t)))
  | FDiv a b => obind (sem a) (fun s => obind (sem b) (fun t => defined (Some (q_div s t))))
  | FAddS a c => obind (sem a) (fun s => Some (q_add s (q_const c)))
  | FSAdd c a => obind (sem a) (fun s => Some (q_add (q_const c) s))
  | FSubS a c => obind (sem a) (fun s => Some (q_sub s (q_const c)))
  | FSSub c a => obind (sem a) (fun s => Some (q_sub (q_const c) s))
  | FMulS a c => obind (sem a) (fun s => Some (q_mul s (q_const c)))
  | FSMul c a => obind (sem a) (fun s => Some (q_mul (q_const c) s))
  | FDivS a c => obind (sem a) (fun s => if Qc_eqb c 0 then None else Some (q_mul s (q_const (1 / c))))
  | FSDiv c a => obind (sem a) (fun s => defined (Some (q_div (q_const c) s)))
  | FPow a n => obind (sem a) (fun s => q_zpow s n)
  (* a(b): a is a function of z^-1, so z := 0 (b the zero function) has no value *)
  | FCall a b => obind (sem a) (fun s => obind (sem b) (fun t =>
                   if is_zero (fst t) then None else
                   obind (q_at (fst s) t) (fun u => obind (q_at (snd s) t) (fun v =>
                     defined (Some (q_div u v))))))
  end.

(* ------------------------------------------------------------------ signals *)
Definition signal := Z -> Qc.
(* a finite list as a signal: 0 before time 0 (and after its end) *)
Definition sig (x : list Qc) : signal := fun n => if (n <? 0)%Z then 0 else nth (Z.to_nat n) x 0.
(* (p . X) n = sum_k p_k X(n-k) *)
Definition act (p : poly) (X : signal) : signal := fun n => dot p (fun k => X (n - k)%Z).
(* silent before time 0 *)
Definition silent (X : signal) : Prop := forall n, (n < 0)%Z -> X n = 0.
(* equal before time N *)
Definition eq_upto (N : Z) (A B : signal) : Prop := forall n, (n < N)%Z -> A n = B n.
(* the difference equation of f holds between input X and output Y at every time < N *)
Definition resp (f : filt) (X Y : signal) (N : Z) : Prop := eq_upto N (act (fden f) Y) (act (fnum f) X).
(* the same for lists: one output per input *)
Definition resp_lists (f : filt) (x y : list Qc) : Prop :=
  List.length y = List.length x /\ resp f (sig x) (sig y) (Z.of_nat (List.length x)).

(* a causal filter that can be run: stored polynomials well formed, no negative power of
   z^-1 (no advance), a0 <> 0 *)
Definition causal_ok (f : filt) : Prop :=
  wf (fnum f) /\ wf (fden f) /\ nonneg (fnum f) /\ nonneg (fden f) /\ coefn (fden f) 0 <> 0.
Definition causal_okb (f : filt) : bool :=
  wfb (fnum f) && wfb (fden f) && nonnegb (fnum f) && nonnegb (fden f) && negb (Qc_eqb (coefn (fden f) 0) 0).
(* every filter object: well-formed polynomials, lowest denominator power 0 *)
Definition filt_ok (f : filt) : Prop := wf (fnum f) /\ wf (fden f) /\ min_key (fden f) = Some 0%Z.

(* reduce(operator.mul, filters) : the product filter object of a cascade *)
Definition cascade_product (fs : list filt) : res filt :=
  match fs with
  | [] => Raise "TypeError"
  | f :: r => fold_left (fun acc g => bind acc (fun a => fmul a g)) r (Ok f)
  end.

(* f applied n times *)
Fixpoint iter_run (f : filt) (n : nat) (x : list Qc) : res (list Qc) :=
  match n with O => Ok x | S m => bind (iter_run f m x) (frun f) end.
(* delay by k samples, same length *)
Definition delayed (k : nat) (x : list Qc) : list Qc := firstn (List.length x) (repeat 0 k ++ x).

(* boolean difference-equation check on observed lists *)
Definition resp_b (n d : poly) (x y : list Qc) : bool :=
  Nat.eqb (List.length y) (List.length x) &&
  forallb (fun i => Qc_eqb (act d (sig y) (Z.of_nat i)) (act n (sig x) (Z.of_nat i))) (seq 0 (List.length x)).

(* ------------------------------------------------------------------ linearize *)
(* sum over terms with possibly fractional powers of  coefficient * G power *)
Definition fdot (t : fterms) (G : Qc -> Qc) : Qc := fold_right (fun e acc => snd e * G (fst e) + acc) 0 t.
(* gain at z = 1 *)
Definition dc (p : poly) : Qc := dot p (fun _ => 1).

(* ------------------------------------------------------------------ nested filter lists *)
(* the meaning of a (nested) CascadeFilter / ParallelFilter: the product / the sum of the meanings of the
   members it holds; an empty cascade has no polynomials (reduce of nothing), an empty bank is 0 *)
Fixpoint ssem (s : sexpr) : option frac :=
  match s with
  | XF e => sem e
  | XCasc l =>
      match l with
      | [] => None
      | m :: r =>
          (fix go (l : list sexpr) (acc : option frac) : option frac :=
             match l with
             | [] => acc
             | m' :: r' => go r' (obind acc (fun a => obind (ssem m') (fun b => Some (q_mul a b))))
             end) r (ssem m)
      end
  | XPar l =>
      match l with
      | [] => Some (q_const 0)
      | m :: r =>
          (fix go (l : list sexpr) (acc : option frac) : option frac :=
             match l with
             | [] => acc
             | m' :: r' => go r' (obind acc (fun a => obind (ssem m') (fun b => Some (q_add a b))))
             end) r (ssem m)
      end
  end.
(* a fraction whose difference equation determines the output *)
Definition runnable (q : frac) : bool :=
  nonnegb (fst q) && nonnegb (snd q) && negb (Qc_eqb (coefn (snd q) 0) 0).
