(* C05 - what the operators build from causal operands: the constructor does not shift
   (the lowest denominator power is already 0) and the result is again causal with a0 <> 0. *)
From Coq Require Import List Bool ZArith QArith Qcanon Lia String.
From AL Require Import Base.CaseLib C07.Model C07.Spec C07.Lib C07.Proofs_Ring C07.Proofs_Eval
  C05.Model C05.Spec C05.Lib.
Import ListNotations.
Open Scope Qc_scope.

Lemma fold_min_zero l : forall a, (forall k, In k (a :: l) -> (0 <= k)%Z) -> In 0%Z (a :: l) ->
  fold_left Z.min l a = 0%Z.
Proof.
  induction l as [|b l IH]; intros a Hge Hin; simpl.
  - destruct Hin as [H|[]]. congruence.
  - apply IH.
    + intros k [H|H]; [subst; apply Z.min_glb; apply Hge; simpl; auto|apply Hge; simpl; auto].
    + pose proof (Hge a ltac:(simpl; auto)) as Ha. pose proof (Hge b ltac:(simpl; auto)) as Hb.
      destruct Hin as [Hi|[Hi|Hi]]; [left; lia|left; lia|right; exact Hi].
Qed.

Lemma min_key_causal d : nonneg d -> coefn d 0 <> 0 -> min_key d = Some 0%Z.
Proof.
  intros Nd Ha. pose proof (coefn_nz_in d 0 Ha) as Hin.
  destruct d as [|e r]; [destruct Hin|]. unfold min_key. f_equal.
  apply fold_min_zero.
  - intros k Hk. change (In k (keys (e :: r))) in Hk. apply (nonneg_keys (e :: r) k Nd Hk).
  - change (In 0%Z (keys (e :: r))). apply in_map_iff. eexists. split; [|exact Hin]. reflexivity.
Qed.

Lemma zf_causal n d : wf n -> wf d -> nonneg d -> coefn d 0 <> 0 -> zf n d = Ok (Filt n d).
Proof.
  intros Wn Wd Nd Ha. unfold zf, ctor. rewrite !pcopy_id by assumption.
  rewrite (min_key_causal d Nd Ha). reflexivity.
Qed.

(* a0 of a product of causal polynomials *)
Lemma coefn0_pmul p q : NoDupKeys p -> NoDupKeys q -> nonneg p -> nonneg q ->
  coefn (pmul p q) 0 = coefn p 0 * coefn q 0.
Proof.
  intros NDp NDq Np Nq. rewrite coefn_pmul.
  transitivity (dot p (fun i => coefn q 0 * delta 0 i)).
  - apply dot_ext_in. intros i Hi. pose proof (nonneg_keys p i Np Hi) as Hi0.
    transitivity (coefn q (- i)).
    + rewrite (coefn_dot q (- i) NDq). apply dot_ext. intro j. unfold delta.
      destruct (i + j =? 0)%Z eqn:E1; destruct (j =? - i)%Z eqn:E2; try reflexivity;
        [apply Z.eqb_eq in E1; apply Z.eqb_neq in E2; lia|apply Z.eqb_neq in E1; apply Z.eqb_eq in E2; lia].
    + unfold delta. destruct (i =? 0)%Z eqn:E.
      * apply Z.eqb_eq in E. subst. simpl. ring.
      * apply Z.eqb_neq in E. rewrite (nonneg_coefn_neg q (- i) Nq) by lia. ring.
  - rewrite dot_scale, <- (coefn_dot p 0 NDp). ring.
Qed.

Lemma nonneg_pneg p : wf p -> nonneg p -> nonneg (pneg p).
Proof.
  intros Wp Np. apply nonneg_of_coefn; [apply wf_pneg|]. intros k Hk.
  rewrite coefn_pneg by apply Wp. rewrite (nonneg_coefn_neg p k Np Hk). ring.
Qed.

Lemma causal_ok_intro n d : wf n -> wf d -> nonneg n -> nonneg d -> coefn d 0 <> 0 -> causal_ok (Filt n d).
Proof. intros A B C D E. exact (conj A (conj B (conj C (conj D E)))). Qed.

(* ------------------------------------------------------------------ the operators on causal operands *)
Section Causal.
Variables f g : filt.
Hypothesis Hf : causal_ok f.
Hypothesis Hg : causal_ok g.

Lemma den_prod_nz : coefn (pmul (fden f) (fden g)) 0 <> 0.
Proof.
  destruct Hf as (_ & Wdf & _ & Ndf & Haf). destruct Hg as (_ & Wdg & _ & Ndg & Hag).
  rewrite coefn0_pmul; [|apply Wdf|apply Wdg|exact Ndf|exact Ndg]. apply Qcmult_nz; assumption.
Qed.

Lemma fmul_causal : let h := Filt (pmul (fnum f) (fnum g)) (pmul (fden f) (fden g)) in
  fmul f g = Ok h /\ causal_ok h.
Proof.
  pose proof den_prod_nz as Hz.
  destruct Hf as (Wnf & Wdf & Nnf & Ndf & Haf). destruct Hg as (Wng & Wdg & Nng & Ndg & Hag).
  simpl. split.
  - unfold fmul. apply zf_causal; [apply wf_pmul|apply wf_pmul|apply nonneg_pmul; assumption|exact Hz].
  - apply causal_ok_intro; [apply wf_pmul|apply wf_pmul|apply nonneg_pmul; assumption|apply nonneg_pmul; assumption|exact Hz].
Qed.

Lemma fadd_causal_eq : peq (fden f) (fden g) = true ->
  let h := Filt (padd (fnum f) (fnum g)) (fden f) in fadd f g = Ok h /\ causal_ok h.
Proof.
  intro E. destruct Hf as (Wnf & Wdf & Nnf & Ndf & Haf). destruct Hg as (Wng & Wdg & Nng & Ndg & Hag).
  simpl. split.
  - unfold fadd. rewrite E. apply zf_causal; [apply wf_padd|assumption..].
  - apply causal_ok_intro; [apply wf_padd|assumption|apply nonneg_padd; assumption|assumption..].
Qed.

Lemma fadd_causal_ne : peq (fden f) (fden g) = false ->
  let h := Filt (padd (pmul (fnum f) (fden g)) (pmul (fnum g) (fden f))) (pmul (fden f) (fden g)) in
  fadd f g = Ok h /\ causal_ok h.
Proof.
  intro E. pose proof den_prod_nz as Hz.
  destruct Hf as (Wnf & Wdf & Nnf & Ndf & Haf). destruct Hg as (Wng & Wdg & Nng & Ndg & Hag).
  assert (nonneg (padd (pmul (fnum f) (fden g)) (pmul (fnum g) (fden f)))) as Nn.
  { apply nonneg_padd; [apply wf_pmul|apply wf_pmul|apply nonneg_pmul; assumption|apply nonneg_pmul; assumption]. }
  simpl. split.
  - unfold fadd. rewrite E. rewrite !pcopy_id by assumption.
    apply zf_causal; [apply wf_padd|apply wf_pmul|apply nonneg_pmul; assumption|exact Hz].
  - apply causal_ok_intro; [apply wf_padd|apply wf_pmul|exact Nn|apply nonneg_pmul; assumption|exact Hz].
Qed.
End Causal.

Lemma fneg_causal f : causal_ok f -> let h := Filt (pneg (fnum f)) (fden f) in fneg f = Ok h /\ causal_ok h.
Proof.
  intros (Wn & Wd & Nn & Nd & Ha). simpl. split.
  - unfold fneg. apply zf_causal; [apply wf_pneg|assumption..].
  - apply causal_ok_intro; [apply wf_pneg|assumption|apply nonneg_pneg; assumption|assumption..].
Qed.

Lemma fmuls_causal f c : causal_ok f ->
  let h := Filt (pmul (fnum f) (pconst c)) (fden f) in fmuls f c = Ok h /\ causal_ok h.
Proof.
  intros (Wn & Wd & Nn & Nd & Ha). simpl. split.
  - unfold fmuls. apply zf_causal; [apply wf_pmul|assumption..].
  - apply causal_ok_intro; [apply wf_pmul|assumption|apply nonneg_pmul; [assumption|apply nonneg_pconst]|assumption..].
Qed.

Lemma coefn_pconst c k : coefn (pconst c) k = if (k =? 0)%Z then c else 0.
Proof.
  rewrite (coefn_dot _ k (proj1 (wf_pconst c))), dot_pconst. unfold delta.
  rewrite Z.eqb_sym. destruct (k =? 0)%Z; ring.
Qed.

Lemma fconst_causal c : fconst c = Ok (Filt (pconst c) (pconst 1)) /\ causal_ok (Filt (pconst c) (pconst 1)).
Proof.
  assert (coefn (pconst 1) 0 <> 0) as H1. { rewrite coefn_pconst. simpl. discriminate. }
  split.
  - unfold fconst, ctor. change (poly_of_list [c]) with (pconst c). change one_den with (pconst 1).
    rewrite (min_key_causal (pconst 1) (nonneg_pconst 1) H1). reflexivity.
  - apply causal_ok_intro; [apply wf_pconst|apply wf_pconst|apply nonneg_pconst|apply nonneg_pconst|exact H1].
Qed.

Lemma fadd_causal_ex f g : causal_ok f -> causal_ok g -> exists h, fadd f g = Ok h /\ causal_ok h.
Proof.
  intros Hf Hg. destruct (peq (fden f) (fden g)) eqn:E.
  - eexists. apply (fadd_causal_eq f g Hf Hg E).
  - eexists. apply (fadd_causal_ne f g Hf Hg E).
Qed.

(* f / g is causal when g has no pure delay: b0(g) <> 0 *)
Lemma fdiv_causal f g : causal_ok f -> causal_ok g -> coefn (fnum g) 0 <> 0 ->
  let h := Filt (pmul (fnum f) (fden g)) (pmul (fden f) (fnum g)) in fdiv f g = Ok h /\ causal_ok h.
Proof.
  intros (Wnf & Wdf & Nnf & Ndf & Haf) (Wng & Wdg & Nng & Ndg & Hag) Hb.
  assert (coefn (pmul (fden f) (fnum g)) 0 <> 0) as Hz.
  { rewrite coefn0_pmul; [|apply Wdf|apply Wng|exact Ndf|exact Nng]. apply Qcmult_nz; assumption. }
  simpl. split.
  - unfold fdiv. apply zf_causal; [apply wf_pmul|apply wf_pmul|apply nonneg_pmul; assumption|exact Hz].
  - apply causal_ok_intro; [apply wf_pmul|apply wf_pmul|apply nonneg_pmul; assumption|apply nonneg_pmul; assumption|exact Hz].
Qed.

(* ------------------------------------------------------------------ powers *)
Lemma same_of_deq p q : NoDupKeys p -> NoDupKeys q -> deq p q -> same p q.
Proof. intros Hp Hq H. apply same_of_dot; assumption. Qed.

Lemma nonneg_ppow p n : wf p -> nonneg p -> nonneg (ppow p (Z.of_nat n)).
Proof.
  intros Wp Np. apply nonneg_of_coefn; [apply wf_ppow; exact Wp|]. intros k Hk.
  rewrite (same_of_deq _ _ (proj1 (wf_ppow p _ Wp)) (proj1 (wf_pow_spec p n)) (ppow_nfold_deq p n Wp) k).
  apply nonneg_coefn_neg; [apply nonneg_pow_spec; exact Np|exact Hk].
Qed.
Lemma coefn0_pow_spec p n : wf p -> nonneg p -> coefn p 0 <> 0 -> coefn (pow_spec p n) 0 <> 0.
Proof.
  intros Wp Np Ha. induction n as [|n IH]; simpl.
  - rewrite coefn_pconst. simpl. discriminate.
  - rewrite coefn0_pmul; [|apply wf_pow_spec|apply Wp|apply nonneg_pow_spec; exact Np|exact Np].
    apply Qcmult_nz; assumption.
Qed.
Lemma coefn0_ppow p n : wf p -> nonneg p -> coefn p 0 <> 0 -> coefn (ppow p (Z.of_nat n)) 0 <> 0.
Proof.
  intros Wp Np Ha.
  rewrite (same_of_deq _ _ (proj1 (wf_ppow p _ Wp)) (proj1 (wf_pow_spec p n)) (ppow_nfold_deq p n Wp) 0%Z).
  apply coefn0_pow_spec; assumption.
Qed.

Lemma fpow_causal f n : causal_ok f ->
  let h := Filt (ppow (fnum f) (Z.of_nat n)) (ppow (fden f) (Z.of_nat n)) in
  fpow f (Z.of_nat n) = Ok h /\ causal_ok h.
Proof.
  intros (Wn & Wd & Nn & Nd & Ha). simpl. split.
  - unfold fpow. replace (Z.of_nat n <? 0)%Z with false by (symmetry; apply Z.ltb_ge; lia). simpl.
    unfold fpow_direct. apply zf_causal; [apply wf_ppow; assumption|apply wf_ppow; assumption|
      apply nonneg_ppow; assumption|apply coefn0_ppow; assumption].
  - apply causal_ok_intro; [apply wf_ppow; assumption|apply wf_ppow; assumption|apply nonneg_ppow; assumption|
      apply nonneg_ppow; assumption|apply coefn0_ppow; assumption].
Qed.
