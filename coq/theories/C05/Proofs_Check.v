(* C05 - the boolean checkers evaluated on observations decide the Spec notions. *)
From Coq Require Import List Bool ZArith QArith Qcanon Lia String.
From AL Require Import Base.CaseLib C07.Model C07.Spec C07.Lib C07.Proofs_Ring C07.Proofs_Eval
  C05.Model C05.Spec C05.Lib.
Import ListNotations.
Open Scope Qc_scope.

Lemma sameb_spec a b : sameb a b = true <-> same a b.
Proof.
  unfold sameb. rewrite forallb_forall. split.
  - intros H k. destruct (in_dec Z.eq_dec k (keys (a ++ b))) as [Hin|Hn].
    + unfold keys in Hin. apply in_map_iff in Hin as (e & E & Hin). subst k.
      apply Qc_eqb_spec. apply H. exact Hin.
    + unfold keys in Hn. rewrite map_app in Hn.
      rewrite !coefn_notin; [reflexivity| |]; intro Hin; apply Hn; apply in_or_app; [right|left]; exact Hin.
  - intros H e _. apply Qc_eqb_spec. apply H.
Qed.

Theorem frac_eqb_spec a b : frac_eqb a b = true <-> frac_equiv a b.
Proof. unfold frac_eqb, frac_equiv. apply sameb_spec. Qed.

Lemma nonnegb_spec p : nonnegb p = true <-> nonneg p.
Proof.
  unfold nonnegb, nonneg. rewrite forallb_forall, Forall_forall. split; intros H e He; specialize (H e He).
  - apply Z.leb_le. exact H.
  - apply Z.leb_le. exact H.
Qed.

(* the difference-equation check on observed lists, for a causal pair of polynomials *)
Theorem resp_b_spec n d x y : nonneg n -> nonneg d ->
  (resp_b n d x y = true <-> resp_lists (Filt n d) x y).
Proof.
  intros Nn Nd. unfold resp_b, resp_lists, resp. cbn [fnum fden]. rewrite andb_true_iff, Nat.eqb_eq, forallb_forall.
  split; intros [L H]; (split; [exact L|]).
  - intros t Ht. destruct (Z_lt_le_dec t 0) as [Hneg|Hpos].
    + rewrite !act_silent; auto using sig_silent.
    + specialize (H (Z.to_nat t)). rewrite Z2Nat.id in H by exact Hpos. apply Qc_eqb_spec. apply H.
      apply in_seq. lia.
  - intros i Hi. apply in_seq in Hi. apply Qc_eqb_spec. apply H. lia.
Qed.
