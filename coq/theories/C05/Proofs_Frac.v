(* C05 - rational-function layer, part 1: every operator of the model computes the textbook
   fraction operation up to "same rational function" (cross-multiplication), including the
   constructor's denominator shift and the equal-denominator shortcut of __add__. *)
From Coq Require Import List Bool ZArith QArith Qcanon Lia Ring Setoid Morphisms String.
From AL Require Import Base.CaseLib C07.Model C07.Spec C07.Lib C07.Proofs_Ring C07.Proofs_Eval
  C05.Model C05.Spec C05.Lib_Ring C05.Proofs_Domain.
Import ListNotations.
Open Scope Qc_scope.

(* every filter object: well-formed polynomials, a non-zero denominator *)
Definition fok (f : filt) : Prop := wf (fnum f) /\ wf (fden f) /\ fden f <> [].
(* f denotes the fraction s *)
Definition R (f : filt) (s : frac) : Prop := fok f /\ fr_wf s /\ snd s <> [] /\ fr_deq (fr_of f) s.

Lemma one_nz' : (1 : Qc) <> 0. Proof. discriminate. Qed.
Lemma delta_val p : p <> 0%Z -> ppow (poly_of_list [0; 1]) (- p) = [((- p)%Z, 1)].
Proof.
  intro Hp. replace (poly_of_list [0; 1]) with [(1%Z, (1 : Qc))] by (vm_compute; reflexivity).
  unfold ppow. replace (- p =? 0)%Z with false by (symmetry; apply Z.eqb_neq; lia).
  replace (Qc_eqb 1 1) with true by reflexivity. replace (1 * - p)%Z with (- p)%Z by lia.
  apply mk_id. apply wf_single. exact one_nz'.
Qed.

Lemma ctor_spec n d h : wf n -> wf d -> ctor n d = Ok h ->
  fok h /\ d <> [] /\ fr_deq (fr_of h) (n, d).
Proof.
  intros Wn Wd E. unfold ctor in E. destruct (min_key d) as [p|] eqn:Em; [|discriminate].
  assert (d <> []) as Hd by (intro; subst; discriminate).
  destruct (p =? 0)%Z eqn:Ep.
  - injection E as <-. split; [|split; [exact Hd|]].
    + split; [exact Wn|split; [exact Wd|exact Hd]].
    + unfold fr_deq, fr_of. simpl. apply deq_refl.
  - apply Z.eqb_neq in Ep. rewrite (delta_val p Ep) in E. injection E as <-.
    assert (wf [((- p)%Z, (1 : Qc))]) as Wdl by (apply wf_single; exact one_nz').
    split; [|split; [exact Hd|]].
    + split; [apply wf_pmul|split; [apply wf_pmul|]]. apply pmul_nonzero; try assumption. discriminate.
    + unfold fr_deq, fr_of. simpl. pose proof (proj1 Wn). pose proof (proj1 Wd). pose proof (proj1 Wdl). poly_ring.
Qed.

Lemma ctor_ok n d : d <> [] -> exists h, ctor n d = Ok h.
Proof.
  intro Hd. unfold ctor. destruct d as [|e r]; [congruence|]. simpl min_key. cbv iota.
  destruct (_ =? 0)%Z; eexists; reflexivity.
Qed.

Lemma fr_deq_trans a b c : fr_wf a -> fr_wf b -> fr_wf c -> snd b <> [] -> fr_deq a b -> fr_deq b c -> fr_deq a c.
Proof.
  intros Wa Wb Wc Hb H1 H2. apply frac_equiv_deq. apply frac_equiv_deq in H1, H2.
  apply (frac_equiv_trans a b c); assumption.
Qed.

Lemma R_ctor n d h s : wf n -> wf d -> ctor n d = Ok h -> fr_wf s -> snd s <> [] -> fr_deq (n, d) s -> R h s.
Proof.
  intros Wn Wd E Ws Hs H. destruct (ctor_spec n d h Wn Wd E) as (Fh & Hd & H0).
  split; [exact Fh|split; [exact Ws|split; [exact Hs|]]].
  apply (fr_deq_trans _ (n, d) _); try assumption.
  - destruct Fh as (A & B & _). split; assumption.
  - split; assumption.
Qed.
Lemma R_zf n d h s : wf n -> wf d -> zf n d = Ok h -> fr_wf s -> snd s <> [] -> fr_deq (n, d) s -> R h s.
Proof. intros Wn Wd E. unfold zf in E. rewrite !pcopy_id in E by assumption. apply R_ctor; assumption. Qed.
Lemma zf_ok n d : wf n -> wf d -> d <> [] -> exists h, zf n d = Ok h.
Proof. intros Wn Wd Hd. unfold zf. rewrite !pcopy_id by assumption. apply ctor_ok. exact Hd. Qed.

Lemma R_fok f s : R f s -> fok f. Proof. intros [H _]. exact H. Qed.
Lemma fok_self f : fok f -> R f (fr_of f).
Proof.
  intros (A & B & C). split; [split; [exact A|split; [exact B|exact C]]|].
  split; [split; assumption|]. split; [exact C|]. unfold fr_deq. apply deq_refl.
Qed.

(* unpack  R f s  into what the ring tactic needs *)
Ltac unR H :=
  let Fo := fresh "Fo" in let Ws := fresh "Ws" in let Hs := fresh "Hs" in let E := fresh "E" in
  let Wn := fresh "Wn" in let Wd := fresh "Wd" in let Hd := fresh "Hd" in
  let Wsn := fresh "Wsn" in let Wsd := fresh "Wsd" in
  destruct H as (Fo & Ws & Hs & E); destruct Fo as (Wn & Wd & Hd); destruct Ws as (Wsn & Wsd);
  unfold fr_deq, fr_of in E; cbn [fst snd] in E, Hs, Wsn, Wsd;
  pose proof (proj1 Wn); pose proof (proj1 Wd); pose proof (proj1 Wsn); pose proof (proj1 Wsd).

Lemma wf_pconst_nz (c : Z) : pconst 1 <> []. Proof. vm_compute. discriminate. Qed.

(* ------------------------------------------------------------------ the operators *)
Lemma R_fmul f g h s t : R f s -> R g t -> fmul f g = Ok h -> R h (q_mul s t).
Proof.
  intros Hf Hg Eh. destruct s as [ns ds], t as [nt dt]. unR Hf. unR Hg.
  unfold fmul in Eh. apply (R_zf _ _ h _ (wf_pmul _ _) (wf_pmul _ _) Eh).
  - split; apply wf_pmul.
  - simpl. apply pmul_nonzero; assumption.
  - unfold fr_deq, q_mul. cbn [fst snd]. lift_hyp E. lift_hyp E0. lift_goal.
    match goal with |- weq (wmul (wmul ?NF ?NG) (wmul ?DS ?DT)) (wmul (wmul ?NS ?NT) (wmul ?DF ?DG)) =>
      transitivity (wmul (wmul NF DS) (wmul NG DT)); [ring|]; rewrite E, E0; ring end.
Qed.

Lemma R_fdiv f g h s t : R f s -> R g t -> fst t <> [] -> fdiv f g = Ok h -> R h (q_div s t).
Proof.
  intros Hf Hg Hnt Eh. destruct s as [ns ds], t as [nt dt]. unR Hf. unR Hg. cbn [fst] in Hnt.
  unfold fdiv in Eh. apply (R_zf _ _ h _ (wf_pmul _ _) (wf_pmul _ _) Eh).
  - split; apply wf_pmul.
  - simpl. apply pmul_nonzero; assumption.
  - unfold fr_deq, q_div, q_mul, q_inv. cbn [fst snd]. lift_hyp E. lift_hyp E0. lift_goal.
    match goal with |- weq (wmul (wmul ?NF ?DG) (wmul ?DS ?NT)) (wmul (wmul ?NS ?DT) (wmul ?DF ?NG)) =>
      transitivity (wmul (wmul NF DS) (wmul NT DG)); [ring|]; rewrite E, <- E0; ring end.
Qed.

Lemma R_fneg f h s : R f s -> fneg f = Ok h -> R h (q_neg s).
Proof.
  intros Hf Eh. destruct s as [ns ds]. unR Hf.
  unfold fneg in Eh. apply (R_zf _ _ h _ (wf_pneg _) Wd Eh).
  - split; [apply wf_pneg|exact Wsd].
  - exact Hs.
  - unfold fr_deq, q_neg. cbn [fst snd]. lift_hyp E. lift_goal.
    match goal with |- weq (wmul (wopp ?NF) ?DS) (wmul (wopp ?NS) ?DF) =>
      transitivity (wopp (wmul NF DS)); [ring|]; rewrite E; ring end.
Qed.

Lemma R_fpos f h s : R f s -> fpos f = Ok h -> R h s.
Proof.
  intros Hf Eh. destruct s as [ns ds]. unR Hf.
  unfold fpos, ppos in Eh. rewrite (mk_id (fnum f) Wn) in Eh. apply (R_zf _ _ h _ Wn Wd Eh).
  - split; assumption.
  - exact Hs.
  - exact E.
Qed.

Lemma R_fadd f g h s t : R f s -> R g t -> fadd f g = Ok h -> R h (q_add s t).
Proof.
  intros Hf Hg Eh. destruct s as [ns ds], t as [nt dt]. unR Hf. unR Hg.
  assert (fr_wf (q_add (ns, ds) (nt, dt))) as Wq by (split; [apply wf_padd|apply wf_pmul]).
  assert (snd (q_add (ns, ds) (nt, dt)) <> []) as Hq by (simpl; apply pmul_nonzero; assumption).
  unfold fadd in Eh. destruct (peq (fden f) (fden g)) eqn:Ed.
  - apply (R_zf _ _ h _ (wf_padd _ _) Wd Eh Wq Hq).
    pose proof (deq_of_peq _ _ Wd Wd0 Ed) as D.
    unfold fr_deq, q_add. cbn [fst snd]. lift_hyp E. lift_hyp E0. lift_hyp D. lift_goal.
    match goal with |- weq (wmul (wadd ?NF ?NG) (wmul ?DS ?DT)) (wmul (wadd (wmul ?NS _) (wmul ?NT _)) ?DF) =>
      transitivity (wadd (wmul (wmul NF DS) DT) (wmul (wmul NG DT) DS)); [ring|]; rewrite E, E0, <- D; ring end.
  - rewrite !pcopy_id in Eh by assumption.
    apply (R_zf _ _ h _ (wf_padd _ _) (wf_pmul _ _) Eh Wq Hq).
    unfold fr_deq, q_add. cbn [fst snd]. lift_hyp E. lift_hyp E0. lift_goal.
    match goal with |- weq (wmul (wadd (wmul ?NF ?DG) (wmul ?NG ?DF)) (wmul ?DS ?DT))
                           (wmul (wadd (wmul ?NS _) (wmul ?NT _)) (wmul _ _)) =>
      transitivity (wadd (wmul (wmul (wmul NF DS) DT) DG) (wmul (wmul (wmul NG DT) DS) DF)); [ring|];
      rewrite E, E0; ring end.
Qed.

Lemma R_fsub f g h s t : R f s -> R g t -> fsub f g = Ok h -> R h (q_sub s t).
Proof.
  intros Hf Hg Eh. unfold fsub in Eh. destruct (fneg g) as [g'|] eqn:En; [|discriminate]. simpl in Eh.
  apply (R_fadd f g' h s (q_neg t) Hf (R_fneg g g' t Hg En) Eh).
Qed.

Lemma R_fconst c h : fconst c = Ok h -> R h (q_const c).
Proof.
  intro Eh. unfold fconst in Eh. change (poly_of_list [c]) with (pconst c) in Eh. change one_den with (pconst 1) in Eh.
  apply (R_ctor _ _ h _ (wf_pconst c) (wf_pconst 1) Eh).
  - split; apply wf_pconst.
  - apply (wf_pconst_nz 0).
  - unfold fr_deq. apply deq_refl.
Qed.
Lemma fconst_ok c : exists h, fconst c = Ok h.
Proof. unfold fconst. apply ctor_ok. vm_compute. discriminate. Qed.

Lemma R_fmuls f c h s : R f s -> fmuls f c = Ok h -> R h (q_mul s (q_const c)).
Proof.
  intros Hf Eh. destruct s as [ns ds]. unR Hf.
  unfold fmuls in Eh. apply (R_zf _ _ h _ (wf_pmul _ _) Wd Eh).
  - split; apply wf_pmul.
  - simpl. apply pmul_nonzero; try assumption; [apply wf_pconst|apply (wf_pconst_nz 0)].
  - unfold fr_deq, q_mul, q_const. cbn [fst snd]. lift_hyp E. lift_goal.
    match goal with |- weq (wmul (wmul ?NF ?C) (wmul ?DS w1)) (wmul (wmul ?NS _) ?DF) =>
      transitivity (wmul (wmul NF DS) C); [ring|]; rewrite E; ring end.
Qed.
