(* C05 - ((f / g) * g)(x) = f(x) for every causal g <> 0, also when g starts with a delay (then f / g
   is an advance, not runnable, but the product is causal again). *)
From Coq Require Import List Bool ZArith QArith Qcanon Lia String.
From AL Require Import Base.CaseLib C07.Model C07.Spec C07.Lib C07.Proofs_Ring C07.Proofs_Eval
  C05.Model C05.Spec C05.Lib C05.Proofs_Run C05.Proofs_Ops C05.Proofs_Signal C05.Proofs_Signal2
  C05.Proofs_Domain C05.Proofs_Frac C05.Proofs_Laws C05.Proofs_Norm.
Import ListNotations.
Open Scope Qc_scope.

Lemma causal_fok f : causal_ok f -> fok f.
Proof.
  intros (Wn & Wd & _ & _ & Ha). split; [exact Wn|split; [exact Wd|]]. intro E. rewrite E in Ha. apply Ha. reflexivity.
Qed.

Lemma min_key0_causal d : wf d -> min_key d = Some 0%Z -> nonneg d /\ coefn d 0 <> 0.
Proof.
  intros Wd E. destruct (min_key_spec d 0 E) as [I L]. split.
  - unfold nonneg. apply Forall_forall. intros e He. apply L. unfold keys. apply in_map. exact He.
  - apply key_coefn_nz; assumption.
Qed.

(* n / d ~ n' / d' with d, n', d' causal and d0 <> 0 : n is causal too *)
Lemma nonneg_of_equiv n d n' d' : wf n -> wf d -> nonneg d -> coefn d 0 <> 0 -> nonneg n' -> nonneg d' ->
  same (pmul n d) (pmul n' d') -> nonneg n.
Proof.
  intros Wn Wd Nd Ha Nn' Nd' H.
  destruct n as [|e r] eqn:En; [constructor|]. rewrite <- En in *.
  destruct (lowest_term n Wn ltac:(rewrite En; discriminate)) as (a & La & Ca).
  destruct (Z_lt_le_dec a 0) as [Hneg|Hpos].
  - exfalso. specialize (H (a + 0)%Z).
    rewrite (coefn_low_pmul n d a 0 (proj1 Wn) (proj1 Wd) La) in H by (intros j Hj; apply (nonneg_keys d j Nd Hj)).
    rewrite (nonneg_coefn_neg (pmul n' d') (a + 0)) in H by (try apply nonneg_pmul; try assumption; lia).
    apply (Qcmult_nz _ _ Ca Ha). exact H.
  - unfold nonneg. apply Forall_forall. intros x Hx.
    assert (In (fst x) (keys n)) as Hk by (unfold keys; apply in_map; exact Hx).
    specialize (La _ Hk). lia.
Qed.

Theorem run_div_cancel_gen f g q h x : causal_ok f -> causal_ok g -> fnum g <> [] ->
  fdiv f g = Ok q -> fmul q g = Ok h -> frun h x = frun f x.
Proof.
  intros Hf Hg Hn Eq Eh.
  pose proof (causal_fok f Hf) as Ff. pose proof (causal_fok g Hg) as Fg.
  pose proof (fdiv_fmul_cancel f g Ff Fg q h Hn Eq Eh) as He.
  pose proof (fmul_fok q g h Eh) as (Wnh & Wdh & _).
  destruct (min_key0_causal (fden h) Wdh (zf_norm _ _ h Eh)) as [Ndh Hah].
  pose proof Hf as (Wnf & Wdf & Nnf & Ndf & Haf).
  assert (nonneg (fnum h)) as Nnh.
  { apply (nonneg_of_equiv (fnum h) (fden f) (fnum f) (fden h)); assumption. }
  apply run_respects_equiv; [|exact Hf|exact He].
  exact (conj Wnh (conj Wdh (conj Nnh (conj Ndh Hah)))).
Qed.
