(* C05 - the constructor normalises: every filter object has lowest denominator power 0
   (numerator and denominator are multiplied by the same power of z). *)
From Coq Require Import List Bool ZArith QArith Qcanon Lia String.
From AL Require Import Base.CaseLib C07.Model C07.Spec C07.Lib C07.Proofs_Ring C07.Proofs_Eval
  C05.Model C05.Spec C05.Proofs_Ops C05.Proofs_Domain C05.Proofs_Frac C05.Proofs_Laws.
Import ListNotations.
Open Scope Qc_scope.

Lemma fold_min_spec l : forall a, In (fold_left Z.min l a) (a :: l) /\
  forall k, In k (a :: l) -> (fold_left Z.min l a <= k)%Z.
Proof.
  induction l as [|b l IH]; intro a; simpl.
  - split; [left; reflexivity|]. intros k [E|[]]. lia.
  - destruct (IH (Z.min a b)) as [I L]. split.
    + destruct I as [E|I]; [|right; right; exact I]. rewrite <- E.
      destruct (Z.min_spec a b) as [[_ M]|[_ M]]; rewrite M; [left|right; left]; reflexivity.
    + intros k [E|[E|Hk]].
      * specialize (L (Z.min a b) ltac:(left; reflexivity)). lia.
      * specialize (L (Z.min a b) ltac:(left; reflexivity)). lia.
      * apply L. right. exact Hk.
Qed.

Lemma min_key_spec d p : min_key d = Some p -> In p (keys d) /\ forall k, In k (keys d) -> (p <= k)%Z.
Proof.
  destruct d as [|e r]; [discriminate|]. unfold min_key. intro E. injection E as <-.
  apply (fold_min_spec (map fst r) (fst e)).
Qed.

Lemma coefn_shift d s k : NoDupKeys d -> coefn (pmul d [(s, 1)]) k = coefn d (k - s).
Proof.
  intro ND. rewrite coefn_pmul. rewrite (coefn_dot d (k - s) ND). apply dot_ext. intro i.
  rewrite dot_cons, dot_nil. unfold delta.
  destruct (i + s =? k)%Z eqn:E1; destruct (i =? k - s)%Z eqn:E2; try ring;
    [apply Z.eqb_eq in E1; apply Z.eqb_neq in E2; lia|apply Z.eqb_neq in E1; apply Z.eqb_eq in E2; lia].
Qed.

Lemma key_coefn_nz d k : wf d -> In k (keys d) -> coefn d k <> 0.
Proof.
  intros [ND NZ] Hin. unfold keys in Hin. apply in_map_iff in Hin as ([k' c] & E & Hin). simpl in E. subst k'.
  rewrite (wf_in_coefn d k c ND Hin). unfold nz in NZ. rewrite Forall_forall in NZ. apply (NZ _ Hin).
Qed.

Theorem ctor_normalised n d h : wf n -> wf d -> ctor n d = Ok h -> min_key (fden h) = Some 0%Z.
Proof.
  intros Wn Wd E. unfold ctor in E. destruct (min_key d) as [p|] eqn:Em; [|discriminate].
  destruct (p =? 0)%Z eqn:Ep.
  - apply Z.eqb_eq in Ep. subst p. injection E as <-. exact Em.
  - apply Z.eqb_neq in Ep. rewrite (delta_val p Ep) in E. injection E as <-. cbn [fden].
    destruct (min_key_spec d p Em) as [Ip Lp].
    apply min_key_causal.
    + apply nonneg_of_coefn; [apply wf_pmul|]. intros k Hk. rewrite coefn_shift by apply Wd.
      apply coefn_notin. intro Hin. specialize (Lp _ Hin). lia.
    + rewrite coefn_shift by apply Wd. replace (0 - - p)%Z with p by lia. apply key_coefn_nz; assumption.
Qed.

Lemma zf_norm n d h : zf n d = Ok h -> min_key (fden h) = Some 0%Z.
Proof. intro E. unfold zf, pcopy in E. apply (ctor_normalised _ _ h (wf_mk n) (wf_mk d) E). Qed.
Lemma bind_norm {A} (r : res A) (k : A -> res filt) h :
  (forall a h', k a = Ok h' -> min_key (fden h') = Some 0%Z) -> bind r k = Ok h -> min_key (fden h) = Some 0%Z.
Proof. intros H E. destruct r; [|discriminate]. apply (H _ _ E). Qed.
Lemma fadd_norm f g h : fadd f g = Ok h -> min_key (fden h) = Some 0%Z.
Proof. unfold fadd. destruct (peq _ _); apply zf_norm. Qed.

Ltac norm_tac :=
  repeat first [ apply zf_norm | apply fadd_norm
               | (apply ctor_normalised; apply wf_mk) | (apply bind_norm; intros ? ?)
               | progress unfold bind2, fsub, fadds, fsubs, sfadd, sfsub, sfmul, sfdiv, fneg, fpos, fmuls, fz,
                                 fpow_direct, fconst, fmul, fdiv ].

(* den_normalised, for every operator tree *)
Theorem feval_normalised e f : feval e = Ok f -> min_key (fden f) = Some 0%Z.
Proof.
  destruct e; cbn [feval]; try (solve [norm_tac]).
  - apply bind_norm. intros a0 h'. unfold fdivs. destruct (Qc_eqb c 0); [discriminate|]. norm_tac.
  - apply bind_norm. intros a0 h'. unfold fpow. destruct (_ && _); norm_tac.
  - unfold bind2. apply bind_norm. intros a0 h'. apply bind_norm. intros b0 h''.
    unfold fsubst. apply bind_norm. intros sa h3. apply bind_norm. intros sb h4.
    destruct sa, sb; try discriminate; norm_tac.
Qed.

Theorem feval_filt_ok e f : feval e = Ok f -> filt_ok f.
Proof.
  intro E. destruct (feval_fok e f E) as (A & B & _). split; [exact A|split; [exact B|]].
  apply (feval_normalised e f E).
Qed.

Theorem ctor_textbook n d h : wf n -> wf d -> ctor n d = Ok h ->
  fok h /\ d <> [] /\ frac_equiv (fr_of h) (n, d) /\ min_key (fden h) = Some 0%Z.
Proof.
  intros Wn Wd E. destruct (ctor_spec n d h Wn Wd E) as (A & B & C).
  exact (conj A (conj B (conj (proj2 (frac_equiv_deq _ _) C) (ctor_normalised n d h Wn Wd E)))).
Qed.
