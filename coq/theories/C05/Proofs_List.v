(* C05 - CascadeFilter / ParallelFilter of causal parts equal the product / sum filter,
   in output and in numerator / denominator polynomials. *)
From Coq Require Import List Bool ZArith QArith Qcanon Lia String.
From AL Require Import Base.CaseLib C07.Model C07.Spec C07.Lib C07.Proofs_Ring C07.Proofs_Eval
  C05.Model C05.Spec C05.Lib C05.Proofs_Run C05.Proofs_Ops C05.Proofs_Signal.
Import ListNotations.
Open Scope Qc_scope.

(* (f * g)(x) = g(f(x)) : the other order of run_mul *)
Lemma run_mul_swap f g h x yf y : causal_ok f -> causal_ok g -> fmul f g = Ok h ->
  frun f x = Ok yf -> frun g yf = Ok y -> frun h x = Ok y.
Proof.
  intros Hf Hg Eh Rf Rg. destruct (fmul_causal g f Hg Hf) as [E' _].
  rewrite (fmul_comm_run f g h _ x Hf Hg Eh E').
  apply (run_mul g f _ x yf y Hg Hf E' Rf Rg).
Qed.

Definition fmul_step (acc : res filt) (g : filt) : res filt := bind acc (fun a => fmul a g).
Definition run_step (acc : res (list Qc)) (f : filt) : res (list Qc) := bind acc (frun f).

Lemma cascade_fold r : forall a x, causal_ok a -> Forall causal_ok r ->
  exists h, fold_left fmul_step r (Ok a) = Ok h /\ causal_ok h /\
    fold_left run_step r (frun a x) = frun h x /\
    fnum h = fold_left pmul (map fnum r) (fnum a) /\ fden h = fold_left pmul (map fden r) (fden a).
Proof.
  induction r as [|g r IH]; intros a x Ha Hr.
  - exists a. simpl. auto.
  - inversion Hr as [|? ? Hg Hr']; subst.
    destruct (fmul_causal a g Ha Hg) as [E C].
    change (fold_left fmul_step (g :: r) (Ok a)) with (fold_left fmul_step r (fmul a g)). rewrite E.
    destruct (IH _ x C Hr') as (h & Eh & Ch & Rh & Nh & Dh).
    exists h. split; [exact Eh|]. split; [exact Ch|]. split; [|split; [exact Nh|exact Dh]].
    rewrite <- Rh. simpl fold_left. f_equal. unfold run_step.
    destruct (frun_resp a x Ha) as (ya & Eya & _). rewrite Eya. simpl.
    destruct (frun_resp g ya Hg) as (y & Ey & _). rewrite Ey. symmetry.
    apply (run_mul_swap a g _ x ya y Ha Hg E Eya Ey).
Qed.

(* cascade_is_product *)
Theorem cascade_is_product f r x : causal_ok f -> Forall causal_ok r ->
  exists h, cascade_product (f :: r) = Ok h /\ causal_ok h /\
    cascade_run (f :: r) x = frun h x /\
    cascade_numpoly (f :: r) = Ok (fnum h) /\ cascade_denpoly (f :: r) = Ok (fden h).
Proof.
  intros Hf Hr. destruct (cascade_fold r f x Hf Hr) as (h & Eh & Ch & Rh & Nh & Dh).
  exists h. split; [exact Eh|]. split; [exact Ch|]. split; [exact Rh|].
  unfold cascade_numpoly, cascade_denpoly. simpl. rewrite Nh, Dh. split; reflexivity.
Qed.

Definition fadd_step (acc : res filt) (g : filt) : res filt := bind acc (fun a => fadd a g).
Definition sum_step (x : list Qc) (acc : res (list Qc)) (g : filt) : res (list Qc) :=
  bind acc (fun a => bind (frun g x) (fun b => Ok (zip_add a b))).

Lemma parallel_fold r : forall a x, causal_ok a -> Forall causal_ok r ->
  exists h, fold_left fadd_step r (Ok a) = Ok h /\ causal_ok h /\
    fold_left (sum_step x) r (frun a x) = frun h x.
Proof.
  induction r as [|g r IH]; intros a x Ha Hr.
  - exists a. simpl. auto.
  - inversion Hr as [|? ? Hg Hr']; subst.
    destruct (fadd_causal_ex a g Ha Hg) as (ag & E & C).
    change (fold_left fadd_step (g :: r) (Ok a)) with (fold_left fadd_step r (fadd a g)). rewrite E.
    destruct (IH _ x C Hr') as (h & Eh & Ch & Rh).
    exists h. split; [exact Eh|]. split; [exact Ch|].
    rewrite <- Rh. simpl fold_left. f_equal. unfold sum_step.
    destruct (frun_resp a x Ha) as (ya & Eya & _). rewrite Eya. simpl.
    destruct (frun_resp g x Hg) as (yg & Eyg & _). rewrite Eyg. simpl. symmetry.
    apply (run_add a g ag x ya yg Ha Hg E Eya Eyg).
Qed.

(* parallel_is_sum : the output is the sum of the members' outputs = the output of the summed
   filter, and numpoly / denpoly are those of that same summed filter *)
Theorem parallel_is_sum f r x : causal_ok f -> Forall causal_ok r ->
  exists h, parallel_sum (f :: r) = Ok h /\ causal_ok h /\
    parallel_run (f :: r) x = frun h x /\
    parallel_numpoly (f :: r) = Ok (fnum h) /\ parallel_denpoly (f :: r) = Ok (fden h).
Proof.
  intros Hf Hr. destruct (parallel_fold r f x Hf Hr) as (h & Eh & Ch & Rh).
  exists h. split; [exact Eh|]. split; [exact Ch|]. split; [exact Rh|].
  unfold parallel_numpoly, parallel_denpoly. change (parallel_sum (f :: r)) with (fold_left fadd_step r (Ok f)).
  rewrite Eh. split; reflexivity.
Qed.
