(* C05 - rational-function layer, part 6: the field laws for the filter objects themselves. *)
From Coq Require Import List Bool ZArith QArith Qcanon Lia String.
From AL Require Import Base.CaseLib C07.Model C07.Spec C07.Lib C07.Proofs_Ring C07.Proofs_Eval
  C05.Model C05.Spec C05.Lib_Ring C05.Proofs_Domain C05.Proofs_Frac C05.Proofs_Field C05.Proofs_Pow
  C05.Proofs_Subst C05.Proofs_Sem.
Import ListNotations.
Open Scope Qc_scope.

(* ------------------------------------------------------------------ every filter object is well formed *)
Lemma zf_fok n d h : zf n d = Ok h -> fok h.
Proof. intro E. unfold zf, pcopy in E. apply (ctor_spec _ _ h (wf_mk n) (wf_mk d) E). Qed.
Lemma ctor_fok n d h : wf n -> wf d -> ctor n d = Ok h -> fok h.
Proof. intros Wn Wd E. apply (ctor_spec _ _ h Wn Wd E). Qed.

Lemma fadd_fok f g h : fadd f g = Ok h -> fok h.
Proof. unfold fadd. destruct (peq _ _); apply zf_fok. Qed.
Lemma fmul_fok f g h : fmul f g = Ok h -> fok h. Proof. apply zf_fok. Qed.
Lemma fdiv_fok f g h : fdiv f g = Ok h -> fok h. Proof. apply zf_fok. Qed.
Lemma fconst_fok c h : fconst c = Ok h -> fok h.
Proof. apply ctor_fok; [apply wf_mk|apply wf_mk]. Qed.
Lemma bind_fok {A} (r : res A) (k : A -> res filt) h :
  (forall a h', k a = Ok h' -> fok h') -> bind r k = Ok h -> fok h.
Proof. intros H E. destruct r; [|discriminate]. apply (H _ _ E). Qed.

Ltac fok_tac :=
  repeat first [ apply zf_fok | apply fadd_fok | apply fmul_fok | apply fdiv_fok | apply fconst_fok
               | (apply ctor_fok; apply wf_mk) | (apply bind_fok; intros ? ?)
               | progress unfold bind2, fsub, fadds, fsubs, sfadd, sfsub, sfmul, sfdiv, fneg, fpos, fmuls, fz,
                                 fpow_direct, fconst ].

Theorem feval_fok e f : feval e = Ok f -> fok f.
Proof.
  destruct e; cbn [feval]; try (solve [fok_tac]).
  - (* FDivS *) apply bind_fok. intros a0 h'. unfold fdivs. destruct (Qc_eqb c 0); [discriminate|]. fok_tac.
  - (* FPow *) apply bind_fok. intros a0 h'. unfold fpow. destruct (_ && _); fok_tac.
  - (* FCall *) unfold bind2. apply bind_fok. intros a0 h'. apply bind_fok. intros b0 h''.
    unfold fsubst. apply bind_fok. intros sa h3. apply bind_fok. intros sb h4.
    destruct sa, sb; try discriminate; fok_tac.
Qed.

(* ------------------------------------------------------------------ transfer *)
Lemma R_same f g s s' : R f s -> R g s' -> fr_deq s s' -> fequiv f g.
Proof.
  intros Rf Rg H. pose proof Rg as (Fg & Ws' & Hs' & Eg).
  pose proof (R_equiv f s s' Rf Ws' Hs' H) as (Ff & _ & _ & Ef).
  unfold fequiv. apply frac_equiv_deq.
  apply (fr_deq_trans _ s' _); try assumption.
  - destruct Ff as (A & B & _). split; assumption.
  - destruct Fg as (A & B & _). split; assumption.
  - apply frac_equiv_deq. apply frac_equiv_sym. apply frac_equiv_deq. exact Eg.
Qed.

Lemma fok_wf f : fok f -> fr_wf (fr_of f).
Proof. intros (A & B & _). split; assumption. Qed.

Section Laws.
Variables f g k : filt.
Hypothesis Ff : fok f.
Hypothesis Fg : fok g.
Hypothesis Fk : fok k.
Let Rf := fok_self f Ff.
Let Rg := fok_self g Fg.
Let Rk := fok_self k Fk.

(* the operators always succeed on filter objects (division: by a non-zero filter) *)
Lemma fadd_total : exists h, fadd f g = Ok h.
Proof.
  destruct Ff as (A & B & C), Fg as (A' & B' & C'). unfold fadd. destruct (peq _ _).
  - apply zf_ok; [apply wf_padd|assumption..].
  - apply zf_ok; [apply wf_padd|apply wf_pmul|apply pmul_nonzero; assumption].
Qed.
Lemma fmul_total : exists h, fmul f g = Ok h.
Proof.
  destruct Ff as (A & B & C), Fg as (A' & B' & C'). unfold fmul.
  apply zf_ok; [apply wf_pmul|apply wf_pmul|apply pmul_nonzero; assumption].
Qed.
Lemma fdiv_total : fnum g <> [] -> exists h, fdiv f g = Ok h.
Proof.
  intro Hn. destruct Ff as (A & B & C), Fg as (A' & B' & C'). unfold fdiv.
  apply zf_ok; [apply wf_pmul|apply wf_pmul|apply pmul_nonzero; assumption].
Qed.

Theorem fadd_comm h h' : fadd f g = Ok h -> fadd g f = Ok h' -> fequiv h h'.
Proof.
  intros E E'. apply (R_same _ _ _ _ (R_fadd _ _ _ _ _ Rf Rg E) (R_fadd _ _ _ _ _ Rg Rf E')).
  apply q_add_comm; apply fok_wf; assumption.
Qed.
Theorem fmul_comm h h' : fmul f g = Ok h -> fmul g f = Ok h' -> fequiv h h'.
Proof.
  intros E E'. apply (R_same _ _ _ _ (R_fmul _ _ _ _ _ Rf Rg E) (R_fmul _ _ _ _ _ Rg Rf E')).
  apply q_mul_comm; apply fok_wf; assumption.
Qed.
Theorem fadd_assoc a b h h' : fadd f g = Ok a -> fadd a k = Ok h -> fadd g k = Ok b -> fadd f b = Ok h' -> fequiv h h'.
Proof.
  intros Ea Eh Eb Eh'.
  apply (R_same _ _ _ _ (R_fadd _ _ _ _ _ (R_fadd _ _ _ _ _ Rf Rg Ea) Rk Eh)
                        (R_fadd _ _ _ _ _ Rf (R_fadd _ _ _ _ _ Rg Rk Eb) Eh')).
  apply q_add_assoc; apply fok_wf; assumption.
Qed.
Theorem fmul_assoc a b h h' : fmul f g = Ok a -> fmul a k = Ok h -> fmul g k = Ok b -> fmul f b = Ok h' -> fequiv h h'.
Proof.
  intros Ea Eh Eb Eh'.
  apply (R_same _ _ _ _ (R_fmul _ _ _ _ _ (R_fmul _ _ _ _ _ Rf Rg Ea) Rk Eh)
                        (R_fmul _ _ _ _ _ Rf (R_fmul _ _ _ _ _ Rg Rk Eb) Eh')).
  apply q_mul_assoc; apply fok_wf; assumption.
Qed.
Theorem fmul_fadd_distr a h b c h' :
  fadd g k = Ok a -> fmul f a = Ok h -> fmul f g = Ok b -> fmul f k = Ok c -> fadd b c = Ok h' -> fequiv h h'.
Proof.
  intros Ea Eh Eb Ec Eh'.
  apply (R_same _ _ _ _ (R_fmul _ _ _ _ _ Rf (R_fadd _ _ _ _ _ Rg Rk Ea) Eh)
                        (R_fadd _ _ _ _ _ (R_fmul _ _ _ _ _ Rf Rg Eb) (R_fmul _ _ _ _ _ Rf Rk Ec) Eh')).
  apply q_distr_l; apply fok_wf; assumption.
Qed.
(* f - g = f + (-g) holds by definition of __sub__; f + (-f) = 0 *)
Theorem fsub_self h : fsub f f = Ok h -> frac_equiv (fr_of h) (pconst 0, pconst 1).
Proof.
  intro E. pose proof (R_fsub _ _ _ _ _ Rf Rf E) as R1.
  assert (R h (pconst 0, pconst 1)) as (_ & _ & _ & H).
  { apply (R_equiv _ _ _ R1); [split; apply wf_pconst|apply (wf_pconst_nz 0)|].
    apply q_add_neg. apply fok_wf. assumption. }
  apply frac_equiv_deq. exact H.
Qed.
(* f / f = 1 *)
Theorem fdiv_self h : fnum f <> [] -> fdiv f f = Ok h -> frac_equiv (fr_of h) (q_const 1).
Proof.
  intros Hn E. pose proof (R_fdiv _ _ _ _ _ Rf Rf Hn E) as R1.
  assert (R h (q_const 1)) as (_ & _ & _ & H).
  { apply (R_equiv _ _ _ R1); [apply fr_wf_const|apply (wf_pconst_nz 0)|].
    apply q_div_self. apply fok_wf. assumption. }
  apply frac_equiv_deq. exact H.
Qed.
(* (f / g) * g = f *)
Theorem fdiv_fmul_cancel q h : fnum g <> [] -> fdiv f g = Ok q -> fmul q g = Ok h -> fequiv h f.
Proof.
  intros Hn Eq Eh.
  apply (R_same _ _ _ _ (R_fmul _ _ _ _ _ (R_fdiv _ _ _ _ _ Rf Rg Hn Eq) Rg Eh) Rf).
  apply q_mul_div_cancel; apply fok_wf; assumption.
Qed.
End Laws.

(* the operators respect ~ *)
Section Respect.
Variables f f' g g' : filt.
Hypothesis Ff : fok f.
Hypothesis Ff' : fok f'.
Hypothesis Fg : fok g.
Hypothesis Fg' : fok g'.
Hypothesis Hf : fequiv f f'.
Hypothesis Hg : fequiv g g'.

Theorem fadd_respects h h' : fadd f g = Ok h -> fadd f' g' = Ok h' -> fequiv h h'.
Proof.
  intros E E'.
  apply (R_same _ _ _ _ (R_fadd _ _ _ _ _ (fok_self f Ff) (fok_self g Fg) E)
                        (R_fadd _ _ _ _ _ (fok_self f' Ff') (fok_self g' Fg') E')).
  apply q_add_compat; try (apply fok_wf; assumption); apply frac_equiv_deq; assumption.
Qed.
Theorem fsub_respects h h' : fsub f g = Ok h -> fsub f' g' = Ok h' -> fequiv h h'.
Proof.
  intros E E'.
  apply (R_same _ _ _ _ (R_fsub _ _ _ _ _ (fok_self f Ff) (fok_self g Fg) E)
                        (R_fsub _ _ _ _ _ (fok_self f' Ff') (fok_self g' Fg') E')).
  apply q_sub_compat; try (apply fok_wf; assumption); apply frac_equiv_deq; assumption.
Qed.
Theorem fmul_respects h h' : fmul f g = Ok h -> fmul f' g' = Ok h' -> fequiv h h'.
Proof.
  intros E E'.
  apply (R_same _ _ _ _ (R_fmul _ _ _ _ _ (fok_self f Ff) (fok_self g Fg) E)
                        (R_fmul _ _ _ _ _ (fok_self f' Ff') (fok_self g' Fg') E')).
  apply q_mul_compat; try (apply fok_wf; assumption); apply frac_equiv_deq; assumption.
Qed.
Theorem fdiv_respects h h' : fnum g <> [] -> fnum g' <> [] -> fdiv f g = Ok h -> fdiv f' g' = Ok h' -> fequiv h h'.
Proof.
  intros Hn Hn' E E'.
  apply (R_same _ _ _ _ (R_fdiv _ _ _ _ _ (fok_self f Ff) (fok_self g Fg) Hn E)
                        (R_fdiv _ _ _ _ _ (fok_self f' Ff') (fok_self g' Fg') Hn' E')).
  apply q_div_compat; try (apply fok_wf; assumption); apply frac_equiv_deq; assumption.
Qed.
End Respect.

(* ~ on filter objects is an equivalence *)
Theorem fequiv_trans f g k : fok f -> fok g -> fok k -> fequiv f g -> fequiv g k -> fequiv f k.
Proof.
  intros Ff Fg Fk H1 H2. unfold fequiv in *.
  apply (frac_equiv_trans _ (fr_of g) _); try (apply fok_wf; assumption); try assumption.
  destruct Fg as (_ & _ & C). exact C.
Qed.

(* ------------------------------------------------------------------ the operators in textbook terms *)
Lemma R_frac f s : R f s -> frac_equiv (fr_of f) s.
Proof. intros (_ & _ & _ & E). apply frac_equiv_deq. exact E. Qed.

Theorem fadd_textbook f g h : fok f -> fok g -> fadd f g = Ok h ->
  frac_equiv (fr_of h) (q_add (fr_of f) (fr_of g)).
Proof. intros Ff Fg E. apply R_frac. apply (R_fadd _ _ _ _ _ (fok_self f Ff) (fok_self g Fg) E). Qed.
Theorem fsub_textbook f g h : fok f -> fok g -> fsub f g = Ok h ->
  frac_equiv (fr_of h) (q_sub (fr_of f) (fr_of g)).
Proof. intros Ff Fg E. apply R_frac. apply (R_fsub _ _ _ _ _ (fok_self f Ff) (fok_self g Fg) E). Qed.
Theorem fmul_textbook f g h : fok f -> fok g -> fmul f g = Ok h ->
  frac_equiv (fr_of h) (q_mul (fr_of f) (fr_of g)).
Proof. intros Ff Fg E. apply R_frac. apply (R_fmul _ _ _ _ _ (fok_self f Ff) (fok_self g Fg) E). Qed.
Theorem fdiv_textbook f g h : fok f -> fok g -> fnum g <> [] -> fdiv f g = Ok h ->
  frac_equiv (fr_of h) (q_div (fr_of f) (fr_of g)).
Proof. intros Ff Fg Hn E. apply R_frac. apply (R_fdiv _ _ _ _ _ (fok_self f Ff) (fok_self g Fg) Hn E). Qed.
(* dividing by the zero filter raises *)
Theorem fdiv_zero f g : fnum g = [] -> fdiv f g = Raise "ValueError"%string.
Proof.
  intro E. unfold fdiv, zf, ctor. rewrite E.
  assert (pmul (fden f) [] = []) as ->.
  { clear. induction (fden f) as [|x l IHl]; [reflexivity|]. unfold pmul in *. simpl. exact IHl. }
  reflexivity.
Qed.
Theorem fneg_textbook f h : fok f -> fneg f = Ok h -> frac_equiv (fr_of h) (q_neg (fr_of f)).
Proof. intros Ff E. apply R_frac. apply (R_fneg _ _ _ (fok_self f Ff) E). Qed.
Theorem fmuls_textbook f c h : fok f -> fmuls f c = Ok h -> frac_equiv (fr_of h) (q_mul (fr_of f) (q_const c)).
Proof. intros Ff E. apply R_frac. apply (R_fmuls _ _ _ _ (fok_self f Ff) E). Qed.

(* f ** n is the n-fold product; f ** (-n) is 1 / f ** n *)
Theorem fpow_nfold f n h : fok f -> fpow f (Z.of_nat n) = Ok h -> frac_equiv (fr_of h) (q_pow (fr_of f) n).
Proof. intros Ff E. apply R_frac. apply (R_fpow_nonneg _ _ _ _ (fok_self f Ff) E). Qed.
Theorem fpow_neg f m h : fok f -> fnum f <> [] -> fpow f (- Z.of_nat (S m)) = Ok h ->
  frac_equiv (fr_of h) (q_inv (q_pow (fr_of f) (S m))).
Proof.
  intros Ff Hn E. rewrite <- q_pow_inv. apply R_frac.
  apply (R_fpow_neg _ _ _ _ (fok_self f Ff) Hn E).
Qed.

(* f(g) = (sum_k n_k g^-k) / (sum_k d_k g^-k) *)
Theorem fsubst_evaluates f g h u v : fok g -> fsubst f g = Ok h ->
  q_at (fnum f) (fr_of g) = Some u -> q_at (fden f) (fr_of g) = Some v -> fst v <> [] ->
  frac_equiv (fr_of h) (q_div u v).
Proof. intros Fg E Eu Ev Hv. apply R_frac. apply (R_fsubst f g _ h u v (fok_self g Fg) E Eu Ev Hv). Qed.
(* ... and only the rational function of g matters *)
Theorem fsubst_respects f g g' h h' u v : fok g -> fok g' -> fequiv g' g ->
  fsubst f g = Ok h -> fsubst f g' = Ok h' ->
  q_at (fnum f) (fr_of g) = Some u -> q_at (fden f) (fr_of g) = Some v -> fst v <> [] -> fequiv h h'.
Proof.
  intros Fg Fg' He E E' Eu Ev Hv.
  assert (R g' (fr_of g)) as Rg'.
  { split; [exact Fg'|split; [apply fok_wf; exact Fg|split; [apply Fg|apply frac_equiv_deq; exact He]]]. }
  pose proof (R_fsubst f g _ h u v (fok_self g Fg) E Eu Ev Hv) as R1.
  pose proof (R_fsubst f g' _ h' u v Rg' E' Eu Ev Hv) as R2.
  apply (R_same _ _ _ _ R1 R2). unfold fr_deq. apply deq_refl.
Qed.
