(* C05 - rational-function layer, part 3: f ** n is the n-fold product, f ** (-n) is 1 / f ** n
   (both branches of __pow__: the reciprocal rule and the one-term shortcut). *)
From Coq Require Import List Bool ZArith QArith Qcanon Lia Ring Setoid Morphisms String.
From AL Require Import Base.CaseLib C07.Model C07.Spec C07.Lib C07.Proofs_Ring C07.Proofs_Eval
  C05.Model C05.Spec C05.Lib_Ring C05.Proofs_Domain C05.Proofs_Frac C05.Proofs_Field.
Import ListNotations.
Open Scope Qc_scope.

Lemma q_pow_den_nz s n : fr_wf s -> snd s <> [] -> snd (q_pow s n) <> [].
Proof.
  intros [Wn Wd] Hs. induction n as [|n IH]; simpl.
  - apply (wf_pconst_nz 0).
  - apply pmul_nonzero; [apply (fr_wf_pow s n)|exact Wd|exact IH|exact Hs].
Qed.
Lemma q_pow_num_nz s n : fr_wf s -> fst s <> [] -> fst (q_pow s n) <> [].
Proof.
  intros [Wn Wd] Hs. induction n as [|n IH]; simpl.
  - apply (wf_pconst_nz 0).
  - apply pmul_nonzero; [apply (fr_wf_pow s n)|exact Wn|exact IH|exact Hs].
Qed.
Lemma q_pow_inv s n : q_pow (q_inv s) n = q_inv (q_pow s n).
Proof. induction n as [|n IH]; simpl; [reflexivity|]. rewrite IH. reflexivity. Qed.

(* n-fold products of numerator and denominator against the n-th power of the fraction *)
Lemma pow_spec_frac nf df s n : NoDupKeys nf -> NoDupKeys df -> fr_wf s ->
  fr_deq (nf, df) s -> fr_deq (pow_spec nf n, pow_spec df n) (q_pow s n).
Proof.
  intros Hn Hd Ws H. destruct s as [ns ds]. unW Ws. unfold fr_deq in *. cbn [fst snd] in *.
  induction n as [|n IH].
  - simpl. apply deq_refl.
  - cbn [pow_spec q_pow]. unfold q_mul. cbn [fst snd].
    pose proof (proj1 (wf_pow_spec nf n)). pose proof (proj1 (wf_pow_spec df n)).
    pose proof (proj1 (proj1 (fr_wf_pow (ns, ds) n))). pose proof (proj1 (proj2 (fr_wf_pow (ns, ds) n))).
    lift_hyp H. lift_hyp IH. lift_goal.
    match goal with |- weq (wmul (wmul ?A ?NF) (wmul ?D' ?DS)) (wmul (wmul ?N' ?NS) (wmul ?B ?DF)) =>
      transitivity (wmul (wmul A D') (wmul NF DS)); [ring|]; rewrite H, IH; ring end.
Qed.

Lemma R_fpow_direct f s n h : R f s -> fpow_direct f (Z.of_nat n) = Ok h -> R h (q_pow s n).
Proof.
  intros Hf Eh. pose proof Hf as Hf'. destruct s as [ns ds]. unR Hf.
  unfold fpow_direct in Eh.
  apply (R_zf _ _ h _ (wf_ppow _ _ Wn) (wf_ppow _ _ Wd) Eh).
  - apply fr_wf_pow.
  - apply q_pow_den_nz; [split; assumption|exact Hs].
  - pose proof (pow_spec_frac (fnum f) (fden f) (ns, ds) n H H0 (conj Wsn Wsd) E) as P.
    pose proof (ppow_nfold_deq _ n Wn) as P1. pose proof (ppow_nfold_deq _ n Wd) as P2.
    unfold fr_deq in *. cbn [fst snd] in *.
    pose proof (proj1 (wf_ppow _ (Z.of_nat n) Wn)). pose proof (proj1 (wf_ppow _ (Z.of_nat n) Wd)).
    pose proof (proj1 (wf_pow_spec (fnum f) n)). pose proof (proj1 (wf_pow_spec (fden f) n)).
    pose proof (proj1 (proj1 (fr_wf_pow (ns, ds) n))). pose proof (proj1 (proj2 (fr_wf_pow (ns, ds) n))).
    lift_hyp P. lift_hyp P1. lift_hyp P2. lift_goal. rewrite P1, P2. exact P.
Qed.

(* f ** n, n >= 0 : the n-fold product *)
Theorem R_fpow_nonneg f s n h : R f s -> fpow f (Z.of_nat n) = Ok h -> R h (q_pow s n).
Proof.
  intros Hf Eh. unfold fpow in Eh.
  replace (Z.of_nat n <? 0)%Z with false in Eh by (symmetry; apply Z.ltb_ge; lia). simpl in Eh.
  apply (R_fpow_direct f s n h Hf Eh).
Qed.

(* the inverse of a monomial *)
Lemma mono_inverse k v m : v <> 0 ->
  deq (pmul (ppow [(k, v)] (- Z.of_nat (S m))) (pow_spec [(k, v)] (S m))) (pconst 1).
Proof.
  intros Hv F. rewrite dot_pmul, dot_pconst. unfold ppow.
  replace (- Z.of_nat (S m) =? 0)%Z with false by (symmetry; apply Z.eqb_neq; lia).
  set (c := if Qc_eqb v 1 then 1 else qpow v (- Z.of_nat (S m))).
  assert (c = qpow v (- Z.of_nat (S m))) as Ec.
  { unfold c. destruct (Qc_eqb v 1) eqn:E; [|reflexivity]. apply Qc_eqb_spec in E. subst. rewrite qpow_1_l. reflexivity. }
  rewrite dot_mk by (repeat constructor; intros []). rewrite dot_cons, dot_nil.
  rewrite dot_pow_spec_mono by exact Hv. rewrite Ec.
  replace (k * - Z.of_nat (S m) + k * Z.of_nat (S m))%Z with 0%Z by lia.
  transitivity (qpow v (- Z.of_nat (S m) + Z.of_nat (S m)) * F 0%Z); [rewrite qpow_add by exact Hv; ring|].
  replace (- Z.of_nat (S m) + Z.of_nat (S m))%Z with 0%Z by lia. rewrite qpow_0_r. reflexivity.
Qed.

Lemma single_nz k v : wf [(k, v)] -> v <> 0.
Proof. intros [_ NZ]. inversion NZ; subst. assumption. Qed.

(* f ** (-n), n > 0 : the n-fold product of 1 / f *)
Theorem R_fpow_neg f s m h : R f s -> fst s <> [] -> fpow f (- Z.of_nat (S m)) = Ok h ->
  R h (q_pow (q_inv s) (S m)).
Proof.
  intros Hf Hns Eh. pose proof Hf as Hf'. destruct s as [ns ds]. unR Hf. cbn [fst] in Hns.
  assert (fnum f <> []) as Hnf.
  { intro En. rewrite En in E. apply deq_sym in E. apply deq_nil_eq in E; [|apply wf_pmul].
    revert E. apply pmul_nonzero; assumption. }
  unfold fpow in Eh. replace (- Z.of_nat (S m) <? 0)%Z with true in Eh by (symmetry; apply Z.ltb_lt; lia).
  rewrite andb_true_l in Eh.
  destruct ((2 <=? plen (fnum f))%Z || (2 <=? plen (fden f))%Z) eqn:Ec.
  - (* reciprocal rule *)
    destruct (zf (fden f) (fnum f)) as [r|] eqn:Er; [|discriminate]. simpl in Eh.
    replace (- - Z.of_nat (S m))%Z with (Z.of_nat (S m)) in Eh by lia.
    apply (R_fpow_direct r (q_inv (ns, ds)) (S m) h); [|exact Eh].
    apply (R_zf _ _ r _ Wd Wn Er); [split; assumption|exact Hns|].
    unfold fr_deq, q_inv. cbn [fst snd]. lift_hyp E. lift_goal.
    match goal with |- weq (wmul ?DF ?NS) (wmul ?DS ?NF) => transitivity (wmul NS DF); [ring|]; rewrite <- E; ring end.
  - (* one term each: powers of the terms themselves *)
    apply orb_false_iff in Ec as [C1 C2]. unfold plen in C1, C2.
    destruct (fnum f) as [|[k1 v1] [|e1 r1]] eqn:En; [congruence| |simpl in C1; apply Z.leb_gt in C1; lia].
    destruct (fden f) as [|[k2 v2] [|e2 r2]] eqn:Edn; [congruence| |simpl in C2; apply Z.leb_gt in C2; lia].
    clear C1 C2. pose proof (single_nz _ _ Wn) as Hv1. pose proof (single_nz _ _ Wd) as Hv2.
    unfold fpow_direct in Eh. rewrite En, Edn in Eh.
    apply (R_zf _ _ h _ (wf_ppow _ _ Wn) (wf_ppow _ _ Wd) Eh).
    + apply fr_wf_pow.
    + apply q_pow_den_nz; [split; assumption|exact Hns].
    + rewrite q_pow_inv.
      pose proof (pow_spec_frac [(k1, v1)] [(k2, v2)] (ns, ds) (S m) H H0 (conj Wsn Wsd) E) as P.
      pose proof (mono_inverse k1 v1 m Hv1) as I1. pose proof (mono_inverse k2 v2 m Hv2) as I2.
      unfold fr_deq, q_inv in *. cbn [fst snd] in *.
      pose proof (proj1 (wf_ppow _ (- Z.of_nat (S m)) Wn)). pose proof (proj1 (wf_ppow _ (- Z.of_nat (S m)) Wd)).
      pose proof (proj1 (wf_pow_spec [(k1, v1)] (S m))). pose proof (proj1 (wf_pow_spec [(k2, v2)] (S m))).
      pose proof (proj1 (proj1 (fr_wf_pow (ns, ds) (S m)))). pose proof (proj1 (proj2 (fr_wf_pow (ns, ds) (S m)))).
      lift_hyp P. lift_hyp I1. lift_hyp I2. lift_goal.
      (* P1 * N' = P1 * N' * (P2 * B) = P1 P2 (N' B) = P1 P2 (A D') = (P1 A) (P2 D') = P2 * D' ... *)
      match type of P with weq (wmul ?A ?D') (wmul ?N' ?B) =>
        match type of I1 with weq (wmul ?P1 _) _ =>
          match type of I2 with weq (wmul ?P2 _) _ =>
            transitivity (wmul (wmul P1 N') (wmul P2 B)); [rewrite I2; ring|];
            transitivity (wmul (wmul P1 P2) (wmul N' B)); [ring|];
            rewrite <- P;
            transitivity (wmul (wmul P1 A) (wmul P2 D')); [ring|];
            rewrite I1; ring
          end end end.
Qed.
