(* C05 - == / != / hash of filters are mutually consistent. *)
From Coq Require Import List Bool ZArith QArith Qcanon Lia Permutation.
From AL Require Import Base.CaseLib C07.Model C07.Spec C07.Lib C07.Proofs_Ring C07.Proofs_Run
  C05.Model C05.Spec.
Import ListNotations.
Open Scope Qc_scope.

Lemma eq_ne_exclusive f g : fne f g = negb (feq f g).
Proof. unfold fne, feq, pne. rewrite negb_andb. reflexivity. Qed.
Lemma eq_xor_ne f g : xorb (feq f g) (fne f g) = true.
Proof. rewrite eq_ne_exclusive. destruct (feq f g); reflexivity. Qed.

(* sorted(keys) is a function of the multiset of keys *)
Fixpoint zinsert (a : Z) (l : list Z) : list Z :=
  match l with
  | [] => [a]
  | h :: t => if (a <=? h)%Z then a :: l else h :: zinsert a t
  end.
Definition zsort (l : list Z) : list Z := fold_right zinsert [] l.

Lemma keys_insert_by e l : map fst (insert_by Z.leb e l) = zinsert (fst e) (map fst l).
Proof.
  induction l as [|h t IH]; simpl; [reflexivity|].
  destruct (fst e <=? fst h)%Z; simpl; [reflexivity|]. rewrite IH. reflexivity.
Qed.
Lemma keys_sort_asc p : map fst (sort_asc p) = zsort (map fst p).
Proof.
  unfold sort_asc, sort_by. induction p as [|e r IH]; simpl; [reflexivity|].
  rewrite keys_insert_by, IH. reflexivity.
Qed.

Lemma zinsert_comm a b : forall s, zinsert a (zinsert b s) = zinsert b (zinsert a s).
Proof.
  induction s as [|h t IH]; simpl.
  - destruct (a <=? b)%Z eqn:E1; destruct (b <=? a)%Z eqn:E2; try reflexivity.
    + apply Z.leb_le in E1, E2. assert (a = b) by lia. subst. reflexivity.
    + apply Z.leb_gt in E1, E2. lia.
  - destruct (b <=? h)%Z eqn:Eb; destruct (a <=? h)%Z eqn:Ea; simpl; rewrite ?Ea, ?Eb.
    + destruct (a <=? b)%Z eqn:E1; destruct (b <=? a)%Z eqn:E2; try reflexivity.
      * apply Z.leb_le in E1, E2. assert (a = b) by lia. subst. reflexivity.
      * apply Z.leb_gt in E1, E2. lia.
    + apply Z.leb_le in Eb. apply Z.leb_gt in Ea.
      replace (a <=? b)%Z with false by (symmetry; apply Z.leb_gt; lia). reflexivity.
    + apply Z.leb_gt in Eb. apply Z.leb_le in Ea.
      replace (b <=? a)%Z with false by (symmetry; apply Z.leb_gt; lia). reflexivity.
    + rewrite IH. reflexivity.
Qed.
Lemma zsort_perm l l' : Permutation l l' -> zsort l = zsort l'.
Proof.
  induction 1 as [|x l l' _ IH|x y l|l l' l'' _ IH1 _ IH2]; simpl.
  - reflexivity.
  - rewrite IH. reflexivity.
  - apply zinsert_comm.
  - congruence.
Qed.

Lemma peq_sorted_keys p q : wf p -> wf q -> peq p q = true -> map fst (sort_asc p) = map fst (sort_asc q).
Proof.
  intros Wp Wq E. rewrite !keys_sort_asc. apply zsort_perm. apply Permutation_map.
  apply peq_perm; assumption.
Qed.

(* equal filters hash equally, whatever the hash function of the key tuple is *)
Theorem eq_hash (H : list Z -> Z) f g : wf (fnum f) -> wf (fden f) -> wf (fnum g) -> wf (fden g) ->
  feq f g = true -> fhash H f = fhash H g.
Proof.
  intros Wnf Wdf Wng Wdg E. unfold feq in E. apply andb_true_iff in E as [En Ed].
  unfold fhash, fhash_items. rewrite (peq_sorted_keys _ _ Wnf Wng En), (peq_sorted_keys _ _ Wdf Wdg Ed).
  reflexivity.
Qed.

(* == is equality of the two coefficient functions *)
Lemma feq_same f g : wf (fnum f) -> wf (fden f) -> wf (fnum g) -> wf (fden g) ->
  (feq f g = true <-> same (fnum f) (fnum g) /\ same (fden f) (fden g)).
Proof.
  intros Wnf Wdf Wng Wdg. unfold feq. rewrite andb_true_iff.
  rewrite (peq_iff_same _ _ Wnf Wng), (peq_iff_same _ _ Wdf Wdg). reflexivity.
Qed.
