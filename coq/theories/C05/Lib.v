(* C05 - polynomials acting on signals (a module over the Laurent polynomial ring), the
   cancellation lemma, and the bridge to C04's statement of LinearFilter.__call__. *)
From Coq Require Import List Bool ZArith QArith Qcanon Lia String.
From AL Require Import Base.CaseLib C07.Model C07.Spec C07.Lib C07.Proofs_Ring C07.Proofs_Eval C05.Model C05.Spec.
From AL Require C04.Model C04.Spec C04.Lib C04.ProofsCall.
Import ListNotations.
Open Scope Qc_scope.

(* ------------------------------------------------------------------ act: module laws *)
Lemma act_pmul p q X n : act (pmul p q) X n = act p (act q X) n.
Proof.
  unfold act. rewrite dot_pmul. apply dot_ext. intro i. apply dot_ext. intro j. f_equal. lia.
Qed.
Lemma act_padd p q X n : NoDupKeys p -> NoDupKeys q -> act (padd p q) X n = act p X n + act q X n.
Proof. intros Hp Hq. unfold act. apply dot_padd; assumption. Qed.
Lemma act_pneg p X n : NoDupKeys p -> act (pneg p) X n = - act p X n.
Proof. intros Hp. unfold act. apply dot_pneg; assumption. Qed.
Lemma act_pconst c X n : act (pconst c) X n = c * X n.
Proof. unfold act. rewrite dot_pconst. f_equal. f_equal. lia. Qed.
Lemma act_nil X n : act [] X n = 0.
Proof. reflexivity. Qed.
Lemma act_deq p q X n : deq p q -> act p X n = act q X n.
Proof. intro H. unfold act. apply H. Qed.
Lemma act_mono k c X n : act [(k, c)] X n = c * X (n - k)%Z.
Proof. unfold act. rewrite dot_cons, dot_nil. ring. Qed.
Lemma act_plus p A B n : act p (fun m => A m + B m) n = act p A n + act p B n.
Proof. unfold act. apply dot_plus. Qed.
Lemma act_scale p c A n : act p (fun m => c * A m) n = c * act p A n.
Proof. unfold act. apply dot_scale. Qed.
Lemma act_ext p A B n : (forall m, A m = B m) -> act p A n = act p B n.
Proof. intro H. unfold act. apply dot_ext. intro k. apply H. Qed.

(* a causal polynomial looks only at the past *)
Lemma act_eq_upto p A B N : nonneg p -> eq_upto N A B -> eq_upto N (act p A) (act p B).
Proof.
  intros Hp H n Hn. unfold act. apply dot_ext_in. intros k Hk. apply H.
  pose proof (nonneg_keys p k Hp Hk). lia.
Qed.
Lemma act_silent p X : nonneg p -> silent X -> silent (act p X).
Proof.
  intros Hp H n Hn. unfold act. transitivity (dot p (fun _ => 0)); [|apply dot_zero]. apply dot_ext_in. intros k Hk. apply H.
  pose proof (nonneg_keys p k Hp Hk). lia.
Qed.
Lemma act_comm p q X n : act p (act q X) n = act q (act p X) n.
Proof. rewrite <- !act_pmul. apply act_deq. apply pmul_comm_deq. Qed.

Lemma eq_upto_refl N A : eq_upto N A A. Proof. intros n _. reflexivity. Qed.
Lemma eq_upto_sym N A B : eq_upto N A B -> eq_upto N B A.
Proof. intros H n Hn. symmetry. apply H. exact Hn. Qed.
Lemma eq_upto_trans N A B C : eq_upto N A B -> eq_upto N B C -> eq_upto N A C.
Proof. intros H1 H2 n Hn. rewrite H1 by exact Hn. apply H2. exact Hn. Qed.

(* ------------------------------------------------------------------ cancellation *)
Lemma keys_od_del d k j : In j (keys (od_del d k)) -> In j (keys d) /\ j <> k.
Proof.
  unfold od_del, keys. rewrite in_map_iff. intros [[m c] [E Hin]]. simpl in E. subst m.
  apply filter_In in Hin as [Hin Hb]. simpl in Hb. split.
  - apply in_map_iff. exists (j, c). split; [reflexivity|exact Hin].
  - intro E. subst. rewrite Z.eqb_refl in Hb. discriminate.
Qed.

Lemma Qcmult_cancel_l (a x y : Qc) : a <> 0 -> a * x = a * y -> x = y.
Proof.
  intros Ha H. assert (a * (x - y) = 0) as H0.
  { transitivity (a * x - a * y); [ring|]. rewrite H. ring. }
  apply Qcmult_integral_l in H0; [|exact Ha].
  assert (x = (x - y) + y) as -> by ring. rewrite H0. ring.
Qed.

(* a0 <> 0: the difference equation determines the output *)
Lemma act_cancel d A B N : NoDupKeys d -> nonneg d -> coefn d 0 <> 0 ->
  (forall n, (n < 0)%Z -> A n = B n) -> eq_upto N (act d A) (act d B) -> eq_upto N A B.
Proof.
  intros ND NN Ha Hneg H.
  assert (forall m : nat, forall n, (n < Z.of_nat m)%Z -> (n < N)%Z -> A n = B n) as Hind.
  { induction m as [|m IH]; intros n Hm HN.
    - apply Hneg. lia.
    - destruct (Z_lt_le_dec n 0) as [Hlt|Hge]; [apply Hneg; exact Hlt|].
      specialize (H n HN). unfold act in H.
      rewrite (dot_remove d 0 _ ND) in H. rewrite (dot_remove d 0 (fun k => B (n - k)%Z) ND) in H.
      assert (dot (od_del d 0) (fun k => A (n - k)%Z) = dot (od_del d 0) (fun k => B (n - k)%Z)) as E.
      { apply dot_ext_in. intros k Hk. apply keys_od_del in Hk as [Hk Hk0].
        pose proof (nonneg_keys d k NN Hk). apply IH; lia. }
      rewrite E in H. replace (n - 0)%Z with n in H by lia.
      apply (Qcmult_cancel_l (coefn d 0)); [exact Ha|].
      assert (forall a b c : Qc, a + c = b + c -> a = b) as Hc.
      { intros a b c Habc. assert (a = (a + c) - c) as -> by ring. rewrite Habc. ring. }
      apply (Hc _ _ _ H). }
  intros n Hn. destruct (Z_lt_le_dec n 0) as [Hlt|Hge]; [apply Hneg; exact Hlt|].
  apply (Hind (S (Z.to_nat n))); [lia|exact Hn].
Qed.

(* ------------------------------------------------------------------ signals from lists *)
Lemma sig_silent x : silent (sig x).
Proof. intros n Hn. unfold sig. apply Z.ltb_lt in Hn. rewrite Hn. reflexivity. Qed.
Lemma sig_nth x n : (0 <= n)%Z -> sig x n = nth (Z.to_nat n) x 0.
Proof. intro H. unfold sig. destruct (n <? 0)%Z eqn:E; [apply Z.ltb_lt in E; lia|reflexivity]. Qed.
Lemma sig_eq_lists x y : List.length x = List.length y ->
  eq_upto (Z.of_nat (List.length x)) (sig x) (sig y) -> x = y.
Proof.
  intros HL H. apply (nth_ext x y 0 0 HL). intros i Hi.
  specialize (H (Z.of_nat i) ltac:(lia)). rewrite !sig_nth in H by lia. rewrite Nat2Z.id in H. exact H.
Qed.
