(* C05 - signal layer, second part: equivalent filters, division, powers, delay. *)
From Coq Require Import List Bool ZArith QArith Qcanon Lia String.
From AL Require Import Base.CaseLib C07.Model C07.Spec C07.Lib C07.Proofs_Ring C07.Proofs_Eval
  C05.Model C05.Spec C05.Lib C05.Lib_Ring C05.Proofs_Run C05.Proofs_Ops C05.Proofs_Signal.
Import ListNotations.
Open Scope Qc_scope.

Lemma fequiv_deq f g : fequiv f g <-> deq (pmul (fnum f) (fden g)) (pmul (fnum g) (fden f)).
Proof.
  unfold fequiv, frac_equiv, fr_of. simpl. split.
  - apply deq_of_same; apply wf_pmul.
  - apply same_of_deq; apply wf_pmul.
Qed.

(* ------------------------------------------------------------------ run_respects_equiv *)
Lemma resp_equiv f g x y : causal_ok f -> causal_ok g -> fequiv f g -> resp_lists f x y -> resp_lists g x y.
Proof.
  intros (Wnf & Wdf & Nnf & Ndf & Haf) (Wng & Wdg & Nng & Ndg & Hag) He [L R].
  apply fequiv_deq in He. split; [exact L|]. unfold resp in *.
  apply (act_cancel (fden f)); [apply Wdf|exact Ndf|exact Haf| |].
  - intros n Hn. rewrite !act_silent; auto using sig_silent.
  - intros t Ht.
    (* df . (dg . Y) = dg . (df . Y) = dg . (nf . X) = (nf dg) . X = (ng df) . X = df . (ng . X) *)
    rewrite act_comm. rewrite (act_eq_upto (fden g) _ _ _ Ndg R t Ht).
    rewrite <- !act_pmul. rewrite (act_deq _ _ _ _ (pmul_comm_deq (fden g) (fnum f))).
    rewrite (act_deq _ _ _ _ He). apply act_deq. apply pmul_comm_deq.
Qed.

Theorem run_respects_equiv f g x : causal_ok f -> causal_ok g -> fequiv f g -> frun f x = frun g x.
Proof.
  intros Hf Hg He. destruct (frun_resp f x Hf) as (y & E & R). rewrite E. symmetry.
  apply frun_of_resp; [exact Hg|]. apply (resp_equiv f g x y Hf Hg He R).
Qed.

(* ------------------------------------------------------------------ run_div_cancel *)
Theorem run_div_cancel f g q h x : causal_ok f -> causal_ok g -> coefn (fnum g) 0 <> 0 ->
  fdiv f g = Ok q -> fmul q g = Ok h -> frun h x = frun f x.
Proof.
  intros Hf Hg Hb Eq Eh.
  destruct (fdiv_causal f g Hf Hg Hb) as [E1 C1]. rewrite E1 in Eq. injection Eq as <-.
  destruct (fmul_causal _ g C1 Hg) as [E2 C2]. rewrite E2 in Eh. injection Eh as <-.
  apply run_respects_equiv; [exact C2|exact Hf|].
  apply fequiv_deq. simpl.
  pose proof Hf as (Wnf & Wdf & _). pose proof Hg as (Wng & Wdg & _).
  poly_ring.
Qed.

(* ------------------------------------------------------------------ run_pow *)
Lemma iter_run_resp f n : causal_ok f -> forall x, exists y, iter_run f n x = Ok y /\
  List.length y = List.length x /\
  eq_upto (Z.of_nat (List.length x)) (act (pow_spec (fden f) n) (sig y)) (act (pow_spec (fnum f) n) (sig x)).
Proof.
  intros Hf x. pose proof Hf as (Wn & Wd & Nn & Nd & Ha).
  induction n as [|n IH].
  - exists x. split; [reflexivity|]. split; [reflexivity|]. apply eq_upto_refl.
  - destruct IH as (y' & E' & L' & R'). simpl. rewrite E'. simpl.
    destruct (frun_resp f y' Hf) as (y & E & [L R]). exists y. split; [exact E|]. split; [congruence|].
    rewrite L' in R. unfold resp in R. intros t Ht.
    rewrite act_pmul. rewrite (act_eq_upto _ _ _ _ (nonneg_pow_spec (fden f) n Nd) R t Ht).
    rewrite act_comm. rewrite (act_eq_upto _ _ _ _ Nn R' t Ht).
    rewrite <- act_pmul. apply act_deq. apply pmul_comm_deq.
Qed.

Theorem run_pow f n h x : causal_ok f -> fpow f (Z.of_nat n) = Ok h -> frun h x = iter_run f n x.
Proof.
  intros Hf Eh. pose proof Hf as (Wn & Wd & Nn & Nd & Ha).
  destruct (fpow_causal f n Hf) as [E1 C1]. rewrite E1 in Eh. injection Eh as <-.
  destruct (iter_run_resp f n Hf x) as (y & E & L & R). rewrite E.
  apply frun_of_resp; [exact C1|]. split; [exact L|]. intros t Ht. simpl.
  rewrite (act_deq _ _ _ _ (ppow_nfold_deq (fden f) n Wd)), (act_deq _ _ _ _ (ppow_nfold_deq (fnum f) n Wn)).
  apply (R t Ht).
Qed.

(* ------------------------------------------------------------------ run_delay *)
Lemma one_nz : (1 : Qc) <> 0. Proof. discriminate. Qed.
Lemma mk_single k v : v <> 0 -> mk [(k, v)] = [(k, v)].
Proof. intro H. apply mk_id. apply wf_single. exact H. Qed.

Lemma fz_value : fz = Ok (Filt [((-1)%Z, 1)] [(0%Z, 1)]).
Proof. vm_compute. reflexivity. Qed.

Lemma fpow_z k : fpow (Filt [((-1)%Z, 1)] [(0%Z, 1)]) (- Z.of_nat (S k)) = Ok (Filt [(Z.of_nat (S k), 1)] [(0%Z, 1)]).
Proof.
  unfold fpow. simpl plen. replace ((2 <=? 1)%Z) with false by reflexivity. rewrite andb_false_r.
  unfold fpow_direct. simpl fnum. simpl fden. unfold ppow.
  replace (- Z.of_nat (S k) =? 0)%Z with false by (symmetry; apply Z.eqb_neq; lia).
  replace (Qc_eqb 1 1) with true by reflexivity.
  replace (-1 * - Z.of_nat (S k))%Z with (Z.of_nat (S k)) by lia.
  replace (0 * - Z.of_nat (S k))%Z with 0%Z by lia.
  rewrite !mk_single by exact one_nz.
  unfold zf, pcopy. rewrite !mk_single by exact one_nz. reflexivity.
Qed.

Lemma nth_delayed k x i : (i < List.length x)%nat ->
  nth i (delayed k x) 0 = if (i <? k)%nat then 0 else nth (i - k) x 0.
Proof.
  intro Hi. unfold delayed.
  assert (forall (l : list Qc) n j, (j < n)%nat -> nth j (firstn n l) 0 = nth j l 0) as Hf.
  { induction l as [|a l IHl]; intros [|n] [|j] Hj; simpl; try reflexivity; try lia. apply IHl. lia. }
  rewrite Hf by exact Hi. destruct (i <? k)%nat eqn:E.
  - apply Nat.ltb_lt in E. rewrite app_nth1 by (rewrite repeat_length; exact E).
    destruct (nth_in_or_default i (repeat 0 k) 0) as [Hin|E0]; [apply repeat_spec in Hin; exact Hin|exact E0].
  - apply Nat.ltb_ge in E. rewrite app_nth2 by (rewrite repeat_length; exact E).
    rewrite repeat_length. reflexivity.
Qed.
Lemma delayed_length k x : List.length (delayed k x) = List.length x.
Proof. unfold delayed. rewrite firstn_length, app_length, repeat_length. lia. Qed.

Lemma sig_delayed k x t : (t < Z.of_nat (List.length x))%Z -> sig (delayed k x) t = sig x (t - Z.of_nat k)%Z.
Proof.
  intro Ht. unfold sig. destruct (t <? 0)%Z eqn:E.
  - apply Z.ltb_lt in E. replace (t - Z.of_nat k <? 0)%Z with true by (symmetry; apply Z.ltb_lt; lia). reflexivity.
  - apply Z.ltb_ge in E. rewrite nth_delayed by lia. destruct (Z.to_nat t <? k)%nat eqn:E2.
    + apply Nat.ltb_lt in E2. replace (t - Z.of_nat k <? 0)%Z with true by (symmetry; apply Z.ltb_lt; lia). reflexivity.
    + apply Nat.ltb_ge in E2. replace (t - Z.of_nat k <? 0)%Z with false by (symmetry; apply Z.ltb_ge; lia).
      f_equal. lia.
Qed.

Lemma delay_causal k : causal_ok (Filt [(Z.of_nat k, 1)] [(0%Z, 1)]).
Proof.
  apply causal_ok_intro; try (apply wf_single; exact one_nz).
  - constructor; [simpl; lia|constructor].
  - constructor; [simpl; lia|constructor].
  - rewrite coefn_cons. simpl. exact one_nz.
Qed.

(* z ** -k delays by k samples (k zeros, then the input, cut to the input's length) *)
Theorem run_delay k z0 h x : fz = Ok z0 -> fpow z0 (- Z.of_nat k) = Ok h -> frun h x = Ok (delayed k x).
Proof.
  intros Ez Eh. rewrite fz_value in Ez. injection Ez as <-.
  destruct k as [|k].
  - (* z ** 0 = 1 *)
    change (- Z.of_nat 0)%Z with (Z.of_nat 0) in Eh.
    vm_compute in Eh. injection Eh as <-.
    change (frun (Filt (pconst 1) (pconst 1)) x = Ok (delayed 0 x)).
    destruct (fconst_causal 1) as [_ C1].
    apply frun_of_resp; [exact C1|]. split; [apply delayed_length|].
    intros t Ht. cbn [fden fnum]. rewrite !act_pconst. rewrite sig_delayed by exact Ht. f_equal. f_equal. simpl. lia.
  - rewrite fpow_z in Eh. injection Eh as <-.
    apply frun_of_resp; [apply (delay_causal (S k))|]. split; [apply delayed_length|].
    intros t Ht. simpl fden. simpl fnum. rewrite !act_mono. replace (t - 0)%Z with t by lia.
    rewrite sig_delayed by exact Ht. reflexivity.
Qed.

(* ------------------------------------------------------------------ c * f *)
Lemma run_const c y : frun (Filt (pconst c) (pconst 1)) y = Ok (map (Qcmult c) y).
Proof.
  destruct (fconst_causal c) as [_ C]. apply frun_of_resp; [exact C|]. split; [apply map_length|].
  intros t Ht. cbn [fden fnum]. rewrite !act_pconst, sig_map_scale. ring.
Qed.

Theorem run_scale_l c f h x y : causal_ok f -> sfmul c f = Ok h -> frun f x = Ok y ->
  frun h x = Ok (map (Qcmult c) y).
Proof.
  intros Hf Eh Rf. unfold sfmul in Eh. destruct (fconst_causal c) as [Ec C]. rewrite Ec in Eh. simpl in Eh.
  apply (run_mul _ f h x y _ C Hf Eh Rf). apply run_const.
Qed.
