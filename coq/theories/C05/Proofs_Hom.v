(* C05 - rational-function layer, part 7: evaluation at z := g (g <> 0) is a ring homomorphism from
   Laurent polynomials to fractions, so f(g) depends only on the rational function of f.
   Method: clear denominators.  With g = N / D and |k| <= K,  g^-k = D^(K+k) N^(K-k) / (N D)^K. *)
From Coq Require Import List Bool ZArith QArith Qcanon Lia Ring Setoid Morphisms String Permutation.
From AL Require Import Base.CaseLib C07.Model C07.Spec C07.Lib C07.Proofs_Ring C07.Proofs_Eval
  C05.Model C05.Spec C05.Lib_Ring C05.Proofs_Domain C05.Proofs_Frac C05.Proofs_Field C05.Proofs_Pow
  C05.Proofs_Subst C05.Proofs_Sem C05.Proofs_Laws.
Import ListNotations.
Open Scope Qc_scope.

(* ------------------------------------------------------------------ power laws *)
Lemma pow_spec_add a m n : NoDupKeys a -> deq (pow_spec a (m + n)) (pmul (pow_spec a m) (pow_spec a n)).
Proof.
  intro Ha. induction n as [|n IH].
  - rewrite Nat.add_0_r. simpl. pose proof (proj1 (wf_pow_spec a m)). poly_ring.
  - replace (m + S n)%nat with (S (m + n)) by lia. cbn [pow_spec].
    pose proof (proj1 (wf_pow_spec a m)). pose proof (proj1 (wf_pow_spec a n)). pose proof (proj1 (wf_pow_spec a (m + n))).
    lift_hyp IH. lift_goal. rewrite IH. ring.
Qed.
Lemma pow_spec_mul a b n : NoDupKeys a -> NoDupKeys b ->
  deq (pow_spec (pmul a b) n) (pmul (pow_spec a n) (pow_spec b n)).
Proof.
  intros Ha Hb. induction n as [|n IH].
  - simpl. poly_ring.
  - cbn [pow_spec]. pose proof (proj1 (wf_pmul a b)).
    pose proof (proj1 (wf_pow_spec a n)). pose proof (proj1 (wf_pow_spec b n)). pose proof (proj1 (wf_pow_spec (pmul a b) n)).
    lift_hyp IH. lift_goal. rewrite IH. ring.
Qed.
Lemma pow_spec_nonzero a n : wf a -> a <> [] -> pow_spec a n <> [].
Proof.
  intros Wa Ha. induction n as [|n IH]; simpl; [apply (wf_pconst_nz 0)|].
  apply pmul_nonzero; [apply wf_pow_spec|exact Wa|exact IH|exact Ha].
Qed.
Lemma q_pow_fst a b n : fst (q_pow (a, b) n) = pow_spec a n.
Proof. induction n as [|n IH]; simpl; [reflexivity|]. rewrite IH. reflexivity. Qed.
Lemma q_pow_snd a b n : snd (q_pow (a, b) n) = pow_spec b n.
Proof. induction n as [|n IH]; simpl; [reflexivity|]. rewrite IH. reflexivity. Qed.
Lemma q_pow_pair a b n : q_pow (a, b) n = (pow_spec a n, pow_spec b n).
Proof. rewrite (surjective_pairing (q_pow (a, b) n)), q_pow_fst, q_pow_snd. reflexivity. Qed.

Section Hom.
Variables N D : poly.
Hypothesis WN : wf N.
Hypothesis WD : wf D.
Hypothesis HN : N <> [].
Hypothesis HD : D <> [].
Let NDN := proj1 WN.
Let NDD := proj1 WD.

(* numerator of g^-k over the common denominator (N D)^K *)
Definition G (K k : Z) : poly := pmul (pow_spec D (Z.to_nat (K + k))) (pow_spec N (Z.to_nat (K - k))).
Definition DEN (K : Z) : poly := pow_spec (pmul N D) (Z.to_nat K).

Lemma wf_G K k : wf (G K k). Proof. apply wf_pmul. Qed.
Lemma wf_DEN K : wf (DEN K). Proof. apply wf_pow_spec. Qed.
Lemma DEN_nonzero K : DEN K <> [].
Proof. apply pow_spec_nonzero; [apply wf_pmul|apply pmul_nonzero; assumption]. Qed.

Lemma DEN_split K : deq (DEN K) (pmul (pow_spec N (Z.to_nat K)) (pow_spec D (Z.to_nat K))).
Proof. apply pow_spec_mul; assumption. Qed.

(* g^-k as a fraction over (N D)^K, for |k| <= K *)
Lemma zpow_frac K k w : (- K <= k <= K)%Z -> q_zpow (N, D) (- k) = Some w -> fr_deq w (G K k, DEN K).
Proof.
  intros Hk Ew. unfold q_zpow in Ew. cbn [fst] in Ew. pose proof (DEN_split K) as HS.
  destruct (0 <=? - k)%Z eqn:E.
  - (* k <= 0 : g^m, m = -k *)
    apply Z.leb_le in E. injection Ew as <-. rewrite q_pow_pair. unfold fr_deq, G. cbn [fst snd].
    set (m := Z.to_nat (- k)).
    replace (Z.to_nat (K - k)) with (Z.to_nat K + m)%nat by lia.
    replace (Z.to_nat K) with (Z.to_nat (K + k) + m)%nat in HS at 2 by lia.
    pose proof (pow_spec_add N (Z.to_nat K) m NDN) as A1.
    pose proof (pow_spec_add D (Z.to_nat (K + k)) m NDD) as A2.
    pose proof (proj1 (wf_pow_spec N m)). pose proof (proj1 (wf_pow_spec D m)).
    pose proof (proj1 (wf_pow_spec N (Z.to_nat K))). pose proof (proj1 (wf_pow_spec D (Z.to_nat (K + k)))).
    pose proof (proj1 (wf_pow_spec N (Z.to_nat K + m))). pose proof (proj1 (wf_pow_spec D (Z.to_nat (K + k) + m))).
    pose proof (proj1 (wf_DEN K)).
    lift_hyp HS. lift_hyp A1. lift_hyp A2. lift_goal. rewrite HS, A1, A2. ring.
  - (* k > 0 : (1/g)^k *)
    apply Z.leb_gt in E. destruct (is_zero N) eqn:Ez; [discriminate|]. injection Ew as <-.
    unfold q_inv. cbn [fst snd]. rewrite q_pow_pair. unfold fr_deq, G. cbn [fst snd].
    replace (Z.to_nat (- - k)) with (Z.to_nat k) by lia. set (m := Z.to_nat k).
    replace (Z.to_nat (K + k)) with (Z.to_nat K + m)%nat by lia.
    replace (Z.to_nat K) with (Z.to_nat (K - k) + m)%nat in HS at 1 by lia.
    pose proof (pow_spec_add D (Z.to_nat K) m NDD) as A1.
    pose proof (pow_spec_add N (Z.to_nat (K - k)) m NDN) as A2.
    pose proof (proj1 (wf_pow_spec N m)). pose proof (proj1 (wf_pow_spec D m)).
    pose proof (proj1 (wf_pow_spec D (Z.to_nat K))). pose proof (proj1 (wf_pow_spec N (Z.to_nat (K - k)))).
    pose proof (proj1 (wf_pow_spec D (Z.to_nat K + m))). pose proof (proj1 (wf_pow_spec N (Z.to_nat (K - k) + m))).
    pose proof (proj1 (wf_DEN K)).
    lift_hyp HS. lift_hyp A1. lift_hyp A2. lift_goal. rewrite HS, A1, A2. ring.
Qed.

(* ------------------------------------------------------------------ the sum over the common denominator *)
Definition pdot_step (K : Z) (acc : poly) (e : Z * Qc) : poly := padd acc (pmul (pconst (snd e)) (G K (fst e))).
Definition pdot (K : Z) (l : list (Z * Qc)) (A : poly) : poly := fold_left (pdot_step K) l A.
Definition PK (K : Z) (p : poly) : poly := pdot K (sort_asc p) [].

Lemma wf_pdot K l : forall A, wf A -> wf (pdot K l A).
Proof. induction l as [|e l IH]; intros A WA; simpl; [exact WA|]. apply IH. apply wf_padd. Qed.

Lemma q_zpow_wf t k w : fr_wf t -> q_zpow t k = Some w -> fr_wf w.
Proof.
  intros Wt E. unfold q_zpow in E. destruct (0 <=? k)%Z; [injection E as <-; apply fr_wf_pow|].
  destruct (is_zero (fst t)); [discriminate|]. injection E as <-. apply fr_wf_pow.
Qed.

Lemma fold_none l t : fold_left (q_at_step t) l None = None.
Proof. induction l as [|e l IH]; simpl; [reflexivity|exact IH]. Qed.

Lemma step_identity A d c g : NoDupKeys A -> NoDupKeys d -> NoDupKeys g ->
  fr_deq (q_add (A, d) (q_mul (q_const c) (g, d))) (padd A (pmul (pconst c) g), d).
Proof. intros HA Hd Hg. unfold fr_deq, q_add, q_mul, q_const. cbn [fst snd]. poly_ring. Qed.

Lemma q_at_fold K l : (forall e, In e l -> (- K <= fst e <= K)%Z) ->
  forall acc A r, fr_wf acc -> wf A -> fr_deq acc (A, DEN K) ->
  fold_left (q_at_step (N, D)) l (Some acc) = Some r ->
  fr_wf r /\ fr_deq r (pdot K l A, DEN K).
Proof.
  induction l as [|[k c] l IH]; intros Hl acc A r Wacc WA Hacc Er; cbn [fold_left] in Er.
  - injection Er as <-. split; [exact Wacc|exact Hacc].
  - remember (q_at_step (N, D) (Some acc) (k, c)) as s1 eqn:Es1. unfold q_at_step in Es1. cbn [fst snd] in Es1.
    destruct (q_zpow (N, D) (- k)) as [w|] eqn:Ew; [|subst s1; rewrite fold_none in Er; discriminate].
    subst s1. pose proof (q_zpow_wf (N, D) _ _ (conj WN WD) Ew) as Ww.
    pose proof (zpow_frac K k w (Hl (k, c) (or_introl eq_refl)) Ew) as Hw.
    apply (IH (fun e He => Hl e (or_intror He)) (q_add acc (q_mul (q_const c) w)) (pdot_step K A (k, c)) r);
      [apply fr_wf_add|apply wf_padd| |exact Er].
    unfold pdot_step. cbn [fst snd].
    apply (fr_deq_trans _ (q_add (A, DEN K) (q_mul (q_const c) (G K k, DEN K))) _).
    + apply fr_wf_add.
    + apply fr_wf_add.
    + split; [apply wf_padd|apply wf_DEN].
    + cbn [q_add q_mul q_const fst snd]. apply pmul_nonzero; [apply wf_DEN|apply wf_pmul|apply DEN_nonzero|].
      apply pmul_nonzero; [apply wf_pconst|apply wf_DEN|apply (wf_pconst_nz 0)|apply DEN_nonzero].
    + apply q_add_compat; try assumption.
      * split; [exact WA|apply wf_DEN].
      * apply fr_wf_mul.
      * apply fr_wf_mul.
      * apply q_mul_compat; try apply fr_wf_const; try assumption.
        -- split; [apply wf_G|apply wf_DEN].
        -- unfold fr_deq. apply deq_refl.
    + apply step_identity; [apply WA|apply wf_DEN|apply wf_G].
Qed.

Lemma sort_asc_perm p : Permutation (sort_asc p) p.
Proof. apply sort_by_perm. Qed.

Definition bounded (K : Z) (p : poly) : Prop := forall k, In k (keys p) -> (- K <= k <= K)%Z.

(* evaluation at z := N/D over the common denominator *)
Lemma q_at_PK K p u : bounded K p -> q_at p (N, D) = Some u -> fr_wf u /\ fr_deq u (PK K p, DEN K).
Proof.
  intros Hb Eu. unfold q_at in Eu. unfold PK.
  apply (q_at_fold K (sort_asc p)) with (acc := q_const 0); [|apply fr_wf_const|apply wf_nil| |exact Eu].
  - intros e He. apply Hb. apply (Permutation_in _ (sort_asc_perm p)) in He.
    unfold keys. apply in_map. exact He.
  - unfold fr_deq, q_const. cbn [fst snd]. replace (pconst 0) with (@nil (Z * Qc)) by (vm_compute; reflexivity).
    pose proof (proj1 (wf_DEN K)). poly_ring.
Qed.

Lemma q_zpow_some k : exists w, q_zpow (N, D) k = Some w.
Proof.
  unfold q_zpow. destruct (0 <=? k)%Z; [eexists; reflexivity|]. cbn [fst].
  destruct N; [congruence|]. simpl. eexists. reflexivity.
Qed.
Lemma q_at_some p : exists u, q_at p (N, D) = Some u.
Proof.
  unfold q_at. generalize (q_const 0). induction (sort_asc p) as [|e l IH]; intro a; cbn [fold_left].
  - eexists. reflexivity.
  - change (q_at_step (N, D) (Some a) e)
      with (match q_zpow (N, D) (- fst e) with
            | Some t0 => Some (q_add a (q_mul (q_const (snd e)) t0)) | None => None end).
    destruct (q_zpow_some (- fst e)) as (w & ->). apply IH.
Qed.

(* ------------------------------------------------------------------ the sum is linear in p ... *)
Lemma dot_pdot K l : forall A F, wf A ->
  dot (pdot K l A) F = dot A F + dot l (fun k => dot (G K k) F).
Proof.
  induction l as [|[k c] l IH]; intros A F WA; simpl.
  - ring.
  - rewrite IH by apply wf_padd. unfold pdot_step. cbn [fst snd].
    rewrite dot_padd by (apply WA || apply wf_pmul). rewrite dot_pmul, dot_pconst.
    assert (dot (G K k) (fun j => F (0 + j)%Z) = dot (G K k) F) as -> by (apply dot_ext; intro j; f_equal; lia).
    ring.
Qed.
Lemma dot_PK K p F : dot (PK K p) F = dot p (fun k => dot (G K k) F).
Proof.
  unfold PK. rewrite dot_pdot by apply wf_nil. simpl. rewrite (dot_perm _ _ _ (sort_asc_perm p)). ring.
Qed.
Lemma wf_PK K p : wf (PK K p). Proof. unfold PK. apply (wf_pdot K (sort_asc p) []). apply wf_nil. Qed.
Lemma PK_deq K p p' : deq p p' -> deq (PK K p) (PK K p').
Proof. intros H F. rewrite !dot_PK. apply H. Qed.

(* ... and multiplicative *)
Lemma G_mul K i j : (- K <= i <= K)%Z -> (- K <= j <= K)%Z -> deq (G (2 * K) (i + j)) (pmul (G K i) (G K j)).
Proof.
  intros Hi Hj. unfold G.
  replace (Z.to_nat (2 * K + (i + j))) with (Z.to_nat (K + i) + Z.to_nat (K + j))%nat by lia.
  replace (Z.to_nat (2 * K - (i + j))) with (Z.to_nat (K - i) + Z.to_nat (K - j))%nat by lia.
  pose proof (pow_spec_add D (Z.to_nat (K + i)) (Z.to_nat (K + j)) NDD) as A1.
  pose proof (pow_spec_add N (Z.to_nat (K - i)) (Z.to_nat (K - j)) NDN) as A2.
  pose proof (proj1 (wf_pow_spec D (Z.to_nat (K + i)))). pose proof (proj1 (wf_pow_spec D (Z.to_nat (K + j)))).
  pose proof (proj1 (wf_pow_spec N (Z.to_nat (K - i)))). pose proof (proj1 (wf_pow_spec N (Z.to_nat (K - j)))).
  pose proof (proj1 (wf_pow_spec D (Z.to_nat (K + i) + Z.to_nat (K + j)))).
  pose proof (proj1 (wf_pow_spec N (Z.to_nat (K - i) + Z.to_nat (K - j)))).
  lift_hyp A1. lift_hyp A2. lift_goal. rewrite A1, A2. ring.
Qed.
Lemma DEN_mul K : deq (DEN (2 * K)) (pmul (DEN K) (DEN K)).
Proof.
  unfold DEN. replace (Z.to_nat (2 * K)) with (Z.to_nat K + Z.to_nat K)%nat by lia.
  apply pow_spec_add. apply wf_pmul.
Qed.

Lemma PK_mul K p q : bounded K p -> bounded K q -> deq (PK (2 * K) (pmul p q)) (pmul (PK K p) (PK K q)).
Proof.
  intros Bp Bq F. rewrite dot_PK, !dot_pmul, dot_PK.
  apply dot_ext_in. intros i Hi.
  transitivity (dot q (fun j => dot (G K i) (fun a => dot (G K j) (fun b => F (a + b)%Z)))).
  - apply dot_ext_in. intros j Hj. rewrite (G_mul K i j (Bp i Hi) (Bq j Hj) F). apply dot_pmul.
  - rewrite dot_swap. apply dot_ext. intro a. rewrite dot_PK. reflexivity.
Qed.
End Hom.

(* ------------------------------------------------------------------ a bound on the powers *)
Definition kbound (p : poly) : Z := fold_right (fun e m => Z.max m (Z.abs (fst e))) 0%Z p.
Lemma kbound_bounded p : bounded (kbound p) p.
Proof.
  induction p as [|[k c] r IH]; intros j Hj; [destruct Hj|]. simpl in Hj. simpl kbound. destruct Hj as [E|Hj].
  - subst. lia.
  - specialize (IH j Hj). lia.
Qed.
Lemma bounded_mono K K' p : (K <= K')%Z -> bounded K p -> bounded K' p.
Proof. intros HK H k Hk. specialize (H k Hk). lia. Qed.

Lemma fr_deq_sym a b : fr_deq a b -> fr_deq b a.
Proof. unfold fr_deq. apply deq_sym. Qed.

(* a fraction with non-zero numerator stays so under ~ *)
Lemma fr_deq_num_nz a b : fr_wf a -> fr_wf b -> snd b <> [] -> fst a <> [] -> fr_deq a b -> fst b <> [].
Proof.
  intros [Wa1 Wa2] [Wb1 Wb2] Hb Ha H E. unfold fr_deq in H. rewrite E in H.
  assert (pmul [] (snd a) = []) as E0 by reflexivity. rewrite E0 in H.
  apply deq_nil_eq in H; [|apply wf_pmul]. revert H. apply pmul_nonzero; assumption.
Qed.

(* evaluation at t respects cross-multiplication: n/d ~ n'/d'  ==>  n(t)/d(t) ~ n'(t)/d'(t) *)
Theorem q_at_respects t nf df ns ds u' v' u v :
  fr_wf t -> fst t <> [] -> snd t <> [] -> wf nf -> wf df -> wf ns -> wf ds ->
  deq (pmul nf ds) (pmul ns df) ->
  q_at nf t = Some u' -> q_at df t = Some v' -> q_at ns t = Some u -> q_at ds t = Some v ->
  fst v' <> [] -> fst v <> [] -> fr_deq (q_div u' v') (q_div u v).
Proof.
  destruct t as [N D]. cbn [fst snd]. intros [WN WD] HN HD Wnf Wdf Wns Wds E Eu' Ev' Eu Ev Hv' Hv.
  cbn [fst snd] in WN, WD.
  set (K := Z.max (Z.max (kbound nf) (kbound df)) (Z.max (kbound ns) (kbound ds))).
  assert (bounded K nf) as Bnf by (apply (bounded_mono (kbound nf)); [lia|apply kbound_bounded]).
  assert (bounded K df) as Bdf by (apply (bounded_mono (kbound df)); [lia|apply kbound_bounded]).
  assert (bounded K ns) as Bns by (apply (bounded_mono (kbound ns)); [lia|apply kbound_bounded]).
  assert (bounded K ds) as Bds by (apply (bounded_mono (kbound ds)); [lia|apply kbound_bounded]).
  destruct (q_at_PK N D WN WD HN HD K nf u' Bnf Eu') as [Wu' Hu'].
  destruct (q_at_PK N D WN WD HN HD K df v' Bdf Ev') as [Wv' Hv''].
  destruct (q_at_PK N D WN WD HN HD K ns u Bns Eu) as [Wu Hu].
  destruct (q_at_PK N D WN WD HN HD K ds v Bds Ev) as [Wv Hv0].
  set (d := DEN N D K) in *. set (A' := PK N D K nf) in *. set (B' := PK N D K df) in *.
  set (A := PK N D K ns) in *. set (B := PK N D K ds) in *.
  assert (wf d) as Wd by apply wf_DEN. assert (d <> []) as Hd by (apply DEN_nonzero; assumption).
  assert (wf A') as WA' by apply wf_PK. assert (wf B') as WB' by apply wf_PK.
  assert (wf A) as WA by apply wf_PK. assert (wf B) as WB by apply wf_PK.
  assert (deq (pmul A' B) (pmul A B')) as Hcross.
  { apply (deq_trans _ (PK N D (2 * K) (pmul nf ds))); [apply deq_sym; apply PK_mul; assumption|].
    apply (deq_trans _ (PK N D (2 * K) (pmul ns df))); [apply PK_deq; exact E|apply PK_mul; assumption]. }
  assert (B' <> []) as HB' by (apply (fr_deq_num_nz v' (B', d)); try assumption; split; assumption).
  assert (B <> []) as HB by (apply (fr_deq_num_nz v (B, d)); try assumption; split; assumption).
  apply (fr_deq_trans _ (q_div (A', d) (B', d)) _).
  - apply fr_wf_div; exact Wv'.
  - apply fr_wf_div; split; assumption.
  - apply fr_wf_div; exact Wv.
  - cbn [q_div q_mul q_inv fst snd]. apply pmul_nonzero; assumption.
  - apply q_div_compat; try assumption; split; assumption.
  - apply (fr_deq_trans _ (q_div (A, d) (B, d)) _).
    + apply fr_wf_div; split; assumption.
    + apply fr_wf_div; split; assumption.
    + apply fr_wf_div; exact Wv.
    + cbn [q_div q_mul q_inv fst snd]. apply pmul_nonzero; assumption.
    + unfold fr_deq, q_div, q_mul, q_inv. cbn [fst snd].
      pose proof (proj1 Wd). pose proof (proj1 WA'). pose proof (proj1 WB'). pose proof (proj1 WA). pose proof (proj1 WB).
      lift_hyp Hcross. lift_goal.
      match goal with |- weq (wmul (wmul ?a' ?dd) (wmul _ ?b)) (wmul (wmul ?a _) (wmul _ ?b')) =>
        transitivity (wmul (wmul a' b) (wmul dd dd)); [ring|]; rewrite Hcross; ring end.
    + apply q_div_compat; try assumption; try (split; assumption); apply fr_deq_sym; assumption.
Qed.

(* the sums have a non-zero denominator and well-formed parts *)
Lemma q_zpow_den_nz t k w : fr_wf t -> fst t <> [] -> snd t <> [] -> q_zpow t k = Some w -> snd w <> [].
Proof.
  intros Wt Hn Hd E. unfold q_zpow in E. destruct (0 <=? k)%Z.
  - injection E as <-. apply q_pow_den_nz; assumption.
  - destruct (is_zero (fst t)); [discriminate|]. injection E as <-.
    apply q_pow_den_nz; [apply fr_wf_inv; exact Wt|exact Hn].
Qed.
Lemma q_at_fold_ok t l : fr_wf t -> fst t <> [] -> snd t <> [] ->
  forall acc r, fr_wf acc -> snd acc <> [] -> fold_left (q_at_step t) l (Some acc) = Some r ->
  fr_wf r /\ snd r <> [].
Proof.
  intros Wt Hn Hd. induction l as [|e l IH]; intros acc r Wacc Hacc Er; cbn [fold_left] in Er.
  - injection Er as <-. split; assumption.
  - remember (q_at_step t (Some acc) e) as s1 eqn:Es1. unfold q_at_step in Es1.
    destruct (q_zpow t (- fst e)) as [w|] eqn:Ew; [|subst s1; rewrite fold_none in Er; discriminate].
    subst s1. apply (IH (q_add acc (q_mul (q_const (snd e)) w)) r); [apply fr_wf_add| |exact Er].
    cbn [q_add q_mul q_const fst snd]. apply pmul_nonzero; [apply Wacc|apply wf_pmul|exact Hacc|].
    apply pmul_nonzero; [apply wf_pconst|apply (q_zpow_wf t _ w Wt Ew)|apply (wf_pconst_nz 0)|
      apply (q_zpow_den_nz t _ w Wt Hn Hd Ew)].
Qed.
Lemma q_at_ok t p u : fr_wf t -> fst t <> [] -> snd t <> [] -> q_at p t = Some u -> fr_wf u /\ snd u <> [].
Proof.
  intros Wt Hn Hd E. unfold q_at in E.
  apply (q_at_fold_ok t (sort_asc p) Wt Hn Hd (q_const 0) u); [apply fr_wf_const|apply (wf_pconst_nz 0)|exact E].
Qed.

(* if f(g) evaluates, the denominator sum is not the zero function *)
Lemma fsubst_den_nz f g t h v' : R g t -> fsubst f g = Ok h -> q_at (fden f) t = Some v' -> fst v' <> [].
Proof.
  intros Rg Eh Ev. unfold fsubst in Eh.
  destruct (fsum g (fnum f)) as [a|] eqn:Ea; [|discriminate]. cbn [bind] in Eh.
  destruct (fsum g (fden f)) as [b|] eqn:Eb; [|discriminate]. cbn [bind] in Eh.
  pose proof (fsum_R g t _ b v' Rg Eb Ev) as Rb.
  destruct b as [fb|]; [|destruct a; discriminate]. simpl in Rb.
  assert (fnum fb <> []) as Hfb.
  { intro E0. destruct a as [fa|].
    - rewrite (fdiv_zero fa fb E0) in Eh. discriminate.
    - unfold sfdiv in Eh. destruct (fconst 0); [|discriminate]. cbn [bind] in Eh.
      rewrite (fdiv_zero _ fb E0) in Eh. discriminate. }
  destruct Rb as ((Wn & Wd & Hd) & Wv & Hv & E).
  apply (fr_deq_num_nz (fr_of fb) v'); try assumption. split; assumption.
Qed.

(* f(g), g <> 0, depends only on the rational function of f (and of g) *)
Theorem R_fsubst_full f g s t h u v : R f s -> R g t -> fst t <> [] -> fsubst f g = Ok h ->
  q_at (fst s) t = Some u -> q_at (snd s) t = Some v -> fst v <> [] -> R h (q_div u v).
Proof.
  intros Rf Rg Ht Eh Eu Ev Hv.
  pose proof Rg as (_ & Wt & Hdt & _).
  destruct t as [N D]. cbn [fst snd] in Ht, Hdt. pose proof Wt as [WN WD]. cbn [fst snd] in WN, WD.
  destruct (q_at_some N D WN Ht (fnum f)) as (u' & Eu'). destruct (q_at_some N D WN Ht (fden f)) as (v' & Ev').
  pose proof (fsubst_den_nz f g (N, D) h v' Rg Eh Ev') as Hv'.
  pose proof (R_fsubst f g (N, D) h u' v' Rg Eh Eu' Ev' Hv') as R1.
  destruct (q_at_ok (N, D) _ u Wt Ht Hdt Eu) as [Wu Hu]. destruct (q_at_ok (N, D) _ v Wt Ht Hdt Ev) as [Wv _].
  destruct Rf as ((Wnf & Wdf & _) & (Wns & Wds) & _ & E). unfold fr_deq, fr_of in E. cbn [fst snd] in E.
  apply (R_equiv _ _ _ R1).
  - apply fr_wf_div. exact Wv.
  - cbn [q_div q_mul q_inv fst snd]. apply pmul_nonzero; [apply Wu|apply Wv|exact Hu|exact Hv].
  - apply (q_at_respects (N, D) (fnum f) (fden f) (fst s) (snd s) u' v' u v); assumption.
Qed.
