(* C13 - first order sections: gain formulas, unit gain, monotonicity (generic in the pole). *)
From Coq Require Import Reals List Lra Psatz.
From Coquelicot Require Import Complex.
From AL Require Import C13.Model C13.Spec C13.Proofs_Base.
Import ListNotations.
Open Scope R_scope.

Lemma Rdiv_lt_cross a b c d : 0 < b -> 0 < d -> a * d < c * b -> a / b < c / d.
Proof.
  intros Hb Hd Hx.
  assert (E : a / b - c / d = (a * d - c * b) * / (b * d)) by (field; lra).
  assert (Hp : 0 < / (b * d)) by (apply Rinv_0_lt_compat; nra).
  apply Rminus_lt. rewrite E. nra.
Qed.

Lemma sq_pos g : g <> 0 -> 0 < g ^ 2.
Proof. intro Hg. assert (0 <= g ^ 2) by nra. destruct (Req_dec (g ^ 2) 0) as [E|E]; [|lra]. exfalso. apply Hg. nra. Qed.

Lemma cos_open w : 0 < w < PI -> -1 < cos w < 1.
Proof.
  intros [H0 H1]. split.
  - rewrite <- cos_PI. apply cos_decreasing_1; lra.
  - rewrite <- cos_0. apply cos_decreasing_1; lra.
Qed.

Lemma cos_range w : -1 <= cos w <= 1.
Proof. pose proof (COS_bound w). lra. Qed.

Lemma cos_strict_dec w1 w2 : 0 <= w1 -> w1 < w2 -> w2 <= PI -> cos w2 < cos w1.
Proof. intros. apply cos_decreasing_1; lra. Qed.

Lemma gain_sq_onepole g k w : Rabs k < 1 ->
  gain (Filt [g] [1; k]) w ^ 2 = g ^ 2 / (1 + 2 * k * cos w + k ^ 2).
Proof.
  intro Hk. rewrite gain_sq by (apply ord1_nonzero_on_circle; exact Hk).
  cbn [fnum fden]. rewrite n2_ord0, n2_ord1. f_equal. ring.
Qed.

Lemma gain_sq_onezero g h k w : Rabs k < 1 ->
  gain (Filt [g; h] [1; k]) w ^ 2 = (g ^ 2 + 2 * g * h * cos w + h ^ 2) / (1 + 2 * k * cos w + k ^ 2).
Proof.
  intro Hk. rewrite gain_sq by (apply ord1_nonzero_on_circle; exact Hk).
  cbn [fnum fden]. rewrite !n2_ord1. f_equal. ring.
Qed.

(* unit gain at DC (w = 0) and at Nyquist (w = PI) *)
Lemma onepole_dc g k : Rabs k < 1 -> g = 1 + k -> gain (Filt [g] [1; k]) 0 = 1.
Proof.
  intros Hk Hg. apply gain_eq_1. rewrite gain_sq_onepole by exact Hk. rewrite cos_0. subst g.
  apply Rabs_def2 in Hk. field. nra.
Qed.

Lemma onepole_nyquist g k : Rabs k < 1 -> g = 1 - k -> gain (Filt [g] [1; k]) PI = 1.
Proof.
  intros Hk Hg. apply gain_eq_1. rewrite gain_sq_onepole by exact Hk. rewrite cos_PI. subst g.
  apply Rabs_def2 in Hk. field. nra.
Qed.

Lemma onezero_dc g k : Rabs k < 1 -> g = (1 + k) / 2 -> gain (Filt [g; g] [1; k]) 0 = 1.
Proof.
  intros Hk Hg. apply gain_eq_1. rewrite gain_sq_onezero by exact Hk. rewrite cos_0. subst g.
  apply Rabs_def2 in Hk. field. nra.
Qed.

Lemma onezero_nyquist g k : Rabs k < 1 -> g = (1 - k) / 2 -> gain (Filt [g; - g] [1; k]) PI = 1.
Proof.
  intros Hk Hg. apply gain_eq_1. rewrite gain_sq_onezero by exact Hk. rewrite cos_PI. subst g.
  apply Rabs_def2 in Hk. field. nra.
Qed.

(* monotone magnitude: the squared gain is a strictly monotone function of cos w *)
Lemma onepole_decreasing g k : -1 < k < 0 -> g <> 0 -> gain_decreasing (Filt [g] [1; k]).
Proof.
  intros Hk Hg w1 w2 H0 H12 Hpi. assert (Hak : Rabs k < 1) by (apply Rabs_def1; lra).
  apply gain_lt. rewrite !gain_sq_onepole by exact Hak.
  pose proof (cos_strict_dec w1 w2 H0 H12 Hpi) as Hc.
  pose proof (cos_range w1) as R1. pose proof (cos_range w2) as R2.
  pose proof (ord1_den_pos k (cos w1) Hak R1) as D1. pose proof (ord1_den_pos k (cos w2) Hak R2) as D2.
  assert (Hg2 : 0 < g ^ 2) by (apply sq_pos; exact Hg).
  apply Rdiv_lt_cross; try assumption.
  assert (Hkc : k * cos w1 < k * cos w2) by nra.
  apply Rmult_lt_compat_l; lra.
Qed.

Lemma onepole_increasing g k : 0 < k < 1 -> g <> 0 -> gain_increasing (Filt [g] [1; k]).
Proof.
  intros Hk Hg w1 w2 H0 H12 Hpi. assert (Hak : Rabs k < 1) by (apply Rabs_def1; lra).
  apply gain_lt. rewrite !gain_sq_onepole by exact Hak.
  pose proof (cos_strict_dec w1 w2 H0 H12 Hpi) as Hc.
  pose proof (cos_range w1) as R1. pose proof (cos_range w2) as R2.
  pose proof (ord1_den_pos k (cos w1) Hak R1) as D1. pose proof (ord1_den_pos k (cos w2) Hak R2) as D2.
  assert (Hg2 : 0 < g ^ 2) by (apply sq_pos; exact Hg).
  apply Rdiv_lt_cross; try assumption.
  assert (Hkc : k * cos w2 < k * cos w1) by nra.
  apply Rmult_lt_compat_l; lra.
Qed.

Lemma onezero_decreasing g k : Rabs k < 1 -> g <> 0 -> gain_decreasing (Filt [g; g] [1; k]).
Proof.
  intros Hak Hg w1 w2 H0 H12 Hpi.
  apply gain_lt. rewrite !gain_sq_onezero by exact Hak.
  pose proof (cos_strict_dec w1 w2 H0 H12 Hpi) as Hc.
  pose proof (cos_range w1) as R1. pose proof (cos_range w2) as R2.
  pose proof (ord1_den_pos k (cos w1) Hak R1) as D1. pose proof (ord1_den_pos k (cos w2) Hak R2) as D2.
  assert (Hg2 : 0 < g ^ 2) by (apply sq_pos; exact Hg).
  apply Rabs_def2 in Hak. destruct Hak as [Hk1 Hk2].
  apply Rdiv_lt_cross; try assumption.
  (* difference = 2 g^2 (c1 - c2) (1 - k)^2 *)
  assert (E : (g ^ 2 + 2 * g * g * cos w1 + g ^ 2) * (1 + 2 * k * cos w2 + k ^ 2)
            - (g ^ 2 + 2 * g * g * cos w2 + g ^ 2) * (1 + 2 * k * cos w1 + k ^ 2)
            = 2 * g ^ 2 * ((cos w1 - cos w2) * (1 - k) ^ 2)) by ring.
  assert (Hp : 0 < (cos w1 - cos w2) * (1 - k) ^ 2) by (apply Rmult_lt_0_compat; nra).
  nra.
Qed.

Lemma onezero_increasing g k : Rabs k < 1 -> g <> 0 -> gain_increasing (Filt [g; - g] [1; k]).
Proof.
  intros Hak Hg w1 w2 H0 H12 Hpi.
  apply gain_lt. rewrite !gain_sq_onezero by exact Hak.
  pose proof (cos_strict_dec w1 w2 H0 H12 Hpi) as Hc.
  pose proof (cos_range w1) as R1. pose proof (cos_range w2) as R2.
  pose proof (ord1_den_pos k (cos w1) Hak R1) as D1. pose proof (ord1_den_pos k (cos w2) Hak R2) as D2.
  assert (Hg2 : 0 < g ^ 2) by (apply sq_pos; exact Hg).
  apply Rabs_def2 in Hak. destruct Hak as [Hk1 Hk2].
  apply Rdiv_lt_cross; try assumption.
  assert (E : (g ^ 2 + 2 * g * - g * cos w2 + (- g) ^ 2) * (1 + 2 * k * cos w1 + k ^ 2)
            - (g ^ 2 + 2 * g * - g * cos w1 + (- g) ^ 2) * (1 + 2 * k * cos w2 + k ^ 2)
            = 2 * g ^ 2 * ((cos w1 - cos w2) * (1 + k) ^ 2)) by ring.
  assert (Hp : 0 < (cos w1 - cos w2) * (1 + k) ^ 2) by (apply Rmult_lt_0_compat; nra).
  nra.
Qed.

(* the pole of the high-precision `pole` strategies: r = x - sqrt(x^2 - 1), x > 1 *)
Lemma pole_R_props x : 1 < x ->
  let r := x - sqrt (x ^ 2 - 1) in 0 < r < 1 /\ r ^ 2 - 2 * r * x + 1 = 0.
Proof.
  intros Hx r. subst r. set (q := sqrt (x ^ 2 - 1)).
  assert (Hq0 : 0 <= q) by apply sqrt_pos.
  assert (Hqq : q * q = x ^ 2 - 1) by (apply sqrt_sqrt; nra).
  split; [split|]; nra.
Qed.
