(* C13 - closed forms of the gammatone.sampled numerator: the (eta-1)-fold application of
   num <- -z * (num.diff() * den - order * num * den.diff()) to num = n0 + n1 zinv over
   den = 1 + d1 zinv + d2 zinv^2, for eta = 2, 3, 4 (polynomial identities, proved by ring).
   Used by the enclosure goals of the first section: unfolding the iteration instead blows
   the term up exponentially. *)
From Coq Require Import Reals List.
From AL Require Import C13.Model.
Import ListNotations.
Open Scope R_scope.

Ltac sampled_closed :=
  cbv beta iota zeta delta [sampled_iter sampled_step mul_negz padd pscale pmul pddz pddz_from map tl INR];
  repeat (apply f_equal2; [ring|]); reflexivity.

Lemma sampled_closed_2 n0 n1 d1 d2 :
  sampled_iter [1; d1; d2] [n0; n1] 1 1 =
  [0;
   - n0 * d1 + n1;
   - 2 * n0 * d2;
   - n1 * d2].
Proof. sampled_closed. Qed.

Lemma sampled_closed_3 n0 n1 d1 d2 :
  sampled_iter [1; d1; d2] [n0; n1] 1 2 =
  [0;
   - n0 * d1 + n1;
   n0 * d1 ^ 2 - 4 * n0 * d2 - n1 * d1;
   3 * n0 * d1 * d2 - 6 * n1 * d2;
   4 * n0 * d2 ^ 2 - n1 * d1 * d2;
   n1 * d2 ^ 2].
Proof. sampled_closed. Qed.

Lemma sampled_closed_4 n0 n1 d1 d2 :
  sampled_iter [1; d1; d2] [n0; n1] 1 3 =
  [0;
   - n0 * d1 + n1;
   4 * n0 * d1 ^ 2 - 8 * n0 * d2 - 4 * n1 * d1;
   - n0 * d1 ^ 3 + 18 * n0 * d1 * d2 + n1 * d1 ^ 2 - 23 * n1 * d2;
   - 4 * n0 * d1 ^ 2 * d2 + 32 * n0 * d2 ^ 2;
   - 5 * n0 * d1 * d2 ^ 2 - n1 * d1 ^ 2 * d2 + 23 * n1 * d2 ^ 2;
   - 8 * n0 * d2 ^ 3 + 4 * n1 * d1 * d2 ^ 2;
   - n1 * d2 ^ 3].
Proof. sampled_closed. Qed.

