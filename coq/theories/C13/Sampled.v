(* C13 - closed forms of the gammatone.sampled numerator: the (eta-1)-fold application of
   num <- -z * (num.diff() * den - order * num * den.diff()) to num = n0 + n1 zinv over
   den = 1 + d1 zinv + d2 zinv^2, for eta = 2 .. 6 (polynomial identities; eta = 1 is the
   identity: no iteration, proved by ring).
   Used by the enclosure goals of the first section: unfolding the iteration instead blows
   the term up exponentially. *)
From Coq Require Import Reals List Arith.
From AL Require Import C13.Model.
Import ListNotations.
Open Scope R_scope.

Ltac sampled_closed :=
  cbv beta iota zeta delta [sampled_iter sampled_step mul_negz padd pscale pmul pddz pddz_from map tl INR];
  repeat (apply f_equal2; [ring|]); reflexivity.

(* the last iteration can be peeled off: each closed form follows from the previous one by ONE
   step (unfolding k nested steps at once is exponential in k) *)
Lemma sampled_iter_last den : forall n num o,
  sampled_iter den num o (S n) = sampled_step den (sampled_iter den num o n) (o + n).
Proof.
  induction n as [|m IH]; intros num o.
  - cbn [sampled_iter]. rewrite Nat.add_0_r. reflexivity.
  - change (sampled_iter den num o (S (S m))) with (sampled_iter den (sampled_step den num o) (S o) (S m)).
    rewrite IH. cbn [sampled_iter]. rewrite Nat.add_succ_r. reflexivity.
Qed.

Lemma sampled_closed_2 n0 n1 d1 d2 :
  sampled_iter [1; d1; d2] [n0; n1] 1 1 =
  [0;
   - n0 * d1 + n1;
   - 2 * n0 * d2;
   - n1 * d2].
Proof. sampled_closed. Qed.

Lemma sampled_closed_3 n0 n1 d1 d2 :
  sampled_iter [1; d1; d2] [n0; n1] 1 2 =
  [0;
   - n0 * d1 + n1;
   n0 * d1 ^ 2 - 4 * n0 * d2 - n1 * d1;
   3 * n0 * d1 * d2 - 6 * n1 * d2;
   4 * n0 * d2 ^ 2 - n1 * d1 * d2;
   n1 * d2 ^ 2].
Proof. rewrite sampled_iter_last, sampled_closed_2. cbv [Nat.add]. sampled_closed. Qed.

Lemma sampled_closed_4 n0 n1 d1 d2 :
  sampled_iter [1; d1; d2] [n0; n1] 1 3 =
  [0;
   - n0 * d1 + n1;
   4 * n0 * d1 ^ 2 - 8 * n0 * d2 - 4 * n1 * d1;
   - n0 * d1 ^ 3 + 18 * n0 * d1 * d2 + n1 * d1 ^ 2 - 23 * n1 * d2;
   - 4 * n0 * d1 ^ 2 * d2 + 32 * n0 * d2 ^ 2;
   - 5 * n0 * d1 * d2 ^ 2 - n1 * d1 ^ 2 * d2 + 23 * n1 * d2 ^ 2;
   - 8 * n0 * d2 ^ 3 + 4 * n1 * d1 * d2 ^ 2;
   - n1 * d2 ^ 3].
Proof. rewrite sampled_iter_last, sampled_closed_3. cbv [Nat.add]. sampled_closed. Qed.

Lemma sampled_closed_5 n0 n1 d1 d2 :
  sampled_iter [1; d1; d2] [n0; n1] 1 4 =
  [0;
   - n0 * d1 + n1;
   11 * n0 * d1 ^ 2 - 16 * n0 * d2 - 11 * n1 * d1;
   - 11 * n0 * d1 ^ 3 + 77 * n0 * d1 * d2 + 11 * n1 * d1 ^ 2 - 76 * n1 * d2;
   n0 * d1 ^ 4 - 58 * n0 * d1 ^ 2 * d2 + 176 * n0 * d2 ^ 2 - n1 * d1 ^ 3 + 47 * n1 * d1 * d2;
   5 * n0 * d1 ^ 3 * d2 - 115 * n0 * d1 * d2 ^ 2 - 10 * n1 * d1 ^ 2 * d2 + 230 * n1 * d2 ^ 2;
   11 * n0 * d1 ^ 2 * d2 ^ 2 - 176 * n0 * d2 ^ 3 - n1 * d1 ^ 3 * d2 + 47 * n1 * d1 * d2 ^ 2;
   - n0 * d1 * d2 ^ 3 + 11 * n1 * d1 ^ 2 * d2 ^ 2 - 76 * n1 * d2 ^ 3;
   16 * n0 * d2 ^ 4 - 11 * n1 * d1 * d2 ^ 3;
   n1 * d2 ^ 4].
Proof. rewrite sampled_iter_last, sampled_closed_4. cbv [Nat.add]. sampled_closed. Qed.

Lemma sampled_closed_6 n0 n1 d1 d2 :
  sampled_iter [1; d1; d2] [n0; n1] 1 5 =
  [0;
   - n0 * d1 + n1;
   26 * n0 * d1 ^ 2 - 32 * n0 * d2 - 26 * n1 * d1;
   - 66 * n0 * d1 ^ 3 + 288 * n0 * d1 * d2 + 66 * n1 * d1 ^ 2 - 237 * n1 * d2;
   26 * n0 * d1 ^ 4 - 474 * n0 * d1 ^ 2 * d2 + 832 * n0 * d2 ^ 2 - 26 * n1 * d1 ^ 3 + 428 * n1 * d1 * d2;
   - n0 * d1 ^ 5 + 160 * n0 * d1 ^ 3 * d2 - 1290 * n0 * d1 * d2 ^ 2 + n1 * d1 ^ 4 - 174 * n1 * d1 ^ 2 * d2 + 1682 * n1 * d2 ^ 2;
   - 6 * n0 * d1 ^ 4 * d2 + 414 * n0 * d1 ^ 2 * d2 ^ 2 - 2112 * n0 * d2 ^ 3;
   - 14 * n0 * d1 ^ 3 * d2 ^ 2 + 392 * n0 * d1 * d2 ^ 3 - n1 * d1 ^ 4 * d2 + 174 * n1 * d1 ^ 2 * d2 ^ 2 - 1682 * n1 * d2 ^ 3;
   - 46 * n0 * d1 ^ 2 * d2 ^ 3 + 832 * n0 * d2 ^ 4 + 26 * n1 * d1 ^ 3 * d2 ^ 2 - 428 * n1 * d1 * d2 ^ 3;
   51 * n0 * d1 * d2 ^ 4 - 66 * n1 * d1 ^ 2 * d2 ^ 3 + 237 * n1 * d2 ^ 4;
   - 32 * n0 * d2 ^ 5 + 26 * n1 * d1 * d2 ^ 4;
   - n1 * d2 ^ 5].
Proof. rewrite sampled_iter_last, sampled_closed_5. cbv [Nat.add]. sampled_closed. Qed.

