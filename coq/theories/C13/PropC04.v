(* C13 - proved statements, part 3: model-to-model tie with C04.
   The direct-form recursion [run] that the comb theorems of Prop2.v speak about is, on the comb
   coefficient lists, exactly the output of C04's model of LinearFilter.__call__ (C04.Model.run_filter:
   code generator + interpreter of the generated loop), with no memory and zero value 0.
   Hence C13_comb_fb_recurrence / C13_comb_ff_recurrence are statements about what C04's filter
   call computes on comb.fb(delay, alpha) / comb.ff(delay, alpha). *)
From Coq Require Import List Arith QArith Qcanon.
From AL Require C04.Model.
From AL Require Import C13.Model C13.Spec C13.ProofsC04 C13.Proofs_Comb.
Import ListNotations.
Open Scope Qc_scope.

Theorem C13_comb_run_is_c04_filter : forall delay alpha xs,
  ((1 <= delay)%nat ->
   AL.C04.Model.run_filter (qnum (comb_fb delay alpha)) (qden (comb_fb delay alpha)) AL.C04.Model.MNone 0 xs
   = AL.C04.Model.Ok (run (comb_fb delay alpha) xs)) /\
  AL.C04.Model.run_filter (qnum (comb_ff delay alpha)) (qden (comb_ff delay alpha)) AL.C04.Model.MNone 0 xs
  = AL.C04.Model.Ok (run (comb_ff delay alpha) xs).
Proof.
  intros delay alpha xs.
  exact (conj (comb_fb_is_c04_filter delay alpha xs) (comb_ff_is_c04_filter delay alpha xs)).
Qed.
Print Assumptions C13_comb_run_is_c04_filter.

(* so the recurrences hold for the output of C04's filter call itself *)
Theorem C13_c04_filter_comb_recurrences : forall delay alpha xs ys,
  ((1 <= delay)%nat ->
   AL.C04.Model.run_filter (qnum (comb_fb delay alpha)) (qden (comb_fb delay alpha)) AL.C04.Model.MNone 0 xs
   = AL.C04.Model.Ok ys -> fb_recurrence delay alpha xs ys) /\
  (AL.C04.Model.run_filter (qnum (comb_ff delay alpha)) (qden (comb_ff delay alpha)) AL.C04.Model.MNone 0 xs
   = AL.C04.Model.Ok ys -> ff_recurrence delay alpha xs ys).
Proof. exact c04_filter_comb_recurrences. Qed.
Print Assumptions C13_c04_filter_comb_recurrences.
