(* C13 - gammatone sections: abs(freq_response) as the library computes it is the modulus
   of the transfer function; a section divided by its own gain has unit gain; all
   sections share the stable denominator 1 - 2 A cos(freq) zinv + A^2 zinv^2. *)
From Coq Require Import Reals List Lra Psatz.
From Coquelicot Require Import Complex.
From AL Require Import C13.Model C13.Spec C13.Proofs_Base C13.Proofs_Ord1 C13.Proofs_LPHP C13.Proofs_Ord2
  C13.Proofs_Reson C13.Proofs_Reson2.
Import ListNotations.
Open Scope R_scope.

Lemma cis_mult a b : Cmult (cis a) (cis b) = cis (a + b).
Proof. unfold cis, Cmult. cbn [fst snd]. rewrite cos_plus, sin_plus. f_equal; ring. Qed.

(* sum_k a_k e^{-j(k0+k)w} computed by Horner = the trigonometric sums of the model *)
Lemma ceval_trig p w : forall k,
  Cmult (cis (- (INR k * w))) (ceval p (cis (- w))) = (ev_re_from k p w, ev_im_from k p w).
Proof.
  induction p as [|a r IH]; intro k; cbn [ceval ev_re_from ev_im_from].
  - unfold Cmult, RtoC. cbn [fst snd]. f_equal; ring.
  - specialize (IH (S k)).
    replace (Cmult (cis (- (INR k * w))) (Cplus (RtoC a) (Cmult (cis (- w)) (ceval r (cis (- w))))))
      with (Cplus (Cmult (cis (- (INR k * w))) (RtoC a))
                  (Cmult (Cmult (cis (- (INR k * w))) (cis (- w))) (ceval r (cis (- w))))) by ring.
    rewrite cis_mult. replace (- (INR k * w) + - w) with (- (INR (S k) * w)) by (rewrite S_INR; ring).
    rewrite IH. unfold Cplus, Cmult, RtoC, cis. cbn [fst snd]. rewrite cos_neg, sin_neg. f_equal; ring.
Qed.

Lemma nrm2_eq_n2 p w : nrm2 p w = n2 (ceval p (cis (- w))).
Proof.
  pose proof (ceval_trig p w 0) as E. cbn [INR] in E.
  replace (- (0 * w)) with 0 in E by ring.
  assert (E1 : Cmult (cis 0) (ceval p (cis (- w))) = ceval p (cis (- w))).
  { unfold cis. rewrite cos_0, sin_0. unfold Cmult. cbn [fst snd].
    destruct (ceval p (cis (- w))) as [x y]. cbn [fst snd]. apply injective_projections; cbn [fst snd]; ring. }
  rewrite E1 in E. rewrite E. unfold nrm2, n2. cbn [fst snd]. reflexivity.
Qed.

(* abs(freq_response(w)) computed as |num| / |den| is the modulus of H(e^{-jw}) *)
Lemma gain_at_eq_gain f w : ceval (fden f) (cis (- w)) <> RtoC 0 -> gain_at f w = gain f w.
Proof.
  intro Hd. unfold gain_at, gain, freq_response, H. rewrite Cmod_div by exact Hd.
  rewrite !nrm2_eq_n2. reflexivity.
Qed.

Lemma ceval_scale k p z : ceval (map (fun c => c / k) p) z = Cmult (RtoC (/ k)) (ceval p z).
Proof.
  induction p as [|a r IH]; cbn [map ceval].
  - unfold Cmult, RtoC. cbn [fst snd]. f_equal; ring.
  - rewrite IH. unfold Rdiv. unfold Cplus, Cmult, RtoC. cbn [fst snd]. f_equal; ring.
Qed.

(* f / abs(f.freq_response(w)) has unit gain at w as soon as f's response at w is not 0 *)
Lemma normalize_unit_gain f w :
  ceval (fden f) (cis (- w)) <> RtoC 0 -> ceval (fnum f) (cis (- w)) <> RtoC 0 ->
  unit_gain_at (normalize f w) w.
Proof.
  intros Hd Hn. unfold unit_gain_at.
  assert (Hg : 0 < gain f w).
  { unfold gain, freq_response, H. rewrite Cmod_div by exact Hd.
    apply Rdiv_lt_0_compat; apply Cmod_gt_0; assumption. }
  unfold gain, freq_response, H, normalize. cbn [fnum fden].
  rewrite (gain_at_eq_gain f w Hd).
  rewrite ceval_scale. unfold Cdiv. rewrite <- Cmult_assoc. rewrite Cmod_mult.
  change (Cmod (Cmult (ceval (fnum f) (cis (- w))) (Cinv (ceval (fden f) (cis (- w)))))) with (gain f w).
  rewrite Cmod_R. rewrite Rabs_right by (apply Rle_ge; apply Rlt_le; apply Rinv_0_lt_compat; exact Hg).
  field. lra.
Qed.

Lemma normalize_stable f w : stable f -> stable (normalize f w).
Proof. intro Hs. exact Hs. Qed.

(* ------------------------------------------------------------ the denominator *)
Lemma gammatone_A_range bw : 0 < bw -> 0 < gammatone_A bw < 1.
Proof. intro Hb. unfold gammatone_A. apply exp_neg_range. exact Hb. Qed.

Lemma gammatone_den_stable num freq bw : 0 < bw -> stable (Filt num (gammatone_den freq bw)).
Proof.
  intro Hb. unfold gammatone_den. cbv zeta. apply stable_reson; [apply gammatone_A_range; exact Hb|].
  apply two_r_t_bound; [apply gammatone_A_range; exact Hb|apply cos_range].
Qed.

Lemma gammatone_den_nz num freq bw w : 0 < bw ->
  ceval (fden (Filt num (gammatone_den freq bw))) (cis (- w)) <> RtoC 0.
Proof. intro Hb. apply (gammatone_den_stable num freq bw Hb). apply cis_on_circle. Qed.

(* both poles of every section have modulus A = exp(-bandwidth) *)
Lemma gammatone_pole_radius num freq bw : 0 < bw ->
  poles_have_modulus (Filt num (gammatone_den freq bw)) (exp (- bw)).
Proof.
  intro Hb. pose proof (gammatone_A_range bw Hb). pose proof (cos_range freq).
  apply (poles_modulus_ord2 num (gammatone_A bw) (cos freq)); lra.
Qed.

(* 1 - k e^{-jw} is not 0 when sin w <> 0 *)
Lemma ord1_num_nz k w : sin w <> 0 -> ceval [1; - k] (cis (- w)) <> RtoC 0.
Proof.
  intros Hs Hz. assert (Him := f_equal snd Hz). rewrite cis_neg in Him. cbn [ceval] in Him.
  unfold Cplus, Cmult, RtoC in Him. cbn [fst snd] in Him.
  assert (Hre := f_equal fst Hz). rewrite cis_neg in Hre. cbn [ceval] in Hre.
  unfold Cplus, Cmult, RtoC in Hre. cbn [fst snd] in Hre.
  assert (Hks : k * sin w = 0) by (etransitivity; [|exact Him]; ring).
  assert (Hkc : 1 - k * cos w = 0) by (etransitivity; [|exact Hre]; ring).
  apply Rmult_integral in Hks. destruct Hks as [Hk|Hk]; [|contradiction]. subst k. lra.
Qed.

Lemma const_num_nz z : ceval [1] z <> RtoC 0.
Proof.
  intro Hz. assert (Hre := f_equal fst Hz). cbn [ceval] in Hre. unfold Cplus, Cmult, RtoC in Hre.
  cbn [fst snd] in Hre. lra.
Qed.

(* ------------------------------------------------------------------- slaney *)
Lemma gammatone_slaney_sections freq bw : 0 < freq < PI -> 0 < bw ->
  length (gammatone_slaney freq bw) = 4%nat /\
  Forall (fun f => stable f /\ unit_gain_at f freq /\ poles_have_modulus f (exp (- bw)))
         (gammatone_slaney freq bw).
Proof.
  intros Hf Hb. split; [reflexivity|]. unfold gammatone_slaney. apply Forall_forall. intros f Hin.
  apply in_map_iff in Hin. destruct Hin as [c [Hc _]]. subst f.
  assert (Hs : sin freq <> 0) by (apply Rgt_not_eq; apply sin_gt_0; lra).
  split; [|split].
  - apply normalize_stable. apply gammatone_den_stable. exact Hb.
  - apply normalize_unit_gain; [apply gammatone_den_nz; exact Hb|].
    unfold slaney_section. cbn [fnum]. apply ord1_num_nz. exact Hs.
  - apply gammatone_pole_radius. exact Hb.
Qed.

(* ------------------------------------------------------------------ klapuri *)
Lemma gammatone_klapuri_sections freq bw : 0 < freq < PI -> 0 < bw ->
  length (gammatone_klapuri freq bw) = 4%nat /\
  Forall (fun f => stable f /\ unit_gain_at f freq) (gammatone_klapuri freq bw).
Proof.
  intros Hf Hb. split; [reflexivity|]. unfold gammatone_klapuri. cbv zeta.
  assert (Hb2 : 0 < bw * 2) by lra.
  repeat constructor;
    first [ apply resonator_z_exp_stable; assumption | apply resonator_poles_exp_stable; assumption
          | apply resonator_z_exp_unit_gain; assumption | apply resonator_poles_exp_unit_gain; assumption ].
Qed.

(* ------------------------------------------------------------------ sampled *)
(* "if reachable": the first section is divided by its own gain, which must not be 0 *)
Lemma gammatone_sampled_sections freq bw phase eta : 0 < bw -> (1 <= eta)%nat ->
  length (gammatone_sampled freq bw phase eta) = eta /\
  Forall (fun f => stable f /\ poles_have_modulus f (exp (- bw))) (gammatone_sampled freq bw phase eta) /\
  Forall (fun f => unit_gain_at f freq) (tl (gammatone_sampled freq bw phase eta)) /\
  (ceval (sampled_num freq bw phase eta) (cis (- freq)) <> RtoC 0 ->
   unit_gain_at (hd (Filt [] []) (gammatone_sampled freq bw phase eta)) freq).
Proof.
  intros Hb He. unfold gammatone_sampled. cbv zeta. cbn [hd tl length]. rewrite repeat_length.
  split; [destruct eta; [inversion He|cbn; f_equal; apply Nat.sub_0_r]|].
  split; [|split].
  - constructor.
    + split; [apply normalize_stable; apply gammatone_den_stable; exact Hb|apply gammatone_pole_radius; exact Hb].
    + apply Forall_forall. intros f Hin. apply repeat_spec in Hin. subst f.
      split; [apply normalize_stable; apply gammatone_den_stable; exact Hb|apply gammatone_pole_radius; exact Hb].
  - apply Forall_forall. intros f Hin. apply repeat_spec in Hin. subst f.
    apply normalize_unit_gain; [apply gammatone_den_nz; exact Hb|cbn [fnum]; apply const_num_nz].
  - intro Hn. apply normalize_unit_gain; [apply gammatone_den_nz; exact Hb|exact Hn].
Qed.
