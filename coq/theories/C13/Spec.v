(* C13 - the documented contracts, stated on the transfer function (definitions only). *)
From Coq Require Import Reals List ZArith QArith Qcanon Arith.
From Coquelicot Require Import Complex.
From AL Require Import C13.Model.
Import ListNotations.

Section RealContracts.
Open Scope R_scope.

(* magnitude response: abs(filt.freq_response(w)) = |H(e^{-jw})| *)
Definition gain (f : filt) (w : R) : R := Cmod (freq_response f w).

Definition unit_gain_at (f : filt) (w : R) : Prop := gain f w = 1.
Definition half_power_at (f : filt) (w : R) : Prop := (gain f w) ^ 2 = 1 / 2.

(* monotone magnitude response over the whole band [0, pi] (strict) *)
Definition gain_decreasing (f : filt) : Prop :=
  forall w1 w2, 0 <= w1 -> w1 < w2 -> w2 <= PI -> gain f w2 < gain f w1.
Definition gain_increasing (f : filt) : Prop :=
  forall w1 w2, 0 <= w1 -> w1 < w2 -> w2 <= PI -> gain f w1 < gain f w2.

(* all poles strictly inside the unit circle: the denominator (a polynomial in
   zinv = 1/z) has no zero with |zinv| <= 1, i.e. no pole with |z| >= 1 *)
Definition stable (f : filt) : Prop :=
  forall zi : C, Cmod zi <= 1 -> ceval (fden f) zi <> RtoC 0.

(* p is a pole: a root of z^n * den(1/z), whose coefficient list is the reversed one *)
Definition is_pole (f : filt) (p : C) : Prop := ceval (rev (fden f)) p = RtoC 0.
Definition poles_have_modulus (f : filt) (r : R) : Prop :=
  (exists p, is_pole f p) /\ forall p, is_pole f p -> Cmod p = r.

End RealContracts.

Section CombSpec.
Open Scope Qc_scope.

(* y[n] = x[n] + alpha * y[n - delay]   (y[m] = 0 for m < 0) *)
Definition fb_recurrence (delay : nat) (alpha : Qc) (xs ys : list Qc) : Prop :=
  length ys = length xs /\
  forall n, (n < length xs)%nat ->
    nth n ys 0 = nth n xs 0 + alpha * (if (n <? delay)%nat then 0 else nth (n - delay) ys 0).

(* y[n] = x[n] + alpha * x[n - delay]   (x[m] = 0 for m < 0) *)
Definition ff_recurrence (delay : nat) (alpha : Qc) (xs ys : list Qc) : Prop :=
  length ys = length xs /\
  forall n, (n < length xs)%nat ->
    nth n ys 0 = nth n xs 0 + alpha * (if (n <? delay)%nat then 0 else nth (n - delay) xs 0).

End CombSpec.
