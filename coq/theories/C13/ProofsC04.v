(* C13 - model-to-model tie: the direct-form recursion of C13.Model ([run], used by the comb
   theorems) on the comb coefficient lists is exactly what C04's model of LinearFilter.__call__
   ([C04.Model.run_filter]: code generator + interpreter of the generated loop) returns on the same
   lists, with no memory and zero value 0.  The link goes through C04's difference-equation theorem
   [lists_diffeq] and the uniqueness of the solution when a0 <> 0 (same pattern as C20/ProofsC04.v,
   whose generic lemmas are restated here so that C13 depends on C04 only). *)
From Coq Require Import String List Bool Arith ZArith QArith Qcanon Lia.
From AL Require C04.Model C04.Spec C04.ProofsCtor.
From AL Require Import Base.CaseLib C13.Model C13.Spec C13.Check C13.Proofs_Comb.
Import ListNotations.
Open Scope Qc_scope.

Module M4 := AL.C04.Model.
Module S4 := AL.C04.Spec.

(* ---------------------------------------------------------------- signals and dot products *)
Lemma ysig_nat pst ys n : S4.ysig pst ys (Z.of_nat n) = nth n ys 0.
Proof.
  unfold S4.ysig. assert (H : (Z.of_nat n <? 0)%Z = false) by (apply Z.ltb_ge; lia).
  rewrite H, Nat2Z.id. reflexivity.
Qed.
Lemma ysig_neg pst ys m : (m < 0)%Z -> S4.ysig pst ys m = pst (Z.to_nat (- m)).
Proof. intro H. unfold S4.ysig. apply Z.ltb_lt in H. rewrite H. reflexivity. Qed.
Lemma xsig_nat zero xs n : S4.xsig zero xs (Z.of_nat n) = nth n xs 0.
Proof.
  unfold S4.xsig. assert (H : (Z.of_nat n <? 0)%Z = false) by (apply Z.ltb_ge; lia).
  rewrite H, Nat2Z.id. reflexivity.
Qed.

Lemma dot_ext_ge l : forall s F G, (forall k, (s <= k)%Z -> F k = G k) -> S4.dot l F s = S4.dot l G s.
Proof.
  induction l as [|c r IH]; intros s F G H; [reflexivity|].
  cbn [S4.dot]. rewrite (H s) by lia. f_equal. apply IH. intros k Hk. apply H. lia.
Qed.
Lemma dot_app l1 : forall l2 F s,
  S4.dot (l1 ++ l2) F s = S4.dot l1 F s + S4.dot l2 F (s + Z.of_nat (length l1)).
Proof.
  induction l1 as [|c r IH]; intros l2 F s.
  - cbn [app S4.dot length]. rewrite Z.add_0_r. ring.
  - cbn [app S4.dot length]. rewrite IH.
    replace (s + 1 + Z.of_nat (length r))%Z with (s + Z.of_nat (S (length r)))%Z by lia. ring.
Qed.
Lemma dot_repeat0 m : forall F s, S4.dot (repeat 0 m) F s = 0.
Proof. induction m as [|m IH]; intros F s; cbn [repeat S4.dot]; [reflexivity|]. rewrite IH. ring. Qed.

(* c * zinv^d as a list: its dot product picks the d-th term *)
Lemma dot_zpow d c F s : S4.dot (repeat 0 d ++ [c]) F s = c * F (s + Z.of_nat d)%Z.
Proof. rewrite dot_app, dot_repeat0, repeat_length. cbn [S4.dot]. ring. Qed.

(* ---------------------------------------------------------------- uniqueness *)
Section Unique.
Variables (b ar : list Qc) (a0 : Qc) (X : Z -> Qc) (pst : nat -> Qc).
Hypothesis Ha0 : a0 <> 0.
Definition solves (ys : list Qc) : Prop :=
  forall n, (n < length ys)%nat ->
    a0 * S4.ysig pst ys (Z.of_nat n)
    = S4.dot b (fun k => X (Z.of_nat n - k)%Z) 0
      - S4.dot ar (fun k => S4.ysig pst ys (Z.of_nat n - k)%Z) 1.

Lemma solves_unique ys ys' : length ys = length ys' -> solves ys -> solves ys' -> ys = ys'.
Proof.
  intros HL H1 H2.
  assert (Hn : forall n, (n < length ys)%nat -> nth n ys 0 = nth n ys' 0).
  { induction n as [n IH] using lt_wf_ind. intro Hlt.
    pose proof (H1 n Hlt) as E1. pose proof (H2 n ltac:(lia)) as E2.
    rewrite !ysig_nat in E1, E2.
    assert (EF : S4.dot ar (fun k => S4.ysig pst ys (Z.of_nat n - k)%Z) 1
                 = S4.dot ar (fun k => S4.ysig pst ys' (Z.of_nat n - k)%Z) 1).
    { apply dot_ext_ge. intros k Hk.
      destruct (Z_lt_dec (Z.of_nat n - k) 0) as [Hneg|Hpos].
      - rewrite !ysig_neg by exact Hneg. reflexivity.
      - replace (Z.of_nat n - k)%Z with (Z.of_nat (Z.to_nat (Z.of_nat n - k))) by lia.
        rewrite !ysig_nat. apply IH; lia. }
    rewrite EF in E1. rewrite <- E2 in E1.
    apply (f_equal (fun v => / a0 * v)) in E1.
    rewrite !Qcmult_assoc, (Qcmult_comm (/ a0)), Qcmult_inv_r in E1 by exact Ha0.
    rewrite !Qcmult_1_l in E1. exact E1. }
  apply (nth_ext ys ys' 0 0 HL). exact Hn.
Qed.
End Unique.

(* a list that solves the difference equation IS the output of C04's run_filter; when the
   filter is identically zero C04 returns the zero value for every sample *)
Lemma c04_solution b a0 ar zero xs ys' : a0 <> 0 ->
  length ys' = length xs ->
  (S4.all_zero (M4.enumerate_from 0 b) (M4.enumerate_from 0 (a0 :: ar)) = true -> ys' = repeat zero (length xs)) ->
  solves b ar a0 (S4.xsig zero xs) (fun _ => zero) ys' ->
  M4.run_filter b (a0 :: ar) M4.MNone zero xs = M4.Ok ys'.
Proof.
  intros Ha0 HL Hz Hs.
  destruct (C04.ProofsCtor.lists_diffeq b a0 ar M4.MNone zero xs Ha0) as [ys [Hrun [Hlen Hd]]].
  rewrite Hrun. f_equal.
  destruct (S4.all_zero (M4.enumerate_from 0 b) (M4.enumerate_from 0 (a0 :: ar))) eqn:Hall.
  - rewrite Hd. symmetry. apply Hz. reflexivity.
  - apply (solves_unique b ar a0 (S4.xsig zero xs) (fun _ => zero) Ha0); [lia| |exact Hs].
    intros n Hn. rewrite Hlen in Hn. exact (Hd n Hn).
Qed.

Lemma all_zero_false_b0 b0 br den : b0 <> 0 ->
  S4.all_zero (M4.enumerate_from 0 (b0 :: br)) den = true -> False.
Proof.
  intros Hb H. unfold S4.all_zero in H. cbn [M4.enumerate_from app forallb snd] in H.
  apply andb_true_iff in H. destruct H as [H _]. apply Qc_eqb_spec in H. contradiction.
Qed.

Lemma one_plus_0_neq_0 : (1 + 0 : Qc) <> 0.
Proof. intro H. apply Qc_eqb_spec in H. vm_compute in H. discriminate. Qed.
Lemma one_neq_0 : (1 : Qc) <> 0.
Proof. intro H. apply Qc_eqb_spec in H. vm_compute in H. discriminate. Qed.

(* ---------------------------------------------------------------- feedback comb *)
Lemma comb_fb_solves d alpha xs :
  solves [1] (repeat 0 d ++ [- alpha]) (1 + 0) (S4.xsig 0 xs) (fun _ => 0) (run (comb_fb (S d) alpha) xs).
Proof.
  destruct (comb_fb_recurrence_S d alpha xs) as [HL Hrec].
  intros n Hn. rewrite HL in Hn. rewrite ysig_nat, (Hrec n Hn).
  cbn [S4.dot]. rewrite dot_zpow. rewrite Z.sub_0_r, xsig_nat.
  destruct (n <? S d)%nat eqn:E.
  - apply Nat.ltb_lt in E. rewrite ysig_neg by lia. ring.
  - apply Nat.ltb_ge in E.
    replace (Z.of_nat n - (1 + Z.of_nat d))%Z with (Z.of_nat (n - S d)) by lia.
    rewrite ysig_nat. ring.
Qed.

Lemma comb_fb_is_c04_filter delay alpha xs : (1 <= delay)%nat ->
  M4.run_filter (qnum (comb_fb delay alpha)) (qden (comb_fb delay alpha)) M4.MNone 0 xs
  = M4.Ok (run (comb_fb delay alpha) xs).
Proof.
  intro Hd. destruct delay as [|d]; [lia|]. rewrite comb_fb_S at 1 2. cbn [qnum qden].
  apply c04_solution.
  - exact one_plus_0_neq_0.
  - apply run_from_length.
  - intro Hz. exfalso. exact (all_zero_false_b0 1 [] _ one_neq_0 Hz).
  - apply comb_fb_solves.
Qed.

(* ------------------------------------------------------------- feedforward comb *)
Lemma comb_ff_solves_S d alpha xs :
  solves ((1 + 0) :: repeat 0 d ++ [alpha]) [] 1 (S4.xsig 0 xs) (fun _ => 0) (run (comb_ff (S d) alpha) xs).
Proof.
  destruct (comb_ff_recurrence (S d) alpha xs) as [HL Hrec].
  intros n Hn. rewrite HL in Hn. rewrite ysig_nat, (Hrec n Hn).
  cbn [S4.dot]. rewrite dot_zpow. rewrite Z.sub_0_r, xsig_nat.
  destruct (n <? S d)%nat eqn:E.
  - apply Nat.ltb_lt in E. unfold S4.xsig.
    assert (H : (Z.of_nat n - (0 + 1 + Z.of_nat d) <? 0)%Z = true) by (apply Z.ltb_lt; lia).
    rewrite H. ring.
  - apply Nat.ltb_ge in E.
    replace (Z.of_nat n - (0 + 1 + Z.of_nat d))%Z with (Z.of_nat (n - S d)) by lia.
    rewrite xsig_nat. ring.
Qed.

Lemma comb_ff_solves_0 alpha xs :
  solves [1 + alpha] [] 1 (S4.xsig 0 xs) (fun _ => 0) (run (comb_ff 0 alpha) xs).
Proof.
  destruct (comb_ff_recurrence 0 alpha xs) as [HL Hrec].
  intros n Hn. rewrite HL in Hn. rewrite ysig_nat, (Hrec n Hn).
  cbn [S4.dot Nat.ltb Nat.leb]. rewrite Z.sub_0_r, xsig_nat, Nat.sub_0_r. ring.
Qed.

Lemma run_ff0_zero alpha xs : 1 + alpha = 0 -> run (comb_ff 0 alpha) xs = repeat 0 (length xs).
Proof.
  intro Ha. destruct (comb_ff_recurrence 0 alpha xs) as [HL Hrec].
  apply (nth_ext _ _ 0 0); [rewrite repeat_length; exact HL|].
  intros n Hn. rewrite HL in Hn. rewrite (Hrec n Hn). cbn [Nat.ltb Nat.leb]. rewrite Nat.sub_0_r.
  rewrite nth_repeat.
  replace (nth n xs 0 + alpha * nth n xs 0) with ((1 + alpha) * nth n xs 0) by ring. rewrite Ha. ring.
Qed.

Lemma comb_ff_is_c04_filter delay alpha xs :
  M4.run_filter (qnum (comb_ff delay alpha)) (qden (comb_ff delay alpha)) M4.MNone 0 xs
  = M4.Ok (run (comb_ff delay alpha) xs).
Proof.
  destruct delay as [|d].
  - change (qnum (comb_ff 0 alpha)) with [1 + alpha]. change (qden (comb_ff 0 alpha)) with [1].
    apply c04_solution.
    + exact one_neq_0.
    + apply run_from_length.
    + intro Hz. apply run_ff0_zero.
      unfold S4.all_zero in Hz. cbn [M4.enumerate_from app forallb snd] in Hz.
      apply andb_true_iff in Hz. destruct Hz as [Hz _]. apply Qc_eqb_spec in Hz. exact Hz.
    + apply comb_ff_solves_0.
  - rewrite comb_ff_S at 1 2. cbn [qnum qden]. apply c04_solution.
    + exact one_neq_0.
    + apply run_from_length.
    + intro Hz. exfalso. exact (all_zero_false_b0 (1 + 0) _ _ one_plus_0_neq_0 Hz).
    + apply comb_ff_solves_S.
Qed.

Lemma c04_filter_comb_recurrences delay alpha xs ys :
  ((1 <= delay)%nat ->
   M4.run_filter (qnum (comb_fb delay alpha)) (qden (comb_fb delay alpha)) M4.MNone 0 xs = M4.Ok ys ->
   fb_recurrence delay alpha xs ys) /\
  (M4.run_filter (qnum (comb_ff delay alpha)) (qden (comb_ff delay alpha)) M4.MNone 0 xs = M4.Ok ys ->
   ff_recurrence delay alpha xs ys).
Proof.
  split.
  - intros Hd Hrun. rewrite (comb_fb_is_c04_filter delay alpha xs Hd) in Hrun. inversion Hrun; subst ys.
    apply comb_fb_recurrence. exact Hd.
  - intro Hrun. rewrite (comb_ff_is_c04_filter delay alpha xs) in Hrun. inversion Hrun; subst ys.
    apply comb_ff_recurrence.
Qed.
