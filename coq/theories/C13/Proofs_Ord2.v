(* C13 - second order sections 1 - 2 R t zinv + R^2 zinv^2: stability, response at the
   resonant frequency, pole modulus. *)
From Coq Require Import Reals List Lra Psatz.
From Coquelicot Require Import Complex.
From AL Require Import C13.Model C13.Spec C13.Proofs_Base C13.Proofs_Ord1 C13.Proofs_LPHP.
Import ListNotations.
Open Scope R_scope.

Lemma cis_on_circle w : Cmod (cis (- w)) <= 1.
Proof.
  unfold Cmod, cis. cbn [fst snd]. rewrite cos_neg, sin_neg.
  replace (cos w ^ 2 + (- sin w) ^ 2) with 1.
  - rewrite sqrt_1. lra.
  - pose proof (sin2_cos2 w) as E. unfold Rsqr in E. nra.
Qed.

Lemma resonator_R_range bw : 0 < bw -> 0 < resonator_R bw < 1.
Proof.
  intro Hb. unfold resonator_R. replace (- bw * (1 / 2)) with (- (bw / 2)) by field.
  apply exp_neg_range. lra.
Qed.

Lemma resonator_R_eq bw : resonator_R bw = exp (- bw / 2).
Proof. unfold resonator_R. f_equal. field. Qed.

(* Jury conditions for a = -(2 r t), b = r^2 with 0 < r < 1 and |2 r t| < 1 + r^2 *)
Lemma stable_reson num r a : 0 < r < 1 -> Rabs a < 1 + r ^ 2 -> stable (Filt num [1; a; r ^ 2]).
Proof.
  intros Hr Ha. apply stable_ord2; [|exact Ha]. apply Rabs_def1; nra.
Qed.

Lemma two_r_t_bound r t : 0 < r < 1 -> -1 <= t <= 1 -> Rabs (- (2 * r * t)) < 1 + r ^ 2.
Proof. intros Hr Ht. apply Rabs_def1; nra. Qed.

(* squared modulus of the denominator at the frequency w where cos w = t (1 + r^2) / (2 r) *)
Lemma den_at_peak r t w : r <> 0 -> cos w = t * (1 + r ^ 2) / (2 * r) ->
  n2 (ceval [1; - (2 * r * t); r ^ 2] (cis (- w))) = (1 - r ^ 2) ^ 2 * (1 - t ^ 2).
Proof.
  intros Hr Hc. rewrite n2_ord2. rewrite Hc. field. exact Hr.
Qed.

(* numerator g (1 - zinv^2) *)
Lemma num_z_n2 g w : n2 (ceval [g; 0; - g] (cis (- w))) = 4 * g ^ 2 * (1 - cos w ^ 2).
Proof. rewrite n2_ord2. ring. Qed.

(* ---------------------------------------------------------------- pole modulus *)
Lemma Cmod_of_n2 (p : C) r : 0 < r -> n2 p = r ^ 2 -> Cmod p = r.
Proof.
  intros Hr Hn. unfold Cmod. fold (n2 p). rewrite Hn. rewrite <- Rsqr_pow2. apply sqrt_Rsqr. lra.
Qed.

Lemma poles_modulus_ord2 num r t : 0 < r -> -1 <= t <= 1 ->
  poles_have_modulus (Filt num [1; - (2 * r * t); r ^ 2]) r.
Proof.
  intros Hr Ht. split.
  - exists (r * t, r * sqrt (1 - t ^ 2)). unfold is_pole. cbn [fden rev app ceval].
    unfold Cplus, Cmult, RtoC. cbn [fst snd].
    assert (Hq : sqrt (1 - t ^ 2) * sqrt (1 - t ^ 2) = 1 - t ^ 2) by (apply sqrt_sqrt; nra).
    set (q := sqrt (1 - t ^ 2)) in *. f_equal.
    + replace (r ^ 2 + (r * t * (- (2 * r * t) + (r * t * (1 + (r * t * 0 - r * q * 0)) - r * q * (0 + (r * t * 0 + r * q * 0)))) -
        r * q * (0 + (r * t * (0 + (r * t * 0 + r * q * 0)) + r * q * (1 + (r * t * 0 - r * q * 0))))))
        with (r ^ 2 - r ^ 2 * t ^ 2 - r ^ 2 * (q * q)) by ring.
      rewrite Hq. ring.
    + ring.
  - intros [u v] Hp. unfold is_pole in Hp. cbn [fden rev app ceval] in Hp.
    unfold Cplus, Cmult, RtoC in Hp. cbn [fst snd] in Hp.
    assert (Hre := f_equal fst Hp). assert (Him := f_equal snd Hp). cbn [fst snd] in Hre, Him. clear Hp.
    assert (Hre' : r ^ 2 - 2 * r * t * u + u ^ 2 - v ^ 2 = 0) by (etransitivity; [|exact Hre]; ring).
    assert (Him2 : 2 * (v * (u - r * t)) = 0) by (etransitivity; [|exact Him]; ring).
    assert (Him' : v * (u - r * t) = 0) by lra. clear Him2.
    clear Hre Him.
    apply Cmod_of_n2; [exact Hr|]. unfold n2. cbn [fst snd].
    apply Rmult_integral in Him'. destruct Him' as [Hv|Hu].
    + subst v. assert (Hsq : (u - r * t) ^ 2 = r ^ 2 * (t ^ 2 - 1)) by nra.
      assert (H1 : 0 <= (u - r * t) ^ 2) by apply pow2_ge_0.
      assert (Hr2 : 0 < r ^ 2) by (apply sq_pos; lra).
      assert (Ht1 : t ^ 2 - 1 <= 0) by nra.
      assert (H2 : r ^ 2 * (t ^ 2 - 1) <= 0) by nra.
      assert (H3 : (u - r * t) ^ 2 = 0) by lra.
      assert (Hu : u = r * t).
      { destruct (Req_dec (u - r * t) 0) as [E|E]; [lra|]. exfalso.
        assert (0 < (u - r * t) ^ 2) by (apply sq_pos; exact E). lra. }
      assert (Ht2 : r ^ 2 * (t ^ 2 - 1) = 0) by lra.
      subst u. nra.
    + assert (Hu' : u = r * t) by lra. subst u. nra.
Qed.

(* real poles: when t > 1 one pole has a modulus larger than r *)
Lemma real_pole_ord2 num r t : 0 < r -> 1 < t ->
  exists p : C, is_pole (Filt num [1; - (2 * r * t); r ^ 2]) p /\ Cmod p <> r.
Proof.
  intros Hr Ht. set (q := sqrt (t ^ 2 - 1)).
  assert (Hq : q * q = t ^ 2 - 1) by (apply sqrt_sqrt; nra).
  assert (Hq0 : 0 <= q) by apply sqrt_pos.
  exists (r * (t + q), 0). split.
  - unfold is_pole. cbn [fden rev app ceval]. unfold Cplus, Cmult, RtoC. cbn [fst snd]. f_equal.
    + replace (r ^ 2 + (r * (t + q) * (- (2 * r * t) + (r * (t + q) * (1 + (r * (t + q) * 0 - 0 * 0)) - 0 * (0 + (r * (t + q) * 0 + 0 * 0)))) -
        0 * (0 + (r * (t + q) * (0 + (r * (t + q) * 0 + 0 * 0)) + 0 * (1 + (r * (t + q) * 0 - 0 * 0))))))
        with (r ^ 2 * (1 - t ^ 2 + q * q)) by ring.
      rewrite Hq. ring.
    + ring.
  - intro Hm. assert (Hn : Cmod (r * (t + q), 0) ^ 2 = r ^ 2) by (rewrite Hm; reflexivity).
    rewrite Cmod_sq in Hn. unfold n2 in Hn. cbn [fst snd] in Hn.
    assert (1 < t + q) by lra. assert (1 < (t + q) ^ 2) by nra.
    assert (r ^ 2 * 1 < r ^ 2 * (t + q) ^ 2) by (apply Rmult_lt_compat_l; nra). nra.
Qed.
