(* C13 - the four resonator strategies, instantiating the generic sections. *)
From Coq Require Import Reals List Lra Psatz.
From Coquelicot Require Import Complex.
From AL Require Import C13.Model C13.Spec C13.Proofs_Base C13.Proofs_Ord1 C13.Proofs_LPHP C13.Proofs_Ord2
  C13.Proofs_Reson.
Import ListNotations.
Open Scope R_scope.

Section Resonators.
Variables freq bw : R.
Hypothesis Hf : 0 < freq < PI.
Hypothesis Hb : 0 < bw.
Let r := resonator_R bw.

Lemma Hr_ : 0 < r < 1.
Proof. apply resonator_R_range. exact Hb. Qed.

(* ------------------------------------------------------------------ poles_exp *)
Lemma poles_exp_cost_range : -1 < poles_exp_cost freq bw < 1.
Proof. unfold poles_exp_cost. cbv zeta. apply scaled_cos_open; [exact Hr_|apply cos_open; exact Hf]. Qed.

Lemma poles_exp_gain_sq :
  ((1 - r ^ 2) * sqrt (1 - poles_exp_cost freq bw ^ 2)) ^ 2 = (1 - r ^ 2) ^ 2 * (1 - poles_exp_cost freq bw ^ 2).
Proof.
  pose proof poles_exp_cost_range as Ht. rewrite Rpow_mult_distr. rewrite pow2_sqrt by nra. reflexivity.
Qed.

Lemma resonator_poles_exp_unit_gain : unit_gain_at (resonator_poles_exp freq bw) freq.
Proof.
  pose proof Hr_ as Hr. unfold unit_gain_at.
  change (resonator_poles_exp freq bw) with
    (Filt [(1 - r ^ 2) * sqrt (1 - poles_exp_cost freq bw ^ 2)] [1; - (2 * r * poles_exp_cost freq bw); r ^ 2]).
  apply polesonly_unit; [exact Hr|exact poles_exp_cost_range|exact poles_exp_gain_sq|].
  unfold poles_exp_cost. cbv zeta. fold r. field. split; nra.
Qed.

Lemma resonator_poles_exp_peak w : gain (resonator_poles_exp freq bw) w <= 1.
Proof.
  change (resonator_poles_exp freq bw) with
    (Filt [(1 - r ^ 2) * sqrt (1 - poles_exp_cost freq bw ^ 2)] [1; - (2 * r * poles_exp_cost freq bw); r ^ 2]).
  apply polesonly_peak; [exact Hr_|exact poles_exp_cost_range|exact poles_exp_gain_sq].
Qed.

Lemma resonator_poles_exp_stable : stable (resonator_poles_exp freq bw).
Proof.
  change (resonator_poles_exp freq bw) with
    (Filt [(1 - r ^ 2) * sqrt (1 - poles_exp_cost freq bw ^ 2)] [1; - (2 * r * poles_exp_cost freq bw); r ^ 2]).
  apply polesonly_stable; [exact Hr_|exact poles_exp_cost_range].
Qed.

Lemma resonator_poles_exp_pole_radius : poles_have_modulus (resonator_poles_exp freq bw) (exp (- bw / 2)).
Proof.
  rewrite <- resonator_R_eq. fold r. pose proof poles_exp_cost_range. pose proof Hr_.
  apply (poles_modulus_ord2 _ r (poles_exp_cost freq bw)); lra.
Qed.

(* ------------------------------------------------------------- freq_poles_exp *)
Lemma freq_poles_exp_gain_sq : ((1 - r ^ 2) * sin freq) ^ 2 = (1 - r ^ 2) ^ 2 * (1 - cos freq ^ 2).
Proof. pose proof (sin2_cos2 freq) as E. unfold Rsqr in E. nra. Qed.

(* unit gain at the resonant frequency w0 (cos w0 = cos freq (1 + R^2) / (2 R)) whenever it exists *)
Lemma resonator_freq_poles_exp_unit_gain w0 :
  cos w0 = cos freq * (1 + r ^ 2) / (2 * r) -> unit_gain_at (resonator_freq_poles_exp freq bw) w0.
Proof.
  intro Hc. unfold unit_gain_at.
  change (resonator_freq_poles_exp freq bw) with (Filt [(1 - r ^ 2) * sin freq] [1; - (2 * r * cos freq); r ^ 2]).
  apply polesonly_unit; [exact Hr_|apply cos_open; exact Hf|exact freq_poles_exp_gain_sq|exact Hc].
Qed.

Lemma resonator_freq_poles_exp_peak w : gain (resonator_freq_poles_exp freq bw) w <= 1.
Proof.
  change (resonator_freq_poles_exp freq bw) with (Filt [(1 - r ^ 2) * sin freq] [1; - (2 * r * cos freq); r ^ 2]).
  apply polesonly_peak; [exact Hr_|apply cos_open; exact Hf|exact freq_poles_exp_gain_sq].
Qed.

Lemma resonator_freq_poles_exp_stable : stable (resonator_freq_poles_exp freq bw).
Proof.
  change (resonator_freq_poles_exp freq bw) with (Filt [(1 - r ^ 2) * sin freq] [1; - (2 * r * cos freq); r ^ 2]).
  apply polesonly_stable; [exact Hr_|apply cos_open; exact Hf].
Qed.

Lemma resonator_freq_poles_exp_pole_radius : poles_have_modulus (resonator_freq_poles_exp freq bw) (exp (- bw / 2)).
Proof.
  rewrite <- resonator_R_eq. fold r. pose proof (cos_open freq Hf). pose proof Hr_.
  apply (poles_modulus_ord2 _ r (cos freq)); lra.
Qed.

(* ---------------------------------------------------------------------- z_exp *)
Lemma z_exp_a_eq : - (2 * r * z_exp_cost freq bw) = - ((1 + r ^ 2) * cos freq).
Proof. pose proof Hr_. unfold z_exp_cost. cbv zeta. fold r. field. lra. Qed.

Lemma z_exp_a_bound : Rabs (- (2 * r * z_exp_cost freq bw)) < 1 + r ^ 2.
Proof. rewrite z_exp_a_eq. pose proof (cos_open freq Hf). pose proof Hr_. apply Rabs_def1; nra. Qed.

Lemma resonator_z_exp_unit_gain : unit_gain_at (resonator_z_exp freq bw) freq.
Proof.
  unfold unit_gain_at.
  change (resonator_z_exp freq bw) with
    (Filt [(1 - r ^ 2) * (1 / 2); 0; - ((1 - r ^ 2) * (1 / 2))] [1; - (2 * r * z_exp_cost freq bw); r ^ 2]).
  apply zres_unit; [exact Hr_|exact z_exp_a_bound|apply cos_open; exact Hf|exact z_exp_a_eq].
Qed.

Lemma resonator_z_exp_peak w : gain (resonator_z_exp freq bw) w <= 1.
Proof.
  change (resonator_z_exp freq bw) with
    (Filt [(1 - r ^ 2) * (1 / 2); 0; - ((1 - r ^ 2) * (1 / 2))] [1; - (2 * r * z_exp_cost freq bw); r ^ 2]).
  apply zres_peak; [exact Hr_|exact z_exp_a_bound].
Qed.

Lemma resonator_z_exp_stable : stable (resonator_z_exp freq bw).
Proof.
  change (resonator_z_exp freq bw) with
    (Filt [(1 - r ^ 2) * (1 / 2); 0; - ((1 - r ^ 2) * (1 / 2))] [1; - (2 * r * z_exp_cost freq bw); r ^ 2]).
  apply zres_stable; [exact Hr_|exact z_exp_a_bound].
Qed.

(* the poles are a conjugate pair of radius R only when |cost| <= 1 *)
Lemma resonator_z_exp_pole_radius : -1 <= z_exp_cost freq bw <= 1 ->
  poles_have_modulus (resonator_z_exp freq bw) (exp (- bw / 2)).
Proof.
  intro Ht. rewrite <- resonator_R_eq. fold r. pose proof Hr_.
  apply (poles_modulus_ord2 _ r (z_exp_cost freq bw)); lra.
Qed.

Lemma resonator_z_exp_real_poles : 1 < z_exp_cost freq bw ->
  ~ poles_have_modulus (resonator_z_exp freq bw) (exp (- bw / 2)).
Proof.
  intros Ht [_ Hall]. rewrite <- resonator_R_eq in Hall. fold r in Hall. pose proof Hr_.
  destruct (real_pole_ord2 [(1 - r ^ 2) * (1 / 2); 0; - ((1 - r ^ 2) * (1 / 2))] r (z_exp_cost freq bw)) as [p [Hp Hm]];
    [lra|exact Ht|].
  apply Hm. apply Hall. exact Hp.
Qed.

(* ----------------------------------------------------------------- freq_z_exp *)
Lemma freq_z_exp_a_bound : Rabs (- (2 * r * cos freq)) < 1 + r ^ 2.
Proof. pose proof (cos_open freq Hf). apply two_r_t_bound; [exact Hr_|lra]. Qed.

Lemma resonator_freq_z_exp_unit_gain w0 :
  cos w0 = cos freq * (2 * r) / (1 + r ^ 2) -> unit_gain_at (resonator_freq_z_exp freq bw) w0.
Proof.
  intro Hc. unfold unit_gain_at. pose proof Hr_ as Hr.
  change (resonator_freq_z_exp freq bw) with
    (Filt [(1 - r ^ 2) * (1 / 2); 0; - ((1 - r ^ 2) * (1 / 2))] [1; - (2 * r * cos freq); r ^ 2]).
  apply zres_unit; [exact Hr|exact freq_z_exp_a_bound| |].
  - rewrite Hc. apply scaled_cos_open; [exact Hr|apply cos_open; exact Hf].
  - rewrite Hc. field. nra.
Qed.

Lemma resonator_freq_z_exp_resonance_exists :
  exists w0, 0 <= w0 <= PI /\ cos w0 = cos freq * (2 * r) / (1 + r ^ 2) /\
             unit_gain_at (resonator_freq_z_exp freq bw) w0.
Proof.
  pose proof (scaled_cos_open r (cos freq) Hr_ (cos_open freq Hf)) as Hc.
  exists (acos (cos freq * (2 * r) / (1 + r ^ 2))).
  assert (E : cos (acos (cos freq * (2 * r) / (1 + r ^ 2))) = cos freq * (2 * r) / (1 + r ^ 2))
    by (apply cos_acos; lra).
  split; [apply acos_bound|]. split; [exact E|]. apply resonator_freq_z_exp_unit_gain. exact E.
Qed.

Lemma resonator_freq_z_exp_peak w : gain (resonator_freq_z_exp freq bw) w <= 1.
Proof.
  change (resonator_freq_z_exp freq bw) with
    (Filt [(1 - r ^ 2) * (1 / 2); 0; - ((1 - r ^ 2) * (1 / 2))] [1; - (2 * r * cos freq); r ^ 2]).
  apply zres_peak; [exact Hr_|exact freq_z_exp_a_bound].
Qed.

Lemma resonator_freq_z_exp_stable : stable (resonator_freq_z_exp freq bw).
Proof.
  change (resonator_freq_z_exp freq bw) with
    (Filt [(1 - r ^ 2) * (1 / 2); 0; - ((1 - r ^ 2) * (1 / 2))] [1; - (2 * r * cos freq); r ^ 2]).
  apply zres_stable; [exact Hr_|exact freq_z_exp_a_bound].
Qed.

Lemma resonator_freq_z_exp_pole_radius : poles_have_modulus (resonator_freq_z_exp freq bw) (exp (- bw / 2)).
Proof.
  rewrite <- resonator_R_eq. fold r. pose proof (cos_open freq Hf). pose proof Hr_.
  apply (poles_modulus_ord2 _ r (cos freq)); lra.
Qed.
End Resonators.

(* the unconditional pole-radius claim fails for resonator.z_exp inside the stated domain:
   freq = 1/10, bandwidth = 1 (cos(1/10) > 0.995, R = exp(-1/2) < 2/3, so cost > 1) *)
Lemma resonator_z_exp_pole_radius_refuted :
  exists freq bw, 1 / 1000 <= freq <= PI - 1 / 1000 /\ 1 / 1000 <= bw <= 1 /\
    ~ poles_have_modulus (resonator_z_exp freq bw) (exp (- bw / 2)).
Proof.
  pose proof PI2_1 as Hpi.
  exists (1 / 10), 1. split; [lra|]. split; [lra|].
  apply resonator_z_exp_real_poles; [lra|].
  unfold z_exp_cost. cbv zeta.
  pose proof (resonator_R_range 1 ltac:(lra)) as Hr. set (r := resonator_R 1) in *.
  assert (Hr23 : r < 2 / 3).
  { assert (E : r = / exp (1 / 2)).
    { unfold r. rewrite resonator_R_eq. rewrite <- exp_Ropp. f_equal. field. }
    pose proof (exp_ineq1 (1 / 2) ltac:(lra)) as He. rewrite E.
    apply Rmult_lt_reg_r with (exp (1 / 2)); [lra|]. rewrite Rinv_l by lra. lra. }
  assert (Hc : 199 / 200 < cos (1 / 10)).
  { replace (1 / 10) with (2 * (1 / 20)) by field. rewrite cos_2a_sin.
    pose proof (sin_lt_x (1 / 20) ltac:(lra)) as Hs.
    assert (Hs0 : 0 < sin (1 / 20)) by (apply sin_gt_0; lra). nra. }
  apply Rmult_lt_reg_r with (2 * r); [lra|].
  unfold Rdiv. rewrite Rmult_assoc, Rinv_l by lra. nra.
Qed.
