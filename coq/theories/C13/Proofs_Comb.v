(* C13 - comb filters: the difference equation run on the coefficient lists of comb.fb /
   comb.ff is the documented recurrence, for every delay, alpha and input. *)
From Coq Require Import List Arith Lia QArith Qcanon Bool.
From AL Require Import Base.CaseLib C13.Model C13.Spec C13.Check.
Import ListNotations.
Open Scope Qc_scope.

Lemma dot_nil_l h : dot [] h = 0.
Proof. destruct h; reflexivity. Qed.

Lemma dot_zpow d c : forall h, dot (repeat 0 d ++ [c]) h = c * nth d h 0.
Proof.
  induction d as [|d IH]; intros [|a h]; cbn [repeat app dot nth].
  - ring.
  - ring.
  - ring.
  - rewrite IH. ring.
Qed.

Lemma nth_firstn_lt (l : list Qc) : forall n i, (i < n)%nat -> nth i (firstn n l) 0 = nth i l 0.
Proof.
  induction l as [|a l IH]; intros [|n] [|i] Hi; cbn [firstn nth]; try reflexivity; try lia.
  apply IH. lia.
Qed.

Lemma nth_rev_firstn (l : list Qc) n d : (n <= length l)%nat ->
  nth d (rev (firstn n l)) 0 = if (n <=? d)%nat then 0 else nth (n - S d) l 0.
Proof.
  intro Hn. assert (Hl : length (firstn n l) = n) by (apply firstn_length_le; exact Hn).
  destruct (n <=? d)%nat eqn:E.
  - apply Nat.leb_le in E. apply nth_overflow. rewrite rev_length, Hl. exact E.
  - apply Nat.leb_gt in E. rewrite rev_nth by (rewrite Hl; exact E). rewrite Hl.
    apply nth_firstn_lt. lia.
Qed.

Lemma run_from_length f : forall xs xh yh, length (run_from f xh yh xs) = length xs.
Proof. induction xs as [|x r IH]; intros xh yh; cbn [run_from length]; [reflexivity|]. rewrite IH. reflexivity. Qed.

(* ------------------------------------------------------------------ feedback *)
Lemma comb_fb_S d alpha : comb_fb (S d) alpha = QFilt [1] ((1 + 0) :: repeat 0 d ++ [- alpha]).
Proof. reflexivity. Qed.

Lemma fb_invariant d alpha : forall xs xh yh n, (n < length xs)%nat ->
  let ys := run_from (comb_fb (S d) alpha) xh yh xs in
  nth n ys 0 = nth n xs 0 + alpha * nth d (rev (firstn n ys) ++ yh) 0.
Proof.
  induction xs as [|x r IH]; intros xh yh n Hn; [cbn in Hn; lia|].
  cbv zeta. rewrite comb_fb_S. cbn [run_from qnum qden hd tl]. rewrite <- comb_fb_S.
  destruct n as [|m].
  - cbn [nth firstn rev app dot]. rewrite dot_zpow. field. discriminate.
  - cbn [nth firstn rev]. cbn [length] in Hn. rewrite (IH _ _ m) by lia.
    rewrite <- app_assoc. reflexivity.
Qed.

Lemma comb_fb_recurrence_S d alpha xs : fb_recurrence (S d) alpha xs (run (comb_fb (S d) alpha) xs).
Proof.
  split; [apply run_from_length|]. intros n Hn. unfold run.
  rewrite (fb_invariant d alpha xs [] [] n Hn). rewrite app_nil_r.
  rewrite nth_rev_firstn by (rewrite run_from_length; lia). reflexivity.
Qed.

Lemma comb_fb_recurrence delay alpha xs : (1 <= delay)%nat ->
  fb_recurrence delay alpha xs (run (comb_fb delay alpha) xs).
Proof. intro Hd. destruct delay as [|d]; [lia|]. apply comb_fb_recurrence_S. Qed.

(* --------------------------------------------------------------- feedforward *)
Lemma comb_ff_S d alpha : comb_ff (S d) alpha = QFilt ((1 + 0) :: repeat 0 d ++ [alpha]) [1].
Proof. reflexivity. Qed.

Lemma ff_invariant d alpha : forall xs xh yh n, (n < length xs)%nat ->
  nth n (run_from (comb_ff (S d) alpha) xh yh xs) 0 = nth n xs 0 + alpha * nth d (rev (firstn n xs) ++ xh) 0.
Proof.
  induction xs as [|x r IH]; intros xh yh n Hn; [cbn in Hn; lia|].
  rewrite comb_ff_S. cbn [run_from qnum qden hd tl]. rewrite <- comb_ff_S.
  destruct n as [|m].
  - cbn [nth firstn rev app dot]. rewrite dot_zpow. field. discriminate.
  - cbn [nth firstn rev]. cbn [length] in Hn. rewrite (IH _ _ m) by lia.
    rewrite <- app_assoc. reflexivity.
Qed.

Lemma ff0_invariant alpha : forall xs xh yh n, (n < length xs)%nat ->
  nth n (run_from (comb_ff 0 alpha) xh yh xs) 0 = nth n xs 0 + alpha * nth n xs 0.
Proof.
  induction xs as [|x r IH]; intros xh yh n Hn; [cbn in Hn; lia|].
  change (comb_ff 0 alpha) with (QFilt [1 + alpha] [1]). cbn [run_from qnum qden hd tl].
  destruct n as [|m].
  - cbn [nth dot]. field. discriminate.
  - cbn [nth]. cbn [length] in Hn. change (QFilt [1 + alpha] [1]) with (comb_ff 0 alpha). apply IH. lia.
Qed.

Lemma comb_ff_recurrence delay alpha xs : ff_recurrence delay alpha xs (run (comb_ff delay alpha) xs).
Proof.
  split; [apply run_from_length|]. intros n Hn. unfold run. destruct delay as [|d].
  - rewrite (ff0_invariant alpha xs [] [] n Hn). cbn [Nat.ltb Nat.leb]. rewrite Nat.sub_0_r. reflexivity.
  - rewrite (ff_invariant d alpha xs [] [] n Hn). rewrite app_nil_r.
    rewrite nth_rev_firstn by lia. reflexivity.
Qed.

(* the boolean checkers used on the implementation's outputs decide the recurrences *)
Lemma fb_recurrence_b_spec delay alpha xs ys :
  fb_recurrence_b delay alpha xs ys = true <-> fb_recurrence delay alpha xs ys.
Proof.
  unfold fb_recurrence_b, fb_recurrence. rewrite andb_true_iff, Nat.eqb_eq, forallb_forall.
  split; intros [Hl Hall]; (split; [exact Hl|]).
  - intros n Hn. apply Qc_eqb_spec. apply Hall. apply in_seq. lia.
  - intros n Hn. apply Qc_eqb_spec. apply Hall. apply in_seq in Hn. lia.
Qed.

Lemma ff_recurrence_b_spec delay alpha xs ys :
  ff_recurrence_b delay alpha xs ys = true <-> ff_recurrence delay alpha xs ys.
Proof.
  unfold ff_recurrence_b, ff_recurrence. rewrite andb_true_iff, Nat.eqb_eq, forallb_forall.
  split; intros [Hl Hall]; (split; [exact Hl|]).
  - intros n Hn. apply Qc_eqb_spec. apply Hall. apply in_seq. lia.
  - intros n Hn. apply Qc_eqb_spec. apply Hall. apply in_seq in Hn. lia.
Qed.
