(* C13 - vocabulary and tactics of the generated enclosure goals (build/C13/encl_*.v).

   A goal  enc e v tol  says that the model's real expression e (a coefficient of a
   design, a pole radius, a comb decay gain) lies within tol of v, the float the
   library produced, written as an exact rational literal.  It is closed by the
   `interval` tactic (interval arithmetic, 100 bits) after unfolding the model. *)
From Coq Require Import Reals List Lra.
From Interval Require Import Tactic.
From AL Require Import C13.Model C13.Sampled.
Import ListNotations.
Open Scope R_scope.

Definition enc (e v tol : R) : Prop := Rabs (e - v) <= tol.
Definition out (e v tol : R) : Prop := tol < Rabs (e - v).
(* verdict of one generated goal: enclosed, refuted (provably outside), or undecided *)
Definition verdict (e v tol : R) : Prop := enc e v tol \/ out e v tol \/ True.

Lemma enc_out_excl e v tol : enc e v tol -> out e v tol -> False.
Proof. unfold enc, out. lra. Qed.

Lemma z_denR_nz w : cos w <> 0 -> z_denR w = cos w.
Proof.
  intro Hc. unfold z_denR. destruct (Req_EM_T (cos w) 0) as [E|E]; [contradiction|reflexivity].
Qed.

Definition nofilt : filt := Filt [] [].

Ltac c13_unfold :=
  cbv beta iota zeta delta
    [enc out nofilt nth hd tl map repeat app rev fnum fden
     ev_re_from ev_im_from nrm2 mag2 gain_at
     lowpass_pole_x lowpass_pole_R lowpass_pole highpass_pole_x highpass_pole_R highpass_pole
     lowpass_z_R lowpass_z highpass_z_R highpass_z
     lowpass_pole_exp_R lowpass_pole_exp highpass_pole_exp_R highpass_pole_exp
     lowpass_z_exp_R lowpass_z_exp highpass_z_exp_R highpass_z_exp
     resonator_R poles_exp_cost resonator_poles_exp resonator_freq_poles_exp
     z_exp_cost resonator_z_exp resonator_freq_z_exp comb_tau_alpha
     normalize gammatone_A gammatone_den slaney_coeff slaney_section gammatone_slaney
     gammatone_klapuri padd pscale pmul pddz_from pddz mul_negz sampled_step sampled_iter
     sampled_num gammatone_sampled erb_constant_x erb_constant_y
     INR Nat.mul Nat.add Nat.sub].

Ltac c13_nz :=
  first [ apply Rgt_not_eq; interval with (i_prec 100)
        | apply Rlt_not_eq; interval with (i_prec 100) ].
(* factorials (gammatone_erb_constants) are computed in Z by the VM, never in unary nat *)
Ltac c13_zfact :=
  repeat match goal with
  | |- context [Zfact ?k] => let v := eval vm_compute in (Zfact k) in change (Zfact k) with v
  end.
Ltac c13_prep := c13_unfold; c13_zfact; repeat (rewrite z_denR_nz by c13_nz).
Ltac c13_enclose := c13_prep; interval with (i_prec 100).

(* one generated goal: try the enclosure, then its refutation; never fails.  The messages are
   printed BEFORE the attempt they announce: a tag is refuted iff "C13REFUTED tag" appears
   without "C13UNDECIDED tag", undecided iff "C13UNDECIDED tag" appears, enclosed otherwise. *)
Ltac c13_decide tag :=
  first [ left; c13_enclose
        | idtac "C13REFUTED" tag; right; left; c13_enclose
        | idtac "C13UNDECIDED" tag; right; right; exact I ].

(* first section of gammatone.sampled: replace the iterated derivative by its closed form,
   then abstract every cos / sin / exp leaf by a variable with a 100-bit enclosure *)
Ltac c13_abs1 t :=
  let Hb := fresh "Hb" in let x := fresh "x" in
  interval_intro t with (i_prec 100) as Hb; set (x := t) in *; clearbody x.
Ltac c13_absall :=
  repeat match goal with
  | |- context [cos ?t] => c13_abs1 (cos t)
  | |- context [sin ?t] => c13_abs1 (sin t)
  | |- context [exp ?t] => c13_abs1 (exp t)
  end.
Ltac c13_enclose_sampled :=
  cbv beta iota zeta delta [enc out gammatone_sampled sampled_num gammatone_den Nat.sub];
  first [ rewrite !sampled_closed_6 | rewrite !sampled_closed_5 | rewrite !sampled_closed_4
        | rewrite !sampled_closed_3 | rewrite !sampled_closed_2 | idtac ];
  c13_unfold; c13_absall; interval with (i_prec 100).
Ltac c13_decide_sampled tag :=
  first [ left; c13_enclose_sampled
        | idtac "C13REFUTED" tag; right; left; c13_enclose_sampled
        | idtac "C13UNDECIDED" tag; right; right; exact I ].
