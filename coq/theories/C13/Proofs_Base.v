(* C13 - complex-arithmetic groundwork: squared modulus of first and second order
   polynomials on the unit circle, gain as a quotient, stability criteria. *)
From Coq Require Import Reals List Lra Lia Psatz Nsatz.
From Coquelicot Require Import Complex.
From AL Require Import C13.Model C13.Spec.
Import ListNotations.
Open Scope R_scope.

Definition n2 (z : C) : R := fst z ^ 2 + snd z ^ 2.

Lemma n2_nonneg z : 0 <= n2 z.
Proof. unfold n2. nra. Qed.

Lemma Cmod_sq z : Cmod z ^ 2 = n2 z.
Proof.
  unfold Cmod, n2. rewrite <- Rsqr_pow2. rewrite Rsqr_sqrt; [reflexivity|]. nra.
Qed.

Lemma n2_zero_iff z : n2 z = 0 <-> z = RtoC 0.
Proof.
  destruct z as [a b]. unfold n2, RtoC. cbn [fst snd]. split.
  - intro Hz. assert (a = 0) by nra. assert (b = 0) by nra. subst. reflexivity.
  - intro Hz. inversion Hz. subst. ring.
Qed.

Lemma n2_pos z : z <> RtoC 0 -> 0 < n2 z.
Proof.
  intro Hz. destruct (Rle_lt_or_eq_dec _ _ (n2_nonneg z)) as [Hlt|Heq]; [exact Hlt|].
  exfalso. apply Hz. apply n2_zero_iff. symmetry. exact Heq.
Qed.

Lemma Cmod_le_1 z : Cmod z <= 1 -> n2 z <= 1.
Proof. intro Hz. rewrite <- Cmod_sq. pose proof (Cmod_ge_0 z). nra. Qed.

Lemma cis_neg w : cis (- w) = (cos w, - sin w).
Proof. unfold cis. rewrite cos_neg, sin_neg. reflexivity. Qed.

(* gain^2 as a quotient of squared moduli *)
Lemma gain_sq f w :
  ceval (fden f) (cis (- w)) <> RtoC 0 ->
  gain f w ^ 2 = n2 (ceval (fnum f) (cis (- w))) / n2 (ceval (fden f) (cis (- w))).
Proof.
  intro Hd. unfold gain, freq_response, H.
  rewrite Cmod_div by exact Hd.
  unfold Rdiv. rewrite Rpow_mult_distr, pow_inv, !Cmod_sq. reflexivity.
Qed.

Lemma gain_nonneg f w : 0 <= gain f w.
Proof. unfold gain. apply Cmod_ge_0. Qed.

Lemma gain_eq_1 f w : gain f w ^ 2 = 1 -> gain f w = 1.
Proof. intro Hs. pose proof (gain_nonneg f w) as Hn. nra. Qed.

Lemma gain_lt f g w1 w2 : gain f w1 ^ 2 < gain g w2 ^ 2 -> gain f w1 < gain g w2.
Proof.
  intro Hs. pose proof (gain_nonneg f w1) as H1. pose proof (gain_nonneg g w2) as H2. nra.
Qed.

(* squared modulus of polynomials of order 0, 1, 2 at e^{-jw} *)
Lemma n2_ord0 a w : n2 (ceval [a] (cis (- w))) = a ^ 2.
Proof.
  rewrite cis_neg. unfold n2. cbn [ceval]. unfold Cplus, Cmult, RtoC. cbn [fst snd]. ring.
Qed.

Lemma n2_ord1 a b w : n2 (ceval [a; b] (cis (- w))) = a ^ 2 + 2 * a * b * cos w + b ^ 2.
Proof.
  rewrite cis_neg. unfold n2. cbn [ceval]. unfold Cplus, Cmult, RtoC. cbn [fst snd].
  pose proof (sin2_cos2 w) as E. unfold Rsqr in E.
  set (c := cos w) in *. set (s := sin w) in *.
  assert (HS : s * s = 1 - c * c) by lra.
  match goal with |- ?L = _ => replace L with ((a + c * b) ^ 2 + (s * s) * b ^ 2) by ring end.
  rewrite HS. ring.
Qed.

Lemma n2_ord2 a0 a1 a2 w :
  n2 (ceval [a0; a1; a2] (cis (- w))) =
  (a0 - a2) ^ 2 + a1 ^ 2 + 2 * a1 * (a0 + a2) * cos w + 4 * a0 * a2 * cos w ^ 2.
Proof.
  rewrite cis_neg. unfold n2. cbn [ceval]. unfold Cplus, Cmult, RtoC. cbn [fst snd].
  pose proof (sin2_cos2 w) as E. unfold Rsqr in E.
  set (c := cos w) in *. set (s := sin w) in *.
  assert (HS : s * s = 1 - c * c) by lra.
  match goal with |- ?L = _ =>
    replace L with ((a0 + a1 * c + a2 * (c * c - s * s)) ^ 2 + (s * s) * (a1 + 2 * a2 * c) ^ 2) by ring end.
  rewrite HS. ring.
Qed.

(* first order denominators 1 + k zinv *)
Lemma ord1_den_pos k c : Rabs k < 1 -> -1 <= c <= 1 -> 0 < 1 + 2 * k * c + k ^ 2.
Proof.
  intros Hk Hc. apply Rabs_def2 in Hk. destruct Hk as [Hk1 Hk2].
  destruct (Rle_lt_dec 0 k) as [Hp|Hn].
  - assert (Hq : (1 - k) ^ 2 <= 1 + 2 * k * c + k ^ 2) by nra. nra.
  - assert (Hq : (1 + k) ^ 2 <= 1 + 2 * k * c + k ^ 2) by nra. nra.
Qed.

Lemma stable_ord1 num k : Rabs k < 1 -> stable (Filt num [1; k]).
Proof.
  intros Hk zi Hz Hzero. cbn [fden ceval] in Hzero.
  destruct zi as [u v]. unfold Cplus, Cmult, RtoC in Hzero. cbn [fst snd] in Hzero.
  assert (Hre := f_equal fst Hzero). assert (Him := f_equal snd Hzero).
  cbn [fst snd] in Hre, Him. clear Hzero.
  assert (Hm : u ^ 2 + v ^ 2 <= 1).
  { apply Cmod_le_1 in Hz. unfold n2 in Hz. cbn [fst snd] in Hz. exact Hz. }
  apply Rabs_def2 in Hk. destruct Hk as [Hk1 Hk2].
  (* k u = -1 and k v = 0 *)
  assert (Hku : 1 + k * u = 0) by (etransitivity; [|exact Hre]; ring).
  assert (Hkv : k * v = 0) by (etransitivity; [|exact Him]; ring).
  clear Hre Him.
  assert (Hk2' : k ^ 2 * (u ^ 2 + v ^ 2) = 1) by nra.
  assert (Hk3 : k ^ 2 < 1) by nra.
  nra.
Qed.

Lemma ord1_nonzero_on_circle num k w : Rabs k < 1 -> ceval (fden (Filt num [1; k])) (cis (- w)) <> RtoC 0.
Proof.
  intros Hk. apply (stable_ord1 num k Hk).
  unfold Cmod, cis. cbn [fst snd]. rewrite cos_neg, sin_neg.
  replace (cos w ^ 2 + (- sin w) ^ 2) with 1.
  - rewrite sqrt_1. lra.
  - pose proof (sin2_cos2 w) as E. unfold Rsqr in E. nra.
Qed.

(* second order denominators 1 + a zinv + b zinv^2: Jury / Schur-Cohn conditions *)
Lemma stable_ord2 num a b : Rabs b < 1 -> Rabs a < 1 + b -> stable (Filt num [1; a; b]).
Proof.
  intros Hb Ha zi Hz Hzero. cbn [fden ceval] in Hzero.
  destruct zi as [u v]. unfold Cplus, Cmult, RtoC in Hzero. cbn [fst snd] in Hzero.
  assert (Hre := f_equal fst Hzero). assert (Him := f_equal snd Hzero).
  cbn [fst snd] in Hre, Him. clear Hzero.
  assert (Hm : u ^ 2 + v ^ 2 <= 1).
  { apply Cmod_le_1 in Hz. unfold n2 in Hz. cbn [fst snd] in Hz. exact Hz. }
  apply Rabs_def2 in Hb. destruct Hb as [Hb1 Hb2].
  apply Rabs_def2 in Ha. destruct Ha as [Ha1 Ha2].
  (* Him: v (a + 2 b u) = 0;  Hre: 1 + a u + b (u^2 - v^2) = 0 *)
  assert (Hv : v * (a + 2 * b * u) = 0) by (etransitivity; [|exact Him]; ring).
  assert (Hre' : 1 + a * u + b * (u ^ 2 - v ^ 2) = 0) by (etransitivity; [|exact Hre]; ring).
  clear Hre Him.
  apply Rmult_integral in Hv. destruct Hv as [Hv0|Hv1].
  - subst v. assert (Hr : 1 + a * u + b * u ^ 2 = 0) by nra.
    assert (Hu : -1 <= u <= 1) by nra.
    destruct (Rle_lt_dec 0 u) as [Hup|Hun].
    + (* 1 + a u + b u^2 > 1 - (1+b) u + b u^2 = (1-u)(1-bu) >= 0 unless u = 0 *)
      destruct (Req_dec u 0) as [Hu0|Hu0]; [subst u; lra|].
      assert (0 < u) by lra.
      assert (Hq : (1 - u) * (1 - b * u) >= 0) by (apply Rle_ge; apply Rmult_le_pos; nra).
      nra.
    + assert (Hq : (1 + u) * (1 + b * u) >= 0) by (apply Rle_ge; apply Rmult_le_pos; nra).
      nra.
  - (* a = -2 b u: real part gives 1 = b (u^2 + v^2) *)
    assert (Hr : 1 = b * (u ^ 2 + v ^ 2)) by nra.
    destruct (Rle_lt_dec b 0) as [Hbn|Hbp]; nra.
Qed.

(* the single pole of a first order section 1 + k zinv is z = -k *)
Lemma pole_of_ord1 num k (p : C) : is_pole (Filt num [1; k]) p <-> p = RtoC (- k).
Proof.
  unfold is_pole. cbn [fden rev app ceval]. destruct p as [u v]. unfold Cplus, Cmult, RtoC. cbn [fst snd].
  split; intro Hp.
  - assert (Hre := f_equal fst Hp). assert (Him := f_equal snd Hp). cbn [fst snd] in Hre, Him.
    assert (Hu : u = - k) by (ring_simplify in Hre; lra).
    assert (Hv : v = 0) by (ring_simplify in Him; lra).
    subst. reflexivity.
  - assert (Hu := f_equal fst Hp). assert (Hv := f_equal snd Hp). cbn [fst snd] in Hu, Hv. subst.
    apply injective_projections; cbn [fst snd]; ring.
Qed.
