(* C13 - lowpass / highpass: the z strategies and the four exponential strategies. *)
From Coq Require Import Reals List Lra Psatz.
From Coquelicot Require Import Complex.
From AL Require Import C13.Model C13.Spec C13.Proofs_Base C13.Proofs_Ord1 C13.Proofs_LPHP.
Import ListNotations.
Open Scope R_scope.

(* ------------------------------------------------------------------ lowpass.z *)
Section LowpassZ.
Variable wc : R.
Hypothesis Hw : 0 < wc < PI.
Let Rr := lowpass_z_R wc.

Lemma lowpass_z_shape : lowpass_z wc = Filt [(1 + Rr) / 2; (1 + Rr) / 2] [1; Rr].
Proof. reflexivity. Qed.

Lemma lowpass_z_dc_gain : unit_gain_at (lowpass_z wc) 0.
Proof.
  destruct (lowpass_z_R_facts wc Hw) as [Ha _]. unfold unit_gain_at. rewrite lowpass_z_shape.
  apply onezero_dc; [exact Ha|reflexivity].
Qed.

Lemma lowpass_z_half_power : half_power_at (lowpass_z wc) wc.
Proof.
  destruct (lowpass_z_R_facts wc Hw) as [Ha E]. unfold half_power_at. rewrite lowpass_z_shape.
  apply (onezero_half_power _ Rr (cos wc)); [exact Ha|reflexivity|reflexivity|exact E].
Qed.

Lemma lowpass_z_monotone : gain_decreasing (lowpass_z wc).
Proof.
  destruct (lowpass_z_R_facts wc Hw) as [Ha _]. rewrite lowpass_z_shape.
  apply onezero_decreasing; [exact Ha|]. apply Rabs_def2 in Ha. unfold Rr. lra.
Qed.

Lemma lowpass_z_pole_inside : Rabs Rr < 1 /\ stable (lowpass_z wc).
Proof.
  destruct (lowpass_z_R_facts wc Hw) as [Ha _]. split; [exact Ha|].
  rewrite lowpass_z_shape. apply stable_ord1. exact Ha.
Qed.
End LowpassZ.

(* ----------------------------------------------------------------- highpass.z *)
Section HighpassZ.
Variable wc : R.
Hypothesis Hw : 0 < wc < PI.
Let Rr := highpass_z_R wc.

Lemma highpass_z_shape : highpass_z wc = Filt [(1 + Rr) / 2; - ((1 + Rr) / 2)] [1; - Rr].
Proof. reflexivity. Qed.

Lemma highpass_z_nyquist_gain : unit_gain_at (highpass_z wc) PI.
Proof.
  destruct (highpass_z_R_facts wc Hw) as [Ha _]. unfold unit_gain_at. rewrite highpass_z_shape.
  apply onezero_nyquist; [rewrite Rabs_Ropp; exact Ha|field].
Qed.

Lemma highpass_z_half_power : half_power_at (highpass_z wc) wc.
Proof.
  destruct (highpass_z_R_facts wc Hw) as [Ha E]. unfold half_power_at. rewrite highpass_z_shape.
  apply (onezero_half_power_hp _ (- Rr) (cos wc)); [rewrite Rabs_Ropp; exact Ha|reflexivity|field|].
  fold Rr in E. nra.
Qed.

Lemma highpass_z_monotone : gain_increasing (highpass_z wc).
Proof.
  destruct (highpass_z_R_facts wc Hw) as [Ha _]. rewrite highpass_z_shape.
  apply onezero_increasing; [rewrite Rabs_Ropp; exact Ha|]. apply Rabs_def2 in Ha. unfold Rr. lra.
Qed.

Lemma highpass_z_pole_inside : Rabs Rr < 1 /\ stable (highpass_z wc).
Proof.
  destruct (highpass_z_R_facts wc Hw) as [Ha _]. split; [exact Ha|].
  rewrite highpass_z_shape. apply stable_ord1. rewrite Rabs_Ropp. exact Ha.
Qed.
End HighpassZ.

(* ------------------------------------------------- the exponential strategies *)
Lemma lowpass_pole_exp_R_range wc : 0 < wc < PI -> 0 < lowpass_pole_exp_R wc < 1.
Proof. intros [H0 H1]. unfold lowpass_pole_exp_R. apply exp_neg_range. exact H0. Qed.

Lemma highpass_pole_exp_R_range wc : 0 < wc < PI -> 0 < highpass_pole_exp_R wc < 1.
Proof.
  intros [H0 H1]. unfold highpass_pole_exp_R.
  replace (wc - PI) with (- (PI - wc)) by ring. apply exp_neg_range. lra.
Qed.

Lemma lowpass_z_exp_R_range wc : 0 < wc < PI -> 0 < lowpass_z_exp_R wc < 1.
Proof. exact (highpass_pole_exp_R_range wc). Qed.

Lemma highpass_z_exp_R_range wc : 0 < wc < PI -> 0 < highpass_z_exp_R wc < 1.
Proof. exact (lowpass_pole_exp_R_range wc). Qed.

Lemma lowpass_pole_exp_dc_gain wc : 0 < wc < PI -> unit_gain_at (lowpass_pole_exp wc) 0.
Proof.
  intro Hw. pose proof (lowpass_pole_exp_R_range wc Hw) as Hr. unfold unit_gain_at.
  change (lowpass_pole_exp wc) with (Filt [1 - lowpass_pole_exp_R wc] [1; - lowpass_pole_exp_R wc]).
  apply onepole_dc; [apply Rabs_def1; lra|ring].
Qed.

Lemma lowpass_pole_exp_pole_inside wc : 0 < wc < PI ->
  0 < lowpass_pole_exp_R wc < 1 /\ stable (lowpass_pole_exp wc).
Proof.
  intro Hw. pose proof (lowpass_pole_exp_R_range wc Hw) as Hr. split; [exact Hr|].
  change (lowpass_pole_exp wc) with (Filt [1 - lowpass_pole_exp_R wc] [1; - lowpass_pole_exp_R wc]).
  apply stable_ord1. apply Rabs_def1; lra.
Qed.

Lemma highpass_pole_exp_nyquist_gain wc : 0 < wc < PI -> unit_gain_at (highpass_pole_exp wc) PI.
Proof.
  intro Hw. pose proof (highpass_pole_exp_R_range wc Hw) as Hr. unfold unit_gain_at.
  change (highpass_pole_exp wc) with (Filt [1 - highpass_pole_exp_R wc] [1; highpass_pole_exp_R wc]).
  apply onepole_nyquist; [apply Rabs_def1; lra|ring].
Qed.

Lemma highpass_pole_exp_pole_inside wc : 0 < wc < PI ->
  0 < highpass_pole_exp_R wc < 1 /\ stable (highpass_pole_exp wc).
Proof.
  intro Hw. pose proof (highpass_pole_exp_R_range wc Hw) as Hr. split; [exact Hr|].
  change (highpass_pole_exp wc) with (Filt [1 - highpass_pole_exp_R wc] [1; highpass_pole_exp_R wc]).
  apply stable_ord1. apply Rabs_def1; lra.
Qed.

Lemma lowpass_z_exp_dc_gain wc : 0 < wc < PI -> unit_gain_at (lowpass_z_exp wc) 0.
Proof.
  intro Hw. pose proof (lowpass_z_exp_R_range wc Hw) as Hr. unfold unit_gain_at.
  change (lowpass_z_exp wc) with
    (Filt [(lowpass_z_exp_R wc + 1) / 2; (lowpass_z_exp_R wc + 1) / 2] [1; lowpass_z_exp_R wc]).
  apply onezero_dc; [apply Rabs_def1; lra|field].
Qed.

Lemma lowpass_z_exp_pole_inside wc : 0 < wc < PI ->
  0 < lowpass_z_exp_R wc < 1 /\ stable (lowpass_z_exp wc).
Proof.
  intro Hw. pose proof (lowpass_z_exp_R_range wc Hw) as Hr. split; [exact Hr|].
  change (lowpass_z_exp wc) with
    (Filt [(lowpass_z_exp_R wc + 1) / 2; (lowpass_z_exp_R wc + 1) / 2] [1; lowpass_z_exp_R wc]).
  apply stable_ord1. apply Rabs_def1; lra.
Qed.

Lemma highpass_z_exp_nyquist_gain wc : 0 < wc < PI -> unit_gain_at (highpass_z_exp wc) PI.
Proof.
  intro Hw. pose proof (highpass_z_exp_R_range wc Hw) as Hr. unfold unit_gain_at.
  change (highpass_z_exp wc) with
    (Filt [(highpass_z_exp_R wc + 1) / 2; - ((highpass_z_exp_R wc + 1) / 2)] [1; - highpass_z_exp_R wc]).
  apply onezero_nyquist; [rewrite Rabs_Ropp; apply Rabs_def1; lra|field].
Qed.

Lemma highpass_z_exp_pole_inside wc : 0 < wc < PI ->
  0 < highpass_z_exp_R wc < 1 /\ stable (highpass_z_exp wc).
Proof.
  intro Hw. pose proof (highpass_z_exp_R_range wc Hw) as Hr. split; [exact Hr|].
  change (highpass_z_exp wc) with
    (Filt [(highpass_z_exp_R wc + 1) / 2; - ((highpass_z_exp_R wc + 1) / 2)] [1; - highpass_z_exp_R wc]).
  apply stable_ord1. rewrite Rabs_Ropp. apply Rabs_def1; lra.
Qed.
