(* C13 - the shape table used by the structural correspondence check is the model's. *)
From Coq Require Import Reals List.
From AL Require Import C13.Model C13.Check.
Import ListNotations.

Definition lens (f : filt) : nat * nat := (length (fnum f), length (fden f)).

Lemma shape_correct : forall p1 p2 : R,
  lens (lowpass_pole p1) = shape LPpole /\ lens (highpass_pole p1) = shape HPpole /\
  lens (lowpass_z p1) = shape LPz /\ lens (highpass_z p1) = shape HPz /\
  lens (lowpass_pole_exp p1) = shape LPpole_exp /\ lens (highpass_pole_exp p1) = shape HPpole_exp /\
  lens (lowpass_z_exp p1) = shape LPz_exp /\ lens (highpass_z_exp p1) = shape HPz_exp /\
  lens (resonator_poles_exp p1 p2) = shape RSpoles_exp /\
  lens (resonator_freq_poles_exp p1 p2) = shape RSfreq_poles_exp /\
  lens (resonator_z_exp p1 p2) = shape RSz_exp /\ lens (resonator_freq_z_exp p1 p2) = shape RSfreq_z_exp /\
  Forall (fun f => lens f = shape GTslaney) (gammatone_slaney p1 p2) /\
  (forall ph, lens (nth 0 (gammatone_sampled p1 p2 ph 4) (Filt [] [])) = shape (GTsampled0 4)) /\
  (forall ph, Forall (fun f => lens f = shape GTsampledN) (tl (gammatone_sampled p1 p2 ph 4))).
Proof.
  intros p1 p2. repeat split; try reflexivity.
  - repeat constructor.
  - intro ph. repeat constructor.
Qed.
