(* C13 - case records and boolean checkers of the vm_compute families.
   Observed floats arrive as exact rationals (a double is a dyadic rational), so
   every comparison below is exact rational arithmetic; the tolerances are the
   stated rounding allowance of the check (see trusted_base in harness/C13.py). *)
From Coq Require Import List Bool Arith ZArith QArith Qcanon String Uint63.
From AL Require Import Base.CaseLib C13.Model C13.Spec.
Import ListNotations.
Open Scope Qc_scope.

(* ------------------------------------------------------------------ helpers *)
(* exact value of a double: (-1)^neg * m * 2^e with the mantissa as a primitive integer
   (only a cheaper literal syntax for the generated case files; qc is the general form) *)
Definition fq (neg : bool) (m : int) (e : Z) : Qc :=
  let z := Uint63.to_Z m in
  let z := if neg then Z.opp z else z in
  match e with
  | Zneg p => Q2Qc (z # (2 ^ p))
  | _ => Q2Qc (inject_Z (z * 2 ^ e))
  end.

Definition near (tol a b : Qc) : bool := Qc_leb (a - b) tol && Qc_leb (b - a) tol.
Definition ctol : Qc := qc 1 1000000000.          (* 1e-9: contracts evaluated by the library *)
Definition ctol_sampled : Qc := qc 1 10000000.    (* 1e-7: gammatone.sampled first section, inside the region stated in the harness *)
Definition qabs (a : Qc) : Qc := if Qc_leb 0 a then a else - a.

Fixpoint strip0_rev (l : list Qc) : list Qc :=   (* drops leading zeros *)
  match l with
  | [] => []
  | a :: r => if Qc_eqb a 0 then strip0_rev r else l
  end.
(* coefficient lists are compared up to trailing zeros (a zero term is absent from a Poly) *)
Definition strip0 (l : list Qc) : list Qc := rev (strip0_rev (rev l)).
Definition coeffs_eqb (a b : list Qc) : bool := list_eqb Qc_eqb (strip0 a) (strip0 b).

Fixpoint nonincreasing (l : list Qc) : bool :=
  match l with
  | a :: ((b :: _) as r) => Qc_leb b a && nonincreasing r
  | _ => true
  end.
Fixpoint nondecreasing (l : list Qc) : bool :=
  match l with
  | a :: ((b :: _) as r) => Qc_leb a b && nondecreasing r
  | _ => true
  end.

(* --------------------------------------------------------------------- comb *)
(* kind: false = feedback (comb.fb / comb.tau with the observed alpha), true = feedforward *)
Record comb_case := CB { cb_ff : bool; cb_delay : nat; cb_alpha : Qc; cb_xs : list Qc;
                         cb_num : list Qc; cb_den : list Qc; cb_ys : list Qc }.
Definition comb_model (c : comb_case) : qfilt :=
  if cb_ff c then comb_ff (cb_delay c) (cb_alpha c) else comb_fb (cb_delay c) (cb_alpha c).
Definition corr_comb (c : comb_case) : bool :=
  coeffs_eqb (cb_num c) (qnum (comb_model c)) && coeffs_eqb (cb_den c) (qden (comb_model c)) &&
  list_eqb Qc_eqb (cb_ys c) (run (comb_model c) (cb_xs c)).

Definition fb_recurrence_b (delay : nat) (alpha : Qc) (xs ys : list Qc) : bool :=
  Nat.eqb (List.length ys) (List.length xs) &&
  forallb (fun n => Qc_eqb (nth n ys 0)
                      (nth n xs 0 + alpha * (if (n <? delay)%nat then 0 else nth (n - delay) ys 0)))
          (seq 0 (List.length xs)).
Definition ff_recurrence_b (delay : nat) (alpha : Qc) (xs ys : list Qc) : bool :=
  Nat.eqb (List.length ys) (List.length xs) &&
  forallb (fun n => Qc_eqb (nth n ys 0)
                      (nth n xs 0 + alpha * (if (n <? delay)%nat then 0 else nth (n - delay) xs 0)))
          (seq 0 (List.length xs)).
Definition holds_comb (c : comb_case) : bool :=
  if cb_ff c then ff_recurrence_b (cb_delay c) (cb_alpha c) (cb_xs c) (cb_ys c)
  else fb_recurrence_b (cb_delay c) (cb_alpha c) (cb_xs c) (cb_ys c).

(* ---------------------------------------------------------------- contracts *)
Inductive strat :=
  | LPpole | HPpole | LPz | HPz | LPpole_exp | HPpole_exp | LPz_exp | HPz_exp
  | RSpoles_exp | RSfreq_poles_exp | RSz_exp | RSfreq_z_exp
  | GTsampled0 (eta : nat) | GTsampledN | GTslaney.

(* lengths of the model's coefficient lists (Proofs.v: shape_correct) *)
Definition shape (s : strat) : nat * nat :=
  match s with
  | LPpole | HPpole | LPpole_exp | HPpole_exp => (1, 2)
  | LPz | HPz | LPz_exp | HPz_exp => (2, 2)
  | RSpoles_exp | RSfreq_poles_exp => (1, 3)
  | RSz_exp | RSfreq_z_exp => (3, 3)
  | GTsampled0 eta => (2 * eta, 3)
  | GTsampledN => (1, 3)
  | GTslaney => (2, 3)
  end%nat.

(* p1 = cutoff / freq, p2 = bandwidth (0 when unused); kind = type name of the returned object;
   gdc gny gat = abs(freq_response) at 0, pi and at the cut-off / centre frequency;
   grid = abs(freq_response) on 64 equally spaced frequencies of [0, pi] (pole and z strategies only);
   gres = abs(freq_response) at the resonant frequency of the freq_* resonators, when it exists *)
Record ccase := CC { c_s : strat; c_p1 : Qc; c_p2 : Qc; c_kind : string;
                     c_num : list Qc; c_den : list Qc;
                     c_gdc : Qc; c_gny : Qc; c_gat : Qc; c_grid : list Qc; c_gres : option Qc }.

Definition num0 c := nth 0 (c_num c) 0.
Definition num1 c := nth 1 (c_num c) 0.
Definition num2 c := nth 2 (c_num c) 0.
Definition den1 c := nth 1 (c_den c) 0.
Definition den2 c := nth 2 (c_den c) 0.

(* structure of the returned filter = structure of the model: container kind, orders,
   monic denominator, and the coefficient identities that hold exactly in floating point *)
Definition corr_contract (c : ccase) : bool :=
  String.eqb (c_kind c) "ZFilter" &&
  (List.length (c_num c) <=? fst (shape (c_s c)))%nat && (List.length (c_den c) <=? snd (shape (c_s c)))%nat &&
  Qc_eqb (nth 0 (c_den c) 0) 1 &&
  match c_s c with
  | LPpole | HPpole => (List.length (c_grid c) =? 64)%nat
  | LPz => (List.length (c_grid c) =? 64)%nat && Qc_eqb (num0 c) (num1 c)
  | HPz => (List.length (c_grid c) =? 64)%nat && Qc_eqb (num0 c) (- num1 c)
  | LPz_exp => Qc_eqb (num0 c) (num1 c)
  | HPz_exp => Qc_eqb (num0 c) (- num1 c)
  | RSz_exp | RSfreq_z_exp => Qc_eqb (num1 c) 0 && Qc_eqb (num0 c) (- num2 c)
  | _ => true
  end.

(* first order: the pole -den1 is strictly inside the unit circle *)
Definition inside1 (c : ccase) : bool := Qc_ltb (qabs (den1 c)) 1.
(* second order 1 + a zinv + b zinv^2: both poles strictly inside (Jury / Schur-Cohn) *)
Definition inside2 (c : ccase) : bool := Qc_ltb (qabs (den2 c)) 1 && Qc_ltb (qabs (den1 c)) (1 + den2 c).
Definition half_power (c : ccase) : bool := near ctol (c_gat c * c_gat c) (qc 1 2).

Definition holds_contract (c : ccase) : bool :=
  match c_s c with
  | LPpole | LPz => near ctol (c_gdc c) 1 && inside1 c && half_power c && nonincreasing (c_grid c)
  | HPpole | HPz => near ctol (c_gny c) 1 && inside1 c && half_power c && nondecreasing (c_grid c)
  | LPpole_exp | LPz_exp => near ctol (c_gdc c) 1 && inside1 c
  | HPpole_exp | HPz_exp => near ctol (c_gny c) 1 && inside1 c
  | RSpoles_exp | RSz_exp => near ctol (c_gat c) 1 && inside2 c
  | RSfreq_poles_exp | RSfreq_z_exp =>
      match c_gres c with Some g => near ctol g 1 | None => true end && inside2 c
  | GTsampled0 _ => near ctol_sampled (c_gat c) 1 && inside2 c
  | GTsampledN | GTslaney => near ctol (c_gat c) 1 && inside2 c
  end.

(* ------------------------------------------------------------- pole modulus *)
(* resonator denominators 1 + a zinv + b zinv^2: the poles are a conjugate pair (or double),
   hence both of modulus sqrt b, iff a^2 <= 4 b.  (b against exp(-bandwidth) is an
   enclosure goal, see harness.) *)
Record pcase := PC { p_s : strat; p_den : list Qc }.
Definition corr_poles (c : pcase) : bool :=
  (List.length (p_den c) <=? 3)%nat && Qc_eqb (nth 0 (p_den c) 0) 1.
Definition holds_poles (c : pcase) : bool :=
  let a := nth 1 (p_den c) 0 in let b := nth 2 (p_den c) 0 in
  Qc_ltb 0 b && Qc_leb (a * a) (qc 4 1 * b).

(* ------------------------------------------------- stream-valued parameters *)
(* a float as (sign bit, exact value): bit-equality of doubles (NaN never occurs here) *)
Definition fl := (bool * Qc)%type.
Definition fl_eqb (a b : fl) : bool := Bool.eqb (fst a) (fst b) && Qc_eqb (snd a) (snd b).
(* s_stream: for every coefficient position, the first n values of the coefficient of the
   design called with Stream parameters; s_const: the same positions of the designs called
   with the n-th parameter values as plain floats. *)
Record scase := SC { s_n : nat; s_stream : list (list fl); s_const : list (list fl) }.
Definition corr_stream (c : scase) : bool :=
  (List.length (s_stream c) =? List.length (s_const c))%nat &&
  forallb (fun r => (List.length r =? s_n c)%nat) (s_stream c) &&
  forallb (fun r => (List.length r =? s_n c)%nat) (s_const c).
Definition holds_stream (c : scase) : bool :=
  list_eqb (list_eqb fl_eqb) (s_stream c) (s_const c).

(* ---------------------------------------------------------------------- erb *)
(* which: false = gm90 (constants k1 = 24.7, k2 = 4.37e-3), true = mg83 (6.23e-6, 93.39e-3, 28.52) *)
Record ecase := EC { e_mg83 : bool; e_k1 : Qc; e_k2 : Qc; e_k3 : Qc; e_freq : Qc; e_hz : Qc; e_obs : Qc }.
Definition erb_model (c : ecase) : Qc :=
  if e_mg83 c then erb_mg83 (e_k1 c) (e_k2 c) (e_k3 c) (e_freq c) (e_hz c)
  else erb_gm90 (e_k1 c) (e_k2 c) (e_freq c) (e_hz c).
Definition corr_erb (c : ecase) : bool := Qc_eqb (e_obs c) (erb_model c).
Definition holds_erb (c : ecase) : bool := Qc_eqb (e_obs c) (erb_model c).
