(* C13 - proved statements, part 1: lowpass / highpass designs (8 strategies).
   Vocabulary (Spec.v): gain f w = |H_f(e^{-jw})| = abs(f.freq_response(w));
   unit_gain_at f w: gain f w = 1; half_power_at f w: gain f w ^ 2 = 1/2;
   gain_decreasing / gain_increasing f: strictly monotone on [0, pi];
   stable f: the denominator has no zero with |zinv| <= 1 (all poles strictly inside the unit circle).
   All cut-offs 0 < wc < pi (the quantifier domain [1e-3, pi - 1e-3] is inside).
   One theorem per strategy, a conjunction of its contracts in the order
   gain / half power / monotone / pole inside (each Print Assumptions costs ~1 s of every check). *)
From Coq Require Import Reals List Lra.
From Coquelicot Require Import Complex.
From AL Require Import C13.Model C13.Spec C13.Proofs_Base C13.Proofs_Ord1 C13.Proofs_LPHP C13.Proofs_LPHP2 C13.Proofs_Gamma C13.Proofs_Examples.
Import ListNotations.
Open Scope R_scope.

(* lowpass.pole: unit gain at DC, half power at the cut-off (for the z strategy including cos wc = 0),
   strictly monotone magnitude, pole strictly inside the unit circle *)
Theorem C13_lowpass_pole_contracts : forall wc, 0 < wc < PI ->
  unit_gain_at (lowpass_pole wc) 0 /\ half_power_at (lowpass_pole wc) wc /\ gain_decreasing (lowpass_pole wc) /\
  (0 < lowpass_pole_R wc < 1 /\ stable (lowpass_pole wc)).
Proof.
  intros wc Hw.
  exact (conj (lowpass_pole_dc_gain wc Hw) (conj (lowpass_pole_half_power wc Hw) (conj (lowpass_pole_monotone wc Hw) (lowpass_pole_pole_inside wc Hw)))).
Qed.
Print Assumptions C13_lowpass_pole_contracts.

(* highpass.pole: unit gain at Nyquist, half power at the cut-off (for the z strategy including cos wc = 0),
   strictly monotone magnitude, pole strictly inside the unit circle *)
Theorem C13_highpass_pole_contracts : forall wc, 0 < wc < PI ->
  unit_gain_at (highpass_pole wc) PI /\ half_power_at (highpass_pole wc) wc /\ gain_increasing (highpass_pole wc) /\
  (0 < highpass_pole_R wc < 1 /\ stable (highpass_pole wc)).
Proof.
  intros wc Hw.
  exact (conj (highpass_pole_nyquist_gain wc Hw) (conj (highpass_pole_half_power wc Hw) (conj (highpass_pole_monotone wc Hw) (highpass_pole_pole_inside wc Hw)))).
Qed.
Print Assumptions C13_highpass_pole_contracts.

(* lowpass.z: unit gain at DC, half power at the cut-off (for the z strategy including cos wc = 0),
   strictly monotone magnitude, pole strictly inside the unit circle *)
Theorem C13_lowpass_z_contracts : forall wc, 0 < wc < PI ->
  unit_gain_at (lowpass_z wc) 0 /\ half_power_at (lowpass_z wc) wc /\ gain_decreasing (lowpass_z wc) /\
  (Rabs (lowpass_z_R wc) < 1 /\ stable (lowpass_z wc)).
Proof.
  intros wc Hw.
  exact (conj (lowpass_z_dc_gain wc Hw) (conj (lowpass_z_half_power wc Hw) (conj (lowpass_z_monotone wc Hw) (lowpass_z_pole_inside wc Hw)))).
Qed.
Print Assumptions C13_lowpass_z_contracts.

(* highpass.z: unit gain at Nyquist, half power at the cut-off (for the z strategy including cos wc = 0),
   strictly monotone magnitude, pole strictly inside the unit circle *)
Theorem C13_highpass_z_contracts : forall wc, 0 < wc < PI ->
  unit_gain_at (highpass_z wc) PI /\ half_power_at (highpass_z wc) wc /\ gain_increasing (highpass_z wc) /\
  (Rabs (highpass_z_R wc) < 1 /\ stable (highpass_z wc)).
Proof.
  intros wc Hw.
  exact (conj (highpass_z_nyquist_gain wc Hw) (conj (highpass_z_half_power wc Hw) (conj (highpass_z_monotone wc Hw) (highpass_z_pole_inside wc Hw)))).
Qed.
Print Assumptions C13_highpass_z_contracts.

(* lowpass.pole_exp: unit gain at DC, pole strictly inside the unit circle *)
Theorem C13_lowpass_pole_exp_contracts : forall wc, 0 < wc < PI ->
  unit_gain_at (lowpass_pole_exp wc) 0 /\ (0 < lowpass_pole_exp_R wc < 1 /\ stable (lowpass_pole_exp wc)).
Proof. intros wc Hw. exact (conj (lowpass_pole_exp_dc_gain wc Hw) (lowpass_pole_exp_pole_inside wc Hw)). Qed.
Print Assumptions C13_lowpass_pole_exp_contracts.

(* highpass.pole_exp: unit gain at Nyquist, pole strictly inside the unit circle *)
Theorem C13_highpass_pole_exp_contracts : forall wc, 0 < wc < PI ->
  unit_gain_at (highpass_pole_exp wc) PI /\ (0 < highpass_pole_exp_R wc < 1 /\ stable (highpass_pole_exp wc)).
Proof. intros wc Hw. exact (conj (highpass_pole_exp_nyquist_gain wc Hw) (highpass_pole_exp_pole_inside wc Hw)). Qed.
Print Assumptions C13_highpass_pole_exp_contracts.

(* lowpass.z_exp: unit gain at DC, pole strictly inside the unit circle *)
Theorem C13_lowpass_z_exp_contracts : forall wc, 0 < wc < PI ->
  unit_gain_at (lowpass_z_exp wc) 0 /\ (0 < lowpass_z_exp_R wc < 1 /\ stable (lowpass_z_exp wc)).
Proof. intros wc Hw. exact (conj (lowpass_z_exp_dc_gain wc Hw) (lowpass_z_exp_pole_inside wc Hw)). Qed.
Print Assumptions C13_lowpass_z_exp_contracts.

(* highpass.z_exp: unit gain at Nyquist, pole strictly inside the unit circle *)
Theorem C13_highpass_z_exp_contracts : forall wc, 0 < wc < PI ->
  unit_gain_at (highpass_z_exp wc) PI /\ (0 < highpass_z_exp_R wc < 1 /\ stable (highpass_z_exp wc)).
Proof. intros wc Hw. exact (conj (highpass_z_exp_nyquist_gain wc Hw) (highpass_z_exp_pole_inside wc Hw)). Qed.
Print Assumptions C13_highpass_z_exp_contracts.

(* the only pole of a first order section 1 + k zinv is z = -k: with the theorems above the pole
   of the lowpass designs is R resp. -R (z strategies), of the highpass designs -R resp. R *)
Theorem C13_first_order_pole : forall num k (p : C), is_pole (Filt num [1; k]) p <-> p = RtoC (- k).
Proof. exact pole_of_ord1. Qed.
Print Assumptions C13_first_order_pole.

(* abs(freq_response) as the library computes it (|num| / |den| with trigonometric sums) is
   the modulus of the transfer function, wherever the denominator does not vanish *)
Theorem C13_gain_at_is_modulus : forall f w,
  ceval (fden f) (cis (- w)) <> RtoC 0 -> gain_at f w = Cmod (H f (cis (- w))).
Proof. exact gain_at_eq_gain. Qed.
Print Assumptions C13_gain_at_is_modulus.

(* ---- non-vacuity: the hypothesis 0 < wc < PI holds on the whole quantifier domain; a
        concrete non-trivial instance (wc = 1: R = 0.39634..., gain at cut-off 0.70710...);
        the special case cos wc = 0 of the z strategies is reached at wc = PI/2 (R = 0) *)
Example C13_lphp_instances :
  (forall wc, 1 / 1000 <= wc <= PI - 1 / 1000 -> 0 < wc < PI) /\
  (0 < PI / 2 < PI /\ lowpass_pole_R (PI / 2) = 2 - sqrt 3 /\ half_power_at (lowpass_pole (PI / 2)) (PI / 2)) /\
  (cos (PI / 2) = 0 /\ lowpass_z_R (PI / 2) = 0 /\ half_power_at (lowpass_z (PI / 2)) (PI / 2)).
Proof. exact lphp_instances. Qed.
Print Assumptions C13_lphp_instances.
