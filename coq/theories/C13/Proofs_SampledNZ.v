(* C13 - the numerator of the first gammatone.sampled section does not vanish at e^{-j freq},
   for eta = 1, 2, 3, 4 (so that section is "reachable": it can be divided by its own gain).

   With p = A e^{jw} (A = exp(-bandwidth)), q = e^{j phase}, the numerator produced by the
   (eta-1)-fold derivative is
       N(zi) = 1/2 [ q  E(p zi)  (1 - p~ zi)^eta  +  q~ E(p~ zi) (1 - p zi)^eta ]
   with E = 1, u, u (1 + u), u (1 + 4 u + u^2) for eta = 1 .. 4 (Eulerian polynomials: the
   z-transform of n^(eta-1) u^n).  At zi = e^{-jw}: p zi = A is real, |p~ zi| = A, so the first
   term has modulus E(A) |1 - p~ zi|^eta and the second at most E(A) (1 - A)^eta, and
   |1 - A e^{-2jw}| > 1 - A as soon as sin w <> 0. *)
From Coq Require Import Reals List Lra Psatz ZArith.
From Coquelicot Require Import Complex.
From AL Require Import C13.Model C13.Spec C13.Sampled C13.Proofs_Base C13.Proofs_Ord1 C13.Proofs_LPHP C13.Proofs_Gamma.
Import ListNotations.
Open Scope R_scope.

(* ------------------------------------------------------------------ constants for the C ring *)
Fixpoint Cnat (n : nat) : C := match n with O => RtoC 0 | S k => Cplus (RtoC 1) (Cnat k) end.
Lemma RtoC_INR n : RtoC (INR n) = Cnat n.
Proof. induction n as [|n IH]; [reflexivity|]. rewrite S_INR, RtoC_plus, IH. cbn [Cnat]. ring. Qed.
Lemma RtoC_nat k : RtoC (IZR (Z.of_nat k)) = Cnat k.
Proof. rewrite <- INR_IZR_INZ. apply RtoC_INR. Qed.
Lemma RtoC_negnat k : RtoC (IZR (- Z.of_nat k)) = Copp (Cnat k).
Proof. rewrite opp_IZR, RtoC_opp, RtoC_nat. reflexivity. Qed.

Fixpoint Cpw (z : C) (n : nat) : C := match n with O => RtoC 1 | S k => Cmult z (Cpw z k) end.
Lemma Cmod_Cpw z n : Cmod (Cpw z n) = Cmod z ^ n.
Proof. induction n as [|n IH]; cbn [Cpw pow]; [apply Cmod_1|]. rewrite Cmod_mult, IH. reflexivity. Qed.

Definition E1 (u : C) : C := RtoC 1.
Definition E2 (u : C) : C := u.
Definition E3 (u : C) : C := (u * (1 + u))%C.
Definition E4 (u : C) : C := (u * (1 + Cnat 4 * u + u * u))%C.

(* the shape shared by the four orders *)
Definition two_terms (E : C -> C) (eta : nat) (q qb p pb h zi : C) : C :=
  (h * (q * (E (p * zi) * Cpw (1 - pb * zi) eta) + qb * (E (pb * zi) * Cpw (1 - p * zi) eta)))%C.

Section Factor.
Variables (n0 n1 d1 d2 : R) (q qb p pb h zi : C).
Hypothesis H0 : RtoC n0 = (h * (q + qb))%C.
Hypothesis H1 : RtoC n1 = (- (h * (p * qb + pb * q)))%C.
Hypothesis H2 : RtoC d1 = (- (p + pb))%C.
Hypothesis H3 : RtoC d2 = (p * pb)%C.

Ltac push :=
  cbn [ceval pow];
  rewrite ?RtoC_plus, ?RtoC_minus, ?RtoC_mult, ?RtoC_opp, ?RtoC_plus, ?RtoC_minus, ?RtoC_mult, ?RtoC_opp;
  change 2 with (IZR (Z.of_nat 2)); change 4 with (IZR (Z.of_nat 4)); change 8 with (IZR (Z.of_nat 8));
  change 18 with (IZR (Z.of_nat 18)); change 23 with (IZR (Z.of_nat 23)); change 32 with (IZR (Z.of_nat 32));
  change 5 with (IZR (Z.of_nat 5)); change (-2) with (IZR (- Z.of_nat 2)); change (-4) with (IZR (- Z.of_nat 4));
  change (-5) with (IZR (- Z.of_nat 5)); change (-8) with (IZR (- Z.of_nat 8));
  rewrite ?RtoC_nat, ?RtoC_negnat; rewrite ?H0, ?H1, ?H2, ?H3;
  unfold two_terms, E1, E2, E3, E4; cbn [Cpw Cnat]; ring.

Lemma factor1 : ceval [n0; n1] zi = two_terms E1 1 q qb p pb h zi.
Proof. push. Qed.

Lemma factor2 : ceval [0; - n0 * d1 + n1; - 2 * n0 * d2; - n1 * d2] zi = two_terms E2 2 q qb p pb h zi.
Proof. push. Qed.

Lemma factor3 :
  ceval [0; - n0 * d1 + n1; n0 * d1 ^ 2 - 4 * n0 * d2 - n1 * d1; 3 * n0 * d1 * d2 - 6 * n1 * d2;
         4 * n0 * d2 ^ 2 - n1 * d1 * d2; n1 * d2 ^ 2] zi = two_terms E3 3 q qb p pb h zi.
Proof.
  change 3 with (IZR (Z.of_nat 3)). change 6 with (IZR (Z.of_nat 6)). push.
Qed.

Lemma factor4 :
  ceval [0; - n0 * d1 + n1; 4 * n0 * d1 ^ 2 - 8 * n0 * d2 - 4 * n1 * d1;
         - n0 * d1 ^ 3 + 18 * n0 * d1 * d2 + n1 * d1 ^ 2 - 23 * n1 * d2;
         - 4 * n0 * d1 ^ 2 * d2 + 32 * n0 * d2 ^ 2;
         - 5 * n0 * d1 * d2 ^ 2 - n1 * d1 ^ 2 * d2 + 23 * n1 * d2 ^ 2;
         - 8 * n0 * d2 ^ 3 + 4 * n1 * d1 * d2 ^ 2; - n1 * d2 ^ 3] zi = two_terms E4 4 q qb p pb h zi.
Proof. push. Qed.
End Factor.

(* ------------------------------------------------------------------ moduli *)
Lemma pow_lt_strict r t n : 0 < r -> r < t -> (1 <= n)%nat -> r ^ n < t ^ n.
Proof.
  intros Hr Ht Hn. induction n as [|n IH]; [inversion Hn|].
  destruct n as [|n]; [cbn [pow]; lra|].
  assert (IH' : r ^ S n < t ^ S n) by (apply IH; apply le_n_S, Nat.le_0_l).
  assert (Hp : 0 < r ^ S n) by (apply pow_lt; exact Hr).
  change (r * r ^ S n < t * t ^ S n). nra.
Qed.

(* two terms of which the first is strictly bigger cannot cancel *)
Lemma two_terms_nz (E : C -> C) eta (q qb p pb h zi : C) (e t r : R) :
  h <> RtoC 0 -> Cmod q = 1 -> Cmod qb = 1 ->
  Cmod (E (p * zi)%C) = e -> Cmod (E (pb * zi)%C) <= e -> 0 < e ->
  Cmod (1 - pb * zi)%C = t -> Cmod (1 - p * zi)%C = r -> 0 < r -> r < t -> (1 <= eta)%nat ->
  two_terms E eta q qb p pb h zi <> RtoC 0.
Proof.
  intros Hh Hq Hqb He1 He2 He Ht Hr Hr0 Hrt Heta Hz. unfold two_terms in Hz.
  set (X := (q * (E (p * zi) * Cpw (1 - pb * zi) eta))%C) in *.
  set (Y := (qb * (E (pb * zi) * Cpw (1 - p * zi) eta))%C) in *.
  assert (HX : Cmod X = e * t ^ eta) by (unfold X; rewrite !Cmod_mult, Cmod_Cpw, Hq, He1, Ht; ring).
  assert (HY : Cmod Y <= e * r ^ eta).
  { unfold Y. rewrite !Cmod_mult, Cmod_Cpw, Hqb, Hr, Rmult_1_l.
    apply Rmult_le_compat_r; [apply pow_le; lra|exact He2]. }
  assert (Hpow : r ^ eta < t ^ eta) by (apply pow_lt_strict; assumption).
  assert (Hsum : Cmod (X + Y)%C = 0).
  { assert (Hm : Cmod (h * (X + Y))%C = 0) by (rewrite Hz; apply Cmod_0).
    rewrite Cmod_mult in Hm. apply Rmult_integral in Hm. destruct Hm as [Hm|Hm]; [|exact Hm].
    exfalso. apply Hh. apply Cmod_eq_0. exact Hm. }
  assert (Htri : Cmod X <= Cmod (X + Y)%C + Cmod Y).
  { replace X with ((X + Y) + - Y)%C at 1 by ring.
    eapply Rle_trans; [apply Cmod_triangle|]. rewrite Cmod_opp. lra. }
  assert (e * r ^ eta < e * t ^ eta) by (apply Rmult_lt_compat_l; assumption).
  lra.
Qed.

(* ------------------------------------------------------------------ instantiation *)
Section Instance.
Variables w bw phase : R.
Hypothesis Hw : 0 < w < PI.
Hypothesis Hb : 0 < bw.
Let A := gammatone_A bw.
Let p : C := (A * cos w, A * sin w).
Let pb : C := (A * cos w, - (A * sin w)).
Let q : C := (cos phase, sin phase).
Let qb : C := (cos phase, - sin phase).
Let h : C := RtoC (1 / 2).
Let zi : C := cis (- w).

Lemma A_range_ : 0 < A < 1.
Proof. apply gammatone_A_range. exact Hb. Qed.

Lemma sc1 x : sin x * sin x + cos x * cos x = 1.
Proof. pose proof (sin2_cos2 x) as E. unfold Rsqr in E. exact E. Qed.

Lemma inst_H0 : RtoC (cos phase) = (h * (q + qb))%C.
Proof. unfold h, q, qb, RtoC, Cmult, Cplus. cbn [fst snd]. apply injective_projections; cbn [fst snd]; field. Qed.

Lemma inst_H1 : RtoC (- (A * cos (w - phase))) = (- (h * (p * qb + pb * q)))%C.
Proof.
  rewrite cos_minus. unfold h, p, pb, q, qb, RtoC, Cmult, Cplus, Copp. cbn [fst snd].
  apply injective_projections; cbn [fst snd]; field.
Qed.

Lemma inst_H2 : RtoC (- (2 * A * cos w)) = (- (p + pb))%C.
Proof.
  unfold p, pb, RtoC, Cplus, Copp. cbn [fst snd]. apply injective_projections; cbn [fst snd]; ring.
Qed.

Lemma inst_H3 : RtoC (A ^ 2) = (p * pb)%C.
Proof.
  unfold p, pb, RtoC, Cmult. cbn [fst snd]. pose proof (sc1 w) as E.
  apply injective_projections; cbn [fst snd]; [|ring].
  replace (A * cos w * (A * cos w) - A * sin w * - (A * sin w)) with (A ^ 2 * (sin w * sin w + cos w * cos w)) by ring.
  rewrite E. ring.
Qed.

Lemma zi_eq : zi = (cos w, - sin w).
Proof. unfold zi. apply cis_neg. Qed.

Lemma p_zi : (p * zi)%C = RtoC A.
Proof.
  rewrite zi_eq. unfold p, RtoC, Cmult. cbn [fst snd]. pose proof (sc1 w) as E.
  apply injective_projections; cbn [fst snd]; [|ring].
  replace (A * cos w * cos w - A * sin w * - sin w) with (A * (sin w * sin w + cos w * cos w)) by ring.
  rewrite E. ring.
Qed.

Lemma Cmod_unit c s : s * s + c * c = 1 -> Cmod (c, s) = 1.
Proof.
  intro E. unfold Cmod. cbn [fst snd]. replace (c ^ 2 + s ^ 2) with 1 by (rewrite <- E; ring). apply sqrt_1.
Qed.

Lemma Cmod_q : Cmod q = 1.
Proof. apply Cmod_unit. apply sc1. Qed.
Lemma Cmod_qb : Cmod qb = 1.
Proof. apply Cmod_unit. pose proof (sc1 phase). nra. Qed.
Lemma Cmod_zi : Cmod zi = 1.
Proof. rewrite zi_eq. apply Cmod_unit. pose proof (sc1 w). nra. Qed.

Lemma Cmod_pb_zi : Cmod (pb * zi)%C = A.
Proof.
  pose proof A_range_ as HA. rewrite Cmod_mult, Cmod_zi, Rmult_1_r.
  replace pb with (Cmult (RtoC A) (cos w, - sin w)).
  - rewrite Cmod_mult, Cmod_R, Rabs_right by lra. rewrite Cmod_unit; [ring|]. pose proof (sc1 w). nra.
  - unfold pb, RtoC, Cmult. cbn [fst snd]. apply injective_projections; cbn [fst snd]; ring.
Qed.

Lemma h_nz : h <> RtoC 0.
Proof. unfold h, RtoC. intro E. assert (E1 := f_equal fst E). cbn [fst] in E1. lra. Qed.

(* |1 - p zi| = 1 - A  and  |1 - p~ zi| > 1 - A *)
Lemma Cmod_one_minus_p : Cmod (1 - p * zi)%C = 1 - A.
Proof.
  pose proof A_range_ as HA. rewrite p_zi. rewrite <- RtoC_minus, Cmod_R. apply Rabs_right. lra.
Qed.

Lemma Cmod_one_minus_pb : 1 - A < Cmod (1 - pb * zi)%C.
Proof.
  pose proof A_range_ as HA. assert (Hs : 0 < sin w) by (apply sin_gt_0; lra).
  pose proof (sc1 w) as E.
  assert (Hn : (1 - A) ^ 2 < Cmod (1 - pb * zi)%C ^ 2).
  { rewrite Cmod_sq. rewrite zi_eq. unfold n2, pb, RtoC, Cminus, Cplus, Copp, Cmult. cbn [fst snd].
    assert (Hss : 0 < sin w * sin w) by nra.
    match goal with |- _ < ?L =>
      replace L with ((1 - A) ^ 2 + 4 * A * (sin w * sin w)
            + A ^ 2 * ((sin w * sin w + cos w * cos w) ^ 2 - 1)
            + 2 * A * (1 - (sin w * sin w + cos w * cos w))) by ring end.
    rewrite E. nra. }
  pose proof (Cmod_ge_0 (1 - pb * zi)%C). nra.
Qed.

(* E(A) and the bounds |E(p~ zi)| <= E(A) *)
Lemma Cmod_RA : Cmod (RtoC A) = A.
Proof. pose proof A_range_. rewrite Cmod_R. apply Rabs_right. lra. Qed.

Lemma E3_mod : Cmod (E3 (p * zi)%C) = A * (1 + A) /\ Cmod (E3 (pb * zi)%C) <= A * (1 + A).
Proof.
  pose proof A_range_ as HA. unfold E3. split.
  - rewrite p_zi, <- RtoC_plus, <- RtoC_mult, Cmod_R. apply Rabs_right. nra.
  - rewrite Cmod_mult, Cmod_pb_zi. apply Rmult_le_compat_l; [lra|].
    eapply Rle_trans; [apply Cmod_triangle|]. rewrite Cmod_1, Cmod_pb_zi. lra.
Qed.

Lemma Cnat4 : Cnat 4 = RtoC 4.
Proof. rewrite <- (RtoC_nat 4). reflexivity. Qed.

Lemma E4_mod : Cmod (E4 (p * zi)%C) = A * (1 + 4 * A + A * A) /\ Cmod (E4 (pb * zi)%C) <= A * (1 + 4 * A + A * A).
Proof.
  pose proof A_range_ as HA. unfold E4. rewrite Cnat4. split.
  - rewrite p_zi, <- !RtoC_mult, <- !RtoC_plus, <- RtoC_mult, Cmod_R. apply Rabs_right. nra.
  - rewrite Cmod_mult, Cmod_pb_zi. apply Rmult_le_compat_l; [lra|].
    eapply Rle_trans; [apply Cmod_triangle|].
    assert (H1 : Cmod (1 + 4 * (pb * zi))%C <= 1 + 4 * A).
    { eapply Rle_trans; [apply Cmod_triangle|]. rewrite Cmod_1, Cmod_mult, Cmod_pb_zi, Cmod_R, Rabs_right by lra. lra. }
    rewrite Cmod_mult, Cmod_pb_zi. lra.
Qed.
Lemma E1_mod : Cmod (E1 (p * zi)%C) = 1 /\ Cmod (E1 (pb * zi)%C) <= 1.
Proof. unfold E1. rewrite Cmod_1. split; lra. Qed.

Lemma E2_mod : Cmod (E2 (p * zi)%C) = A /\ Cmod (E2 (pb * zi)%C) <= A.
Proof. unfold E2. rewrite p_zi, Cmod_RA, Cmod_pb_zi. split; lra. Qed.

Lemma terms_nz E eta e : Cmod (E (p * zi)%C) = e /\ Cmod (E (pb * zi)%C) <= e -> 0 < e -> (1 <= eta)%nat ->
  two_terms E eta q qb p pb h zi <> RtoC 0.
Proof.
  intros [He1 He2] He Heta. pose proof A_range_ as HA.
  apply (two_terms_nz E eta q qb p pb h zi e (Cmod (1 - pb * zi)%C) (1 - A));
    [exact h_nz|exact Cmod_q|exact Cmod_qb|exact He1|exact He2|exact He|reflexivity
    |exact Cmod_one_minus_p|lra|exact Cmod_one_minus_pb|exact Heta].
Qed.

Lemma den_shape : gammatone_den w bw = [1; - (2 * A * cos w); A ^ 2].
Proof. reflexivity. Qed.

Lemma sampled_num_nz_1 : ceval (sampled_num w bw phase 1) zi <> RtoC 0.
Proof.
  unfold sampled_num. cbv zeta. cbn [Nat.sub sampled_iter]. fold A.
  rewrite (factor1 _ _ q qb p pb h zi inst_H0 inst_H1).
  apply (terms_nz E1 1 1 E1_mod); [lra|apply le_n].
Qed.

Lemma sampled_num_nz_2 : ceval (sampled_num w bw phase 2) zi <> RtoC 0.
Proof.
  pose proof A_range_ as HA. unfold sampled_num. cbv zeta. cbn [Nat.sub]. rewrite den_shape. fold A.
  rewrite sampled_closed_2.
  rewrite (factor2 _ _ _ _ q qb p pb h zi inst_H0 inst_H1 inst_H2 inst_H3).
  apply (terms_nz E2 2 A E2_mod); [lra|repeat constructor].
Qed.

Lemma sampled_num_nz_3 : ceval (sampled_num w bw phase 3) zi <> RtoC 0.
Proof.
  pose proof A_range_ as HA. unfold sampled_num. cbv zeta. cbn [Nat.sub]. rewrite den_shape. fold A.
  rewrite sampled_closed_3.
  rewrite (factor3 _ _ _ _ q qb p pb h zi inst_H0 inst_H1 inst_H2 inst_H3).
  apply (terms_nz E3 3 (A * (1 + A)) E3_mod); [nra|repeat constructor].
Qed.

Lemma sampled_num_nz_4 : ceval (sampled_num w bw phase 4) zi <> RtoC 0.
Proof.
  pose proof A_range_ as HA. unfold sampled_num. cbv zeta. cbn [Nat.sub]. rewrite den_shape. fold A.
  rewrite sampled_closed_4.
  rewrite (factor4 _ _ _ _ q qb p pb h zi inst_H0 inst_H1 inst_H2 inst_H3).
  apply (terms_nz E4 4 (A * (1 + 4 * A + A * A)) E4_mod); [nra|repeat constructor].
Qed.
End Instance.

(* the first section of gammatone.sampled is reachable for eta = 1 .. 4 *)
Lemma sampled_num_nz freq bw phase eta : 0 < freq < PI -> 0 < bw -> (1 <= eta <= 4)%nat ->
  ceval (sampled_num freq bw phase eta) (cis (- freq)) <> RtoC 0.
Proof.
  intros Hf Hb [H1 H4].
  destruct eta as [|[|[|[|[|e]]]]]; try (exfalso; inversion H1; fail).
  - apply sampled_num_nz_1; assumption.
  - apply sampled_num_nz_2; assumption.
  - apply sampled_num_nz_3; assumption.
  - apply sampled_num_nz_4; assumption.
  - exfalso. repeat (apply le_S_n in H4). inversion H4.
Qed.

(* hence: for eta = 1 .. 4 EVERY section of gammatone.sampled is stable, has pole radius
   exp(-bandwidth) and unit gain at the centre frequency, for every phase *)
Lemma gammatone_sampled_sections_eta_le_4 freq bw phase eta :
  0 < freq < PI -> 0 < bw -> (1 <= eta <= 4)%nat ->
  length (gammatone_sampled freq bw phase eta) = eta /\
  Forall (fun f => stable f /\ unit_gain_at f freq /\ poles_have_modulus f (exp (- bw)))
         (gammatone_sampled freq bw phase eta).
Proof.
  intros Hf Hb He. destruct (gammatone_sampled_sections freq bw phase eta Hb (proj1 He)) as [HL [HS [HT HH]]].
  split; [exact HL|]. specialize (HH (sampled_num_nz freq bw phase eta Hf Hb He)).
  revert HS HT HH. unfold gammatone_sampled. cbv zeta. cbn [hd tl].
  intros HS HT HH. inversion HS as [|f0 l [Hs0 Hp0] HSl]; subst.
  constructor; [split; [exact Hs0|split; [exact HH|exact Hp0]]|].
  apply Forall_forall. intros f Hin.
  rewrite Forall_forall in HSl, HT. destruct (HSl f Hin) as [Hsf Hpf].
  split; [exact Hsf|split; [apply HT; exact Hin|exact Hpf]].
Qed.
