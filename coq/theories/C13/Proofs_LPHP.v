(* C13 - the eight lowpass / highpass strategies. *)
From Coq Require Import Reals List Lra Psatz.
From Coquelicot Require Import Complex.
From AL Require Import C13.Model C13.Spec C13.Proofs_Base C13.Proofs_Ord1.
Import ListNotations.
Open Scope R_scope.

(* ------------------------------------------------------------- pole radii *)
Lemma lowpass_pole_R_facts wc : 0 < wc < PI ->
  0 < lowpass_pole_R wc < 1 /\ lowpass_pole_R wc ^ 2 - 2 * lowpass_pole_R wc * (2 - cos wc) + 1 = 0.
Proof.
  intro Hw. pose proof (cos_open wc Hw) as Hc. unfold lowpass_pole_R, lowpass_pole_x. cbv zeta.
  apply (pole_R_props (2 - cos wc)). lra.
Qed.

Lemma highpass_pole_R_facts wc : 0 < wc < PI ->
  0 < highpass_pole_R wc < 1 /\ highpass_pole_R wc ^ 2 - 2 * highpass_pole_R wc * (2 + cos wc) + 1 = 0.
Proof.
  intro Hw. pose proof (cos_open wc Hw) as Hc. unfold highpass_pole_R, highpass_pole_x. cbv zeta.
  apply (pole_R_props (2 + cos wc)). lra.
Qed.

Lemma exp_neg_range wc : 0 < wc -> 0 < exp (- wc) < 1.
Proof.
  intro Hw. split; [apply exp_pos|]. rewrite <- exp_0. apply exp_increasing. lra.
Qed.

Lemma z_denR_nonzero wc : z_denR wc <> 0.
Proof. unfold z_denR. destruct (Req_EM_T (cos wc) 0) as [E|E]; [lra|exact E]. Qed.

Lemma highpass_z_R_opp wc : highpass_z_R wc = - lowpass_z_R wc.
Proof. unfold highpass_z_R, lowpass_z_R. field. apply z_denR_nonzero. Qed.

(* R = (sin wc - 1) / cos wc (or 0 when cos wc = 0): |R| < 1 and cos wc (1 + R^2) + 2 R = 0 *)
Lemma lowpass_z_R_facts wc : 0 < wc < PI ->
  Rabs (lowpass_z_R wc) < 1 /\ cos wc * (1 + lowpass_z_R wc ^ 2) + 2 * lowpass_z_R wc = 0.
Proof.
  intros [Hw0 Hw1]. assert (Hs : 0 < sin wc) by (apply sin_gt_0; lra).
  pose proof (sin2_cos2 wc) as E. unfold Rsqr in E.
  unfold lowpass_z_R, z_denR. set (s := sin wc) in *. set (c := cos wc) in *.
  destruct (Req_EM_T c 0) as [Hc|Hc].
  - assert (Hs1 : s = 1) by nra.
    replace ((s - 1) / 1) with 0 by (rewrite Hs1; field).
    split; [rewrite Rabs_R0; lra|rewrite Hc; ring].
  - set (r := (s - 1) / c).
    assert (Hrc : r * c = s - 1) by (unfold r; field; exact Hc).
    assert (Hs1 : s < 1).
    { destruct (Rlt_le_dec s 1) as [Hlt|Hge]; [exact Hlt|]. exfalso. apply Hc. nra. }
    assert (HX : c * (c * (1 + r ^ 2) + 2 * r) = 0).
    { replace (c * (c * (1 + r ^ 2) + 2 * r)) with (c * c + (r * c) ^ 2 + 2 * (r * c)) by ring.
      rewrite Hrc. nra. }
    assert (HY : (1 - s) * (r ^ 2 * (1 + s) - (1 - s)) = 0).
    { replace ((1 - s) * (r ^ 2 * (1 + s) - (1 - s))) with ((r * c) ^ 2 - (1 - s) ^ 2 + r ^ 2 * (1 - s * s - c * c)) by ring.
      rewrite Hrc. replace (1 - s * s - c * c) with 0 by lra. ring. }
    apply Rmult_integral in HX. apply Rmult_integral in HY.
    destruct HX as [HX|HX]; [contradiction|]. destruct HY as [HY|HY]; [lra|].
    split; [|exact HX].
    assert (Hr2 : r ^ 2 < 1) by nra.
    apply Rabs_def1; nra.
Qed.

Lemma highpass_z_R_facts wc : 0 < wc < PI ->
  Rabs (highpass_z_R wc) < 1 /\ 2 * highpass_z_R wc - cos wc * (1 + highpass_z_R wc ^ 2) = 0.
Proof.
  intro Hw. destruct (lowpass_z_R_facts wc Hw) as [Ha Hb]. rewrite highpass_z_R_opp.
  split; [rewrite Rabs_Ropp; exact Ha|]. nra.
Qed.

(* the special case cos(cutoff) = 0 of the z strategies (cutoff = pi/2): R = 0 *)
Lemma lowpass_z_R_half_pi : lowpass_z_R (PI / 2) = 0.
Proof.
  unfold lowpass_z_R, z_denR. rewrite cos_PI2, sin_PI2.
  destruct (Req_EM_T 0 0) as [E|E]; [field|contradiction].
Qed.

(* -------------------------------------------------- half power, generic *)
Lemma onepole_half_power r c w : 0 < r < 1 -> cos w = c ->
  r ^ 2 - 2 * r * (2 - c) + 1 = 0 -> gain (Filt [1 - r] [1; - r]) w ^ 2 = 1 / 2.
Proof.
  intros Hr Hc E. rewrite gain_sq_onepole by (apply Rabs_def1; lra). rewrite Hc.
  assert (D : 1 + 2 * - r * c + (- r) ^ 2 = 2 * (1 - r) ^ 2) by nra.
  rewrite D. field. lra.
Qed.

Lemma onepole_half_power_hp r c w : 0 < r < 1 -> cos w = c ->
  r ^ 2 - 2 * r * (2 + c) + 1 = 0 -> gain (Filt [1 - r] [1; r]) w ^ 2 = 1 / 2.
Proof.
  intros Hr Hc E. rewrite gain_sq_onepole by (apply Rabs_def1; lra). rewrite Hc.
  assert (D : 1 + 2 * r * c + r ^ 2 = 2 * (1 - r) ^ 2) by nra.
  rewrite D. field. lra.
Qed.

Lemma onezero_half_power g r c w : Rabs r < 1 -> cos w = c -> g = (1 + r) / 2 ->
  c * (1 + r ^ 2) + 2 * r = 0 -> gain (Filt [g; g] [1; r]) w ^ 2 = 1 / 2.
Proof.
  intros Hr Hc Hg E. rewrite gain_sq_onezero by exact Hr. rewrite Hc.
  assert (Hcr : -1 <= c <= 1) by (rewrite <- Hc; apply cos_range).
  pose proof (ord1_den_pos r c Hr Hcr) as D.
  assert (N : g ^ 2 + 2 * g * g * c + g ^ 2 = (1 + 2 * r * c + r ^ 2) / 2) by (subst g; nra).
  rewrite N. field. lra.
Qed.

Lemma onezero_half_power_hp g k c w : Rabs k < 1 -> cos w = c -> g = (1 - k) / 2 ->
  - 2 * k - c * (1 + k ^ 2) = 0 -> gain (Filt [g; - g] [1; k]) w ^ 2 = 1 / 2.
Proof.
  intros Hr Hc Hg E. rewrite gain_sq_onezero by exact Hr. rewrite Hc.
  assert (Hcr : -1 <= c <= 1) by (rewrite <- Hc; apply cos_range).
  pose proof (ord1_den_pos k c Hr Hcr) as D.
  assert (N : g ^ 2 + 2 * g * - g * c + (- g) ^ 2 = (1 + 2 * k * c + k ^ 2) / 2) by (subst g; nra).
  rewrite N. field. lra.
Qed.

(* --------------------------------------------------------------- lowpass.pole *)
Section LowpassPole.
Variable wc : R.
Hypothesis Hw : 0 < wc < PI.
Let Rr := lowpass_pole_R wc.

Lemma lowpass_pole_shape : lowpass_pole wc = Filt [1 - Rr] [1; - Rr].
Proof. reflexivity. Qed.

Lemma lowpass_pole_dc_gain : unit_gain_at (lowpass_pole wc) 0.
Proof.
  destruct (lowpass_pole_R_facts wc Hw) as [[H0 H1] _]. unfold unit_gain_at. rewrite lowpass_pole_shape.
  apply onepole_dc; [apply Rabs_def1; unfold Rr; lra|ring].
Qed.

Lemma lowpass_pole_half_power : half_power_at (lowpass_pole wc) wc.
Proof.
  destruct (lowpass_pole_R_facts wc Hw) as [Hr E]. unfold half_power_at. rewrite lowpass_pole_shape.
  apply (onepole_half_power Rr (cos wc)); [exact Hr|reflexivity|exact E].
Qed.

Lemma lowpass_pole_monotone : gain_decreasing (lowpass_pole wc).
Proof.
  destruct (lowpass_pole_R_facts wc Hw) as [[H0 H1] _]. rewrite lowpass_pole_shape.
  apply onepole_decreasing; unfold Rr; lra.
Qed.

Lemma lowpass_pole_pole_inside : 0 < Rr < 1 /\ stable (lowpass_pole wc).
Proof.
  destruct (lowpass_pole_R_facts wc Hw) as [[H0 H1] _]. split; [unfold Rr; lra|].
  rewrite lowpass_pole_shape. apply stable_ord1. apply Rabs_def1; unfold Rr; lra.
Qed.
End LowpassPole.

(* -------------------------------------------------------------- highpass.pole *)
Section HighpassPole.
Variable wc : R.
Hypothesis Hw : 0 < wc < PI.
Let Rr := highpass_pole_R wc.

Lemma highpass_pole_shape : highpass_pole wc = Filt [1 - Rr] [1; Rr].
Proof. reflexivity. Qed.

Lemma highpass_pole_nyquist_gain : unit_gain_at (highpass_pole wc) PI.
Proof.
  destruct (highpass_pole_R_facts wc Hw) as [[H0 H1] _]. unfold unit_gain_at. rewrite highpass_pole_shape.
  apply onepole_nyquist; [apply Rabs_def1; unfold Rr; lra|ring].
Qed.

Lemma highpass_pole_half_power : half_power_at (highpass_pole wc) wc.
Proof.
  destruct (highpass_pole_R_facts wc Hw) as [Hr E]. unfold half_power_at. rewrite highpass_pole_shape.
  apply (onepole_half_power_hp Rr (cos wc)); [exact Hr|reflexivity|exact E].
Qed.

Lemma highpass_pole_monotone : gain_increasing (highpass_pole wc).
Proof.
  destruct (highpass_pole_R_facts wc Hw) as [[H0 H1] _]. rewrite highpass_pole_shape.
  apply onepole_increasing; unfold Rr; lra.
Qed.

Lemma highpass_pole_pole_inside : 0 < Rr < 1 /\ stable (highpass_pole wc).
Proof.
  destruct (highpass_pole_R_facts wc Hw) as [[H0 H1] _]. split; [unfold Rr; lra|].
  rewrite highpass_pole_shape. apply stable_ord1. apply Rabs_def1; unfold Rr; lra.
Qed.
End HighpassPole.
