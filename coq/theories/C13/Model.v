(* C13 - model of the filter designs of audiolazy/lazy_filters.py (comb, resonator,
   lowpass, highpass) and audiolazy/lazy_auditory.py (gammatone, erb,
   gammatone_erb_constants).  NO proofs in this file.

   A designed filter is the pair of its numerator / denominator coefficient
   lists in powers of z^-1 (what filt.numpoly / filt.denpoly hold; absent powers
   are 0).  Every design is written as explicit real expressions in the design
   parameter(s), one definition per intermediate name of the Python code
   (x, R, cost, gain, G, A, numR, denR ...; the Python name R is spelled Rr
   because R is the type of the reals here).

   Comb filters have rational coefficients: they are modelled over Qc together
   with the direct-form difference equation that a ZFilter runs. *)
From Coq Require Import Reals List ZArith QArith Qcanon.
From Coquelicot Require Import Complex.
Import ListNotations.

(* ------------------------------------------------------------------ filters *)
Record filt := Filt { fnum : list R; fden : list R }.

Section RealDesigns.
Open Scope R_scope.

(* polynomial in zinv with real coefficients at a complex point (Horner) *)
Fixpoint ceval (p : list R) (zi : C) : C :=
  match p with
  | [] => RtoC 0
  | a :: r => Cplus (RtoC a) (Cmult zi (ceval r zi))
  end.

(* the transfer function: ZFilter.freq_response(w) is H filt (exp (-j w)) *)
Definition H (f : filt) (zi : C) : C := Cdiv (ceval (fnum f) zi) (ceval (fden f) zi).
Definition cis (w : R) : C := (cos w, sin w).
Definition freq_response (f : filt) (w : R) : C := H f (cis (- w)).

(* real and imaginary part of  p (e^{-jw}) = sum_k a_k e^{-jkw},  and
   abs(freq_response) as the library computes it: |num| / |den| *)
Fixpoint ev_re_from (k : nat) (p : list R) (w : R) : R :=
  match p with
  | [] => 0
  | a :: r => a * cos (INR k * w) + ev_re_from (S k) r w
  end.
Fixpoint ev_im_from (k : nat) (p : list R) (w : R) : R :=
  match p with
  | [] => 0
  | a :: r => - (a * sin (INR k * w)) + ev_im_from (S k) r w
  end.
Definition nrm2 (p : list R) (w : R) : R := (ev_re_from 0 p w) ^ 2 + (ev_im_from 0 p w) ^ 2.
Definition mag2 (f : filt) (w : R) : R := nrm2 (fnum f) w / nrm2 (fden f) w.
Definition gain_at (f : filt) (w : R) : R := sqrt (nrm2 (fnum f) w) / sqrt (nrm2 (fden f) w).

(* ------------------------------------------------ lowpass / highpass (8) *)
(* lowpass.pole:  x = 2 - cos(cutoff); R = x - sqrt(x ** 2 - 1); (1 - R) / (1 - R * z ** -1) *)
Definition lowpass_pole_x (cutoff : R) : R := 2 - cos cutoff.
Definition lowpass_pole_R (cutoff : R) : R :=
  let x := lowpass_pole_x cutoff in x - sqrt (x ^ 2 - 1).
Definition lowpass_pole (cutoff : R) : filt :=
  let Rr := lowpass_pole_R cutoff in Filt [1 - Rr] [1; - Rr].

(* highpass.pole:  x = 2 + cos(cutoff); same R; (1 - R) / (1 + R * z ** -1) *)
Definition highpass_pole_x (cutoff : R) : R := 2 + cos cutoff.
Definition highpass_pole_R (cutoff : R) : R :=
  let x := highpass_pole_x cutoff in x - sqrt (x ^ 2 - 1).
Definition highpass_pole (cutoff : R) : filt :=
  let Rr := highpass_pole_R cutoff in Filt [1 - Rr] [1; Rr].

(* lowpass.z:  numR = sin(cutoff) - 1; denR = cos(cutoff), replaced by 1 when it is 0;
   R = numR / denR; gain = (1 + R) / 2; gain * (1 + z ** -1) / (1 + R * z ** -1) *)
Definition z_denR (cutoff : R) : R := if Req_EM_T (cos cutoff) 0 then 1 else cos cutoff.
Definition lowpass_z_R (cutoff : R) : R := (sin cutoff - 1) / z_denR cutoff.
Definition lowpass_z (cutoff : R) : filt :=
  let Rr := lowpass_z_R cutoff in
  let gain := (1 + Rr) / 2 in
  Filt [gain; gain] [1; Rr].

(* highpass.z:  numR = 1 - sin(cutoff); gain * (1 - z ** -1) / (1 - R * z ** -1) *)
Definition highpass_z_R (cutoff : R) : R := (1 - sin cutoff) / z_denR cutoff.
Definition highpass_z (cutoff : R) : filt :=
  let Rr := highpass_z_R cutoff in
  let gain := (1 + Rr) / 2 in
  Filt [gain; - gain] [1; - Rr].

(* lowpass.pole_exp: R = exp(-cutoff);  highpass.pole_exp: R = exp(cutoff - pi) *)
Definition lowpass_pole_exp_R (cutoff : R) : R := exp (- cutoff).
Definition lowpass_pole_exp (cutoff : R) : filt :=
  let Rr := lowpass_pole_exp_R cutoff in Filt [1 - Rr] [1; - Rr].
Definition highpass_pole_exp_R (cutoff : R) : R := exp (cutoff - PI).
Definition highpass_pole_exp (cutoff : R) : filt :=
  let Rr := highpass_pole_exp_R cutoff in Filt [1 - Rr] [1; Rr].

(* lowpass.z_exp: R = exp(cutoff - pi); G = (R + 1) / 2; G * (1 + z ** -1) / (1 + R * z ** -1)
   highpass.z_exp: R = exp(-cutoff);    G * (1 - z ** -1) / (1 - R * z ** -1) *)
Definition lowpass_z_exp_R (cutoff : R) : R := exp (cutoff - PI).
Definition lowpass_z_exp (cutoff : R) : filt :=
  let Rr := lowpass_z_exp_R cutoff in
  let G := (Rr + 1) / 2 in
  Filt [G; G] [1; Rr].
Definition highpass_z_exp_R (cutoff : R) : R := exp (- cutoff).
Definition highpass_z_exp (cutoff : R) : filt :=
  let Rr := highpass_z_exp_R cutoff in
  let G := (Rr + 1) / 2 in
  Filt [G; - G] [1; - Rr].

(* ------------------------------------------------------- resonators (4) *)
(* R = exp(-bandwidth * .5) in all four *)
Definition resonator_R (bandwidth : R) : R := exp (- bandwidth * (1 / 2)).

(* poles_exp: cost = cos(freq) * (2 * R) / (1 + R ** 2); gain = (1 - R ** 2) * sqrt(1 - cost ** 2);
   gain / (1 - 2 * R * cost * z ** -1 + R ** 2 * z ** -2) *)
Definition poles_exp_cost (freq bandwidth : R) : R :=
  let Rr := resonator_R bandwidth in cos freq * (2 * Rr) / (1 + Rr ^ 2).
Definition resonator_poles_exp (freq bandwidth : R) : filt :=
  let Rr := resonator_R bandwidth in
  let cost := poles_exp_cost freq bandwidth in
  let gain := (1 - Rr ^ 2) * sqrt (1 - cost ^ 2) in
  Filt [gain] [1; - (2 * Rr * cost); Rr ^ 2].

(* freq_poles_exp: gain = (1 - R ** 2) * sin(freq); denominator with cos(freq) itself *)
Definition resonator_freq_poles_exp (freq bandwidth : R) : filt :=
  let Rr := resonator_R bandwidth in
  let gain := (1 - Rr ^ 2) * sin freq in
  Filt [gain] [1; - (2 * Rr * cos freq); Rr ^ 2].

(* z_exp: cost = cos(freq) * (1 + R ** 2) / (2 * R); gain = (1 - R ** 2) * .5;
   gain * (1 - z ** -2) / (1 - 2 * R * cost * z ** -1 + R ** 2 * z ** -2) *)
Definition z_exp_cost (freq bandwidth : R) : R :=
  let Rr := resonator_R bandwidth in cos freq * (1 + Rr ^ 2) / (2 * Rr).
Definition resonator_z_exp (freq bandwidth : R) : filt :=
  let Rr := resonator_R bandwidth in
  let cost := z_exp_cost freq bandwidth in
  let gain := (1 - Rr ^ 2) * (1 / 2) in
  Filt [gain; 0; - gain] [1; - (2 * Rr * cost); Rr ^ 2].

(* freq_z_exp: same numerator; denominator with cos(freq) itself *)
Definition resonator_freq_z_exp (freq bandwidth : R) : filt :=
  let Rr := resonator_R bandwidth in
  let gain := (1 - Rr ^ 2) * (1 / 2) in
  Filt [gain; 0; - gain] [1; - (2 * Rr * cos freq); Rr ^ 2].

(* ---------------------------------------------------------------- comb.tau *)
(* alpha = e ** (-delay / tau); tau = inf (None) gives e ** -0.0 = 1 *)
Definition comb_tau_alpha (delay : R) (tau : option R) : R :=
  match tau with
  | Some t => exp (- delay / t)
  | None => 1
  end.

(* --------------------------------------------------------------- gammatone *)
(* f / abs(f.freq_response(freq)): every numerator coefficient is divided by the gain *)
Definition normalize (f : filt) (w : R) : filt :=
  Filt (map (fun c => c / gain_at f w) (fnum f)) (fden f).

(* A = exp(-bandwidth); denominator = 1 - 2 * A * cos(freq) * z ** -1 + A ** 2 * z ** -2 *)
Definition gammatone_A (bandwidth : R) : R := exp (- bandwidth).
Definition gammatone_den (freq bandwidth : R) : list R :=
  let A := gammatone_A bandwidth in [1; - (2 * A * cos freq); A ^ 2].

(* gammatone.slaney: coeff = [cosw + s1 * (sqrt(2) + s2) * sinw for s1 in sig for s2 in sig],
   sig = [1., -1.]; sections (1 - A * c * z ** -1) / denominator, each normalised at freq *)
Definition slaney_coeff (freq : R) : list R :=
  let cosw := cos freq in
  let sinw := sin freq in
  [cosw + 1 * (sqrt 2 + 1) * sinw; cosw + 1 * (sqrt 2 + -1) * sinw;
   cosw + -1 * (sqrt 2 + 1) * sinw; cosw + -1 * (sqrt 2 + -1) * sinw].
Definition slaney_section (freq bandwidth c : R) : filt :=
  Filt [1; - (gammatone_A bandwidth * c)] (gammatone_den freq bandwidth).
Definition gammatone_slaney (freq bandwidth : R) : list filt :=
  map (fun c => normalize (slaney_section freq bandwidth c) freq) (slaney_coeff freq).

(* gammatone.klapuri: resons = [resonator.z_exp, resonator.poles_exp] * 2 on (freq, bw * 2) *)
Definition gammatone_klapuri (freq bandwidth : R) : list filt :=
  let bw2 := bandwidth * 2 in
  [resonator_z_exp freq bw2; resonator_poles_exp freq bw2;
   resonator_z_exp freq bw2; resonator_poles_exp freq bw2].

(* gammatone.sampled.  Polynomials in z^-1 as coefficient lists. *)
Fixpoint padd (p q : list R) : list R :=
  match p, q with
  | [], _ => q
  | _, [] => p
  | a :: p', b :: q' => (a + b) :: padd p' q'
  end.
Definition pscale (k : R) (p : list R) : list R := map (fun a => k * a) p.
Fixpoint pmul (p q : list R) : list R :=
  match p with
  | [] => []
  | a :: p' => padd (pscale a q) (0 :: pmul p' q)
  end.
(* d/dz of sum c_k z^-k = sum (-k c_k) z^-(k+1)   (ZFilter.diff: the variable is z, not z^-1) *)
Fixpoint pddz_from (k : nat) (p : list R) : list R :=
  match p with
  | [] => []
  | a :: r => (- INR k * a) :: pddz_from (S k) r
  end.
Definition pddz (p : list R) : list R := 0 :: pddz_from 0 p.
(* multiplication by mul_after = -z: the z^-k coefficient moves to z^-(k-1), negated
   (the z^0 coefficient of a derivative is 0) *)
Definition mul_negz (p : list R) : list R := map Ropp (tl p).
(* one step of  reduce(lambda num, order: mul_after * (num.diff() * den - order * num * den.diff())) *)
Definition sampled_step (den : list R) (num : list R) (order : nat) : list R :=
  mul_negz (padd (pmul (pddz num) den) (pscale (- INR order) (pmul num (pddz den)))).
Fixpoint sampled_iter (den num : list R) (order n : nat) : list R :=
  match n with
  | O => num
  | S n' => sampled_iter den (sampled_step den num order) (S order) n'
  end.
(* numerator = cos(phase) - A * cos(freq - phase) * z ** -1;
   filt = (numerator / denominator).diff(n=eta-1, mul_after=-z); f0 = ZFilter(filt.numpoly) / denominator *)
Definition sampled_num (freq bandwidth phase : R) (eta : nat) : list R :=
  let A := gammatone_A bandwidth in
  sampled_iter (gammatone_den freq bandwidth) [cos phase; - (A * cos (freq - phase))] 1 (eta - 1).
Definition gammatone_sampled (freq bandwidth phase : R) (eta : nat) : list filt :=
  let den := gammatone_den freq bandwidth in
  let f0 := normalize (Filt (sampled_num freq bandwidth phase eta) den) freq in
  let fn := normalize (Filt [1] den) freq in
  f0 :: repeat fn (eta - 1).

(* gammatone_erb_constants(n) = (factorial(n-1)**2 / (pi * factorial(2n-2) * 2 ** -(2n-2)),
                                 2 * (2 ** (1. / n) - 1) ** .5) *)
Fixpoint Zfact (n : nat) : Z :=
  match n with
  | O => 1%Z
  | S k => (Z.of_nat n * Zfact k)%Z
  end.
Definition erb_constant_x (n : nat) : R :=
  let tnt := (2 * n - 2)%nat in
  (IZR (Zfact (n - 1))) ^ 2 / (PI * IZR (Zfact tnt) * / (2 ^ tnt)).
Definition erb_constant_y (n : nat) : R := 2 * sqrt (exp (ln 2 * (1 / INR n)) - 1).

End RealDesigns.

(* Stream-valued design parameters (thub + elementwise arithmetic): the coefficients are
   streams whose n-th values are computed from the n-th parameter values by the same
   expressions, i.e. the n-th filter is the constant design at the n-th parameter. *)
Definition stream_design {P : Type} (design : P -> filt) (params : list P) : list filt :=
  map design params.

(* --------------------------------------------------------------------- comb *)
(* Exact coefficients: comb.fb  1 / (1 - alpha * z ** -delay),  comb.ff  1 + alpha * z ** -delay *)
Record qfilt := QFilt { qnum : list Qc; qden : list Qc }.

Section Comb.
Open Scope Qc_scope.

Fixpoint qpadd (p q : list Qc) : list Qc :=
  match p, q with
  | [], _ => q
  | _, [] => p
  | a :: p', b :: q' => (a + b) :: qpadd p' q'
  end.
(* c * z ** -delay *)
Definition zpow (delay : nat) (c : Qc) : list Qc := repeat 0 delay ++ [c].

Definition comb_fb (delay : nat) (alpha : Qc) : qfilt := QFilt [1] (qpadd [1] (zpow delay (- alpha))).
Definition comb_ff (delay : nat) (alpha : Qc) : qfilt := QFilt (qpadd [1] (zpow delay alpha)) [1].

(* the difference equation run by a linear ZFilter (direct form; memories start at 0):
   y[n] = (sum_k b_k x[n-k] - sum_{k>=1} a_k y[n-k]) / a_0.
   xh / yh hold the past inputs / outputs, most recent first. *)
Fixpoint dot (cs hist : list Qc) : Qc :=
  match cs, hist with
  | c :: cs', h :: hist' => c * h + dot cs' hist'
  | _, _ => 0
  end.
Fixpoint run_from (f : qfilt) (xh yh xs : list Qc) : list Qc :=
  match xs with
  | [] => []
  | x :: r =>
      let y := (dot (qnum f) (x :: xh) - dot (tl (qden f)) yh) / hd 1 (qden f) in
      y :: run_from f (x :: xh) (y :: yh) r
  end.
Definition run (f : qfilt) (xs : list Qc) : list Qc := run_from f [] [] xs.

(* erb strategies: exact rational arithmetic on the baked-in float constants
   (given as parameters k1 k2 ... = the exact values of the Python literals) *)
Definition erb_gm90 (k247 k437 : Qc) (freq Hz : Qc) : Qc :=
  let fHz := freq / Hz in (k247 * (k437 * fHz + 1)) * Hz.
Definition erb_mg83 (k623 k9339 k2852 : Qc) (freq Hz : Qc) : Qc :=
  let fHz := freq / Hz in (k623 * (fHz * fHz) + k9339 * fHz + k2852) * Hz.

End Comb.
