(* C13 - proved statements, part 2: resonators, comb filters, gammatone cascades,
   stream-valued parameters.  0 < freq < pi, bandwidth > 0 throughout. *)
From Coq Require Import Reals List Lra.
From Coq Require Import QArith Qcanon.
From Coquelicot Require Import Complex.
From AL Require Import Base.CaseLib C13.Model C13.Spec C13.Check C13.Proofs_Base C13.Proofs_Ord2 C13.Proofs_Reson2
  C13.Proofs_Comb C13.Proofs_Gamma C13.Proofs_Examples C13.Proofs_Shape C13.Proofs_SampledNZ.
Import ListNotations.
Open Scope R_scope.

(* R = exp(-bandwidth / 2) in all four strategies (Model.resonator_R is exp(-bandwidth * .5)) *)
Theorem C13_resonator_pole_radius : forall bw, resonator_R bw = exp (- bw / 2).
Proof. exact resonator_R_eq. Qed.
Print Assumptions C13_resonator_pole_radius.

(* poles_exp: unit gain at freq, which is the resonant frequency (gain <= 1 everywhere); stable;
   both poles (roots of z^2 den(1/z)) exist and have modulus exp(-bw/2) *)
Theorem C13_resonator_poles_exp_contracts : forall freq bw, 0 < freq < PI -> 0 < bw ->
  unit_gain_at (resonator_poles_exp freq bw) freq /\ (forall w, gain (resonator_poles_exp freq bw) w <= 1) /\
  stable (resonator_poles_exp freq bw) /\ poles_have_modulus (resonator_poles_exp freq bw) (exp (- bw / 2)).
Proof.
  intros freq bw Hf Hb.
  exact (conj (resonator_poles_exp_unit_gain freq bw Hf Hb) (conj (resonator_poles_exp_peak freq bw Hf Hb)
        (conj (resonator_poles_exp_stable freq bw Hf Hb) (resonator_poles_exp_pole_radius freq bw Hf Hb)))).
Qed.
Print Assumptions C13_resonator_poles_exp_contracts.

(* freq_poles_exp: freq is the denominator frequency; unit gain at the resonant frequency w0,
   cos w0 = cos freq (1 + R^2) / (2 R), WHEN such a w0 exists; gain <= 1 everywhere *)
Theorem C13_resonator_freq_poles_exp_contracts : forall freq bw, 0 < freq < PI -> 0 < bw ->
  (forall w0, cos w0 = cos freq * (1 + resonator_R bw ^ 2) / (2 * resonator_R bw) ->
     unit_gain_at (resonator_freq_poles_exp freq bw) w0) /\
  (forall w, gain (resonator_freq_poles_exp freq bw) w <= 1) /\
  stable (resonator_freq_poles_exp freq bw) /\
  poles_have_modulus (resonator_freq_poles_exp freq bw) (exp (- bw / 2)).
Proof.
  intros freq bw Hf Hb.
  exact (conj (resonator_freq_poles_exp_unit_gain freq bw Hf Hb) (conj (resonator_freq_poles_exp_peak freq bw Hf Hb)
        (conj (resonator_freq_poles_exp_stable freq bw Hf Hb) (resonator_freq_poles_exp_pole_radius freq bw Hf Hb)))).
Qed.
Print Assumptions C13_resonator_freq_poles_exp_contracts.

(* freq_z_exp: the resonant frequency w0, cos w0 = cos freq 2 R / (1 + R^2), always exists *)
Theorem C13_resonator_freq_z_exp_contracts : forall freq bw, 0 < freq < PI -> 0 < bw ->
  (exists w0, 0 <= w0 <= PI /\ cos w0 = cos freq * (2 * resonator_R bw) / (1 + resonator_R bw ^ 2) /\
              unit_gain_at (resonator_freq_z_exp freq bw) w0) /\
  (forall w, gain (resonator_freq_z_exp freq bw) w <= 1) /\
  stable (resonator_freq_z_exp freq bw) /\
  poles_have_modulus (resonator_freq_z_exp freq bw) (exp (- bw / 2)).
Proof.
  intros freq bw Hf Hb.
  exact (conj (resonator_freq_z_exp_resonance_exists freq bw Hf Hb) (conj (resonator_freq_z_exp_peak freq bw Hf Hb)
        (conj (resonator_freq_z_exp_stable freq bw Hf Hb) (resonator_freq_z_exp_pole_radius freq bw Hf Hb)))).
Qed.
Print Assumptions C13_resonator_freq_z_exp_contracts.

(* z_exp: unit gain at freq (the resonant frequency), stable; the pole radius only under |cost| <= 1,
   cost = cos(freq) (1 + R^2) / (2 R)  (PARTIAL w.r.t. the property text: outside that region the
   pole-radius claim is false, see the _refuted theorem: known finding C13-zexp-real-poles) *)
Theorem C13_resonator_z_exp_contracts_partial : forall freq bw, 0 < freq < PI -> 0 < bw ->
  unit_gain_at (resonator_z_exp freq bw) freq /\ (forall w, gain (resonator_z_exp freq bw) w <= 1) /\
  stable (resonator_z_exp freq bw) /\
  (-1 <= z_exp_cost freq bw <= 1 -> poles_have_modulus (resonator_z_exp freq bw) (exp (- bw / 2))).
Proof.
  intros freq bw Hf Hb.
  exact (conj (resonator_z_exp_unit_gain freq bw Hf Hb) (conj (resonator_z_exp_peak freq bw Hf Hb)
        (conj (resonator_z_exp_stable freq bw Hf Hb) (resonator_z_exp_pole_radius freq bw Hb)))).
Qed.
Print Assumptions C13_resonator_z_exp_contracts_partial.

Theorem C13_resonator_z_exp_pole_radius_refuted :
  exists freq bw, 1 / 1000 <= freq <= PI - 1 / 1000 /\ 1 / 1000 <= bw <= 1 /\
    ~ poles_have_modulus (resonator_z_exp freq bw) (exp (- bw / 2)).
Proof. exact resonator_z_exp_pole_radius_refuted. Qed.
Print Assumptions C13_resonator_z_exp_pole_radius_refuted.

(* ---- comb filters: the difference equation run on the coefficients of comb.fb / comb.ff *)
Theorem C13_comb_fb_recurrence : forall delay alpha xs, (1 <= delay)%nat ->
  fb_recurrence delay alpha xs (run (comb_fb delay alpha) xs).
Proof. exact comb_fb_recurrence. Qed.
Print Assumptions C13_comb_fb_recurrence.

Theorem C13_comb_ff_recurrence : forall delay alpha xs,
  ff_recurrence delay alpha xs (run (comb_ff delay alpha) xs).
Proof. exact comb_ff_recurrence. Qed.
Print Assumptions C13_comb_ff_recurrence.

Theorem C13_comb_tau_alpha : forall delay tau, comb_tau_alpha delay (Some tau) = exp (- delay / tau).
Proof. intros delay tau. reflexivity. Qed.
Print Assumptions C13_comb_tau_alpha.

(* the boolean checkers applied to the implementation's outputs decide the recurrences *)
Theorem C13_recurrence_checkers_spec : forall delay alpha xs ys,
  (fb_recurrence_b delay alpha xs ys = true <-> fb_recurrence delay alpha xs ys) /\
  (ff_recurrence_b delay alpha xs ys = true <-> ff_recurrence delay alpha xs ys).
Proof. intros delay alpha xs ys. exact (conj (fb_recurrence_b_spec delay alpha xs ys) (ff_recurrence_b_spec delay alpha xs ys)). Qed.
Print Assumptions C13_recurrence_checkers_spec.

(* ---- gammatone: cascades of stable sections with unit gain at the centre frequency *)
Theorem C13_gammatone_slaney_sections : forall freq bw, 0 < freq < PI -> 0 < bw ->
  length (gammatone_slaney freq bw) = 4%nat /\
  Forall (fun f => stable f /\ unit_gain_at f freq /\ poles_have_modulus f (exp (- bw)))
         (gammatone_slaney freq bw).
Proof. exact gammatone_slaney_sections. Qed.
Print Assumptions C13_gammatone_slaney_sections.

Theorem C13_gammatone_klapuri_sections : forall freq bw, 0 < freq < PI -> 0 < bw ->
  length (gammatone_klapuri freq bw) = 4%nat /\
  Forall (fun f => stable f /\ unit_gain_at f freq) (gammatone_klapuri freq bw).
Proof. exact gammatone_klapuri_sections. Qed.
Print Assumptions C13_gammatone_klapuri_sections.

(* sampled, eta = 1, 2, 3, 4 (4 is the default), every phase: eta sections, EVERY one stable, with pole
   radius exp(-bw) and unit gain at freq.  The first section's numerator (the (eta-1)-fold derivative)
   does not vanish at e^{-j freq}: it is 1/2 [q E(A)(1 - A e^{-2jw})^eta + q~ E(A e^{-2jw})(1 - A)^eta]
   with E the Eulerian polynomial, whose first term is strictly bigger in modulus. *)
Theorem C13_gammatone_sampled_sections_eta_le_4 : forall freq bw phase eta,
  0 < freq < PI -> 0 < bw -> (1 <= eta <= 4)%nat ->
  length (gammatone_sampled freq bw phase eta) = eta /\
  Forall (fun f => stable f /\ unit_gain_at f freq /\ poles_have_modulus f (exp (- bw)))
         (gammatone_sampled freq bw phase eta).
Proof. exact gammatone_sampled_sections_eta_le_4. Qed.
Print Assumptions C13_gammatone_sampled_sections_eta_le_4.

Theorem C13_gammatone_sampled_numerator_nonzero : forall freq bw phase eta,
  0 < freq < PI -> 0 < bw -> (1 <= eta <= 4)%nat ->
  ceval (sampled_num freq bw phase eta) (cis (- freq)) <> RtoC 0.
Proof. exact sampled_num_nz. Qed.
Print Assumptions C13_gammatone_sampled_numerator_nonzero.

(* sampled, every eta >= 1: all sections stable with pole radius exp(-bw); sections 2..eta have unit
   gain; the first has unit gain IF REACHABLE, i.e. if its numerator does not vanish at e^{-j freq}
   (PARTIAL for eta >= 5 only: non-vanishing is proved above for eta = 1..4; for eta = 5, 6, ... the
   same argument needs the Eulerian polynomial of that order and is not done) *)
Theorem C13_gammatone_sampled_sections_partial : forall freq bw phase eta, 0 < bw -> (1 <= eta)%nat ->
  length (gammatone_sampled freq bw phase eta) = eta /\
  Forall (fun f => stable f /\ poles_have_modulus f (exp (- bw))) (gammatone_sampled freq bw phase eta) /\
  Forall (fun f => unit_gain_at f freq) (tl (gammatone_sampled freq bw phase eta)) /\
  (ceval (sampled_num freq bw phase eta) (cis (- freq)) <> RtoC 0 ->
   unit_gain_at (hd (Filt [] []) (gammatone_sampled freq bw phase eta)) freq).
Proof. exact gammatone_sampled_sections. Qed.
Print Assumptions C13_gammatone_sampled_sections_partial.

(* ---- stream-valued parameters: the n-th filter is the constant design at the n-th parameter *)
Theorem C13_stream_param_pointwise : forall (P : Type) (design : P -> filt) params n,
  nth_error (stream_design design params) n = option_map design (nth_error params n).
Proof. intros P design params n. unfold stream_design. apply nth_error_map. Qed.
Print Assumptions C13_stream_param_pointwise.

(* ---- the orders checked structurally on the implementation (Check.shape) are the model's *)
Theorem C13_shape_correct : forall p1 p2 : R,
  lens (lowpass_pole p1) = shape LPpole /\ lens (highpass_pole p1) = shape HPpole /\
  lens (lowpass_z p1) = shape LPz /\ lens (highpass_z p1) = shape HPz /\
  lens (lowpass_pole_exp p1) = shape LPpole_exp /\ lens (highpass_pole_exp p1) = shape HPpole_exp /\
  lens (lowpass_z_exp p1) = shape LPz_exp /\ lens (highpass_z_exp p1) = shape HPz_exp /\
  lens (resonator_poles_exp p1 p2) = shape RSpoles_exp /\
  lens (resonator_freq_poles_exp p1 p2) = shape RSfreq_poles_exp /\
  lens (resonator_z_exp p1 p2) = shape RSz_exp /\ lens (resonator_freq_z_exp p1 p2) = shape RSfreq_z_exp /\
  Forall (fun f => lens f = shape GTslaney) (gammatone_slaney p1 p2) /\
  (forall ph, lens (nth 0 (gammatone_sampled p1 p2 ph 4) (Filt [] [])) = shape (GTsampled0 4)) /\
  (forall ph, Forall (fun f => lens f = shape GTsampledN) (tl (gammatone_sampled p1 p2 ph 4))).
Proof. exact shape_correct. Qed.
Print Assumptions C13_shape_correct.

(* ---- non-vacuity *)
Example C13_reson_comb_instances :
  (0 < PI / 2 < PI /\ 0 < 1 / 5 /\ -1 <= z_exp_cost (PI / 2) (1 / 5) <= 1) /\
  run (comb_fb 2 (qc 1 2)) [qc 1 1; qc 0 1; qc 0 1; qc 0 1; qc 0 1] = [qc 1 1; qc 0 1; qc 1 2; qc 0 1; qc 1 4] /\
  run (comb_ff 1 (qc (-1) 3)) [qc 1 1; qc 2 1; qc 3 1] = [qc 1 1; qc 5 3; qc 7 3].
Proof. exact reson_comb_instances. Qed.
Print Assumptions C13_reson_comb_instances.
