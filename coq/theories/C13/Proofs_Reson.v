(* C13 - the four resonator strategies: unit gain at the resonant frequency (which is the
   global maximum of the magnitude response), stability, pole radius. *)
From Coq Require Import Reals List Lra Psatz.
From Coquelicot Require Import Complex.
From AL Require Import C13.Model C13.Spec C13.Proofs_Base C13.Proofs_Ord1 C13.Proofs_LPHP C13.Proofs_Ord2.
Import ListNotations.
Open Scope R_scope.

Lemma gain_le_1 f w : gain f w ^ 2 <= 1 -> gain f w <= 1.
Proof. intro Hs. pose proof (gain_nonneg f w). nra. Qed.

Lemma two_r_ratio r : 0 < r < 1 -> 0 < 2 * r / (1 + r ^ 2) < 1.
Proof.
  intro Hr. assert (Hd : 0 < 1 + r ^ 2) by nra. split.
  - apply Rdiv_lt_0_compat; lra.
  - apply Rmult_lt_reg_r with (1 + r ^ 2); [exact Hd|]. unfold Rdiv. rewrite Rmult_assoc, Rinv_l by lra. nra.
Qed.

Lemma scaled_cos_open r c : 0 < r < 1 -> -1 < c < 1 -> -1 < c * (2 * r) / (1 + r ^ 2) < 1.
Proof.
  intros Hr Hc. pose proof (two_r_ratio r Hr) as Hq.
  replace (c * (2 * r) / (1 + r ^ 2)) with (c * (2 * r / (1 + r ^ 2))) by (field; nra).
  set (k := 2 * r / (1 + r ^ 2)) in *. split; nra.
Qed.

(* ---- generic: constant numerator g over 1 - 2 r t zinv + r^2 zinv^2 *)
Section PolesOnly.
Variables g r t : R.
Hypothesis Hr : 0 < r < 1.
Hypothesis Ht : -1 < t < 1.
Hypothesis Hg : g ^ 2 = (1 - r ^ 2) ^ 2 * (1 - t ^ 2).
Let f := Filt [g] [1; - (2 * r * t); r ^ 2].

Lemma polesonly_stable : stable f.
Proof. apply stable_reson; [exact Hr|]. apply two_r_t_bound; lra. Qed.

Lemma polesonly_den_nz w : ceval (fden f) (cis (- w)) <> RtoC 0.
Proof. apply polesonly_stable. apply cis_on_circle. Qed.

Lemma polesonly_min_pos : 0 < (1 - r ^ 2) ^ 2 * (1 - t ^ 2).
Proof. apply Rmult_lt_0_compat; [apply sq_pos; intro E; nra|nra]. Qed.

Lemma polesonly_unit w : cos w = t * (1 + r ^ 2) / (2 * r) -> gain f w = 1.
Proof.
  intro Hc. apply gain_eq_1. rewrite gain_sq by apply polesonly_den_nz.
  unfold f. cbn [fnum fden]. rewrite n2_ord0, (den_at_peak r t w) by (lra || exact Hc).
  rewrite Hg. pose proof polesonly_min_pos. unfold Rdiv. apply Rinv_r. lra.
Qed.

Lemma polesonly_peak w : gain f w <= 1.
Proof.
  apply gain_le_1. rewrite gain_sq by apply polesonly_den_nz.
  unfold f. cbn [fnum fden]. rewrite n2_ord0, n2_ord2, Hg.
  pose proof polesonly_min_pos as Hm. set (c := cos w).
  assert (E : (1 - r ^ 2) ^ 2 + (- (2 * r * t)) ^ 2 + 2 * - (2 * r * t) * (1 + r ^ 2) * c + 4 * 1 * r ^ 2 * c ^ 2
              = (1 - r ^ 2) ^ 2 * (1 - t ^ 2) + (2 * r * c - t * (1 + r ^ 2)) ^ 2) by ring.
  rewrite E. assert (0 <= (2 * r * c - t * (1 + r ^ 2)) ^ 2) by apply pow2_ge_0.
  apply Rmult_le_reg_r with ((1 - r ^ 2) ^ 2 * (1 - t ^ 2) + (2 * r * c - t * (1 + r ^ 2)) ^ 2); [lra|].
  unfold Rdiv. rewrite Rmult_assoc, Rinv_l by lra. lra.
Qed.
End PolesOnly.

(* ---- generic: numerator g (1 - zinv^2), g = (1 - r^2)/2, over 1 + a zinv + r^2 zinv^2 *)
Section ZeroRes.
Variables r a : R.
Hypothesis Hr : 0 < r < 1.
Hypothesis Ha : Rabs a < 1 + r ^ 2.
Let g := (1 - r ^ 2) * (1 / 2).
Let f := Filt [g; 0; - g] [1; a; r ^ 2].

Lemma zres_stable : stable f.
Proof. apply stable_reson; assumption. Qed.

Lemma zres_den_nz w : ceval (fden f) (cis (- w)) <> RtoC 0.
Proof. apply zres_stable. apply cis_on_circle. Qed.

(* |den|^2 - |num|^2 = (a + (1 + r^2) cos w)^2 *)
Lemma zres_gap w :
  n2 (ceval (fden f) (cis (- w))) = n2 (ceval (fnum f) (cis (- w))) + (a + (1 + r ^ 2) * cos w) ^ 2.
Proof. unfold f. cbn [fnum fden]. rewrite num_z_n2, n2_ord2. unfold g. field. Qed.

Lemma zres_unit w : -1 < cos w < 1 -> a = - ((1 + r ^ 2) * cos w) -> gain f w = 1.
Proof.
  intros Hc Hac. apply gain_eq_1. rewrite gain_sq by apply zres_den_nz. rewrite zres_gap.
  replace (a + (1 + r ^ 2) * cos w) with 0 by lra. replace (0 ^ 2) with 0 by ring. rewrite Rplus_0_r.
  unfold f. cbn [fnum]. rewrite num_z_n2.
  assert (Hn : 0 < 4 * g ^ 2 * (1 - cos w ^ 2)).
  { apply Rmult_lt_0_compat; [|nra]. assert (0 < g ^ 2) by (apply sq_pos; unfold g; intro E; nra). lra. }
  unfold Rdiv. apply Rinv_r. lra.
Qed.

Lemma zres_peak w : gain f w <= 1.
Proof.
  apply gain_le_1. rewrite gain_sq by apply zres_den_nz.
  pose proof (n2_pos _ (zres_den_nz w)) as Hd. pose proof (n2_nonneg (ceval (fnum f) (cis (- w)))) as Hn.
  pose proof (zres_gap w) as E. assert (0 <= (a + (1 + r ^ 2) * cos w) ^ 2) by apply pow2_ge_0.
  apply Rmult_le_reg_r with (n2 (ceval (fden f) (cis (- w)))); [exact Hd|].
  unfold Rdiv. rewrite Rmult_assoc, Rinv_l by lra. lra.
Qed.
End ZeroRes.
