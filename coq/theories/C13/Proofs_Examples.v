(* C13 - non-vacuity instances (exact, no numerical tactic). *)
From Coq Require Import Reals List Lra.
From Coq Require Import QArith Qcanon.
From Coquelicot Require Import Complex.
From AL Require Import Base.CaseLib C13.Model C13.Spec C13.Check C13.Proofs_Base C13.Proofs_Ord1 C13.Proofs_LPHP
  C13.Proofs_LPHP2 C13.Proofs_Ord2 C13.Proofs_Reson2 C13.Proofs_Comb.
Import ListNotations.
Open Scope R_scope.

Lemma half_pi_inside : 0 < PI / 2 < PI.
Proof. pose proof PI_RGT_0. split; lra. Qed.

Lemma lowpass_pole_R_half_pi : lowpass_pole_R (PI / 2) = 2 - sqrt 3.
Proof.
  unfold lowpass_pole_R, lowpass_pole_x. cbv zeta. rewrite cos_PI2.
  replace ((2 - 0) ^ 2 - 1) with 3 by ring. ring.
Qed.

(* the whole quantifier domain satisfies the hypothesis; at wc = pi/2 the pole strategy has
   R = 2 - sqrt 3 and half power; the z strategies hit their special case cos wc = 0 there (R = 0) *)
Lemma lphp_instances :
  (forall wc, 1 / 1000 <= wc <= PI - 1 / 1000 -> 0 < wc < PI) /\
  (0 < PI / 2 < PI /\ lowpass_pole_R (PI / 2) = 2 - sqrt 3 /\ half_power_at (lowpass_pole (PI / 2)) (PI / 2)) /\
  (cos (PI / 2) = 0 /\ lowpass_z_R (PI / 2) = 0 /\ half_power_at (lowpass_z (PI / 2)) (PI / 2)).
Proof.
  split; [intros wc [H0 H1]; split; lra|]. split.
  - split; [exact half_pi_inside|]. split; [exact lowpass_pole_R_half_pi|].
    apply lowpass_pole_half_power. exact half_pi_inside.
  - split; [apply cos_PI2|]. split; [apply lowpass_z_R_half_pi|].
    apply lowpass_z_half_power. exact half_pi_inside.
Qed.

(* freq = pi/2, bandwidth = 1/5 satisfies every resonator hypothesis including |cost| <= 1 (cost = 0);
   comb.fb(2, 1/2) on an impulse and comb.ff(1, -1/3) on [1, 2, 3] *)
Lemma reson_comb_instances :
  (0 < PI / 2 < PI /\ 0 < 1 / 5 /\ -1 <= z_exp_cost (PI / 2) (1 / 5) <= 1) /\
  run (comb_fb 2 (qc 1 2)) [qc 1 1; qc 0 1; qc 0 1; qc 0 1; qc 0 1] = [qc 1 1; qc 0 1; qc 1 2; qc 0 1; qc 1 4] /\
  run (comb_ff 1 (qc (-1) 3)) [qc 1 1; qc 2 1; qc 3 1] = [qc 1 1; qc 5 3; qc 7 3].
Proof.
  split.
  - split; [exact half_pi_inside|]. split; [lra|].
    unfold z_exp_cost. cbv zeta. rewrite cos_PI2. unfold Rdiv. rewrite !Rmult_0_l. lra.
  - split; apply (proj1 (list_eqb_spec Qc_eqb Qc_eqb_spec _ _)); vm_compute; reflexivity.
Qed.
