(* C13 - non-vacuity instances (proved here so that Prop*.v need not load the interval tactic). *)
From Coq Require Import Reals List Lra.
From Coq Require Import QArith Qcanon.
From Coquelicot Require Import Complex.
From Interval Require Import Tactic.
From AL Require Import Base.CaseLib C13.Model C13.Spec C13.Check C13.Proofs_Base C13.Proofs_Ord1 C13.Proofs_LPHP
  C13.Proofs_LPHP2 C13.Proofs_Ord2 C13.Proofs_Reson2 C13.Proofs_Comb.
Import ListNotations.
Open Scope R_scope.

Lemma lphp_instances :
  (forall wc, 1 / 1000 <= wc <= PI - 1 / 1000 -> 0 < wc < PI) /\
  (Rabs (lowpass_pole_R 1 - 0.396346) <= 0.000001 /\ half_power_at (lowpass_pole 1) 1 /\
   Rabs (sqrt (1 / 2) - 0.707107) <= 0.000001) /\
  (cos (PI / 2) = 0 /\ lowpass_z_R (PI / 2) = 0 /\ half_power_at (lowpass_z (PI / 2)) (PI / 2)).
Proof.
  split; [intros wc [H0 H1]; split; lra|]. split.
  - split; [unfold lowpass_pole_R, lowpass_pole_x; interval with (i_prec 60)|]. split; [|interval with (i_prec 60)].
    apply lowpass_pole_half_power. split; [lra|interval with (i_prec 60)].
  - split; [apply cos_PI2|]. split; [apply lowpass_z_R_half_pi|].
    apply lowpass_z_half_power. pose proof PI_RGT_0. split; lra.
Qed.

Lemma reson_comb_instances :
  (0 < 7 / 10 < PI /\ 0 < 1 / 5 /\ -1 <= z_exp_cost (7 / 10) (1 / 5) <= 1 /\
   Rabs (resonator_R (1 / 5) - 0.904837) <= 0.000001) /\
  run (comb_fb 2 (qc 1 2)) [qc 1 1; qc 0 1; qc 0 1; qc 0 1; qc 0 1] = [qc 1 1; qc 0 1; qc 1 2; qc 0 1; qc 1 4] /\
  run (comb_ff 1 (qc (-1) 3)) [qc 1 1; qc 2 1; qc 3 1] = [qc 1 1; qc 5 3; qc 7 3].
Proof.
  split.
  - unfold z_exp_cost, resonator_R. cbv zeta.
    split; [split; [lra|interval with (i_prec 60)]|]. split; [lra|].
    split; [split; interval with (i_prec 60)|interval with (i_prec 60)].
  - split; apply (proj1 (list_eqb_spec Qc_eqb Qc_eqb_spec _ _)); vm_compute; reflexivity.
Qed.
