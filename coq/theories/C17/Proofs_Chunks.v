(* C17 - the chunks of an audio list: every chunk has exactly n samples and their concatenation is
   the list followed by zero padding to the chunk boundary. *)
From Coq Require Import List Bool Arith ZArith Lia.
From AL Require Import C17.Model C17.Inv C17.Spec.
Import ListNotations.
Ltac Zify.zify_post_hook ::= Z.to_euclidean_division_equations.

Lemma pad_len_small n len : 0 < len -> len <= n -> pad_len n len = n - len.
Proof.
  intros H1 H2. unfold pad_len. destruct (Nat.eq_dec len n) as [->|Hne].
  - rewrite Nat.mod_same by lia. rewrite Nat.sub_0_r, Nat.mod_same by lia. lia.
  - rewrite (Nat.mod_small len n) by lia. rewrite Nat.mod_small by lia. reflexivity.
Qed.

Lemma pad_len_0 n : 0 < n -> pad_len n 0 = 0.
Proof. intro H. unfold pad_len. rewrite Nat.mod_0_l by lia. rewrite Nat.sub_0_r, Nat.mod_same by lia. reflexivity. Qed.

Lemma pad_len_sub n len : 0 < n -> n <= len -> pad_len n (len - n) = pad_len n len.
Proof.
  intros H1 H2. unfold pad_len. f_equal. f_equal.
  replace len with ((len - n) + 1 * n) at 2 by lia. rewrite Nat.mod_add by lia. reflexivity.
Qed.

Lemma chunkify_aux_step f n xs : xs <> [] ->
  chunkify_aux (S f) n xs
  = (firstn n xs ++ repeat 0%Z (n - length (firstn n xs))) :: chunkify_aux f n (skipn n xs).
Proof. destruct xs; [congruence|reflexivity]. Qed.

Lemma chunkify_aux_spec n : 0 < n -> forall fuel xs, length xs <= fuel ->
  Forall (fun c => length c = n) (chunkify_aux fuel n xs)
  /\ concat (chunkify_aux fuel n xs) = xs ++ repeat 0%Z (pad_len n (length xs)).
Proof.
  intro Hn. induction fuel as [|f IH]; intros xs Hl.
  - destruct xs; simpl in *; [|lia]. split; [constructor|].
    simpl. rewrite pad_len_0 by exact Hn. reflexivity.
  - destruct (list_eq_dec Z.eq_dec xs []) as [->|Hne].
    + simpl. split; [constructor|]. rewrite pad_len_0 by exact Hn. reflexivity.
    + assert (Hpos : 0 < length xs) by (destruct xs; [congruence|simpl; lia]).
      rewrite chunkify_aux_step by exact Hne.
      destruct (Nat.le_gt_cases (length xs) n) as [Hle|Hgt].
      * rewrite firstn_all2 by exact Hle. rewrite skipn_all2 by exact Hle.
        assert (Hnil : chunkify_aux f n [] = []) by (destruct f; reflexivity). rewrite Hnil.
        split.
        -- constructor; [|constructor]. rewrite app_length, repeat_length. lia.
        -- simpl. rewrite app_nil_r. rewrite pad_len_small by lia. reflexivity.
      * destruct (IH (skipn n xs)) as [IH1 IH2]; [rewrite skipn_length; lia|].
        assert (Hfl : length (firstn n xs) = n) by (rewrite firstn_length; lia).
        split.
        -- constructor; [|exact IH1]. rewrite app_length, repeat_length. lia.
        -- simpl. rewrite IH2, Hfl, Nat.sub_diag. simpl. rewrite app_nil_r.
           rewrite skipn_length, pad_len_sub by lia.
           rewrite app_assoc, firstn_skipn. reflexivity.
Qed.

Theorem chunk_shape_all : forall n xs, 0 < n -> chunks_spec n xs (chunkify n xs).
Proof.
  intros n xs Hn. unfold chunks_spec, chunkify. destruct n as [|m]; [lia|].
  apply chunkify_aux_spec; lia.
Qed.
