(* C17 - Audio playback delivers every sample once, in order, and always shuts down.
   Theorems about EVERY reachable state of the interleaving model (Model.v): every schedule, every
   control script, any number of players, any audio length. *)
From Coq Require Import List Bool Arith ZArith.
From AL Require Import C17.Model C17.Inv C17.Spec C17.Proofs C17.Proofs_Live.
Import ListNotations.

(* each lock has at most one holder: the threads whose program counter is inside a critical section
   of a lock are exactly its holder *)
Theorem C17_mutex : forall s, reachable s -> mutex_at s.
Proof. exact (fun s H => mutex_of_inv s (reachable_inv s H)). Qed.
Print Assumptions C17_mutex.

(* what a device stream received is a prefix of the chunks of its audio: nothing lost, duplicated,
   reordered (prem = the chunks still to come) *)
Theorem C17_written_prefix : forall s i p, reachable s -> get_player s i = Some p ->
  pwritten p ++ prem p = paudio p.
Proof. exact (fun s i p H => written_prefix_inv s i p (reachable_inv s H)). Qed.
Print Assumptions C17_written_prefix.

(* a player that finished without having been told to halt delivered everything *)
Theorem C17_written_complete : forall s i p, reachable s -> get_player s i = Some p ->
  ppc_ p = PDone -> phalting p = false -> pwritten p = paudio p.
Proof. exact (fun s i p H => written_complete_inv s i p (reachable_inv s H)). Qed.
Print Assumptions C17_written_complete.

(* once a close() has returned: all streams closed, nobody alive, terminated exactly once, play raises *)
Theorem C17_after_close : forall s, reachable s -> close_returned s -> after_close_at s.
Proof. exact (fun s H => after_close_inv s (reachable_inv s H)). Qed.
Print Assumptions C17_after_close.

Theorem C17_terminate_once : forall s, reachable s -> sterminated s <= 1.
Proof. exact (fun s H => terminate_once_inv s (reachable_inv s H)). Qed.
Print Assumptions C17_terminate_once.

(* the two error branches of the code are dead: list.remove never raises, the assert never fails *)
Theorem C17_remove_never_raises : forall s i p, reachable s -> get_player s i = Some p ->
  ppc_ p = PFinRemove -> In i (sthreads s).
Proof. exact (fun s i p H => remove_never_raises_inv s i p (reachable_inv s H)). Qed.
Print Assumptions C17_remove_never_raises.

Theorem C17_assert_never_fails : forall s, reachable s -> smpc s <> MCloseRelHFail.
Proof. exact (fun s H => assert_never_fails_inv s (reachable_inv s H)). Qed.
Print Assumptions C17_assert_never_fails.

(* deadlock freedom: a reachable state in which no thread can move is a state in which the control
   script is over (every call, in particular every close, has returned) *)
Theorem C17_no_stuck_state : forall s, reachable s -> stuck s -> script_done s.
Proof. exact (fun s H => no_stuck_inv s (reachable_inv s H)). Qed.
Print Assumptions C17_no_stuck_state.

Theorem C17_close_not_stuck : forall s, reachable s -> in_close s -> exists tid, step s tid <> None.
Proof. exact (fun s H => close_not_stuck_inv s (reachable_inv s H)). Qed.
Print Assumptions C17_close_not_stuck.
