(* C17 - Audio playback delivers every sample once, in order, and always shuts down.
   Theorems about EVERY reachable state of the interleaving model (Model.v): every schedule, every
   control script (play / pause / resume / stop / close in any order, repeated close, play after
   close), any number of players, any audio length, wait true or false. *)
From Coq Require Import List Bool Arith ZArith.
From AL Require Import C17.Model C17.Inv C17.Spec C17.Measure C17.Proofs_Total C17.Proofs_Chunks C17.Proofs_Multi C17.Rec C17.Proofs_Rec.
Import ListNotations.

(* each lock has at most one holder: the threads whose program counter is inside a critical section
   of a lock are exactly its holder (hence two threads are never inside the same section) *)
Theorem C17_mutex : forall s, reachable s -> mutex_at s.
Proof. exact mutex_reach. Qed.
Print Assumptions C17_mutex.

(* what a device stream received, followed by the chunks still to come, is the audio: nothing is
   lost, duplicated or reordered, whatever the interleaving and the pause/play/stop calls *)
Theorem C17_written_prefix : forall s i p, reachable s -> get_player s i = Some p ->
  pwritten p ++ prem p = paudio p.
Proof. exact written_prefix_reach. Qed.
Print Assumptions C17_written_prefix.

(* a player that has finished without having been told to halt has delivered everything *)
Theorem C17_written_complete : forall s i p, reachable s -> get_player s i = Some p ->
  ppc_ p = PDone -> phalting p = false -> pwritten p = paudio p.
Proof. exact written_complete_reach. Qed.
Print Assumptions C17_written_complete.

(* "promptly": after thread.stop() (from the script or from close with wait = false) set the halting
   flag, at most one more chunk is written to the device (pafter counts those chunks) *)
Theorem C17_stop_is_prompt : forall s i p, reachable s -> get_player s i = Some p -> pafter p <= 1.
Proof. exact after_halt_reach. Qed.
Print Assumptions C17_stop_is_prompt.

(* the same against the control script: stream i receives a prefix of the chunks of the i-th play
   command issued before the first close (expected_audio: all chunks of the iterable for CPlay, the
   chunks produced before the exception for an iterable that raises, CPlayBad), all of them when
   the player finishes un-halted *)
Theorem C17_delivery : forall wait script sched i p,
  get_player (exec (init wait script) sched) i = Some p ->
  exists a, nth_error (expected_audio script) i = Some a
            /\ pwritten p ++ prem p = a
            /\ (ppc_ p = PDone -> phalting p = false -> pwritten p = a).
Proof. exact delivery_reach. Qed.
Print Assumptions C17_delivery.

(* every chunk has exactly n samples; the chunks concatenate to the audio + zero padding *)
Theorem C17_chunk_shape : forall n xs, 0 < n -> chunks_spec n xs (chunkify n xs).
Proof. exact chunk_shape_all. Qed.
Print Assumptions C17_chunk_shape.

(* once a close() has returned: every stream closed, no player alive, backend terminated exactly
   once, manager._threads empty, and a later play raises without creating a player *)
Theorem C17_after_close : forall s, reachable s -> close_returned s -> after_close_at s.
Proof. exact after_close_reach. Qed.
Print Assumptions C17_after_close.

Theorem C17_terminate_once : forall s, reachable s -> sterminated s <= 1.
Proof. exact terminate_once_reach. Qed.
Print Assumptions C17_terminate_once.

(* the two error branches of the code are dead: list.remove never raises, the assert never fails *)
Theorem C17_remove_never_raises : forall s i p, reachable s -> get_player s i = Some p ->
  ppc_ p = PFinRemove -> In i (sthreads s).
Proof. exact remove_never_raises_reach. Qed.
Print Assumptions C17_remove_never_raises.

Theorem C17_assert_never_fails : forall s, reachable s -> smpc s <> MCloseRelHFail.
Proof. exact assert_never_fails_reach. Qed.
Print Assumptions C17_assert_never_fails.

(* deadlock freedom: a reachable state in which no thread can move is a state in which the control
   script is over (every call, in particular every close, has returned) *)
Theorem C17_no_stuck_state : forall s, reachable s -> stuck s -> script_done s.
Proof. exact no_stuck_reach. Qed.
Print Assumptions C17_no_stuck_state.

Theorem C17_close_not_stuck : forall s, reachable s -> in_close s -> exists tid, step s tid <> None.
Proof. exact close_not_stuck_reach. Qed.
Print Assumptions C17_close_not_stuck.

(* termination: the measure (chunks left, pc ranks, script cost, list lengths) strictly decreases *)
Theorem C17_measure_decreases : forall s t s', reachable s -> step s t = Some s' -> measure s' < measure s.
Proof. exact measure_decreases_reach. Qed.
Print Assumptions C17_measure_decreases.

(* liveness as total correctness: from every reachable state every schedule is finite (at most
   `measure s` steps), every schedule that cannot be extended ends with the control script over
   (so close has returned), and such a schedule exists.  No fairness assumption. *)
Theorem C17_close_returns : forall s, reachable s ->
  (forall sched, valid_sched s sched -> length sched <= measure s)
  /\ (forall sched, valid_sched s sched -> stuck (exec s sched) -> script_done (exec s sched))
  /\ (exists sched, valid_sched s sched /\ stuck (exec s sched)).
Proof. exact close_returns_reach. Qed.
Print Assumptions C17_close_returns.

(* several managers in one process = the product of independent models: a global schedule acts on
   manager m exactly as its projection does (closing B never touches A's players), hence every
   component state is reachable in the single-manager model and all theorems above apply to it *)
Theorem C17_managers_independent : forall sched ms m,
  nth_error (mexec ms sched) m = option_map (fun s => exec s (project m sched)) (nth_error ms m).
Proof. exact managers_independent. Qed.
Print Assumptions C17_managers_independent.

Theorem C17_managers_reachable : forall waits_scripts sched m s,
  nth_error (mexec (map (fun ws => init (fst ws) (snd ws)) waits_scripts) sched) m = Some s ->
  reachable s.
Proof. exact managers_reachable. Qed.
Print Assumptions C17_managers_reachable.

(* ---- recordings (Rec.v: record / RecStream.stop / take / the drain loop of close), for EVERY history:
   every open device stream of a recording is registered in manager._recordings and terminate is
   called at most once; right after the first close the registry is empty, every stream opened by
   record is closed - whatever was stopped, consumed or finished by itself before, in any position -
   and terminate has been called exactly once; it stays so unless record is called again *)
Theorem C17_rec_registered : forall h, registered (rfinal h) /\ rterminated (rfinal h) <= 1.
Proof. exact rec_registered_all. Qed.
Print Assumptions C17_rec_registered.

Theorem C17_rec_after_close : forall h, rfinished (rfinal h) = false ->
  let s := rfinal (h ++ [ORClose]) in
  recs s = [] /\ Forall (fun r => r_open r = false) (rall s) /\ rterminated s = 1 /\ rfinished s = true.
Proof. exact rec_after_close_all. Qed.
Print Assumptions C17_rec_after_close.

Theorem C17_rec_stays_closed : forall h2 s, forallb no_record h2 = true -> recs s = [] ->
  recs (fst (rrun s h2)) = [].
Proof. exact rec_stays_closed. Qed.
Print Assumptions C17_rec_stays_closed.

(* three recordings; the middle one is stopped and consumed to its end (removed from a non-last
   position), the first one finishes by itself on a device error; close drains the last one *)
Example C17_nonvacuous_recordings :
  let h := [ORecord 2 5; ORecord 2 5; ORecord 3 1; ORTake 1 3; ORStop 1; ORTake 1 9; ORTake 0 2;
            ORTake 2 4; ORClose] in
  snd (rrun rinit h) = [RNone; RNone; RNone; RSamples [1000; 1001; 1002]%Z; RNone; RSamples [1003]%Z;
                        RSamples [0; 1]%Z; RRaise; RNone]
  /\ recs (rfinal (firstn 8 h)) = [0] /\ recs (rfinal h) = [] /\ rterminated (rfinal h) = 1
  /\ map r_open (rall (rfinal h)) = [false; false; false].
Proof. repeat split; vm_compute; reflexivity. Qed.
Print Assumptions C17_nonvacuous_recordings.

(* ---- non-vacuity: concrete reachable states satisfying the hypotheses of the theorems above *)
Definition ex_script : list cmd := [CPlay 2 [1; 2; 3]%Z; CPause 0; CClose; CPlay 2 [5]%Z].
Definition round_robin (n : nat) : list nat := concat (repeat [0; 1] n).

(* wait = true and a paused player: close resumes it, waits for all audio, returns; afterwards the
   stream is closed, the player is dead and complete, terminate was called once, the late play raised *)
Example C17_nonvacuous_close_returned :
  let s := exec (init true ex_script) (round_robin 60) in
  reachable s /\ close_returned s /\ script_done s /\ stuck s
  /\ (exists p, get_player s 0 = Some p /\ ppc_ p = PDone /\ phalting p = false
                /\ pwritten p = [[1; 2]; [3; 0]]%Z)
  /\ sterminated s = 1 /\ length (splayers s) = 1
  /\ rev (strace s) = [EOpen 0; EWrite 0 [1; 2]%Z; EWrite 0 [3; 0]%Z; EStopS 0; EStartS 0; ECloseS 0;
                       ETerminate; ECloseRet [(false, false)]; EPlayRaise].
Proof.
  cbv zeta. split; [exists true, ex_script, (round_robin 60); reflexivity|].
  split; [split; vm_compute; reflexivity|].
  split; [vm_compute; reflexivity|].
  split; [apply enabled_nil_stuck; vm_compute; reflexivity|].
  split; [eexists; split; [vm_compute; reflexivity|repeat split; vm_compute; reflexivity]|].
  repeat split; vm_compute; reflexivity.
Qed.
Print Assumptions C17_nonvacuous_close_returned.

(* wait = false: the paused player is stopped (halting), it is woken up and leaves after one chunk *)
Example C17_nonvacuous_stop :
  let s := exec (init false ex_script) (repeat 0 30 ++ repeat 1 30 ++ repeat 0 30) in
  reachable s /\ close_returned s /\ stuck s
  /\ (exists p, get_player s 0 = Some p /\ ppc_ p = PDone /\ phalting p = true
                /\ pwritten p = [[1; 2]]%Z /\ prem p = [[3; 0]]%Z /\ pafter p = 1).
Proof.
  cbv zeta. split; [exists false, ex_script, (repeat 0 30 ++ repeat 1 30 ++ repeat 0 30); reflexivity|].
  split; [split; vm_compute; reflexivity|].
  split; [apply enabled_nil_stuck; vm_compute; reflexivity|].
  eexists; split; [vm_compute; reflexivity|repeat split; vm_compute; reflexivity].
Qed.
Print Assumptions C17_nonvacuous_stop.

(* contention: a reachable state inside close in which the main thread is blocked on manager.lock,
   held by a player inside thread_finished (which is enabled) *)
Example C17_nonvacuous_contention :
  let s := exec (init false [CPlay 2 [1; 2]%Z; CClose]) ([0;0;0;0;0;0;0] ++ [1;1;1;1;1;1;1;1] ++ [0]) in
  reachable s /\ in_close s /\ smlock s = Some 1 /\ in_mlock s 1 /\ step s 0 = None /\ enabled s = [1].
Proof.
  cbv zeta. split; [eexists _, _, _; reflexivity|].
  split; [left; vm_compute; reflexivity|].
  split; [vm_compute; reflexivity|].
  split; [eexists; split; vm_compute; reflexivity|].
  split; vm_compute; reflexivity.
Qed.
Print Assumptions C17_nonvacuous_contention.

(* an iterable that raises after one chunk (CPlayBad): the finally clause of run() still closes the
   stream and unregisters the thread, so close returns and everything above holds *)
Example C17_nonvacuous_crash :
  let s := exec (init true [CPlayBad 2 [1; 2; 3; 4]%Z 1; CClose]) (round_robin 40) in
  reachable s /\ close_returned s /\ stuck s /\ script_done s
  /\ (exists p, get_player s 0 = Some p /\ ppc_ p = PDone /\ pcrash p = true /\ popen p = false
                /\ pwritten p = [[1; 2]]%Z)
  /\ sterminated s = 1.
Proof.
  cbv zeta. split; [eexists _, _, _; reflexivity|].
  split; [split; vm_compute; reflexivity|].
  split; [apply enabled_nil_stuck; vm_compute; reflexivity|].
  split; [vm_compute; reflexivity|].
  split; [eexists; split; [vm_compute; reflexivity|repeat split; vm_compute; reflexivity]|].
  vm_compute; reflexivity.
Qed.
Print Assumptions C17_nonvacuous_crash.

(* two players whose audio sources are yield points (CPlaySrc): the first is pre-empted after one
   next() in the middle of its first chunk while the second one fills and writes a whole chunk; each
   device stream still receives its own samples *)
Example C17_nonvacuous_midchunk :
  let s := exec (init true [CPlaySrc 2 [1; 2; 3]%Z; CPlaySrc 2 [105; 106]%Z; CClose])
                (repeat 0 40 ++ [1] ++ repeat 2 20 ++ round_robin 60) in
  reachable s /\ close_returned s /\ stuck s
  /\ (exists p q, get_player s 0 = Some p /\ get_player s 1 = Some q
                  /\ pwritten p = [[1; 2]; [3; 0]]%Z /\ pwritten q = [[105; 106]]%Z
                  /\ pfill p = 0 /\ ppulls p = []).
Proof.
  cbv zeta. split; [eexists _, _, _; reflexivity|].
  split; [split; vm_compute; reflexivity|].
  split; [apply enabled_nil_stuck; vm_compute; reflexivity|].
  eexists; eexists; split; [vm_compute; reflexivity|]. split; [vm_compute; reflexivity|].
  repeat split; vm_compute; reflexivity.
Qed.
Print Assumptions C17_nonvacuous_midchunk.

Example C17_nonvacuous_chunks : chunkify 2 [1; 2; 3]%Z = [[1; 2]; [3; 0]]%Z /\ pad_len 2 3 = 1.
Proof. split; reflexivity. Qed.
Print Assumptions C17_nonvacuous_chunks.
