(* C17 - the audio carried by the players is the audio of the play commands of the script
   (those issued before the first close), in order. *)
From Coq Require Import List Bool Arith Lia.
From AL Require Import C17.Model C17.Lib C17.Inv C17.Spec C17.Proofs_InvP C17.Proofs_InvM.
Import ListNotations.

Lemma map_audio_upd g l i : (forall x, paudio (g x) = paudio x) ->
  map paudio (upd i g l) = map paudio l.
Proof.
  intro Hg. revert i. induction l as [|y r IH]; intros [|i]; simpl; auto.
  - rewrite Hg. reflexivity.
  - rewrite IH. reflexivity.
Qed.

Lemma fetch_audio np sc :
  expected_audio sc =
  match fst (fetch np sc) with
  | MCloseAcqH => []
  | MPlayAcq a _ _ => a :: expected_audio (snd (fetch np sc))
  | _ => expected_audio (snd (fetch np sc))
  end.
Proof.
  induction sc as [|c r IH]; simpl; [reflexivity|].
  destruct c; simpl; try reflexivity; destruct (t <? np); simpl; try reflexivity; exact IH.
Qed.

Lemma pending_next_cmd x : smpc x = MDone ->
  pending_audio (next_cmd x) = pending_audio x.
Proof.
  intro HM. unfold next_cmd, pending_audio, closing.
  pose proof (fetch_audio (length (splayers x)) (sscript x)) as H.
  pose proof (fetch_idle (length (splayers x)) (sscript x)) as Hi.
  destruct (fetch (length (splayers x)) (sscript x)) as [M r]. simpl in *. rewrite HM.
  destruct (sfinished x); simpl; [reflexivity|].
  destruct Hi; simpl in *; rewrite H; reflexivity.
Qed.

Ltac audio_fin HM :=
  unfold audio_link, pending_audio, closing in *; simpl in *; rewrite ?HM in *; simpl in *;
  rewrite ?map_audio_upd by (intro; reflexivity); try assumption.

Lemma audio_player sc0 s i s' : audio_link sc0 s -> step_player s i = Some s' -> audio_link sc0 s'.
Proof.
  intros A H. unfold step_player in H.
  destruct (get_player s i) as [p|] eqn:Ep; [|discriminate].
  destruct (ppc_ p) eqn:Epc; break_step H; inversion H; subst s'; clear H;
    unfold audio_link, pending_audio, closing in *; simpl in *;
    rewrite ?map_audio_upd by (intro; reflexivity); assumption.
Qed.

Lemma audio_main sc0 s s' : audio_link sc0 s -> step_main s = Some s' -> audio_link sc0 s'.
Proof.
  intros A H. unfold step_main, acquire_t in H.
  destruct (smpc s) eqn:HM; break_step H; inversion H; subst s'; clear H; split_goal;
    try (rewrite next_cmd_mdone; unfold audio_link; rewrite pending_next_cmd by reflexivity;
         unfold next_cmd; destruct (fetch _ _); simpl);
    audio_fin HM.
  all: try (simpl in E0; rewrite ?E0 in *; simpl in *; try assumption).
  rewrite map_app, <- app_assoc. simpl. exact A.
Qed.

Lemma audio_init wait sc0 : audio_link sc0 (init wait sc0).
Proof.
  unfold init, audio_link. rewrite pending_next_cmd by reflexivity.
  unfold next_cmd. destruct (fetch _ _). reflexivity.
Qed.

Lemma audio_exec sc0 sched : forall s, audio_link sc0 s -> audio_link sc0 (exec s sched).
Proof.
  induction sched as [|t r IH]; intros s A; simpl; [exact A|].
  destruct (step s t) as [s1|] eqn:E; [|apply IH; exact A].
  apply IH. destruct t; simpl in E; [eapply audio_main|eapply audio_player]; eauto.
Qed.

(* in every state reached from (wait, script): the players carry, in order, the chunks of the play
   commands issued before the first close; together with what is still pending that is all of them *)
Theorem players_audio_all : forall wait script sched,
  audio_link script (exec (init wait script) sched).
Proof. intros. apply audio_exec, audio_init. Qed.

Corollary player_audio_nth : forall wait script sched i p,
  get_player (exec (init wait script) sched) i = Some p ->
  nth_error (expected_audio script) i = Some (paudio p).
Proof.
  intros wait script sched i p H. pose proof (players_audio_all wait script sched) as A.
  unfold audio_link in A. rewrite A. unfold get_player in H.
  rewrite nth_error_app1 by (rewrite map_length; eapply nth_error_lt; eauto).
  rewrite nth_error_map, H. reflexivity.
Qed.
