(* C17 - boolean checkers for the generated schedule cases (evaluated by vm_compute). *)
From Coq Require Import List Bool Arith ZArith.
From AL Require Import Base.CaseLib C17.Model C17.Spec.
Import ListNotations.

(* operation codes of harness/C17_sched.py (OPS) *)
Definition op_of_mpc (pc : mpc) : nat :=
  match pc with
  | MPlayAcq _ _ _ | MCtlAcq _ _ | MCloseAcqH | MCloseLoopAcq => 0
  | MPlayRaiseRel | MPlayRel | MCtlRel _ _ | MCloseRelH2 | MCloseBreakRel | MCloseLoopRel _
  | MCloseRelH | MCloseRelHFail => 1
  | MPlayGoSet _ | MResumeSet _ _ | MStopSet _ _ => 2
  | MPauseClear _ => 3
  | MPlayHaltInit _ | MStopHalt _ _ => 7
  | MCloseGet => 8
  | MPlayAppend _ => 9
  | MPlayOpen _ => 12
  | MCloseTerm => 17
  | MCloseAssert => 18
  | MPlayStart _ => 19
  | MCloseJoin _ | MCloseJoinAll _ => 20
  | MPlayPrune _ _ _ => 21
  | MDone => 99
  end.
Definition op_of_ppc (pc : ppc) : nat :=
  match pc with
  | PEpiAcq | PFinAcq => 0
  | PFinRel | PEpiRelT => 1
  | PTestGo => 4
  | PWait => 5
  | PTestHalt1 | PTestHalt2 | PTestHalt3 => 6
  | PFinRemove => 10
  | PEpiTest => 11
  | PWrite => 13
  | PStopStream => 14
  | PStartStream => 15
  | PEpiClose => 16
  | PNew | PDone => 99
  end.
(* a player with source accesses left performs next() on its audio source (op 22) first *)
Definition op_of_player (p : player) : nat :=
  match pfill p with O => op_of_ppc (ppc_ p) | S _ => 22 end.
Definition op_of (s : state) (tid : nat) : nat :=
  match tid with
  | O => op_of_mpc (smpc s)
  | S i => match get_player s i with Some p => op_of_player p | None => 99 end
  end.

Record fplayer := FP { f_status : nat;   (* 0 constructed, 1 running, 2 finished *)
                       f_halting : bool; f_go : bool; f_tlock : bool; f_open : bool;
                       f_written : list chunk;
                       (* per write: the frame count announced and the buffer length in bytes *)
                       f_nframes : list nat; f_nbytes : list nat;
                       (* open(): format constant, channels, rate / 100, frames_per_buffer *)
                       f_openkw : nat * nat * nat * nat }.
(* what the play call asked for: chunk_size, channels, sample width in bytes, PyAudio format
   constant, rate / 100 *)
Record pparams := PP { pp_chunk : nat; pp_channels : nat; pp_width : nat; pp_format : nat; pp_rate : nat }.
Record final := FS { f_players : list fplayer; f_finished : bool; f_hlock : bool; f_mlock : bool;
                     f_threads : list nat; f_started : list nat; f_terminated : nat;
                     f_pending : list nat  (* per started thread: op code, 99 = none *) }.
Record scase := SC { c_wait : bool; c_script : list cmd;
                     c_steps : list (nat * nat * list nat);   (* chosen tid, its op, enabled set *)
                     c_status : nat;    (* 0 completed, 1 deadlock, 3 anything else (hang, ...) *)
                     c_events : list event;     (* chronological *)
                     c_final : final;
                     c_params : list pparams }.   (* one per player, in order of creation *)

Definition nats_eqb := list_eqb Nat.eqb.
Definition is_some {A} (o : option A) : bool := match o with Some _ => true | None => false end.

Fixpoint replay (s : state) (steps : list (nat * nat * list nat)) : bool * state :=
  match steps with
  | [] => (true, s)
  | (t, op, en) :: r =>
      if nats_eqb en (enabled s) && Nat.eqb op (op_of s t)
      then match step s t with Some s' => replay s' r | None => (false, s) end
      else (false, s)
  end.

Definition status_of_pc (pc : ppc) : nat := match pc with PNew => 0 | PDone => 2 | _ => 1 end.
Definition final_of (s : state) : final :=
  FS (map (fun p => FP (status_of_pc (ppc_ p)) (phalting p) (pgo p) (is_some (ptlock p)) (popen p) (pwritten p)
                       [] [] (0, 0, 0, 0))
          (splayers s))
     (sfinished s) (is_some (shlock s)) (is_some (smlock s)) (sthreads s) (sstarted s) (sterminated s)
     (op_of_mpc (smpc s) ::
      map op_of_player (filter (fun p => negb (Nat.eqb (status_of_pc (ppc_ p)) 0)) (splayers s))).

Definition fplayer_eqb (a b : fplayer) : bool :=
  Nat.eqb (f_status a) (f_status b) && Bool.eqb (f_halting a) (f_halting b) && Bool.eqb (f_go a) (f_go b)
  && Bool.eqb (f_tlock a) (f_tlock b) && Bool.eqb (f_open a) (f_open b) && chunks_eqb (f_written a) (f_written b).
Definition final_eqb (a b : final) : bool :=
  list_eqb fplayer_eqb (f_players a) (f_players b) && Bool.eqb (f_finished a) (f_finished b)
  && Bool.eqb (f_hlock a) (f_hlock b) && Bool.eqb (f_mlock a) (f_mlock b)
  && nats_eqb (f_threads a) (f_threads b) && nats_eqb (f_started a) (f_started b) && Nat.eqb (f_terminated a) (f_terminated b)
  && nats_eqb (f_pending a) (f_pending b).

Definition flags_eqb (a b : list (bool * bool)) : bool :=
  list_eqb (fun x y => Bool.eqb (fst x) (fst y) && Bool.eqb (snd x) (snd y)) a b.
Definition event_eqb (a b : event) : bool :=
  match a, b with
  | EOpen p, EOpen q | EStopS p, EStopS q | EStartS p, EStartS q | ECloseS p, ECloseS q
  | EHalt p, EHalt q => Nat.eqb p q
  | EWrite p c, EWrite q d => Nat.eqb p q && zlist_eqb c d
  | ETerminate, ETerminate | EPlayRaise, EPlayRaise | EAssertFail, EAssertFail => true
  | ECloseRet f, ECloseRet g => flags_eqb f g
  | _, _ => false
  end.

Definition all_done (s : state) : bool :=
  match smpc s with MDone => true | _ => false end
  && forallb (fun p => match ppc_ p with PDone => true | _ => false end) (splayers s).
Definition model_status (s : state) : nat :=
  match enabled s with
  | [] => if all_done s then 0 else 1
  | _ => 2      (* the schedule stopped although some thread can move: never a valid observation *)
  end.

(* implementation = model: same enabled set and same operation at every step, same event trace,
   same final state, same verdict (completed / deadlock) *)
Definition corr_sched (c : scase) : bool :=
  let '(ok, s) := replay (init (c_wait c) (c_script c)) (c_steps c) in
  ok && list_eqb event_eqb (c_events c) (rev (strace s))
  && final_eqb (c_final c) (final_of s)
  && Nat.eqb (c_status c) (model_status s).

(* the property on the implementation's observation *)
Definition player_ok (evs : list event) (i : nat) (fp : fplayer) (a : list chunk) : bool :=
  let w := writes_of i evs in
  chunks_eqb w (f_written fp) && prefix_b w a
  && (if Nat.eqb (f_status fp) 2 && negb (f_halting fp) then chunks_eqb w a else true).
Fixpoint players_ok (evs : list event) (i : nat) (fps : list fplayer) (exp : list (list chunk)) : bool :=
  match fps, exp with
  | [], [] => true
  | fp :: fr, a :: er => player_ok evs i fp a && players_ok evs (S i) fr er
  | _, _ => false
  end.
(* "chunks of exactly chunk_size frames": every write announces chunk_size frames and carries
   chunk_size * channels * width bytes, on a stream opened with the format, channel count, rate and
   buffer size that the play call asked for *)
Definition io_ok (pp : pparams) (fp : fplayer) : bool :=
  forallb (Nat.eqb (pp_chunk pp)) (f_nframes fp)
  && forallb (Nat.eqb (pp_chunk pp * pp_channels pp * pp_width pp)) (f_nbytes fp)
  && Nat.eqb (length (f_nframes fp)) (length (f_written fp))
  && forallb (fun c => Nat.eqb (length c) (pp_chunk pp * pp_channels pp)) (f_written fp)
  && match f_openkw fp with
     | (fmt, ch, rate, fpb) =>
         Nat.eqb fmt (pp_format pp) && Nat.eqb ch (pp_channels pp) && Nat.eqb rate (pp_rate pp)
         && Nat.eqb fpb (pp_chunk pp)
     end.
Fixpoint all_io_ok (pps : list pparams) (fps : list fplayer) : bool :=
  match pps, fps with
  | [], [] => true
  | pp :: pr, fp :: fr => io_ok pp fp && all_io_ok pr fr
  | _, _ => false
  end.

Definition final_closed (f : final) : bool :=
  f_finished f && forallb (fun p => negb (f_open p) && Nat.eqb (f_status p) 2) (f_players f)
  && nats_eqb (f_threads f) [] && Nat.eqb (f_terminated f) 1.
Definition locks_free (f : final) : bool :=
  negb (f_hlock f) && negb (f_mlock f) && forallb (fun p => negb (f_tlock p)) (f_players f).

Definition holds_sched (c : scase) : bool :=
  let evs := c_events c in
  let f := c_final c in
  let exp := expected_audio (c_script c) in
  (* the control script ran to its end (every call returned); players may stay parked in go.wait
     only when the script paused them and never closed the manager *)
  Nat.eqb (hd 0 (f_pending f)) 99 && (c_status c <=? 1)
  && players_ok evs 0 (f_players f) exp
  && Nat.eqb (count_ev is_terminate evs) (f_terminated f) && (f_terminated f <=? 1)
  && Nat.eqb (count_ev is_assert_fail evs) 0
  && Nat.eqb (count_ev is_play_raise evs) (expected_raises (c_script c))
  && close_ok (c_wait c) (c_script c) exp evs && nobody_alive evs
  && halt_prompt (length exp) evs
  && all_io_ok (c_params c) (f_players f)
  && (if has_close (c_script c) then final_closed f else true)
  && locks_free f.


(* ---- several managers alive in one process: the model is the product of independent managers, so
   the run AS EACH MANAGER SAW IT (its own commands, its own players, its own device events, in the
   order they happened) must be a run of its own model: every projected step is enabled and performs
   the same operation, same event trace, same final state, same verdict.  (The enabled sets are not
   compared: while the control thread executes a command of another manager it is idle for this one,
   a state the single-manager model does not have.) *)
Fixpoint replay_proj (s : state) (steps : list (nat * nat * list nat)) : bool * state :=
  match steps with
  | [] => (true, s)
  | (t, op, _) :: r =>
      if Nat.eqb op (op_of s t)
      then match step s t with Some s' => replay_proj s' r | None => (false, s) end
      else (false, s)
  end.
Definition corr_proj (c : scase) : bool :=
  let '(ok, s) := replay_proj (init (c_wait c) (c_script c)) (c_steps c) in
  ok && list_eqb event_eqb (c_events c) (rev (strace s))
  && final_eqb (c_final c) (final_of s)
  && Nat.eqb (c_status c) (model_status s).
Definition corr_multi (cs : list scase) : bool := forallb corr_proj cs.
Definition holds_multi (cs : list scase) : bool := forallb holds_sched cs.
