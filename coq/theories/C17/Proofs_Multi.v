(* C17 - several managers in one process: the model is the product of independent managers.  A step
   of manager m changes component m only, so a global schedule acts on each manager exactly as its
   projection does, and every C17 theorem holds for every component. *)
From Coq Require Import List Bool Arith Lia.
From AL Require Import C17.Model C17.Inv C17.Spec C17.Proofs.
Import ListNotations.

(* a global schedule: (manager index, thread id of that manager's own model) *)
Definition mstep (ms : list state) (mt : nat * nat) : list state :=
  upd (fst mt) (fun s => match step s (snd mt) with Some s' => s' | None => s end) ms.
Definition mexec (ms : list state) (sched : list (nat * nat)) : list state := fold_left mstep sched ms.
Definition project (m : nat) (sched : list (nat * nat)) : list nat :=
  map snd (filter (fun mt => Nat.eqb (fst mt) m) sched).

Lemma nth_error_upd_eq {A} (f : A -> A) l : forall i, nth_error (upd i f l) i = option_map f (nth_error l i).
Proof. induction l as [|x r IH]; intros [|i]; simpl; auto. Qed.
Lemma nth_error_upd_ne {A} (f : A -> A) l : forall i j, i <> j -> nth_error (upd i f l) j = nth_error l j.
Proof.
  induction l as [|x r IH]; intros [|i] [|j] H; simpl; auto; try congruence.
Qed.

(* closing (or any step of) manager B does not touch manager A; A evolves by its own projection *)
Theorem managers_independent : forall sched ms m,
  nth_error (mexec ms sched) m = option_map (fun s => exec s (project m sched)) (nth_error ms m).
Proof.
  induction sched as [|[k t] r IH]; intros ms m; simpl.
  - destruct (nth_error ms m); reflexivity.
  - rewrite IH. unfold mstep, project. simpl. destruct (Nat.eqb_spec k m) as [->|Hne]; simpl.
    + rewrite nth_error_upd_eq. destruct (nth_error ms m) as [s|]; simpl; [|reflexivity].
      destruct (step s t); reflexivity.
    + rewrite nth_error_upd_ne by exact Hne. reflexivity.
Qed.

Corollary managers_reachable : forall waits_scripts sched m s,
  nth_error (mexec (map (fun ws => init (fst ws) (snd ws)) waits_scripts) sched) m = Some s ->
  reachable s.
Proof.
  intros wss sched m s H. rewrite managers_independent, nth_error_map in H.
  destruct (nth_error wss m) as [[w sc]|]; simpl in H; [|discriminate].
  inversion H. exists w, sc, (project m sched). reflexivity.
Qed.
