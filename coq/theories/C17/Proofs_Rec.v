(* C17 - recordings: for EVERY history of record / stop / take / close, every open device stream of a
   recording is registered in manager._recordings; hence right after a close the registry is empty,
   every recording stream is closed and terminate has been called exactly once. *)
From Coq Require Import List Bool Arith ZArith Lia.
From AL Require Import C17.Rec.
Import ListNotations.

Lemma nth_upd_same {A} (f : A -> A) l : forall i, nth_error (upd i f l) i = option_map f (nth_error l i).
Proof. induction l as [|x r IH]; intros [|i]; simpl; auto. Qed.
Lemma nth_upd_other {A} (f : A -> A) l : forall i j, i <> j -> nth_error (upd i f l) j = nth_error l j.
Proof. induction l as [|x r IH]; intros [|i] [|j] H; simpl; auto; congruence. Qed.

Definition registered (s : rstate) : Prop :=
  forall i r, nth_error (rall s) i = Some r -> r_open r = true -> In i (recs s).
Definition counted (s : rstate) : Prop := rterminated s = if rfinished s then 1 else 0.

Lemma In_remove_id j i l : In j l -> j <> i -> In j (remove_id i l).
Proof.
  intros H Hne. unfold remove_id. apply filter_In. split; [exact H|].
  destruct (Nat.eqb_spec j i); [congruence|reflexivity].
Qed.

(* an update that does not open a stream and keeps the registry *)
Lemma registered_upd s i f rs' :
  registered s -> (forall r, r_open (f r) = true -> r_open r = true) -> rs' = recs s ->
  registered (mkRS rs' (upd i f (rall s)) (rterminated s) (rfinished s)).
Proof.
  intros R Hf -> j r Hj Ho. simpl in *. destruct (Nat.eq_dec i j) as [->|Hne].
  - rewrite nth_upd_same in Hj. destruct (nth_error (rall s) j) as [r0|] eqn:E; [|discriminate].
    inversion Hj; subst. apply (R j r0 E). apply Hf. exact Ho.
  - rewrite nth_upd_other in Hj by exact Hne. apply (R j r Hj Ho).
Qed.

Lemma registered_finish s i : registered s -> registered (finish s i).
Proof.
  intros R j r Hj Ho. unfold finish in *. simpl in *. destruct (Nat.eq_dec i j) as [->|Hne].
  - rewrite nth_upd_same in Hj. destruct (nth_error (rall s) j); [|discriminate].
    inversion Hj; subst. discriminate Ho.
  - rewrite nth_upd_other in Hj by exact Hne. apply In_remove_id; [apply (R j r Hj Ho)|congruence].
Qed.

Lemma registered_rstop s i : registered s -> registered (rstop s i).
Proof. intro R. unfold rstop. apply registered_upd; auto. Qed.

Lemma registered_rnext s i : registered s -> registered (fst (rnext s i)).
Proof.
  intro R. unfold rnext. destruct (nth_error (rall s) i) as [r|]; [|exact R].
  destruct (r_done r); [exact R|]. destruct (r_buf r).
  - destruct (r_recording r); [|apply registered_finish; exact R].
    destruct (r_avail r); [apply registered_finish; exact R|].
    destruct (dev_chunk i (r_next r) (r_chunk r)); [exact R|]. simpl. apply registered_upd; auto.
  - simpl. apply registered_upd; auto.
Qed.

Lemma rnext_keeps s i : rterminated (fst (rnext s i)) = rterminated s /\ rfinished (fst (rnext s i)) = rfinished s.
Proof.
  unfold rnext. destruct (nth_error (rall s) i) as [r|]; [|auto].
  destruct (r_done r); [auto|]. destruct (r_buf r); [|auto].
  destruct (r_recording r); [|auto]. destruct (r_avail r); [auto|].
  destruct (dev_chunk i (r_next r) (r_chunk r)); auto.
Qed.

Lemma rtake_inv k : forall s i acc, registered s -> counted s ->
  registered (fst (rtake s i k acc)) /\ counted (fst (rtake s i k acc)).
Proof.
  induction k as [|k IH]; intros s i acc R C; simpl; [auto|].
  pose proof (registered_rnext s i R) as R1. destruct (rnext_keeps s i) as [Ht Hf].
  assert (C1 : counted (fst (rnext s i))) by (unfold counted in *; rewrite Ht, Hf; exact C).
  destruct (rnext s i) as [s' [x| |]]; simpl in *; auto.
Qed.

Lemma filter_len_le {A} (f : A -> bool) l : length (filter f l) <= length l.
Proof. induction l as [|x r IH]; simpl; [lia|]. destruct (f x); simpl; lia. Qed.

Lemma remove_id_length i l : In i l -> length (remove_id i l) < length l.
Proof.
  unfold remove_id. induction l as [|x r IH]; simpl; [tauto|]. intros [->|H].
  - rewrite Nat.eqb_refl. simpl. pose proof (filter_len_le (fun j => negb (j =? i)) r). lia.
  - specialize (IH H). destruct (negb (x =? i)); simpl; lia.
Qed.

Lemma drain_inv fuel : forall s, registered s -> length (recs s) <= fuel ->
  registered (drain fuel s) /\ recs (drain fuel s) = []
  /\ rterminated (drain fuel s) = rterminated s /\ rfinished (drain fuel s) = rfinished s.
Proof.
  induction fuel as [|f IH]; intros s R Hl; simpl.
  - destruct (recs s); [auto|simpl in Hl; lia].
  - destruct (rev (recs s)) as [|i t] eqn:E.
    + assert (recs s = []) by (rewrite <- (rev_involutive (recs s)), E; reflexivity). auto.
    + assert (Hin : In i (recs s)) by (apply in_rev; rewrite E; left; reflexivity).
      destruct (IH (finish (rstop s i) i)) as (R' & Hn & Ht & Hf).
      * apply registered_finish, registered_rstop, R.
      * simpl. pose proof (remove_id_length i (recs s) Hin). lia.
      * auto.
Qed.

Lemma rstep_inv s o : registered s -> counted s ->
  registered (fst (rstep s o)) /\ counted (fst (rstep s o)).
Proof.
  intros R C. destruct o as [c a|i|i k|]; simpl.
  - split; [|exact C]. intros j r Hj Ho. simpl in *. apply in_or_app.
    destruct (Nat.lt_ge_cases j (length (rall s))) as [Hlt|Hge].
    + rewrite nth_error_app1 in Hj by exact Hlt. left. apply (R j r Hj Ho).
    + rewrite nth_error_app2 in Hj by exact Hge. destruct (j - length (rall s)) eqn:Ej; simpl in Hj.
      * right. left. lia.
      * destruct n; discriminate.
  - split; [apply registered_rstop, R|exact C].
  - apply rtake_inv; assumption.
  - destruct (rfinished s) eqn:Ef; [auto|]. simpl.
    destruct (drain_inv (length (recs s)) s R (le_n _)) as (R' & Hn & Ht & Hf). split.
    + intros j r Hj Ho. simpl in *. apply (R' j r Hj Ho).
    + unfold counted in *. simpl. rewrite Ht, C, Ef. reflexivity.
Qed.

Lemma rrun_inv h : forall s, registered s -> counted s ->
  registered (fst (rrun s h)) /\ counted (fst (rrun s h)).
Proof.
  induction h as [|o r IH]; intros s R C; simpl; [auto|].
  destruct (rstep_inv s o R C) as [R1 C1]. destruct (rstep s o) as [s1 out]. simpl in *.
  specialize (IH s1 R1 C1). destruct (rrun s1 r) as [s2 outs]. exact IH.
Qed.

(* every history: open recording streams are registered, terminate is counted at most once *)
Theorem rec_registered_all : forall h, registered (rfinal h) /\ rterminated (rfinal h) <= 1.
Proof.
  intro h. destruct (rrun_inv h rinit) as [R C]; [intros i r H; destruct i; discriminate|reflexivity|].
  split; [exact R|]. unfold rfinal, counted in *. rewrite C. destruct (rfinished _); lia.
Qed.

Lemma rrun_app h1 : forall s h2, fst (rrun s (h1 ++ h2)) = fst (rrun (fst (rrun s h1)) h2).
Proof.
  induction h1 as [|o r IH]; intros s h2; simpl; [reflexivity|].
  destruct (rstep s o) as [s1 out]. specialize (IH s1 h2).
  destruct (rrun s1 (r ++ h2)), (rrun s1 r). simpl in *. exact IH.
Qed.

(* right after the (first) close, whatever happened before: the registry is empty, every device
   stream opened by record is closed, terminate has been called exactly once *)
Theorem rec_after_close_all : forall h, rfinished (rfinal h) = false ->
  let s := rfinal (h ++ [ORClose]) in
  recs s = [] /\ Forall (fun r => r_open r = false) (rall s) /\ rterminated s = 1 /\ rfinished s = true.
Proof.
  intros h Ef. cbv zeta. unfold rfinal in *. rewrite rrun_app.
  destruct (rrun_inv h rinit) as [R C]; [intros i r H; destruct i; discriminate|reflexivity|].
  set (s0 := fst (rrun rinit h)) in *. simpl. rewrite Ef. simpl.
  destruct (drain_inv (length (recs s0)) s0 R (le_n _)) as (R' & Hn & Ht & Hf).
  split; [exact Hn|]. split; [|split; [|reflexivity]].
  - apply Forall_forall. intros r Hin. apply In_nth_error in Hin as [i Hi].
    destruct (r_open r) eqn:Eo; [|reflexivity]. exfalso. pose proof (R' i r Hi Eo) as Hx. rewrite Hn in Hx. exact Hx.
  - rewrite Ht. unfold counted in C. rewrite C, Ef. reflexivity.
Qed.

(* and it stays so as long as record is not called again (stop / take / close on a closed manager) *)
Definition no_record (o : rop) : bool := match o with ORecord _ _ => false | _ => true end.

Lemma remove_id_nil i : remove_id i [] = [].
Proof. reflexivity. Qed.

Lemma rnext_nil s i : recs s = [] -> recs (fst (rnext s i)) = [].
Proof.
  intro H. unfold rnext. destruct (nth_error (rall s) i) as [r|]; [|exact H].
  destruct (r_done r); [exact H|]. destruct (r_buf r); [|exact H].
  destruct (r_recording r); [|simpl; rewrite H; reflexivity].
  destruct (r_avail r); [simpl; rewrite H; reflexivity|].
  destruct (dev_chunk i (r_next r) (r_chunk r)); exact H.
Qed.

Lemma rtake_nil k : forall s i acc, recs s = [] -> recs (fst (rtake s i k acc)) = [].
Proof.
  induction k as [|k IH]; intros s i acc H; simpl; [exact H|].
  pose proof (rnext_nil s i H) as H1. destruct (rnext s i) as [s' [x| |]]; simpl in *; auto.
Qed.

Theorem rec_stays_closed : forall h2 s, forallb no_record h2 = true -> recs s = [] ->
  recs (fst (rrun s h2)) = [].
Proof.
  induction h2 as [|o r IH]; intros s Hn H; simpl; [exact H|].
  simpl in Hn. apply andb_true_iff in Hn as [Ho Hr].
  assert (H1 : recs (fst (rstep s o)) = []).
  { destruct o as [c a|i|i k|]; simpl in *; try discriminate; auto.
    - apply rtake_nil; exact H.
    - destruct (rfinished s); [exact H|]. simpl. rewrite H. simpl. exact H. }
  destruct (rstep s o) as [s1 out]. simpl in *.
  specialize (IH s1 Hr H1). destruct (rrun s1 r) as [s2 outs]. exact IH.
Qed.
