(* C17 - recordings (AudioIO.record / RecStream / recording_finished / the drain loop of close, as of
   1fadd31): a sequential model over HISTORIES of operations of the control thread.  Recordings are only
   touched by the thread that calls record / stop / take / close, and close drains them after all
   player threads have been joined, so this part is independent of the interleaving model (Model.v).
   The fake device delivers, for recording i, chunk j, position t, the sample dev i j t; after `avail`
   chunks its read() raises.  Model, spec and checker of the family; proofs in Proofs_Rec.v. *)
From Coq Require Import List Bool Arith ZArith.
Import ListNotations.

Record rec := mkR {
  r_chunk : nat;        (* chunk_size *)
  r_avail : nat;        (* chunks the device still delivers before read() raises *)
  r_next : nat;         (* index of the next chunk *)
  r_buf : list Z;       (* samples of the current chunk not yet yielded *)
  r_recording : bool;   (* RecStream._recording *)
  r_open : bool;        (* the device stream is open *)
  r_done : bool         (* the generator has finished *)
}.

Record rstate := mkRS {
  recs : list nat;      (* manager._recordings, as recording ids (order of record() calls) *)
  rall : list rec;      (* every recording ever created, by id *)
  rterminated : nat;
  rfinished : bool
}.

Inductive rop :=
| ORecord (chunk avail : nat)     (* manager.record(chunk_size=chunk) *)
| ORStop (i : nat)                (* recording i: stop() *)
| ORTake (i k : nat)              (* recording i: take(k) *)
| ORClose.                        (* manager.close() (its recording part) *)

Inductive rout :=
| RNone | RSamples (l : list Z) | RRaise.    (* take: samples, or the device error propagates *)

Definition dev (i j chunk t : nat) : Z := Z.of_nat (1000 * i + chunk * j + t).
Definition dev_chunk (i j chunk : nat) : list Z := map (dev i j chunk) (seq 0 chunk).

Fixpoint upd {A} (i : nat) (f : A -> A) (l : list A) : list A :=
  match l, i with
  | [], _ => []
  | x :: r, O => f x :: r
  | x :: r, S j => x :: upd j f r
  end.
Definition remove_id (i : nat) (l : list nat) : list nat := filter (fun j => negb (Nat.eqb j i)) l.

(* the finally clause of rec(): file_obj.close(); _recording = False; recording_finished(self) *)
Definition finish (s : rstate) (i : nat) : rstate :=
  mkRS (remove_id i (recs s))
       (upd i (fun r => mkR (r_chunk r) (r_avail r) (r_next r) [] false false true) (rall s))
       (rterminated s) (rfinished s).

Inductive nres := NYield (x : Z) | NStop | NRaise.

(* one next() on recording i *)
Definition rnext (s : rstate) (i : nat) : rstate * nres :=
  match nth_error (rall s) i with
  | None => (s, NStop)
  | Some r =>
      if r_done r then (s, NStop)
      else match r_buf r with
           | x :: b => (mkRS (recs s) (upd i (fun r => mkR (r_chunk r) (r_avail r) (r_next r) b (r_recording r) (r_open r) (r_done r)) (rall s))
                             (rterminated s) (rfinished s), NYield x)
           | [] =>
               if r_recording r then
                 match r_avail r with
                 | O => (finish s i, NRaise)
                 | S a =>
                     match dev_chunk i (r_next r) (r_chunk r) with
                     | [] => (s, NStop)      (* chunk_size 0: not generated *)
                     | x :: b => (mkRS (recs s) (upd i (fun r => mkR (r_chunk r) a (S (r_next r)) b (r_recording r) (r_open r) (r_done r)) (rall s))
                                       (rterminated s) (rfinished s), NYield x)
                     end
                 end
               else (finish s i, NStop)
           end
  end.

Fixpoint rtake (s : rstate) (i k : nat) (acc : list Z) : rstate * rout :=
  match k with
  | O => (s, RSamples (rev acc))
  | S k' => match rnext s i with
            | (s', NYield x) => rtake s' i k' (x :: acc)
            | (s', NStop) => (s', RSamples (rev acc))
            | (s', NRaise) => (s', RRaise)
            end
  end.

Definition rstop (s : rstate) (i : nat) : rstate :=
  mkRS (recs s) (upd i (fun r => mkR (r_chunk r) (r_avail r) (r_next r) (r_buf r) false (r_open r) (r_done r)) (rall s))
       (rterminated s) (rfinished s).

(* while self._recordings: recst = self._recordings[-1]; recst.stop(); recst.take(inf)
   after stop the generator yields the rest of its chunk and finishes: finish removes it *)
Fixpoint drain (fuel : nat) (s : rstate) : rstate :=
  match fuel with
  | O => s
  | S f => match rev (recs s) with
           | [] => s
           | i :: _ => drain f (finish (rstop s i) i)
           end
  end.

Definition rstep (s : rstate) (o : rop) : rstate * rout :=
  match o with
  | ORecord c a => (mkRS (recs s ++ [length (rall s)]) (rall s ++ [mkR c a 0 [] true true false])
                         (rterminated s) (rfinished s), RNone)
  | ORStop i => (rstop s i, RNone)
  | ORTake i k => rtake s i k []
  | ORClose => if rfinished s then (s, RNone)
               else let s1 := drain (length (recs s)) s in
                    (mkRS (recs s1) (rall s1) (S (rterminated s1)) true, RNone)
  end.

Fixpoint rrun (s : rstate) (h : list rop) : rstate * list rout :=
  match h with
  | [] => (s, [])
  | o :: r => let '(s1, out) := rstep s o in let '(s2, outs) := rrun s1 r in (s2, out :: outs)
  end.
Definition rinit : rstate := mkRS [] [] 0 false.
Definition rfinal (h : list rop) : rstate := fst (rrun rinit h).

(* ---- checker of the family "rec" *)
Fixpoint zlist_eqb (a b : list Z) : bool :=
  match a, b with [], [] => true | x :: a', y :: b' => Z.eqb x y && zlist_eqb a' b' | _, _ => false end.
Definition rout_eqb (a b : rout) : bool :=
  match a, b with
  | RNone, RNone | RRaise, RRaise => true
  | RSamples x, RSamples y => zlist_eqb x y
  | _, _ => false
  end.
Fixpoint routs_eqb (a b : list rout) : bool :=
  match a, b with [], [] => true | x :: a', y :: b' => rout_eqb x y && routs_eqb a' b' | _, _ => false end.
Fixpoint nats_eqb (a b : list nat) : bool :=
  match a, b with [], [] => true | x :: a', y :: b' => Nat.eqb x y && nats_eqb a' b' | _, _ => false end.
Fixpoint bools_eqb (a b : list bool) : bool :=
  match a, b with [], [] => true | x :: a', y :: b' => Bool.eqb x y && bools_eqb a' b' | _, _ => false end.

(* observation: output of every op; then the registry (ids), which input streams are open, how many
   chunks each device stream was asked for, terminate count, whether a close raised, and whether every
   OUTPUT stream (players of the same history) is closed *)
Record rcase := RC { rc_hist : list rop; rc_outs : list rout; rc_recs : list nat; rc_open : list bool;
                     rc_reads : list nat; rc_terminated : nat; rc_close_raised : bool; rc_outputs_closed : bool }.
Fixpoint has_rclose (h : list rop) : bool :=
  match h with [] => false | ORClose :: _ => true | _ :: r => has_rclose r end.
Definition corr_rec (c : rcase) : bool :=
  let '(s, outs) := rrun rinit (rc_hist c) in
  routs_eqb (rc_outs c) outs && nats_eqb (rc_recs c) (recs s)
  && bools_eqb (rc_open c) (map r_open (rall s)) && nats_eqb (rc_reads c) (map r_next (rall s))
  && Nat.eqb (rc_terminated c) (rterminated s) && negb (rc_close_raised c).
(* the close clause for recordings (histories of this family never record after a close) *)
Definition holds_rec (c : rcase) : bool :=
  negb (rc_close_raised c)
  && (if has_rclose (rc_hist c)
      then forallb negb (rc_open c) && nats_eqb (rc_recs c) [] && Nat.eqb (rc_terminated c) 1 && rc_outputs_closed c
      else Nat.eqb (rc_terminated c) 0).
