(* C17 - program-counter classes (critical sections) and the inductive invariant of the model.
   Definitions only; preservation is proved in Proofs_Inv.v. *)
From Coq Require Import List Bool Arith.
From AL Require Import C17.Model.
Import ListNotations.

(* ---- player pcs *)
(* holding its own lock (thread.lock): the epilogue of run *)
Definition pc_tsec (pc : ppc) : bool :=
  match pc with PEpiTest | PEpiClose | PFinAcq | PFinRemove | PFinRel | PEpiRelT => true | _ => false end.
(* holding manager.lock: inside thread_finished *)
Definition pc_msec (pc : ppc) : bool :=
  match pc with PFinRemove | PFinRel => true | _ => false end.
(* started and not yet removed from manager._threads *)
Definition pc_in_threads (pc : ppc) : bool :=
  match pc with
  | PWrite | PTestHalt1 | PTestGo | PStopStream | PTestHalt2 | PWait | PTestHalt3 | PStartStream
  | PEpiAcq | PEpiTest | PEpiClose | PFinAcq | PFinRemove => true
  | _ => false
  end.
(* started and its stream not yet closed *)
Definition pc_open (pc : ppc) : bool :=
  match pc with
  | PWrite | PTestHalt1 | PTestGo | PStopStream | PTestHalt2 | PWait | PTestHalt3 | PStartStream
  | PEpiAcq | PEpiTest | PEpiClose => true
  | _ => false
  end.
(* left the chunk loop *)
Definition pc_epi (pc : ppc) : bool :=
  match pc with
  | PEpiAcq | PEpiTest | PEpiClose | PFinAcq | PFinRemove | PFinRel | PEpiRelT | PDone => true
  | _ => false
  end.

(* no write_stream can follow while thread.halting stays true *)
Definition pc_nowrite (pc : ppc) : bool :=
  match pc with
  | PTestHalt1 | PStopStream | PTestHalt2 => true
  | pc => pc_epi pc
  end.

(* ---- main pcs *)
(* holding manager.halting: inside close *)
Definition m_hsec (M : mpc) : bool :=
  match M with
  | MCloseRelH2 | MCloseLoopAcq | MCloseGet | MCloseBreakRel | MCloseLoopRel _
  | MCtlAcq KCResume _ | MCtlAcq KCStop _ | MResumeSet true _ | MStopHalt true _ | MStopSet true _
  | MCtlRel true _ | MCloseJoin _ | MCloseJoinAll _ | MCloseAssert | MCloseTerm | MCloseRelH
  | MCloseRelHFail => true
  | _ => false
  end.
(* the first close is in progress and terminate() has not been called yet *)
Definition m_body (M : mpc) : bool :=
  match M with
  | MCloseLoopAcq | MCloseGet | MCloseBreakRel | MCloseLoopRel _
  | MCtlAcq KCResume _ | MCtlAcq KCStop _ | MResumeSet true _ | MStopHalt true _ | MStopSet true _
  | MCtlRel true _ | MCloseJoin _ | MCloseJoinAll _ | MCloseAssert | MCloseTerm
  | MCloseRelHFail => true
  | _ => false
  end.
(* holding manager.lock *)
Definition m_msec (M : mpc) : bool :=
  match M with
  | MPlayRaiseRel | MPlayGoSet _ | MPlayHaltInit _ | MPlayOpen _ | MPlayAppend _ | MPlayPrune _ _ _
  | MPlayStart _ | MPlayRel | MCloseGet | MCloseBreakRel | MCloseLoopRel _ => true
  | _ => false
  end.
(* holding the lock of player t *)
Definition m_tsec (M : mpc) : option nat :=
  match M with
  | MPauseClear t | MResumeSet _ t | MStopHalt _ t | MStopSet _ t | MCtlRel _ t => Some t
  | _ => None
  end.
(* the player under construction (constructed, not yet started) *)
Definition m_new (M : mpc) : option nat :=
  match M with
  | MPlayGoSet p | MPlayHaltInit p | MPlayOpen p | MPlayAppend p | MPlayPrune p _ _ | MPlayStart p => Some p
  | _ => None
  end.
Definition m_new_opened (M : mpc) : bool :=
  match M with MPlayAppend _ | MPlayPrune _ _ _ | MPlayStart _ => true | _ => false end.
Definition m_new_appended (M : mpc) : bool :=
  match M with MPlayPrune _ _ _ | MPlayStart _ => true | _ => false end.
(* close has just made sure that go is set for this player and is about to join it *)
Definition m_goset (M : mpc) : option nat :=
  match M with MCtlRel true t | MCloseJoin t => Some t | _ => None end.
(* the while loop of close is over *)
Definition m_after_loop (M : mpc) : bool :=
  match M with MCloseBreakRel | MCloseJoinAll _ | MCloseAssert | MCloseTerm => true | _ => false end.
(* player indices a pc refers to *)
Definition m_refs (M : mpc) : list nat :=
  match M with
  | MPlayGoSet p | MPlayHaltInit p | MPlayOpen p | MPlayAppend p | MPlayStart p => [p]
  | MPlayPrune p todo kept => p :: todo ++ kept
  | MCtlAcq _ t | MPauseClear t | MResumeSet _ t | MStopHalt _ t | MStopSet _ t | MCtlRel _ t
  | MCloseLoopRel t | MCloseJoin t => [t]
  | MCloseJoinAll todo => todo
  | _ => []
  end.
Definition m_todo_nonempty (M : mpc) : Prop :=
  match M with
  | MPlayPrune _ todo _ | MCloseJoinAll todo => todo <> []
  | _ => True
  end.

(* where every alive player is recorded (so that close can join it) *)
Definition alive_home (s : state) : list nat :=
  match smpc s with
  | MPlayPrune _ todo kept => todo ++ kept
  | MCloseJoinAll todo => todo
  | MCloseAssert | MCloseTerm => []
  | M => if sfinished s && negb (m_body M) then [] else sstarted s
  end.

Record ginv (s : state) : Prop := {
  g_refs : forall t, In t (m_refs (smpc s)) -> t < length (splayers s);
  g_threads_lt : forall t, In t (sthreads s) -> t < length (splayers s);
  g_started_lt : forall t, In t (sstarted s) -> t < length (splayers s);
  g_hlock : shlock s = if m_hsec (smpc s) then Some 0 else None;
  g_mlock0 : m_msec (smpc s) = true <-> smlock s = Some 0;
  g_mlock_lt : forall i, smlock s = Some (S i) -> i < length (splayers s);
  g_nodup : NoDup (sthreads s);
  g_phase : if m_body (smpc s) then sfinished s = true /\ sterminated s = 0
            else (sfinished s = false /\ sterminated s = 0)
                 \/ (sfinished s = true /\ sterminated s = 1 /\ sthreads s = []);
  g_nofail : smpc s <> MCloseRelHFail;
  g_empty : m_after_loop (smpc s) = true -> sthreads s = [];
  g_start : forall p, smpc s = MPlayStart p -> In p (sstarted s);
  g_fin_new : sfinished s = true -> m_new (smpc s) = None;
  g_todo : m_todo_nonempty (smpc s)
}.

Record pinv (s : state) (i : nat) (p : player) : Prop := {
  p_tlock_main : m_tsec (smpc s) = Some i -> pc_tsec (ppc_ p) = false /\ ptlock p = Some 0;
  p_tlock_self : m_tsec (smpc s) <> Some i -> ptlock p = if pc_tsec (ppc_ p) then Some (S i) else None;
  p_mlock : pc_msec (ppc_ p) = true <-> smlock s = Some (S i);
  p_written : pwritten p ++ prem p = paudio p;
  p_write_ne : ppc_ p = PWrite -> prem p <> [];
  p_epi : pc_epi (ppc_ p) = true -> phalting p = true \/ prem p = [];
  p_new : ppc_ p = PNew <-> m_new (smpc s) = Some i;
  p_threads : mem i (sthreads s) = match ppc_ p with PNew => m_new_appended (smpc s) | pc => pc_in_threads pc end;
  p_open : popen p = match ppc_ p with PNew => m_new_opened (smpc s) | pc => pc_open pc end;
  p_home : p_alive p = true -> In i (alive_home s);
  p_go : m_goset (smpc s) = Some i -> pgo p = true;
  p_after : pafter p <= 1 /\ (phalting p = false -> pafter p = 0)
            /\ (pafter p = 1 -> pc_nowrite (ppc_ p) = true)
}.

Definition inv (s : state) : Prop :=
  ginv s /\ forall i p, nth_error (splayers s) i = Some p -> pinv s i p.

Definition reachable (s : state) : Prop :=
  exists wait script sched, s = exec (init wait script) sched.
