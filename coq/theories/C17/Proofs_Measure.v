(* C17 - the measure strictly decreases on every transition from a state satisfying the invariant. *)
From Coq Require Import List Bool Arith Lia.
From AL Require Import C17.Model C17.Lib C17.Inv C17.Spec C17.Measure C17.Proofs_InvP C17.Proofs_InvM C17.Proofs.
Import ListNotations.

Lemma pmeasure_upd g l : forall i x, nth_error l i = Some x ->
  players_measure (upd i g l) + pm x = players_measure l + pm (g x).
Proof.
  unfold players_measure. induction l as [|y r IH]; intros [|i] x H; simpl in *; try discriminate.
  - inversion H; subst. lia.
  - specialize (IH i x H). lia.
Qed.

Lemma pmeasure_upd_same g l i : (forall x, pm (g x) = pm x) ->
  players_measure (upd i g l) = players_measure l.
Proof.
  intro Hg. unfold players_measure. revert i. induction l as [|y r IH]; intros [|i]; simpl; auto.
Qed.

Lemma pmeasure_snoc l x : players_measure (l ++ [x]) = players_measure l + pm x.
Proof. unfold players_measure. rewrite map_app, list_sum_app. simpl. lia. Qed.

Lemma cost_mono sc : forall S S', S <= S' -> cost sc S <= cost sc S'.
Proof.
  induction sc as [|c r IH]; intros S S' H; simpl; [lia|].
  destruct c; unfold tail; try (specialize (IH S S' H); lia).
  specialize (IH (S + 1) (S' + 1)). lia.
Qed.

(* what fetching the next command costs at most *)
Definition idle_cur (M : mpc) (S : nat) : nat :=
  match M with
  | MPlayAcq a => 8 + (S + 1) + new_budget a + LOOPW
  | MCtlAcq _ _ => 4
  | MCloseAcqH => 10 + tail S
  | _ => 0
  end.
Definition idle_S (M : mpc) (S : nat) : nat := match M with MPlayAcq _ => S + 1 | _ => S end.

Lemma fetch_cost np B sc :
  idle_cur (fst (fetch np sc)) B + cost (snd (fetch np sc)) (idle_S (fst (fetch np sc)) B) <= cost sc B.
Proof.
  induction sc as [|c r IH]; simpl; [lia|].
  destruct c; simpl; try lia; destruct (t <? np); simpl; lia.
Qed.

Lemma measure_next_cmd x :
  cur (next_cmd x) (started_bound (next_cmd x)) + cost (sscript (next_cmd x)) (started_bound (next_cmd x))
  <= cost (sscript x) (length (sstarted x)).
Proof.
  unfold next_cmd.
  pose proof (fetch_cost (length (splayers x)) (length (sstarted x)) (sscript x)) as H.
  pose proof (fetch_idle (length (splayers x)) (sscript x)) as Hi.
  destruct (fetch (length (splayers x)) (sscript x)) as [M r]. simpl in *.
  destruct Hi; unfold cur, started_bound; simpl in *; lia.
Qed.

Lemma remove_first_notin i l : mem i l = false -> remove_first i l = l.
Proof.
  induction l as [|y r IH]; simpl; [reflexivity|].
  destruct (Nat.eqb i y); simpl; [discriminate|]. intro H. rewrite IH by exact H. reflexivity.
Qed.

Lemma remove_first_length i l : mem i l = true -> length (remove_first i l) + 1 = length l.
Proof.
  induction l as [|y r IH]; simpl; [discriminate|].
  destruct (Nat.eqb i y); simpl; [lia|]. intro H. specialize (IH H). lia.
Qed.

Lemma jr_remove s i t :
  (if mem t (remove_first i (sthreads s)) then 0 else 8) <= jr s t + 8.
Proof. unfold jr. destruct (mem t (remove_first i (sthreads s))), (mem t (sthreads s)); lia. Qed.

Lemma cur_remove s i B :
  cur (set_threads s (remove_first i (sthreads s))) B + LOOPW * length (remove_first i (sthreads s))
  <= cur s B + LOOPW * length (sthreads s).
Proof.
  destruct (mem i (sthreads s)) eqn:Em.
  - pose proof (remove_first_length i _ Em) as Hl. unfold LOOPW.
    assert (cur (set_threads s (remove_first i (sthreads s))) B <= cur s B + 8); [|lia].
    unfold cur; simpl. destruct (smpc s); try lia; unfold jr; simpl;
      repeat match goal with c : bool |- _ => destruct c | k : ctl |- _ => destruct k end;
      try lia;
      destruct (mem t (remove_first i (sthreads s))), (mem t (sthreads s)); lia.
  - rewrite (remove_first_notin _ _ Em).
    replace (set_threads s (sthreads s)) with s by (destruct s; reflexivity). lia.
Qed.

Ltac pm_tac Ep Epc :=
  match goal with
  | |- context[players_measure (upd ?i ?g ?l)] =>
      let H := fresh "Hsum" in
      pose proof (pmeasure_upd g l i _ Ep) as H; unfold pm in H; simpl in H; rewrite ?Epc in H; simpl in H
  end.

Lemma measure_player s i s' : inv s -> step_player s i = Some s' -> measure s' < measure s.
Proof.
  intros [G P] H. unfold step_player in H.
  destruct (get_player s i) as [p|] eqn:Ep; [|discriminate].
  pose proof (P i p Ep) as Pi. unfold get_player in Ep.
  destruct (ppc_ p) eqn:Epc; break_step H; inversion H; subst s'; clear H.
  all: try (unfold measure, started_bound; simpl; pm_tac Ep Epc;
            unfold cur, jr in *; simpl in *;
            repeat match goal with
                   | H : context[if ?b then _ else _] |- _ => destruct b eqn:?
                   | H : context[loop_pc ?q] |- _ => unfold loop_pc in H; destruct (prem q) eqn:?
                   end; simpl in *; rewrite ?E in *; simpl in *; lia).
  (* PFinRemove *)
  unfold measure, started_bound; simpl.
  pose proof (cur_remove s i (started_bound s)) as Hc. unfold started_bound in Hc.
  pm_tac Ep Epc. unfold cur in *; simpl in *. unfold jr in *; simpl in *. lia.
Qed.
