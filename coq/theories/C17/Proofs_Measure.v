(* C17 - the measure strictly decreases on every transition from a state satisfying the invariant. *)
From Coq Require Import List Bool Arith Lia.
From AL Require Import C17.Model C17.Lib C17.Inv C17.Spec C17.Measure C17.Proofs_InvP C17.Proofs_InvM C17.Proofs.
Import ListNotations.

Lemma pmeasure_upd g l : forall i x, nth_error l i = Some x ->
  players_measure (upd i g l) + pm x = players_measure l + pm (g x).
Proof.
  unfold players_measure. induction l as [|y r IH]; intros [|i] x H; simpl in *; try discriminate.
  - inversion H; subst. lia.
  - specialize (IH i x H). lia.
Qed.

Lemma pmeasure_upd_same g l i : (forall x, pm (g x) = pm x) ->
  players_measure (upd i g l) = players_measure l.
Proof.
  intro Hg. unfold players_measure. revert i. induction l as [|y r IH]; intros [|i]; simpl; auto.
Qed.

Lemma pmeasure_snoc l x : players_measure (l ++ [x]) = players_measure l + pm x.
Proof. unfold players_measure. rewrite map_app, list_sum_app. simpl. lia. Qed.

Lemma cost_mono sc : forall S S', S <= S' -> cost sc S <= cost sc S'.
Proof.
  induction sc as [|c r IH]; intros S S' H; simpl; [lia|].
  destruct c; unfold tail; try (specialize (IH S S' H); lia);
    specialize (IH (S + 1) (S' + 1)); lia.
Qed.

(* what fetching the next command costs at most *)
Definition idle_cur (M : mpc) (S : nat) : nat :=
  match M with
  | MPlayAcq a _ pl => 8 + (S + 1) + new_budget a pl + LOOPW
  | MCtlAcq _ _ => 4
  | MCloseAcqH => 10 + tail S
  | _ => 0
  end.
Definition idle_S (M : mpc) (S : nat) : nat := match M with MPlayAcq _ _ _ => S + 1 | _ => S end.

Lemma fetch_cost np B sc :
  idle_cur (fst (fetch np sc)) B + cost (snd (fetch np sc)) (idle_S (fst (fetch np sc)) B) <= cost sc B.
Proof.
  induction sc as [|c r IH]; simpl; [lia|].
  destruct c; simpl; try lia; destruct (t <? np); simpl; lia.
Qed.

Lemma measure_next_cmd x :
  cur (next_cmd x) (started_bound (next_cmd x)) + cost (sscript (next_cmd x)) (started_bound (next_cmd x))
  <= cost (sscript x) (length (sstarted x)).
Proof.
  unfold next_cmd.
  pose proof (fetch_cost (length (splayers x)) (length (sstarted x)) (sscript x)) as H.
  pose proof (fetch_idle (length (splayers x)) (sscript x)) as Hi.
  destruct (fetch (length (splayers x)) (sscript x)) as [M r]. simpl in *.
  destruct Hi; unfold cur, started_bound; simpl in *; lia.
Qed.

Lemma remove_first_notin i l : mem i l = false -> remove_first i l = l.
Proof.
  induction l as [|y r IH]; simpl; [reflexivity|].
  destruct (Nat.eqb i y); simpl; [discriminate|]. intro H. rewrite IH by exact H. reflexivity.
Qed.

Lemma remove_first_length i l : mem i l = true -> length (remove_first i l) + 1 = length l.
Proof.
  induction l as [|y r IH]; simpl; [discriminate|].
  destruct (Nat.eqb i y); simpl; [lia|]. intro H. specialize (IH H). lia.
Qed.

Lemma jr_remove s i t :
  (if mem t (remove_first i (sthreads s)) then 0 else 8) <= jr s t + 8.
Proof. unfold jr. destruct (mem t (remove_first i (sthreads s))), (mem t (sthreads s)); lia. Qed.

Lemma cur_remove s i B :
  cur (set_threads s (remove_first i (sthreads s))) B + LOOPW * length (remove_first i (sthreads s))
  <= cur s B + LOOPW * length (sthreads s).
Proof.
  destruct (mem i (sthreads s)) eqn:Em.
  - pose proof (remove_first_length i _ Em) as Hl. unfold LOOPW.
    assert (cur (set_threads s (remove_first i (sthreads s))) B <= cur s B + 8); [|lia].
    unfold cur; simpl. destruct (smpc s); try lia; unfold jr; simpl;
      repeat match goal with c : bool |- _ => destruct c | k : ctl |- _ => destruct k end;
      try lia;
      destruct (mem t (remove_first i (sthreads s))), (mem t (sthreads s)); lia.
  - rewrite (remove_first_notin _ _ Em).
    replace (set_threads s (sthreads s)) with s by (destruct s; reflexivity). lia.
Qed.

Ltac pm_tac Ep Epc :=
  match goal with
  | |- context[players_measure (upd ?i ?g ?l)] =>
      let H := fresh "Hsum" in
      pose proof (pmeasure_upd g l i _ Ep) as H; unfold pm in H; simpl in H; rewrite ?Epc in H; simpl in H
  end.

Local Arguments Nat.mul : simpl never.

Lemma cur_ext s' s B : smpc s' = smpc s -> sthreads s' = sthreads s -> cur s' B = cur s B.
Proof. unfold cur, jr. intros -> ->. reflexivity. Qed.
Lemma started_bound_ext s' s : smpc s' = smpc s -> sstarted s' = sstarted s ->
  started_bound s' = started_bound s.
Proof. unfold started_bound. intros -> ->. reflexivity. Qed.

Lemma measure_player s i s' : inv s -> step_player s i = Some s' -> measure s' < measure s.
Proof.
  intros [G P] H. unfold step_player in H.
  destruct (get_player s i) as [p|] eqn:Ep; [|discriminate].
  pose proof (P i p Ep) as Pi. unfold get_player in Ep.
  destruct (ppc_ p) eqn:Epc; break_step H; inversion H; subst s'; clear H; split_ifs.
  all: unfold measure.
  all: try (rewrite (started_bound_ext _ s) by reflexivity; rewrite (cur_ext _ s) by reflexivity;
            simpl; pm_tac Ep Epc; unfold loop_pc, crash_pc in *;
            repeat match goal with
                   | Hx : pfill ?q = _, H : context[pfill ?q] |- _ => rewrite Hx in H
                   | Hx : prem ?q = _ :: _, H : context[prem ?q] |- _ => rewrite Hx in H
                   end;
            repeat match goal with
                   | H : context[match prem ?q with _ => _ end] |- _ => destruct (prem q) eqn:?
                   | H : context[if pcrash ?q then _ else _] |- _ => destruct (pcrash q)
                   | H : context[hd 0 (ppulls ?q)] |- _ => destruct (ppulls q)
                   end; simpl in *; lia).
  (* PFinRemove *)
  rewrite (started_bound_ext _ s) by reflexivity.
  rewrite (cur_ext _ (set_threads s (remove_first i (sthreads s)))) by reflexivity.
  pose proof (cur_remove s i (started_bound s)) as Hc.
  simpl. pm_tac Ep Epc. rewrite E in Hsum. lia.
Qed.

Lemma next_cmd_players x : splayers (next_cmd x) = splayers x.
Proof. unfold next_cmd. destruct (fetch _ _). reflexivity. Qed.
Lemma next_cmd_threads x : sthreads (next_cmd x) = sthreads x.
Proof. unfold next_cmd. destruct (fetch _ _). reflexivity. Qed.

Lemma measure_fetch x s :
  sscript x = sscript s -> sstarted x = sstarted s ->
  players_measure (splayers x) = players_measure (splayers s) -> sthreads x = sthreads s ->
  cur s (started_bound s) = 1 -> started_bound s = length (sstarted s) ->
  measure (next_cmd x) < measure s.
Proof.
  intros Hsc Hst Hpl Hth Hcur Hb. unfold measure.
  rewrite next_cmd_players, next_cmd_threads, Hpl, Hth, Hcur, Hb.
  pose proof (measure_next_cmd x) as H. rewrite Hsc, Hst in H. lia.
Qed.

Ltac pm_same :=
  repeat match goal with
  | |- context[players_measure (upd ?i ?g ?l)] =>
      rewrite (pmeasure_upd_same g l i) by (intro; reflexivity)
  end.

Ltac mono_tac :=
  match goal with
  | |- context[cost ?sc ?A] =>
      match goal with
      | |- context[cost sc ?B] =>
          tryif constr_eq A B then fail
          else (assert (cost sc A <= cost sc B) by (apply cost_mono; rewrite ?app_length; simpl; lia))
      end
  end.

Lemma measure_main s s' : inv s -> step_main s = Some s' -> measure s' < measure s.
Proof.
  intros [G P] H. unfold step_main, acquire_t in H.
  destruct (smpc s) eqn:HM; break_step H; inversion H; subst s'; clear H; split_goal;
    try match goal with c : bool |- _ => destruct c end.
  all: try (apply measure_fetch; simpl; pm_same; try reflexivity;
            unfold started_bound, cur; rewrite HM; reflexivity).
  all: try (unfold measure, started_bound, cur, jr; simpl; rewrite ?HM; simpl; pm_same;
            rewrite ?pmeasure_snoc, ?app_length; unfold pm, new_budget, LOOPW, tail; simpl; lia).
  all: unfold measure, started_bound, cur, jr; simpl; rewrite ?HM; simpl; pm_same;
       rewrite ?app_length; unfold new_budget, LOOPW, tail; simpl.
  all: try solve [try mono_tac; lia].
  all: try solve [rewrite Heql; simpl; try mono_tac; lia].
  all: try solve [rewrite ?app_length; simpl; mono_tac; lia].
  - (* MPlayStart *)
    destruct (nth_error_some_of_lt (splayers s) p) as [q Hq];
      [apply (g_refs _ G); rewrite HM; simpl; tauto|].
    assert (Epc : ppc_ q = PNew) by (apply (p_new _ _ _ (P p q Hq)); rewrite HM; reflexivity).
    pose proof (pmeasure_upd p_loop (splayers s) p q Hq) as Hs.
    unfold pm in Hs. simpl in Hs. unfold loop_pc, crash_pc in Hs. rewrite Epc in Hs.
    destruct (prem q); destruct (pcrash q); destruct (ppulls q); simpl in Hs; lia.
  - (* MCloseGet -> MCloseLoopRel *) rewrite E. simpl. rewrite Nat.eqb_refl. simpl. lia.
  - (* MCloseJoin -> MCloseLoopAcq: the joined thread has left _threads *)
    pose proof (p_threads _ _ _ (P t p E)) as Hth. rewrite E0 in Hth. simpl in Hth. rewrite Hth. lia.
Qed.
