(* C17 - deadlock freedom: a reachable state without any enabled thread is a state in which the
   control script has run to its end (so every close() that was entered has returned). *)
From Coq Require Import List Bool Arith Lia.
From AL Require Import C17.Model C17.Lib C17.Inv C17.Spec C17.Proofs_InvP C17.Proofs_InvM C17.Proofs.
Import ListNotations.

(* a player holding manager.lock can always move *)
Lemma msec_player_enabled s i p : get_player s i = Some p -> pc_msec (ppc_ p) = true ->
  step_player s i <> None.
Proof.
  intros Hp Hm. unfold step_player. rewrite Hp. destruct (pfill p); [|discriminate].
  destruct (ppc_ p); simpl in Hm; try discriminate; discriminate.
Qed.

(* manager.lock is held while the main thread is outside its critical sections: its holder is a
   player inside thread_finished, which is enabled *)
Lemma mlock_holder_enabled s tid : inv s -> smlock s = Some tid -> m_msec (smpc s) = false ->
  exists i, step_player s i <> None.
Proof.
  intros I Hl Hm. destruct (mutex_of_inv s I) as [Hmx _].
  apply Hmx in Hl. destruct tid as [|i]; simpl in Hl; [congruence|].
  destruct Hl as (p & Hp & Hpm). exists i. eapply msec_player_enabled; eauto.
Qed.

(* a player inside the critical section of its own lock can move, or waits for manager.lock *)
Lemma tsec_player_enabled s i p : inv s -> get_player s i = Some p -> pc_tsec (ppc_ p) = true ->
  m_msec (smpc s) = false -> exists j, step_player s j <> None.
Proof.
  intros I Hp Ht Hm.
  destruct (ppc_ p) eqn:Epc; simpl in Ht; try discriminate;
    try (exists i; unfold step_player; rewrite Hp; destruct (pfill p); [rewrite Epc|]; discriminate).
  (* PFinAcq *)
  destruct (smlock s) as [tid|] eqn:El.
  - eapply mlock_holder_enabled; eauto.
  - exists i. unfold step_player. rewrite Hp. destruct (pfill p); [rewrite Epc, El|]; discriminate.
Qed.

(* an alive player that the main thread joins can move (or somebody else can) *)
Lemma joined_player_enabled s t p : inv s -> get_player s t = Some p ->
  m_new (smpc s) = None -> m_msec (smpc s) = false -> m_tsec (smpc s) = None ->
  ppc_ p <> PDone ->
  (ppc_ p = PWait -> pgo p = true) ->
  exists j, step_player s j <> None.
Proof.
  intros I Hp Hnew Hm Hts Hd Hgo. destruct I as [G P] eqn:EI. pose proof (P t p Hp) as Pt.
  assert (Hself : ptlock p = if pc_tsec (ppc_ p) then Some (S t) else None)
    by (apply (p_tlock_self _ _ _ Pt); congruence).
  destruct (ppc_ p) eqn:Epc; try congruence;
    try (exists t; unfold step_player; rewrite Hp; destruct (pfill p); [rewrite Epc; simpl; try destruct (pgo p)|]; discriminate);
    try (eapply (tsec_player_enabled s t p); eauto; rewrite Epc; reflexivity).
  - (* PNew *) assert (m_new (smpc s) = Some t) by (apply (p_new _ _ _ Pt); exact Epc). congruence.
  - (* PWrite *) exists t. unfold step_player. rewrite Hp. destruct (pfill p); [rewrite Epc|discriminate].
    destruct (prem p) eqn:Er; [exfalso; apply (p_write_ne _ _ _ Pt); auto|discriminate].
  - (* PWait *) exists t. unfold step_player. rewrite Hp. destruct (pfill p); [rewrite Epc, (Hgo eq_refl)|]; discriminate.
  - (* PEpiAcq *) exists t. unfold step_player. rewrite Hp. destruct (pfill p); [rewrite Epc, Hself; simpl|]; discriminate.
Qed.

Lemma get_player_of_ref s t : inv s -> In t (m_refs (smpc s)) -> exists p, get_player s t = Some p.
Proof. intros [G _] H. apply nth_error_some_of_lt. apply (g_refs _ G). exact H. Qed.

Lemma no_stuck_inv s : inv s -> stuck s -> script_done s.
Proof.
  intros I St. pose proof I as [G P].
  assert (Hpl : forall j, step_player s j = None) by (intro j; apply (St (S j))).
  assert (Hno : (exists j, step_player s j <> None) -> False)
    by (intros [j Hj]; apply Hj; apply Hpl).
  pose proof (St 0) as H0. simpl in H0. unfold script_done.
  destruct (smpc s) eqn:HM; try reflexivity; exfalso; unfold step_main, acquire_t in H0; rewrite HM in H0;
    try discriminate H0.
  - (* MPlayAcq *)
    destruct (smlock s) eqn:El; [|simpl in H0; destruct (sfinished s); discriminate H0].
    apply Hno. eapply mlock_holder_enabled; eauto. rewrite HM. reflexivity.
  - (* MPlayPrune *)
    pose proof (g_todo _ G) as Ht. rewrite HM in Ht. simpl in Ht.
    destruct todo as [|th rest]; [congruence|].
    destruct (get_player_of_ref s th I) as [q Hq]; [rewrite HM; simpl; rewrite in_app_iff; simpl; tauto|].
    rewrite Hq in H0. destruct rest; discriminate H0.
  - (* MCtlAcq *)
    destruct (get_player_of_ref s t I) as [q Hq]; [rewrite HM; simpl; tauto|].
    rewrite Hq in H0. destruct (ptlock q) as [tid|] eqn:El; [|discriminate H0].
    destruct (mutex_of_inv s I) as (_ & Hmt & _). apply (Hmt t q Hq) in El.
    destruct tid as [|j]; simpl in El; [rewrite HM in El; discriminate El|].
    destruct El as (-> & q' & Hq' & Hts). apply Hno.
    eapply (tsec_player_enabled s t q'); eauto. rewrite HM. reflexivity.
  - (* MCloseAcqH *)
    rewrite (g_hlock _ G), HM in H0. simpl in H0. destruct (sfinished s); discriminate H0.
  - (* MCloseLoopAcq *)
    destruct (smlock s) eqn:El; [|discriminate H0].
    apply Hno. eapply mlock_holder_enabled; eauto. rewrite HM. reflexivity.
  - (* MCloseGet *) destruct (sthreads s); discriminate H0.
  - (* MCloseJoin *)
    destruct (get_player_of_ref s t I) as [q Hq]; [rewrite HM; simpl; tauto|].
    rewrite Hq in H0. apply Hno.
    eapply (joined_player_enabled s t q); eauto; try (rewrite HM; reflexivity).
    + intro Hd. rewrite Hd in H0. discriminate H0.
    + intros _. apply (p_go _ _ _ (P t q Hq)). rewrite HM. reflexivity.
  - (* MCloseJoinAll *)
    pose proof (g_todo _ G) as Ht. rewrite HM in Ht. simpl in Ht.
    destruct todo as [|th rest]; [congruence|].
    destruct (get_player_of_ref s th I) as [q Hq]; [rewrite HM; simpl; tauto|].
    rewrite Hq in H0. apply Hno.
    eapply (joined_player_enabled s th q); eauto; try (rewrite HM; reflexivity).
    + intro Hd. rewrite Hd in H0. destruct rest; discriminate H0.
    + intro Hw. exfalso. pose proof (p_threads _ _ _ (P th q Hq)) as Hth.
      rewrite (g_empty _ G) in Hth by (rewrite HM; reflexivity). rewrite Hw in Hth. discriminate Hth.
Qed.

(* in every reachable state in which close has been entered and has not returned, some thread is enabled *)
Lemma close_not_stuck_inv s : inv s -> in_close s -> exists tid, step s tid <> None.
Proof.
  intros I Hc.
  assert (Hnd : smpc s <> MDone) by (destruct Hc as [Hc|Hc]; intro E; rewrite E in Hc; discriminate Hc).
  destruct (step s 0) eqn:E0; [exists 0; congruence|].
  (* the main thread is blocked: look for an enabled player among the finitely many *)
  assert (Hdec : forall n, (exists j, j < n /\ step s (S j) <> None) \/ (forall j, j < n -> step s (S j) = None)).
  { induction n as [|n IH]; [right; intros; lia|].
    destruct IH as [(j & Hj & Hs)|IH]; [left; exists j; split; [lia|exact Hs]|].
    destruct (step s (S n)) eqn:En; [left; exists n; split; [lia|congruence]|].
    right. intros j Hj. destruct (Nat.eq_dec j n) as [->|]; [exact En|apply IH; lia]. }
  destruct (Hdec (length (splayers s))) as [(j & _ & Hs)|Hall]; [exists (S j); exact Hs|].
  exfalso. apply Hnd. apply (no_stuck_inv s I). intros [|j]; [exact E0|].
  destruct (Nat.lt_ge_cases j (length (splayers s))) as [Hlt|Hge]; [apply Hall; exact Hlt|].
  simpl. unfold step_player, get_player. apply nth_error_None in Hge. rewrite Hge. reflexivity.
Qed.
