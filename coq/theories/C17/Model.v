(* C17 - executable interleaving model of AudioIO / AudioThread (audiolazy/lazy_io.py after the repairs
   47547f6, 978c428, bdb2b32, c8d7352, 6d70eb0) at synchronisation-point granularity.  NO proofs in this file.

   Threads: tid 0 is the main thread running a control script (play / pause / resume / stop / close
   issued one after the other); tid (S i) is the i-th AudioThread created by AudioIO.play.
   One transition = "perform the pending primitive operation, then run thread-local code up to the
   next primitive".  The primitives (yield points of harness/C17_sched.py) are: Lock.acquire/release
   (manager.halting, manager.lock, thread.lock), Event.set/clear/is_set/wait (thread.go), read/write
   of thread.halting, the four accesses to manager._threads ([0], append, remove, in), the backend
   calls (PyAudio.open, write_stream, stop_stream, start_stream, Stream.close, terminate, and the read
   of PyAudio._streams by the assert in close), AudioThread.start, AudioThread.join and
   AudioThread.is_alive (read by play when it prunes manager._started).
   A blocking primitive that cannot proceed is a DISABLED transition (step returns None).
   Ghost state (not in the code, used by the theorems only): the owner of each lock (Python's Lock is
   a flag), paudio (all chunks of a player), pafter (chunks written after halting was set).

   What this model cannot exhibit (trusted-base notes of the property):
   - pre-emption inside a Python bytecode / inside one primitive (each primitive is atomic; CPython's
     GIL makes the flag and list accesses atomic, the model relies on it);
   - PortAudio's own callback threads, device timing, write_stream blocking or failing;
   - AudioIO.__del__ run by the garbage collector or at interpreter exit (it is close() on another
     thread; the model has ONE control thread, so manager.finished and manager._started are only
     touched by tid 0 and their accesses are thread-local code; with several control threads the
     unlocked read of _started in close would race with play);
   - unbounded audio: every played iterable is a finite list (with wait=True "finite audio" is a
     hypothesis of the property); an iterable (or struct.pack) that raises IS modelled: CPlayBad;
     other exceptions (backend failures, exceptions inside the primitives) are not;
   - recording (RecStream, manager._recordings is empty), the `api` constructor argument;
   - commands on a player that does not exist yet are skipped (by the harness driver and by fetch).
   The manager is created by AudioIO(wait) before the first transition. *)
From Coq Require Import List Bool Arith ZArith.
Import ListNotations.

(* ---- chunks.struct / blocks(seq, size, padval=0): consecutive blocks, the last one zero padded *)
Definition chunk := list Z.

Fixpoint chunkify_aux (fuel n : nat) (xs : list Z) : list chunk :=
  match fuel with
  | O => []
  | S f => match xs with
           | [] => []
           | _ => (firstn n xs ++ repeat 0%Z (n - length (firstn n xs))) :: chunkify_aux f n (skipn n xs)
           end
  end.
Definition chunkify (n : nat) (xs : list Z) : list chunk :=
  match n with O => [] | _ => chunkify_aux (length xs) n xs end.

(* ---- control script *)
Inductive cmd :=
| CPlay (csize : nat) (samples : list Z)   (* manager.play(samples, chunk_size*channels = csize) *)
| CPlaySrc (csize : nat) (samples : list Z)
    (* the same as CPlay, but the audio is an instrumented iterator: every next() on it (also the one
       that raises StopIteration) is a yield point, so the player can be pre-empted in mid-chunk *)
| CPlayBad (csize : nat) (samples : list Z) (k : nat)
    (* the same, but the chunk generator raises when asked for chunk number k (an iterable that
       raises, or struct.pack rejecting the float padval of an integer format): k chunks are produced *)
| CPause (t : nat)                         (* t-th created player: thread.pause() *)
| CResume (t : nat)                        (* thread.play() *)
| CStop (t : nat)                          (* thread.stop() *)
| CClose.                                  (* manager.close() / __exit__ / terminate() *)

(* ---- player program counter: the primitive the thread performs next (AudioThread.run) *)
Inductive ppc :=
| PNew          (* constructed, start() not yet called *)
| PWrite        (* self.write_stream(st, chunk, ...) *)
| PTestHalt1    (* if self.halting ... *)
| PTestGo       (*    ... or not self.go.is_set(): *)
| PStopStream   (* self.stream.stop_stream() *)
| PTestHalt2    (* if self.halting: break *)
| PWait         (* self.go.wait() *)
| PTestHalt3    (* if self.halting: break    (added by 47547f6) *)
| PStartStream  (* self.stream.start_stream() *)
| PEpiAcq       (* with self.lock: *)
| PEpiTest      (*   if self in self.device_manager._threads: *)
| PEpiClose     (*     self.stream.close() *)
| PFinAcq       (*     thread_finished: with manager.lock: *)
| PFinRemove    (*       self._threads.remove(thread) *)
| PFinRel       (*     release manager.lock *)
| PEpiRelT      (* release self.lock; run() returns, the thread dies *)
| PDone.

Record player := mkP {
  ppc_ : ppc;
  paudio : list chunk;      (* ghost: all chunks of the played iterable *)
  prem : list chunk;        (* chunks not yet produced by the chunks() generator *)
  pwritten : list chunk;    (* what the device stream received, in order *)
  ptlock : option nat;      (* thread.lock: holder tid (ghost owner; Python's Lock is a flag) *)
  pgo : bool;               (* thread.go *)
  phalting : bool;          (* thread.halting *)
  popen : bool;             (* the device stream is open (member of PyAudio._streams) *)
  pafter : nat;             (* ghost: chunks written while thread.halting was already true *)
  pcrash : bool;            (* the chunk generator raises once prem is exhausted *)
  pfill : nat;              (* next() calls on an instrumented source before the pending operation *)
  ppulls : list nat         (* the same counts for the chunks (and the final StopIteration) to come *)
}.

Inductive ctl := KPause | KResume | KStop
  | KCResume (* thread.play() called by close when wait *) | KCStop (* thread.stop() called by close *).

(* ---- main thread program counter *)
Inductive mpc :=
| MPlayAcq (a : list chunk) (cr : bool) (pl : list nat)  (* play: with self.lock: *)
| MPlayRaiseRel              (*   finished: raise ThreadError -> release self.lock *)
| MPlayGoSet (p : nat)       (*   AudioThread.__init__: self.go.set() *)
| MPlayHaltInit (p : nat)    (*     self.halting = False *)
| MPlayOpen (p : nat)        (*     self.stream = pa.open(...) *)
| MPlayAppend (p : nat)      (*   self._threads.append(new_thread) *)
| MPlayPrune (p : nat) (todo kept : list nat)
                             (*   self._started = [th for th in self._started if th.is_alive()] *)
| MPlayStart (p : nat)       (*   [self._started.append(new_thread): local]  new_thread.start() *)
| MPlayRel                   (*   release self.lock *)
| MCtlAcq (k : ctl) (t : nat)   (* stop/pause/play: with self.lock: *)
| MPauseClear (t : nat)         (*   self.go.clear() *)
| MResumeSet (c : bool) (t : nat)(*   self.go.set()            (c: called from close) *)
| MStopHalt (c : bool) (t : nat)(*   self.halting = True *)
| MStopSet (c : bool) (t : nat) (*   self.go.set() *)
| MCtlRel (c : bool) (t : nat)  (*   release thread.lock *)
| MCloseAcqH                 (* close: with self.halting:  [then finished test / set: local] *)
| MCloseRelH2                (*   already finished: release self.halting *)
| MCloseLoopAcq              (*   while True: with self.lock: *)
| MCloseGet                  (*     thread = self._threads[0] / IndexError: break *)
| MCloseBreakRel             (*     break: release self.lock *)
| MCloseLoopRel (t : nat)    (*     release self.lock;  if self.wait: thread.play() else: thread.stop() *)
| MCloseJoin (t : nat)       (*   thread.join() *)
| MCloseJoinAll (todo : list nat) (* for thread in self._started: thread.join() *)
| MCloseAssert               (*   assert not self._pa._streams *)
| MCloseTerm                 (*   self._pa.terminate() *)
| MCloseRelH                 (*   release self.halting (close returns) *)
| MCloseRelHFail             (*   release self.halting (AssertionError propagates) *)
| MDone.

Inductive event :=
| EOpen (p : nat) | EWrite (p : nat) (c : chunk) | EStopS (p : nat) | EStartS (p : nat)
| ECloseS (p : nat) | ETerminate | EPlayRaise | EAssertFail
| EHalt (p : nat)                            (* thread.halting = True (stop) *)
| ECloseRet (flags : list (bool * bool)).   (* per player (alive, halting) when close returns *)

Record state := mkS {
  swait : bool;             (* constructor argument *)
  sfinished : bool;         (* manager.finished *)
  shlock : option nat;      (* manager.halting (a Lock) : holder *)
  smlock : option nat;      (* manager.lock : holder *)
  sthreads : list nat;      (* manager._threads, as player indices *)
  sstarted : list nat;      (* manager._started *)
  sterminated : nat;        (* number of PyAudio.terminate() calls *)
  splayers : list player;
  smpc : mpc;
  sscript : list cmd;       (* commands after the current one *)
  strace : list event       (* newest first *)
}.

(* ---- field updates *)
Definition set_finished s v := mkS (swait s) v (shlock s) (smlock s) (sthreads s) (sstarted s) (sterminated s) (splayers s) (smpc s) (sscript s) (strace s).
Definition set_hlock s v := mkS (swait s) (sfinished s) v (smlock s) (sthreads s) (sstarted s) (sterminated s) (splayers s) (smpc s) (sscript s) (strace s).
Definition set_mlock s v := mkS (swait s) (sfinished s) (shlock s) v (sthreads s) (sstarted s) (sterminated s) (splayers s) (smpc s) (sscript s) (strace s).
Definition set_threads s v := mkS (swait s) (sfinished s) (shlock s) (smlock s) v (sstarted s) (sterminated s) (splayers s) (smpc s) (sscript s) (strace s).
Definition set_started s v := mkS (swait s) (sfinished s) (shlock s) (smlock s) (sthreads s) v (sterminated s) (splayers s) (smpc s) (sscript s) (strace s).
Definition set_terminated s v := mkS (swait s) (sfinished s) (shlock s) (smlock s) (sthreads s) (sstarted s) v (splayers s) (smpc s) (sscript s) (strace s).
Definition set_players s v := mkS (swait s) (sfinished s) (shlock s) (smlock s) (sthreads s) (sstarted s) (sterminated s) v (smpc s) (sscript s) (strace s).
Definition set_mpc s v := mkS (swait s) (sfinished s) (shlock s) (smlock s) (sthreads s) (sstarted s) (sterminated s) (splayers s) v (sscript s) (strace s).
Definition set_script s v := mkS (swait s) (sfinished s) (shlock s) (smlock s) (sthreads s) (sstarted s) (sterminated s) (splayers s) (smpc s) v (strace s).
Definition emit s e := mkS (swait s) (sfinished s) (shlock s) (smlock s) (sthreads s) (sstarted s) (sterminated s) (splayers s) (smpc s) (sscript s) (e :: strace s).

Definition p_set_pc p v := mkP v (paudio p) (prem p) (pwritten p) (ptlock p) (pgo p) (phalting p) (popen p) (pafter p) (pcrash p) (pfill p) (ppulls p).
Definition p_set_tlock p v := mkP (ppc_ p) (paudio p) (prem p) (pwritten p) v (pgo p) (phalting p) (popen p) (pafter p) (pcrash p) (pfill p) (ppulls p).
Definition p_set_go p v := mkP (ppc_ p) (paudio p) (prem p) (pwritten p) (ptlock p) v (phalting p) (popen p) (pafter p) (pcrash p) (pfill p) (ppulls p).
Definition p_set_halting p v := mkP (ppc_ p) (paudio p) (prem p) (pwritten p) (ptlock p) (pgo p) v (popen p) (pafter p) (pcrash p) (pfill p) (ppulls p).
Definition p_set_open p v := mkP (ppc_ p) (paudio p) (prem p) (pwritten p) (ptlock p) (pgo p) (phalting p) v (pafter p) (pcrash p) (pfill p) (ppulls p).
Definition p_write p c r := mkP (ppc_ p) (paudio p) r (pwritten p ++ [c]) (ptlock p) (pgo p) (phalting p) (popen p)
  (if phalting p then S (pafter p) else pafter p) (pcrash p) (pfill p) (ppulls p).

Definition p_set_fill p v := mkP (ppc_ p) (paudio p) (prem p) (pwritten p) (ptlock p) (pgo p) (phalting p) (popen p)
  (pafter p) (pcrash p) v (ppulls p).

Fixpoint upd {A} (i : nat) (f : A -> A) (l : list A) : list A :=
  match l, i with
  | [], _ => []
  | x :: r, O => f x :: r
  | x :: r, S j => x :: upd j f r
  end.
Definition upd_player s i f := set_players s (upd i f (splayers s)).
Definition get_player s i := nth_error (splayers s) i.

Fixpoint remove_first (x : nat) (l : list nat) : list nat :=
  match l with
  | [] => []
  | y :: r => if Nat.eqb x y then r else y :: remove_first x r
  end.
Fixpoint mem (x : nat) (l : list nat) : bool :=
  match l with [] => false | y :: r => Nat.eqb x y || mem x r end.

(* a freshly constructed AudioThread: Lock() free, Event() clear, nothing written, no stream yet *)
Definition new_player (a : list chunk) (cr : bool) (pl : list nat) : player :=
  mkP PNew a a [] None false false false 0 cr 0 pl.

Definition p_alive (p : player) : bool :=
  match ppc_ p with PNew | PDone => false | _ => true end.

(* where a player goes when the chunk generator raises: the finally clause of run() (c8d7352), i.e.
   the same epilogue as after the last chunk; the exception then propagates and the thread dies *)
Definition crash_pc : ppc := PEpiAcq.
(* where the for loop over chunks() goes next: another chunk, the epilogue, or the exception *)
Definition loop_pc (p : player) : ppc :=
  match prem p with
  | [] => if pcrash p then crash_pc else PEpiAcq
  | _ => PWrite
  end.

(* entering the chunk loop (again): the pc, and the source accesses that come before its operation *)
Definition p_loop (p : player) : player :=
  mkP (loop_pc p) (paudio p) (prem p) (pwritten p) (ptlock p) (pgo p) (phalting p) (popen p)
      (pafter p) (pcrash p) (hd 0 (ppulls p)) (tl (ppulls p)).

(* next() calls per chunk of an instrumented source of len samples: n for a full chunk, r + 1 for the
   ragged last one (the StopIteration is seen while filling it), and one more call (StopIteration)
   after the last chunk when the length is a multiple of n *)
Definition pull_counts (n len : nat) : list nat :=
  match n with
  | O => []
  | _ => repeat n (len / n) ++ [match len mod n with O => 1 | r => S r end]
  end.

(* ---- the main thread picks its next command; commands on players that do not exist are skipped
   by the harness driver and here alike *)
Fixpoint fetch (np : nat) (sc : list cmd) : mpc * list cmd :=
  match sc with
  | [] => (MDone, [])
  | CPlay n xs :: r => (MPlayAcq (chunkify n xs) false [], r)
  | CPlaySrc n xs :: r => (MPlayAcq (chunkify n xs) false (pull_counts n (length xs)), r)
  | CPlayBad n xs k :: r => (MPlayAcq (firstn k (chunkify n xs)) true [], r)
  | CPause t :: r => if t <? np then (MCtlAcq KPause t, r) else fetch np r
  | CResume t :: r => if t <? np then (MCtlAcq KResume t, r) else fetch np r
  | CStop t :: r => if t <? np then (MCtlAcq KStop t, r) else fetch np r
  | CClose :: r => (MCloseAcqH, r)
  end.
Definition next_cmd (s : state) : state :=
  let '(pc, r) := fetch (length (splayers s)) (sscript s) in set_script (set_mpc s pc) r.

Definition close_flags (s : state) : list (bool * bool) :=
  map (fun p => (p_alive p, phalting p)) (splayers s).

Definition init (wait : bool) (script : list cmd) : state :=
  next_cmd (mkS wait false None None [] [] 0 [] MDone script []).

(* ---- transitions of the main thread (tid 0) *)
Definition acquire_t (s : state) (t : nat) (k : state -> state) : option state :=
  match get_player s t with
  | Some p => match ptlock p with
              | None => Some (k (upd_player s t (fun p => p_set_tlock p (Some 0))))
              | Some _ => None
              end
  | None => None
  end.

Definition step_main (s : state) : option state :=
  match smpc s with
  | MPlayAcq a cr pl =>
      match smlock s with
      | Some _ => None
      | None =>
          let s1 := set_mlock s (Some 0) in
          if sfinished s1 then Some (set_mpc s1 MPlayRaiseRel)
          else let p := length (splayers s1) in
               Some (set_mpc (set_players s1 (splayers s1 ++ [new_player a cr pl])) (MPlayGoSet p))
      end
  | MPlayRaiseRel => Some (next_cmd (emit (set_mlock s None) EPlayRaise))
  | MPlayGoSet p => Some (set_mpc (upd_player s p (fun q => p_set_go q true)) (MPlayHaltInit p))
  | MPlayHaltInit p => Some (set_mpc (upd_player s p (fun q => p_set_halting q false)) (MPlayOpen p))
  | MPlayOpen p => Some (set_mpc (emit (upd_player s p (fun q => p_set_open q true)) (EOpen p)) (MPlayAppend p))
  | MPlayAppend p =>
      let s1 := set_threads s (sthreads s ++ [p]) in
      Some (match sstarted s1 with
            | [] => set_mpc (set_started s1 [p]) (MPlayStart p)
            | _ => set_mpc s1 (MPlayPrune p (sstarted s1) [])
            end)
  | MPlayPrune p todo kept =>
      match todo with
      | [] => None    (* never constructed *)
      | th :: rest =>
          match get_player s th with
          | None => None
          | Some q =>
              let kept' := if p_alive q then kept ++ [th] else kept in
              Some (match rest with
                    | [] => set_mpc (set_started s (kept' ++ [p])) (MPlayStart p)
                    | _ => set_mpc s (MPlayPrune p rest kept')
                    end)
          end
      end
  | MPlayStart p => Some (set_mpc (upd_player s p p_loop) MPlayRel)
  | MPlayRel => Some (next_cmd (set_mlock s None))
  | MCtlAcq k t =>
      acquire_t s t (fun s1 => set_mpc s1 match k with
                                          | KPause => MPauseClear t
                                          | KResume => MResumeSet false t
                                          | KStop => MStopHalt false t
                                          | KCResume => MResumeSet true t
                                          | KCStop => MStopHalt true t
                                          end)
  | MPauseClear t => Some (set_mpc (upd_player s t (fun q => p_set_go q false)) (MCtlRel false t))
  | MResumeSet c t => Some (set_mpc (upd_player s t (fun q => p_set_go q true)) (MCtlRel c t))
  | MStopHalt c t => Some (set_mpc (emit (upd_player s t (fun q => p_set_halting q true)) (EHalt t)) (MStopSet c t))
  | MStopSet c t => Some (set_mpc (upd_player s t (fun q => p_set_go q true)) (MCtlRel c t))
  | MCtlRel c t =>
      let s1 := upd_player s t (fun q => p_set_tlock q None) in
      Some (if c then set_mpc s1 (MCloseJoin t) else next_cmd s1)
  | MCloseAcqH =>
      match shlock s with
      | Some _ => None
      | None =>
          let s1 := set_hlock s (Some 0) in
          if sfinished s1 then Some (set_mpc s1 MCloseRelH2)
          else Some (set_mpc (set_finished s1 true) MCloseLoopAcq)
      end
  | MCloseRelH2 => Some (next_cmd (emit (set_hlock s None) (ECloseRet (close_flags s))))
  | MCloseLoopAcq =>
      match smlock s with
      | Some _ => None
      | None => Some (set_mpc (set_mlock s (Some 0)) MCloseGet)
      end
  | MCloseGet =>
      match sthreads s with
      | [] => Some (set_mpc s MCloseBreakRel)
      | t :: _ => Some (set_mpc s (MCloseLoopRel t))
      end
  | MCloseBreakRel =>
      Some (set_mpc (set_mlock s None) match sstarted s with [] => MCloseAssert | l => MCloseJoinAll l end)
  | MCloseLoopRel t =>
      Some (set_mpc (set_mlock s None) (MCtlAcq (if swait s then KCResume else KCStop) t))
  | MCloseJoin t =>
      match get_player s t with
      | Some p => match ppc_ p with PDone => Some (set_mpc s MCloseLoopAcq) | _ => None end
      | None => None
      end
  | MCloseJoinAll todo =>
      match todo with
      | [] => None    (* never constructed *)
      | th :: rest =>
          match get_player s th with
          | Some p => match ppc_ p with
                      | PDone => Some (set_mpc s match rest with [] => MCloseAssert | _ => MCloseJoinAll rest end)
                      | _ => None
                      end
          | None => None
          end
      end
  | MCloseAssert =>
      Some (set_mpc s (if existsb popen (splayers s) then MCloseRelHFail else MCloseTerm))
  | MCloseTerm => Some (set_mpc (emit (set_terminated s (S (sterminated s))) ETerminate) MCloseRelH)
  | MCloseRelH => Some (next_cmd (emit (set_hlock s None) (ECloseRet (close_flags s))))
  | MCloseRelHFail => Some (next_cmd (emit (set_hlock s None) EAssertFail))
  | MDone => None
  end.

(* ---- transitions of player i (tid S i) *)
Definition step_player (s : state) (i : nat) : option state :=
  match get_player s i with
  | None => None
  | Some p =>
      let me := S i in
      let go pc := Some (upd_player s i (fun q => p_set_pc q pc)) in
      match pfill p with
      | S k => Some (upd_player s i (fun q => p_set_fill q k))    (* next() on the audio source *)
      | O =>
      match ppc_ p with
      | PNew | PDone => None
      | PWrite =>
          match prem p with
          | [] => None
          | c :: r => Some (emit (upd_player s i (fun q => p_set_pc (p_write q c r) PTestHalt1)) (EWrite i c))
          end
      | PTestHalt1 => go (if phalting p then PStopStream else PTestGo)
      | PTestGo => if pgo p then Some (upd_player s i p_loop) else go PStopStream
      | PStopStream => Some (emit (upd_player s i (fun q => p_set_pc q PTestHalt2)) (EStopS i))
      | PTestHalt2 => go (if phalting p then PEpiAcq else PWait)
      | PWait => if pgo p then go PTestHalt3 else None
      | PTestHalt3 => go (if phalting p then PEpiAcq else PStartStream)
      | PStartStream => Some (emit (upd_player s i p_loop) (EStartS i))
      | PEpiAcq =>
          match ptlock p with
          | Some _ => None
          | None => Some (upd_player s i (fun q => p_set_pc (p_set_tlock q (Some me)) PEpiTest))
          end
      | PEpiTest => go (if mem i (sthreads s) then PEpiClose else PEpiRelT)
      | PEpiClose => Some (emit (upd_player s i (fun q => p_set_pc (p_set_open q false) PFinAcq)) (ECloseS i))
      | PFinAcq =>
          match smlock s with
          | Some _ => None
          | None => Some (upd_player (set_mlock s (Some me)) i (fun q => p_set_pc q PFinRemove))
          end
      | PFinRemove =>
          (* list.remove raises ValueError when absent; unreachable (Proofs: remove_never_raises) *)
          Some (upd_player (set_threads s (remove_first i (sthreads s))) i (fun q => p_set_pc q PFinRel))
      | PFinRel => Some (upd_player (set_mlock s None) i (fun q => p_set_pc q PEpiRelT))
      | PEpiRelT => Some (upd_player s i (fun q => p_set_pc (p_set_tlock q None) PDone))
      end
      end
  end.

Definition step (s : state) (tid : nat) : option state :=
  match tid with O => step_main s | S i => step_player s i end.

(* replay of a schedule; a thread that is not enabled leaves the state unchanged *)
Fixpoint exec (s : state) (sched : list nat) : state :=
  match sched with
  | [] => s
  | t :: r => match step s t with Some s' => exec s' r | None => exec s r end
  end.

Definition tids (s : state) : list nat := seq 0 (S (length (splayers s))).
Definition enabled_b (s : state) (t : nat) : bool := match step s t with Some _ => true | None => false end.
Definition enabled (s : state) : list nat := filter (enabled_b s) (tids s).
