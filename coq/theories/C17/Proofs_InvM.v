(* C17 - the invariant is preserved by every transition of the main thread. *)
From Coq Require Import List Bool Arith Lia.
From AL Require Import C17.Model C17.Lib C17.Inv C17.Proofs_InvP.
Import ListNotations.

Inductive idle (np : nat) : mpc -> Prop :=
| idle_done : idle np MDone
| idle_play a cr pl : idle np (MPlayAcq a cr pl)
| idle_close : idle np MCloseAcqH
| idle_pause t : t < np -> idle np (MCtlAcq KPause t)
| idle_resume t : t < np -> idle np (MCtlAcq KResume t)
| idle_stop t : t < np -> idle np (MCtlAcq KStop t).

Lemma fetch_idle np sc : idle np (fst (fetch np sc)).
Proof.
  induction sc as [|c r IH]; simpl; [constructor|].
  destruct c; simpl; try constructor;
    destruct (Nat.ltb_spec t np); simpl; auto; constructor; assumption.
Qed.

Lemma next_cmd_inv s : inv s -> smpc s = MDone -> inv (next_cmd s).
Proof.
  intros [G P] HM. unfold next_cmd.
  pose proof (fetch_idle (length (splayers s)) (sscript s)) as Hi.
  destruct (fetch (length (splayers s)) (sscript s)) as [M r]. simpl in Hi.
  split.
  - destruct G. rewrite HM in *.
    destruct Hi; constructor; simpl in *; auto; try (intuition congruence).
    all: try (intros ? [<-|[]]; assumption).
  - intros j q Hq. simpl in Hq. pose proof (P j q Hq) as Pj. destruct Pj.
    destruct G.
    destruct Hi; constructor; try (erewrite alive_home_eq by reflexivity); unfold alive_home in *; simpl in *; rewrite ?HM in *; simpl in *; auto; try (intuition congruence).
Qed.

Lemma next_cmd_mdone x : next_cmd x = next_cmd (set_mpc x MDone).
Proof. reflexivity. Qed.

Ltac inj_somes :=
  repeat match goal with
  | H : Some _ = Some _ |- _ => inversion H; subst; clear H
  | H : Some _ = None |- _ => discriminate H
  | H : None = Some _ |- _ => discriminate H
  end.

Ltac fin :=
  try assumption; try reflexivity; try (intuition congruence);
  try (intuition (inj_somes; subst; simpl in *; try congruence; try lia)).

Ltac split_goal :=
  repeat match goal with
  | |- context[match sstarted ?s with _ => _ end] => destruct (sstarted s) eqn:?
  | |- context[match ?l with [] => _ | _ :: _ => _ end] => is_var l; destruct l
  | |- context[match ?k with KPause => _ | _ => _ end] => is_var k; destruct k
  | |- context[if ?c then _ else _] => is_var c; destruct c
  | |- context[MCtlRel ?c _] => is_var c; destruct c
  | |- context[if swait ?s then _ else _] => destruct (swait s) eqn:?
  | |- context[if p_alive ?p then _ else _] => destruct (p_alive p) eqn:?
  | |- context[if existsb popen ?l then _ else _] => destruct (existsb popen l) eqn:?
  end.

Ltac rew_fields :=
  repeat match goal with
  | H : sfinished _ = _ |- _ => progress (simpl in H)
  | H : sfinished ?s = _ |- _ => progress (rewrite H in * )
  | H : smlock ?s = _ |- _ => progress (rewrite H in * )
  | H : shlock ?s = _ |- _ => progress (rewrite H in * )
  | H : sstarted ?s = _ |- _ => progress (rewrite H in * )
  | H : sthreads ?s = _ |- _ => progress (rewrite H in * )
  end.

Ltac pinv_tac P HM :=
  let j := fresh "j" in let q := fresh "q" in let Hq := fresh "Hq" in
  intros j q Hq; simpl in Hq;
  first [ apply nth_error_upd_inv in Hq as [(-> & ?p0 & ?Hp0 & ->)|(?Hne & Hq)]
        | apply nth_error_snoc_inv in Hq as [(?Hlt & Hq)|(-> & ->)]
        | idtac ];
  unfold get_player in *;
  try match goal with
      | H1 : nth_error (splayers ?s) ?t = Some ?a, H2 : nth_error (splayers ?s) ?t = Some ?b |- _ =>
          rewrite H1 in H2; inversion H2; subst; clear H2
      end;
  try match goal with
      | H : nth_error (splayers _) ?j = Some ?q |- pinv _ ?j _ =>
          let Pj := fresh "Pj" in pose proof (P j q H) as Pj; pose proof (nth_error_lt _ _ _ H); destruct Pj
      end.


Ltac same_player :=
  repeat match goal with
  | H1 : nth_error ?l ?n = Some ?a, H2 : nth_error ?l ?n = Some ?b |- _ =>
      rewrite H1 in H2; inversion H2; subst; clear H2
  end.

Ltac norm_in :=
  repeat match goal with
  | H : In _ (_ ++ _) |- _ => apply in_app_or in H
  | H : In _ (_ :: _) |- _ => simpl in H
  | H : In _ [] |- _ => destruct H
  | H : False |- _ => destruct H
  | H : _ \/ _ |- _ => destruct H
  end; subst.

Ltac in_side := simpl; rewrite ?in_app_iff; simpl; rewrite ?in_app_iff; simpl; tauto.
Ltac lt_tac :=
  match goal with
  | |- ?t < _ =>
      norm_in;
      first [ lia
            | match goal with H : forall t, _ -> t < _ |- _ => apply H; in_side end
            | apply Nat.lt_lt_add_r; match goal with H : forall t, _ -> t < _ |- _ => apply H; in_side end
            | match goal with H : nth_error _ ?t = Some _ |- ?t < _ => apply nth_error_lt in H; (assumption || lia) end ]
  end.

Ltac in_tac :=
  match goal with
  | |- In _ _ => rewrite ?in_app_iff in *; simpl in *; rewrite ?in_app_iff in *; simpl in *; intuition (subst; same_player; try congruence)
  | |- _ \/ _ => rewrite ?in_app_iff in *; simpl in *; rewrite ?in_app_iff in *; simpl in *; intuition (subst; same_player; try congruence)
  end.

Ltac pc_tac :=
  match goal with
  | |- context[match ppc_ ?q with _ => _ end] => destruct (ppc_ q) eqn:?; simpl in *; fin
  | |- pc_tsec ?x = false => destruct (pc_tsec x) eqn:?; simpl in *; fin
  | |- context[if pc_tsec ?x then _ else _] => destruct (pc_tsec x) eqn:?; simpl in *; fin
  end.

Ltac close1 := intros; first [ solve [fin] | solve [lt_tac] | solve [pc_tac] | solve [in_tac] | idtac ].
Ltac split_loop :=
  try match goal with |- context[p_loop ?p] => unfold p_loop in * end;
  try match goal with |- context[loop_pc ?p] => unfold loop_pc in *; destruct (prem p) eqn:? end;
  try match goal with
      | |- context[if pcrash ?p then _ else _] => unfold crash_pc in *; destruct (pcrash p)
      end.

(* facts that follow from the invariant of one player when the main pc is known *)
Ltac derive_new HM :=
  try match goal with
  | p_new : ppc_ ?q = PNew <-> m_new _ = Some ?j |- _ =>
      let E := fresh "Enew" in
      assert (E : ppc_ q = PNew) by (apply p_new; rewrite ?HM; reflexivity);
      rewrite E in *; simpl in *
  end.
Ltac derive_fin HM :=
  try match goal with
  | g_fin_new : sfinished ?s = true -> m_new _ = None |- _ =>
      let E := fresh "Efin" in
      assert (E : sfinished s = false)
        by (destruct (sfinished s) eqn:Ef; [specialize (g_fin_new eq_refl); rewrite ?HM in g_fin_new; discriminate g_fin_new|reflexivity]);
      rewrite E in *; simpl in *
  end.

Ltac rew_known :=
  repeat match goal with
  | E : ppc_ ?q = PNew |- _ => progress (rewrite E in * )
  | E : sfinished ?s = false |- _ => progress (rewrite E in * )
  end; simpl in *.

Lemma assert_no_open s : inv s -> smpc s = MCloseAssert -> existsb popen (splayers s) = false.
Proof.
  intros [G P] HM. destruct (existsb popen (splayers s)) eqn:E; [|reflexivity].
  apply existsb_exists in E as (q & Hin & Hopen). apply In_nth_error in Hin as [j Hj].
  destruct (P j q Hj). unfold alive_home, p_alive in *. rewrite HM in *. simpl in *.
  destruct (ppc_ q); simpl in *; try congruence; try (exfalso; apply p_home; reflexivity).
Qed.

Ltac nodup_tac s P HM :=
  match goal with
  | |- NoDup (_ ++ [?p]) =>
     apply NoDup_snoc; [assumption|];
     let pp := fresh "pp" in let Hpp := fresh "Hpp" in
     destruct (nth_error_some_of_lt (splayers s) p) as [pp Hpp]; [lt_tac|];
     let Pp := fresh "Pp" in pose proof (P p pp Hpp) as Pp;
     let E := fresh "E" in assert (E : ppc_ pp = PNew) by (apply (p_new _ _ _ Pp); rewrite HM; reflexivity);
     let Ht := fresh "Ht" in pose proof (p_threads _ _ _ Pp) as Ht; rewrite E, HM in Ht; simpl in Ht;
     apply mem_false_In; exact Ht
  end.

Ltac mem_tac :=
  match goal with
  | |- mem ?j (_ ++ [?p]) = _ =>
      let Hjp := fresh "Hjp" in
      destruct (Nat.eq_dec j p) as [->|Hjp];
      [rewrite mem_snoc_same | rewrite mem_snoc_other by assumption]; pc_tac
  end.

Ltac misc_tac :=
  match goal with
  | |- _ /\ Some 0 = Some 0 => split; [pc_tac|reflexivity]
  | g_start : forall p1, _ = MPlayStart p1 -> In p1 _ |- In _ _ => apply g_start; reflexivity
  end.

Lemma main_inv s s' : inv s -> step_main s = Some s' -> inv s'.
Proof.
  intros [G P] H. unfold step_main, acquire_t in H.
  destruct (smpc s) eqn:HM; break_step H; inversion H; subst s'; clear H;
    split_goal;
    try match goal with Hx : existsb popen (splayers s) = true |- _ =>
          rewrite (assert_no_open s (conj G P) HM) in Hx; discriminate Hx end;
    try (rewrite next_cmd_mdone; apply next_cmd_inv; [|reflexivity]).
  all: rew_fields.
  all: split.
  all: try (match goal with |- ginv _ => idtac end; destruct G; constructor; simpl in *; rewrite ?HM in *; rewrite ?upd_length, ?app_length; simpl in *; auto; fin; fail).
  all: try (match goal with |- forall _ _, _ -> pinv _ _ _ => idtac end; pinv_tac P HM; destruct G; constructor; unfold alive_home, p_alive in *; simpl in *; rewrite ?HM in *; simpl in *; fin; fail).
  all: try (match goal with |- ginv _ => idtac end; destruct G; constructor; simpl in *; rewrite ?HM in *; rewrite ?upd_length, ?app_length; simpl in *; rew_fields; auto; close1; try (nodup_tac s P HM)).
  all: try (match goal with |- forall _ _, _ -> pinv _ _ _ => idtac end; pinv_tac P HM; destruct G; derive_fin HM; derive_new HM; split_loop;
            constructor; unfold alive_home, p_alive in *; simpl in *; rewrite ?HM in *; simpl in *;
            rewrite ?andb_false_r, ?andb_true_r in *; rew_known; rew_fields; close1;
            first [solve [mem_tac] | solve [misc_tac] | idtac]).
  - apply mem_false_In. intro Hin. apply g_threads_lt in Hin. lia.
  - pose proof (p_home H0) as Hin. norm_in. same_player. rewrite E1 in H0. discriminate H0.
  - pose proof (p_home H0) as Hin. norm_in; first [ solve [in_side] | same_player; rewrite E1 in H0; discriminate H0 ].
Qed.
