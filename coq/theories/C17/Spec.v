(* C17 - what the property text promises, stated on OBSERVATIONS (the device-side event trace and the
   flags visible when close returns), independently of the model's program counters.
   Definitions only. *)
From Coq Require Import List Bool Arith ZArith.
From AL Require Import C17.Model C17.Inv.
Import ListNotations.

(* ---- "consecutive chunks of exactly n samples whose concatenation is the iterable followed by
   zero padding to a chunk boundary" *)
Definition pad_len (n len : nat) : nat := (n - len mod n) mod n.
Definition chunks_spec (n : nat) (xs : list Z) (cs : list chunk) : Prop :=
  Forall (fun c => length c = n) cs /\ concat cs = xs ++ repeat 0%Z (pad_len n (length xs)).

(* ---- which play calls succeed: exactly those issued before the first close *)
Fixpoint expected_audio (sc : list cmd) : list (list chunk) :=
  match sc with
  | [] => []
  | CPlay n xs :: r | CPlaySrc n xs :: r => chunkify n xs :: expected_audio r
  | CPlayBad n xs k :: r => firstn k (chunkify n xs) :: expected_audio r   (* the iterable raises: k chunks *)
  | CClose :: _ => []
  | _ :: r => expected_audio r
  end.
Fixpoint plays (sc : list cmd) : nat :=
  match sc with [] => 0 | CPlay _ _ :: r | CPlaySrc _ _ :: r | CPlayBad _ _ _ :: r => S (plays r) | _ :: r => plays r end.
Fixpoint expected_raises (sc : list cmd) : nat :=
  match sc with
  | [] => 0
  | CClose :: r => plays r
  | _ :: r => expected_raises r
  end.
Fixpoint has_close (sc : list cmd) : bool :=
  match sc with [] => false | CClose :: _ => true | _ :: r => has_close r end.

(* ---- boolean helpers on traces (chronological order) *)
Fixpoint zlist_eqb (a b : list Z) : bool :=
  match a, b with
  | [], [] => true
  | x :: a', y :: b' => Z.eqb x y && zlist_eqb a' b'
  | _, _ => false
  end.
Fixpoint chunks_eqb (a b : list chunk) : bool :=
  match a, b with
  | [], [] => true
  | x :: a', y :: b' => zlist_eqb x y && chunks_eqb a' b'
  | _, _ => false
  end.
Fixpoint prefix_b (a b : list chunk) : bool :=
  match a, b with
  | [], _ => true
  | x :: a', y :: b' => zlist_eqb x y && prefix_b a' b'
  | _, _ => false
  end.
Fixpoint writes_of (i : nat) (evs : list event) : list chunk :=
  match evs with
  | [] => []
  | EWrite p c :: r => if Nat.eqb p i then c :: writes_of i r else writes_of i r
  | _ :: r => writes_of i r
  end.
Definition is_open_of i e := match e with EOpen p => Nat.eqb p i | _ => false end.
Definition is_close_of i e := match e with ECloseS p => Nat.eqb p i | _ => false end.
Definition is_terminate e := match e with ETerminate => true | _ => false end.
Definition is_assert_fail e := match e with EAssertFail => true | _ => false end.
Definition is_play_raise e := match e with EPlayRaise => true | _ => false end.
Definition is_close_ret e := match e with ECloseRet _ => true | _ => false end.
Definition count_ev (f : event -> bool) (evs : list event) : nat := length (filter f evs).

(* events before the first "close returned", its flags, and the events after it *)
Fixpoint split_close (evs : list event) : option (list event * list (bool * bool) * list event) :=
  match evs with
  | [] => None
  | ECloseRet fl :: r => Some ([], fl, r)
  | e :: r => match split_close r with
              | Some (b, fl, a) => Some (e :: b, fl, a)
              | None => None
              end
  end.

Definition device_silent e := match e with EPlayRaise | ECloseRet _ | EHalt _ => true | _ => false end.

(* thread.stop() was called on player i by the script before the first close *)
Fixpoint stopped_by_script (sc : list cmd) (i : nat) : bool :=
  match sc with
  | [] => false
  | CClose :: _ => false
  | CStop t :: r => Nat.eqb t i || stopped_by_script r i
  | _ :: r => stopped_by_script r i
  end.

(* the state of the device when the first close returns, and afterwards:
   every stream that was opened has been closed, terminate was called exactly once, every player
   that was not told to halt has delivered all its chunks - with wait = true that is every player
   the script did not stop itself ("after waiting for all audio") - and the device is never touched
   again *)
Definition close_ok (wait : bool) (sc : list cmd) (expected : list (list chunk)) (evs : list event) : bool :=
  match split_close evs with
  | None => true
  | Some (before, flags, after) =>
      forallb (fun i => Nat.eqb (count_ev (is_open_of i) before) (count_ev (is_close_of i) before))
              (seq 0 (length expected))
      && Nat.eqb (count_ev is_terminate before) 1
      && forallb device_silent after
      && forallb (fun i => match nth_error flags i, nth_error expected i with
                           | Some (_, h), Some a =>
                               if negb h || (wait && negb (stopped_by_script sc i))
                               then chunks_eqb (writes_of i before) a else true
                           | _, _ => false
                           end) (seq 0 (length expected))
  end.

(* "promptly": once thread.halting has been set, at most one more chunk reaches the device *)
Fixpoint after_halt (i : nat) (evs : list event) : list event :=
  match evs with
  | [] => []
  | EHalt p :: r => if Nat.eqb p i then r else after_halt i r
  | _ :: r => after_halt i r
  end.
Definition halt_prompt (np : nat) (evs : list event) : bool :=
  forallb (fun i => length (writes_of i (after_halt i evs)) <=? 1) (seq 0 np).

(* "no player thread is alive" whenever a close returns *)
Definition nobody_alive (evs : list event) : bool :=
  forallb (fun e => match e with ECloseRet fl => forallb (fun x => negb (fst x)) fl | _ => true end) evs.

(* ================= the property on the states of the model =================
   (pc classes m_msec / pc_msec / ... are the critical sections defined in Inv.v) *)

(* thread tid is inside a critical section of manager.lock / of player i's lock / of manager.halting *)
Definition in_mlock (s : state) (tid : nat) : Prop :=
  match tid with
  | O => m_msec (smpc s) = true
  | S i => exists p, get_player s i = Some p /\ pc_msec (ppc_ p) = true
  end.
Definition in_tlock (s : state) (i tid : nat) : Prop :=
  match tid with
  | O => m_tsec (smpc s) = Some i
  | S j => j = i /\ exists p, get_player s i = Some p /\ pc_tsec (ppc_ p) = true
  end.
Definition in_hlock (s : state) (tid : nat) : Prop := tid = 0 /\ m_hsec (smpc s) = true.

Definition mutex_at (s : state) : Prop :=
  (forall tid, in_mlock s tid <-> smlock s = Some tid)
  /\ (forall i p, get_player s i = Some p -> forall tid, in_tlock s i tid <-> ptlock p = Some tid)
  /\ (forall tid, in_hlock s tid <-> shlock s = Some tid).

(* a close() call has been entered and has not returned / some close() has returned *)
Definition in_close (s : state) : Prop := m_hsec (smpc s) = true \/ smpc s = MCloseAcqH.
Definition close_returned (s : state) : Prop := sfinished s = true /\ m_hsec (smpc s) = false.

(* everything the text promises once close has returned *)
Definition after_close_at (s : state) : Prop :=
  (forall i p, get_player s i = Some p -> popen p = false /\ ppc_ p = PDone)   (* streams closed, nobody alive *)
  /\ sterminated s = 1
  /\ sthreads s = []
  /\ (forall a cr pl, smpc s = MPlayAcq a cr pl ->                                         (* a later play raises *)
       forall s', step s 0 = Some s' -> smpc s' = MPlayRaiseRel /\ splayers s' = splayers s).

Definition stuck (s : state) : Prop := forall tid, step s tid = None.
Definition script_done (s : state) : Prop := smpc s = MDone.

(* all-enabled schedules (every chosen thread can move) *)
Fixpoint valid_sched (s : state) (sched : list nat) : Prop :=
  match sched with
  | [] => True
  | t :: r => match step s t with Some s' => valid_sched s' r | None => False end
  end.

(* ---- which audio the players carry: the i-th player plays the chunks of the i-th play command
   issued before the first close (later play commands raise) *)
Definition closing (s : state) : bool :=
  sfinished s || match smpc s with MCloseAcqH => true | _ => false end.
Definition pending_audio (s : state) : list (list chunk) :=
  if closing s then []
  else match smpc s with MPlayAcq a _ _ => [a] | _ => [] end ++ expected_audio (sscript s).
Definition audio_link (sc0 : list cmd) (s : state) : Prop :=
  expected_audio sc0 = map paudio (splayers s) ++ pending_audio s.
