(* C17 - liveness as total correctness: every schedule is finite (measure) and a schedule that cannot
   be extended ends with the control script over (deadlock freedom); statements on reachable states. *)
From Coq Require Import List Bool Arith Lia.
From AL Require Import C17.Model C17.Lib C17.Inv C17.Spec C17.Measure C17.Proofs C17.Proofs_Live C17.Proofs_Measure C17.Proofs_Audio.
Import ListNotations.

Lemma measure_decreases_inv s t s' : inv s -> step s t = Some s' -> measure s' < measure s.
Proof. destruct t; simpl; [apply measure_main|apply measure_player]. Qed.

Lemma exec_valid sched : forall s, valid_sched s sched -> forall I : inv s,
  inv (exec s sched) /\ measure (exec s sched) + length sched <= measure s.
Proof.
  induction sched as [|t r IH]; intros s Hv I; simpl in *; [split; [exact I|lia]|].
  destruct (step s t) as [s1|] eqn:E; [|contradiction].
  pose proof (step_inv _ _ _ I E) as I1. pose proof (measure_decreases_inv _ _ _ I E) as Hm.
  destruct (IH s1 Hv I1) as [I2 Hb]. split; [exact I2|lia].
Qed.

Lemma enabled_nil_stuck s : enabled s = [] -> stuck s.
Proof.
  intros H tid. destruct (step s tid) eqn:E; [|reflexivity]. exfalso.
  assert (Hin : In tid (enabled s)).
  { unfold enabled. apply filter_In. split; [|unfold enabled_b; rewrite E; reflexivity].
    unfold tids. apply in_seq. split; [lia|]. simpl.
    destruct tid as [|i]; [lia|]. simpl in E. unfold step_player, get_player in E.
    destruct (nth_error (splayers s) i) eqn:En; [|discriminate].
    apply nth_error_lt in En. lia. }
  rewrite H in Hin. destruct Hin.
Qed.

(* a maximal schedule exists from every state satisfying the invariant *)
Lemma maximal_exists n : forall s, inv s -> measure s <= n ->
  exists sched, valid_sched s sched /\ stuck (exec s sched).
Proof.
  induction n as [|n IH]; intros s I Hn.
  - destruct (enabled s) as [|t r] eqn:En; [exists []; split; [exact Logic.I|apply enabled_nil_stuck; exact En]|].
    exfalso. assert (Hin : In t (enabled s)) by (rewrite En; left; reflexivity).
    apply filter_In in Hin as [_ Hb]. unfold enabled_b in Hb. destruct (step s t) eqn:E; [|discriminate].
    pose proof (measure_decreases_inv _ _ _ I E). lia.
  - destruct (enabled s) as [|t r] eqn:En; [exists []; split; [exact Logic.I|apply enabled_nil_stuck; exact En]|].
    assert (Hin : In t (enabled s)) by (rewrite En; left; reflexivity).
    apply filter_In in Hin as [_ Hb]. unfold enabled_b in Hb. destruct (step s t) as [s1|] eqn:E; [|discriminate].
    pose proof (measure_decreases_inv _ _ _ I E) as Hm.
    destruct (IH s1 (step_inv _ _ _ I E)) as (sched & Hv & Hs); [lia|].
    exists (t :: sched). simpl. rewrite E. split; assumption.
Qed.

(* ---- statements on reachable states, used by Prop.v *)
Theorem mutex_reach : forall s, reachable s -> mutex_at s.
Proof. intros s H. apply mutex_of_inv, reachable_inv, H. Qed.
Theorem written_prefix_reach : forall s i p, reachable s -> get_player s i = Some p ->
  pwritten p ++ prem p = paudio p.
Proof. intros s i p H. apply written_prefix_inv, reachable_inv, H. Qed.
Theorem written_complete_reach : forall s i p, reachable s -> get_player s i = Some p ->
  ppc_ p = PDone -> phalting p = false -> pwritten p = paudio p.
Proof. intros s i p H. apply written_complete_inv, reachable_inv, H. Qed.
Theorem after_halt_reach : forall s i p, reachable s -> get_player s i = Some p -> pafter p <= 1.
Proof. intros s i p H. apply after_halt_inv, reachable_inv, H. Qed.
Theorem after_close_reach : forall s, reachable s -> close_returned s -> after_close_at s.
Proof. intros s H. apply after_close_inv, reachable_inv, H. Qed.
Theorem terminate_once_reach : forall s, reachable s -> sterminated s <= 1.
Proof. intros s H. apply terminate_once_inv, reachable_inv, H. Qed.
Theorem remove_never_raises_reach : forall s i p, reachable s -> get_player s i = Some p ->
  ppc_ p = PFinRemove -> In i (sthreads s).
Proof. intros s i p H. apply remove_never_raises_inv, reachable_inv, H. Qed.
Theorem assert_never_fails_reach : forall s, reachable s -> smpc s <> MCloseRelHFail.
Proof. intros s H. apply assert_never_fails_inv, reachable_inv, H. Qed.
Theorem no_stuck_reach : forall s, reachable s -> stuck s -> script_done s.
Proof. intros s H. apply no_stuck_inv, reachable_inv, H. Qed.
Theorem close_not_stuck_reach : forall s, reachable s -> in_close s -> exists tid, step s tid <> None.
Proof. intros s H. apply close_not_stuck_inv, reachable_inv, H. Qed.
Theorem measure_decreases_reach : forall s t s', reachable s -> step s t = Some s' -> measure s' < measure s.
Proof. intros s t s' H. apply measure_decreases_inv, reachable_inv, H. Qed.

(* every schedule is finite, every maximal one ends with the script over, and a maximal one exists *)
Theorem close_returns_reach : forall s, reachable s ->
  (forall sched, valid_sched s sched -> length sched <= measure s)
  /\ (forall sched, valid_sched s sched -> stuck (exec s sched) -> script_done (exec s sched))
  /\ (exists sched, valid_sched s sched /\ stuck (exec s sched)).
Proof.
  intros s H. pose proof (reachable_inv s H) as I. split; [|split].
  - intros sched Hv. destruct (exec_valid sched s Hv I) as [_ Hb]. lia.
  - intros sched Hv Hs. destruct (exec_valid sched s Hv I) as [I' _]. apply no_stuck_inv; assumption.
  - apply (maximal_exists (measure s)); [exact I|lia].
Qed.

(* delivery, stated against the control script: what stream i received is a prefix of the chunks of
   the i-th play command issued before the first close, and all of them once the player has finished
   without having been told to halt *)
Theorem delivery_reach : forall wait script sched i p,
  get_player (exec (init wait script) sched) i = Some p ->
  exists a, nth_error (expected_audio script) i = Some a
            /\ pwritten p ++ prem p = a
            /\ (ppc_ p = PDone -> phalting p = false -> pwritten p = a).
Proof.
  intros wait script sched i p H. exists (paudio p).
  assert (R : reachable (exec (init wait script) sched)) by (exists wait, script, sched; reflexivity).
  split; [eapply player_audio_nth; eauto|]. split.
  - eapply written_prefix_reach; eauto.
  - eapply written_complete_reach; eauto.
Qed.
