(* C17 - a natural-number measure of states that strictly decreases on every transition
   (finite audio, finite control script): every schedule is finite.  Definitions only. *)
From Coq Require Import List Bool Arith.
From AL Require Import C17.Model.
Import ListNotations.

(* ---- players: 20 per chunk still to write + the rank of the pc inside one loop round *)
Definition ppc_rank (pc : ppc) : nat :=
  match pc with
  | PNew => 19 | PTestHalt1 => 18 | PTestGo => 17 | PStopStream => 16 | PTestHalt2 => 15
  | PWait => 14 | PTestHalt3 => 13 | PStartStream => 12 | PWrite => 11 | PEpiAcq => 10
  | PEpiTest => 9 | PEpiClose => 8 | PFinAcq => 7 | PFinRemove => 6 | PFinRel => 5
  | PEpiRelT => 4 | PDone => 0
  end.
Definition pm (p : player) : nat :=
  20 * length (prem p) + ppc_rank (ppc_ p) + pfill p + list_sum (ppulls p).
Definition players_measure (l : list player) : nat := list_sum (map pm l).

(* ---- main thread *)
Definition LOOPW : nat := 10.      (* weight of one element of manager._threads *)
Definition new_budget (a : list chunk) (pl : list nat) : nat := 20 * length a + 20 + list_sum pl.

(* upper bound of len(manager._started) when the current play call has finished *)
Definition started_bound (s : state) : nat :=
  match smpc s with
  | MPlayPrune _ todo kept => length todo + length kept + 1
  | MPlayAcq _ _ _ | MPlayGoSet _ | MPlayHaltInit _ | MPlayOpen _ | MPlayAppend _ => length (sstarted s) + 1
  | _ => length (sstarted s)
  end.

(* the thread close is dealing with has already left manager._threads: the loop is about to advance *)
Definition jr (s : state) (t : nat) : nat := if mem t (sthreads s) then 0 else 8.
Definition tail (S : nat) : nat := S + 6.

Definition cur (s : state) (S : nat) : nat :=
  match smpc s with
  | MPlayAcq a _ pl => 8 + S + new_budget a pl + LOOPW
  | MPlayRaiseRel => 1
  | MPlayGoSet _ => 7 + S + LOOPW
  | MPlayHaltInit _ => 6 + S + LOOPW
  | MPlayOpen _ => 5 + S + LOOPW
  | MPlayAppend _ => 4 + S + LOOPW
  | MPlayPrune _ todo _ => 3 + length todo
  | MPlayStart _ => 2
  | MPlayRel => 1
  | MCtlAcq KCResume t | MCtlAcq KCStop t => jr s t + 6 + tail S
  | MCtlAcq _ _ => 4
  | MPauseClear _ => 2
  | MResumeSet c t => if c then jr s t + 4 + tail S else 2
  | MStopHalt c t => if c then jr s t + 5 + tail S else 3
  | MStopSet c t => if c then jr s t + 4 + tail S else 2
  | MCtlRel c t => if c then jr s t + 3 + tail S else 1
  | MCloseAcqH => 10 + tail S
  | MCloseRelH2 => 1
  | MCloseLoopAcq => 9 + tail S
  | MCloseGet => 8 + tail S
  | MCloseLoopRel t => jr s t + 7 + tail S
  | MCloseJoin t => jr s t + 2 + tail S
  | MCloseBreakRel => S + 5
  | MCloseJoinAll todo => length todo + 3
  | MCloseAssert => 3
  | MCloseTerm => 2
  | MCloseRelH => 1
  | MCloseRelHFail => 1
  | MDone => 0
  end.

(* cost of the commands still in the script, S = bound of len(_started) when they start *)
Fixpoint cost (sc : list cmd) (S : nat) : nat :=
  match sc with
  | [] => 0
  | CPlay n xs :: r => 1 + (8 + (S + 1) + new_budget (chunkify n xs) [] + LOOPW) + cost r (S + 1)
  | CPlaySrc n xs :: r => 1 + (8 + (S + 1) + new_budget (chunkify n xs) (pull_counts n (length xs)) + LOOPW) + cost r (S + 1)
  | CPlayBad n xs k :: r => 1 + (8 + (S + 1) + new_budget (firstn k (chunkify n xs)) [] + LOOPW) + cost r (S + 1)
  | CClose :: r => 1 + (10 + tail S) + cost r S
  | _ :: r => 1 + 4 + cost r S
  end.

Definition measure (s : state) : nat :=
  cur s (started_bound s) + cost (sscript s) (started_bound s)
  + players_measure (splayers s) + LOOPW * length (sthreads s).
