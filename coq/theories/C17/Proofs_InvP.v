(* C17 - the invariant is preserved by every player transition. *)
From Coq Require Import List Bool Arith Lia.
From AL Require Import C17.Model C17.Lib C17.Inv.
Import ListNotations.

Lemma get_player_upd s i f j q :
  get_player (upd_player s i f) j = Some q ->
  (j = i /\ exists p, get_player s i = Some p /\ q = f p) \/ (j <> i /\ get_player s j = Some q).
Proof. unfold get_player, upd_player; simpl. apply nth_error_upd_inv. Qed.

Ltac break_step H :=
  repeat match type of H with
  | match ?x with _ => _ end = Some _ => let E := fresh "E" in destruct x eqn:E; try discriminate H
  | (if ?x then _ else _) = Some _ => let E := fresh "E" in destruct x eqn:E; try discriminate H
  end.

Lemma remove_first_nil_of l i : l = [] -> remove_first i l = [].
Proof. intros ->. reflexivity. Qed.

Lemma player_g s i s' : inv s -> step_player s i = Some s' -> ginv s'.
Proof.
  intros [G P] H. unfold step_player in H.
  destruct (get_player s i) as [p|] eqn:Ep; [|discriminate].
  pose proof (P i p Ep) as Pi. pose proof (nth_error_lt _ _ _ Ep) as Hlt.
  destruct G, Pi.
  destruct (ppc_ p) eqn:Epc; break_step H; inversion H; subst s'; clear H;
    constructor; simpl; rewrite ?upd_length; auto.
  all: try (simpl in *; intuition congruence).
  all: try match goal with
    | |- forall i0, Some (S ?i) = Some (S i0) -> _ => intros i0 Hi0; inversion Hi0; subst; assumption
    | |- forall t, In t (remove_first _ _) -> _ => intros t Ht; apply In_remove_first in Ht; auto
    | |- NoDup (remove_first _ _) => apply NoDup_remove_first; assumption
    | |- m_after_loop _ = true -> _ => let Hm := fresh in intro Hm; rewrite (g_empty Hm); reflexivity
    | |- if m_body _ then _ else _ =>
        destruct (m_body (smpc s)); [assumption|];
        destruct g_phase as [?|(?&?&Hth)]; [left; assumption|right]; rewrite Hth; auto
    end.
Qed.

Lemma alive_home_eq s' s : smpc s' = smpc s -> sfinished s' = sfinished s -> sstarted s' = sstarted s ->
  alive_home s' = alive_home s.
Proof. unfold alive_home. intros -> -> ->. reflexivity. Qed.

Ltac split_ifs :=
  repeat match goal with
  | |- context[if phalting ?p then _ else _] => destruct (phalting p) eqn:?
  | |- context[if pgo ?p then _ else _] => destruct (pgo p) eqn:?
  | |- context[if mem ?i ?l then _ else _] => destruct (mem i l) eqn:?
  | |- context[p_loop ?p] => unfold p_loop
  | |- context[loop_pc ?p] => unfold loop_pc; destruct (prem p) eqn:?
  | |- context[if pcrash ?p then _ else _] => unfold crash_pc; destruct (pcrash p)
  end.

Lemma player_p s i s' : inv s -> step_player s i = Some s' ->
  forall j q, nth_error (splayers s') j = Some q -> pinv s' j q.
Proof.
  intros [G P] H. unfold step_player in H.
  destruct (get_player s i) as [p|] eqn:Ep; [|discriminate].
  pose proof (P i p Ep) as Pi. pose proof (nth_error_lt _ _ _ Ep) as Hlt.
  intros j q Hq.
  destruct (ppc_ p) eqn:Epc; break_step H; inversion H; subst s'; clear H;
   simpl in Hq; apply nth_error_upd_inv in Hq as [(-> & p0 & Hp0 & ->)|(Hne & Hq)].
  all: try (unfold get_player in Ep; rewrite Ep in Hp0; inversion Hp0; subst p0; clear Hp0).
  all: try (pose proof (P j q Hq) as Pj; clear P).
  all: split_ifs.
  all: destruct G.
  all: try (destruct Pj; destruct Pi; constructor;
            try (erewrite alive_home_eq by reflexivity); unfold p_alive in *; simpl in *; rewrite ?Epc in *; simpl in *; try assumption; try (intuition congruence)).
  all: try (clear P; destruct Pi; constructor;
            try (erewrite alive_home_eq by reflexivity); unfold p_alive in *; simpl in *; rewrite ?Epc in *; simpl in *; try assumption; try (intuition congruence)).
  all: try match goal with
    | |- (_ ++ [_]) ++ _ = _ =>
        rewrite <- app_assoc; simpl;
        match goal with Hr : prem _ = _ :: _ |- _ => rewrite <- Hr end; assumption
    | |- mem ?i (remove_first ?i _) = false => apply mem_remove_same; assumption
    | |- mem _ (remove_first _ _) = _ => rewrite mem_remove_other by assumption; assumption
    | |- context[if phalting ?p then _ else _] =>
        destruct (phalting p); intuition (try lia; try congruence)
    end.
Qed.

Lemma player_inv s i s' : inv s -> step_player s i = Some s' -> inv s'.
Proof. intros I H. split; [eapply player_g; eauto|eapply player_p; eauto]. Qed.
