(* C17 - the invariant holds in every reachable state; safety theorems. *)
From Coq Require Import List Bool Arith Lia.
From AL Require Import C17.Model C17.Lib C17.Inv C17.Spec C17.Proofs_InvP C17.Proofs_InvM.
Import ListNotations.

Lemma option_eq_dec (a b : option nat) : {a = b} + {a <> b}.
Proof. decide equality. apply Nat.eq_dec. Qed.

Lemma inv_init wait script : inv (init wait script).
Proof.
  unfold init. apply next_cmd_inv; [|reflexivity].
  split.
  - constructor; simpl; auto; try tauto; try congruence; try (split; congruence); try constructor.
  - intros i p H. simpl in H. destruct i; discriminate.
Qed.

Lemma step_inv s t s' : inv s -> step s t = Some s' -> inv s'.
Proof. destruct t; simpl; [apply main_inv|apply player_inv]. Qed.

Lemma exec_inv sched : forall s, inv s -> inv (exec s sched).
Proof.
  induction sched as [|t r IH]; intros s I; simpl; [exact I|].
  destruct (step s t) eqn:E; [apply IH; eapply step_inv; eauto|apply IH; exact I].
Qed.

Lemma reachable_inv s : reachable s -> inv s.
Proof. intros (w & sc & sched & ->). apply exec_inv, inv_init. Qed.

Lemma reachable_step s t s' : reachable s -> step s t = Some s' -> reachable s'.
Proof.
  intros (w & sc & sched & ->) H. exists w, sc, (sched ++ [t]).
  revert H. generalize (init w sc). induction sched as [|u r IH]; intros s0 H; simpl in *.
  - rewrite H. reflexivity.
  - destruct (step s0 u); apply IH; exact H.
Qed.

(* ---- mutual exclusion: the pc-defined critical sections coincide with the lock holders *)
Lemma mutex_of_inv s : inv s -> mutex_at s.
Proof.
  intros [G P]. split; [|split].
  - intro tid. split.
    + destruct tid as [|i]; simpl.
      * apply (g_mlock0 _ G).
      * intros (p & Hp & Hm). apply (p_mlock _ _ _ (P i p Hp)). exact Hm.
    + destruct tid as [|i]; simpl.
      * apply (g_mlock0 _ G).
      * intro Hm. destruct (nth_error_some_of_lt (splayers s) i) as [p Hp]; [apply (g_mlock_lt _ G); exact Hm|].
        exists p. split; [exact Hp|]. apply (p_mlock _ _ _ (P i p Hp)). exact Hm.
  - intros i p H tid. split.
    + destruct tid as [|j]; simpl.
      * intro Hm. apply (p_tlock_main _ _ _ (P i p H)). exact Hm.
      * intros (-> & q & Hq & Ht). unfold get_player in *. rewrite H in Hq. inversion Hq; subst q.
        destruct (option_eq_dec (m_tsec (smpc s)) (Some i)) as [Hm|Hm].
        -- apply (p_tlock_main _ _ _ (P i p H)) in Hm. destruct Hm as [Hm _]. congruence.
        -- rewrite (p_tlock_self _ _ _ (P i p H) Hm), Ht. reflexivity.
    + destruct (option_eq_dec (m_tsec (smpc s)) (Some i)) as [Hm|Hm]; intro Hl.
      * destruct (p_tlock_main _ _ _ (P i p H) Hm) as [_ Hl']. rewrite Hl' in Hl. inversion Hl; subst. exact Hm.
      * rewrite (p_tlock_self _ _ _ (P i p H) Hm) in Hl.
        destruct (pc_tsec (ppc_ p)) eqn:Et; inversion Hl; subst. simpl. split; [reflexivity|]. exists p. auto.
  - intro tid. split.
    + intros [-> Hh]. rewrite (g_hlock _ G), Hh. reflexivity.
    + intro Hl. rewrite (g_hlock _ G) in Hl. destruct (m_hsec (smpc s)) eqn:E; inversion Hl. split; [reflexivity|exact E].
Qed.

(* ---- delivery: never lost, duplicated or reordered *)
Lemma written_prefix_inv s i p : inv s -> get_player s i = Some p ->
  pwritten p ++ prem p = paudio p.
Proof. intros [_ P] H. apply (p_written _ _ _ (P i p H)). Qed.

Lemma written_complete_inv s i p : inv s -> get_player s i = Some p ->
  ppc_ p = PDone -> phalting p = false -> pwritten p = paudio p.
Proof.
  intros [_ P] H Hd Hh. pose proof (P i p H) as Pi.
  destruct (p_epi _ _ _ Pi) as [Hx|Hx]; [rewrite Hd; reflexivity|congruence|].
  rewrite <- (p_written _ _ _ Pi), Hx, app_nil_r. reflexivity.
Qed.

(* after stop() at most one more chunk is written *)
Lemma after_halt_inv s i p : inv s -> get_player s i = Some p -> pafter p <= 1.
Proof. intros [_ P] H. apply (p_after _ _ _ (P i p H)). Qed.

(* the ValueError branch of list.remove and the AssertionError branch of close are dead code *)
Lemma remove_never_raises_inv s i p : inv s -> get_player s i = Some p ->
  ppc_ p = PFinRemove -> In i (sthreads s).
Proof.
  intros [_ P] H Hpc. apply mem_In. rewrite (p_threads _ _ _ (P i p H)), Hpc. reflexivity.
Qed.

Lemma assert_never_fails_inv s : inv s -> smpc s <> MCloseRelHFail.
Proof. intros [G _]. apply (g_nofail _ G). Qed.

(* ---- shutdown *)
Lemma terminate_once_inv s : inv s -> sterminated s <= 1.
Proof.
  intros [G _]. pose proof (g_phase _ G) as H.
  destruct (m_body (smpc s)); [lia|]. destruct H as [[_ ->]|(_ & -> & _)]; lia.
Qed.

Ltac split_args :=
  repeat match goal with c : bool |- _ => destruct c | k : ctl |- _ => destruct k end.

Lemma hsec_body M : m_hsec M = false -> m_body M = false.
Proof. destruct M; simpl; try congruence; split_args; simpl; congruence. Qed.

Lemma home_nil s : sfinished s = true -> m_hsec (smpc s) = false -> m_new (smpc s) = None ->
  alive_home s = [].
Proof.
  unfold alive_home. intros Hf Hh Hn. rewrite Hf.
  destruct (smpc s); simpl in *; try discriminate; try reflexivity; split_args; simpl in *;
    try discriminate; reflexivity.
Qed.

Lemma after_close_inv s : inv s -> close_returned s -> after_close_at s.
Proof.
  intros [G P] [Hf Hh]. pose proof (hsec_body _ Hh) as Hb.
  pose proof (g_phase _ G) as Hph. rewrite Hb in Hph.
  destruct Hph as [[Hx _]|(_ & Ht & Hth)]; [congruence|].
  pose proof (g_fin_new _ G Hf) as Hnew.
  assert (Hdone : forall i p, get_player s i = Some p -> ppc_ p = PDone).
  { intros i p H. pose proof (P i p H) as Pi.
    pose proof (p_home _ _ _ Pi) as Hhome. rewrite (home_nil s Hf Hh Hnew) in Hhome.
    unfold p_alive in Hhome.
    destruct (ppc_ p) eqn:Epc; try reflexivity; try (exfalso; apply Hhome; reflexivity).
    assert (m_new (smpc s) = Some i) by (apply (p_new _ _ _ Pi); exact Epc). congruence. }
  split; [|split; [exact Ht|split; [exact Hth|]]].
  - intros i p H. split; [|apply (Hdone i p H)].
    rewrite (p_open _ _ _ (P i p H)), (Hdone i p H). reflexivity.
  - intros a cr pl HM s' Hs. simpl in Hs. unfold step_main in Hs. rewrite HM in Hs.
    destruct (smlock s); [discriminate|]. simpl in Hs. rewrite Hf in Hs. inversion Hs. split; reflexivity.
Qed.
