(* C17 - list lemmas used by the invariant proofs (update at an index, membership, remove). *)
From Coq Require Import List Bool Arith Lia.
From AL Require Import C17.Model.
Import ListNotations.

Lemma upd_length {A} (f : A -> A) l : forall i, length (upd i f l) = length l.
Proof. induction l as [|x r IH]; intros [|i]; simpl; auto. Qed.

Lemma nth_error_upd_same {A} (f : A -> A) l : forall i x,
  nth_error l i = Some x -> nth_error (upd i f l) i = Some (f x).
Proof.
  induction l as [|y r IH]; intros [|i] x H; simpl in *; try discriminate.
  - inversion H; reflexivity.
  - apply IH; exact H.
Qed.

Lemma nth_error_upd_other {A} (f : A -> A) l : forall i j,
  i <> j -> nth_error (upd i f l) j = nth_error l j.
Proof.
  induction l as [|y r IH]; intros [|i] [|j] H; simpl in *; try reflexivity.
  - congruence.
  - apply IH. congruence.
Qed.

Lemma nth_error_upd_inv {A} (f : A -> A) l i j y :
  nth_error (upd i f l) j = Some y ->
  (j = i /\ exists x, nth_error l i = Some x /\ y = f x) \/ (j <> i /\ nth_error l j = Some y).
Proof.
  intro H. destruct (Nat.eq_dec j i) as [->|Hne].
  - left. split; [reflexivity|].
    destruct (nth_error l i) as [x|] eqn:E.
    + exists x. split; [reflexivity|]. rewrite (nth_error_upd_same f l i x E) in H. congruence.
    + exfalso. apply nth_error_None in E.
      assert (Hs : nth_error (upd i f l) i <> None) by congruence.
      apply nth_error_Some in Hs. rewrite upd_length in Hs. lia.
  - right. split; [exact Hne|]. rewrite nth_error_upd_other in H by congruence. exact H.
Qed.

Lemma nth_error_snoc_inv {A} (l : list A) x j y :
  nth_error (l ++ [x]) j = Some y ->
  (j < length l /\ nth_error l j = Some y) \/ (j = length l /\ y = x).
Proof.
  intro H. destruct (Nat.lt_ge_cases j (length l)) as [Hlt|Hge].
  - left. split; [exact Hlt|]. rewrite nth_error_app1 in H by exact Hlt. exact H.
  - right. rewrite nth_error_app2 in H by exact Hge.
    destruct (j - length l) as [|k] eqn:E; simpl in H.
    + split; [lia|congruence].
    + destruct k; discriminate.
Qed.

Lemma nth_error_lt {A} (l : list A) i x : nth_error l i = Some x -> i < length l.
Proof. intro H. apply nth_error_Some. congruence. Qed.

Lemma nth_error_some_of_lt {A} (l : list A) i : i < length l -> exists x, nth_error l i = Some x.
Proof.
  intro H. destruct (nth_error l i) as [x|] eqn:E; [eauto|].
  apply nth_error_None in E. lia.
Qed.

(* ---- mem / remove_first *)
Lemma mem_In x l : mem x l = true <-> In x l.
Proof.
  induction l as [|y r IH]; simpl; [split; [discriminate|tauto]|].
  rewrite orb_true_iff, IH, Nat.eqb_eq. split; intros [H|H]; auto.
Qed.

Lemma mem_false_In x l : mem x l = false <-> ~ In x l.
Proof.
  rewrite <- mem_In. destruct (mem x l); split; intro H; congruence.
Qed.

Lemma mem_snoc_same x l : mem x (l ++ [x]) = true.
Proof. apply mem_In, in_or_app. right. left. reflexivity. Qed.

Lemma mem_snoc_other x y l : x <> y -> mem x (l ++ [y]) = mem x l.
Proof.
  intro H. induction l as [|z r IH]; simpl.
  - destruct (Nat.eqb_spec x y); [congruence|reflexivity].
  - rewrite IH. reflexivity.
Qed.

Lemma mem_remove_other x y l : x <> y -> mem x (remove_first y l) = mem x l.
Proof.
  intro H. induction l as [|z r IH]; simpl; [reflexivity|].
  destruct (Nat.eqb_spec y z) as [->|Hyz]; simpl.
  - destruct (Nat.eqb_spec x z); [congruence|reflexivity].
  - rewrite IH. reflexivity.
Qed.

Lemma mem_remove_same x l : NoDup l -> mem x (remove_first x l) = false.
Proof.
  intro H. induction H as [|z r Hz Hr IH]; simpl; [reflexivity|].
  destruct (Nat.eqb_spec x z) as [->|Hxz]; simpl.
  - apply mem_false_In. exact Hz.
  - destruct (Nat.eqb_spec x z); [congruence|]. exact IH.
Qed.

Lemma In_remove_first x y l : In x (remove_first y l) -> In x l.
Proof.
  induction l as [|z r IH]; simpl; [tauto|].
  destruct (Nat.eqb y z); simpl; intuition.
Qed.

Lemma NoDup_remove_first y l : NoDup l -> NoDup (remove_first y l).
Proof.
  intro H. induction H as [|z r Hz Hr IH]; simpl; [constructor|].
  destruct (Nat.eqb y z); [exact Hr|].
  constructor; [|exact IH]. intro Hin. apply Hz. eapply In_remove_first; eauto.
Qed.

Lemma NoDup_snoc (x : nat) l : NoDup l -> ~ In x l -> NoDup (l ++ [x]).
Proof.
  intros H Hx. induction H as [|z r Hz Hr IH]; simpl.
  - constructor; [tauto|constructor].
  - constructor.
    + intro Hin. apply in_app_or in Hin as [Hin|[->|[]]]; [tauto|]. apply Hx. left. reflexivity.
    + apply IH. intro. apply Hx. right. assumption.
Qed.
