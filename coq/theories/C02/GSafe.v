(* C02 - data-indexed read bounds.
   [reach c m s h ys]: machine m can be in state s having been delivered the items h (in order) on its
   counted sources and having yielded ys.  [gsafe c A m]: whenever m is about to read a counted source,
   [A h ys] holds - "a further read is allowed after the items h when ys was yielded".  For a data independent
   need n this is  S |h| <= n (S |ys|);  for a filter it is  #passing h <= |ys|  (the next output is the
   (|ys|+1)-th passing item, which has not been seen yet).  The notion composes along [comp] for arbitrary A. *)
From Coq Require Import List Bool Arith Lia String.
From AL Require Import C02.Machine C02.Spec C02.MachineLemmas.
Import ListNotations.
Local Open Scope nat_scope.

Section Reach.
Context {I O : Type} (c : nat -> bool) (m : machine I O).

Inductive reach : st m -> list I -> list O -> Prop :=
| R_init : reach (init m) [] []
| R_yield s h ys o s' : reach s h ys -> step m s = Yield o s' -> reach s' h (ys ++ [o])
| R_read s h ys j k x : reach s h ys -> step m s = Read j k ->
    reach (k (Some x)) (if c j then h ++ [x] else h) ys
| R_end s h ys j k : reach s h ys -> step m s = Read j k -> reach (k None) h ys
| R_tau s h ys s' : reach s h ys -> step m s = Tau s' -> reach s' h ys.

Definition gsafe (A : list I -> list O -> Prop) : Prop :=
  forall s h ys j k, reach s h ys -> step m s = Read j k -> c j = true -> A h ys.

(* every counted read of a run happens at a moment (h, ys) where A allows it *)
Fixpoint run_ok (A : list I -> list O -> Prop) (E : env I) (fuel k : nat) (s : st m) (e : est E)
  (h : list I) (ys : list O) : Prop :=
  match k with
  | 0 => True
  | S k' =>
    match fuel with
    | 0 => True
    | S f =>
      match step m s with
      | Yield o s' => run_ok A E f k' s' e h (ys ++ [o])
      | Tau s' => run_ok A E f k s' e h ys
      | Read i kont =>
          (c i = true -> A h ys) /\
          match enext E e i with
          | (Item x, e') => run_ok A E f k (kont (Some x)) e' (if c i then h ++ [x] else h) ys
          | (End, e') => run_ok A E f k (kont None) e' h ys
          | (Boom, _) => True
          end
      | Stop => True
      | Raise _ => True
      end
    end
  end.

Lemma gsafe_run_gen A (E : env I) : gsafe A ->
  forall fuel k s e h ys, reach s h ys -> run_ok A E fuel k s e h ys.
Proof.
  intros HS. induction fuel as [|f IH]; intros k s e h ys HR; destruct k as [|k']; try exact Logic.I.
  cbn [run_ok]. destruct (step m s) as [o s'|j kont|s'| |err] eqn:Est; try exact Logic.I.
  - apply IH. eapply R_yield; eassumption.
  - split; [intro Cj; eapply HS; eassumption|].
    destruct (enext E e j) as [[x| |] e']; try exact Logic.I.
    + apply IH. eapply R_read; eassumption.
    + apply IH. eapply R_end; eassumption.
  - apply IH. eapply R_tau; eassumption.
Qed.

Theorem gsafe_run A : gsafe A -> forall (E : env I) fuel k e, run_ok A E fuel k (init m) e [] [].
Proof. intros HS E fuel k e. apply gsafe_run_gen; [exact HS|apply R_init]. Qed.

(* the data independent certificate is an instance *)
Lemma safe_gsafe (n : nat -> nat) : safe c n m ->
  gsafe (fun h ys => S (List.length h) <= n (S (List.length ys))).
Proof.
  intros [Inv [H0 Hs]].
  assert (HR : forall s h ys, reach s h ys -> Inv s (List.length h) (List.length ys)).
  { intros s h ys HR. induction HR as [|s h ys o s' HR IH Est|s h ys j k x HR IH Est|s h ys j k HR IH Est|s h ys s' HR IH Est].
    - exact H0.
    - specialize (Hs _ _ _ IH). unfold safe_step in Hs. rewrite Est in Hs. rewrite app_length. cbn.
      rewrite Nat.add_1_r. apply Hs.
    - specialize (Hs _ _ _ IH). unfold safe_step in Hs. rewrite Est in Hs. destruct Hs as [_ [HS _]].
      specialize (HS x). unfold bump in HS. destruct (c j); [rewrite app_length; cbn; rewrite Nat.add_1_r|]; exact HS.
    - specialize (Hs _ _ _ IH). unfold safe_step in Hs. rewrite Est in Hs. apply Hs.
    - specialize (Hs _ _ _ IH). unfold safe_step in Hs. rewrite Est in Hs. exact Hs. }
  intros s h ys j k HRe Est Cj. specialize (Hs _ _ _ (HR _ _ _ HRe)). unfold safe_step in Hs. rewrite Est in Hs.
  destruct Hs as [Hb _]. unfold bump in Hb. rewrite Cj in Hb. exact Hb.
Qed.

Lemma gsafe_weaken (A A' : list I -> list O -> Prop) : (forall h ys, A h ys -> A' h ys) -> gsafe A -> gsafe A'.
Proof. intros HA HS s h ys j k HR Est Cj. apply HA. eapply HS; eassumption. Qed.
End Reach.

(* ------------------------------------------------------------------ composition *)
Section GComp.
Context {I M O : Type} (m2 : machine M O) (m1 : machine I M) (c : nat -> bool).

(* m1 can have produced hm from h *)
Definition produces (h : list I) (hm : list M) : Prop := exists s1, reach c m1 s1 h hm.

(* a read of m2 o m1 is allowed when, for the intermediate items hm that m1 produced from h,
   m1 may read after (h, hm) and m2 may read after (hm, ys) *)
Definition acomp (A1 : list I -> list M -> Prop) (A2 : list M -> list O -> Prop)
  (h : list I) (ys : list O) : Prop :=
  exists hm, produces h hm /\ A1 h hm /\ A2 hm ys.

Lemma reach_comp : forall S h ys, reach c (comp m2 m1) S h ys ->
  match S with
  | CRun _ _ s2 (Some s1) => exists hm, reach c m1 s1 h hm /\ reach every m2 s2 hm ys
  | CRun _ _ s2 None => True
  | CWait _ _ k s1 => exists hm s2 j, reach c m1 s1 h hm /\ reach every m2 s2 hm ys /\ step m2 s2 = Read j k
  end.
Proof.
  intros S h ys HR.
  induction HR as [|S h ys o S' HR IH Est|S h ys j k x HR IH Est|S h ys j k HR IH Est|S h ys S' HR IH Est].
  - cbn. exists []. split; apply R_init.
  - destruct S as [s2 [s1|]|kk s1]; cbn [step comp] in Est.
    + destruct IH as [hm [H1 H2]]. destruct (step m2 s2) as [o2 s2'|j2 k2|s2'| |err] eqn:E2; try discriminate Est.
      inversion Est; subst. exists hm. split; [exact H1|]. eapply R_yield; eassumption.
    + destruct (step m2 s2) as [o2 s2'|j2 k2|s2'| |err] eqn:E2; try discriminate Est. inversion Est; subst. exact Logic.I.
    + destruct (step m1 s1); discriminate Est.
  - destruct S as [s2 [s1|]|kk s1]; cbn [step comp] in Est.
    + destruct (step m2 s2); discriminate Est.
    + destruct (step m2 s2); discriminate Est.
    + destruct IH as [hm [s2 [j2 [H1 [H2 E2]]]]].
      destruct (step m1 s1) as [o1 s1'|j1 k1|s1'| |err] eqn:E1; try discriminate Est.
      inversion Est; subst. exists hm, s2, j2. split; [|split; assumption]. eapply R_read; eassumption.
  - destruct S as [s2 [s1|]|kk s1]; cbn [step comp] in Est.
    + destruct (step m2 s2); discriminate Est.
    + destruct (step m2 s2); discriminate Est.
    + destruct IH as [hm [s2 [j2 [H1 [H2 E2]]]]].
      destruct (step m1 s1) as [o1 s1'|j1 k1|s1'| |err] eqn:E1; try discriminate Est.
      inversion Est; subst. exists hm, s2, j2. split; [|split; assumption]. eapply R_end; eassumption.
  - destruct S as [s2 [s1|]|kk s1]; cbn [step comp] in Est.
    + destruct IH as [hm [H1 H2]]. destruct (step m2 s2) as [o2 s2'|j2 k2|s2'| |err] eqn:E2; try discriminate Est.
      * inversion Est; subst. exists hm, s2, j2. repeat split; assumption.
      * inversion Est; subst. exists hm. split; [exact H1|]. eapply R_tau; eassumption.
    + destruct (step m2 s2) as [o2 s2'|j2 k2|s2'| |err] eqn:E2; try discriminate Est; inversion Est; subst; exact Logic.I.
    + destruct IH as [hm [s2 [j2 [H1 [H2 E2]]]]].
      destruct (step m1 s1) as [o1 s1'|j1 k1|s1'| |err] eqn:E1; try discriminate Est; inversion Est; subst.
      * exists (hm ++ [o1]). split; [eapply R_yield; eassumption|].
        apply (R_read every m2 s2 hm ys j2 kk o1 H2 E2).
      * exists hm, s2, j2. repeat split; try assumption. eapply R_tau; eassumption.
      * exact Logic.I.
Qed.

Theorem gsafe_comp A1 A2 : gsafe c m1 A1 -> gsafe every m2 A2 -> gsafe c (comp m2 m1) (acomp A1 A2).
Proof.
  intros H1 H2 S h ys j k HR Est Cj. pose proof (reach_comp S h ys HR) as HD.
  destruct S as [s2 [s1|]|kk s1]; cbn [step comp] in Est.
  - destruct (step m2 s2); discriminate Est.
  - destruct (step m2 s2); discriminate Est.
  - destruct HD as [hm [s2 [j2 [R1 [R2 E2]]]]].
    destruct (step m1 s1) as [o1 s1'|j1 k1|s1'| |err] eqn:E1; try discriminate Est. inversion Est; subst.
    exists hm. split; [exists s1; exact R1|]. split.
    + eapply H1; eassumption.
    + eapply H2; [exact R2|exact E2|reflexivity].
Qed.
End GComp.
