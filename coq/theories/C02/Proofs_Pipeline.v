(* C02 - every stage of the table and every pipeline built from them keeps inside its need,
   on every environment; on endless environments the need is met exactly within an explicit fuel bound. *)
From Coq Require Import List Bool Arith ZArith Lia String.
From AL Require Import C08.Model C02.Machine C02.Spec C02.MachineLemmas C02.Model C02.Check
  C02.Proofs_Families C02.Proofs_Blocks C02.Proofs_Data C02.Proofs_Tee C02.Proofs_Resample.
Import ListNotations.
Local Open Scope nat_scope.

(* ---------------------------------------------------------------- machines reading source 0 only *)
Definition reads0 {I O : Type} (m : machine I O) : Prop := forall s j k, step m s = Read j k -> j = 0.

Lemma safe_unread {I O} c need (m : machine I O) : reads0 m -> c 0 = false -> safe c need m.
Proof.
  intros H0 C0. exists (fun _ r _ => r = 0). split; [reflexivity|].
  intros s r y Hr. subst r. unfold safe_step.
  destruct (step m s) as [o s'|j k|s'| |err] eqn:E; try lia; try reflexivity.
  apply H0 in E. subst j. unfold bump. rewrite C0. repeat split; try lia.
Qed.

Ltac reads0_tac :=
  let s := fresh "s" in let j := fresh "j" in let k := fresh "k" in let H := fresh "H" in
  intros s j k H; destruct s; cbn in H;
  repeat (match type of H with
          | context [match ?x with _ => _ end] => destruct x
          end);
  try discriminate H; inversion H; reflexivity.

Lemma reads0_mealy {A B Sg} (d : Sg -> A -> Sg * B) s0 : reads0 (mealy d s0).
Proof. reads0_tac. Qed.
Lemma reads0_mskip {A} n : reads0 (@mskip A n).
Proof. reads0_tac. Qed.
Lemma reads0_mlimit {A} n : reads0 (@mlimit A n).
Proof. reads0_tac. Qed.
Lemma reads0_mtakewhile {A} p : reads0 (@mtakewhile A p).
Proof. reads0_tac. Qed.
Lemma reads0_mpad {A} (pad : A) l r : reads0 (mpad pad l r).
Proof. reads0_tac. Qed.
Lemma reads0_mblocks {A} size hop (pad : A) : reads0 (mblocks size hop pad).
Proof. intros s j k H. destruct s; cbn [step mblocks] in H; try discriminate H. inversion H. reflexivity. Qed.
Lemma reads0_mbatched {A} n : reads0 (@mbatched A n).
Proof. intros s j k H. destruct s; cbn [step mbatched] in H; try discriminate H. inversion H. reflexivity. Qed.
Lemma reads0_mparallel {A} n : reads0 (@mparallel A n).
Proof. reads0_tac. Qed.
Lemma reads0_mola {A B} (o : B) size hop auto : reads0 (@mola A B o size hop auto).
Proof. reads0_tac. Qed.
Lemma reads0_mresample {A B} (o : B) n0 a b c d : reads0 (@mresample A B o n0 a b c d).
Proof.
  intros s j k H. destruct s as [[|q]|idx|]; cbn [step mresample] in H; try discriminate H.
  - inversion H. reflexivity.
  - destruct (b <? idx)%Z; try discriminate H. inversion H. reflexivity.
Qed.
Lemma reads0_mtee {A} n sched : reads0 (@mtee A n sched).
Proof.
  intros s j k H. destruct s as [[buf pos sc out]|]; cbn [step mtee] in H; try discriminate H.
  destruct sc, out; try discriminate H.
  destruct (nth_error buf (nth n0 pos 0)); try discriminate H. inversion H. reflexivity.
Qed.
Lemma reads0_mattack {A} (o : A) n : reads0 (mattack o n).
Proof. reads0_tac. Qed.
Lemma reads0_mcycle {A} : reads0 (@mcycle A).
Proof. reads0_tac. Qed.
Lemma reads0_mzcross {A} sgn : reads0 (@mzcross A sgn).
Proof. reads0_tac. Qed.
Lemma reads0_omap {I O O'} (f : O -> O') (m : machine I O) : reads0 m -> reads0 (omap f m).
Proof.
  intros H0 s j k H. cbn [step omap] in H. destruct (step m s) eqn:E; try discriminate H.
  inversion H. subst. eapply H0. exact E.
Qed.

(* ---------------------------------------------------------------- stages *)
Definition stage_ok (g : stage) : Prop :=
  match g with
  | GFilter _ _ => False       (* data dependent need: see mfilter_need *)
  | GTee n sched => Forall (fun ch => ch < n) sched
  | GBlocks size hop => 1 <= size /\ 1 <= hop
  | GBatched n => 1 <= n
  | GOla _ hop _ => 1 <= hop
  | GResample _ _ new => 1 <= new
  | GResampleTV _ _ new => 1 <= new
  | _ => True
  end.

Lemma one_src_safe {I O} c n (m : machine I O) :
  reads0 m -> (c 0 = true -> safe c n m) -> safe c (one_src c n) m.
Proof.
  intros H0 Hs. unfold one_src. destruct (c 0) eqn:C0; [apply Hs; reflexivity|apply safe_unread; assumption].
Qed.

Lemma smach_safe g c : stage_ok g -> safe c (sneedc g c) (smach g).
Proof.
  destruct g; intro Hok; cbn [sneedc smach]; cbn [stage_ok] in Hok; try contradiction.
  - apply one_src_safe; [apply reads0_mealy|intros _; apply mealy_safe].
  - apply safe_omap. apply mzip_safe.
  - apply one_src_safe; [apply reads0_mskip|intros _; apply mskip_safe].
  - apply one_src_safe; [apply reads0_mlimit|intros _; apply mlimit_safe].
  - apply one_src_safe; [apply reads0_mtakewhile|intros _; apply mtakewhile_safe].
  - apply mchain_safe.
  - apply one_src_safe; [apply reads0_mpad|intros _; apply mpad_safe].
  - apply one_src_safe; [apply reads0_omap, reads0_mblocks|intros _; apply safe_omap, mblocks_safe; lia].
  - apply one_src_safe; [apply reads0_mtee|intros _; apply mtee_safe; exact Hok].
  - apply one_src_safe; [apply reads0_mparallel|intros _; apply mparallel_safe].
  - apply one_src_safe; [apply reads0_mola|intros _; apply mola_safe; lia].
  - apply one_src_safe; [apply reads0_mresample|intros _; apply mresample_safe; unfold rs_one, rs_stp; lia].
  - apply one_src_safe; [apply reads0_mcycle|intros _; apply mcycle_safe].
  - apply one_src_safe; [apply reads0_mzcross|intros _; apply mzcross_safe].
  - apply one_src_safe; [apply reads0_omap, reads0_mbatched|intros _; apply safe_omap, mbatched_safe; lia].
  - apply mresample_tv_safe; unfold rs_one, rs_stp; lia.
  - apply one_src_safe; [apply reads0_mattack|intros _; apply mattack_safe].
  - apply mraise_safe.
Qed.

(* ---------------------------------------------------------------- monotone needs *)
Lemma one_src_mono c n : mono n -> mono (one_src c n).
Proof. intros H. unfold one_src. destruct (c 0); [exact H|intros a b _; lia]. Qed.

Lemma mono_id : mono need_id. Proof. intros a b H. exact H. Qed.
Lemma mono_skip n : mono (need_skip n). Proof. intros a b H. unfold need_skip. destruct a, b; lia. Qed.
Lemma mono_limit n : mono (need_limit n). Proof. intros a b H. unfold need_limit. lia. Qed.
Lemma mono_pad l : mono (need_pad l). Proof. intros a b H. unfold need_pad. lia. Qed.
Lemma mono_blocks size hop : mono (need_blocks size hop).
Proof. intros a b H. unfold need_blocks. destruct a, b; try lia. assert (a * hop <= b * hop) by (apply Nat.mul_le_mono_r; lia). lia. Qed.
Lemma mono_ola hop : mono (need_ola hop).
Proof.
  intros a b H. unfold need_ola. destruct a, b; try lia.
  assert (a / hop <= b / hop); [|lia].
  destruct hop; [reflexivity|]. apply Nat.div_le_mono; lia.
Qed.
Lemma mono_zipc c order : mono (need_zipc c order).
Proof. intros a b H. unfold need_zipc. apply Nat.mul_le_mono_r. exact H. Qed.
Lemma mono_chainc c order : mono (need_chainc c order).
Proof. intros a b H. unfold need_chainc. destruct (existsb c order); lia. Qed.
Lemma mono_resample n0 idx0 thr stp one : (0 < one)%Z -> (0 <= stp)%Z -> mono (need_resample n0 idx0 thr stp one).
Proof.
  intros H1 Hs a b H. unfold need_resample. destruct a, b; try lia.
  assert (((thr - idx0 - Z.of_nat b * stp) / one <= (thr - idx0 - Z.of_nat a * stp) / one)%Z).
  { apply Z.div_le_mono; [exact H1|]. nia. }
  lia.
Qed.

Lemma mono_resample_tv c n0 idx0 thr stp one : (0 < one)%Z -> (0 <= stp)%Z ->
  mono (need_resample_tv c n0 idx0 thr stp one).
Proof.
  intros H1 Hs a b H. unfold need_resample_tv.
  pose proof (mono_resample n0 idx0 thr stp one H1 Hs a b H). destruct (c 0), (c 1); lia.
Qed.

Lemma mono_attack n : mono (need_attack n).
Proof. intros a b H. unfold need_attack. destruct a, b; lia. Qed.
Lemma mono_zero : mono (fun _ : nat => 0).
Proof. intros a b _. lia. Qed.

Lemma sneedc_mono g c : stage_ok g -> mono (sneedc g c).
Proof.
  destruct g; intro Hok; cbn [sneedc]; cbn [stage_ok] in Hok; try contradiction;
    try (apply one_src_mono);
    first [apply mono_id | apply mono_zipc | apply mono_skip | apply mono_limit | apply mono_chainc
          | apply mono_pad | apply mono_blocks | apply mono_ola | apply need_tee_mono
          | apply mono_resample; unfold rs_one, rs_stp; lia
          | apply mono_resample_tv; unfold rs_one, rs_stp; lia
          | apply mono_attack | apply mono_zero].
Qed.

(* ---------------------------------------------------------------- pipelines of any depth *)
Lemma fold_safe c : forall rest (m : machine nat nat) (n : nat -> nat),
  safe c n m -> mono n -> Forall stage_ok rest ->
  safe c (fun k => n (fold_right (fun g k' => sneedc g every k') k rest))
       (fold_left (fun m g => comp (smach g) m) rest m).
Proof.
  induction rest as [|g rest IH]; intros m n Hs Hm Hok.
  - cbn. exact Hs.
  - inversion Hok as [|g' r' Hg Hr]; subst. cbn [fold_left fold_right].
    specialize (IH (comp (smach g) m) (need_comp n (sneedc g every))).
    apply IH.
    + apply safe_comp; [exact Hm|apply sneedc_mono; exact Hg|exact Hs|apply smach_safe; exact Hg].
    + intros a b H. unfold need_comp. apply Hm. apply sneedc_mono; assumption.
    + exact Hr.
Qed.

Theorem pmach_safe first rest c : stage_ok first -> Forall stage_ok rest ->
  safe c (pneedc first rest c) (pmach first rest).
Proof.
  intros Hf Hr. unfold pneedc, pmach.
  apply (fold_safe c rest (smach first) (sneedc first c)); [apply smach_safe; exact Hf|apply sneedc_mono; exact Hf|exact Hr].
Qed.

(* the erased trace is judged like the trace *)
Lemma etr_ok_erase {O} c need : forall (t : list (ev O)) r y,
  etr_ok c need r y (map erase t) = tr_ok c need r y t.
Proof.
  induction t as [|e t IH]; intros r y; [reflexivity|].
  destruct e; cbn [map erase etr_ok tr_ok]; rewrite IH; reflexivity.
Qed.

(* The model satisfies the checker [holds_lazy] on every case: any pipeline of admissible stages,
   any sources, any number of demands, any source index *)
Theorem model_bounded first rest : stage_ok first -> Forall stage_ok rest ->
  forall ds k i, etr_ok (only i) (pneed first rest i) 0 0 (ptrace first rest ds k) = true.
Proof.
  intros Hf Hr ds k i. unfold ptrace, pneed. rewrite etr_ok_erase.
  apply safe_run. apply pmach_safe; assumption.
Qed.

Theorem model_constructs_lazily ds : ctrace CLazy ds = [].
Proof. reflexivity. Qed.

(* ---------------------------------------------------------------- exact needs / productivity *)
Definition stage_live (g : stage) : Prop :=
  match g with
  | GMealy | GSkip _ | GPad _ _ | GPar _ | GCycle | GZcross _ | GAttack _ => True
  | GZip _ => True
  | GBlocks size hop => 1 <= size /\ 1 <= hop
  | GBatched n => 1 <= n
  | GOla _ hop _ => 1 <= hop
  | GResample _ _ new => 1 <= new
  | _ => False
  end.

(* steps allowed between two outputs *)
Definition sbound (g : stage) : nat :=
  match g with
  | GMealy | GPad _ _ | GCycle | GZcross _ | GOla _ _ _ => 1
  | GZip order => List.length order
  | GSkip n => S n
  | GPar n => S n
  | GBlocks size hop => size + hop
  | GBatched n => n
  | GResample order old new => rs_bound (rs_n0 order) (rs_stp old) (rs_one new)
  | GAttack _ => 2
  | _ => 0
  end.

Lemma rs_idx0_range order new : 1 <= new ->
  (rs_thr order new - rs_one new < rs_idx0 order new <= rs_thr order new)%Z.
Proof.
  intro H. unfold rs_thr, rs_one, rs_idx0, rs_int.
  pose proof (Nat.div_mod (order + 1) 2 ltac:(lia)) as Hd.
  pose proof (Nat.mod_upper_bound (order + 1) 2 ltac:(lia)) as Hm.
  assert (Hz : (Z.of_nat order + 1 = 2 * Z.of_nat ((order + 1) / 2) + Z.of_nat ((order + 1) mod 2))%Z) by lia.
  nia.
Qed.

Lemma one_src_true c n : c 0 = true -> one_src c n = n.
Proof. intro H. unfold one_src. rewrite H. reflexivity. Qed.

Lemma smach_live g c : c 0 = true -> stage_live g -> live c (sneedc g c) (smach g) (sbound g).
Proof.
  intros C0. destruct g; intro Hok; cbn [sneedc smach sbound]; cbn [stage_live] in Hok; try contradiction;
    rewrite ?(one_src_true c _ C0).
  - apply mealy_live; exact C0.
  - apply live_omap. apply mzip_live.
  - apply mskip_live; exact C0.
  - apply mpad_live; exact C0.
  - apply live_omap. apply mblocks_live; try lia; exact C0.
  - apply mparallel_live; exact C0.
  - apply mola_live; try lia; exact C0.
  - apply mresample_live; try exact C0; try (unfold rs_one, rs_stp; lia). apply rs_idx0_range. exact Hok.
  - apply mcycle_live; exact C0.
  - apply mzcross_live; exact C0.
  - apply live_omap. apply mbatched_live; try lia; exact C0.
  - apply mattack_live; exact C0.
Qed.

Lemma need_tee_zero n sched : need_tee n sched 0 = 0.
Proof. unfold need_tee. cbn [firstn]. induction (seq 0 n) as [|a l IH]; [reflexivity|]. cbn. exact IH. Qed.

Lemma sneedc_zero g c : sneedc g c 0 = 0.
Proof.
  destruct g; cbn [sneedc]; unfold one_src, need_chainc;
    repeat (match goal with |- context [if ?b then _ else _] => destruct b end);
    try reflexivity; try apply need_tee_zero; unfold need_limit, need_resample_tv; try lia;
    repeat (match goal with |- context [if ?b then _ else _] => destruct b end); reflexivity.
Qed.

Fixpoint pbound (b : nat) (rest : list stage) : nat :=
  match rest with
  | [] => b
  | g :: rest' => pbound (sbound g * (b + 2)) rest'
  end.

Lemma fold_live c : forall rest (m : machine nat nat) (n : nat -> nat) b,
  live c n m b -> n 0 = 0 -> Forall stage_live rest ->
  live c (fun k => n (fold_right (fun g k' => sneedc g every k') k rest))
       (fold_left (fun m g => comp (smach g) m) rest m) (pbound b rest).
Proof.
  induction rest as [|g rest IH]; intros m n b Hs H0 Hok.
  - cbn. exact Hs.
  - inversion Hok as [|g' r' Hg Hr]; subst. cbn [fold_left fold_right pbound].
    specialize (IH (comp (smach g) m) (need_comp n (sneedc g every)) (sbound g * (b + 2))).
    apply IH.
    + apply live_comp; [exact H0|exact Hs|apply smach_live; [reflexivity|exact Hg]].
    + unfold need_comp. rewrite sneedc_zero. exact H0.
    + exact Hr.
Qed.

Theorem pmach_live first rest c : c 0 = true -> stage_live first -> Forall stage_live rest ->
  live c (pneedc first rest c) (pmach first rest) (pbound (sbound first) rest).
Proof.
  intros C0 Hf Hr. unfold pneedc, pmach.
  apply (fold_live c rest (smach first) (sneedc first c) (sbound first));
    [apply smach_live; assumption|apply sneedc_zero|exact Hr].
Qed.

(* ---------------------------------------------------------------- construction *)
Lemma ctake_ok src d : forall n p,
  forallb (fun e => match e with ER i | EE i => Nat.eqb i src | _ => true end) (ctake src n d p) = true /\
  List.length (filter (fun e => match e with ER _ => true | _ => false end) (ctake src n d p)) <= n.
Proof.
  induction n as [|n IH]; intro p; [split; [reflexivity|cbn; lia]|].
  cbn [ctake]. destruct (src_resp d p).
  - destruct (IH (S p)) as [A B]. cbn. rewrite Nat.eqb_refl, A. split; [reflexivity|lia].
  - cbn. rewrite Nat.eqb_refl. split; [reflexivity|lia].
  - cbn. rewrite Nat.eqb_refl. split; [reflexivity|lia].
Qed.

(* every construction of the model except the eager combinatoric wrappers satisfies the checker: nothing is
   touched, or exactly the documented prefix of the parameter source *)
Theorem model_ctor_ok ck ds : ck <> CEager -> ctor_ok ck (ctrace ck ds) = true.
Proof.
  destruct ck as [| |src n|e]; intro H; try reflexivity; [contradiction|].
  cbn [ctor_ok ctrace]. destruct (ctake_ok src (nth src ds (SFin 0)) n 0) as [A B].
  rewrite A. apply Nat.leb_le. exact B.
Qed.
