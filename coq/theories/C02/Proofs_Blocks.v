(* C02 - blocks, batched, overlap-add: read bounds and exact needs. *)
From Coq Require Import List Bool Arith ZArith Lia String.
From AL Require Import C08.Model C02.Machine C02.Spec C02.MachineLemmas.
Import ListNotations.
Local Open Scope nat_scope.

Section BlocksP.
Context {A : Type} (size hop : nat) (pad : A) (c : nat -> bool).
Hypothesis Hsize : 1 <= size.
Hypothesis Hhop : 1 <= hop.

Lemma mblocks_safe : safe c (need_blocks size hop) (mblocks size hop pad).
Proof.
  exists (fun s r y =>
    match s with
    | BGo _ idx => (Z.of_nat r <= Z.of_nat (y * hop) + idx /\ idx <= Z.of_nat size - 1)%Z
    | BOut _ idx => r <= y * hop + size /\ idx = (Z.of_nat size - Z.of_nat hop)%Z
    | BLast _ => r <= y * hop + size
    | BFin => r <= y * hop + size
    end).
  split; [cbn [init mblocks]; lia|].
  intros s r y HI. unfold safe_step, need_blocks, bump. destruct s as [res idx|res idx|res|]; cbn [step mblocks].
  - destruct HI as [H1 H2]. split; [|split].
    + destruct (c 0); lia.
    + intros el.
      destruct (negb (hop <=? size) && (idx <? 0)%Z) eqn:Sk.
      * apply andb_true_iff in Sk. destruct Sk as [_ Sk]. apply Z.ltb_lt in Sk. destruct (c 0); lia.
      * destruct (idx =? Z.of_nat size - 1)%Z eqn:E.
        -- apply Z.eqb_eq in E. split; [destruct (c 0); lia|reflexivity].
        -- apply Z.eqb_neq in E. destruct (c 0); lia.
    + destruct (Z.max (Z.of_nat size - Z.of_nat hop) 0 <? idx)%Z; lia.
  - destruct HI as [H1 H2]. subst idx. split; [exact H1|]. split; lia.
  - split; [exact HI|]. lia.
  - exact HI.
Qed.

Lemma mblocks_live : c 0 = true -> live c (need_blocks size hop) (mblocks size hop pad) (size + hop).
Proof.
  intro C0.
  exists (fun s r y b =>
    match s with
    | BGo _ idx => (Z.of_nat r = Z.of_nat (y * hop) + idx /\ idx <= Z.of_nat size - 1 /\
                    Z.of_nat size - idx <= Z.of_nat b /\ Z.of_nat size - Z.of_nat hop <= idx \/
                    Z.of_nat r = Z.of_nat (y * hop) + idx /\ idx <= Z.of_nat size - 1 /\
                    Z.of_nat size - idx <= Z.of_nat b /\ y = 0%nat /\ 0 <= idx)%Z
    | BOut _ idx => r = y * hop + size /\ idx = (Z.of_nat size - Z.of_nat hop)%Z
    | BLast _ => False
    | BFin => False
    end).
  split; [cbn [init mblocks]; right; lia|].
  intros s r y b HP. unfold live_step, need_blocks, bump.
  destruct s as [res idx|res idx|res|]; cbn [step mblocks]; try contradiction; rewrite ?C0.
  - assert (HB : (Z.of_nat r = Z.of_nat (y * hop) + idx /\ idx <= Z.of_nat size - 1 /\
                  Z.of_nat size - idx <= Z.of_nat b)%Z) by (destruct HP as [HP|HP]; lia).
    destruct b as [|b']; [lia|]. exists b'. split; [reflexivity|]. intros el.
    destruct (negb (hop <=? size) && (idx <? 0)%Z) eqn:Sk.
    + apply andb_true_iff in Sk. destruct Sk as [_ Sk]. apply Z.ltb_lt in Sk.
      destruct HP as [HP|HP]; [left; lia|lia].
    + destruct (idx =? Z.of_nat size - 1)%Z eqn:E.
      * apply Z.eqb_eq in E. split; [lia|reflexivity].
      * apply Z.eqb_neq in E. destruct HP as [HP|HP]; [left; lia|right; lia].
  - destruct HP as [H1 H2]. subst idx. split; [exact H1|]. left. lia.
Qed.
End BlocksP.

Section BatchedP.
Context {A : Type} (n : nat) (c : nat -> bool).
Hypothesis Hn : 1 <= n.

Lemma mbatched_safe : safe c (need_blocks n n) (@mbatched A n).
Proof.
  exists (fun s r y =>
    match s with
    | HGo j _ => r <= y * n + j /\ j < n
    | HOut _ => r <= y * n + n
    | HFin => r <= y * n + n
    end).
  split; [cbn [init mbatched]; lia|].
  intros s r y HI. unfold safe_step, need_blocks, bump. destruct s as [j acc|acc|]; cbn [step mbatched].
  - destruct HI as [H1 H2]. split; [|split].
    + destruct (c 0); lia.
    + intros v. destruct (S j =? n) eqn:E.
      * destruct (c 0); lia.
      * apply Nat.eqb_neq in E. destruct (c 0); lia.
    + destruct acc; lia.
  - split; [exact HI|]. lia.
  - exact HI.
Qed.

Lemma mbatched_live : c 0 = true -> live c (need_blocks n n) (@mbatched A n) n.
Proof.
  intro C0.
  exists (fun s r y b =>
    match s with
    | HGo j _ => r = y * n + j /\ j < n /\ n - j <= b
    | HOut _ => r = y * n + n
    | HFin => False
    end).
  split; [cbn [init mbatched]; lia|].
  intros s r y b HP. unfold live_step, need_blocks, bump.
  destruct s as [j acc|acc|]; cbn [step mbatched]; try contradiction; rewrite ?C0.
  - destruct HP as [H1 [H2 H3]]. destruct b as [|b']; [lia|]. exists b'. split; [reflexivity|].
    intros v. destruct (S j =? n) eqn:E.
    + apply Nat.eqb_eq in E. lia.
    + apply Nat.eqb_neq in E. lia.
  - split; [exact HP|]. lia.
Qed.
End BatchedP.

Section OlaP.
Context {A B : Type} (o : B) (size hop : nat) (auto : bool) (c : nat -> bool).
Hypothesis Hhop : 1 <= hop.

Lemma div_lower r y : r * hop <= y -> r <= y / hop.
Proof. intro H. apply Nat.div_le_lower_bound; lia. Qed.

Lemma mola_safe : safe c (need_ola hop) (@mola A B o size hop auto).
Proof.
  exists (fun s r y =>
    match s with
    | OGo _ => r * hop <= y
    | OOut j => r * hop <= y + j /\ j <= hop
    | OTail _ => r * hop <= y
    | OErr => True
    end).
  split; [cbn [init mola]; lia|].
  intros s r y HI. unfold safe_step, need_ola, bump. destruct s as [first|[|j]|[|j]|]; cbn [step mola].
  - apply div_lower in HI as HD. split; [|split].
    + destruct (c 0); lia.
    + intros _. destruct (c 0); lia.
    + destruct (first && auto); [exact Logic.I|exact HI].
  - lia.
  - destruct HI as [H1 H2].
    assert (HD : r <= y / hop + 1).
    { destruct r as [|r']; [lia|]. assert (r' <= y / hop); [|lia]. apply div_lower. lia. }
    split; [exact HD|]. destruct j; lia.
  - apply div_lower in HI. lia.
  - apply div_lower in HI as HD. split; [lia|]. lia.
  - exact Logic.I.
Qed.

Lemma mola_live : c 0 = true -> live c (need_ola hop) (@mola A B o size hop auto) 1.
Proof.
  intro C0.
  exists (fun s r y b =>
    match s with
    | OGo _ => r * hop = y /\ 1 <= b
    | OOut j => r * hop = y + j /\ 1 <= j <= hop
    | OTail _ => False
    | OErr => False
    end).
  split; [cbn [init mola]; lia|].
  intros s r y b HP. unfold live_step, need_ola, bump.
  destruct s as [first|[|j]|j|]; cbn [step mola]; try contradiction; try lia; rewrite ?C0.
  - destruct b as [|b']; [lia|]. exists b'. split; [reflexivity|]. intros _. lia.
  - destruct HP as [H1 H2]. split.
    + destruct r as [|r']; [lia|].
      assert (y / hop = r'); [|lia]. symmetry. apply (Nat.div_unique y hop r' (hop - S j)); lia.
    + destruct j; lia.
Qed.
End OlaP.
