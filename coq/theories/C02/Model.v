(* C02 - the stage table: which generator machine models which AudioLazy stage constructor,
   the counting sources of the harness, and pipelines (chains of stages).  No proofs. *)
From Coq Require Import List Bool Arith ZArith String.
From AL Require Import C02.Machine.
Import ListNotations.
Local Open Scope nat_scope.

(* sources of the harness: endless counter, finite counter of length n, tripwire raising at item n *)
Inductive srcd := SInf | SFin (n : nat) | STrip (n : nat).
Definition src_resp (d : srcd) (p : nat) : resp nat :=
  match d with
  | SInf => Item p
  | SFin n => if p <? n then Item p else End
  | STrip n => if p <? n then Item p else Boom
  end.
Definition senv (ds : list srcd) : env nat :=
  Env (list nat) (fun pos i => let p := nth i pos 0 in (src_resp (nth i ds (SFin 0)) p, upd pos i (S p))).
Definition spos0 (ds : list srcd) : list nat := repeat 0 (List.length ds).

(* Stage descriptors.  The Python constructor of every descriptor is in harness/C02.py (STAGES). *)
Inductive stage :=
| GMealy                                   (* one read, one output: Stream ops / map / filters / analysis tools ... *)
| GZip (order : list nat)                  (* one read per listed source per output *)
| GFilter (m r : nat)                      (* keep x with x mod m = r *)
| GSkip (n : nat)
| GLimit (n : nat)
| GTakeWhile (n : nat)                     (* while x < n *)
| GChain (order : list nat)
| GPad (left right : nat)
| GBlocks (size hop : nat)
| GTee (n : nat) (sched : list nat)
| GPar (n : nat)
| GOla (size hop : nat) (auto : bool)
| GResample (order old new : nat)
| GCycle
| GZcross (h : nat)                        (* zcross with hysteresis h on the counting source (first_sign = 0) *)
| GBatched (n : nat)
| GResampleTV (order old new : nat)        (* resample with old/new given as a Stream (source 1) *)
| GAttack (n : nat)                        (* attack(a, d, sustain stream), n = len_a + len_d *)
| GRefuse (e : string).                    (* a call that raises e instead of building a stage *)

(* AudioLazy's rint(.5*(order+1)) (half away from zero) and int(.5*(order+1)) *)
Definition rs_n0 (order : nat) : nat := (order + 2) / 2.
Definition rs_int (order : nat) : nat := (order + 1) / 2.
Definition rs_idx0 (order new : nat) : Z := (2 * Z.of_nat new * Z.of_nat (rs_int order))%Z.
Definition rs_thr (order new : nat) : Z := (Z.of_nat new * (Z.of_nat order + 1))%Z.
Definition rs_stp (old : nat) : Z := (2 * Z.of_nat old)%Z.
Definition rs_one (new : nat) : Z := (2 * Z.of_nat new)%Z.

Definition smach (g : stage) : machine nat nat :=
  match g with
  | GMealy => mealy (fun (s : unit) x => (s, x)) tt
  | GZip order => omap (fun _ => 0) (mzip order)
  | GFilter m r => mfilter (fun x => Nat.eqb (x mod m) r)
  | GSkip n => mskip n
  | GLimit n => mlimit n
  | GTakeWhile n => mtakewhile (fun x => x <? n)
  | GChain order => mchain order
  | GPad l r => mpad 0 l r
  | GBlocks size hop => omap (fun _ => 0) (mblocks size hop 0)
  | GTee n sched => mtee n sched
  | GPar n => mparallel n
  | GOla size hop auto => mola 0 size hop auto
  | GResample order old new =>
      mresample 0 (rs_n0 order) (rs_idx0 order new) (rs_thr order new) (rs_stp old) (rs_one new)
  | GCycle => mcycle
  | GZcross h => mzcross (fun x => h <? x)
  | GBatched n => omap (fun _ => 0) (mbatched n)
  | GAttack n => mattack 0 n
  | GRefuse e => mraise e
  | GResampleTV order old new =>
      mresample_tv 0 (rs_n0 order) (rs_idx0 order new) (rs_thr order new) (rs_stp old) (rs_one new)
  end.

(* a pipeline: the first stage reads the sources, every later stage reads the previous one *)
Definition pmach (first : stage) (rest : list stage) : machine nat nat :=
  fold_left (fun m g => comp (smach g) m) rest (smach first).

(* erased events: what the harness can see from outside *)
Inductive eev := ER (i : nat) | EE (i : nat) | EY | ES | EX (e : string) | EO.
Definition erase {O : Type} (e : ev O) : eev :=
  match e with EvRead i => ER i | EvEnd i => EE i | EvYield _ => EY | EvStop => ES | EvRaise x => EX x | EvOut => EO end.

Definition fuel0 : nat := 3000.
Definition ptrace (first : stage) (rest : list stage) (ds : list srcd) (k : nat) : list eev :=
  let m := pmach first rest in
  map erase (run m (senv ds) fuel0 k (init m) (spos0 ds)).

(* Construction.  Machines are built, never stepped, by their constructors, so construction reads nothing
   ([CLazy]).  Exceptions in the code base:
   [CEager]: the combinatoric itertools wrappers (product, permutations, combinations, ...) drain source 0;
   [CPrefix src n]: a documented bounded prefix of a PARAMETER source is taken when the stage is built
     (LinearFilter.__call__(seq, memory=iterable): takewhile over enumerate(memory) pulls lm + 1 items, or
     all of them and an end probe when there are fewer);
   [CRefuse e]: the call raises e (invalid arguments) - it must do so without touching any source. *)
Inductive ckind := CLazy | CEager | CPrefix (src n : nat) | CRefuse (e : string).

Fixpoint drain (fuel : nat) (d : srcd) (p : nat) : list eev :=
  match fuel with
  | 0 => [EO]
  | S f => match src_resp d p with
           | Item _ => ER 0 :: drain f d (S p)
           | End => [EE 0]
           | Boom => [ER 0; EX tripwire]
           end
  end.
Fixpoint ctake (src n : nat) (d : srcd) (p : nat) : list eev :=
  match n with
  | 0 => []
  | S n' => match src_resp d p with
            | Item _ => ER src :: ctake src n' d (S p)
            | End => [EE src]
            | Boom => [ER src; EX tripwire]
            end
  end.
Definition ctrace (ck : ckind) (ds : list srcd) : list eev :=
  match ck with
  | CLazy => []
  | CEager => drain 100 (nth 0 ds (SFin 0)) 0
  | CPrefix src n => ctake src n (nth src ds (SFin 0)) 0
  | CRefuse e => [EX e]
  end.
(* does the construction leave a stage to pull from? *)
Definition builds (ck : ckind) (ds : list srcd) : bool :=
  match ck with
  | CLazy => true
  | CPrefix src n => forallb (fun e => match e with EX _ => false | _ => true end) (ctrace ck ds)
  | _ => false
  end.
