(* C02 - generator machines: the operational semantics of a lazy processing stage.
   A machine is (state, init, step); [step] says what the generator does next:
   yield a value, read one item from source number [src] (the continuation gets
   [None] when that source is exhausted), do an internal step, stop, or raise.
   [run fuel k m e] is the demand-driven event trace of asking for k outputs:
   nothing happens before the first demand, and the machine is suspended right
   after its k-th yield.  Definitions only; lemmas are in MachineLemmas.v. *)
From Coq Require Import List Bool Arith ZArith String.
From AL Require Import C08.Model.
Import ListNotations.
Local Open Scope nat_scope.

Inductive act (I O S : Type) :=
| Yield (o : O) (s : S)
| Read (src : nat) (k : option I -> S)
| Tau (s : S)
| Stop
| Raise (e : string).
Arguments Yield {I O S} o s.
Arguments Read {I O S} src k.
Arguments Tau {I O S} s.
Arguments Stop {I O S}.
Arguments Raise {I O S} e.

Record machine (I O : Type) := Machine { st : Type; init : st; step : st -> act I O st }.
Arguments Machine {I O} st init step.
Arguments st {I O} m.
Arguments init {I O} m.
Arguments step {I O} m s.

(* What a source answers to one read: an item, end of data, or an exception. *)
Inductive resp (I : Type) := Item (x : I) | End | Boom.
Arguments Item {I} x.
Arguments End {I}.
Arguments Boom {I}.

(* An environment is any state machine answering reads on numbered sources. *)
Record env (I : Type) := Env { est : Type; enext : est -> nat -> resp I * est }.
Arguments Env {I} est enext.
Arguments est {I} e.
Arguments enext {I} e s i.

(* EvRead i: source i delivered an item (or raised: a tripwire source raises instead of delivering);
   EvEnd i: source i was asked and found exhausted *)
Inductive ev (O : Type) := EvRead (src : nat) | EvEnd (src : nat) | EvYield (o : O) | EvStop | EvRaise (e : string) | EvOut.
Arguments EvRead {O} src.
Arguments EvEnd {O} src.
Arguments EvYield {O} o.
Arguments EvStop {O}.
Arguments EvRaise {O} e.
Arguments EvOut {O}.

Definition tripwire : string := "Tripwire".

Section Run.
Context {I O : Type} (m : machine I O) (E : env I).

(* fuel counts machine steps; k counts the outputs still asked for.
   [EvOut] marks fuel exhaustion so that it can never pass for a real end. *)
Fixpoint run (fuel k : nat) (s : st m) (e : est E) : list (ev O) :=
  match k with
  | 0 => []
  | S k' =>
    match fuel with
    | 0 => [EvOut]
    | S f =>
      match step m s with
      | Yield o s' => EvYield o :: run f k' s' e
      | Tau s' => run f k s' e
      | Read i kont =>
          match enext E e i with
          | (Item x, e') => EvRead i :: run f k (kont (Some x)) e'
          | (End, e') => EvEnd i :: run f k (kont None) e'
          | (Boom, _) => [EvRead i; EvRaise tripwire]
          end
      | Stop => [EvStop]
      | Raise err => [EvRaise err]
      end
    end
  end.
End Run.

Section Traces.
Context {O : Type}.
Definition is_read (i : nat) (e : ev O) : bool := match e with EvRead j => Nat.eqb j i | _ => false end.
Definition is_yield (e : ev O) : bool := match e with EvYield _ => true | _ => false end.
Definition reads (i : nat) (t : list (ev O)) : nat := List.length (filter (is_read i) t).
Definition nyields (t : list (ev O)) : nat := List.length (filter is_yield t).
Definition yields (t : list (ev O)) : list O :=
  flat_map (fun e => match e with EvYield o => [o] | _ => [] end) t.
Definition clean (t : list (ev O)) : bool :=
  forallb (fun e => match e with EvRead _ | EvYield _ => true | _ => false end) t.
Definition ends (i : nat) (t : list (ev O)) : nat :=
  List.length (filter (fun e => match e with EvEnd j => Nat.eqb j i | _ => false end) t).
End Traces.

(* ------------------------------------------------------------------ families *)

Section Families.
Context {A : Type}.

(* Mealy machine: "for x in seq: ...; yield f(state, x)" *)
Section Mealy.
Context {B Sg : Type} (delta : Sg -> A -> Sg * B).
Inductive mealy_st := MIdle (s : Sg) | MOut (s : Sg) (o : B) | MFin.
Definition mealy (s0 : Sg) : machine A B :=
  Machine mealy_st (MIdle s0) (fun s =>
    match s with
    | MIdle g => Read 0 (fun x => match x with
                                  | Some i => let '(g', o) := delta g i in MOut g' o
                                  | None => MFin end)
    | MOut g o => Yield o (MIdle g)
    | MFin => Stop
    end).
End Mealy.

(* map(op, a, b, ...) / zip / the generated filter loop with coefficient streams:
   one read on each source of [order], in that order; the first exhausted source ends it *)
Inductive zip_st := ZGo (todo : list nat) (acc : list A) | ZFin.
Definition mzip (order : list nat) : machine A (list A) :=
  Machine zip_st (ZGo order []) (fun s =>
    match s with
    | ZGo [] acc => Yield (rev acc) (ZGo order [])
    | ZGo (i :: r) acc => Read i (fun x => match x with Some v => ZGo r (v :: acc) | None => ZFin end)
    | ZFin => Stop
    end).

(* filter(pred, seq) *)
Inductive filter_st := FGo | FOut (x : A) | FFin.
Definition mfilter (p : A -> bool) : machine A A :=
  Machine filter_st FGo (fun s =>
    match s with
    | FGo => Read 0 (fun x => match x with
                              | Some v => if p v then FOut v else FGo
                              | None => FFin end)
    | FOut v => Yield v FGo
    | FFin => Stop
    end).

(* Stream.skip(n): n times next(data) (return at end of data), then pass through *)
Inductive skip_st := KSkip (j : nat) | KOut (x : A) | KFin.
Definition mskip (n : nat) : machine A A :=
  Machine skip_st (KSkip n) (fun s =>
    match s with
    | KSkip (S j) => Read 0 (fun x => match x with Some _ => KSkip j | None => KFin end)
    | KSkip 0 => Read 0 (fun x => match x with Some v => KOut v | None => KFin end)
    | KOut v => Yield v (KSkip 0)
    | KFin => Stop
    end).

(* itertools.islice(data, n) = Stream.limit(n): no read once n items went through *)
Inductive limit_st := LGo (j : nat) | LOut (x : A) (j : nat) | LFin.
Definition mlimit (n : nat) : machine A A :=
  Machine limit_st (LGo n) (fun s =>
    match s with
    | LGo 0 => Stop
    | LGo (S j) => Read 0 (fun x => match x with Some v => LOut v j | None => LFin end)
    | LOut v j => Yield v (LGo j)
    | LFin => Stop
    end).

(* itertools.takewhile(pred, seq) *)
Inductive tw_st := TGo | TOut (x : A) | TFin.
Definition mtakewhile (p : A -> bool) : machine A A :=
  Machine tw_st TGo (fun s =>
    match s with
    | TGo => Read 0 (fun x => match x with
                              | Some v => if p v then TOut v else TFin
                              | None => TFin end)
    | TOut v => Yield v TGo
    | TFin => Stop
    end).

(* itertools.chain(a, b, ...): the next source is read in the same demand that finds one exhausted *)
Inductive chain_st := CGo (todo : list nat) | COut (x : A) (todo : list nat).
Definition mchain (order : list nat) : machine A A :=
  Machine chain_st (CGo order) (fun s =>
    match s with
    | CGo [] => Stop
    | CGo (i :: r) => Read i (fun x => match x with Some v => COut v (i :: r) | None => CGo r end)
    | COut v todo => Yield v (CGo todo)
    end).

(* zero_pad(seq, left, right) (also: a Streamix event starting after [left] samples) *)
Inductive pad_st := PLeft (j : nat) | PMid | POut (x : A) | PRight (j : nat).
Definition mpad (pad : A) (left right : nat) : machine A A :=
  Machine pad_st (PLeft left) (fun s =>
    match s with
    | PLeft (S j) => Yield pad (PLeft j)
    | PLeft 0 => Read 0 (fun x => match x with Some v => POut v | None => PRight right end)
    | PMid => Read 0 (fun x => match x with Some v => POut v | None => PRight right end)
    | POut v => Yield v PMid
    | PRight (S j) => Yield pad (PRight j)
    | PRight 0 => Stop
    end).

(* blocks(seq, size, hop, padval): the generator of lazy_misc.blocks, statement by statement
   (deque of C08.Model; idx may be negative when hop > size) *)
Inductive blocks_st := BGo (res : list A) (idx : Z) | BOut (res : list A) (idx : Z) | BLast (res : list A) | BFin.
Definition mblocks (size hop : nat) (pad : A) : machine A (list A) :=
  let skipmode := negb (hop <=? size)%nat in
  let zs := Z.of_nat size in let zh := Z.of_nat hop in
  Machine blocks_st (BGo [] 0%Z) (fun s =>
    match s with
    | BGo res idx =>
        Read 0 (fun x =>
          match x with
          | Some el =>
              if skipmode && (idx <? 0)%Z then BGo res (idx + 1)%Z
              else let res' := dq_push size res el in
                   if (idx =? zs - 1)%Z then BOut res' (zs - zh)%Z else BGo res' (idx + 1)%Z
          | None =>
              if (Z.max (zs - zh) 0 <? idx)%Z
              then BLast (push_pads size res pad (Z.to_nat (zs - idx)))   (* padded tail, then the generator ends *)
              else BFin
          end)
    | BOut res idx => Yield res (BGo res idx)
    | BLast res => Yield res BFin
    | BFin => Stop
    end).

(* itertools.tee(seq, n), the copies pulled in the order [sched]: a copy reads the
   source only when it is at the end of the shared buffer *)
Record tee_st := TeeSt { t_buf : list A; t_pos : list nat; t_sched : list nat; t_out : option A }.
Definition upd (l : list nat) (c v : nat) : list nat :=
  firstn c l ++ v :: skipn (S c) l.
Definition mtee (n : nat) (sched : list nat) : machine A A :=
  Machine (option tee_st) (Some (TeeSt [] (repeat 0 n) sched None)) (fun s =>
    match s with
    | None => Stop
    | Some (TeeSt buf pos sc (Some o)) => Yield o (Some (TeeSt buf pos sc None))
    | Some (TeeSt buf pos [] None) => Stop
    | Some (TeeSt buf pos (c :: sc) None) =>
        let p := nth c pos 0 in
        match nth_error buf p with
        | Some v => Tau (Some (TeeSt buf (upd pos c (S p)) sc (Some v)))
        | None => Read 0 (fun x => match x with
                                   | Some v => Some (TeeSt (buf ++ [v]) (upd pos c (S p)) sc (Some v))
                                   | None => None end)
        end
    end).

(* ParallelFilter of n branches over thub(seq, n): the first branch reads the source,
   the other n-1 take the item from the tee buffer, then the sum is yielded *)
Inductive par_st := QIdle | QBranch (j : nat) (x : A) | QFin.
Definition mparallel (n : nat) : machine A A :=
  Machine par_st QIdle (fun s =>
    match s with
    | QIdle => Read 0 (fun x => match x with Some v => QBranch (n - 1) v | None => QFin end)
    | QBranch (S j) v => Tau (QBranch j v)
    | QBranch 0 v => Yield v QIdle
    | QFin => Stop
    end).

(* overlap_add.list(blocks, size, hop), hop <= size: each block read gives hop samples,
   the end of the blocks gives the size - hop samples left in memory.
   [autosize]: size=None peeks the first block; an empty input then raises RuntimeError *)
Inductive ola_st := OGo (first : bool) | OOut (j : nat) | OTail (j : nat) | OErr.
Definition mola {B : Type} (o : B) (size hop : nat) (autosize : bool) : machine A B :=
  Machine ola_st (OGo true) (fun s =>
    match s with
    | OGo first => Read 0 (fun x => match x with
                                    | Some _ => OOut hop
                                    | None => if first && autosize then OErr else OTail (size - hop) end)
    | OOut 0 => Tau (OGo false)
    | OOut (S j) => Yield o (match j with 0 => OGo false | _ => OOut j end)
    | OTail (S j) => Yield o (OTail j)
    | OTail 0 => Stop
    | OErr => Raise "RuntimeError"
    end).

(* resample(sig, old, new, order): take n0 items, then per output: yield, idx += step,
   while idx > thr: read one item, idx -= one.  idx, thr, step, one are integers in units of
   1/(2*new): thr = new*(order+1), idx0 = 2*new*int(thr), step = 2*old, one = 2*new *)
Inductive rs_st := RTake (j : nat) | RGo (idx : Z) | RFin.
Definition mresample {B : Type} (o : B) (n0 : nat) (idx0 thr stp one : Z) : machine A B :=
  Machine rs_st (RTake n0) (fun s =>
    match s with
    | RTake (S j) => Read 0 (fun x => match x with Some _ => RTake j | None => RFin end)
    | RTake 0 => Tau (RGo idx0)
    | RGo idx => if (thr <? idx)%Z
                 then Read 0 (fun x => match x with Some _ => RGo (idx - one)%Z | None => RFin end)
                 else Yield o (RGo (idx + stp)%Z)
    | RFin => Stop
    end).

(* resample with a time-varying step (old or new given as a Stream): the step stream is source 1.
   Per output: yield, then next(step) (end of the step stream ends the output), then
   while idx > thr: read one input item.  The step VALUE is taken constant (stp); its read is modelled. *)
Inductive rtv_st := VTake (j : nat) | VGo (idx : Z) | VStep (idx : Z) | VFin.
Definition mresample_tv {B : Type} (o : B) (n0 : nat) (idx0 thr stp one : Z) : machine A B :=
  Machine rtv_st (VTake n0) (fun s =>
    match s with
    | VTake (S j) => Read 0 (fun x => match x with Some _ => VTake j | None => VFin end)
    | VTake 0 => Tau (VGo idx0)
    | VGo idx => if (thr <? idx)%Z
                 then Read 0 (fun x => match x with Some _ => VGo (idx - one)%Z | None => VFin end)
                 else Yield o (VStep idx)
    | VStep idx => Read 1 (fun x => match x with Some _ => VGo (idx + stp)%Z | None => VFin end)
    | VFin => Stop
    end).

(* attack(a, d, s) with a sustain Stream s: the first demand takes the first sustain value (the level the
   decay line ends on; an empty sustain leaks StopIteration: RuntimeError), then n = len_a + len_d samples
   need no read, then the rest of the sustain stream is passed through *)
Inductive att_st := AInit | ALine (j : nat) | AOut (x : A) | AFin | AErr.
Definition mattack (o : A) (n : nat) : machine A A :=
  Machine att_st AInit (fun s =>
    match s with
    | AInit => Read 0 (fun x => match x with Some _ => ALine n | None => AErr end)
    | ALine (S j) => Yield o (ALine j)
    | ALine 0 => Read 0 (fun x => match x with Some v => AOut v | None => AFin end)
    | AOut v => Yield v (ALine 0)
    | AFin => Stop
    | AErr => Raise "RuntimeError"
    end).

(* a construction that is refused: the call raises before any machine exists *)
Definition mraise {B : Type} (e : string) : machine A B := Machine unit tt (fun _ => Raise e).

(* zcross(seq, hysteresis, first_sign=0): the first loop yields 0 until an item outside the
   hysteresis region fixes the sign, then the second loop takes over the same iterator; when the
   input ends inside the first loop, the second loop asks the exhausted iterator once more *)
Inductive zc_st := XA | XAOut (x : A) | XB | XBOut (x : A) | XFin.
Definition mzcross (sgn : A -> bool) : machine A A :=
  Machine zc_st XA (fun s =>
    match s with
    | XA => Read 0 (fun x => match x with Some v => XAOut v | None => XB end)
    | XAOut v => Yield v (if sgn v then XB else XA)
    | XB => Read 0 (fun x => match x with Some v => XBOut v | None => XFin end)
    | XBOut v => Yield v XB
    | XFin => Stop
    end).

(* itertools.batched(seq, n) (CPython 3.12): n reads per batch; the end of the input gives the
   partial batch if there is one; the iterator is not marked finished then, so the demand after a
   partial batch asks the exhausted input again *)
Inductive bat_st := HGo (j : nat) (acc : list A) | HOut (acc : list A) | HFin.
Definition mbatched (n : nat) : machine A (list A) :=
  Machine bat_st (HGo 0 []) (fun s =>
    match s with
    | HGo j acc => Read 0 (fun x => match x with
                                    | Some v => if S j =? n then HOut (rev (v :: acc)) else HGo (S j) (v :: acc)
                                    | None => match acc with [] => HFin | _ => HOut (rev acc) end
                                    end)
    | HOut acc => Yield acc (HGo 0 [])
    | HFin => Stop
    end).

(* itertools.cycle(seq): pass through while saving, then replay for ever without reading *)
Inductive cycle_st := YGo (saved : list A) | YOut (x : A) (saved : list A) | YRep (cur saved : list A).
Definition mcycle : machine A A :=
  Machine cycle_st (YGo []) (fun s =>
    match s with
    | YGo saved => Read 0 (fun x => match x with Some v => YOut v (saved ++ [v]) | None => YRep saved saved end)
    | YOut v saved => Yield v (YGo saved)
    | YRep (v :: r) saved => Yield v (YRep r saved)
    | YRep [] [] => Stop
    | YRep [] saved => Tau (YRep saved saved)
    end).

End Families.

(* output relabelling (no effect on reads) *)
Definition omap {I O O' : Type} (f : O -> O') (m : machine I O) : machine I O' :=
  Machine (st m) (init m) (fun s =>
    match step m s with
    | Yield o s' => Yield (f o) s'
    | Read i k => Read i k
    | Tau s' => Tau s'
    | Stop => Stop
    | Raise e => Raise e
    end).

(* sequential composition  m2 o m1 : every read of m2 is a demand on m1; a finished m1
   (generator exhausted) answers further demands with "end" without running again *)
Section Comp.
Context {I M O : Type} (m2 : machine M O) (m1 : machine I M).
Inductive comp_st :=
| CRun (s2 : st m2) (s1 : option (st m1))        (* m2 runs; s1 = None once m1 has finished *)
| CWait (k : option M -> st m2) (s1 : st m1).   (* m2 waits for m1's next output *)
Definition comp : machine I O :=
  Machine comp_st (CRun (init m2) (Some (init m1))) (fun s =>
    match s with
    | CRun s2 o1 =>
        match step m2 s2 with
        | Yield o s2' => Yield o (CRun s2' o1)
        | Read _ k => match o1 with
                      | Some s1 => Tau (CWait k s1)
                      | None => Tau (CRun (k None) None)
                      end
        | Tau s2' => Tau (CRun s2' o1)
        | Stop => Stop
        | Raise e => Raise e
        end
    | CWait k s1 =>
        match step m1 s1 with
        | Yield o s1' => Tau (CRun (k (Some o)) (Some s1'))
        | Read i k1 => Read i (fun x => CWait k (k1 x))
        | Tau s1' => Tau (CWait k s1')
        | Stop => Tau (CRun (k None) None)
        | Raise e => Raise e
        end
    end).
End Comp.
