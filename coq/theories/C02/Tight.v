(* C02 - exact read counts with a horizon.
   [tight c need ok m]: as long as the sources deliver items, the j-th output (for every j with ok j) is yielded
   after exactly [need j] counted items, and the machine does not stop by itself before an output inside the
   horizon.  Stages that end by themselves (limit, a tee pulled along a finite schedule) have a finite horizon;
   stages whose end depends on the data (takewhile, filter, chain of sources) have the empty horizon - for them
   only the bounds of [safe] / [gsafe] are claimed.  Composes along [comp]. *)
From Coq Require Import List Bool Arith Lia String.
From AL Require Import C02.Machine C02.Spec C02.MachineLemmas.
Import ListNotations.
Local Open Scope nat_scope.

Section Tight.
Context {I O : Type} (c : nat -> bool) (need : nat -> nat) (ok : nat -> bool) (m : machine I O).

Definition tight_step (T : st m -> nat -> nat -> Prop) (s : st m) (r y : nat) : Prop :=
  match step m s with
  | Yield o s' => (ok (S y) = true -> r = need (S y)) /\ T s' r (S y)
  | Read j k => forall x, T (k (Some x)) (bump c j r) y
  | Tau s' => T s' r y
  | Stop => ok (S y) = false
  | Raise _ => True
  end.

Definition tight : Prop :=
  exists T : st m -> nat -> nat -> Prop, T (init m) 0 0 /\ forall s r y, T s r y -> tight_step T s r y.

(* the claim on runs: up to the first read that finds a source exhausted (or raising) *)
Fixpoint run_exact (E : env I) (fuel k : nat) (s : st m) (e : est E) (r y : nat) : Prop :=
  match k with
  | 0 => True
  | S k' =>
    match fuel with
    | 0 => True
    | S f =>
      match step m s with
      | Yield o s' => (ok (S y) = true -> r = need (S y)) /\ run_exact E f k' s' e r (S y)
      | Tau s' => run_exact E f k s' e r y
      | Read i kont =>
          match enext E e i with
          | (Item x, e') => run_exact E f k (kont (Some x)) e' (bump c i r) y
          | _ => True
          end
      | Stop => ok (S y) = false
      | Raise _ => True
      end
    end
  end.

Theorem tight_run : tight -> forall (E : env I) fuel k e, run_exact E fuel k (init m) e 0 0.
Proof.
  intros [T [H0 Hs]] E fuel.
  assert (G : forall fuel k s e r y, T s r y -> run_exact E fuel k s e r y).
  { clear fuel. induction fuel as [|f IH]; intros k s e r y HT; destruct k as [|k']; try exact Logic.I.
    cbn [run_exact]. specialize (Hs _ _ _ HT). unfold tight_step in Hs.
    destruct (step m s) as [o s'|j kont|s'| |err]; try exact Logic.I.
    - destruct Hs as [A B]. split; [exact A|apply IH; exact B].
    - destruct (enext E e j) as [[x| |] e']; try exact Logic.I. apply IH. apply Hs.
    - apply IH. exact Hs.
    - exact Hs. }
  intros k e. apply G. exact H0.
Qed.

(* no claim at all: every machine is tight with the empty horizon *)
Lemma tight_vacuous : (forall k, ok k = false) -> tight.
Proof.
  intro H. exists (fun _ _ _ => True). split; [exact Logic.I|].
  intros s r y _. unfold tight_step. destruct (step m s); try exact Logic.I.
  - split; [rewrite H; discriminate|exact Logic.I].
  - intros _. exact Logic.I.
  - apply H.
Qed.
End Tight.

(* a live machine is tight with the unbounded horizon *)
Lemma live_tight {I O} c need (m : machine I O) B : live c need m B -> tight c need (fun _ => true) m.
Proof.
  intros [P [H0 Hs]]. exists (fun s r y => exists n, P s r y n). split; [exists B; exact H0|].
  intros s r y [n HP]. specialize (Hs _ _ _ _ HP). unfold live_step in Hs. unfold tight_step.
  destruct (step m s) as [o s'|j k|s'| |err]; try contradiction.
  - destruct Hs as [A Bq]. split; [intros _; exact A|exists B; exact Bq].
  - destruct Hs as [n' [_ Hx]]. intro x. exists n'. apply Hx.
  - destruct Hs as [n' [_ Hx]]. exists n'. exact Hx.
Qed.

Lemma tight_omap {I O O'} (f : O -> O') c need ok (m : machine I O) : tight c need ok m -> tight c need ok (omap f m).
Proof.
  intros [T [H0 Hs]]. exists T. split; [exact H0|].
  intros s r y HT. specialize (Hs s r y HT). unfold tight_step in *. cbn [step omap].
  destruct (step m s); assumption.
Qed.

(* ------------------------------------------------------------------ composition *)
Section TightComp.
Context {I M O : Type} (m2 : machine M O) (m1 : machine I M).
Variable (c : nat -> bool) (n1 n2 : nat -> nat) (ok1 ok2 : nat -> bool).

Definition ok_comp (k : nat) : bool := ok2 k && ok1 (n2 k).

Theorem tight_comp :
  n1 0 = 0 -> mono n2 -> (forall a b, a <= b -> ok1 b = true -> ok1 a = true) ->
  tight c n1 ok1 m1 -> tight every n2 ok2 m2 -> safe every n2 m2 ->
  tight c (need_comp n1 n2) ok_comp (comp m2 m1).
Proof.
  intros N0 M2 Hdown [T1 [H10 H1s]] [T2 [H20 H2s]] [I2 [J20 J2s]].
  (* dead: the upstream stage left its horizon at demand S r2', which every later output needs *)
  set (dead := fun y : nat => exists r2', ok1 (S r2') = false /\ S r2' <= n2 (S y)).
  assert (Hdead_mono : forall y, dead y -> dead (S y)).
  { intros y [r2' [A B]]. exists r2'. split; [exact A|]. etransitivity; [exact B|]. apply M2. lia. }
  assert (Hdead_ok : forall y, dead y -> ok_comp (S y) = false).
  { intros y [r2' [A B]]. unfold ok_comp. destruct (ok2 (S y)); [|reflexivity]. cbn.
    destruct (ok1 (n2 (S y))) eqn:E; [|reflexivity]. rewrite (Hdown _ _ B E) in A. discriminate. }
  exists (fun s r y =>
    dead y \/
    match s with
    | CRun _ _ s2 (Some s1) => exists r2, T2 s2 r2 y /\ I2 s2 r2 y /\ T1 s1 r r2 /\ r = n1 r2
    | CRun _ _ s2 None => False
    | CWait _ _ k s1 => exists r2, (forall x, T2 (k (Some x)) (S r2) y) /\ (forall x, I2 (k (Some x)) (S r2) y) /\
                                   S r2 <= n2 (S y) /\ T1 s1 r r2
    end).
  split.
  - right. cbn. exists 0. repeat split; try assumption. congruence.
  - intros s r y [HD|HL].
    + (* dead: nothing is claimed any more *)
      unfold tight_step. destruct (step (comp m2 m1) s) as [o s'|j k|s'| |err]; try exact Logic.I.
      * split; [intro E; rewrite (Hdead_ok y HD) in E; discriminate|left; apply Hdead_mono; exact HD].
      * intros x. left. exact HD.
      * left. exact HD.
      * apply Hdead_ok. exact HD.
    + unfold tight_step, need_comp. destruct s as [s2 [s1|]|k s1]; cbn [step comp]; try contradiction.
      * destruct HL as [r2 [HT2 [HI2 [HT1 Hr]]]].
        specialize (H2s _ _ _ HT2). specialize (J2s _ _ _ HI2). unfold tight_step in H2s. unfold safe_step in J2s.
        destruct (step m2 s2) as [o s2'|j kont|s2'| |err]; try exact Logic.I.
        -- destruct H2s as [A B]. destruct J2s as [_ Bj]. split.
           ++ intro E. unfold ok_comp in E. apply andb_true_iff in E. destruct E as [E _]. rewrite <- (A E). exact Hr.
           ++ right. exists r2. repeat split; assumption.
        -- destruct J2s as [Hb [HS HN]]. unfold bump, every in *. right. exists r2. repeat split; try assumption.
        -- right. exists r2. repeat split; assumption.
        -- unfold ok_comp. rewrite H2s. reflexivity.
      * destruct HL as [r2 [HT2 [HI2 [Hle HT1]]]].
        specialize (H1s _ _ _ HT1). unfold tight_step in H1s.
        destruct (step m1 s1) as [o s1'|j kont|s1'| |err]; try exact Logic.I.
        -- destruct H1s as [A B]. destruct (ok1 (S r2)) eqn:E.
           ++ right. exists (S r2). repeat split; try assumption.
              ** apply HT2.
              ** apply HI2.
              ** apply A. reflexivity.
           ++ left. exists r2. split; assumption.
        -- intro x. right. exists r2. repeat split; try assumption. apply H1s.
        -- right. exists r2. repeat split; assumption.
        -- left. exists r2. split; assumption.
Qed.
End TightComp.
