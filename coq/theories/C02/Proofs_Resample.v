(* C02 - resample: exact need and fuel bound on endless sources. *)
From Coq Require Import List Bool Arith ZArith Lia String.
From AL Require Import C02.Machine C02.Spec C02.MachineLemmas C02.Proofs_Data.
Import ListNotations.
Local Open Scope nat_scope.

Section ResampleL.
Context {A B : Type} (o : B) (n0 : nat) (idx0 thr stp one : Z) (c : nat -> bool).
Hypothesis Hone : (0 < one)%Z.
Hypothesis Hstp : (0 <= stp)%Z.
Hypothesis Hidx0 : (thr - one < idx0 <= thr)%Z.

Definition rs_bound : nat := n0 + Z.to_nat (stp / one) + 2.

Lemma rs_exact y e idx : (0 <= e)%Z -> idx = (idx0 + Z.of_nat y * stp - e * one)%Z ->
  (thr - one < idx <= thr)%Z -> rs_D idx0 thr stp one y = e.
Proof.
  intros He Hidx [H1 H2]. unfold rs_D.
  assert (((thr - idx0 - Z.of_nat y * stp) / one = - e)%Z); [|lia].
  symmetry. apply (Z.div_unique _ one (- e) (thr - idx))%Z; [left; lia|]. nia.
Qed.

Lemma stp_budget : (stp <= Z.of_nat (Z.to_nat (stp / one) + 1) * one)%Z.
Proof.
  pose proof (Z.div_pos stp one Hstp Hone) as Hq.
  pose proof (Z.mod_pos_bound stp one Hone) as Hm.
  pose proof (Z.div_mod stp one ltac:(lia)) as Hd.
  rewrite Nat2Z.inj_add, Z2Nat.id by exact Hq. nia.
Qed.

Lemma mresample_live : c 0 = true ->
  live c (need_resample n0 idx0 thr stp one) (@mresample A B o n0 idx0 thr stp one) rs_bound.
Proof.
  intro C0.
  exists (fun s r y b =>
    match s with
    | RTake j => y = 0 /\ r + j = n0 /\ j + 1 <= b
    | RGo idx => exists e : Z, (0 <= e)%Z /\ Z.of_nat r = (Z.of_nat n0 + e)%Z /\
                               idx = (idx0 + Z.of_nat y * stp - e * one)%Z /\ (thr - one < idx)%Z /\
                               (idx - thr <= Z.of_nat b * one)%Z
    | RFin => False
    end).
  split; [cbn [init mresample]; unfold rs_bound; lia|].
  intros s r y b HP. unfold live_step, bump.
  destruct s as [[|j]|idx|]; cbn [step mresample]; try contradiction; rewrite ?C0.
  - destruct HP as [Hy [Hr Hb]]. destruct b as [|b']; [lia|]. exists b'. split; [reflexivity|].
    exists 0%Z. subst y. repeat split; try lia.
  - destruct HP as [Hy [Hr Hb]]. destruct b as [|b']; [lia|]. exists b'. split; [reflexivity|]. intros _. lia.
  - destruct HP as [e [He [Hr [Hidx [Hlo Hbud]]]]].
    destruct (thr <? idx)%Z eqn:Cmp.
    + apply Z.ltb_lt in Cmp. destruct b as [|b']; [cbn in Hbud; lia|]. rewrite Nat2Z.inj_succ in Hbud. exists b'. split; [reflexivity|].
      intros _. rewrite C0. exists (e + 1)%Z. repeat split; try lia; nia.
    + apply Z.ltb_ge in Cmp. split.
      * rewrite rs_need_S. rewrite (rs_exact y e idx He Hidx) by lia. lia.
      * exists e. repeat split; try lia.
        pose proof stp_budget as HB. unfold rs_bound.
        assert ((Z.of_nat (Z.to_nat (stp / one) + 1) * one <= Z.of_nat (n0 + Z.to_nat (stp / one) + 2) * one)%Z) by nia.
        lia.
Qed.
End ResampleL.
