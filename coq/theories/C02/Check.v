(* C02 - boolean checkers for the generated case files.
   A case = pipeline, sources, number of demands, and the two observed event traces
   (during construction, during the k demands). *)
From Coq Require Import List Bool Arith ZArith String.
From AL Require Import Base.CaseLib C02.Machine C02.Spec C02.Model.
Import ListNotations.
Local Open Scope nat_scope.

Definition eev_eqb (a b : eev) : bool :=
  match a, b with
  | ER i, ER j => Nat.eqb i j
  | EE i, EE j => Nat.eqb i j
  | EY, EY => true
  | ES, ES => true
  | EX x, EX y => String.eqb x y
  | EO, EO => true
  | _, _ => false
  end.

Record lcase := LC { c_ck : ckind; c_first : stage; c_rest : list stage; c_srcs : list srcd;
                     c_k : nat; c_ctor : list eev; c_pull : list eev }.

Definition corr_lazy (c : lcase) : bool :=
  list_eqb eev_eqb (c_ctor c) (ctrace (c_ck c) (c_srcs c)) &&
  list_eqb eev_eqb (c_pull c)
    (if builds (c_ck c) (c_srcs c) then ptrace (c_first c) (c_rest c) (c_srcs c) (c_k c) else []).

(* need of a stage, counting the sources selected by c (as first stage of a pipeline);
   a later stage reads its single input: c = every *)
Definition sneedc (g : stage) (c : nat -> bool) : nat -> nat :=
  match g with
  | GMealy | GTakeWhile _ | GPar _ | GCycle | GZcross _ => one_src c need_id
  | GZip order => need_zipc c order
  | GFilter m r => one_src c (need_filter_mod m r)
  | GSkip n => one_src c (need_skip n)
  | GLimit n => one_src c (need_limit n)
  | GChain order => need_chainc c order
  | GPad l _ => one_src c (need_pad l)
  | GBlocks size hop => one_src c (need_blocks size hop)
  | GBatched n => one_src c (need_blocks n n)
  | GAttack n => one_src c (need_attack n)
  | GRefuse _ => fun _ => 0
  | GResampleTV order old new =>
      need_resample_tv c (rs_n0 order) (rs_idx0 order new) (rs_thr order new) (rs_stp old) (rs_one new)
  | GTee n sched => one_src c (need_tee n sched)
  | GOla _ hop _ => one_src c (need_ola hop)
  | GResample order old new =>
      one_src c (need_resample (rs_n0 order) (rs_idx0 order new) (rs_thr order new) (rs_stp old) (rs_one new))
  end.

Definition pneedc (first : stage) (rest : list stage) (c : nat -> bool) (k : nat) : nat :=
  sneedc first c (fold_right (fun g k' => sneedc g every k') k rest).
Definition pneed (first : stage) (rest : list stage) (i : nat) : nat -> nat := pneedc first rest (only i).

Fixpoint etr_ok (i : nat -> bool) (need : nat -> nat) (r y : nat) (t : list eev) : bool :=
  match t with
  | [] => true
  | ER j :: t' => (bump i j r <=? need (S y)) && etr_ok i need (bump i j r) y t'
  | EY :: t' => (r <=? need (S y)) && etr_ok i need r (S y) t'
  | ES :: t' => (r <=? need (S y)) && etr_ok i need r y t'
  | _ :: t' => etr_ok i need r y t'
  end.

Definition no_reads (t : list eev) : bool :=
  forallb (fun e => match e with ER _ | EE _ => false | _ => true end) t.

(* what construction may do: nothing - except a documented bounded prefix of a parameter source *)
Definition ctor_ok (ck : ckind) (t : list eev) : bool :=
  match ck with
  | CPrefix src n =>
      forallb (fun e => match e with ER i | EE i => Nat.eqb i src | _ => true end) t &&
      (List.length (filter (fun e => match e with ER _ => true | _ => false end) t) <=? n)
  | _ => no_reads t
  end.

(* the property on the implementation's observation: the sources are not touched at construction (beyond a
   documented parameter prefix), and every read within the stated need of the output being asked for, on every source *)
Definition holds_lazy (c : lcase) : bool :=
  ctor_ok (c_ck c) (c_ctor c) &&
  forallb (fun i => etr_ok (only i) (pneed (c_first c) (c_rest c) i) 0 0 (c_pull c))
          (seq 0 (List.length (c_srcs c))).
