(* C02 - boolean checkers for the generated case files.
   A case = pipeline, sources, number of demands, and the two observed event traces
   (during construction, during the k demands). *)
From Coq Require Import List Bool Arith ZArith String.
From AL Require Import Base.CaseLib C02.Machine C02.Spec C02.Model.
Import ListNotations.
Local Open Scope nat_scope.

Definition eev_eqb (a b : eev) : bool :=
  match a, b with
  | ER i, ER j => Nat.eqb i j
  | EY, EY => true
  | ES, ES => true
  | EX x, EX y => String.eqb x y
  | EO, EO => true
  | _, _ => false
  end.

Record lcase := LC { c_eager : bool; c_first : stage; c_rest : list stage; c_srcs : list srcd;
                     c_k : nat; c_ctor : list eev; c_pull : list eev }.

Definition corr_lazy (c : lcase) : bool :=
  list_eqb eev_eqb (c_ctor c) (ctrace (c_eager c) (c_srcs c)) &&
  list_eqb eev_eqb (c_pull c) (if c_eager c then [] else ptrace (c_first c) (c_rest c) (c_srcs c) (c_k c)).

(* need of a stage on source i when it is the first of the pipeline / on its input otherwise *)
Definition sneed (g : stage) (i : nat) : nat -> nat :=
  match g with
  | GMealy | GTakeWhile _ | GPar _ | GCycle => if Nat.eqb i 0 then need_id else fun _ => 0
  | GZip order => need_zip order i
  | GFilter m r => if Nat.eqb i 0 then need_filter_mod m r else fun _ => 0
  | GSkip n => if Nat.eqb i 0 then need_skip n else fun _ => 0
  | GLimit n => if Nat.eqb i 0 then need_limit n else fun _ => 0
  | GChain order => need_chain order i
  | GPad l _ => if Nat.eqb i 0 then need_pad l else fun _ => 0
  | GBlocks size hop => if Nat.eqb i 0 then need_blocks size hop else fun _ => 0
  | GTee n sched => if Nat.eqb i 0 then need_tee n sched else fun _ => 0
  | GOla _ hop _ => if Nat.eqb i 0 then need_ola hop else fun _ => 0
  | GResample order old new =>
      if Nat.eqb i 0
      then need_resample (rs_n0 order) (rs_idx0 order new) (rs_thr order new) (rs_stp old) (rs_one new)
      else fun _ => 0
  end.

Definition pneed (first : stage) (rest : list stage) (i : nat) (k : nat) : nat :=
  sneed first i (fold_right (fun g k' => sneed g 0 k') k rest).

Fixpoint etr_ok (i : nat) (need : nat -> nat) (r y : nat) (t : list eev) : bool :=
  match t with
  | [] => true
  | ER j :: t' => (bump i j r <=? need (S y)) && etr_ok i need (bump i j r) y t'
  | EY :: t' => (r <=? need (S y)) && etr_ok i need r (S y) t'
  | ES :: t' => (r <=? need (S y)) && etr_ok i need r y t'
  | _ :: t' => etr_ok i need r y t'
  end.

Definition no_reads (t : list eev) : bool :=
  forallb (fun e => match e with ER _ => false | _ => true end) t.

(* the property on the implementation's observation: nothing read at construction, and
   every read within the stated need of the output being asked for, on every source *)
Definition holds_lazy (c : lcase) : bool :=
  no_reads (c_ctor c) &&
  forallb (fun i => etr_ok i (pneed (c_first c) (c_rest c) i) 0 0 (c_pull c))
          (seq 0 (List.length (c_srcs c))).
