(* C02 - tee: n copies of one source pulled in any order read no more than the copy asked most often. *)
From Coq Require Import List Bool Arith Lia String.
From AL Require Import C02.Machine C02.Spec C02.MachineLemmas.
Import ListNotations.
Local Open Scope nat_scope.

Lemma length_upd l c v : c < List.length l -> List.length (upd l c v) = List.length l.
Proof.
  intro H. unfold upd. rewrite app_length. cbn [List.length]. rewrite firstn_length, skipn_length. lia.
Qed.

Lemma nth_firstn_lt (l : list nat) : forall c c', c' < c -> nth c' (firstn c l) 0 = nth c' l 0.
Proof.
  induction l as [|a l IH]; intros c c' H; [rewrite firstn_nil; reflexivity|].
  destruct c as [|c]; [lia|]. destruct c' as [|c']; [reflexivity|]. cbn. apply IH. lia.
Qed.
Lemma nth_skipn_add (l : list nat) : forall c d, nth d (skipn c l) 0 = nth (c + d) l 0.
Proof.
  induction l as [|a l IH]; intros c d; [rewrite skipn_nil; destruct d, c; reflexivity|].
  destruct c as [|c]; [reflexivity|]. cbn. apply IH.
Qed.

Lemma nth_upd l c v c' : c < List.length l -> nth c' (upd l c v) 0 = if c' =? c then v else nth c' l 0.
Proof.
  intro H. unfold upd.
  assert (Hf : List.length (firstn c l) = c) by (rewrite firstn_length; lia).
  destruct (c' =? c) eqn:E.
  - apply Nat.eqb_eq in E. subst c'. rewrite app_nth2; [|lia]. rewrite Hf, Nat.sub_diag. reflexivity.
  - apply Nat.eqb_neq in E. destruct (Nat.lt_ge_cases c' c) as [L|G].
    + rewrite app_nth1; [|lia]. apply nth_firstn_lt. lia.
    + rewrite app_nth2; [|lia]. rewrite Hf. destruct (c' - c) as [|d] eqn:D; [lia|]. cbn [nth].
      rewrite nth_skipn_add. f_equal. lia.
Qed.

Lemma count_dem_snoc c done ch : count_dem c (done ++ [ch]) = count_dem c done + (if ch =? c then 1 else 0).
Proof.
  unfold count_dem. rewrite count_occ_app. cbn [count_occ]. destruct (Nat.eq_dec ch c) as [E|E].
  - subst. rewrite Nat.eqb_refl. reflexivity.
  - apply Nat.eqb_neq in E. rewrite E. reflexivity.
Qed.

Lemma firstn_done {A} (done sc : list A) : firstn (List.length done) (done ++ sc) = done.
Proof. rewrite firstn_app, Nat.sub_diag, firstn_all. cbn. apply app_nil_r. Qed.
Lemma firstn_done_S {A} (done : list A) ch sc : firstn (S (List.length done)) (done ++ ch :: sc) = done ++ [ch].
Proof.
  rewrite firstn_app. rewrite firstn_all2 by lia.
  replace (S (List.length done) - List.length done) with 1 by lia. reflexivity.
Qed.

Lemma fold_max_ge (f : nat -> nat) l x : In x l -> f x <= fold_right Nat.max 0 (map f l).
Proof.
  induction l as [|a l IH]; intro H; [contradiction|]. cbn. destruct H as [E|H]; [subst; lia|].
  specialize (IH H). lia.
Qed.
Lemma fold_max_le (f g : nat -> nat) l : (forall x, In x l -> f x <= g x) ->
  fold_right Nat.max 0 (map f l) <= fold_right Nat.max 0 (map g l).
Proof.
  induction l as [|a l IH]; intro H; [reflexivity|]. cbn.
  assert (f a <= g a) by (apply H; left; reflexivity).
  assert (fold_right Nat.max 0 (map f l) <= fold_right Nat.max 0 (map g l)) by (apply IH; intros x Hx; apply H; right; exact Hx).
  lia.
Qed.

Lemma count_firstn_mono c (l : list nat) : forall k k', k <= k' -> count_dem c (firstn k l) <= count_dem c (firstn k' l).
Proof.
  unfold count_dem. induction l as [|a l IH]; intros k k' H.
  - rewrite !firstn_nil. reflexivity.
  - destruct k as [|k]; [cbn; lia|]. destruct k' as [|k']; [lia|]. cbn [firstn count_occ].
    specialize (IH k k'). destruct (Nat.eq_dec a c); [apply le_n_S|]; apply IH; lia.
Qed.

Lemma need_tee_mono n sched : mono (need_tee n sched).
Proof.
  intros k k' H. unfold need_tee. apply fold_max_le. intros x _. apply count_firstn_mono. exact H.
Qed.

Lemma need_tee_ge n sched k c : c < n -> count_dem c (firstn k sched) <= need_tee n sched k.
Proof.
  intro H. unfold need_tee. apply (fold_max_ge (fun c => count_dem c (firstn k sched))). apply in_seq. lia.
Qed.

Section TeeP.
Context {A : Type} (n : nat) (sched : list nat) (c : nat -> bool).
Hypothesis Hsched : Forall (fun ch => ch < n) sched.

Definition tee_inv (s : option (@tee_st A)) (r y : nat) : Prop :=
  match s with
  | None => r <= need_tee n sched (S y)
  | Some (TeeSt buf pos sc out) =>
      exists done, sched = done ++ sc /\ List.length pos = n /\
        (forall ch, ch < n -> nth ch pos 0 = count_dem ch done) /\
        (forall ch, ch < n -> nth ch pos 0 <= List.length buf) /\
        r <= List.length buf /\
        List.length buf <= need_tee n sched (List.length done) /\
        match out with None => y = List.length done | Some _ => S y = List.length done end
  end.

Lemma mtee_safe : safe c (need_tee n sched) (@mtee A n sched).
Proof.
  exists tee_inv. split.
  - cbn [init mtee tee_inv]. exists []. repeat split; try (cbn; lia).
    + apply repeat_length.
    + intros ch H. rewrite nth_repeat. reflexivity.
    + intros ch H. rewrite nth_repeat. lia.
  - intros s r y HI. unfold safe_step. destruct s as [[buf pos sc out]|]; cbn [step mtee]; [|exact HI].
    destruct HI as [done [Hs [Hl [Hc [Hp [Hr [Hb Hy]]]]]]].
    destruct out as [o|]; cbn [step mtee].
    + (* yield the item fetched for this demand *)
      destruct sc; (split; [rewrite Hy; lia|exists done; repeat split; try assumption; lia]).
    + subst y. destruct sc as [|ch sc']; cbn [step mtee].
      * (* schedule exhausted *)
        rewrite app_nil_r in Hs. subst done.
        assert (need_tee n sched (S (List.length sched)) = need_tee n sched (List.length sched)) as ->.
        { unfold need_tee. rewrite !firstn_all2 by lia. reflexivity. }
        lia.
      * assert (Hch : ch < n).
        { rewrite Forall_forall in Hsched. apply Hsched. rewrite Hs. apply in_or_app. right. left. reflexivity. }
        assert (Hcnt : forall ch', ch' < n ->
                  nth ch' (upd pos ch (S (nth ch pos 0))) 0 = count_dem ch' (done ++ [ch])).
        { intros ch' H'. rewrite nth_upd by lia. rewrite count_dem_snoc.
          destruct (ch' =? ch) eqn:E.
          - apply Nat.eqb_eq in E. subst ch'. rewrite Nat.eqb_refl, Hc by lia. lia.
          - rewrite Nat.eqb_sym, E, Hc by lia. lia. }
        assert (Hs' : sched = (done ++ [ch]) ++ sc') by (rewrite <- app_assoc; exact Hs).
        assert (Hlen : List.length (done ++ [ch]) = S (List.length done)) by (rewrite app_length; cbn; lia).
        destruct (nth_error buf (nth ch pos 0)) as [v|] eqn:En.
        -- (* the copy is behind: served from the buffer *)
           assert (Hlt : nth ch pos 0 < List.length buf) by (apply nth_error_Some; congruence).
           exists (done ++ [ch]). repeat split; try assumption.
           ++ rewrite length_upd; lia.
           ++ intros ch' H'. rewrite nth_upd by lia. destruct (ch' =? ch); [lia|apply Hp; exact H'].
           ++ rewrite Hlen. etransitivity; [exact Hb|]. apply need_tee_mono. lia.
           ++ lia.
        -- (* the copy is at the end of the buffer: one read *)
           apply nth_error_None in En. specialize (Hp ch Hch) as Hpc.
           assert (Hpe : nth ch pos 0 = List.length buf) by lia.
           assert (Hneed : S (List.length buf) <= need_tee n sched (S (List.length done))).
           { etransitivity; [|apply (need_tee_ge n sched (S (List.length done)) ch Hch)].
             rewrite Hs, firstn_done_S, count_dem_snoc, Nat.eqb_refl, <- Hc by lia. lia. }
           split; [|split].
           ++ unfold bump. destruct (c 0); lia.
           ++ intros v. exists (done ++ [ch]). rewrite app_length. cbn [List.length]. repeat split; try assumption.
              ** rewrite length_upd; lia.
              ** intros ch' H'. rewrite nth_upd by lia. destruct (ch' =? ch); [lia|specialize (Hp ch' H'); lia].
              ** unfold bump. destruct (c 0); lia.
              ** rewrite Hlen. lia.
              ** lia.
           ++ cbn [tee_inv]. etransitivity; [exact Hr|]. etransitivity; [exact Hb|]. apply need_tee_mono. lia.
Qed.
End TeeP.
