(* C02 - exact counts with horizons: limit, tee; pipelines of any depth. *)
From Coq Require Import List Bool Arith ZArith Lia String.
From AL Require Import C08.Model C02.Machine C02.Spec C02.MachineLemmas C02.Tight C02.GTight C02.Model C02.Check
  C02.Proofs_Families C02.Proofs_Blocks C02.Proofs_Data C02.Proofs_Tee C02.Proofs_Resample C02.Proofs_Pipeline.
Import ListNotations.
Local Open Scope nat_scope.

(* limit n: the first n outputs cost one item each, then it ends by itself (states reached only after
   the source ended carry no claim: False) *)
Lemma mlimit_tight {A} n (c : nat -> bool) : c 0 = true ->
  tight c (need_limit n) (fun k => k <=? n) (@mlimit A n).
Proof.
  intro C0.
  exists (fun s r y => match s with
                       | LGo j => r = y /\ y + j = n
                       | LOut _ j => r = S y /\ S y + j = n
                       | LFin => False end).
  split; [cbn; lia|].
  intros s r y HT. unfold tight_step, need_limit, bump. destruct s as [[|j]|v j|]; cbn [step mlimit]; try contradiction.
  - apply Nat.leb_gt. lia.
  - intros _. rewrite C0. lia.
  - split; [intros _; lia|lia].
Qed.

Lemma fold_max_bound (f : nat -> nat) l B : (forall x, In x l -> f x <= B) -> fold_right Nat.max 0 (map f l) <= B.
Proof.
  induction l as [|a l IH]; intro H; [cbn; lia|]. cbn.
  assert (f a <= B) by (apply H; left; reflexivity).
  assert (fold_right Nat.max 0 (map f l) <= B) by (apply IH; intros x Hx; apply H; right; exact Hx). lia.
Qed.
Lemma need_tee_le n sched k B : (forall ch, ch < n -> count_dem ch (firstn k sched) <= B) -> need_tee n sched k <= B.
Proof. intro H. unfold need_tee. apply fold_max_bound. intros x Hx. apply H. apply in_seq in Hx. lia. Qed.

(* tee pulled along the schedule [sched]: demand number k costs exactly max over the copies of their demands *)
Lemma mtee_tight {A} n sched (c : nat -> bool) : c 0 = true -> Forall (fun ch => ch < n) sched ->
  tight c (need_tee n sched) (fun k => k <=? List.length sched) (@mtee A n sched).
Proof.
  intros C0 Hsched.
  exists (fun s r y =>
    match s with
    | None => False
    | Some (TeeSt buf pos sc out) =>
        exists done, sched = done ++ sc /\ List.length pos = n /\
          (forall ch, ch < n -> nth ch pos 0 = count_dem ch done) /\
          r = List.length buf /\ List.length buf = need_tee n sched (List.length done) /\
          match out with None => y = List.length done | Some _ => S y = List.length done end
    end).
  split.
  - cbn [init mtee]. exists []. repeat split; try (cbn; lia).
    + apply repeat_length.
    + intros ch H. rewrite nth_repeat. reflexivity.
    + cbn [List.length]. rewrite need_tee_zero. reflexivity.
  - intros s r y HT. unfold tight_step. destruct s as [[buf pos sc out]|]; cbn [step mtee]; [|contradiction].
    destruct HT as [done [Hs [Hl [Hc [Hr [Hb Hy]]]]]].
    destruct out as [o|]; cbn [step mtee].
    + destruct sc; (split; [intros _; rewrite Hy; lia|exists done; repeat split; try assumption; lia]).
    + subst y. destruct sc as [|ch sc']; cbn [step mtee].
      * rewrite app_nil_r in Hs. subst done. apply Nat.leb_gt. lia.
      * assert (Hch : ch < n).
        { rewrite Forall_forall in Hsched. apply Hsched. rewrite Hs. apply in_or_app. right. left. reflexivity. }
        assert (Hcnt : forall ch', ch' < n ->
                  nth ch' (upd pos ch (S (nth ch pos 0))) 0 = count_dem ch' (done ++ [ch])).
        { intros ch' H'. rewrite nth_upd by lia. rewrite count_dem_snoc.
          destruct (ch' =? ch) eqn:E.
          - apply Nat.eqb_eq in E. subst ch'. rewrite Nat.eqb_refl, Hc by lia. lia.
          - rewrite Nat.eqb_sym, E, Hc by lia. lia. }
        assert (Hs' : sched = (done ++ [ch]) ++ sc') by (rewrite <- app_assoc; exact Hs).
        assert (Hlen : List.length (done ++ [ch]) = S (List.length done)) by (rewrite app_length; cbn; lia).
        assert (Hfst : firstn (S (List.length done)) sched = done ++ [ch]) by (rewrite Hs; apply firstn_done_S).
        assert (Hfst0 : firstn (List.length done) sched = done) by (rewrite Hs; apply firstn_done).
        assert (Hle : forall ch', ch' < n -> count_dem ch' done <= List.length buf).
        { intros ch' H'. rewrite Hb. rewrite <- Hfst0 at 1. apply need_tee_ge. exact H'. }
        destruct (nth_error buf (nth ch pos 0)) as [v|] eqn:En.
        -- assert (Hlt : nth ch pos 0 < List.length buf) by (apply nth_error_Some; congruence).
           exists (done ++ [ch]). repeat split; try assumption.
           ++ rewrite length_upd; lia.
           ++ rewrite Hlen. apply Nat.le_antisymm.
              ** rewrite Hb. apply need_tee_mono. lia.
              ** apply need_tee_le. intros ch' H'. rewrite Hfst, count_dem_snoc.
                 destruct (ch =? ch') eqn:E.
                 --- apply Nat.eqb_eq in E. subst ch'. rewrite <- Hc by lia. lia.
                 --- specialize (Hle ch' H'). lia.
           ++ lia.
        -- apply nth_error_None in En.
           assert (Hpe : nth ch pos 0 = List.length buf) by (specialize (Hle ch Hch); rewrite <- Hc in Hle by lia; lia).
           intros v. unfold bump. rewrite C0. exists (done ++ [ch]). rewrite app_length. cbn [List.length].
           repeat split; try assumption.
           ++ rewrite length_upd; lia.
           ++ lia.
           ++ rewrite Hlen. apply Nat.le_antisymm.
              ** etransitivity; [|apply (need_tee_ge n sched (S (List.length done)) ch Hch)].
                 rewrite Hfst, count_dem_snoc, Nat.eqb_refl, <- Hc by lia. lia.
              ** apply need_tee_le. intros ch' H'. rewrite Hfst, count_dem_snoc.
                 specialize (Hle ch' H'). destruct (ch =? ch'); lia.
           ++ lia.
Qed.

(* ---------------------------------------------------------------- stages and pipelines *)
(* horizon of a stage: which outputs carry an exact count.  limit and tee end by themselves; the end of
   filter / takewhile / chain-of-sources / resample-with-step-stream depends on the data or on a second
   source: empty horizon, only the bounds are claimed for them *)
Definition sok (g : stage) : nat -> bool :=
  match g with
  | GLimit n => fun k => k <=? n
  | GTee _ sched => fun k => k <=? List.length sched
  | GFilter _ _ | GTakeWhile _ | GChain _ | GResampleTV _ _ _ | GRefuse _ => fun _ => false
  | _ => fun _ => true
  end.

Definition downward (ok : nat -> bool) : Prop := forall a b, a <= b -> ok b = true -> ok a = true.

Lemma sok_down g : downward (sok g).
Proof.
  destruct g; intros a b H E; cbn [sok] in *; try reflexivity; try discriminate E;
    apply Nat.leb_le in E; apply Nat.leb_le; lia.
Qed.

Lemma ok_comp_down n2 ok1 ok2 : mono n2 -> downward ok1 -> downward ok2 -> downward (ok_comp n2 ok1 ok2).
Proof.
  intros M D1 D2 a b H E. unfold ok_comp in *. apply andb_true_iff in E. destruct E as [E2 E1].
  apply andb_true_iff. split; [eapply D2; eassumption|]. eapply D1; [apply M; exact H|exact E1].
Qed.

Definition stage_okx (g : stage) : Prop := match g with GFilter _ _ => True | _ => stage_ok g end.

Lemma smach_tight g c : c 0 = true -> stage_okx g -> tight c (sneedc g c) (sok g) (smach g).
Proof.
  intros C0 Hok.
  destruct g; cbn [stage_okx stage_ok] in Hok;
    try (apply tight_vacuous; reflexivity);
    try (match goal with |- tight _ _ _ (smach ?g) => apply (live_tight c _ _ _ (smach_live g c C0 Hok)) end).
  - cbn [sneedc smach sok]. rewrite (one_src_true c _ C0). apply mlimit_tight. exact C0.
  - cbn [sneedc smach sok]. rewrite (one_src_true c _ C0). apply mtee_tight; assumption.
Qed.

Fixpoint fold_ok (ok : nat -> bool) (rest : list stage) : nat -> bool :=
  match rest with
  | [] => ok
  | g :: rest' => fold_ok (ok_comp (sneedc g every) ok (sok g)) rest'
  end.
Definition pok (first : stage) (rest : list stage) : nat -> bool := fold_ok (sok first) rest.

Lemma fold_tight c : forall rest (m : machine nat nat) (n : nat -> nat) ok,
  tight c n ok m -> n 0 = 0 -> downward ok -> Forall stage_ok rest ->
  tight c (fun k => n (fold_right (fun g k' => sneedc g every k') k rest)) (fold_ok ok rest)
        (fold_left (fun m g => comp (smach g) m) rest m).
Proof.
  induction rest as [|g rest IH]; intros m n ok HT H0 HD Hok; [exact HT|].
  inversion Hok as [|g' r' Hg Hr]; subst. cbn [fold_left fold_right fold_ok].
  apply (IH (comp (smach g) m) (need_comp n (sneedc g every)) (ok_comp (sneedc g every) ok (sok g))).
  - apply tight_comp; [exact H0|apply sneedc_mono; exact Hg|exact HD|exact HT| |apply smach_safe; exact Hg].
    apply smach_tight; [reflexivity|]. destruct g; cbn in *; auto.
  - unfold need_comp. rewrite sneedc_zero. exact H0.
  - apply ok_comp_down; [apply sneedc_mono; exact Hg|exact HD|apply sok_down].
  - exact Hr.
Qed.

(* exact composed counts for pipelines of any depth, inside the composed horizon *)
Theorem pmach_tight first rest c : c 0 = true -> stage_okx first -> Forall stage_ok rest ->
  tight c (pneedc first rest c) (pok first rest) (pmach first rest).
Proof.
  intros C0 Hf Hr. unfold pneedc, pmach, pok.
  apply (fold_tight c rest (smach first) (sneedc first c) (sok first));
    [apply smach_tight; assumption|apply sneedc_zero|apply sok_down|exact Hr].
Qed.

Theorem pipeline_exact_runs first rest : stage_okx first -> Forall stage_ok rest ->
  forall (E : env nat) fuel k e,
  run_exact (only 0) (pneed first rest 0) (pok first rest) (pmach first rest) E fuel k (init _) e 0 0.
Proof. intros Hf Hr E fuel k e. apply tight_run. apply pmach_tight; [reflexivity|exact Hf|exact Hr]. Qed.

(* ---------------------------------------------------------------- a filter as first stage: exact, data indexed *)
Lemma fold_gtight c : forall rest (m : machine nat nat) (X : list nat -> nat -> Prop) ok,
  gtight c X ok m -> X [] 0 -> downward ok -> Forall stage_ok rest ->
  gtight c (fun h k => X h (fold_right (fun g k' => sneedc g every k') k rest)) (fold_ok ok rest)
         (fold_left (fun m g => comp (smach g) m) rest m).
Proof.
  induction rest as [|g rest IH]; intros m X ok HT H0 HD Hok; [exact HT|].
  inversion Hok as [|g' r' Hg Hr]; subst. cbn [fold_left fold_right fold_ok].
  apply (IH (comp (smach g) m) (fun h k => X h (sneedc g every k)) (ok_comp (sneedc g every) ok (sok g))).
  - apply gtight_comp; [exact H0|apply sneedc_mono; exact Hg|exact HD|exact HT| |apply smach_safe; exact Hg].
    apply smach_tight; [reflexivity|]. destruct g; cbn in *; auto.
  - rewrite sneedc_zero. exact H0.
  - apply ok_comp_down; [apply sneedc_mono; exact Hg|exact HD|apply sok_down].
  - exact Hr.
Qed.

(* filter (x mod m = r) followed by any pipeline of admissible stages: output k is yielded exactly when the
   items read end with the N(k)-th passing item, N = the composed need of the later stages *)
Theorem filter_pipeline_exact m r rest : Forall stage_ok rest ->
  gtight (only 0)
    (fun h k => ends_with_pass (fun x => Nat.eqb (x mod m) r) h (fold_right (fun g k' => sneedc g every k') k rest))
    (fold_ok (fun _ => true) rest) (pmach (GFilter m r) rest).
Proof.
  intro Hr. unfold pmach. cbn [smach].
  apply (fold_gtight (only 0) rest (mfilter (fun x => Nat.eqb (x mod m) r))
           (ends_with_pass (fun x => Nat.eqb (x mod m) r)) (fun _ => true)).
  - apply mfilter_gtight. reflexivity.
  - split; [reflexivity|left; reflexivity].
  - intros a b _ _. reflexivity.
  - exact Hr.
Qed.
