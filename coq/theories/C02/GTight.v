(* C02 - exact counts indexed by the data: [gtight c X ok m] says that, as long as the sources deliver items,
   output number j (for ok j) is yielded when the items h delivered so far satisfy [X h j].  For a data
   independent need, X h j is |h| = need j; for a filter it is "h ends with its j-th passing item".
   A data-indexed first stage composes with data independent later stages. *)
From Coq Require Import List Bool Arith Lia String.
From AL Require Import C02.Machine C02.Spec C02.MachineLemmas C02.Tight.
Import ListNotations.
Local Open Scope nat_scope.

Section GTight.
Context {I O : Type} (c : nat -> bool) (X : list I -> nat -> Prop) (ok : nat -> bool) (m : machine I O).

Definition snoc_if (b : bool) (h : list I) (x : I) : list I := if b then h ++ [x] else h.

Definition gtight_step (T : st m -> list I -> nat -> Prop) (s : st m) (h : list I) (y : nat) : Prop :=
  match step m s with
  | Yield o s' => (ok (S y) = true -> X h (S y)) /\ T s' h (S y)
  | Read j k => forall x, T (k (Some x)) (snoc_if (c j) h x) y
  | Tau s' => T s' h y
  | Stop => ok (S y) = false
  | Raise _ => True
  end.

Definition gtight : Prop :=
  exists T : st m -> list I -> nat -> Prop, T (init m) [] 0 /\ forall s h y, T s h y -> gtight_step T s h y.

Fixpoint run_exacth (E : env I) (fuel k : nat) (s : st m) (e : est E) (h : list I) (y : nat) : Prop :=
  match k with
  | 0 => True
  | S k' =>
    match fuel with
    | 0 => True
    | S f =>
      match step m s with
      | Yield o s' => (ok (S y) = true -> X h (S y)) /\ run_exacth E f k' s' e h (S y)
      | Tau s' => run_exacth E f k s' e h y
      | Read i kont =>
          match enext E e i with
          | (Item x, e') => run_exacth E f k (kont (Some x)) e' (snoc_if (c i) h x) y
          | _ => True
          end
      | Stop => ok (S y) = false
      | Raise _ => True
      end
    end
  end.

Theorem gtight_run : gtight -> forall (E : env I) fuel k e, run_exacth E fuel k (init m) e [] 0.
Proof.
  intros [T [H0 Hs]] E fuel.
  assert (G : forall fuel k s e h y, T s h y -> run_exacth E fuel k s e h y).
  { clear fuel. induction fuel as [|f IH]; intros k s e h y HT; destruct k as [|k']; try exact Logic.I.
    cbn [run_exacth]. specialize (Hs _ _ _ HT). unfold gtight_step in Hs.
    destruct (step m s) as [o s'|j kont|s'| |err]; try exact Logic.I.
    - destruct Hs as [A B]. split; [exact A|apply IH; exact B].
    - destruct (enext E e j) as [[x| |] e']; try exact Logic.I. apply IH. apply Hs.
    - apply IH. exact Hs.
    - exact Hs. }
  intros k e. apply G. exact H0.
Qed.
End GTight.

(* the data independent notion is an instance *)
Lemma tight_gtight {I O} c need ok (m : machine I O) :
  tight c need ok m -> gtight c (fun h k => List.length h = need k) ok m.
Proof.
  intros [T [H0 Hs]]. exists (fun s h y => T s (List.length h) y). split; [exact H0|].
  intros s h y HT. specialize (Hs _ _ _ HT). unfold tight_step in Hs. unfold gtight_step.
  destruct (step m s) as [o s'|j k|s'| |err]; try assumption.
  intro x. specialize (Hs x). unfold bump in Hs. unfold snoc_if. destruct (c j); [|exact Hs].
  rewrite app_length. cbn. rewrite Nat.add_1_r. exact Hs.
Qed.

Section GTightComp.
Context {I M O : Type} (m2 : machine M O) (m1 : machine I M).
Variable (c : nat -> bool) (X1 : list I -> nat -> Prop) (n2 : nat -> nat) (ok1 ok2 : nat -> bool).

Theorem gtight_comp :
  X1 [] 0 -> mono n2 -> (forall a b, a <= b -> ok1 b = true -> ok1 a = true) ->
  gtight c X1 ok1 m1 -> tight every n2 ok2 m2 -> safe every n2 m2 ->
  gtight c (fun h k => X1 h (n2 k)) (ok_comp n2 ok1 ok2) (comp m2 m1).
Proof.
  intros N0 M2 Hdown [T1 [H10 H1s]] [T2 [H20 H2s]] [I2 [J20 J2s]].
  set (dead := fun y : nat => exists r2', ok1 (S r2') = false /\ S r2' <= n2 (S y)).
  assert (Hdead_mono : forall y, dead y -> dead (S y)).
  { intros y [r2' [A B]]. exists r2'. split; [exact A|]. etransitivity; [exact B|]. apply M2. lia. }
  assert (Hdead_ok : forall y, dead y -> ok_comp n2 ok1 ok2 (S y) = false).
  { intros y [r2' [A B]]. unfold ok_comp. destruct (ok2 (S y)); [|reflexivity]. cbn.
    destruct (ok1 (n2 (S y))) eqn:E; [|reflexivity]. rewrite (Hdown _ _ B E) in A. discriminate. }
  exists (fun s h y =>
    dead y \/
    match s with
    | CRun _ _ s2 (Some s1) => exists r2, T2 s2 r2 y /\ I2 s2 r2 y /\ T1 s1 h r2 /\ X1 h r2
    | CRun _ _ s2 None => False
    | CWait _ _ k s1 => exists r2, (forall x, T2 (k (Some x)) (S r2) y) /\ (forall x, I2 (k (Some x)) (S r2) y) /\
                                   S r2 <= n2 (S y) /\ T1 s1 h r2
    end).
  split.
  - right. cbn. exists 0. repeat split; assumption.
  - intros s h y [HD|HL].
    + unfold gtight_step. destruct (step (comp m2 m1) s) as [o s'|j k|s'| |err]; try exact Logic.I.
      * split; [intro E; rewrite (Hdead_ok y HD) in E; discriminate|left; apply Hdead_mono; exact HD].
      * intros x. left. exact HD.
      * left. exact HD.
      * apply Hdead_ok. exact HD.
    + unfold gtight_step. destruct s as [s2 [s1|]|k s1]; cbn [step comp]; try contradiction.
      * destruct HL as [r2 [HT2 [HI2 [HT1 Hr]]]].
        specialize (H2s _ _ _ HT2). specialize (J2s _ _ _ HI2). unfold tight_step in H2s. unfold safe_step in J2s.
        destruct (step m2 s2) as [o s2'|j kont|s2'| |err]; try exact Logic.I.
        -- destruct H2s as [A B]. destruct J2s as [_ Bj]. split.
           ++ intro E. unfold ok_comp in E. apply andb_true_iff in E. destruct E as [E _]. rewrite <- (A E). exact Hr.
           ++ right. exists r2. repeat split; assumption.
        -- destruct J2s as [Hb [HS HN]]. unfold bump, every in *. right. exists r2. repeat split; assumption.
        -- right. exists r2. repeat split; assumption.
        -- unfold ok_comp. rewrite H2s. reflexivity.
      * destruct HL as [r2 [HT2 [HI2 [Hle HT1]]]].
        specialize (H1s _ _ _ HT1). unfold gtight_step in H1s.
        destruct (step m1 s1) as [o s1'|j kont|s1'| |err]; try exact Logic.I.
        -- destruct H1s as [A B]. destruct (ok1 (S r2)) eqn:E.
           ++ right. exists (S r2). repeat split; try assumption.
              ** apply HT2.
              ** apply HI2.
              ** apply A. reflexivity.
           ++ left. exists r2. split; assumption.
        -- intro x. right. exists r2. repeat split; try assumption. apply H1s.
        -- right. exists r2. repeat split; assumption.
        -- left. exists r2. split; assumption.
Qed.
End GTightComp.

(* ------------------------------------------------------------------ filter *)
Section FilterX.
Context {A : Type} (p : A -> bool).
Definition npl (h : list A) : nat := List.length (filter p h).
(* h ends with its j-th passing item (nothing read yet for j = 0) *)
Definition ends_with_pass (h : list A) (j : nat) : Prop :=
  npl h = j /\ (h = [] \/ exists h' x, h = h' ++ [x] /\ p x = true).

Lemma npl_snoc h x : npl (h ++ [x]) = npl h + (if p x then 1 else 0).
Proof. unfold npl. rewrite filter_app, app_length. cbn. destruct (p x); reflexivity. Qed.

Lemma mfilter_gtight (c : nat -> bool) : c 0 = true ->
  gtight c ends_with_pass (fun _ => true) (mfilter p).
Proof.
  intro C0.
  exists (fun s h y => match s with
                       | FGo => npl h = y
                       | FOut v => npl h = S y /\ exists h', h = h' ++ [v] /\ p v = true
                       | FFin => False end).
  split; [reflexivity|].
  intros s h y HT. unfold gtight_step. destruct s as [|v|]; cbn [step mfilter]; try contradiction.
  - intros x. unfold snoc_if. rewrite C0. destruct (p x) eqn:Px.
    + split; [rewrite npl_snoc, Px; lia|]. exists h. split; [reflexivity|exact Px].
    + rewrite npl_snoc, Px. lia.
  - destruct HT as [Hn [h' [Hh Hp]]]. split.
    + intros _. split; [exact Hn|]. right. exists h', v. split; assumption.
    + exact Hn.
Qed.
End FilterX.
