(* C02 - filter with a data-indexed need, and pipelines containing filters. *)
From Coq Require Import List Bool Arith ZArith Lia String.
From AL Require Import C08.Model C02.Machine C02.Spec C02.MachineLemmas C02.GSafe C02.Model C02.Check
  C02.Proofs_Families C02.Proofs_Blocks C02.Proofs_Data C02.Proofs_Tee C02.Proofs_Resample C02.Proofs_Pipeline.
Import ListNotations.
Local Open Scope nat_scope.

Definition npassl {A : Type} (p : A -> bool) (h : list A) : nat := List.length (filter p h).

Lemma npassl_snoc {A} (p : A -> bool) h x : npassl p (h ++ [x]) = npassl p h + (if p x then 1 else 0).
Proof. unfold npassl. rewrite filter_app, app_length. cbn. destruct (p x); reflexivity. Qed.

(* a filter may read while the passing items seen so far have all been yielded:
   the next output is the (|ys|+1)-th passing item, which is not among h *)
Definition allow_filter {A : Type} (p : A -> bool) (h ys : list A) : Prop := npassl p h <= List.length ys.

Lemma mfilter_gsafe {A} (p : A -> bool) (c : nat -> bool) : gsafe c (mfilter p) (allow_filter p).
Proof.
  assert (HR : forall s h ys, reach c (mfilter p) s h ys ->
            match s with
            | FGo => npassl p h <= List.length ys
            | FOut _ => npassl p h <= S (List.length ys)
            | FFin => True
            end).
  { intros s h ys HR.
    induction HR as [|s h ys o s' HR IH Est|s h ys j k x HR IH Est|s h ys j k HR IH Est|s h ys s' HR IH Est].
    - cbn. lia.
    - destruct s; cbn [step mfilter] in Est; try discriminate Est. inversion Est; subst.
      rewrite app_length. cbn. lia.
    - destruct s; cbn [step mfilter] in Est; try discriminate Est. inversion Est; subst.
      destruct (c 0).
      + rewrite npassl_snoc. destruct (p x); lia.
      + destruct (p x); lia.
    - destruct s; cbn [step mfilter] in Est; try discriminate Est. inversion Est; subst. exact Logic.I.
    - destruct s; cbn [step mfilter] in Est; discriminate Est. }
  intros s h ys j k HRe Est Cj. specialize (HR _ _ _ HRe).
  destruct s; cbn [step mfilter] in Est; try discriminate Est. exact HR.
Qed.

(* ---------------------------------------------------------------- every stage, filters included *)
Definition stage_okf (g : stage) : Prop :=
  match g with
  | GFilter _ _ => True
  | _ => stage_ok g
  end.

Definition sallow (g : stage) (c : nat -> bool) (h ys : list nat) : Prop :=
  match g with
  | GFilter m r => allow_filter (fun x => Nat.eqb (x mod m) r) h ys
  | _ => S (List.length h) <= sneedc g c (S (List.length ys))
  end.

Lemma smach_gsafe g c : stage_okf g -> gsafe c (smach g) (sallow g c).
Proof.
  intro Hok. destruct g; try (apply safe_gsafe; apply smach_safe; exact Hok).
  cbn [smach sallow]. apply mfilter_gsafe.
Qed.

(* the allowed-read predicate of a pipeline: composition through what the upstream part produces *)
Fixpoint fold_allow (c : nat -> bool) (m : machine nat nat) (A : list nat -> list nat -> Prop) (rest : list stage)
  : list nat -> list nat -> Prop :=
  match rest with
  | [] => A
  | g :: rest' => fold_allow c (comp (smach g) m) (acomp m c A (sallow g every)) rest'
  end.
Definition pallow (first : stage) (rest : list stage) (c : nat -> bool) : list nat -> list nat -> Prop :=
  fold_allow c (smach first) (sallow first c) rest.

Lemma fold_gsafe c : forall rest (m : machine nat nat) A, gsafe c m A -> Forall stage_okf rest ->
  gsafe c (fold_left (fun m g => comp (smach g) m) rest m) (fold_allow c m A rest).
Proof.
  induction rest as [|g rest IH]; intros m A HS Hok; [exact HS|].
  inversion Hok as [|g' r' Hg Hr]; subst. cbn [fold_left fold_allow].
  apply IH; [|exact Hr]. apply gsafe_comp; [exact HS|apply smach_gsafe; exact Hg].
Qed.

(* pipelines of any depth with filters anywhere, any data, any environment *)
Theorem pmach_gsafe first rest c : stage_okf first -> Forall stage_okf rest ->
  gsafe c (pmach first rest) (pallow first rest c).
Proof. intros Hf Hr. apply fold_gsafe; [apply smach_gsafe; exact Hf|exact Hr]. Qed.

(* ---------------------------------------------------------------- closed form behind a first-stage filter *)
Definition frest (rest : list stage) (k : nat) : nat := fold_right (fun g k' => sneedc g every k') k rest.

Lemma frest_mono rest : Forall stage_ok rest -> mono (frest rest).
Proof.
  induction rest as [|g rest IH]; intro H; [intros a b Hab; exact Hab|].
  inversion H; subst. intros a b Hab. cbn. apply sneedc_mono; [assumption|]. apply IH; assumption.
Qed.

Lemma sallow_nofilter g c h ys : stage_ok g -> sallow g c h ys -> S (List.length h) <= sneedc g c (S (List.length ys)).
Proof. destruct g; cbn [stage_ok sallow]; intros Hok H; try exact H. contradiction. Qed.

Lemma fold_allow_len c : forall rest (m : machine nat nat) A h ys, Forall stage_ok rest ->
  fold_allow c m A rest h ys ->
  (rest = [] /\ A h ys) \/ (exists hm, A h hm /\ S (List.length hm) <= frest rest (S (List.length ys))).
Proof.
  induction rest as [|g rest IH]; intros m A h ys Hok HF; [left; split; [reflexivity|exact HF]|].
  inversion Hok as [|g' r' Hg Hr]; subst. right. cbn [fold_allow] in HF.
  destruct (IH _ _ _ _ Hr HF) as [[E HA]|[hm' [HA Hlen]]].
  - subst rest. destruct HA as [hm [_ [HA1 HA2]]]. exists hm. split; [exact HA1|].
    cbn. apply sallow_nofilter; assumption.
  - destruct HA as [hm [_ [HA1 HA2]]]. exists hm. split; [exact HA1|].
    apply (sallow_nofilter g every hm hm' Hg) in HA2. cbn. etransitivity; [exact HA2|].
    apply sneedc_mono; [exact Hg|exact Hlen].
Qed.

(* counting the items x < r with x mod m = rr *)
Lemma npass_mod_seq m rr : rr < m -> forall r j, rr + j * m < r ->
  S j <= npassl (fun x => Nat.eqb (x mod m) rr) (seq 0 r).
Proof.
  intros Hrr. induction r as [|r IH]; intros j H; [lia|].
  rewrite seq_S, npassl_snoc. cbn [Nat.add].
  destruct (Nat.eq_dec (rr + j * m) r) as [E|E].
  - assert (Hp : r mod m = rr).
    { rewrite <- E. rewrite Nat.mod_add by lia. apply Nat.mod_small. exact Hrr. }
    rewrite Hp, Nat.eqb_refl. destruct j as [|j']; [lia|].
    assert (S j' <= npassl (fun x => Nat.eqb (x mod m) rr) (seq 0 r)); [|lia].
    apply IH. cbn in E. nia.
  - assert (S j <= npassl (fun x => Nat.eqb (x mod m) rr) (seq 0 r)) by (apply IH; lia).
    destruct (r mod m =? rr); lia.
Qed.

(* after the items 0 .. r-1, a filter followed by stages needing N(k) of its outputs may read
   only if item r is within the need of the N(k)-th passing item *)
Lemma filter_first_bound m rr rest r ys : rr < m -> Forall stage_ok rest ->
  fold_allow (only 0) (smach (GFilter m rr)) (sallow (GFilter m rr) (only 0)) rest (seq 0 r) ys ->
  S r <= pneed (GFilter m rr) rest 0 (S (List.length ys)).
Proof.
  intros Hrr Hok HF. unfold pneed, pneedc. fold (frest rest (S (List.length ys))).
  cbn [sneedc]. unfold one_src. cbn [only Nat.eqb].
  assert (HN : exists l, npassl (fun x => Nat.eqb (x mod m) rr) (seq 0 r) <= l /\ S l <= frest rest (S (List.length ys))).
  { destruct (fold_allow_len _ _ _ _ _ _ Hok HF) as [[E HA]|[hm [HA Hlen]]].
    - subst rest. cbn. exists (List.length ys). split; [exact HA|lia].
    - exists (List.length hm). split; [exact HA|exact Hlen]. }
  destruct HN as [l [H1 H2]].
  destruct (frest rest (S (List.length ys))) as [|j'] eqn:EF; [lia|]. unfold need_filter_mod.
  destruct (Nat.lt_ge_cases (rr + j' * m) r) as [Hlt|Hge]; [|lia].
  pose proof (npass_mod_seq m rr Hrr r j' Hlt). lia.
Qed.

(* ---------------------------------------------------------------- on the counting sources of the harness *)
Lemma src_resp_item d p x : src_resp d p = Item x -> x = p.
Proof. destruct d as [|n|n]; cbn [src_resp]; [|destruct (p <? n)..]; intro H; inversion H; reflexivity. Qed.

Definition dead (d : srcd) (q : nat) : Prop := forall p x, q <= p -> src_resp d p <> Item x.

Lemma src_resp_dead d p : (forall x, src_resp d p <> Item x) -> dead d p.
Proof.
  intros H q x Hq. destruct d as [|n|n]; cbn [src_resp] in *.
  - exfalso. apply (H p). reflexivity.
  - destruct (p <? n) eqn:E; [exfalso; apply (H p); reflexivity|]. apply Nat.ltb_ge in E.
    assert (q <? n = false) as -> by (apply Nat.ltb_ge; lia). discriminate.
  - destruct (p <? n) eqn:E; [exfalso; apply (H p); reflexivity|]. apply Nat.ltb_ge in E.
    assert (q <? n = false) as -> by (apply Nat.ltb_ge; lia). discriminate.
Qed.

Lemma nth0_upd0 pos v : nth 0 (upd pos 0 v) 0 = v.
Proof. reflexivity. Qed.

Section Counting.
Context (m : machine nat nat) (A : list nat -> list nat -> Prop) (N : nat -> nat) (ds : list srcd).
Hypothesis Hreads : reads0 m.
Hypothesis HA : forall r ys, A (seq 0 r) ys -> S r <= N (S (List.length ys)).
Hypothesis HN : mono N.
Let d0 := nth 0 ds (SFin 0).

Lemma counting_run : forall fuel k s pos ys r,
  run_ok (only 0) m A (senv ds) fuel k s pos (seq 0 r) ys ->
  (nth 0 pos 0 = r \/ dead d0 (nth 0 pos 0)) ->
  r <= N (S (List.length ys)) ->
  tr_ok (only 0) N r (List.length ys) (run m (senv ds) fuel k s pos) = true.
Proof.
  induction fuel as [|f IH]; intros k s pos ys r HR Hpos Hr; destruct k as [|k']; try reflexivity.
  cbn [run run_ok] in *. destruct (step m s) as [o s'|j kont|s'| |err] eqn:Est.
  - cbn [tr_ok]. apply andb_true_iff. split; [apply Nat.leb_le; exact Hr|].
    specialize (IH k' s' pos (ys ++ [o]) r HR Hpos). rewrite app_length in IH. cbn in IH.
    rewrite Nat.add_1_r in IH. apply IH. etransitivity; [exact Hr|]. apply HN. lia.
  - assert (j = 0) by (eapply Hreads; exact Est). subst j.
    destruct HR as [HAl HR]. specialize (HAl eq_refl). apply HA in HAl.
    cbn [enext senv] in *. fold d0 in HR |- *.
    destruct (src_resp d0 (nth 0 pos 0)) as [x| |] eqn:Er.
    + destruct Hpos as [Hp|Hd]; [|exfalso; eapply (Hd (nth 0 pos 0) x); [lia|exact Er]].
      rewrite Hp in Er. apply src_resp_item in Er. subst x.
      cbn [tr_ok]. unfold bump, only. cbn [Nat.eqb]. apply andb_true_iff. split; [apply Nat.leb_le; exact HAl|].
      cbn [only Nat.eqb] in HR. replace (seq 0 r ++ [r]) with (seq 0 (S r)) in HR by (rewrite seq_S; reflexivity).
      apply IH; [exact HR|left; rewrite nth0_upd0; lia|exact HAl].
    + cbn [tr_ok]. apply IH; [exact HR| |exact Hr]. right. rewrite nth0_upd0.
      assert (Hd : dead d0 (nth 0 pos 0)).
      { destruct Hpos as [Hp|Hd]; [|exact Hd]. apply src_resp_dead. intros x Hx. congruence. }
      intros p x Hp. apply Hd. lia.
    + cbn [tr_ok]. unfold bump, only. cbn [Nat.eqb]. rewrite andb_true_r. apply Nat.leb_le. exact HAl.
  - apply IH; assumption.
  - cbn [tr_ok]. rewrite andb_true_r. apply Nat.leb_le. exact Hr.
  - reflexivity.
Qed.
End Counting.

Lemma reads0_mfilter {A} (p : A -> bool) : reads0 (mfilter p).
Proof. intros s j k H. destruct s; cbn [step mfilter] in H; try discriminate H. inversion H. reflexivity. Qed.

Lemma reads0_comp {I M O} (m2 : machine M O) (m1 : machine I M) : reads0 m1 -> reads0 (comp m2 m1).
Proof.
  intros H1 S j k H. destruct S as [s2 [s1|]|kk s1]; cbn [step comp] in H.
  - destruct (step m2 s2); discriminate H.
  - destruct (step m2 s2); discriminate H.
  - destruct (step m1 s1) as [o1 s1'|j1 k1|s1'| |err] eqn:E1; try discriminate H. inversion H; subst.
    eapply H1. exact E1.
Qed.

Lemma reads0_fold : forall rest (m : machine nat nat), reads0 m ->
  reads0 (fold_left (fun m g => comp (smach g) m) rest m).
Proof. induction rest as [|g rest IH]; intros m H; [exact H|]. cbn. apply IH. apply reads0_comp. exact H. Qed.

Lemma stage_ok_okf g : stage_ok g -> stage_okf g.
Proof. destruct g; cbn; auto. Qed.

Lemma mono_filter_mod m rr : mono (need_filter_mod m rr).
Proof. intros a b H. unfold need_filter_mod. destruct a, b; try lia. assert (a * m <= b * m) by (apply Nat.mul_le_mono_r; lia). lia. Qed.

(* the first stage of a pipeline may be a filter (the shape the harness generates) *)
Definition stage_ok1 (g : stage) : Prop :=
  match g with
  | GFilter m r => r < m
  | _ => stage_ok g
  end.

Theorem model_bounded_filter m rr rest : rr < m -> Forall stage_ok rest ->
  forall ds k i, etr_ok (only i) (pneed (GFilter m rr) rest i) 0 0 (ptrace (GFilter m rr) rest ds k) = true.
Proof.
  intros Hrr Hok ds k i. unfold ptrace. rewrite etr_ok_erase.
  assert (H0 : reads0 (pmach (GFilter m rr) rest)) by (apply reads0_fold; apply reads0_mfilter).
  destruct i as [|i].
  - assert (HA : forall r ys, pallow (GFilter m rr) rest (only 0) (seq 0 r) ys ->
                   S r <= pneed (GFilter m rr) rest 0 (S (List.length ys))).
    { intros r ys HAl. apply filter_first_bound; assumption. }
    assert (HN : mono (pneed (GFilter m rr) rest 0)).
    { intros a b Hab. unfold pneed, pneedc. cbn [sneedc]. unfold one_src. cbn [only Nat.eqb].
      apply mono_filter_mod. apply (frest_mono rest Hok). exact Hab. }
    apply (counting_run (pmach (GFilter m rr) rest) (pallow (GFilter m rr) rest (only 0))
             (pneed (GFilter m rr) rest 0) ds H0 HA HN fuel0 k (init _) (spos0 ds) [] 0).
    + apply (gsafe_run (only 0) (pmach (GFilter m rr) rest) (pallow (GFilter m rr) rest (only 0))).
      apply pmach_gsafe; [exact Logic.I|]. eapply Forall_impl; [|exact Hok]. apply stage_ok_okf.
    + left. unfold spos0. destruct (List.length ds); reflexivity.
    + lia.
  - apply safe_run. apply safe_unread; [exact H0|reflexivity].
Qed.

Theorem model_bounded_all first rest : stage_ok1 first -> Forall stage_ok rest ->
  forall ds k i, etr_ok (only i) (pneed first rest i) 0 0 (ptrace first rest ds k) = true.
Proof.
  intros Hf Hr. destruct first; try (apply model_bounded; assumption).
  apply model_bounded_filter; assumption.
Qed.
