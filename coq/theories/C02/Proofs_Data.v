(* C02 - resample (read bound), filter (exact, data dependent need). *)
From Coq Require Import List Bool Arith ZArith Lia String.
From AL Require Import C02.Machine C02.Spec C02.MachineLemmas.
Import ListNotations.
Local Open Scope nat_scope.

Section ResampleP.
Context {A B : Type} (o : B) (n0 : nat) (idx0 thr stp one : Z) (c : nat -> bool).
Hypothesis Hone : (0 < one)%Z.
Hypothesis Hstp : (0 <= stp)%Z.

Definition rs_D (y : nat) : Z := (- ((thr - idx0 - Z.of_nat y * stp) / one))%Z.

Lemma rs_need_S y : need_resample n0 idx0 thr stp one (S y) = n0 + Z.to_nat (Z.max 0 (rs_D y)).
Proof. reflexivity. Qed.

(* the read that is about to happen (idx > thr) is inside the need *)
Lemma rs_read_ok y e idx : (0 <= e)%Z -> idx = (idx0 + Z.of_nat y * stp - e * one)%Z -> (thr < idx)%Z ->
  (e + 1 <= rs_D y)%Z.
Proof.
  intros He Hidx Hlt. unfold rs_D.
  assert (H : ((thr - idx0 - Z.of_nat y * stp) / one < - e)%Z).
  { apply Z.div_lt_upper_bound; [exact Hone|]. nia. }
  lia.
Qed.
(* all the reads done so far were inside the need *)
Lemma rs_done_ok y e idx : (0 < e)%Z -> idx = (idx0 + Z.of_nat y * stp - e * one)%Z -> (thr - one < idx)%Z ->
  (e <= rs_D y)%Z.
Proof.
  intros He Hidx Hlt. unfold rs_D.
  assert (H : ((thr - idx0 - Z.of_nat y * stp) / one < 1 - e)%Z).
  { apply Z.div_lt_upper_bound; [exact Hone|]. nia. }
  lia.
Qed.

Lemma mresample_safe : safe c (need_resample n0 idx0 thr stp one) (@mresample A B o n0 idx0 thr stp one).
Proof.
  exists (fun s r y =>
    match s with
    | RTake j => y = 0 /\ r + j <= n0
    | RGo idx => exists e : Z, (0 <= e)%Z /\ (Z.of_nat r <= Z.of_nat n0 + e)%Z /\
                               idx = (idx0 + Z.of_nat y * stp - e * one)%Z /\ ((0 < e)%Z -> (thr - one < idx)%Z)
    | RFin => r <= need_resample n0 idx0 thr stp one (S y)
    end).
  split; [cbn [init mresample]; lia|].
  intros s r y HI. unfold safe_step, bump. destruct s as [[|j]|idx|]; cbn [step mresample].
  - destruct HI as [Hy Hr]. exists 0%Z. subst y. repeat split; try lia.
  - destruct HI as [Hy Hr]. rewrite rs_need_S. repeat split; try (intros _); try destruct (c 0); lia.
  - destruct HI as [e [He [Hr [Hidx Hpos]]]].
    destruct (thr <? idx)%Z eqn:Cmp.
    + apply Z.ltb_lt in Cmp. pose proof (rs_read_ok y e idx He Hidx Cmp) as HD. rewrite rs_need_S.
      split; [destruct (c 0); lia|]. split.
      * intros _. exists (e + 1)%Z. repeat split; try (destruct (c 0); lia).
      * lia.
    + apply Z.ltb_ge in Cmp. rewrite rs_need_S. split.
      * destruct (Z.eq_dec e 0) as [E0|E0]; [lia|].
        assert (Hp : (0 < e)%Z) by lia. pose proof (rs_done_ok y e idx Hp Hidx (Hpos Hp)). lia.
      * exists e. repeat split; try lia.
  - exact HI.
Qed.
End ResampleP.

(* ------------------------------------------------------------------ filter *)
Definition stream_env {A : Type} (f : nat -> A) : env A := Env nat (fun p _ => (Item (f p), S p)).

(* number of passing items among f q, ..., f (q + len - 1) *)
Fixpoint npass {A : Type} (p : A -> bool) (f : nat -> A) (q len : nat) : nat :=
  match len with
  | 0 => 0
  | S l => (if p (f q) then 1 else 0) + npass p f (S q) l
  end.

Section FilterP.
Context {A : Type} (p : A -> bool) (f : nat -> A).

Lemma npass_last q len : p (f (q + len)) = true -> 1 <= npass p f q (S len).
Proof.
  revert q. induction len as [|l IH]; intros q H.
  - cbn. rewrite Nat.add_0_r in H. rewrite H. lia.
  - cbn [npass]. specialize (IH (S q)). rewrite Nat.add_succ_r in H. cbn [Nat.add] in IH. specialize (IH H).
    cbn [npass] in IH. lia.
Qed.

(* if f (q + len) is the (k+1)-th passing item from position q on, the (k+1)-th output costs len + 1 reads *)
Lemma mfilter_need_gen : forall len q k fuel,
  npass p f q (S len) = S k -> p (f (q + len)) = true -> S len + S k <= fuel ->
  reads 0 (run (mfilter p) (stream_env f) fuel (S k) FGo q) = S len /\
  nyields (run (mfilter p) (stream_env f) fuel (S k) FGo q) = S k /\
  clean (run (mfilter p) (stream_env f) fuel (S k) FGo q) = true.
Proof.
  induction len as [|l IH]; intros q k fuel Hn Hp Hf.
  - cbn [npass] in Hn. rewrite Nat.add_0_r in Hp. rewrite Hp in Hn. assert (k = 0) by lia. subst k.
    destruct fuel as [|[|f2]]; try lia. cbn [run step mfilter enext stream_env]. rewrite Hp.
    cbn [run step mfilter]. rewrite run_zero. cbn. repeat split; reflexivity.
  - cbn [npass] in Hn. rewrite Nat.add_succ_r in Hp.
    pose proof (npass_last (S q) l Hp) as Hlast.
    destruct fuel as [|f1]; [lia|]. cbn [run step mfilter enext stream_env].
    destruct (p (f q)) eqn:Pq.
    + destruct k as [|k']; [cbn [npass] in *; lia|].
      destruct f1 as [|f2]; [lia|]. cbn [run step mfilter].
      destruct (IH (S q) k' f2) as [A1 [A2 A3]]; [cbn [npass] in *; lia|exact Hp|lia|].
      unfold reads, nyields in *. cbn [filter is_read is_yield Nat.eqb List.length clean forallb andb].
      repeat split; try lia. exact A3.
    + destruct (IH (S q) k f1) as [A1 [A2 A3]]; [cbn [npass] in *; lia|exact Hp|lia|].
      unfold reads, nyields in *. cbn [filter is_read is_yield Nat.eqb List.length clean forallb andb].
      repeat split; try lia. exact A3.
Qed.
End FilterP.

(* ------------------------------------------------------------------ resample with a step stream *)
Section ResampleTV.
Context {A B : Type} (o : B) (n0 : nat) (idx0 thr stp one : Z) (c : nat -> bool).
Hypothesis Hone : (0 < one)%Z.
Hypothesis Hstp : (0 <= stp)%Z.

Lemma rs_D_mono y : (rs_D idx0 thr stp one y <= rs_D idx0 thr stp one (S y))%Z.
Proof.
  unfold rs_D.
  assert (((thr - idx0 - Z.of_nat (S y) * stp) / one <= (thr - idx0 - Z.of_nat y * stp) / one)%Z).
  { apply Z.div_le_mono; [exact Hone|]. nia. }
  lia.
Qed.

Lemma mresample_tv_safe :
  safe c (need_resample_tv c n0 idx0 thr stp one) (@mresample_tv A B o n0 idx0 thr stp one).
Proof.
  exists (fun s r y =>
    match s with
    | VTake j => y = 0 /\ r + (if c 0 then j else 0) <= (if c 0 then n0 else 0)
    | VGo idx => exists e : Z, (0 <= e)%Z /\
        (Z.of_nat r <= (if c 0 then Z.of_nat n0 + e else 0) + (if c 1 then Z.of_nat y else 0))%Z /\
        idx = (idx0 + Z.of_nat y * stp - e * one)%Z /\ ((0 < e)%Z -> (thr - one < idx)%Z)
    | VStep idx => exists (e : Z) (y' : nat), y = S y' /\ (0 <= e)%Z /\
        (Z.of_nat r <= (if c 0 then Z.of_nat n0 + e else 0) + (if c 1 then Z.of_nat y' else 0))%Z /\
        idx = (idx0 + Z.of_nat y' * stp - e * one)%Z /\ ((0 < e)%Z -> (thr - one < idx)%Z)
    | VFin => r <= need_resample_tv c n0 idx0 thr stp one (S y)
    end).
  split; [cbn [init mresample_tv]; destruct (c 0); lia|].
  intros s r y HI. unfold safe_step, bump, need_resample_tv. rewrite rs_need_S.
  destruct s as [[|j]|idx|idx|]; cbn [step mresample_tv].
  - destruct HI as [Hy Hr]. exists 0%Z. subst y. repeat split; try lia. destruct (c 0), (c 1); lia.
  - destruct HI as [Hy Hr]. subst y. destruct (c 0), (c 1); repeat split; try (intros _); lia.
  - destruct HI as [e [He [Hr [Hidx Hpos]]]].
    destruct (thr <? idx)%Z eqn:Cmp.
    + apply Z.ltb_lt in Cmp. pose proof (rs_read_ok idx0 thr stp one Hone y e idx He Hidx Cmp) as HD.
      split; [destruct (c 0), (c 1); lia|]. split.
      * intros _. exists (e + 1)%Z. repeat split; try lia. destruct (c 0), (c 1); lia.
      * destruct (c 0), (c 1); lia.
    + apply Z.ltb_ge in Cmp.
      assert (HE : (e <= Z.max 0 (rs_D idx0 thr stp one y))%Z).
      { destruct (Z.eq_dec e 0) as [E0|E0]; [lia|].
        assert (Hp : (0 < e)%Z) by lia. pose proof (rs_done_ok idx0 thr stp one Hone y e idx Hp Hidx (Hpos Hp)). lia. }
      split; [destruct (c 0), (c 1); lia|].
      exists e, y. repeat split; try lia.
  - destruct HI as [e [y' [Hy [He [Hr [Hidx Hpos]]]]]]. subst y.
    assert (HE : (e <= Z.max 0 (rs_D idx0 thr stp one (S y')))%Z).
    { pose proof (rs_D_mono y') as HM.
      destruct (Z.eq_dec e 0) as [E0|E0]; [lia|].
      assert (Hp : (0 < e)%Z) by lia. pose proof (rs_done_ok idx0 thr stp one Hone y' e idx Hp Hidx (Hpos Hp)). lia. }
    split; [destruct (c 0), (c 1); lia|]. split.
    + intros _. exists e. repeat split; try lia.
      * destruct (c 0), (c 1); lia.
    + destruct (c 0), (c 1); lia.
  - unfold need_resample_tv in HI. rewrite rs_need_S in HI. exact HI.
Qed.
End ResampleTV.
