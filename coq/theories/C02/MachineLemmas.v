(* C02 - generic lemmas on generator machines:
   safe  : step-closed invariant giving the read bound on EVERY environment (finite, endless, raising),
   live  : step-closed invariant giving exact read counts and an explicit fuel bound on endless environments,
   both compose along [comp] (needs compose), hence chains of any depth. *)
From Coq Require Import List Bool Arith Lia String.
From AL Require Import C02.Machine C02.Spec.
Import ListNotations.
Local Open Scope nat_scope.

Definition mono (f : nat -> nat) : Prop := forall a b, a <= b -> f a <= f b.

Section Safe.
Context {I O : Type}.
Variable (c : nat -> bool) (need : nat -> nat) (m : machine I O).

(* one step from a state where r counted items were read and y outputs were yielded *)
Definition safe_step (Inv : st m -> nat -> nat -> Prop) (s : st m) (r y : nat) : Prop :=
  match step m s with
  | Yield o s' => r <= need (S y) /\ Inv s' r (S y)
  | Read j k => bump c j r <= need (S y) /\ (forall x, Inv (k (Some x)) (bump c j r) y) /\ Inv (k None) r y
  | Tau s' => Inv s' r y
  | Stop => r <= need (S y)
  | Raise _ => True
  end.

Definition safe : Prop :=
  exists Inv : st m -> nat -> nat -> Prop,
    Inv (init m) 0 0 /\ forall s r y, Inv s r y -> safe_step Inv s r y.

Lemma safe_run_gen (Inv : st m -> nat -> nat -> Prop) (E : env I) :
  (forall s r y, Inv s r y -> safe_step Inv s r y) ->
  forall fuel k s e r y, Inv s r y -> tr_ok c need r y (run m E fuel k s e) = true.
Proof.
  intros Hstep. induction fuel as [|f IH]; intros k s e r y HI.
  - destruct k; reflexivity.
  - destruct k as [|k']; [reflexivity|].
    specialize (Hstep s r y HI). unfold safe_step in Hstep. cbn [run].
    destruct (step m s) as [o s'|j kont|s'| |err].
    + destruct Hstep as [Hle HI']. cbn [tr_ok]. apply andb_true_iff. split.
      * apply Nat.leb_le. exact Hle.
      * apply IH. exact HI'.
    + destruct Hstep as [Hle [HS HN]].
      destruct (enext E e j) as [[x| |] e'].
      * cbn [tr_ok]. apply andb_true_iff. split; [apply Nat.leb_le; exact Hle|]. apply IH. apply HS.
      * cbn [tr_ok]. apply IH. exact HN.
      * cbn [tr_ok]. rewrite andb_true_r. apply Nat.leb_le. exact Hle.
    + apply IH. exact Hstep.
    + cbn [tr_ok]. rewrite andb_true_r. apply Nat.leb_le. exact Hstep.
    + reflexivity.
Qed.

Theorem safe_run : safe -> forall (E : env I) fuel k e,
  tr_ok c need 0 0 (run m E fuel k (init m) e) = true.
Proof.
  intros [Inv [H0 Hs]] E fuel k e. apply (safe_run_gen Inv E Hs). exact H0.
Qed.
End Safe.

(* construction: a machine that has not been asked for anything has done nothing *)
Lemma run_zero {I O} (m : machine I O) (E : env I) fuel s e : run m E fuel 0 s e = [].
Proof. destruct fuel; reflexivity. Qed.

Section Live.
Context {I O : Type}.
Variable (c : nat -> bool) (need : nat -> nat) (m : machine I O).

(* on sources that never end: the next output comes within n steps, costs exactly need, for ever *)
Definition live_step (B : nat) (P : st m -> nat -> nat -> nat -> Prop) (s : st m) (r y n : nat) : Prop :=
  match step m s with
  | Yield o s' => r = need (S y) /\ P s' r (S y) B
  | Read j k => exists n', n = S n' /\ forall x, P (k (Some x)) (bump c j r) y n'
  | Tau s' => exists n', n = S n' /\ P s' r y n'
  | Stop => False
  | Raise _ => False
  end.

Definition live (B : nat) : Prop :=
  exists P : st m -> nat -> nat -> nat -> Prop,
    P (init m) 0 0 B /\ forall s r y n, P s r y n -> live_step B P s r y n.

Definition endless (E : env I) : Prop := forall e j, exists x e', enext E e j = (Item x, e').

Definition count_reads (t : list (ev O)) : nat :=
  List.length (filter (fun e => match e with EvRead j => c j | _ => false end) t).

Lemma nyields_yield o (t : list (ev O)) : nyields (EvYield o :: t) = S (nyields t).
Proof. reflexivity. Qed.
Lemma nyields_read j (t : list (ev O)) : nyields (EvRead j :: t) = nyields t.
Proof. reflexivity. Qed.
Lemma count_reads_yield o (t : list (ev O)) : count_reads (EvYield o :: t) = count_reads t.
Proof. reflexivity. Qed.
Lemma count_reads_read j (t : list (ev O)) : bump c j 0 + count_reads t = count_reads (EvRead j :: t).
Proof. unfold count_reads, bump. cbn [filter]. destruct (c j); reflexivity. Qed.
Lemma clean_yield o (t : list (ev O)) : clean (EvYield o :: t) = clean t.
Proof. reflexivity. Qed.
Lemma clean_read j (t : list (ev O)) : clean (EvRead j :: t) = clean t.
Proof. reflexivity. Qed.

Lemma live_run_gen (B : nat) (P : st m -> nat -> nat -> nat -> Prop) (E : env I) :
  endless E ->
  (forall s r y n, P s r y n -> live_step B P s r y n) ->
  forall fuel k s e r y n, P s r y n -> n + 1 + k * (B + 1) <= fuel ->
    nyields (run m E fuel (S k) s e) = S k /\
    r + count_reads (run m E fuel (S k) s e) = need (y + S k) /\
    clean (run m E fuel (S k) s e) = true /\
    tr_exact c need r y (run m E fuel (S k) s e) = true.
Proof.
  intros HE Hstep. induction fuel as [|f IH]; intros k s e r y n HP Hf; [lia|].
  specialize (Hstep s r y n HP). unfold live_step in Hstep. cbn [run].
  destruct (step m s) as [o s'|j kont|s'| |err]; try contradiction.
  - destruct Hstep as [Hr HP'].
    rewrite nyields_yield, count_reads_yield, clean_yield. cbn [tr_exact].
    rewrite Hr, Nat.eqb_refl. cbn [andb].
    destruct k as [|k'].
    + rewrite run_zero. cbn. repeat split; try reflexivity. rewrite Nat.add_0_r. f_equal. lia.
    + destruct (IH k' s' e r (S y) B HP') as [A1 [A2 [A3 A4]]]; [cbn in Hf |- *; lia|].
      rewrite <- Hr. repeat split; try assumption; try lia.
      replace (y + S (S k')) with (S y + S k') by lia. exact A2.
  - destruct Hstep as [n' [Hn HP']]. destruct (HE e j) as [x [e' Hx]]. rewrite Hx.
    destruct (IH k (kont (Some x)) e' (bump c j r) y n' (HP' x)) as [A1 [A2 [A3 A4]]]; [lia|].
    rewrite nyields_read, clean_read, <- count_reads_read. cbn [tr_exact].
    repeat split; try assumption.
    unfold bump in *. destruct (c j); lia.
  - destruct Hstep as [n' [Hn HP']]. apply (IH k s' e r y n' HP'). lia.
Qed.

(* exact need and explicit fuel bound ("finite time") on every endless environment *)
Theorem live_run (B : nat) : live B -> forall (E : env I), endless E -> forall k fuel e,
  (S k) * (B + 1) <= fuel ->
  nyields (run m E fuel (S k) (init m) e) = S k /\
  count_reads (run m E fuel (S k) (init m) e) = need (S k) /\
  clean (run m E fuel (S k) (init m) e) = true /\
  tr_exact c need 0 0 (run m E fuel (S k) (init m) e) = true.
Proof.
  intros [P [H0 Hs]] E HE k fuel e Hf.
  destruct (live_run_gen B P E HE Hs fuel k (init m) e 0 0 B H0) as [A1 [A2 [A3 A4]]]; [cbn in Hf |- *; lia|].
  repeat split; assumption.
Qed.
End Live.

Lemma count_reads_only {O} i (t : list (ev O)) : count_reads (only i) t = reads i t.
Proof. reflexivity. Qed.

(* more fuel never changes what was already produced: the trace with less fuel, if it did not run
   out of fuel, is the trace with more fuel *)
Section Mono.
Context {I O : Type} (m : machine I O) (E : env I).
Definition no_out (t : list (ev O)) : bool := forallb (fun e => match e with EvOut => false | _ => true end) t.
Lemma run_mono : forall fuel fuel' k s e, fuel <= fuel' ->
  no_out (run m E fuel k s e) = true -> run m E fuel' k s e = run m E fuel k s e.
Proof.
  induction fuel as [|f IH]; intros fuel' k s e Hle Hno.
  - destruct k; [destruct fuel'; reflexivity|]. cbn in Hno. discriminate.
  - destruct fuel' as [|f']; [lia|]. destruct k as [|k']; [reflexivity|].
    cbn [run] in *. destruct (step m s) as [o s'|j kont|s'| |err]; try reflexivity.
    + cbn in Hno. f_equal. apply IH; [lia|exact Hno].
    + destruct (enext E e j) as [[x| |] e']; try reflexivity; cbn in Hno; f_equal; apply IH; try lia; exact Hno.
    + apply IH; [lia|exact Hno].
Qed.
End Mono.

(* ------------------------------------------------------------------ composition *)
Section CompSafe.
Context {I M O : Type} (m2 : machine M O) (m1 : machine I M).
Variable (c : nat -> bool) (n1 n2 : nat -> nat).

Theorem safe_comp : mono n1 -> mono n2 ->
  safe c n1 m1 -> safe every n2 m2 -> safe c (need_comp n1 n2) (comp m2 m1).
Proof.
  intros M1 M2 [I1 [H10 H1s]] [I2 [H20 H2s]].
  exists (fun s r y =>
    match s with
    | CRun _ _ s2 (Some s1) => exists r2, I2 s2 r2 y /\ I1 s1 r r2 /\ r <= n1 r2
    | CRun _ _ s2 None => exists r2, I2 s2 r2 y /\ r <= n1 (n2 (S y))
    | CWait _ _ k s1 => exists r2, (forall x, I2 (k (Some x)) (S r2) y) /\ I2 (k None) r2 y /\
                                   S r2 <= n2 (S y) /\ I1 s1 r r2
    end).
  split.
  - cbn. exists 0. split; [exact H20|]. split; [exact H10|]. lia.
  - intros s r y HI. unfold safe_step, need_comp. destruct s as [s2 [s1|]|k s1]; cbn [step comp].
    + destruct HI as [r2 [HI2 [HI1 Hr]]]. specialize (H2s s2 r2 y HI2). unfold safe_step in H2s.
      destruct (step m2 s2) as [o s2'|j kont|s2'| |err].
      * destruct H2s as [Hle HI2']. split.
        -- etransitivity; [exact Hr|]. apply M1. exact Hle.
        -- exists r2. repeat split; assumption.
      * destruct H2s as [Hle [HS HN]]. unfold bump, every in *. exists r2. repeat split; assumption.
      * exists r2. repeat split; assumption.
      * etransitivity; [exact Hr|]. apply M1. exact H2s.
      * exact Logic.I.
    + destruct HI as [r2 [HI2 Hr]]. specialize (H2s s2 r2 y HI2). unfold safe_step in H2s.
      destruct (step m2 s2) as [o s2'|j kont|s2'| |err].
      * destruct H2s as [Hle HI2']. split; [exact Hr|]. exists r2. split; [exact HI2'|].
        etransitivity; [exact Hr|]. apply M1. apply M2. lia.
      * destruct H2s as [Hle [HS HN]]. exists r2. split; assumption.
      * exists r2. split; assumption.
      * exact Hr.
      * exact Logic.I.
    + destruct HI as [r2 [HS [HN [Hle HI1]]]]. specialize (H1s s1 r r2 HI1). unfold safe_step in H1s.
      destruct (step m1 s1) as [o s1'|j kont|s1'| |err].
      * destruct H1s as [Hr HI1']. exists (S r2). repeat split; [apply HS|exact HI1'|exact Hr].
      * destruct H1s as [Hb [HS1 HN1]]. split; [|split].
        -- etransitivity; [exact Hb|]. apply M1. exact Hle.
        -- intro x. exists r2. repeat split; try assumption. apply HS1.
        -- exists r2. repeat split; assumption.
      * exists r2. repeat split; assumption.
      * exists r2. split; [exact HN|]. etransitivity; [exact H1s|]. apply M1. exact Hle.
      * exact Logic.I.
Qed.
End CompSafe.

Section CompLive.
Context {I M O : Type} (m2 : machine M O) (m1 : machine I M).
Variable (c : nat -> bool) (n1 n2 : nat -> nat) (B1 B2 : nat).

Theorem live_comp : n1 0 = 0 ->
  live c n1 m1 B1 -> live every n2 m2 B2 -> live c (need_comp n1 n2) (comp m2 m1) (B2 * (B1 + 2)).
Proof.
  intros N0 [P1 [H10 H1s]] [P2 [H20 H2s]].
  exists (fun s r y n =>
    match s with
    | CRun _ _ s2 (Some s1) => exists r2 b2, P2 s2 r2 y b2 /\ P1 s1 r r2 B1 /\ r = n1 r2 /\ b2 * (B1 + 2) <= n
    | CRun _ _ s2 None => False
    | CWait _ _ k s1 => exists r2 b2 b1, (forall x, P2 (k (Some x)) (S r2) y b2) /\ P1 s1 r r2 b1 /\
                                         b2 * (B1 + 2) + b1 + 1 <= n
    end).
  split.
  - cbn. exists 0, B2. repeat split; try assumption; try lia.
  - intros s r y n HP. unfold live_step, need_comp. destruct s as [s2 [s1|]|k s1]; cbn [step comp]; try contradiction.
    + destruct HP as [r2 [b2 [HP2 [HP1 [Hr Hn]]]]]. specialize (H2s s2 r2 y b2 HP2). unfold live_step in H2s.
      destruct (step m2 s2) as [o s2'|j kont|s2'| |err]; try contradiction.
      * destruct H2s as [Hr2 HP2']. split; [congruence|]. exists r2, B2. repeat split; try assumption. lia.
      * destruct H2s as [b2' [Hb HP2']]. subst b2. destruct n as [|n']; [cbn in Hn; lia|].
        exists n'. split; [reflexivity|]. exists r2, b2', B1. unfold bump, every in HP2'.
        repeat split; try assumption. cbn in Hn. lia.
      * destruct H2s as [b2' [Hb HP2']]. subst b2. destruct n as [|n']; [cbn in Hn; lia|].
        exists n'. split; [reflexivity|]. exists r2, b2'. repeat split; try assumption. cbn in Hn. lia.
    + destruct HP as [r2 [b2 [b1 [HP2 [HP1 Hn]]]]]. specialize (H1s s1 r r2 b1 HP1). unfold live_step in H1s.
      destruct (step m1 s1) as [o s1'|j kont|s1'| |err]; try contradiction.
      * destruct H1s as [Hr HP1']. destruct n as [|n']; [lia|]. exists n'. split; [reflexivity|].
        exists (S r2), b2. repeat split; try assumption; try apply HP2. lia.
      * destruct H1s as [b1' [Hb HP1']]. subst b1. destruct n as [|n']; [lia|]. exists n'. split; [reflexivity|].
        intro x. exists r2, b2, b1'. repeat split; try assumption; try apply HP1'. lia.
      * destruct H1s as [b1' [Hb HP1']]. subst b1. destruct n as [|n']; [lia|]. exists n'. split; [reflexivity|].
        exists r2, b2, b1'. repeat split; try assumption. lia.
Qed.
End CompLive.

(* relabelling the outputs changes nothing *)
Lemma safe_omap {I O O'} (f : O -> O') c need (m : machine I O) : safe c need m -> safe c need (omap f m).
Proof.
  intros [Inv [H0 Hs]]. exists Inv. split; [exact H0|].
  intros s r y HI. specialize (Hs s r y HI). unfold safe_step in *. cbn [step omap].
  destruct (step m s); assumption.
Qed.
Lemma live_omap {I O O'} (f : O -> O') c need (m : machine I O) B : live c need m B -> live c need (omap f m) B.
Proof.
  intros [P [H0 Hs]]. exists P. split; [exact H0|].
  intros s r y n HP. specialize (Hs s r y n HP). unfold live_step in *. cbn [step omap].
  destruct (step m s); assumption.
Qed.

(* a need can always be relaxed *)
Lemma safe_weaken {I O} c (n n' : nat -> nat) (m : machine I O) :
  (forall k, n k <= n' k) -> safe c n m -> safe c n' m.
Proof.
  intros Hle [Inv [H0 Hs]]. exists Inv. split; [exact H0|].
  intros s r y HI. specialize (Hs s r y HI). unfold safe_step in *.
  destruct (step m s) as [o s'|j kont|s'| |err]; try assumption.
  - destruct Hs as [A B]. split; [specialize (Hle (S y)); lia|exact B].
  - destruct Hs as [A B]. split; [specialize (Hle (S y)); lia|exact B].
  - specialize (Hle (S y)); lia.
Qed.
