(* C02 - the needs of the families spelled out on runs: exact read counts on endless sources. *)
From Coq Require Import List Bool Arith ZArith Lia String.
From AL Require Import C08.Model C02.Machine C02.Spec C02.MachineLemmas C02.Model C02.Check
  C02.Proofs_Families C02.Proofs_Blocks C02.Proofs_Data C02.Proofs_Pipeline.
Import ListNotations.
Local Open Scope nat_scope.

Lemma stream_env_endless {A} (f : nat -> A) : endless (stream_env f).
Proof. intros e j. exists (f e), (S e). reflexivity. Qed.

(* from a [live] certificate to the statement on runs *)
Lemma need_exact {I O} (m : machine I O) need B : live (only 0) need m B ->
  forall E : env I, endless E -> forall k fuel e, S k * (B + 1) <= fuel ->
  reads 0 (run m E fuel (S k) (init m) e) = need (S k) /\
  nyields (run m E fuel (S k) (init m) e) = S k /\
  clean (run m E fuel (S k) (init m) e) = true.
Proof.
  intros HL E HE k fuel e Hf.
  destruct (live_run (only 0) need m B HL E HE k fuel e Hf) as [A1 [A2 [A3 _]]].
  rewrite count_reads_only in A2. repeat split; assumption.
Qed.

Section Cor.
Context {A : Type} (E : env A) (HE : endless E).

Lemma mealy_need {B Sg} (delta : Sg -> A -> Sg * B) s0 k fuel e : S k * 2 <= fuel ->
  reads 0 (run (mealy delta s0) E fuel (S k) (init _) e) = S k /\
  nyields (run (mealy delta s0) E fuel (S k) (init _) e) = S k /\
  clean (run (mealy delta s0) E fuel (S k) (init _) e) = true.
Proof. intro Hf. apply (need_exact _ need_id 1); [apply mealy_live; reflexivity|exact HE|exact Hf]. Qed.

Lemma mzip_need order i k fuel e : S k * (List.length order + 1) <= fuel ->
  reads i (run (@mzip A order) E fuel (S k) (init _) e) = S k * count_occ Nat.eq_dec order i /\
  nyields (run (@mzip A order) E fuel (S k) (init _) e) = S k /\
  clean (run (@mzip A order) E fuel (S k) (init _) e) = true.
Proof.
  intro Hf.
  destruct (live_run (only i) _ _ _ (mzip_live order (only i)) E HE k fuel e Hf) as [A1 [A2 [A3 _]]].
  rewrite count_reads_only, need_zipc_only in A2. repeat split; assumption.
Qed.

Lemma mskip_need n k fuel e : S k * (S n + 1) <= fuel ->
  reads 0 (run (@mskip A n) E fuel (S k) (init _) e) = n + S k /\
  nyields (run (@mskip A n) E fuel (S k) (init _) e) = S k /\
  clean (run (@mskip A n) E fuel (S k) (init _) e) = true.
Proof. intro Hf. apply (need_exact _ (need_skip n) (S n)); [apply mskip_live; reflexivity|exact HE|exact Hf]. Qed.

Lemma mpad_need (pad : A) left right k fuel e : S k * 2 <= fuel ->
  reads 0 (run (mpad pad left right) E fuel (S k) (init _) e) = S k - left /\
  nyields (run (mpad pad left right) E fuel (S k) (init _) e) = S k /\
  clean (run (mpad pad left right) E fuel (S k) (init _) e) = true.
Proof. intro Hf. apply (need_exact _ (need_pad left) 1); [apply mpad_live; reflexivity|exact HE|exact Hf]. Qed.

Lemma mblocks_need size hop (pad : A) j fuel e : 1 <= size -> 1 <= hop -> S j * (size + hop + 1) <= fuel ->
  reads 0 (run (mblocks size hop pad) E fuel (S j) (init _) e) = j * hop + size /\
  nyields (run (mblocks size hop pad) E fuel (S j) (init _) e) = S j /\
  clean (run (mblocks size hop pad) E fuel (S j) (init _) e) = true.
Proof.
  intros Hs Hh Hf.
  apply (need_exact _ (need_blocks size hop) (size + hop)); [apply mblocks_live; try assumption; reflexivity|exact HE|exact Hf].
Qed.

Lemma mparallel_need n k fuel e : S k * (S n + 1) <= fuel ->
  reads 0 (run (@mparallel A n) E fuel (S k) (init _) e) = S k /\
  nyields (run (@mparallel A n) E fuel (S k) (init _) e) = S k /\
  clean (run (@mparallel A n) E fuel (S k) (init _) e) = true.
Proof. intro Hf. apply (need_exact _ need_id (S n)); [apply mparallel_live; reflexivity|exact HE|exact Hf]. Qed.

Lemma mola_need {B} (o : B) size hop auto k fuel e : 1 <= hop -> S k * 2 <= fuel ->
  reads 0 (run (@mola A B o size hop auto) E fuel (S k) (init _) e) = k / hop + 1 /\
  nyields (run (@mola A B o size hop auto) E fuel (S k) (init _) e) = S k /\
  clean (run (@mola A B o size hop auto) E fuel (S k) (init _) e) = true.
Proof.
  intros Hh Hf.
  apply (need_exact _ (need_ola hop) 1); [apply mola_live; try assumption; reflexivity|exact HE|exact Hf].
Qed.

(* the STFT wrapper: overlap-add of processed blocks of the signal *)
Definition mstft {B Sg C : Type} (size hop : nat) (pad : A) (delta : Sg -> list A -> Sg * B) (s0 : Sg) (o : C)
  : machine A C :=
  comp (mola o size hop false) (comp (mealy delta s0) (mblocks size hop pad)).

Lemma mstft_live {B Sg C} size hop (pad : A) (delta : Sg -> list A -> Sg * B) s0 (o : C) :
  1 <= size -> 1 <= hop ->
  live (only 0) (need_stft size hop) (mstft size hop pad delta s0 o) (1 * (1 * (size + hop + 2) + 2)).
Proof.
  intros Hs Hh. unfold mstft.
  apply (live_comp (mola o size hop false) (comp (mealy delta s0) (mblocks size hop pad)) (only 0)
           (need_blocks size hop) (need_ola hop)).
  - reflexivity.
  - apply (live_comp (mealy delta s0) (mblocks size hop pad) (only 0) (need_blocks size hop) need_id).
    + reflexivity.
    + apply mblocks_live; try assumption; reflexivity.
    + apply mealy_live. reflexivity.
  - apply mola_live; [exact Hh|reflexivity].
Qed.

Lemma mstft_need {B Sg C} size hop (pad : A) (delta : Sg -> list A -> Sg * B) s0 (o : C) k fuel e :
  1 <= size -> 1 <= hop -> S k * (size + hop + 5) <= fuel ->
  reads 0 (run (mstft size hop pad delta s0 o) E fuel (S k) (init _) e) = (k / hop) * hop + size /\
  nyields (run (mstft size hop pad delta s0 o) E fuel (S k) (init _) e) = S k /\
  clean (run (mstft size hop pad delta s0 o) E fuel (S k) (init _) e) = true.
Proof.
  intros Hs Hh Hf.
  destruct (need_exact _ _ _ (mstft_live size hop pad delta s0 o Hs Hh) E HE k fuel e) as [A1 A2]; [lia|].
  split; [|exact A2]. rewrite A1. unfold need_stft, need_ola, need_blocks.
  replace (k / hop + 1) with (S (k / hop)) by lia. reflexivity.
Qed.
End Cor.

(* pipelines of the stage table on endless sources: exact need, explicit fuel *)
Theorem pipeline_exact first rest : stage_live first -> Forall stage_live rest ->
  forall E : env nat, endless E -> forall k fuel e,
  S k * (pbound (sbound first) rest + 1) <= fuel ->
  reads 0 (run (pmach first rest) E fuel (S k) (init _) e) = pneed first rest 0 (S k) /\
  nyields (run (pmach first rest) E fuel (S k) (init _) e) = S k /\
  clean (run (pmach first rest) E fuel (S k) (init _) e) = true.
Proof.
  intros Hf Hr E HE k fuel e Hfu.
  apply (need_exact _ _ _ (pmach_live first rest (only 0) eq_refl Hf Hr) E HE k fuel e Hfu).
Qed.

(* filter: reads before the (k+1)-th output = 1 + index of the (k+1)-th passing item *)
Theorem mfilter_need {A} (p : A -> bool) (f : nat -> A) idx k fuel :
  npass p f 0 (S idx) = S k -> p (f idx) = true -> S idx + S k <= fuel ->
  reads 0 (run (mfilter p) (stream_env f) fuel (S k) (init _) 0) = S idx /\
  nyields (run (mfilter p) (stream_env f) fuel (S k) (init _) 0) = S k /\
  clean (run (mfilter p) (stream_env f) fuel (S k) (init _) 0) = true.
Proof. intros H1 H2 H3. apply (mfilter_need_gen p f idx 0 k fuel H1 H2 H3). Qed.

(* ---------------------------------------------------------------- denotation of the yields *)
(* a finite source given as the list of its items *)
Definition list_env {A : Type} : env A :=
  Env (list A) (fun l _ => match l with x :: r => (Item x, r) | [] => (End, []) end).

Section Den.
Context {A B Sg : Type} (delta : Sg -> A -> Sg * B).
Fixpoint mealy_den (g : Sg) (xs : list A) : list B :=
  match xs with
  | [] => []
  | x :: r => let '(g', o) := delta g x in o :: mealy_den g' r
  end.

(* what a Mealy stage yields for k demands is the first k items of its denotation *)
Lemma mealy_trace_yields s0 : forall xs g k fuel, 2 * k <= fuel ->
  yields (run (mealy delta s0) list_env fuel k (MIdle g : st (mealy delta s0)) xs) = firstn k (mealy_den g xs).
Proof.
  induction xs as [|x r IH]; intros g k fuel Hf.
  - destruct k as [|k']; [rewrite run_zero; reflexivity|].
    destruct fuel as [|[|f]]; try lia. reflexivity.
  - destruct k as [|k']; [rewrite run_zero; reflexivity|].
    destruct fuel as [|[|f]]; try lia.
    cbn [run step mealy enext list_env mealy_den]. destruct (delta g x) as [g' o].
    cbn [run step mealy yields flat_map app firstn]. f_equal. apply IH. lia.
Qed.
End Den.
