(* C02 - what the property promises, independent of the machines' internals:
   the "need" of a stage (how many items of a source the first k outputs may cost) and the
   boolean judgement of an event trace against a need function.  Definitions only. *)
From Coq Require Import List Bool Arith ZArith.
From AL Require Import C02.Machine.
Import ListNotations.
Local Open Scope nat_scope.

(* [c] says which sources are being counted *)
Definition bump (c : nat -> bool) (j r : nat) : nat := if c j then S r else r.
Definition only (i : nat) : nat -> bool := fun j => Nat.eqb j i.
Definition every : nat -> bool := fun _ => true.

(* [tr_ok i need r y t]: along t (r items read from source i and y yields so far; finding a source
   exhausted is not reading an item), every read on source i is one that the next output is allowed to cost, and at every yield / stop the
   reads so far are within the need of the output being asked for.  Nothing may be read
   before the first demand: a trace starts with r = 0, y = 0. *)
Fixpoint tr_ok {O : Type} (i : nat -> bool) (need : nat -> nat) (r y : nat) (t : list (ev O)) : bool :=
  match t with
  | [] => true
  | EvRead j :: t' => (bump i j r <=? need (S y)) && tr_ok i need (bump i j r) y t'
  | EvYield _ :: t' => (r <=? need (S y)) && tr_ok i need r (S y) t'
  | EvStop :: t' => (r <=? need (S y)) && tr_ok i need r y t'
  | EvEnd _ :: t' => tr_ok i need r y t'
  | EvRaise _ :: t' => tr_ok i need r y t'
  | EvOut :: t' => tr_ok i need r y t'
  end.

(* exactness on a trace: at the moment of the j-th yield exactly [need j] items were read *)
Fixpoint tr_exact {O : Type} (i : nat -> bool) (need : nat -> nat) (r y : nat) (t : list (ev O)) : bool :=
  match t with
  | [] => true
  | EvRead j :: t' => tr_exact i need (bump i j r) y t'
  | EvYield _ :: t' => (r =? need (S y)) && tr_exact i need r (S y) t'
  | EvEnd _ :: t' => tr_exact i need r y t'
  | EvStop :: t' => tr_exact i need r y t'
  | EvRaise _ :: t' => tr_exact i need r y t'
  | EvOut :: t' => tr_exact i need r y t'
  end.

(* ---------------------------------------------------------------- need functions *)
Definition need_id (k : nat) : nat := k.
Definition need_skip (n k : nat) : nat := match k with 0 => 0 | _ => n + k end.
Definition need_limit (n k : nat) : nat := Nat.min n k.
Definition need_pad (left k : nat) : nat := k - left.
(* j blocks cost (j-1)*hop + size items *)
Definition need_blocks (size hop j : nat) : nat := match j with 0 => 0 | S j' => j' * hop + size end.
(* sample number k (1-based) of an overlap-add needs block number (k-1)/hop + 1 *)
Definition need_ola (hop k : nat) : nat := match k with 0 => 0 | S k' => k' / hop + 1 end.
(* STFT wrapper = overlap-add of processed blocks *)
Definition need_stft (size hop k : nat) : nat := need_blocks size hop (need_ola hop k).
(* tee: the copy that was asked most often among the first k demands *)
Definition count_dem (c : nat) (sched : list nat) : nat := count_occ Nat.eq_dec sched c.
Definition need_tee (n : nat) (sched : list nat) (k : nat) : nat :=
  fold_right Nat.max 0 (map (fun c => count_dem c (firstn k sched)) (seq 0 n)).
(* zip-like stages: one item per output on each of their sources (counted with multiplicity) *)
Definition need_zip (order : list nat) (i k : nat) : nat := k * count_occ Nat.eq_dec order i.
Definition need_chain (order : list nat) (i k : nat) : nat := if in_dec Nat.eq_dec i order then k else 0.
(* the same two needs for an arbitrary set c of counted sources *)
Definition cnt (c : nat -> bool) (l : list nat) : nat := List.length (filter c l).
Definition need_zipc (c : nat -> bool) (order : list nat) (k : nat) : nat := k * cnt c order.
Definition need_chainc (c : nat -> bool) (order : list nat) (k : nat) : nat :=
  if existsb c order then k else 0.
(* a stage that reads source 0 only *)
Definition one_src (c : nat -> bool) (n : nat -> nat) : nat -> nat := if c 0 then n else fun _ => 0.
(* filter on the counting source 0,1,2,...: x mod m = r passes; the j-th passing item is r + (j-1)*m *)
Definition need_filter_mod (m r j : nat) : nat := match j with 0 => 0 | S j' => r + j' * m + 1 end.
(* resample: n0 items of look-ahead, then one more item each time the read position passes the
   threshold; integers in units of 1/(2*new) *)
Definition need_resample (n0 : nat) (idx0 thr stp one : Z) (k : nat) : nat :=
  match k with
  | 0 => 0
  | S k' => n0 + Z.to_nat (Z.max 0 (- ((thr - idx0 - Z.of_nat k' * stp) / one)))%Z
  end.

(* resample with a step stream: the input as for a constant step, the step stream one item per
   output already delivered (k-1 items for k outputs); c selects the counted sources *)
Definition need_resample_tv (c : nat -> bool) (n0 : nat) (idx0 thr stp one : Z) (k : nat) : nat :=
  (if c 0 then need_resample n0 idx0 thr stp one k else 0) + (if c 1 then k - 1 else 0).

(* attack with a sustain stream: one item of look-ahead at the first demand (the decay target), then
   one item per output after the n samples of the attack and decay lines *)
Definition need_attack (n k : nat) : nat := match k with 0 => 0 | _ => 1 + (k - n) end.

(* composition of needs along a chain: the first stage reads the sources *)
Definition need_comp (n1 n2 : nat -> nat) (k : nat) : nat := n1 (n2 k).
